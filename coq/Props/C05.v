(* Property C05: a stream cut at any byte yields exactly the records of its complete frames. *)
From Coq Require Import List NArith ZArith Bool.
From Stef Require Import Bits Codecs Schema Wire Frame FrameFacts.
Import ListNotations.
Open Scope N_scope.

(* a whole frame is parsed back exactly, whatever follows *)
Theorem C05_frame_roundtrip : forall fl content rest, frame_ok fl content ->
  parse_frame (emit_frame fl content ++ rest) = inr (fl, content, rest).
Proof. exact parse_frame_emit. Qed.
Print Assumptions C05_frame_roundtrip.

(* a strict non-empty prefix of a frame is never mistaken for a frame *)
Theorem C05_frame_prefix_rejected : forall fl content k, frame_ok fl content ->
  (0 < k)%nat -> (k < length (emit_frame fl content))%nat ->
  parse_frame (firstn k (emit_frame fl content)) = inl PTrunc.
Proof. exact parse_frame_prefix. Qed.
Print Assumptions C05_frame_prefix_rejected.

(* every cut offset of every frame sequence (uncompressed): exactly the complete frames, in
   order, then end (cut at a boundary) or truncation (cut inside a frame); no frame count bound *)
Theorem C05_cut_anywhere : forall done fl c k fuel,
  Forall (fun f => frame_ok (fst f) (snd f)) done -> frame_ok fl c ->
  (k < length (emit_frame fl c))%nat -> (length done + 1 < fuel)%nat ->
  parse_all fuel (emit_all done ++ firstn k (emit_frame fl c)) =
  (done, if (k =? 0)%nat then PEnd else PTrunc).
Proof. exact parse_all_cut. Qed.
Print Assumptions C05_cut_anywhere.

Theorem C05_complete_stream : forall frames fuel, Forall (fun f => frame_ok (fst f) (snd f)) frames ->
  (length frames < fuel)%nat -> parse_all fuel (emit_all frames) = (frames, PEnd).
Proof. exact parse_all_emit. Qed.
Print Assumptions C05_complete_stream.
