(* Property C06: flushed records readable at once; frame-bounded reads never touch the source. *)
From Coq Require Import List NArith ZArith Bool.
From Stef Require Import Bits Codecs Schema Wire Apply Frame FrameFacts Reader ReaderFacts.
Import ListNotations.
Open Scope N_scope.

(* Read{TillEndOfFrame} is a function of the loaded frame only: replacing the source by any
   other source changes nothing but the source handed back *)
Theorem C06_bounded_read_ignores_source : forall sizes fuel k r s,
  reader_read sizes fuel k true (with_src r s) = result_with_src (reader_read sizes fuel k true r) s.
Proof. exact bounded_read_ignores_source. Qed.
Print Assumptions C06_bounded_read_ignores_source.

Theorem C06_bounded_read_end_of_frame : forall sizes fuel k r, rd_left r = 0 ->
  reader_read sizes fuel (S k) true r = RdEndOfFrame r.
Proof. exact bounded_read_end_of_frame. Qed.
Print Assumptions C06_bounded_read_end_of_frame.

Theorem C06_record_from_loaded_frame : forall sizes fuel k tef r r' w, rd_left r <> 0 ->
  reader_read sizes fuel (S k) tef r = RdRecord r' w ->
  rd_src r' = rd_src r /\ rd_left r' = rd_left r - 1 /\ rd_count r' = rd_count r + 1.
Proof. exact read_uses_loaded_frame. Qed.
Print Assumptions C06_record_from_loaded_frame.

Theorem C06_end_at_boundary : forall sizes fuel k r, rd_left r = 0 ->
  next_frame (rd_src r) = inl PEnd -> reader_read sizes fuel (S k) false r = RdEnd.
Proof. exact end_at_boundary. Qed.
Print Assumptions C06_end_at_boundary.

(* a flushed frame is complete in the byte stream (Flush emits whole frames), so it is available
   to the reader without any later byte *)
Theorem C06_flushed_frame_available : forall fl content rest, frame_ok fl content ->
  next_frame (SrcBytes ([] ++ emit_frame fl content ++ rest)) = inr (fl, content, SrcBytes rest).
Proof. exact resume_after_append. Qed.
Print Assumptions C06_flushed_frame_available.

(* ---- stream level (Stream/InterleaveFacts.v): after the writer has flushed fr1 (and possibly emitted a
   strict prefix p of the next frame), a reader obtains exactly the records of fr1, with the right values,
   and then end of data (p empty) or truncation (p a strict prefix) - never a record of the unflushed
   frame; and under ANY interleaving of "flush more frames / emit part of the next one" with "read until
   end of data" every record is delivered exactly once, in order ---- *)
From Stef Require Import Bits Codecs Schema Wire WireOk Frame FrameFacts Reader Writer FrameContentFacts FrameContentInv StreamFactsBase StreamFacts LimitsCompose InterleaveFacts.

Theorem C06_flushed_prefix_readable : forall (sizes : N -> N) (fuel : nat) (t : etree) (fr1 fr2 : list (N * list wire)) (ws0 : wst) (r0 : reader) (p : list N) (kr k : nat),
  rd_tree r0 = t -> rd_left r0 = 0 ->
  rd_src r0 = SrcBytes (emit_all (stream_encode t ws0 fr1) ++ p) ->
  pending t (stream_end t ws0 fr1) fr2 p ->
  carry ws0 (rd_st r0) -> acc_empty ws0 -> outside_default ws0 t ->
  NoDup (tree_cols t) -> fc_ok t ->
  stream_ok sizes fuel t (fr1 ++ fr2) ws0 (rd_rec r0) (rd_td r0) = true ->
  (length fr1 < kr)%nat -> (length (concat (map snd fr1)) < k)%nat ->
  read_all sizes fuel kr k r0 = (concat (map snd fr1), stream_values t fr1 (rd_rec r0) (rd_td r0), Some (pending_result p)) /\
  (exists rest : list N, emit_all (stream_encode t ws0 (fr1 ++ fr2)) = (emit_all (stream_encode t ws0 fr1) ++ p) ++ rest).
Proof. exact flushed_prefix_readable. Qed.
Print Assumptions C06_flushed_prefix_readable.

Theorem C06_interleaved_read : forall (sizes : N -> N) (fuel kr kk : nat) (t : etree) (ws0 : wst) (frames : list (N * list wire)) (v0 : rnode) (td0 : Apply.tdicts),
  NoDup (tree_cols t) -> fc_ok t ->
  stream_ok sizes fuel t frames ws0 v0 td0 = true ->
  (length frames < kr)%nat -> (length (concat (map snd frames)) < kk)%nat ->
  forall s : istate, ireach sizes fuel kr kk t ws0 frames v0 td0 s ->
  exists m : nat,
    i_out s = firstn m (concat (map snd frames)) /\
    (m <= length (concat (map snd (firstn (i_k s) frames))))%nat /\
    (exists F1 G : list (N * list wire), frames = F1 ++ G /\ (length F1 <= i_k s)%nat /\ i_out s = concat (map snd F1) /\ i_vals s = stream_values t F1 v0 td0) /\
    (i_eod s = true -> i_out s = concat (map snd (firstn (i_k s) frames)) /\ i_vals s = stream_values t (firstn (i_k s) frames) v0 td0).
Proof. exact interleaved_read. Qed.
Print Assumptions C06_interleaved_read.
