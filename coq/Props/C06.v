(* Property C06: flushed records readable at once; frame-bounded reads never touch the source. *)
From Coq Require Import List NArith ZArith Bool.
From Stef Require Import Bits Codecs Schema Wire Apply Frame FrameFacts Reader ReaderFacts.
Import ListNotations.
Open Scope N_scope.

(* Read{TillEndOfFrame} is a function of the loaded frame only: replacing the source by any
   other source changes nothing but the source handed back *)
Theorem C06_bounded_read_ignores_source : forall sizes fuel k r s,
  reader_read sizes fuel k true (with_src r s) = result_with_src (reader_read sizes fuel k true r) s.
Proof. exact bounded_read_ignores_source. Qed.
Print Assumptions C06_bounded_read_ignores_source.

Theorem C06_bounded_read_end_of_frame : forall sizes fuel k r, rd_left r = 0 ->
  reader_read sizes fuel (S k) true r = RdEndOfFrame r.
Proof. exact bounded_read_end_of_frame. Qed.
Print Assumptions C06_bounded_read_end_of_frame.

Theorem C06_record_from_loaded_frame : forall sizes fuel k tef r r' w, rd_left r <> 0 ->
  reader_read sizes fuel (S k) tef r = RdRecord r' w ->
  rd_src r' = rd_src r /\ rd_left r' = rd_left r - 1 /\ rd_count r' = rd_count r + 1.
Proof. exact read_uses_loaded_frame. Qed.
Print Assumptions C06_record_from_loaded_frame.

Theorem C06_end_at_boundary : forall sizes fuel k r, rd_left r = 0 ->
  next_frame (rd_src r) = inl PEnd -> reader_read sizes fuel (S k) false r = RdEnd.
Proof. exact end_at_boundary. Qed.
Print Assumptions C06_end_at_boundary.

(* a flushed frame is complete in the byte stream (Flush emits whole frames), so it is available
   to the reader without any later byte *)
Theorem C06_flushed_frame_available : forall fl content rest, frame_ok fl content ->
  next_frame (SrcBytes ([] ++ emit_frame fl content ++ rest)) = inr (fl, content, SrcBytes rest).
Proof. exact resume_after_append. Qed.
Print Assumptions C06_flushed_frame_available.
