(* Property C07: decoding does not depend on how the source splits its bytes across reads. *)
From Coq Require Import List NArith Arith Bool.
From Stef Require Import Bits Codecs Source.
Import ListNotations.

(* io.ReadFull over any source delivers the same bytes for every read-size schedule *)
Theorem C07_read_full_schedule_independent : forall data sch1 sch2 n,
  fst (read_full (S (length data)) (mkSrc data sch1) n) =
  fst (read_full (S (length data)) (mkSrc data sch2) n).
Proof. exact read_full_schedule_independent. Qed.
Print Assumptions C07_read_full_schedule_independent.

Theorem C07_read_full_spec : forall fuel s n, (length (s_data s) < fuel)%nat ->
  let '(b, s') := read_full fuel s n in
  b = firstn n (s_data s) /\ s_data s' = skipn n (s_data s).
Proof. exact read_full_spec. Qed.
Print Assumptions C07_read_full_spec.

(* whatever the schedule, the byte sequence obtained from a source is its data: the reader model
   (coq/Stream/Reader.v) is a function of that byte sequence alone *)
Theorem C07_drain_is_data : forall fuel s chunk, (length (s_data s) < fuel)%nat ->
  drain fuel s chunk = s_data s.
Proof. exact drain_is_data. Qed.
Print Assumptions C07_drain_is_data.

(* a single Read does depend on the schedule: the defect repaired in basereader.go *)
Theorem C07_single_read_refuted : exists data n sch1 sch2,
  fst (read_once (mkSrc data sch1) n) <> fst (read_once (mkSrc data sch2) n).
Proof. exact read_once_depends_on_schedule. Qed.
Print Assumptions C07_single_read_refuted.

(* ---- stream level (Stream/ScheduleFacts.v): the reader over a source that returns data in pieces of
   any sizes (schedule), obtaining every header field and frame with full reads, returns exactly what the
   reader over the plain bytes returns: open + every Read, for every schedule ---- *)
From Stef Require Import Bits Codecs Schema Wire Frame FrameFacts Reader StreamFactsBase ScheduleFacts.

Theorem C07_stream_schedule_independent : forall (sc : schema) (root : N) (sizes : N -> N) (fuel rf kr k : nat) (bs : list N) (sch : list nat),
  (length bs < rf)%nat ->
  read_stream_sched sc root sizes fuel rf kr k {| s_data := bs; s_sched := sch |} = read_stream sc root sizes fuel kr k bs.
Proof. exact read_stream_sched_independent. Qed.
Print Assumptions C07_stream_schedule_independent.

Theorem C07_next_frame_schedule_independent : forall (rf : nat) (bs : list N) (sch : list nat),
  (length bs < rf)%nat -> forget_frame_src (sched_next_frame rf {| s_data := bs; s_sched := sch |}) = next_frame (SrcBytes bs).
Proof. exact next_frame_sched. Qed.
Print Assumptions C07_next_frame_schedule_independent.
