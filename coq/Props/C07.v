(* Property C07: decoding does not depend on how the source splits its bytes across reads. *)
From Coq Require Import List NArith Arith Bool.
From Stef Require Import Bits Codecs Source.
Import ListNotations.

(* io.ReadFull over any source delivers the same bytes for every read-size schedule *)
Theorem C07_read_full_schedule_independent : forall data sch1 sch2 n,
  fst (read_full (S (length data)) (mkSrc data sch1) n) =
  fst (read_full (S (length data)) (mkSrc data sch2) n).
Proof. exact read_full_schedule_independent. Qed.
Print Assumptions C07_read_full_schedule_independent.

Theorem C07_read_full_spec : forall fuel s n, (length (s_data s) < fuel)%nat ->
  let '(b, s') := read_full fuel s n in
  b = firstn n (s_data s) /\ s_data s' = skipn n (s_data s).
Proof. exact read_full_spec. Qed.
Print Assumptions C07_read_full_spec.

(* whatever the schedule, the byte sequence obtained from a source is its data: the reader model
   (coq/Stream/Reader.v) is a function of that byte sequence alone *)
Theorem C07_drain_is_data : forall fuel s chunk, (length (s_data s) < fuel)%nat ->
  drain fuel s chunk = s_data s.
Proof. exact drain_is_data. Qed.
Print Assumptions C07_drain_is_data.

(* a single Read does depend on the schedule: the defect repaired in basereader.go *)
Theorem C07_single_read_refuted : exists data n sch1 sch2,
  fst (read_once (mkSrc data sch1) n) <> fst (read_once (mkSrc data sch2) n).
Proof. exact read_once_depends_on_schedule. Qed.
Print Assumptions C07_single_read_refuted.
