(* Property C08: dictionary and frame size limits are honoured and resets are announced. *)
From Coq Require Import List NArith Bool.
From Stef Require Import Limits.
Import ListNotations.
Open Scope N_scope.

(* every frame the writer closes: all records but the last stay below the frame limit, for every
   history, every limit >= 1 (a single record may exceed it on its own) *)
Theorem C08_frame_bound : forall c rs, 0 < c_frame_limit c ->
  Forall (fun f => frame_bounded c (snd f)) (l_closed (l_run c rs)).
Proof. exact frames_bounded. Qed.
Print Assumptions C08_frame_bound.

(* at every record boundary the accounted dictionary size is below the limit (or was just reset):
   what a reader must retain exceeds L by at most what the last record added *)
Theorem C08_dict_bound : forall c rs, 0 < c_dict_limit c ->
  let s := l_run c rs in dict_below c s /\ l_dict_reached s = false.
Proof. exact dict_bounded. Qed.
Print Assumptions C08_dict_bound.

(* a Write that resets the dictionaries closes the frame and announces the reset on the very
   next frame; a frame opened without a reset is not announced *)
Theorem C08_reset_announced : forall c s r,
  let s' := l_write c s r in
  (l_dict s' = 0 /\ l_frame_recs s' = [] /\ l_next_flag s' = true) \/
  (l_next_flag s' = false /\ l_frame_recs s' = []) \/
  (l_frame_recs s' <> [] /\ l_next_flag s' = l_next_flag s).
Proof. exact reset_announced. Qed.
Print Assumptions C08_reset_announced.

(* ---- the control loop run with the REAL encoder (Stream/LimitsCompose.v): every record is measured by
   what enc adds to the columns and to the dictionaries; the frames it forms are exactly those of the
   abstract loop above on the measured sizes, the real column bits of all but the last record of every
   frame stay below the limit, no record is lost or reordered, a dictionary reset is performed iff it is
   announced, and the stream is read back completely (composition with the C01 stream theorem) ---- *)
From Stef Require Import Bits Codecs Schema Wire WireOk Frame FrameFacts Reader Writer FrameContentFacts FrameContentInv StreamFactsBase StreamFacts LimitsCompose.

Theorem C08_real_loop_is_abstract_loop : forall (cfg : lcfg) (base esz : N) (t : etree),
  N.testbit base 0 = c_flag_dicts cfg -> forall (ws0 : wst) (recs : list wire),
  w_write_all cfg base esz t ws0 recs = regroup base true (l_frames (l_run cfg (w_sizes cfg base esz t ws0 recs))) recs.
Proof. exact w_write_all_abstracts. Qed.
Print Assumptions C08_real_loop_is_abstract_loop.

Theorem C08_real_frame_bits_bounded : forall (cfg : lcfg) (base esz : N) (t : etree) (ws0 : wst) (recs : list wire),
  acc_empty ws0 ->
  frames_bits_bounded (8 * c_frame_limit cfg) t ws0 (w_write_all cfg base esz t ws0 recs) /\
  (let s := w_run cfg base esz t ws0 recs in
   cw_recs s = nil \/ wst_frame_bits (frame_end t (cw_flags s) (stream_end t ws0 (strip (cw_closed s))) (map fst (cw_recs s))) < 8 * c_frame_limit cfg).
Proof. exact frame_bits_bounded. Qed.
Print Assumptions C08_real_frame_bits_bounded.

Theorem C08_real_dict_bounded : forall (cfg : lcfg) (base esz : N) (t : etree),
  N.testbit base 0 = c_flag_dicts cfg -> forall (ws0 : wst) (recs : list wire),
  0 < c_dict_limit cfg -> wst_dict_measure esz ws0 = 0 ->
  let s := w_run cfg base esz t ws0 recs in wst_dict_measure esz (cw_st s) < c_dict_limit cfg \/ wst_dict_measure esz (cw_st s) = 0.
Proof. exact dict_measure_bounded. Qed.
Print Assumptions C08_real_dict_bounded.

Theorem C08_no_record_lost : forall (cfg : lcfg) (base esz : N) (t : etree) (ws0 : wst) (recs : list wire),
  concat (map snd (w_write_all cfg base esz t ws0 recs)) = recs.
Proof. exact w_write_all_concat. Qed.
Print Assumptions C08_no_record_lost.

Theorem C08_reset_flags : forall (cfg : lcfg) (base esz : N) (t : etree) (ws0 : wst) (recs : list wire),
  N.testbit base 0 = c_flag_dicts cfg ->
  map (fun f : N * list wire => flag_dicts (fst f)) (w_write_all cfg base esz t ws0 recs) =
  map fst (l_frames (l_run cfg (w_sizes cfg base esz t ws0 recs))).
Proof. exact w_write_all_flags. Qed.
Print Assumptions C08_reset_flags.

Theorem C08_limited_stream_roundtrip : forall (cfg : lcfg) (base esz : N) (sc : schema) (root : N) (sizes : N -> N) (fuel : nat)
    (hfl : N) (hdr : bytes) (t : etree) (recs : list wire) (r0 : reader) (kr k : nat),
  let frames := w_write_all cfg base esz t wst0 recs in
  frame_okb hfl hdr = true ->
  reader_open sc root (SrcBytes (emit_frame hfl hdr ++ emit_all (stream_encode t wst0 frames))) = inr r0 ->
  rd_tree r0 = t ->
  stream_ok sizes fuel t frames wst0 RNil (PM.empty _) = true ->
  (length recs < kr)%nat -> (length recs < k)%nat ->
  read_all sizes fuel kr k r0 = (recs, stream_values t frames RNil (PM.empty _), Some RdEnd).
Proof. exact w_write_all_roundtrip_open_bytes. Qed.
Print Assumptions C08_limited_stream_roundtrip.
