(* Property C08: dictionary and frame size limits are honoured and resets are announced. *)
From Coq Require Import List NArith Bool.
From Stef Require Import Limits.
Import ListNotations.
Open Scope N_scope.

(* every frame the writer closes: all records but the last stay below the frame limit, for every
   history, every limit >= 1 (a single record may exceed it on its own) *)
Theorem C08_frame_bound : forall c rs, 0 < c_frame_limit c ->
  Forall (fun f => frame_bounded c (snd f)) (l_closed (l_run c rs)).
Proof. exact frames_bounded. Qed.
Print Assumptions C08_frame_bound.

(* at every record boundary the accounted dictionary size is below the limit (or was just reset):
   what a reader must retain exceeds L by at most what the last record added *)
Theorem C08_dict_bound : forall c rs, 0 < c_dict_limit c ->
  let s := l_run c rs in dict_below c s /\ l_dict_reached s = false.
Proof. exact dict_bounded. Qed.
Print Assumptions C08_dict_bound.

(* a Write that resets the dictionaries closes the frame and announces the reset on the very
   next frame; a frame opened without a reset is not announced *)
Theorem C08_reset_announced : forall c s r,
  let s' := l_write c s r in
  (l_dict s' = 0 /\ l_frame_recs s' = [] /\ l_next_flag s' = true) \/
  (l_next_flag s' = false /\ l_frame_recs s' = []) \/
  (l_frame_recs s' <> [] /\ l_next_flag s' = l_next_flag s).
Proof. exact reset_announced. Qed.
Print Assumptions C08_reset_announced.
