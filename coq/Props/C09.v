(* Property C09: the generated three-way comparison is a total order and returns 0 only for values
   holding the same data; a copy compares equal to its source.  Model: Record/Cmp.v (cmp, copy,
   data over self-describing values cval); proofs: Record/CmpFacts.v.
   wf v says that every CF64 payload inside v is a 64-bit pattern (< 2^64); it is the only
   hypothesis, needed only for "zero -> same data" (CmpFacts.f64_key_not_injective_above_64). *)
From Coq Require Import List NArith ZArith Bool.
From Stef Require Import Bits Codecs Cmp CmpFacts.
Import ListNotations.
Open Scope N_scope.

Theorem C09_cmp_refl : forall a, cmp a a = Eq.
Proof. exact cmp_refl. Qed.
Print Assumptions C09_cmp_refl.

Theorem C09_cmp_antisym : forall a b, cmp b a = CompOpp (cmp a b).
Proof. exact cmp_antisym. Qed.
Print Assumptions C09_cmp_antisym.

Theorem C09_cmp_trans : forall a b c, cmp a b = Lt -> cmp b c = Lt -> cmp a c = Lt.
Proof. exact cmp_trans. Qed.
Print Assumptions C09_cmp_trans.

Theorem C09_cmp_trans_eq_l : forall a b c r, cmp a b = Eq -> cmp b c = r -> cmp a c = r.
Proof. exact cmp_trans_eq_l. Qed.
Print Assumptions C09_cmp_trans_eq_l.

Theorem C09_cmp_trans_eq_r : forall a b c r, cmp a b = r -> cmp b c = Eq -> cmp a c = r.
Proof. exact cmp_trans_eq_r. Qed.
Print Assumptions C09_cmp_trans_eq_r.

Theorem C09_cmp_zero_iff_equal : forall a b, wf a -> wf b -> (cmp a b = Eq <-> a = b).
Proof. exact cmp_eq_iff. Qed.
Print Assumptions C09_cmp_zero_iff_equal.

Theorem C09_cmp_zero_only_for_same_data : forall a b, wf a -> wf b -> cmp a b = Eq -> data a = data b.
Proof. exact cmp_data_eq. Qed.
Print Assumptions C09_cmp_zero_only_for_same_data.

Theorem C09_copy_equal : forall v, cmp (copy v) v = Eq.
Proof. exact cmp_copy_eq. Qed.
Print Assumptions C09_copy_equal.
