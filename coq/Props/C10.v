(* Property C10: generated code for any accepted schema compiles and round-trips.
   The frame-layer and codec theorems are schema independent; the record-layer model
   (Schema.v build, Wire.v enc/dec, Apply.v) is one generic interpreter indexed by the schema. *)
From Coq Require Import List NArith ZArith Bool.
From Stef Require Import Bits Codecs Schema Wire Frame FrameFacts SchemaFacts Schemas.
Import ListNotations.
Open Scope N_scope.

(* the encoder/decoder tree of every checked-in schema is built without running out of fuel and
   without error, for every root (regenerated from the .stef files on every run) *)
Theorem C10_checked_in_schemas_build : all_roots_build_ok all_schemas = true.
Proof. exact all_schemas_build. Qed.
Print Assumptions C10_checked_in_schemas_build.

Theorem C10_frame_roundtrip : forall fl content rest, frame_ok fl content ->
  parse_frame (emit_frame fl content ++ rest) = inr (fl, content, rest).
Proof. exact parse_frame_emit. Qed.
Print Assumptions C10_frame_roundtrip.
