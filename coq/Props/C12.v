(* Property C12: the schema parser terminates with a resolved schema or a positioned error; it
   never panics.
   `parse` is the model of idl.Parse as checked in (after the D7 fix), `parse_legacy` of the code
   before it; both share every definition except parseFieldType's "no type specifier" branch. *)
From Coq Require Import List NArith Bool.
From Stef.Idl Require Import Lexer Ast Parser Resolve TokSpec SchemaSpec ResolveFacts ParseFacts.
Import ListNotations.
Open Scope N_scope.

(* D7 (fixed by ef5c1a7): before the fix the parser panicked on a field without a type specifier,
   "package a\nstruct A root { x }" *)
Theorem C12_no_panic_refuted_before_fix : exists input, parse_legacy input = OPanic PUnknownType.
Proof. exact parse_legacy_panics. Qed.
Print Assumptions C12_no_panic_refuted_before_fix.

(* the parser never panics: none of the panic sites of computeRecursiveType, markRecursive,
   SetRecursive is reachable, for any byte string *)
Theorem C12_no_panic : forall input site, parse input <> OPanic site.
Proof. exact parse_no_panic. Qed.
Print Assumptions C12_no_panic.

(* termination: every loop of lexer, parser, reference resolution, recursion marking and pruning
   ends within the fuel the model gives it (number of runes / tokens / definitions), so `parse` is
   a total function whose outcome is a schema or an error *)
Theorem C12_total : forall input, parse input <> OFuel.
Proof. exact parse_no_fuel. Qed.
Print Assumptions C12_total.

(* a returned schema: every type reference names a definition of the schema (and, top-level names
   being unique, exactly one), field names are unique within each struct, every root struct has at
   least one field *)
Theorem C12_ok_resolved : forall input s w, parse input = OOk s w ->
  sch_resolved s /\ NoDup (top_names s) /\ Forall struct_wf (i_structs s).
Proof. exact parse_ok_resolved. Qed.
Print Assumptions C12_ok_resolved.

(* an error carries the start position of a token of the input: line and column at least 1, byte
   offset within the input, line and column never ahead of the bytes consumed (old and new parser) *)
Theorem C12_err_positioned : forall b input p m, parse_gen b input = OErr p m ->
  (exists t, In t (tokenize input) /\ p = t_pos t) /\ pos_ok (N.of_nat (length input)) p.
Proof. exact parse_gen_err_pos. Qed.
Print Assumptions C12_err_positioned.
