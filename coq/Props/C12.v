(* Property C12: the schema parser terminates with a resolved schema or a positioned error; it
   never panics. *)
From Coq Require Import List NArith Bool.
From Stef.Idl Require Import Lexer Ast Parser Resolve ResolveFacts.
Import ListNotations.
Open Scope N_scope.

(* D7 (fixed): the parser as it was panics on a field without a type specifier *)
Theorem C12_no_panic_refuted_before_fix : exists input, parse_legacy input = OPanic PUnknownType.
Proof. exact parse_legacy_panics. Qed.
Print Assumptions C12_no_panic_refuted_before_fix.
