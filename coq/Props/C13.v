(* Property C13: schemas survive printing, parsing and wire serialization; the wire schema lists
   field counts in the order generated code consumes them. *)
From Coq Require Import List NArith Bool.
From Stef Require Import Bits BitIO Varint Codecs Frame.
From Stef.Schema Require Import Schema.
From Stef.Idl Require Import Lexer Ast Parser Resolve Printer WireSchema WireSchemaFacts.
Import ListNotations.
Open Scope N_scope.

(* Deserialize(Serialize(w)) = w for every list of at most 1024 counts (counts are Go uints),
   whatever bytes follow in the reader *)
Theorem C13_wire_roundtrip : forall w rest,
  (length w <= 1024)%nat -> Forall (fun c => c < two64) w ->
  deserialize (serialize w ++ rest) = inr w.
Proof. exact deserialize_serialize. Qed.
Print Assumptions C13_wire_roundtrip.

(* Deserialize is a total function and never yields more than 1024 counts ... *)
Theorem C13_deserialize_limit : forall bs l, deserialize bs = inr l -> (length l <= 1024)%nat.
Proof. exact deserialize_limit. Qed.
Print Assumptions C13_deserialize_limit.

(* ... a larger declared count is refused with the limit error *)
Theorem C13_deserialize_over_limit : forall n rest,
  1024 < n -> n < two64 -> deserialize (leb_enc n ++ rest) = inl ELimit.
Proof. exact deserialize_over_limit. Qed.
Print Assumptions C13_deserialize_over_limit.
