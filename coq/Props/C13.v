(* Property C13: schemas survive printing, parsing and wire serialization; the wire schema lists
   field counts in the order generated code consumes them. *)
From Coq Require Import List NArith Bool.
From Stef Require Import Bits BitIO Varint Codecs Frame Reader.
From Stef.Schema Require Import Schema.
From Stef.Idl Require Import Lexer Ast Parser Resolve Printer WireSchema WireSchemaFacts WireOrderFacts PrinterFacts IndexFacts.
Import ListNotations.
Open Scope N_scope.

(* Deserialize(Serialize(w)) = w for every list of at most 1024 counts (counts are Go uints),
   whatever bytes follow in the reader *)
Theorem C13_wire_roundtrip : forall w rest,
  (length w <= 1024)%nat -> Forall (fun c => c < two64) w ->
  deserialize (serialize w ++ rest) = inr w.
Proof. exact deserialize_serialize. Qed.
Print Assumptions C13_wire_roundtrip.

(* Deserialize is a total function and never yields more than 1024 counts ... *)
Theorem C13_deserialize_limit : forall bs l, deserialize bs = inr l -> (length l <= 1024)%nat.
Proof. exact deserialize_limit. Qed.
Print Assumptions C13_deserialize_limit.

(* ... a larger declared count is refused with the limit error *)
Theorem C13_deserialize_over_limit : forall n rest,
  1024 < n -> n < two64 -> deserialize (leb_enc n ++ rest) = inl ELimit.
Proof. exact deserialize_over_limit. Qed.
Print Assumptions C13_deserialize_over_limit.

(* order: for every well-formed numbered schema (references in range, arrays not nested) and every
   root, NewWireSchema's depth-first first-encounter list is exactly the list of field counts in
   the order the generated Init consumes them (getFieldCount's memo), and the model's fuel suffices *)
Theorem C13_wire_schema_order : forall sc, wf_schema sc -> forall root, root < ns sc ->
  new_wire_schema sc root = Some (own_counts sc root).
Proof. exact wire_schema_order. Qed.
Print Assumptions C13_wire_schema_order.

(* the same for everything the parser accepts: for every input that parses and every struct of the
   resulting schema (in particular every root), schema.NewWireSchema (wire_counts) returns the
   counts in the Init consumption order of the numbered schema *)
Theorem C13_wire_schema_order_parsed : forall input s w root,
  parse input = OOk s w -> In root (map is_name (i_structs s)) ->
  exists sc r, index_schema s = Some sc /\ index_in is_name (i_structs s) root 0 = Some r /\
               wire_counts s root = POk (own_counts sc r).
Proof. exact parse_wire_order. Qed.
Print Assumptions C13_wire_schema_order_parsed.

(* D8 (fixed by 7ccc306): the printer as it was dropped the dictionary of array elements ... *)
Theorem C13_print_parse_refuted_before_fix_array_dict :
  parse d8_array_dict = OOk s_array_dict [] /\
  parse (utf8_encode (print_legacy s_array_dict)) = OOk s_array_dict_legacy [] /\
  i_structs s_array_dict_legacy <> i_structs s_array_dict.
Proof. exact print_legacy_drops_array_dict. Qed.
Print Assumptions C13_print_parse_refuted_before_fix_array_dict.

(* ... printed an enum-typed field as uint64 ... *)
Theorem C13_print_parse_refuted_before_fix_enum :
  parse d8_enum_field = OOk s_enum_field [] /\
  (exists w, parse (utf8_encode (print_legacy s_enum_field)) = OOk s_enum_field_legacy w) /\
  i_structs s_enum_field_legacy <> i_structs s_enum_field.
Proof. exact print_legacy_loses_enum. Qed.
Print Assumptions C13_print_parse_refuted_before_fix_enum.

(* ... which the parser rejects when the field has a dict modifier *)
Theorem C13_print_parse_refuted_before_fix_enum_dict :
  parse d8_enum_dict = OOk s_enum_dict [] /\
  exists p, parse (utf8_encode (print_legacy s_enum_dict)) = OErr p MDictPrim.
Proof. exact print_legacy_enum_dict_rejected. Qed.
Print Assumptions C13_print_parse_refuted_before_fix_enum_dict.

(* the repaired printer round-trips the three witnesses exactly *)
Theorem C13_print_parse_witnesses_fixed :
  parse (utf8_encode (print s_array_dict)) = OOk s_array_dict [] /\
  parse (utf8_encode (print s_enum_field)) = OOk s_enum_field [] /\
  parse (utf8_encode (print s_enum_dict)) = OOk s_enum_dict [].
Proof. exact print_fixed_witnesses. Qed.
Print Assumptions C13_print_parse_witnesses_fixed.

(* print/parse round trip for ALL parsed schemas: refuted as stated (known finding
   C13-empty-schema): a schema without a root struct is pruned to the empty schema, printed as the
   bare package line, and that is rejected.  For schemas with a root the round trip is only
   observed by the correspondence check (tools/check_idl.py C13), not proved. *)
Theorem C13_print_parse_refuted_rootless :
  (exists w, parse rootless = OOk (mkISchema [[97]] [] [] []) w) /\
  exists p, parse (utf8_encode (print (mkISchema [[97]] [] [] []))) = OErr p MTopLevel.
Proof. exact print_parse_rootless_refuted. Qed.
Print Assumptions C13_print_parse_refuted_rootless.

(* ---- print/parse round trip, for EVERY schema idl.Parse returns that has a root struct ----
   (root-less schemas: C13_print_parse_refuted_rootless above).  Schema.PrettyPrint lists the
   definitions sorted by name, Go keeps them in maps: canon s is s with its definitions in that order,
   schema_equiv is equality of the package and of every definition under every name. *)
From Stef Require Import RoundTripBase RoundTripThm RoundTripInv RoundTripCanon.

Theorem C13_print_parse_roundtrip : forall input s w, parse input = OOk s w -> has_root s = true ->
  parse (utf8_encode (print s)) = OOk (canon s) [].
Proof. exact print_parse_roundtrip. Qed.
Print Assumptions C13_print_parse_roundtrip.

Theorem C13_print_parse_roundtrip_equiv : forall input s w, parse input = OOk s w -> has_root s = true ->
  exists s', parse (utf8_encode (print s)) = OOk s' [] /\ schema_equiv s' s /\ print s' = print s.
Proof. exact print_parse_roundtrip_equiv. Qed.
Print Assumptions C13_print_parse_roundtrip_equiv.

(* a second trip is exact *)
Theorem C13_print_parse_roundtrip_exact : forall input s w, parse input = OOk s w -> has_root s = true ->
  parse (utf8_encode (print (canon s))) = OOk (canon s) [].
Proof. exact print_parse_roundtrip_exact. Qed.
Print Assumptions C13_print_parse_roundtrip_exact.
