(* Property C14: a successful gRPC handshake yields a stream the server can decode (and unrelated
   schemas are refused).  Model: Net/Handshake.v; VPinned = code as found, VCurrent = code after
   the repair of WireSchema.Compatible (defect D9b).  "Decodes" is stated as: the server's reader
   opens the stream with exactly the encoder tree of the client's writer (encoder and decoder of
   Stream/{Wire,Reader}.v are functions of that tree; the record round trip over one tree is C01,
   the projection onto the common fields is C04). *)
From Coq Require Import List Arith NArith Bool PArith.
From Stef Require Import Codecs Schema Wire Apply Frame Reader Limits Handshake HandshakeFacts.
Import ListNotations.
Open Scope N_scope.

(* The full statement - for related schemas, Connect + writer creation succeeding implies that the
   server opens the stream with the writer's tree - is FALSE of the faithful model, in both
   versions (defect D9, pinned by TestSchemaCompatibility/ClientSuperset) *)
Theorem C14_sound_refuted : forall v, ~ sound_statement v.
Proof. exact sound_refuted. Qed.
Print Assumptions C14_sound_refuted.

(* the witness: the client has one more field than the server; Connect succeeds and hands the
   CLIENT's schema to the writer, the writer is created and announces [2], the server refuses *)
Theorem C14_refuted_client_ahead : forall v md,
  evolves d9_server d9_client = true /\ schema_closed d9_server = true /\ schema_closed d9_client = true /\
  handshake v d9_client 0 d9_server 0 md = OServerRefused (mkWopts (Some [2]) true md) (Some [2]).
Proof. exact d9_client_ahead_refused. Qed.
Print Assumptions C14_refuted_client_ahead.

(* in general: Connect never hands the server's schema to the writer *)
Theorem C14_connect_never_downgrades : forall v cs ss md o, connect v cs ss md = Some o ->
  o_maxdict o = md /\
  ((o_schema o = None /\ o_descr o = false /\ compat3 VPinned ss cs <> CSuperset) \/ (o_schema o = Some cs /\ o_descr o = true)).
Proof. exact connect_schema_is_clients. Qed.
Print Assumptions C14_connect_never_downgrades.

(* the pinned Compatible calls diverged schemas with equal sums "exact": data flows without a
   descriptor and the server decodes it with another layout (defect D9b) *)
Theorem C14_refuted_diverged : exists scc scs md o,
  ~ related scc scs /\ handshake VPinned scc 0 scs 0 md = OStream o None false.
Proof. exact pinned_diverged_streams. Qed.
Print Assumptions C14_refuted_diverged.

(* ... and the repaired one refuses them in Connect *)
Theorem C14_diverged_refused_current : forall cs ss md,
  length cs = length ss -> sum_counts cs = sum_counts ss -> cs <> ss -> connect VCurrent cs ss md = None.
Proof. exact current_diverged_equal_sums_refused. Qed.
Print Assumptions C14_diverged_refused_current.

(* partial: what is missing is the client-ahead case (D9).  Server not behind (same wire schema,
   or ahead by the code's own criterion) and descending from the client's schema by append-only
   evolution: Connect succeeds with the advertised dictionary limit, the writer is created, and
   the server opens the stream with the client's encoder tree.  Every schema pair, every root,
   every limit, both versions. *)
Theorem C14_sound_partial : forall v scc scs root md,
  schema_closed scc = true -> evolves scc scs = true -> root < N.of_nat (length (structs scc)) ->
  build_ok scc root = true ->
  let cs := own_counts scc root in
  let ss := own_counts scs root in
  (cs = ss /\ schema_closed scs = true /\ build_ok scs root = true) \/ compat3 v ss cs = CSuperset ->
  exists o descr t,
    connect v cs ss md = Some o /\ o_maxdict o = md /\
    new_writer v scc root o = Some (t, descr) /\
    server_open v scs root descr = Some t.
Proof. exact handshake_sound_server_not_behind. Qed.
Print Assumptions C14_sound_partial.

(* what the repair of D9 would give (not the code): handing the server's schema to the writer
   makes the client-ahead case work for every append-only descendant *)
Theorem C14_intended_client_ahead : forall v scc scs root md,
  schema_closed scs = true -> evolves scs scc = true -> root < N.of_nat (length (structs scs)) ->
  build_ok scs root = true ->
  let cs := own_counts scc root in
  let ss := own_counts scs root in
  compat3 v ss cs = CIncompat -> compat3 v cs ss = CSuperset ->
  exists o t,
    connect_intended v cs ss md = Some o /\
    new_writer v scc root o = Some (t, Some ss) /\
    server_open v scs root (Some ss) = Some t.
Proof. exact intended_connect_sound_client_ahead. Qed.
Print Assumptions C14_intended_client_ahead.

(* the dictionary limit advertised by the server is the one the writer's limiter runs with, and
   the limiter honours it for every record sequence (C08) *)
Theorem C14_dict_limit : forall v cs ss md o fl flag rs,
  connect v cs ss md = Some o ->
  let c := writer_lcfg o fl flag in
  (md <> 0 -> c_dict_limit c = md) /\ (md = 0 -> c_dict_limit c = default_max_total_dict_size) /\
  dict_below c (l_run c rs) /\ l_dict_reached (l_run c rs) = false.
Proof. exact dict_limit_in_force. Qed.
Print Assumptions C14_dict_limit.

(* "unrelated schemas are refused by Connect or by the writer" is FALSE too (both versions) *)
Theorem C14_rejects_refuted : forall v, ~ rejects_statement v.
Proof. exact rejects_refuted. Qed.
Print Assumptions C14_rejects_refuted.

(* the pinned Connect refuses nothing at all; the repaired one refuses exactly the diverged pairs
   with equal length and equal sums *)
Theorem C14_connect_pinned_never_refuses : forall cs ss md, connect VPinned cs ss md <> None.
Proof. exact connect_pinned_total. Qed.
Print Assumptions C14_connect_pinned_never_refuses.

Theorem C14_connect_current_refuses_iff : forall cs ss md,
  connect VCurrent cs ss md = None <-> (length cs = length ss /\ sum_counts cs = sum_counts ss /\ cs <> ss).
Proof. exact connect_current_refuses_iff. Qed.
Print Assumptions C14_connect_current_refuses_iff.

(* partial: what remains of "refused" is the last line of defence.  When the server is behind by
   the code's criterion (fewer structs, or as many with a smaller total) the stream announces the
   client's schema and the server's reader refuses it: nothing is decoded with a wrong layout. *)
Theorem C14_rejects_partial : forall v scc rc scs rs md o t descr,
  let cs := own_counts scc rc in
  let ss := own_counts scs rs in
  compat3 v ss cs = CIncompat ->
  connect v cs ss md = Some o -> new_writer v scc rc o = Some (t, descr) ->
  descr = Some cs /\ server_open v scs rs descr = None.
Proof. exact server_behind_refused_at_reader. Qed.
Print Assumptions C14_rejects_partial.

Theorem C14_server_refuses_longer_descriptor : forall v sc root d,
  (length (own_counts sc root) < length d)%nat \/
  (length (own_counts sc root) = length d /\ sum_counts (own_counts sc root) < sum_counts d) ->
  server_open v sc root (Some d) = None.
Proof. exact server_refuses_longer. Qed.
Print Assumptions C14_server_refuses_longer_descriptor.

(* the server side of the model is Stream/Reader.v reader_open once the var header is parsed *)
Theorem C14_server_open_is_reader_open : forall sc root src fl content src' schema_bytes ud counts,
  next_frame src = inr (fl, content, src') ->
  (var_hdr_limit <? N.of_nat (length content)) = false ->
  parse_var_header content = inr (schema_bytes, ud) ->
  schema_bytes <> [] ->
  parse_wire_schema schema_bytes = inr counts ->
  match server_open VCurrent sc root (Some counts) with
  | Some t => reader_open sc root src = inr (mkReader t src' 0 0 rst0 (PM.empty _) RNil (Some counts) ud)
  | None => reader_open sc root src = inl (PBad EInvalid)
  end.
Proof. exact server_open_current_is_reader_open. Qed.
Print Assumptions C14_server_open_is_reader_open.

Theorem C14_repair_only_refuses_more : forall sc root d t,
  server_open VCurrent sc root d = Some t -> server_open VPinned sc root d = Some t.
Proof. exact server_open_current_pinned. Qed.
Print Assumptions C14_repair_only_refuses_more.

(* inherent limit of exchanging field counts: schemas with the same count list are indistinguishable *)
Theorem C14_inherent_limit : forall v md,
  own_counts limit_client 0 = own_counts limit_server 0 /\
  handshake v limit_client 0 limit_server 0 md = OStream (mkWopts None false md) None false.
Proof. exact same_counts_indistinguishable. Qed.
Print Assumptions C14_inherent_limit.

(* an element-wise "new[i] >= old[i]" test would refuse legal evolutions (first-encounter order can
   shift): the repair of D9b compares element-wise only when the sums are equal *)
Theorem C14_elementwise_order_not_necessary : forall v md,
  evolves shift_old shift_new = true /\
  own_counts shift_old 0 = [3; 1; 3; 1] /\ own_counts shift_new 0 = [3; 2; 1; 3] /\
  handshake v shift_old 0 shift_new 0 md = OStream (mkWopts (Some [3; 1; 3; 1]) true md) (Some [3; 1; 3; 1]) true /\
  nth 2 (own_counts shift_new 0) 0 < nth 2 (own_counts shift_old 0) 0.
Proof. exact elementwise_order_is_not_necessary. Qed.
Print Assumptions C14_elementwise_order_not_necessary.

(* ---- end to end: whenever the handshake ends in a stream whose two trees coincide, the server's
   reader decodes EVERY stream the client's writer can produce (any frames/records satisfying
   stream_ok) completely and in order; and for a server schema that descends from the client's and is
   not behind, Connect succeeds, the writer is created and the server decodes everything *)
From Stef Require Import Wire WireOk Frame FrameFacts Reader Writer StreamFactsBase StreamFacts EvolveFactsBase EvolveFacts.

Theorem C14_stream_decoded : forall v scc rc scs rs md o descr tw d' sizes fuel hfl ud frames kr k,
  handshake v scc rc scs rs md = OStream o descr true ->
  new_writer v scc rc o = Some (tw, d') ->
  header_okb hfl descr ud = true ->
  stream_ok sizes fuel tw frames wst0 RNil (PM.empty _) = true ->
  (length frames < kr)%nat -> (length (concat (map snd frames)) < k)%nat ->
  d' = descr /\
  exists r0,
    reader_open scs rs (SrcBytes (emit_frame hfl (header_content descr ud) ++ emit_all (stream_encode tw wst0 frames))) = inr r0 /\
    rd_tree r0 = tw /\ rd_wire_schema r0 = descr /\ rd_user_data r0 = ud /\
    read_all sizes fuel kr k r0 =
    (concat (map snd frames), stream_values tw frames RNil (PM.empty _), Some RdEnd).
Proof. exact handshake_stream_decodes_bytes. Qed.
Print Assumptions C14_stream_decoded.

Theorem C14_server_not_behind_decodes : forall v scc scs root md,
  schema_closed scc = true -> evolves scc scs = true -> root < N.of_nat (length (structs scc)) ->
  build_ok scc root = true ->
  let cs := own_counts scc root in let ss := own_counts scs root in
  (cs = ss /\ schema_closed scs = true /\ build_ok scs root = true) \/ compat3 v ss cs = CSuperset ->
  exists o descr t,
    connect v cs ss md = Some o /\ o_maxdict o = md /\
    new_writer v scc root o = Some (t, descr) /\
    t = fst (build_root scc root None) /\
    decodes_all scs root descr t.
Proof. exact handshake_server_not_behind_decodes. Qed.
Print Assumptions C14_server_not_behind_decodes.
