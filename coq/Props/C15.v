(* Property C15: the gRPC transport delivers the writer's bytes unchanged and chunk-aligned.
   Model: coq/Net/Chunk.v (chunkAssembler, grpcWriter.WriteChunk); proofs: coq/Net/ChunkFacts.v.
   ms ranges over ALL message sequences (any chunk sizes incl. empty, any split of a chunk over
   messages, trailing messages without end flag), ns over ALL sequences of Read sizes. *)
From Coq Require Import List NArith Arith Bool.
From Stef Require Import Chunk ChunkFacts.
Import ListNotations.

(* reading (any positive buffer size) until the first error returns the concatenation of all
   complete chunks, in order, unchanged *)
Theorem C15_concat : forall ms n fuel, (0 < n)%N ->
  (length ms + length (concat (chunks_of ms)) < fuel)%nat ->
  fst (drain fuel (asm_init (map Some ms)) n) = concat (chunks_of ms).
Proof. exact drain_complete. Qed.
Print Assumptions C15_concat.

(* the same from the writer's side: what WriteChunk(header, content) calls emitted ... *)
Theorem C15_concat_writer : forall cs n fuel, (0 < n)%N ->
  (length cs + length (concat (map (fun hc => fst hc ++ snd hc) cs)) < fuel)%nat ->
  fst (drain fuel (asm_init (map Some (send_all cs))) n) = concat (map (fun hc => fst hc ++ snd hc) cs).
Proof. exact transport_concat. Qed.
Print Assumptions C15_concat_writer.

(* ... and for every way of cutting every chunk into messages *)
Theorem C15_concat_split : forall cs n fuel, (0 < n)%N ->
  (length (send_split cs) + length (concat (map fst cs)) < fuel)%nat ->
  fst (drain fuel (asm_init (map Some (send_split cs))) n) = concat (map fst cs).
Proof. exact transport_concat_split. Qed.
Print Assumptions C15_concat_split.

(* if the reads stop early (any sizes, zero included): a prefix *)
Theorem C15_prefix : forall ms ns,
  exists tail, concat (chunks_of ms) = delivered (fst (run_reads (asm_init (map Some ms)) ns)) ++ tail.
Proof. exact reads_prefix. Qed.
Print Assumptions C15_prefix.

(* nothing lost or duplicated at any moment *)
Theorem C15_conservation : forall ms ns,
  let '(obs, a) := run_reads (asm_init (map Some ms)) ns in
  exists rem tail, a_src a = map Some rem /\
    concat (chunks_of ms) = delivered obs ++ skipn (a_idx a) (a_buf a) ++ tail.
Proof. exact reads_conservation. Qed.
Print Assumptions C15_conservation.

(* release: at the return of every Read, the bytes handed out so far are a prefix of the complete
   chunks among the messages received so far (k = number of source calls made) *)
Theorem C15_release : forall ms ns obs1 o k obs2 a,
  run_reads (asm_init (map Some ms)) ns = (obs1 ++ (o, k) :: obs2, a) ->
  exists tail, concat (chunks_of (firstn k ms)) = delivered (obs1 ++ [(o, k)]) ++ tail.
Proof. exact reads_released_each. Qed.
Print Assumptions C15_release.

(* a Read never spans chunks and never exceeds the buffer it was given *)
Theorem C15_chunk_aligned : forall a n b a', asm_read a n = (Some b, a') ->
  exists pre post, a_buf a' = pre ++ b ++ post /\ (N.of_nat (length b) <= n)%N.
Proof. exact read_within_chunk. Qed.
Print Assumptions C15_chunk_aligned.

Theorem C15_stats : forall ms ns,
  let '(_, a) := run_reads (asm_init (map Some ms)) ns in
  let cs := chunks_of (firstn (a_recv a) ms) in
  a_stat_msgs a = (N.of_nat (length cs) mod two64)%N /\
  a_stat_bytes a = (N.of_nat (length (concat cs)) mod two64)%N.
Proof. exact reads_stats. Qed.
Print Assumptions C15_stats.

Theorem C15_empty_chunk : forall r buf idx k sm sb n, (length buf <= idx)%nat ->
  asm_read (mkAsm (Some (mkMsg [] true) :: r) buf idx k sm sb) n =
  (Some [], mkAsm r [] 0 (S k) ((sm + 1) mod two64)%N ((sb + 0) mod two64)%N).
Proof. exact empty_chunk_read. Qed.
Print Assumptions C15_empty_chunk.

(* an error of the message source inside a chunk: the error is returned, the bytes accumulated
   for that chunk are dropped (the stream is dead after a gRPC error, so nothing is re-aligned) *)
Theorem C15_error_drops_partial : forall pre r acc k, (forall m, In m pre -> m_end m = false) ->
  recv_chunk (map Some pre ++ None :: r) acc k = (None, r, S (k + length pre)).
Proof. exact recv_chunk_error_item. Qed.
Print Assumptions C15_error_drops_partial.
