(* Property C16: record ids advance in lockstep and acknowledgements never run ahead.
   Model: coq/Net/Responder.v (an LTS: onStream, Responder.Run, the ticker; every schedule is a
   path); proofs: coq/Net/ResponderFacts.v.  "reachable c sc s" quantifies over ALL schedules
   (interleavings, select choices, tick times) of script sc = (batch sizes and consumer outcomes,
   outcome of every SendDataResponse call).  cfg_current is the code as it is now (after the two
   repairs recorded in known_findings / integration/net.json), cfg_pinned the tree as first read. *)
From Coq Require Import List NArith Arith Bool Sorted.
From Stef Require Import Responder ResponderFacts LockstepFacts.
From Stef Require Import Bits Codecs Schema Wire Apply Frame Reader.
Import ListNotations.
Open Scope N_scope.

(* ---- lockstep *)
(* the generated reader counts one per record (the writer side is the same counter, C01) *)
Theorem C16_reader_count_step : forall sizes fuel k tef r r' w, rd_left r <> 0 ->
  reader_read sizes fuel (S k) tef r = RdRecord r' w -> rd_count r' = rd_count r + 1.
Proof. exact reader_count_step. Qed.
Print Assumptions C16_reader_count_step.

(* the receiver's RecordCount is the number of records decoded; the batches handed to the consumer
   tile the ids 1..RecordCount (batch i = ids from_i+1 .. to_i, from_0 = 0, from_{i+1} = to_i) *)
Theorem C16_lockstep : forall c sc s, reachable c sc s ->
  s_count s = batch_records (firstn (s_next s) (sc_batches sc)) /\ chain 0 (s_hist s) /\
  match s_opc s with
  | OConsume f t _ => f = last_to (s_hist s) /\ t = s_count s
  | _ => s_count s = last_to (s_hist s)
  end.
Proof. exact record_count_lockstep. Qed.
Print Assumptions C16_lockstep.

(* ---- the code as it is now *)
(* acknowledged ids never decrease (they strictly increase) along the responses the client gets *)
Theorem C16_ack_monotone : forall sc s, reachable cfg_current sc s ->
  StronglySorted N.lt (ok_acks (s_log s)).
Proof. exact current_ack_monotone. Qed.
Print Assumptions C16_ack_monotone.

(* an id is acknowledged only if every record up to it was accepted by the consumer or lies in a
   bad range carried by this or an earlier response *)
Theorem C16_ack_sound : forall sc s pre r ok post, reachable cfg_current sc s ->
  s_log s = pre ++ (r, ok) :: post ->
  forall x, 0 < x <= r_ack r ->
  exists f t o, In (f, t, o) (s_hist s) /\ f < x <= t /\
    (o = OOk \/ exists a b, In (a, b) (reported pre ++ r_ranges r) /\ a <= x <= b).
Proof. exact current_ack_sound. Qed.
Print Assumptions C16_ack_sound.

Theorem C16_ack_sound_batches : forall sc s pre r ok post, reachable cfg_current sc s ->
  s_log s = pre ++ (r, ok) :: post ->
  r_ack r <= last_to (s_hist s) /\
  (r_ack r = 0 \/ exists f o, In (f, r_ack r, o) (s_hist s)) /\
  forall f t o, In (f, t, o) (s_hist s) -> t <= r_ack r ->
    o = OOk \/ (o = OPerm /\ In (f + 1, t) (reported pre ++ r_ranges r)).
Proof. exact current_ack_sound_batches. Qed.
Print Assumptions C16_ack_sound_batches.

(* a permanently rejected batch is reported at most once, in order of rejection, with exactly its
   id range; what is not reported yet is still queued ... *)
Theorem C16_bad_exactly_once_exact_range : forall sc s, reachable cfg_current sc s ->
  exact_ranges (s_hist s) = reported (s_log s) ++ unreported s.
Proof. exact current_bad_exactly_once. Qed.
Print Assumptions C16_bad_exactly_once_exact_range.

(* ... so once nothing is queued every rejected batch was reported exactly once *)
Theorem C16_bad_all_reported_when_drained : forall sc s, reachable cfg_current sc s ->
  unreported s = [] -> reported (s_log s) = exact_ranges (s_hist s).
Proof. exact current_bad_all_reported. Qed.
Print Assumptions C16_bad_all_reported_when_drained.

Theorem C16_current_on_refuting_script : exists s,
  run cfg_current sc_bad_then_ok st_init schedule_order_current = Some s /\
  s_log s = [(mkResp 5 [(1, 5)], true); (mkResp 10 [], true)] /\
  mono_ok s = true /\ sound_ok s = true /\ ranges_ok s = true.
Proof. exact current_order_run. Qed.
Print Assumptions C16_current_on_refuting_script.

(* ---- the tree as first read: the three invariants are refuted (defect D10, repaired) *)
Theorem C16_refuted_order : exists sc s, reachable cfg_pinned sc s /\
  ~ StronglySorted N.le (ok_acks (s_log s)).
Proof. exact pinned_monotone_refuted. Qed.
Print Assumptions C16_refuted_order.

Theorem C16_refuted_sound : exists sc s pre r ok post, reachable cfg_pinned sc s /\
  s_log s = pre ++ (r, ok) :: post /\
  exists f t, In (f, t, OPerm) (s_hist s) /\ t <= r_ack r /\
    forall a b, In (a, b) (reported pre ++ r_ranges r) -> ~ (a <= t <= b).
Proof. exact pinned_sound_refuted. Qed.
Print Assumptions C16_refuted_sound.

Theorem C16_refuted_range : exists sc s, reachable cfg_pinned sc s /\
  exists a b f t, In (a, b) (reported (s_log s)) /\ In (f, t, OOk) (s_hist s) /\ f < a <= t.
Proof. exact pinned_range_refuted. Qed.
Print Assumptions C16_refuted_range.

(* ---- what holds for every version of the code (in particular for cfg_pinned).
   Gap to the full property, for the version without the drain: a pure acknowledgement may be sent
   while bad data is queued, so only responses that carry bad ranges are proved sound, only pure
   acknowledgements are proved monotone among themselves, and the reported ranges are the code's
   (from, to), which for cfg_pinned start one id early. *)
Theorem C16_pure_acks_monotone_partial : forall c sc s, reachable c sc s ->
  StronglySorted N.le (pure_acks (s_log s)).
Proof. exact pure_acks_monotone. Qed.
Print Assumptions C16_pure_acks_monotone_partial.

Theorem C16_bad_response_sound_partial : forall c sc s pre r ok post, reachable c sc s ->
  s_log s = pre ++ (r, ok) :: post -> r_ranges r <> [] ->
  forall x, 0 < x <= r_ack r ->
  exists f t o, In (f, t, o) (s_hist s) /\ f < x <= t /\
    (o = OOk \/ exists a b, In (a, b) (reported pre ++ r_ranges r) /\ a <= x <= b).
Proof. exact anycfg_bad_response_sound. Qed.
Print Assumptions C16_bad_response_sound_partial.

Theorem C16_ranges_accounting_partial : forall c sc s, reachable c sc s ->
  code_ranges c (s_hist s) = reported (s_log s) ++ unreported s.
Proof. exact bad_ranges_accounting. Qed.
Print Assumptions C16_ranges_accounting_partial.
