(* Property C17: OTLP metrics survive conversion to STEF and back. *)
From Coq Require Import List NArith ZArith Bool.
From Stef Require Import OtlpBase PData Record Image ToStef FromStef RefutedFacts.
Import ListNotations.
Open Scope N_scope.

Theorem C17_map_index_refuted :
  exists b b', mbatch_wf b = true /\
    rbind (to_stef_unsorted cfg_pinned b) (from_stef cfg_pinned) = Ok b' /\ flatten b' <> flatten b.
Proof. exact map_index_refuted. Qed.
Print Assumptions C17_map_index_refuted.
