(* Property C17: OTLP metrics survive conversion to STEF and back (both converters).
   Model: Otlp/{PData,Record,Image,ToStef,FromStef}.v; variants of the code are selected by cfg
   (cfg_pinned = the pinned commit; the flags named in the hypotheses are the repaired defects
   D11, D12, D17, see DESIGN 8).  flatten = list of fully qualified data points, attribute
   collections in canonical (key-sorted) order.  mbatch_wf = ranges of the Go types, unique map
   keys.  A batch the converter refuses (result Err) is outside the statement. *)
From Coq Require Import List NArith ZArith Bool Permutation.
From Stef Require Import OtlpBase PData Record Image ToStef ToStefFacts FromStef FromStefFacts
  RoundTripFacts SortedFacts SortedRoundTripFacts RefutedFacts.
Import ListNotations.
Open Scope N_scope.

(* records written = number of data points: order-preserving converter, every variant of the
   code, every content of the carried-over writer record *)
Theorem C17_count_unsorted : forall c w b recs,
  to_stef_unsorted_from c w b = Ok recs -> length recs = datapoint_count b.
Proof. exact unsorted_count. Qed.
Print Assumptions C17_count_unsorted.

(* sorting converter, for any key comparisons whose Eq means equality, once number points
   without a value are no longer skipped *)
Theorem C17_count_sorted : forall cmpM cmpR cmpS cmpA,
  (forall a b, cmpM a b = Eq -> a = b) -> (forall a b, cmpR a b = Eq -> a = b) ->
  (forall a b, cmpS a b = Eq -> a = b) -> (forall a b, cmpA a b = Eq -> a = b) ->
  forall c b recs, c_keep_empty c = true ->
  to_stef_sorted_gen cmpM cmpR cmpS cmpA c b = Ok recs -> length recs = datapoint_count b.
Proof. exact sorted_count. Qed.
Print Assumptions C17_count_sorted.

(* the pinned code (generated Cmp functions) writes fewer records: D17 *)
Theorem C17_count_sorted_refuted :
  exists b recs, mbatch_wf b = true /\ to_stef_sorted cfg_pinned b = Ok recs /\
                 length recs <> datapoint_count b.
Proof. exact sorted_count_refuted. Qed.
Print Assumptions C17_count_sorted_refuted.

(* the attribute conversion with the index advancing is the structural image, whatever the
   destination slot held before (nothing of the previous record leaks) *)
Theorem C17_attr_conversion : forall v prev, conv_val true prev v = img_val v.
Proof. exact conv_val_img. Qed.
Print Assumptions C17_attr_conversion.

(* ... and the way back inverts the image on values with unique map keys *)
Theorem C17_attr_way_back : forall v, oval_wf v = true -> back_val (img_val v) = v.
Proof. exact back_img_val. Qed.
Print Assumptions C17_attr_way_back.

(* StefToOtlpUnsorted on ANY record stream whose modified flags announce every change of
   metric, resource and scope: the flattened result is what each record stands for, in order *)
Theorem C17_way_back_by_flags : forall c l pvs,
  flags_ok l -> views c l pvs ->
  exists b', from_stef_flags c l = Ok b' /\ flatten b' = concat pvs.
Proof. exact from_stef_views. Qed.
Print Assumptions C17_way_back_by_flags.

(* order-preserving converter and back: the same list of fully qualified data points, for
   every initial writer record and every sound flag assignment *)
Theorem C17_roundtrip_unsorted : forall c w b recs l,
  c_map_inc c = true -> c_back_ex c = true -> c_summary_flag c = true ->
  mbatch_wf b = true ->
  to_stef_unsorted_from c w b = Ok recs ->
  map snd l = recs -> flags_ok l ->
  exists b', from_stef_flags c l = Ok b' /\ flatten b' = flatten b.
Proof. exact unsorted_roundtrip. Qed.
Print Assumptions C17_roundtrip_unsorted.

(* sorting converter and back: a permutation of the fully qualified data points *)
Theorem C17_roundtrip_sorted : forall cmpM cmpR cmpS cmpA,
  (forall a b, cmpM a b = Eq -> a = b) -> (forall a b, cmpR a b = Eq -> a = b) ->
  (forall a b, cmpS a b = Eq -> a = b) -> (forall a b, cmpA a b = Eq -> a = b) ->
  forall c b recs l,
  c_map_inc c = true -> c_back_ex c = true -> c_summary_flag c = true -> c_keep_empty c = true ->
  mbatch_wf b = true ->
  to_stef_sorted_gen cmpM cmpR cmpS cmpA c b = Ok recs ->
  map snd l = recs -> flags_ok l ->
  exists b', from_stef_flags c l = Ok b' /\ Permutation (flatten b') (flatten b).
Proof. exact sorted_roundtrip. Qed.
Print Assumptions C17_roundtrip_sorted.

(* what the pinned code does instead (witnesses evaluated by vm_compute, replayed on the Go
   code from corpus/C17/witnesses.txt) *)
Theorem C17_map_index_refuted :
  exists b b', mbatch_wf b = true /\
    rbind (to_stef_unsorted cfg_pinned b) (from_stef cfg_pinned) = Ok b' /\ flatten b' <> flatten b.
Proof. exact map_index_refuted. Qed.
Print Assumptions C17_map_index_refuted.

Theorem C17_flagged_exemplars_refuted :
  exists b b', mbatch_wf b = true /\
    rbind (to_stef_unsorted cfg_pinned b) (from_stef cfg_pinned) = Ok b' /\ flatten b' <> flatten b.
Proof. exact flagged_exemplars_refuted. Qed.
Print Assumptions C17_flagged_exemplars_refuted.

Theorem C17_summary_flag_refuted :
  exists b b', mbatch_wf b = true /\
    rbind (to_stef_unsorted cfg_pinned b) (from_stef cfg_pinned) = Ok b' /\ flatten b' <> flatten b.
Proof. exact summary_flag_refuted. Qed.
Print Assumptions C17_summary_flag_refuted.

(* Not proved (observed by the correspondence only): the grouping way back
   (stefToOtlpSorted, model from_stef_sorted); that the generated Cmp* functions and the
   reader's modified flags satisfy the hypotheses above (the check compares the model using
   transcriptions of Cmp* with the Go order of records, and tests flag soundness on every
   observed stream); float setters with != (known finding C17-setter-negzero). *)

(* ---- the grouping way back (stefToOtlpSorted): proved for ANY list of records ---- *)
From Stef Require Import FromStefSortedFacts.

Theorem C17_way_back_by_groups_ : forall cmpR cmpS cmpM cmpA,
  (forall a b, cmpR a b = Eq -> a = b) -> (forall a b, cmpS a b = Eq -> a = b) ->
  (forall a b, cmpM a b = Eq -> a = b) -> (forall a b, cmpA a b = Eq -> a = b) ->
  forall c l pvs, rviews c l pvs ->
  exists b', from_stef_sorted_gen cmpR cmpS cmpM cmpA c l = Ok b' /\
             Permutation (flatten b') (concat pvs) /\
             flatten b' = flat_map (vw c) (regroup cmpR cmpS cmpM cmpA l).
Proof. exact FromStefSortedFacts.C17_way_back_by_groups. Qed.
Print Assumptions C17_way_back_by_groups_.

Theorem C17_regroup_perm_ : forall cmpR cmpS cmpM cmpA,
  (forall a b, cmpR a b = Eq -> a = b) -> (forall a b, cmpS a b = Eq -> a = b) ->
  (forall a b, cmpM a b = Eq -> a = b) -> (forall a b, cmpA a b = Eq -> a = b) ->
  forall l, Permutation (regroup cmpR cmpS cmpM cmpA l) l.
Proof. exact FromStefSortedFacts.C17_regroup_perm. Qed.
Print Assumptions C17_regroup_perm_.

Theorem C17_way_back_group_order_ : forall cmpR cmpS cmpM cmpA,
  strict_order cmpR -> strict_order cmpS -> strict_order cmpM -> strict_order cmpA ->
  forall (f : mrecord -> bool) R0 S0 M0 A0,
  (forall x, f x = true ->
     r_resource x = R0 /\ r_scope x = S0 /\ r_metric x = M0 /\ r_attrs x = A0) ->
  forall l, filter f (regroup cmpR cmpS cmpM cmpA l) = filter f l.
Proof. exact FromStefSortedFacts.C17_way_back_group_order. Qed.
Print Assumptions C17_way_back_group_order_.

Theorem C17_way_back_metric_order_refuted_ :
  exists l R0 S0 M0,
    Forall (fun x => r_resource x = R0 /\ r_scope x = S0 /\ r_metric x = M0) l /\
    regroup cmp_resource cmp_scope cmp_metric cmp_tattrs l <> l.
Proof. exact FromStefSortedFacts.C17_way_back_metric_order_refuted. Qed.
Print Assumptions C17_way_back_metric_order_refuted_.

Theorem C17_sorted_back_same_list_refuted_ :
  exists b b' b'', mbatch_wf b = true /\
    rbind (to_stef_unsorted cfg_repaired b) (from_stef_sorted cfg_repaired) = Ok b' /\
    flatten b' <> flatten b /\
    rbind (to_stef_unsorted cfg_repaired b) (from_stef cfg_repaired) = Ok b'' /\
    flatten b'' = flatten b.
Proof. exact FromStefSortedFacts.C17_sorted_back_same_list_refuted. Qed.
Print Assumptions C17_sorted_back_same_list_refuted_.

Theorem C17_sorted_back_one_metric_per_identity_refuted_ :
  exists b b', mbatch_wf b = true /\
    rbind (to_stef_unsorted cfg_repaired b) (from_stef_sorted cfg_repaired) = Ok b' /\
    exists rm sm, In rm b' /\ In sm (rm_scopes rm) /\
                  ~ NoDup (map fq_of_metric (sm_metrics sm)).
Proof. exact FromStefSortedFacts.C17_sorted_back_one_metric_per_identity_refuted. Qed.
Print Assumptions C17_sorted_back_one_metric_per_identity_refuted_.

Theorem C17_roundtrip_unsorted_then_sorted_back_ : forall cmpR cmpS cmpM cmpA,
  (forall a b, cmpR a b = Eq -> a = b) -> (forall a b, cmpS a b = Eq -> a = b) ->
  (forall a b, cmpM a b = Eq -> a = b) -> (forall a b, cmpA a b = Eq -> a = b) ->
  forall c w b recs,
  c_map_inc c = true -> c_back_ex c = true -> c_summary_flag c = true ->
  mbatch_wf b = true ->
  to_stef_unsorted_from c w b = Ok recs ->
  exists b', from_stef_sorted_gen cmpR cmpS cmpM cmpA c recs = Ok b' /\
             Permutation (flatten b') (flatten b) /\
             flatten b = flat_map (vw c) recs /\
             flatten b' = flat_map (vw c) (regroup cmpR cmpS cmpM cmpA recs).
Proof. exact FromStefSortedFacts.C17_roundtrip_unsorted_then_sorted_back. Qed.
Print Assumptions C17_roundtrip_unsorted_then_sorted_back_.

Theorem C17_roundtrip_sorted_then_sorted_back_ :
  forall cmpM' cmpR' cmpS' cmpA' cmpR cmpS cmpM cmpA,
  (forall a b, cmpM' a b = Eq -> a = b) -> (forall a b, cmpR' a b = Eq -> a = b) ->
  (forall a b, cmpS' a b = Eq -> a = b) -> (forall a b, cmpA' a b = Eq -> a = b) ->
  (forall a b, cmpR a b = Eq -> a = b) -> (forall a b, cmpS a b = Eq -> a = b) ->
  (forall a b, cmpM a b = Eq -> a = b) -> (forall a b, cmpA a b = Eq -> a = b) ->
  forall c b recs,
  c_map_inc c = true -> c_back_ex c = true -> c_summary_flag c = true -> c_keep_empty c = true ->
  mbatch_wf b = true ->
  to_stef_sorted_gen cmpM' cmpR' cmpS' cmpA' c b = Ok recs ->
  exists b', from_stef_sorted_gen cmpR cmpS cmpM cmpA c recs = Ok b' /\
             Permutation (flatten b') (flatten b).
Proof. exact FromStefSortedFacts.C17_roundtrip_sorted_then_sorted_back. Qed.
Print Assumptions C17_roundtrip_sorted_then_sorted_back_.

Theorem C17_way_back_by_groups_ok_iff_ : forall cmpR cmpS cmpM cmpA,
  (forall a b, cmpR a b = Eq -> a = b) -> (forall a b, cmpS a b = Eq -> a = b) ->
  (forall a b, cmpM a b = Eq -> a = b) -> (forall a b, cmpA a b = Eq -> a = b) ->
  forall c l,
  (exists b', from_stef_sorted_gen cmpR cmpS cmpM cmpA c l = Ok b') <->
  (exists pvs, rviews c l pvs).
Proof. exact FromStefSortedFacts.C17_way_back_by_groups_ok_iff. Qed.
Print Assumptions C17_way_back_by_groups_ok_iff_.

Theorem C17_way_back_tree_strict_ : forall cmpR cmpS cmpM cmpA,
  strict_order cmpR -> strict_order cmpS -> strict_order cmpM -> strict_order cmpA ->
  forall l, okT cmpR cmpS cmpM cmpA (fold_left (rtree_insert cmpR cmpS cmpM cmpA) l []).
Proof. exact FromStefSortedFacts.C17_way_back_tree_strict. Qed.
Print Assumptions C17_way_back_tree_strict_.
