(* Property C18: every OTLP span becomes exactly one STEF record with all its content. *)
From Coq Require Import List NArith ZArith Bool.
From Stef Require Import OtlpBase PData Record Image ToStef Traces RefutedFacts.
Import ListNotations.
Open Scope N_scope.

Theorem C18_content_refuted :
  exists b recs, traces_to_stef cfg_pinned false b = Ok recs /\
                 recs <> map (span_image false) (flatten_spans b).
Proof. exact span_content_refuted. Qed.
Print Assumptions C18_content_refuted.
