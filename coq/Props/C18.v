(* Property C18: every OTLP span becomes exactly one STEF record with all its content; the
   sorting mode writes the same multiset.  Model: Otlp/{PData,Record,Image,Traces}.v.
   span_image = the documented field mapping (ids as lowercase hex text, note N19; in sorting
   mode the span's own attributes are stored sorted by key). *)
From Coq Require Import List NArith ZArith Bool Permutation.
From Stef Require Import OtlpBase PData Record Image ToStef Traces TracesFacts RefutedFacts.
Import ListNotations.
Open Scope N_scope.

(* one record per span: every variant of the code, every carried-over writer record *)
Theorem C18_one_per_span : forall c w b recs,
  traces_to_stef_from c false w b = Ok recs -> length recs = span_count b.
Proof. exact traces_count_conv. Qed.
Print Assumptions C18_one_per_span.

(* record k is the image of span k (with the map index repaired, D11), whatever the writer
   record held before: events and links resized in place leave nothing behind *)
Theorem C18_content : forall c w b recs, c_map_inc c = true ->
  traces_to_stef_from c false w b = Ok recs -> recs = map (span_image false) (flatten_spans b).
Proof. exact traces_content_conv. Qed.
Print Assumptions C18_content.

(* sorting mode: for any resource / scope comparison whose Eq means equal identity, the
   records are a permutation of the images of all spans (hence also one record per span) *)
Theorem C18_sorted_multiset : forall cmpR cmpS c, c_map_inc c = true ->
  (forall a b, cmpR a b = Some Eq -> a = b) -> (forall a b, cmpS a b = Some Eq -> a = b) ->
  forall w b recs, traces_to_stef_gen cmpR cmpS c true w b = Ok recs ->
  Permutation recs (map (span_image true) (flatten_spans b)).
Proof. exact traces_sorted_perm. Qed.
Print Assumptions C18_sorted_multiset.

(* the pinned code: D11 in a span attribute, CmpVal panics on doubles (D18), resources that
   differ only in the dropped attributes count are merged (D19) *)
Theorem C18_content_refuted :
  exists b recs, traces_to_stef cfg_pinned false b = Ok recs /\
                 recs <> map (span_image false) (flatten_spans b).
Proof. exact span_content_refuted. Qed.
Print Assumptions C18_content_refuted.

Theorem C18_sorted_panic_refuted : exists b, traces_to_stef cfg_pinned true b = Panic.
Proof. exact sorted_cmp_panic_refuted. Qed.
Print Assumptions C18_sorted_panic_refuted.

Theorem C18_sorted_merge_refuted :
  exists b recs, traces_to_stef cfg_pinned true b = Ok recs /\
    ~ (forall q, In (span_image true q) recs <-> In q (flatten_spans b)).
Proof. exact sorted_merge_dropped_refuted. Qed.
Print Assumptions C18_sorted_merge_refuted.

(* Not proved (observed by the correspondence only): that CmpResourceSpans / CmpScopeSpans of
   the repaired compare.go satisfy the hypothesis of C18_sorted_multiset (the model runs a
   transcription of them and is compared with the Go records); sort.SliceStable beyond 20
   elements; float setters with != (known finding C18-setter-negzero). *)
