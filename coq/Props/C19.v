(* Property C19: the collector pipeline delivers every exported data point exactly once, and every
   delivered batch is eventually acknowledged back to the exporter.  Model: Net/Pipeline.v - N
   exporters (mutex-serialised pushMetrics, periodic Flush), one FIFO of chunks per gRPC stream,
   the receiver loop, the consumer, the responder and the ack path, as an interleaving transition
   system over record ids.  [reachable v n] = every state of every interleaving of n streams.
   PPinned = exporter as found, PCurrent = after the repair of onGrpcAck. *)
From Coq Require Import List Arith NArith Bool.
From Stef Require Import Pipeline PipelineFacts.
Import ListNotations.
Open Scope N_scope.

(* safety, every reachable state, every stream: what the consumer was handed is a duplicate-free
   in-order prefix of the data points 1..x_count the exporter accepted on that stream (at most
   once, in order, nothing invented) *)
Theorem C19_at_most_once_in_order : forall v n st s, reachable v n st -> In s st ->
  exists k rest, x_count s = N.of_nat k /\ ids 0 k = delivered s ++ rest /\ NoDup (delivered s).
Proof. exact at_most_once_in_order. Qed.
Print Assumptions C19_at_most_once_in_order.

(* the invariant behind it, preserved by every step of every stream *)
Theorem C19_invariant : forall v n st, reachable v n st -> Forall (Inv v) st.
Proof. exact reachable_inv. Qed.
Print Assumptions C19_invariant.

(* acknowledgements reaching the exporter are strictly increasing and never ahead of delivery *)
Theorem C19_acks_only_delivered : forall v n st s, reachable v n st -> In s st ->
  chain 0 (x_acks s) (x_last_acked s) /\ x_last_acked s <= N.of_nat (length (delivered s)).
Proof. exact acks_only_delivered. Qed.
Print Assumptions C19_acks_only_delivered.

(* every reachable state in which no internal action of any stream is enabled: on every stream
   the consumer has received exactly the accepted data points 1..x_count, once each and in order,
   the accepted batches tile 1..x_count, and the last OnAck carried the id of the last record *)
Theorem C19_all_delivered_when_quiescent : forall v n st, reachable v n st -> forallb (quiescent v) st = true ->
  Forall (fun s => exists k, x_count s = N.of_nat k /\ delivered s = ids 0 k /\ x_last_acked s = x_count s /\
                             (k <> 0%nat -> last (x_acks s) 0 = x_count s) /\ bchain 0 (x_batches s) (x_count s)) st.
Proof. exact system_quiescent. Qed.
Print Assumptions C19_all_delivered_when_quiescent.

(* liveness, as far as it is a property of the protocol: a non-quiescent stream can take an
   internal step, every internal step decreases a natural-number measure, so every run without new
   ConsumeMetrics calls is finite - whatever the schedule - and can only stop quiescent *)
Theorem C19_not_quiescent_can_step : forall v s, quiescent v s = false ->
  exists a s', In a internal_actions /\ step v a s = Some s'.
Proof. exact not_quiescent_can_step. Qed.
Print Assumptions C19_not_quiescent_can_step.

Theorem C19_internal_runs_bounded : forall v sched st st',
  forallb (fun ia => negb (is_input (snd ia))) sched = true -> run v sched st = Some st' ->
  (length sched + sys_measure st' <= sys_measure st)%nat.
Proof. exact internal_runs_bounded. Qed.
Print Assumptions C19_internal_runs_bounded.

(* the exporter's own bookkeeping: after the repair nothing stays in sentPendingAck at quiescence;
   the exporter as found keeps the batch that ends at the acknowledged id (refutation by a run) *)
Theorem C19_pending_empty_when_quiescent : forall n st, reachable PCurrent n st -> forallb (quiescent PCurrent) st = true ->
  Forall (fun s => x_pending s = []) st.
Proof. exact system_quiescent_pending. Qed.
Print Assumptions C19_pending_empty_when_quiescent.

Theorem C19_refuted_pending_pinned : exists st s, reachable PPinned 1 st /\ st = [s] /\
  quiescent PPinned s = true /\ x_pending s <> [].
Proof. exact pinned_pending_refuted. Qed.
Print Assumptions C19_refuted_pending_pinned.
