(* Property C20: primitive encodings are bit-exact per the specification over their whole
   domain. Only statements, each closed by [exact], each followed by Print Assumptions. *)
From Coq Require Import List NArith ZArith Bool.
From Stef Require Import Bits BitsFacts BitIO BitIOFacts Varint VarintFacts Codecs CodecFacts.
Import ListNotations.
Open Scope N_scope.

(* compact varint: for every value below 2^48 the table-driven writer emits exactly the
   specification's prefix/payload bit string (tables regenerated from the Go source) *)
Theorem C20_uvc_is_spec : forall v, v < two48 -> uvc_write_bits v = uvc_spec_bits v.
Proof. exact uvc_write_is_spec. Qed.
Print Assumptions C20_uvc_is_spec.

(* ... and the table-driven reader returns the value and is positioned right after it, at every
   bit alignment (the reader state r is arbitrary) and whatever follows (rest is arbitrary) *)
Theorem C20_uvc_roundtrip : forall r v rest, v < two48 -> br_wf r ->
  br_rem r = uvc_write_bits v ++ rest ->
  exists r', br_read_uvc r = (v, r') /\ br_wf r' /\ br_rem r' = rest.
Proof. exact uvc_roundtrip. Qed.
Print Assumptions C20_uvc_roundtrip.

(* n-bit fields written MSB first are read back, for any n <= 64 *)
Theorem C20_bits_roundtrip : forall r l rest, br_wf r -> br_rem r = l ++ rest -> (length l <= 64)%nat ->
  exists r', br_read_bits r (length l) = (N_of_bits l, r') /\ br_wf r' /\ br_rem r' = rest.
Proof. exact br_read_bits_app. Qed.
Print Assumptions C20_bits_roundtrip.

Theorem C20_bits_of_value : forall n v, v < 2 ^ N.of_nat n -> N_of_bits (bits_of_N n v) = v.
Proof. exact N_of_bits_of_N_small. Qed.
Print Assumptions C20_bits_of_value.

(* LEB128 and zig-zag over all 64-bit values *)
Theorem C20_leb_roundtrip : forall v rest, v < two64 -> leb_dec (leb_enc v ++ rest) = Some (v, rest).
Proof. exact leb_roundtrip. Qed.
Print Assumptions C20_leb_roundtrip.

Theorem C20_leb_length : forall v, (length (leb_enc v) <= 10)%nat.
Proof. exact leb_length. Qed.
Print Assumptions C20_leb_length.

Theorem C20_varint_roundtrip : forall x rest, in_i64 x ->
  varint_dec (varint_enc x ++ rest) = Some (x, rest).
Proof. exact varint_roundtrip. Qed.
Print Assumptions C20_varint_roundtrip.

(* delta-of-delta integers, wrap-around included, any shared start state, state lockstep *)
Theorem C20_u64_roundtrip : forall s v rest, u64_wf s -> v < two64 ->
  let '(s', b) := u64_encode s v in
  u64_decode s (b ++ rest) = Some (s', v, rest) /\ u64_wf s'.
Proof. exact u64_roundtrip. Qed.
Print Assumptions C20_u64_roundtrip.

Theorem C20_i64_roundtrip : forall s v rest, u64_wf s -> in_i64 v ->
  let '(s', b) := i64_encode s v in
  i64_decode s (b ++ rest) = Some (s', v, rest) /\ u64_wf s'.
Proof. exact i64_roundtrip. Qed.
Print Assumptions C20_i64_roundtrip.

Theorem C20_u64_column_roundtrip : forall vs s rest, u64_wf s -> Forall (fun v => v < two64) vs ->
  let '(s', b) := u64_encode_seq s vs in
  u64_decode_seq (length vs) s (b ++ rest) = Some (s', vs, rest) /\ u64_wf s'.
Proof. exact u64_seq_roundtrip. Qed.
Print Assumptions C20_u64_column_roundtrip.

(* float codec on bit patterns: every pair (previous state, value), NaN payloads, infinities
   and signed zero are just patterns; the decoder ends in the encoder's state *)
Theorem C20_f64_roundtrip : forall s v r rest, f64_wf s -> v < two64 -> br_wf r ->
  let '(s', b) := f64_encode s v in
  br_rem r = b ++ rest ->
  exists r', f64_decode s r = (s', v, r') /\ br_wf r' /\ br_rem r' = rest /\ f64_wf s'.
Proof. exact f64_roundtrip. Qed.
Print Assumptions C20_f64_roundtrip.

Theorem C20_bool_roundtrip : forall r b rest, br_wf r -> br_rem r = bool_encode b ++ rest ->
  exists r', bool_decode r = (b, r') /\ br_wf r' /\ br_rem r' = rest.
Proof. exact br_read_bit_app. Qed.
Print Assumptions C20_bool_roundtrip.

(* length-prefixed and dictionary strings / bytes *)
Theorem C20_str_roundtrip : forall (v rest : bytes), (Z.of_nat (length v) < two63)%Z ->
  str_decode (str_encode v ++ rest) = inr (v, rest).
Proof. exact str_roundtrip. Qed.
Print Assumptions C20_str_roundtrip.

Theorem C20_strdict_roundtrip : forall (d : sdict) (v rest : bytes),
  (Z.of_nat (length v) < two63)%Z -> (Z.of_nat (length d) < two63)%Z ->
  let '(d', b) := strdict_encode d v in
  strdict_decode d (b ++ rest) = inr (d', v, rest).
Proof. exact strdict_roundtrip. Qed.
Print Assumptions C20_strdict_roundtrip.

Theorem C20_strdict_ref_when_present : forall d v, In v d ->
  exists ref, strdict_encode d v = (d, varint_enc (- Z.of_N ref - 1)).
Proof. exact strdict_ref_when_present. Qed.
Print Assumptions C20_strdict_ref_when_present.

(* reading past the end of a column is an error, not data *)
Theorem C20_overread_bytes : leb_dec [] = None /\ (forall s, u64_decode s [] = None) /\
  str_decode [] = inl EEof /\ (forall d, strdict_decode d [] = inl EEof).
Proof. exact overread_bytes. Qed.
Print Assumptions C20_overread_bytes.

Theorem C20_overread_string_body : forall n body, (length body < n)%nat -> (Z.of_nat n < two63)%Z ->
  str_decode (varint_enc (Z.of_nat n) ++ body) = inl EEof.
Proof. exact overread_string_body. Qed.
Print Assumptions C20_overread_string_body.

(* bit columns: the real reader tolerates 56 zero bits past the end (phantom bits of
   refillSlow); any read that reaches further raises the sticky error. *)
Theorem C20_overread_bits : forall r n, (0 < n)%nat ->
  br_threshold r < br_pos r + N.of_nat n -> br_err (snd (br_peek r n)) = true.
Proof. exact overread_bits. Qed.
Print Assumptions C20_overread_bits.

Theorem C20_error_sticky : forall r n m, br_err r = true ->
  br_err (snd (br_peek r n)) = true /\ br_err (br_consume r m) = true.
Proof. exact error_sticky. Qed.
Print Assumptions C20_error_sticky.
