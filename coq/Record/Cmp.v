(* The generated three-way comparison (Cmp<Type> in struct/oneof/array/multimap templates,
   go/pkg/types.go *Compare) and deep copy as functions on self-describing values.
   A value carries what the comparison looks at: for optional struct fields the presence flag and
   the value (the harness hands over CNil for an absent field: since the repair of the generated Cmp
   the value still stored in an absent field is not compared, i.e. Go computes cmp (data a) (data b)),
   for oneofs only the selected alternative, for dictionary structs possibly nil pointers. *)
From Coq Require Import List NArith ZArith Bool Lia.
From Stef Require Import Bits Codecs.
Import ListNotations.
Open Scope N_scope.

Inductive cval :=
| CBool (b : bool) | CU64 (n : N) | CI64 (z : Z) | CF64 (bits : N) | CStr (s : bytes)
| CNil                                              (* nil pointer (dictionary struct) *)
| CStruct (fields : list (option bool * cval))      (* per field: None = mandatory, Some present *)
| COneof (tag : N) (v : cval)
| CArr (elems : list cval)
| CMap (kvs : list (cval * cval)).

Definition lex (c1 c2 : comparison) : comparison := match c1 with Eq => c2 | _ => c1 end.

(* strings.Compare *)
Fixpoint cmp_bytes (a b : bytes) : comparison :=
  match a, b with
  | [], [] => Eq
  | [], _ => Lt
  | _, [] => Gt
  | x :: a', y :: b' => lex (N.compare x y) (cmp_bytes a' b')
  end.

(* pkg.Float64Compare after the fix: a monotone key of the bit pattern *)
Definition f64_key (b : N) : N :=
  if N.testbit b 63 then 18446744073709551615 - b else b + 9223372036854775808.

Definition cmp_bool (a b : bool) : comparison :=
  match a, b with
  | false, true => Lt
  | true, false => Gt
  | _, _ => Eq
  end.

(* rank of a constructor: values of different shape are ordered by shape (never happens for two
   values of one generated type; it makes cmp a total order on all of cval) *)
Definition rank (v : cval) : N :=
  match v with
  | CNil => 0 | CBool _ => 1 | CU64 _ => 2 | CI64 _ => 3 | CF64 _ => 4 | CStr _ => 5
  | CStruct _ => 6 | COneof _ _ => 7 | CArr _ => 8 | CMap _ => 9
  end.

Fixpoint cmp (a b : cval) {struct a} : comparison :=
  match a, b with
  | CBool x, CBool y => cmp_bool x y
  | CU64 x, CU64 y => N.compare x y
  | CI64 x, CI64 y => Z.compare x y
  | CF64 x, CF64 y => N.compare (f64_key x) (f64_key y)
  | CStr x, CStr y => cmp_bytes x y
  | CNil, CNil => Eq
  | CStruct fa, CStruct fb =>
    (* fields in declaration order; optional: presence first (present > absent), then the stored value *)
    (fix go (fa fb : list (option bool * cval)) {struct fa} : comparison :=
       match fa, fb with
       | [], [] => Eq
       | [], _ => Lt
       | _, [] => Gt
       | (pa, va) :: fa', (pb, vb) :: fb' =>
         let cp := match pa, pb with
                   | Some x, Some y => cmp_bool x y
                   | None, None => Eq
                   | None, Some _ => Lt
                   | Some _, None => Gt
                   end in
         lex cp (lex (cmp va vb) (go fa' fb'))
       end) fa fb
  | COneof ta va, COneof tb vb => lex (N.compare ta tb) (cmp va vb)
  | CArr la, CArr lb =>
    (* length first, then element by element *)
    lex (Nat.compare (length la) (length lb))
        ((fix go (la lb : list cval) {struct la} : comparison :=
            match la, lb with
            | x :: la', y :: lb' => lex (cmp x y) (go la' lb')
            | _, _ => Eq
            end) la lb)
  | CMap ka, CMap kb =>
    (* keys over the common prefix, then the length, then the values *)
    lex ((fix gok (ka kb : list (cval * cval)) {struct ka} : comparison :=
            match ka, kb with
            | (k1, _) :: ka', (k2, _) :: kb' => lex (cmp k1 k2) (gok ka' kb')
            | _, _ => Eq
            end) ka kb)
        (lex (Nat.compare (length ka) (length kb))
             ((fix gov (ka kb : list (cval * cval)) {struct ka} : comparison :=
                 match ka, kb with
                 | (_, v1) :: ka', (_, v2) :: kb' => lex (cmp v1 v2) (gov ka' kb')
                 | _, _ => Eq
                 end) ka kb))
  | _, _ => N.compare (rank a) (rank b)
  end.

(* deep copy: CopyFrom / Clone produce a value with the same data; in this value model a copy is
   the value itself, and independence is the absence of sharing between distinct values.  The
   store-level aliasing (frozen dictionary structs shared by pointer) is observed by the harness. *)
Definition copy (v : cval) : cval := v.

(* the data a value holds: presence-aware (the stored value of an absent optional field is not data) *)
Fixpoint data (v : cval) : cval :=
  match v with
  | CStruct fs => CStruct (map (fun pf => match fst pf with
                                          | Some false => (Some false, CNil)
                                          | p => (p, data (snd pf))
                                          end) fs)
  | COneof t x => COneof t (data x)
  | CArr l => CArr (map data l)
  | CMap kvs => CMap (map (fun kv => (data (fst kv), data (snd kv))) kvs)
  | x => x
  end.
