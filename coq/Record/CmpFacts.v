(* Facts about the three-way comparison of Record/Cmp.v: cmp is a total order on ALL of cval
   (reflexive, antisymmetric, transitive), and - for values whose float payloads are 64-bit
   patterns - cmp a b = Eq exactly when a = b.

   Only hypothesis ever used: [wf], which says that every CF64 payload is < 2^64.  It is needed
   for "Eq -> equal" only: f64_key truncates (N subtraction) for patterns >= 2^64 with bit 63 set,
   so it is not injective there (see [f64_key_not_injective_above_64] below).  No bound on CU64,
   CI64, strings, tags or lengths is needed. *)
From Coq Require Import List NArith ZArith Bool Lia Arith.
From Coq Require Import ZifyN ZifyNat ZifyBool.
From Stef Require Import Bits Codecs Cmp.
Import ListNotations.
Open Scope N_scope.

(* ------------------------------------------------------------------------------------------ *)
(* Induction principle for the nested type                                                     *)

Section CvalInd.
  Variable P : cval -> Prop.
  Hypothesis HBool : forall b, P (CBool b).
  Hypothesis HU64 : forall n, P (CU64 n).
  Hypothesis HI64 : forall z, P (CI64 z).
  Hypothesis HF64 : forall n, P (CF64 n).
  Hypothesis HStr : forall s, P (CStr s).
  Hypothesis HNil : P CNil.
  Hypothesis HStruct : forall fs, Forall (fun pf => P (snd pf)) fs -> P (CStruct fs).
  Hypothesis HOneof : forall t v, P v -> P (COneof t v).
  Hypothesis HArr : forall l, Forall P l -> P (CArr l).
  Hypothesis HMap : forall kvs, Forall P (map fst kvs) -> Forall P (map snd kvs) -> P (CMap kvs).

  Fixpoint cval_nested_ind (v : cval) : P v :=
    match v with
    | CBool b => HBool b
    | CU64 n => HU64 n
    | CI64 z => HI64 z
    | CF64 n => HF64 n
    | CStr s => HStr s
    | CNil => HNil
    | CStruct fs =>
      HStruct fs ((fix go (fs : list (option bool * cval)) : Forall (fun pf => P (snd pf)) fs :=
                     match fs with
                     | [] => Forall_nil _
                     | (p, x) :: fs' => Forall_cons (p, x) (cval_nested_ind x) (go fs')
                     end) fs)
    | COneof t x => HOneof t x (cval_nested_ind x)
    | CArr l =>
      HArr l ((fix go (l : list cval) : Forall P l :=
                 match l with
                 | [] => Forall_nil _
                 | x :: l' => Forall_cons x (cval_nested_ind x) (go l')
                 end) l)
    | CMap kvs =>
      HMap kvs
           ((fix go (l : list (cval * cval)) : Forall P (map fst l) :=
               match l with
               | [] => Forall_nil _
               | (k, x) :: l' => Forall_cons k (cval_nested_ind k) (go l')
               end) kvs)
           ((fix go (l : list (cval * cval)) : Forall P (map snd l) :=
               match l with
               | [] => Forall_nil _
               | (k, x) :: l' => Forall_cons x (cval_nested_ind x) (go l')
               end) kvs)
    end.
End CvalInd.

(* ------------------------------------------------------------------------------------------ *)
(* Generic list traversals, and cmp expressed with them                                        *)

(* lexicographic order on lists, a proper prefix is smaller *)
Fixpoint lexl {A} (f : A -> A -> comparison) (la lb : list A) : comparison :=
  match la, lb with
  | [], [] => Eq
  | [], _ => Lt
  | _, [] => Gt
  | x :: la', y :: lb' => lex (f x y) (lexl f la' lb')
  end.

(* pointwise over the common prefix *)
Fixpoint zipc {A} (f : A -> A -> comparison) (la lb : list A) : comparison :=
  match la, lb with
  | x :: la', y :: lb' => lex (f x y) (zipc f la' lb')
  | _, _ => Eq
  end.

(* presence flags of struct fields *)
Definition cmp_pres (pa pb : option bool) : comparison :=
  match pa, pb with
  | Some x, Some y => cmp_bool x y
  | None, None => Eq
  | None, Some _ => Lt
  | Some _, None => Gt
  end.

Definition cmp_field (p q : option bool * cval) : comparison :=
  lex (cmp_pres (fst p) (fst q)) (cmp (snd p) (snd q)).

Lemma lex_assoc : forall a b c, lex (lex a b) c = lex a (lex b c).
Proof. destruct a; reflexivity. Qed.

Lemma lex_eq : forall a b, lex a b = Eq <-> a = Eq /\ b = Eq.
Proof. destruct a; cbn [lex]; intuition discriminate. Qed.

Lemma lex_opp : forall a b, CompOpp (lex a b) = lex (CompOpp a) (CompOpp b).
Proof. destruct a; reflexivity. Qed.

Lemma cmp_bytes_lexl : forall a b, cmp_bytes a b = lexl N.compare a b.
Proof.
  induction a as [|x a IH]; destruct b as [|y b]; try reflexivity.
  cbn [cmp_bytes lexl]. rewrite IH. reflexivity.
Qed.

Lemma struct_go_lexl : forall fa fb,
  (fix go (fa fb : list (option bool * cval)) {struct fa} : comparison :=
     match fa, fb with
     | [], [] => Eq
     | [], _ => Lt
     | _, [] => Gt
     | (pa, va) :: fa', (pb, vb) :: fb' =>
       let cp := match pa, pb with
                 | Some x, Some y => cmp_bool x y
                 | None, None => Eq
                 | None, Some _ => Lt
                 | Some _, None => Gt
                 end in
       lex cp (lex (cmp va vb) (go fa' fb'))
     end) fa fb = lexl cmp_field fa fb.
Proof.
  induction fa as [|[pa va] fa IH]; destruct fb as [|[pb vb] fb]; try reflexivity.
  cbn [lexl]. unfold cmp_field at 1. rewrite lex_assoc, <- IH. reflexivity.
Qed.

Lemma arr_go_zipc : forall la lb,
  (fix go (la lb : list cval) {struct la} : comparison :=
     match la, lb with
     | x :: la', y :: lb' => lex (cmp x y) (go la' lb')
     | _, _ => Eq
     end) la lb = zipc cmp la lb.
Proof.
  induction la as [|x la IH]; destruct lb as [|y lb]; try reflexivity.
  cbn [zipc]. rewrite <- IH. reflexivity.
Qed.

Lemma map_gok_zipc : forall ka kb,
  (fix gok (ka kb : list (cval * cval)) {struct ka} : comparison :=
     match ka, kb with
     | (k1, _) :: ka', (k2, _) :: kb' => lex (cmp k1 k2) (gok ka' kb')
     | _, _ => Eq
     end) ka kb = zipc cmp (map fst ka) (map fst kb).
Proof.
  induction ka as [|[k1 v1] ka IH]; destruct kb as [|[k2 v2] kb]; try reflexivity.
  cbn [zipc map fst]. rewrite <- IH. reflexivity.
Qed.

Lemma map_gov_zipc : forall ka kb,
  (fix gov (ka kb : list (cval * cval)) {struct ka} : comparison :=
     match ka, kb with
     | (_, v1) :: ka', (_, v2) :: kb' => lex (cmp v1 v2) (gov ka' kb')
     | _, _ => Eq
     end) ka kb = zipc cmp (map snd ka) (map snd kb).
Proof.
  induction ka as [|[k1 v1] ka IH]; destruct kb as [|[k2 v2] kb]; try reflexivity.
  cbn [zipc map snd]. rewrite <- IH. reflexivity.
Qed.

Lemma cmp_struct : forall fa fb, cmp (CStruct fa) (CStruct fb) = lexl cmp_field fa fb.
Proof. intros. rewrite <- struct_go_lexl. reflexivity. Qed.

Lemma cmp_oneof : forall ta va tb vb,
  cmp (COneof ta va) (COneof tb vb) = lex (N.compare ta tb) (cmp va vb).
Proof. reflexivity. Qed.

Lemma cmp_arr : forall la lb,
  cmp (CArr la) (CArr lb) = lex (Nat.compare (length la) (length lb)) (zipc cmp la lb).
Proof. intros. rewrite <- arr_go_zipc. reflexivity. Qed.

(* "keys over the common prefix, then the length" is the lexicographic order of the key lists *)
Lemma zipc_length_lexl : forall A (f : A -> A -> comparison) la lb,
  lex (zipc f la lb) (Nat.compare (length la) (length lb)) = lexl f la lb.
Proof.
  induction la as [|x la IH]; destruct lb as [|y lb]; try reflexivity.
  cbn [zipc lexl length Nat.compare]. rewrite lex_assoc, IH. reflexivity.
Qed.

Lemma lexl_Eq_length : forall A (f : A -> A -> comparison) la lb,
  lexl f la lb = Eq -> length la = length lb.
Proof.
  induction la as [|x la IH]; destruct lb as [|y lb]; cbn [lexl length]; try discriminate; auto.
  intros H. apply lex_eq in H. f_equal. apply IH, H.
Qed.

Lemma cmp_map : forall ka kb,
  cmp (CMap ka) (CMap kb) =
  lex (lexl cmp (map fst ka) (map fst kb)) (zipc cmp (map snd ka) (map snd kb)).
Proof.
  intros. rewrite <- zipc_length_lexl, !map_length, lex_assoc, <- map_gok_zipc, <- map_gov_zipc.
  reflexivity.
Qed.

Lemma cmp_lex_rank : forall a b, cmp a b = lex (N.compare (rank a) (rank b)) (cmp a b).
Proof. intros a0 b0. destruct a0, b0; reflexivity. Qed.

(* ------------------------------------------------------------------------------------------ *)
(* The transitivity table: what (f a b, f b c) force f a c to be                                *)

Definition ok3 (x y z : comparison) : Prop :=
  match x, y with
  | Eq, r => z = r
  | r, Eq => z = r
  | Lt, Lt => z = Lt
  | Gt, Gt => z = Gt
  | _, _ => True
  end.

Lemma ok3_lex : forall x1 y1 z1 x2 y2 z2,
  ok3 x1 y1 z1 -> (x1 = Eq -> y1 = Eq -> ok3 x2 y2 z2) ->
  ok3 (lex x1 x2) (lex y1 y2) (lex z1 z2).
Proof.
  intros x1 y1 z1 x2 y2 z2 H1 H2.
  destruct x1, y1; cbn [ok3] in H1; subst; cbn [lex];
    try (specialize (H2 eq_refl eq_refl)); destruct x2, y2; cbn in *; auto.
Qed.

Lemma ok3_N : forall x y z, ok3 (x ?= y) (y ?= z) (x ?= z).
Proof.
  intros. destruct (N.compare_spec x y), (N.compare_spec y z), (N.compare_spec x z);
    cbn [ok3]; try reflexivity; try exact I; exfalso; lia.
Qed.

Lemma ok3_Z : forall x y z, ok3 (x ?= y)%Z (y ?= z)%Z (x ?= z)%Z.
Proof.
  intros. destruct (Z.compare_spec x y), (Z.compare_spec y z), (Z.compare_spec x z);
    cbn [ok3]; try reflexivity; try exact I; exfalso; lia.
Qed.

Lemma ok3_nat : forall x y z, ok3 (x ?= y)%nat (y ?= z)%nat (x ?= z)%nat.
Proof.
  intros. destruct (Nat.compare_spec x y), (Nat.compare_spec y z), (Nat.compare_spec x z);
    cbn [ok3]; try reflexivity; try exact I; exfalso; lia.
Qed.

Lemma ok3_bool : forall x y z, ok3 (cmp_bool x y) (cmp_bool y z) (cmp_bool x z).
Proof. destruct x, y, z; cbn; auto. Qed.

Lemma ok3_pres : forall x y z, ok3 (cmp_pres x y) (cmp_pres y z) (cmp_pres x z).
Proof. intros [[|]|] [[|]|] [[|]|]; cbn; auto. Qed.

Definition trans_at {A} (f : A -> A -> comparison) (x : A) : Prop :=
  forall y z, ok3 (f x y) (f y z) (f x z).

Lemma lexl_ok3 : forall A (f : A -> A -> comparison) la,
  Forall (trans_at f) la -> trans_at (lexl f) la.
Proof.
  induction 1 as [|x la Hx _ IH]; intros lb lc.
  - destruct lb, lc; cbn [lexl ok3]; try reflexivity; try exact I.
    destruct (lex _ _); cbn; auto.
  - destruct lb as [|y lb], lc as [|z lc]; cbn [lexl ok3]; try reflexivity; try exact I.
    + destruct (lex _ _); cbn; auto.
    + apply ok3_lex; [apply Hx | intros _ _; apply IH].
Qed.

Lemma zipc_ok3 : forall A (f : A -> A -> comparison) la,
  Forall (trans_at f) la -> forall lb lc, length la = length lb -> length lb = length lc ->
  ok3 (zipc f la lb) (zipc f lb lc) (zipc f la lc).
Proof.
  induction 1 as [|x la Hx _ IH]; intros lb lc H1 H2.
  - destruct lb; [|discriminate]. destruct lc; [|discriminate]. reflexivity.
  - destruct lb as [|y lb]; [discriminate|]. destruct lc as [|z lc]; [discriminate|].
    cbn [zipc]. apply ok3_lex; [apply Hx|]. intros _ _. apply IH.
    + cbn [length] in H1. congruence.
    + cbn [length] in H2. congruence.
Qed.

(* ------------------------------------------------------------------------------------------ *)
(* Reflexivity                                                                                 *)

Lemma lexl_refl : forall A (f : A -> A -> comparison) l,
  Forall (fun x => f x x = Eq) l -> lexl f l l = Eq.
Proof. induction 1 as [|x l Hx _ IH]; cbn [lexl]; [reflexivity|]. rewrite Hx, IH. reflexivity. Qed.

Lemma zipc_refl : forall A (f : A -> A -> comparison) l,
  Forall (fun x => f x x = Eq) l -> zipc f l l = Eq.
Proof. induction 1 as [|x l Hx _ IH]; cbn [zipc]; [reflexivity|]. rewrite Hx, IH. reflexivity. Qed.

Lemma cmp_bool_refl : forall b, cmp_bool b b = Eq.
Proof. destruct b; reflexivity. Qed.

Lemma cmp_pres_refl : forall p, cmp_pres p p = Eq.
Proof. intros [[|]|]; reflexivity. Qed.

Lemma cmp_bytes_refl : forall s, cmp_bytes s s = Eq.
Proof.
  intros. rewrite cmp_bytes_lexl. apply lexl_refl.
  induction s; constructor; auto using N.compare_refl.
Qed.

Theorem cmp_refl : forall a, cmp a a = Eq.
Proof.
  induction a using cval_nested_ind.
  - apply cmp_bool_refl.
  - apply N.compare_refl.
  - apply Z.compare_refl.
  - apply N.compare_refl.
  - apply cmp_bytes_refl.
  - reflexivity.
  - rewrite cmp_struct. apply lexl_refl.
    eapply Forall_impl; [|eassumption]. intros [p x] Hx. unfold cmp_field.
    rewrite cmp_pres_refl. exact Hx.
  - rewrite cmp_oneof, N.compare_refl. assumption.
  - rewrite cmp_arr, Nat.compare_refl. apply zipc_refl. assumption.
  - rewrite cmp_map, lexl_refl, zipc_refl by assumption. reflexivity.
Qed.

(* ------------------------------------------------------------------------------------------ *)
(* Antisymmetry                                                                                *)

Definition antisym_at {A} (f : A -> A -> comparison) (x : A) : Prop :=
  forall y, f y x = CompOpp (f x y).

Lemma lexl_antisym : forall A (f : A -> A -> comparison) la,
  Forall (antisym_at f) la -> antisym_at (lexl f) la.
Proof.
  induction 1 as [|x la Hx _ IH]; intros [|y lb]; cbn [lexl]; try reflexivity.
  rewrite lex_opp, Hx, IH. reflexivity.
Qed.

Lemma zipc_antisym : forall A (f : A -> A -> comparison) la,
  Forall (antisym_at f) la -> antisym_at (zipc f) la.
Proof.
  induction 1 as [|x la Hx _ IH]; intros [|y lb]; cbn [zipc]; try reflexivity.
  rewrite lex_opp, Hx, IH. reflexivity.
Qed.

Lemma cmp_bool_antisym : forall x y, cmp_bool y x = CompOpp (cmp_bool x y).
Proof. destruct x, y; reflexivity. Qed.

Lemma cmp_pres_antisym : forall x y, cmp_pres y x = CompOpp (cmp_pres x y).
Proof. intros [[|]|] [[|]|]; reflexivity. Qed.

Lemma cmp_bytes_antisym : forall x y, cmp_bytes y x = CompOpp (cmp_bytes x y).
Proof.
  intros. rewrite !cmp_bytes_lexl. apply lexl_antisym.
  induction x; constructor; auto. intro. apply N.compare_antisym.
Qed.

Theorem cmp_antisym : forall a b, cmp b a = CompOpp (cmp a b).
Proof.
  induction a using cval_nested_ind; intros b0; destruct b0; try reflexivity.
  - apply cmp_bool_antisym.
  - apply N.compare_antisym.
  - apply Z.compare_antisym.
  - apply N.compare_antisym.
  - apply cmp_bytes_antisym.
  - rewrite !cmp_struct. apply lexl_antisym.
    eapply Forall_impl; [|eassumption]. intros [p x] Hx [q y]. unfold cmp_field. cbn [fst snd] in *.
    rewrite lex_opp, cmp_pres_antisym, Hx. reflexivity.
  - rewrite !cmp_oneof, lex_opp, N.compare_antisym, IHa. reflexivity.
  - rewrite !cmp_arr, lex_opp, Nat.compare_antisym. f_equal. apply zipc_antisym. assumption.
  - rewrite !cmp_map, lex_opp.
    f_equal; [apply lexl_antisym | apply zipc_antisym]; assumption.
Qed.

(* ------------------------------------------------------------------------------------------ *)
(* Transitivity                                                                                *)

Lemma ok3_bytes : forall x y z, ok3 (cmp_bytes x y) (cmp_bytes y z) (cmp_bytes x z).
Proof.
  intros. rewrite !cmp_bytes_lexl. apply lexl_ok3.
  induction x; constructor; auto. intros ? ?. apply ok3_N.
Qed.

Lemma ok3_by_rank : forall a b c,
  (N.compare (rank a) (rank b) = Eq -> N.compare (rank b) (rank c) = Eq ->
   ok3 (cmp a b) (cmp b c) (cmp a c)) ->
  ok3 (cmp a b) (cmp b c) (cmp a c).
Proof.
  intros a0 b0 c0 H.
  rewrite (cmp_lex_rank a0 b0), (cmp_lex_rank b0 c0), (cmp_lex_rank a0 c0).
  apply ok3_lex; [apply ok3_N | exact H].
Qed.

Lemma cmp_ok3 : forall a b c, ok3 (cmp a b) (cmp b c) (cmp a c).
Proof.
  induction a using cval_nested_ind; intros b0 c0;
    apply ok3_by_rank; intros E1 E2;
    (destruct b0; try discriminate E1); (destruct c0; try discriminate E2); clear E1 E2.
  - apply ok3_bool.
  - apply ok3_N.
  - apply ok3_Z.
  - apply ok3_N.
  - apply ok3_bytes.
  - reflexivity.
  - rewrite !cmp_struct. apply lexl_ok3.
    eapply Forall_impl; [|eassumption]. intros [p x] Hx [q y] [r z]. unfold cmp_field. cbn [fst snd] in *.
    apply ok3_lex; [apply ok3_pres|]. intros _ _. apply Hx.
  - rewrite !cmp_oneof. apply ok3_lex; [apply ok3_N|]. intros _ _. apply IHa.
  - rewrite !cmp_arr. apply ok3_lex; [apply ok3_nat|]. intros E1 E2.
    apply Nat.compare_eq_iff in E1, E2. apply zipc_ok3; assumption.
  - rewrite !cmp_map. apply ok3_lex; [apply lexl_ok3; assumption|]. intros E1 E2.
    apply lexl_Eq_length in E1, E2. rewrite !map_length in E1, E2.
    apply zipc_ok3; rewrite ?map_length; assumption.
Qed.

Theorem cmp_trans : forall a b c, cmp a b = Lt -> cmp b c = Lt -> cmp a c = Lt.
Proof. intros a b c H1 H2. pose proof (cmp_ok3 a b c) as H. rewrite H1, H2 in H. exact H. Qed.

Theorem cmp_trans_gt : forall a b c, cmp a b = Gt -> cmp b c = Gt -> cmp a c = Gt.
Proof. intros a b c H1 H2. pose proof (cmp_ok3 a b c) as H. rewrite H1, H2 in H. exact H. Qed.

Theorem cmp_trans_eq_l : forall a b c r, cmp a b = Eq -> cmp b c = r -> cmp a c = r.
Proof. intros a b c r H1 H2. pose proof (cmp_ok3 a b c) as H. rewrite H1, H2 in H. exact H. Qed.

Theorem cmp_trans_eq_r : forall a b c r, cmp a b = r -> cmp b c = Eq -> cmp a c = r.
Proof.
  intros a b c r H1 H2. pose proof (cmp_ok3 a b c) as H. rewrite H1, H2 in H.
  destruct r; exact H.
Qed.

(* ------------------------------------------------------------------------------------------ *)
(* cmp a b = Eq exactly for equal values (float payloads being 64-bit patterns)                *)

Definition f64_ok (bits : N) : bool := bits <? 18446744073709551616.

(* every CF64 payload, at any depth (including stored values of absent optional fields, which
   the comparison looks at), is a 64-bit pattern; nothing else is constrained *)
Fixpoint wfb (v : cval) : bool :=
  match v with
  | CF64 bits => f64_ok bits
  | CStruct fs => forallb (fun pf => wfb (snd pf)) fs
  | COneof _ x => wfb x
  | CArr l => forallb wfb l
  | CMap kvs => forallb (fun kv => wfb (fst kv) && wfb (snd kv)) kvs
  | _ => true
  end.

Definition wf (v : cval) : Prop := wfb v = true.

Lemma testbit63_ge : forall x, N.testbit x 63 = true -> 9223372036854775808 <= x.
Proof.
  intros x H. destruct (N.lt_ge_cases x 9223372036854775808) as [L|L]; [|exact L].
  exfalso. rewrite N.bits_above_log2 in H; [discriminate|].
  destruct x as [|p]; [discriminate|].
  apply N.log2_lt_pow2; [reflexivity|]. exact L.
Qed.

Lemma f64_key_inj : forall x y, f64_ok x = true -> f64_ok y = true ->
  f64_key x = f64_key y -> x = y.
Proof.
  unfold f64_ok, f64_key. intros x y Hx Hy H.
  apply N.ltb_lt in Hx, Hy.
  destruct (N.testbit x 63) eqn:Bx; destruct (N.testbit y 63) eqn:By;
    try apply testbit63_ge in Bx; try apply testbit63_ge in By; lia.
Qed.

(* the bound is needed, on both sides: above 2^64 the key function truncates (the left value
   below is the 64-bit pattern 2^64-1, the right one is 2^64+2^63) *)
Example f64_key_not_injective_above_64 :
  cmp (CF64 18446744073709551615) (CF64 27670116110564327424) = Eq /\
  data (CF64 18446744073709551615) <> data (CF64 27670116110564327424).
Proof. split; [reflexivity | discriminate]. Qed.

Definition eq_at {A} (R : A -> Prop) (f : A -> A -> comparison) (x : A) : Prop :=
  forall y, R y -> f x y = Eq -> x = y.

Lemma lexl_eq : forall A (R : A -> Prop) (f : A -> A -> comparison) la,
  Forall (eq_at R f) la -> eq_at (Forall R) (lexl f) la.
Proof.
  induction 1 as [|x la Hx _ IH]; intros [|y lb] Hb; cbn [lexl]; try discriminate; auto.
  intros H. apply lex_eq in H. destruct H as [H1 H2]. inversion Hb; subst.
  f_equal; [apply Hx | apply IH]; assumption.
Qed.

Lemma zipc_eq : forall A (R : A -> Prop) (f : A -> A -> comparison) la,
  Forall (eq_at R f) la -> forall lb, Forall R lb -> length la = length lb ->
  zipc f la lb = Eq -> la = lb.
Proof.
  induction 1 as [|x la Hx _ IH]; intros [|y lb] Hb; cbn [zipc length]; try discriminate; auto.
  intros L H. apply lex_eq in H. destruct H as [H1 H2]. inversion Hb; subst.
  f_equal; [apply Hx | apply IH]; auto.
Qed.

Lemma forallb_Forall : forall A (f : A -> bool) l, forallb f l = true -> Forall (fun x => f x = true) l.
Proof.
  induction l as [|x l IH]; cbn [forallb]; intros H; constructor;
    apply andb_true_iff in H; [apply H | apply IH, H].
Qed.

Lemma forallb_pair_Forall : forall A B (f : A -> bool) (g : B -> bool) (l : list (A * B)),
  forallb (fun kv => f (fst kv) && g (snd kv)) l = true ->
  Forall (fun x => f x = true) (map fst l) /\ Forall (fun x => g x = true) (map snd l).
Proof.
  induction l as [|[a b] l IH]; cbn [forallb map fst snd]; intros H; [split; constructor|].
  apply andb_true_iff in H. destruct H as [H1 H2]. apply andb_true_iff in H1.
  destruct (IH H2). split; constructor; tauto.
Qed.

Lemma Forall_all : forall A (P : A -> Prop) l, (forall x, P x) -> Forall P l.
Proof. induction l; constructor; auto. Qed.

Lemma Forall_and_impl : forall A (P Q S : A -> Prop) l,
  (forall x, P x -> Q x -> S x) -> Forall P l -> Forall Q l -> Forall S l.
Proof. induction 2; intros HQ; inversion HQ; subst; constructor; auto. Qed.

Lemma map_fst_snd_eq : forall A B (la lb : list (A * B)),
  map fst la = map fst lb -> map snd la = map snd lb -> la = lb.
Proof.
  induction la as [|[a b] la IH]; destruct lb as [|[a' b'] lb]; cbn [map fst snd];
    try discriminate; auto.
  intros H1 H2. inversion H1; inversion H2; subst. f_equal. apply IH; assumption.
Qed.

Lemma cmp_bool_eq : forall x y, cmp_bool x y = Eq -> x = y.
Proof. destruct x, y; cbn; congruence. Qed.

Lemma cmp_pres_eq : forall x y, cmp_pres x y = Eq -> x = y.
Proof. intros [[|]|] [[|]|]; cbn; congruence. Qed.

Lemma cmp_bytes_eq : forall x y, cmp_bytes x y = Eq -> x = y.
Proof.
  intros x y. rewrite cmp_bytes_lexl. intros H.
  apply (lexl_eq N (fun _ => True) N.compare x); auto.
  - apply Forall_all. intros a z _. apply N.compare_eq_iff.
  - apply Forall_all. auto.
Qed.

Lemma cmp_eq_wf : forall a, wf a -> eq_at wf cmp a.
Proof.
  unfold wf.
  induction a using cval_nested_ind; intros Wa b0 Wb E; destruct b0; try discriminate E;
    cbn [wfb] in Wa, Wb.
  - f_equal. apply cmp_bool_eq, E.
  - f_equal. apply N.compare_eq_iff, E.
  - f_equal. apply Z.compare_eq_iff, E.
  - f_equal. apply N.compare_eq_iff in E. apply f64_key_inj; assumption.
  - f_equal. apply cmp_bytes_eq, E.
  - reflexivity.
  - f_equal. rewrite cmp_struct in E.
    apply (lexl_eq _ (fun pf => wfb (snd pf) = true) cmp_field fs); auto using forallb_Forall.
    apply forallb_Forall in Wa.
    eapply Forall_and_impl; [|exact H|exact Wa]. cbn beta.
    intros [p x] Hx Wx [q y] Wy Exy. unfold cmp_field in Exy. cbn [fst snd] in *.
    apply lex_eq in Exy. destruct Exy as [E1 E2].
    f_equal; [apply cmp_pres_eq, E1 | apply Hx; assumption].
  - rewrite cmp_oneof in E. apply lex_eq in E. destruct E as [E1 E2].
    f_equal; [apply N.compare_eq_iff, E1 | apply IHa; assumption].
  - f_equal. rewrite cmp_arr in E. apply lex_eq in E. destruct E as [E1 E2].
    apply Nat.compare_eq_iff in E1.
    apply (zipc_eq _ (fun x => wfb x = true) cmp l); auto using forallb_Forall.
    apply forallb_Forall in Wa.
    eapply Forall_and_impl; [|exact H|exact Wa]. cbn beta. intros x Hx Wx. apply Hx, Wx.
  - f_equal. rewrite cmp_map in E. apply lex_eq in E. destruct E as [E1 E2].
    apply forallb_pair_Forall in Wa, Wb. destruct Wa as [Wa1 Wa2], Wb as [Wb1 Wb2].
    pose proof (lexl_Eq_length _ _ _ _ E1) as L. rewrite !map_length in L.
    apply map_fst_snd_eq.
    + apply (lexl_eq _ (fun x => wfb x = true) cmp); auto.
      eapply Forall_and_impl; [|exact H|exact Wa1]. cbn beta. intros x Hx Wx. apply Hx, Wx.
    + apply (zipc_eq _ (fun x => wfb x = true) cmp); rewrite ?map_length; auto.
      eapply Forall_and_impl; [|exact H0|exact Wa2]. cbn beta. intros x Hx Wx. apply Hx, Wx.
Qed.

Theorem cmp_eq_iff : forall a b, wf a -> wf b -> (cmp a b = Eq <-> a = b).
Proof.
  intros a b Wa Wb. split.
  - apply cmp_eq_wf; assumption.
  - intros ->. apply cmp_refl.
Qed.

(* the direction that needs no hypothesis *)
Theorem cmp_eq_of_eq : forall a b, a = b -> cmp a b = Eq.
Proof. intros a b ->. apply cmp_refl. Qed.

Theorem cmp_data_eq : forall a b, wf a -> wf b -> cmp a b = Eq -> data a = data b.
Proof. intros a b Wa Wb E. f_equal. apply cmp_eq_iff; assumption. Qed.

Theorem cmp_copy_eq : forall v, cmp (copy v) v = Eq.
Proof. intros. unfold copy. apply cmp_refl. Qed.

(* a nested value with every kind of node satisfies the hypothesis *)
Example wf_example :
  wf (CStruct [ (None, CF64 13830554455654793216);                       (* -1.0 *)
                (Some false, CF64 4607182418800017408);                  (* absent, stored 1.0 *)
                (Some true, COneof 2 (CArr [CF64 0; CF64 18446744073709551615; CU64 (2 ^ 70)]));
                (None, CMap [ (CStr [104; 105], CF64 9221120237041090560);  (* NaN *)
                              (CI64 (-5), CStruct [(None, CNil); (Some true, CBool true)]) ]) ]).
Proof. reflexivity. Qed.

Theorem cmp_total_order :
  (forall a, cmp a a = Eq) /\
  (forall a b, cmp b a = CompOpp (cmp a b)) /\
  (forall a b, wf a -> wf b -> (cmp a b = Eq <-> a = b)) /\
  (forall a b c, cmp a b = Lt -> cmp b c = Lt -> cmp a c = Lt) /\
  (forall a b c r, cmp a b = Eq -> cmp b c = r -> cmp a c = r) /\
  (forall a b c r, cmp a b = r -> cmp b c = Eq -> cmp a c = r).
Proof.
  repeat split; intros.
  - apply cmp_refl.
  - apply cmp_antisym.
  - apply cmp_eq_iff; assumption.
  - subst. apply cmp_refl.
  - eapply cmp_trans; eassumption.
  - eapply cmp_trans_eq_l; eassumption.
  - eapply cmp_trans_eq_r; eassumption.
Qed.
