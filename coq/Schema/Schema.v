(* Schemas (go/pkg/schema/schema.go after ResolveRefs) and the encoder/decoder tree that the
   generated Init methods build: one column per tree node in depth-first order, recursion cut at
   the first type that is already on the Init stack, struct field counts optionally overridden
   by a wire schema consumed in first-encounter order (common.go.tmpl getFieldCount). *)
From Coq Require Import List NArith ZArith Bool PArith Lia.
Import ListNotations.
Open Scope N_scope.

Inductive prim := PBool | PInt64 | PUint64 | PFloat64 | PString | PBytes.

(* type, dictionary and struct names are numbered by the translator *)
Inductive ftype :=
| TPrim (p : prim) (dict : option N)
| TArray (elem : ftype)
| TStruct (sid : N)          (* struct or oneof *)
| TMultimap (mid : N).

Record field := mkField { f_type : ftype; f_opt : bool }.
Record sdef := mkSdef { s_oneof : bool; s_dict : option N; s_fields : list field }.
Record mdef := mkMdef { m_key : ftype; m_val : ftype }.
Record schema := mkSchema { structs : list sdef; multimaps : list mdef }.

Definition dummy_sdef : sdef := mkSdef false None [].
Definition dummy_mdef : mdef := mkMdef (TPrim PBool None) (TPrim PBool None).
Definition get_struct (sc : schema) (sid : N) : sdef := nth (N.to_nat sid) (structs sc) dummy_sdef.
Definition get_mmap (sc : schema) (mid : N) : mdef := nth (N.to_nat mid) (multimaps sc) dummy_mdef.

(* identity of a generated encoder type, used by the recursion test `state.XEncoder != nil` *)
Inductive reckey := KStruct (sid : N) | KMap (mid : N) | KArr (k : reckey) | KNone.

Fixpoint reckey_eqb (a b : reckey) : bool :=
  match a, b with
  | KStruct x, KStruct y => x =? y
  | KMap x, KMap y => x =? y
  | KArr x, KArr y => reckey_eqb x y
  | KNone, KNone => true
  | _, _ => false
  end.

(* arrays of primitives never register themselves: KNone *)
Fixpoint key_of (t : ftype) : reckey :=
  match t with
  | TPrim _ _ => KNone
  | TStruct s => KStruct s
  | TMultimap m => KMap m
  | TArray e => match key_of e with KNone => KNone | k => KArr k end
  end.

Definition on_stack (stack : list reckey) (k : reckey) : bool :=
  match k with KNone => false | _ => existsb (reckey_eqb k) stack end.

(* the encoder / decoder tree *)
Inductive etree :=
| EPrim (col : positive) (p : prim) (dict : option N)
| EStruct (col : positive) (sid : N) (oneof : bool) (dict : option N)
          (fcount : N)                    (* fields on the wire *)
          (opts : list bool)              (* optional flag of each wire field *)
          (fields : list etree)
| EArr (col : positive) (k : reckey) (elem : etree)
| EMap (col : positive) (mid : N) (key val : etree)
| ERec (k : reckey)                        (* reuse the enclosing encoder of that type *)
| EBad.                                    (* out of fuel / override schema exhausted *)

(* state threaded through Init: next column number, remaining override counts, memo of counts
   already fetched per struct (first encounter wins), error flag *)
Record istate := mkIst { i_next : positive; i_over : option (list N); i_memo : list (N * N); i_err : bool }.

Fixpoint memo_find (m : list (N * N)) (sid : N) : option N :=
  match m with
  | [] => None
  | (k, v) :: r => if k =? sid then Some v else memo_find r sid
  end.

(* getFieldCount *)
Definition field_count (st : istate) (sid : N) (own : N) : N * istate :=
  match memo_find (i_memo st) sid with
  | Some c => (c, st)
  | None =>
    match i_over st with
    | None => (own, mkIst (i_next st) None ((sid, own) :: i_memo st) (i_err st))
    | Some [] => (0, mkIst (i_next st) (Some []) ((sid, 0) :: i_memo st) true)
    | Some (c :: r) => (c, mkIst (i_next st) (Some r) ((sid, c) :: i_memo st) (i_err st))
    end
  end.

Definition fresh_col (st : istate) : positive * istate :=
  (i_next st, mkIst (Pos.succ (i_next st)) (i_over st) (i_memo st) (i_err st)).

Definition set_err (st : istate) : istate := mkIst (i_next st) (i_over st) (i_memo st) true.

Section Build.
  Variable sc : schema.

  (* build the encoder for a value of type t whose column is the next fresh column,
     unless the type is on the stack *)
  Fixpoint build (fuel : nat) (stack : list reckey) (t : ftype) (st : istate) : etree * istate :=
    match fuel with
    | O => (EBad, set_err st)
    | S f =>
      if on_stack stack (key_of t) then (ERec (key_of t), st)
      else
        let '(col, st) := fresh_col st in
        match t with
        | TPrim p d => (EPrim col p d, st)
        | TArray e =>
          let '(et, st) := build f (key_of t :: stack) e st in (EArr col (key_of t) et, st)
        | TMultimap m =>
          let md := get_mmap sc m in
          let stack' := KMap m :: stack in
          let '(kt, st) := build f stack' (m_key md) st in
          let '(vt, st) := build f stack' (m_val md) st in
          (EMap col m kt vt, st)
        | TStruct s =>
          let sd := get_struct sc s in
          let own := N.of_nat (length (s_fields sd)) in
          let '(fc, st) := field_count st s own in
          (* a reader refuses more fields than it knows (ErrTooManyFieldsToDecode); a writer's
             keepFieldMask simply keeps all: both are reported through the error flag here and
             distinguished by the caller *)
          let st := if own <? fc then set_err st else st in
          let flds := firstn (N.to_nat fc) (s_fields sd) in
          let stack' := KStruct s :: stack in
          let '(fts, st) :=
            fold_left (fun (acc : list etree * istate) (fl : field) =>
                         let '(l, st) := acc in
                         let '(ft, st) := build f stack' (f_type fl) st in (l ++ [ft], st))
                      flds ([], st) in
          (EStruct col s (s_oneof sd) (s_dict sd) fc (map f_opt flds) fts, st)
        end
    end.

  Definition build_root (root : N) (over : option (list N)) : etree * istate :=
    build (S (S (length (structs sc) + length (multimaps sc))) * 3) [] (TStruct root)
          (mkIst 1%positive over [] false).

  (* AllFetched *)
  Definition all_fetched (st : istate) : bool :=
    match i_over st with None => true | Some [] => true | Some _ => false end.
End Build.

(* number of optional fields among the wire fields: pkg.OptionalFieldCount *)
Definition opt_count (opts : list bool) : nat := length (filter (fun b => b) opts).

(* bits.Len64(fieldCount + 1) *)
Definition oneof_bits (fc : N) : nat := N.to_nat (N.size (fc + 1)).

(* environment of enclosing encoders, for ERec *)
Definition renv := list (reckey * etree).
Fixpoint env_find (env : renv) (k : reckey) : etree :=
  match env with
  | [] => EBad
  | (k', t) :: r => if reckey_eqb k k' then t else env_find r k
  end.
Definition resolve (env : renv) (t : etree) : etree :=
  match t with ERec k => env_find env k | _ => t end.
Definition push_env (env : renv) (t : etree) : renv :=
  match t with
  | EStruct _ sid _ _ _ _ _ => (KStruct sid, t) :: env
  | EArr _ k _ => (k, t) :: env
  | EMap _ mid _ _ => (KMap mid, t) :: env
  | _ => env
  end.
