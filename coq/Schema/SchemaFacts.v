(* Facts about the encoder tree builder, instantiated on the regenerated schemas. *)
From Coq Require Import List NArith ZArith Bool PArith Lia.
From Stef Require Import Schema Schemas.
Import ListNotations.
Open Scope N_scope.

Fixpoint tree_ok (fuel : nat) (t : etree) : bool :=
  match fuel with
  | O => false
  | S f =>
    match t with
    | EBad => false
    | EStruct _ _ _ _ fc opts fts => (N.of_nat (length fts) =? fc) && (length opts =? length fts)%nat && forallb (tree_ok f) fts
    | EArr _ _ e => tree_ok f e
    | EMap _ _ k v => tree_ok f k && tree_ok f v
    | _ => true
    end
  end.

Definition root_ids (sc : schema) : list N :=
  map N.of_nat (seq 0 (length (structs sc))).

(* every struct of every schema taken as a root: stronger than needed (any struct may be a root) *)
Definition roots_build_ok (sc : schema) : bool :=
  forallb (fun r => let '(t, st) := build_root sc r None in
                    negb (i_err st) && tree_ok 100 t) (root_ids sc).

Definition all_roots_build_ok (l : list schema) : bool := forallb roots_build_ok l.

Lemma all_schemas_build : all_roots_build_ok all_schemas = true.
Proof. vm_compute. reflexivity. Qed.

(* ---- wire schema override (schema evolution, C04 / C13) ---- *)
(* getFieldCount memoises: once a struct's count is fetched, later requests return it without
   consuming the override iterator *)
Lemma field_count_memo : forall st sid own,
  let '(c, st') := field_count st sid own in
  field_count st' sid own = (c, st').
Proof.
  intros st sid own. unfold field_count.
  destruct (memo_find (i_memo st) sid) as [c|] eqn:Hm.
  - rewrite Hm. reflexivity.
  - destruct (i_over st) as [[|c r]|]; cbn [i_memo memo_find]; rewrite N.eqb_refl; reflexivity.
Qed.

Definition counts_of (st : istate) : list N := rev (map snd (i_memo st)).

Fixpoint list_N_eqb (a b : list N) : bool :=
  match a, b with
  | [], [] => true
  | x :: a', y :: b' => (x =? y) && list_N_eqb a' b'
  | _, _ => false
  end.

(* for a root: the counts the generated Init fetches (in first-encounter order) form the wire
   schema; feeding that wire schema back as an override is accepted, consumed completely, fetches
   the same counts and allocates the same number of columns *)
Definition override_roundtrip_ok (sc : schema) (r : N) : bool :=
  let '(t0, st0) := build_root sc r None in
  let own := counts_of st0 in
  let '(t1, st1) := build_root sc r (Some own) in
  negb (i_err st1) && all_fetched st1 && list_N_eqb (counts_of st1) own && Pos.eqb (i_next st1) (i_next st0).

Definition all_override_ok (l : list schema) : bool :=
  forallb (fun sc => forallb (override_roundtrip_ok sc) (root_ids sc)) l.

Lemma all_schemas_override_ok : all_override_ok all_schemas = true.
Proof. vm_compute. reflexivity. Qed.


Lemma field_count_err_mono : forall st sid own, i_err st = true -> i_err (snd (field_count st sid own)) = true.
Proof.
  intros st sid own H. unfold field_count.
  destruct (memo_find (i_memo st) sid); [exact H|].
  destruct (i_over st) as [[|c r]|]; cbn; try exact H; reflexivity.
Qed.

Lemma build_err_mono : forall sc f stack t st, i_err st = true -> i_err (snd (build sc f stack t st)) = true.
Proof.
  intros sc f. induction f as [|f IH]; intros stack t st H.
  - reflexivity.
  - cbn [build]. destruct (on_stack stack (key_of t)); [exact H|].
    destruct (fresh_col st) as [col st1] eqn:Hfc.
    assert (H1 : i_err st1 = true) by (unfold fresh_col in Hfc; inversion Hfc; subst; exact H).
    destruct t as [p d|e|s|m].
    + exact H1.
    + pose proof (IH (key_of (TArray e) :: stack) e st1 H1) as Hb.
      destruct (build sc f (key_of (TArray e) :: stack) e st1) as [et st2]. exact Hb.
    + destruct (field_count st1 s (N.of_nat (length (s_fields (get_struct sc s))))) as [fc st2] eqn:Hfcnt.
      assert (H2 : i_err st2 = true).
      { pose proof (field_count_err_mono st1 s (N.of_nat (length (s_fields (get_struct sc s)))) H1) as Hm.
        rewrite Hfcnt in Hm. exact Hm. }
      set (st3 := if N.of_nat (length (s_fields (get_struct sc s))) <? fc then set_err st2 else st2).
      assert (H3 : i_err st3 = true) by (unfold st3; destruct (_ <? fc); [reflexivity|exact H2]).
      assert (Hfold : forall fl acc, i_err (snd acc) = true ->
                i_err (snd (fold_left (fun (acc : list etree * istate) (fl : field) =>
                             let '(l, st) := acc in
                             let '(ft, st) := build sc f (KStruct s :: stack) (f_type fl) st in (l ++ [ft], st)) fl acc)) = true).
      { induction fl as [|x fl IHf]; intros acc Hacc; cbn [fold_left]; [exact Hacc|].
        apply IHf. destruct acc as [l s0]. cbn [snd] in *.
        pose proof (IH (KStruct s :: stack) (f_type x) s0 Hacc) as Hm.
        destruct (build sc f (KStruct s :: stack) (f_type x) s0) as [ft s1]. exact Hm. }
      match goal with |- context [fold_left ?F ?L ?A] => specialize (Hfold L A) end.
      cbn [snd] in Hfold. specialize (Hfold H3).
      match goal with |- context [fold_left ?F ?L ?A] => destruct (fold_left F L A) as [fts st4] end.
      exact Hfold.
    + pose proof (IH (KMap m :: stack) (m_key (get_mmap sc m)) st1 H1) as Hk.
      destruct (build sc f (KMap m :: stack) (m_key (get_mmap sc m)) st1) as [kt st2]. cbn [snd] in Hk.
      pose proof (IH (KMap m :: stack) (m_val (get_mmap sc m)) st2 Hk) as Hv.
      destruct (build sc f (KMap m :: stack) (m_val (get_mmap sc m)) st2) as [vt st3]. exact Hv.
Qed.

(* a descriptor that announces more fields than the reader's struct has is refused *)
Lemma too_many_fields_refused : forall sc stack sid st f,
  let sd := get_struct sc sid in
  let own := N.of_nat (length (s_fields sd)) in
  on_stack stack (KStruct sid) = false ->
  own < fst (field_count (snd (fresh_col st)) sid own) ->
  i_err (snd (build sc (S f) stack (TStruct sid) st)) = true.
Proof.
  intros sc stack sid st f sd own Hst Hlt.
  cbn [build key_of]. rewrite Hst.
  destruct (fresh_col st) as [col st1] eqn:Hfc. cbn [snd] in Hlt.
  fold sd. fold own.
  destruct (field_count st1 sid own) as [fc st2] eqn:Hfcnt. cbn [fst] in Hlt.
  destruct (N.ltb_spec own fc); [|lia].
  (* the error flag set here is never cleared by the fold over the fields *)
  assert (Hmono : forall fl acc, i_err (snd acc) = true ->
            i_err (snd (fold_left (fun (acc : list etree * istate) (fl : field) =>
                         let '(l, st) := acc in
                         let '(ft, st) := build sc f (KStruct sid :: stack) (f_type fl) st in (l ++ [ft], st)) fl acc)) = true).
  { induction fl as [|x fl IH]; intros acc Hacc; cbn [fold_left]; [exact Hacc|].
    apply IH. destruct acc as [l s0]. cbn [snd] in *.
    destruct (build sc f (KStruct sid :: stack) (f_type x) s0) as [ft s1] eqn:Hb. cbn [snd].
    pose proof (build_err_mono sc f (KStruct sid :: stack) (f_type x) s0 Hacc) as Hm. rewrite Hb in Hm. exact Hm. }
  match goal with |- context [fold_left ?F ?L ?A] => specialize (Hmono L A) end.
  cbn [snd] in Hmono. specialize (Hmono eq_refl).
  match goal with |- context [fold_left ?F ?L ?A] => destruct (fold_left F L A) as [fts st3] end.
  cbn [snd] in *. exact Hmono.
Qed.
