(* Facts about the encoder tree builder, instantiated on the regenerated schemas. *)
From Coq Require Import List NArith ZArith Bool PArith.
From Stef Require Import Schema Schemas.
Import ListNotations.
Open Scope N_scope.

Fixpoint tree_ok (fuel : nat) (t : etree) : bool :=
  match fuel with
  | O => false
  | S f =>
    match t with
    | EBad => false
    | EStruct _ _ _ _ fc opts fts => (N.of_nat (length fts) =? fc) && (length opts =? length fts)%nat && forallb (tree_ok f) fts
    | EArr _ _ e => tree_ok f e
    | EMap _ _ k v => tree_ok f k && tree_ok f v
    | _ => true
    end
  end.

Definition root_ids (sc : schema) : list N :=
  map N.of_nat (seq 0 (length (structs sc))).

(* every struct of every schema taken as a root: stronger than needed (any struct may be a root) *)
Definition roots_build_ok (sc : schema) : bool :=
  forallb (fun r => let '(t, st) := build_root sc r None in
                    negb (i_err st) && tree_ok 100 t) (root_ids sc).

Definition all_roots_build_ok (l : list schema) : bool := forallb roots_build_ok l.

Lemma all_schemas_build : all_roots_build_ok all_schemas = true.
Proof. vm_compute. reflexivity. Qed.
