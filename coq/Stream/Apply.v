(* What a decoded record occurrence does to the reader's record: the generated Decode methods
   write into the previous value, so unencoded struct fields, unchanged multimap values and
   dictionary references keep / share earlier data.  [apply] is that update as a pure function
   (values instead of pointers: frozen dictionary entries are immutable, so sharing them is
   not observable here; the Go harness checks that on the real objects). *)
From Coq Require Import List NArith ZArith Bool PArith Lia FMapPositive.
From Stef Require Import Bits BitIO Varint Codecs Schema Wire.
Import ListNotations.
Open Scope N_scope.

Definition tdicts := PM.t (list rnode).
Definition td_get (td : tdicts) (d : N) : list rnode :=
  match PM.find (dk d) td with Some l => l | None => [RNil] end.

Fixpoint find_update (ups : list (nat * rnode)) (i : nat) : option rnode :=
  match ups with
  | [] => None
  | (j, v) :: r => if Nat.eqb i j then Some v else find_update r i
  end.
Fixpoint map_updates (pk : list (rnode * rnode)) (ups : list (nat * rnode)) (i : nat)
  : list (rnode * rnode) :=
  match pk with
  | [] => []
  | (k, v) :: r =>
    (k, match find_update ups i with Some v' => v' | None => v end) :: map_updates r ups (S i)
  end.

Fixpoint apply (env : renv) (t : etree) (prev : rnode) (a : wire) (td : tdicts) {struct a}
  : tdicts * rnode :=
  let body (opts : list bool) (fts : list etree) (env' : renv) (mask present : N)
           (fields : list (option wire)) (td : tdicts) : tdicts * rnode :=
    let pp := prev_present prev in
    let '(td', nf) :=
      (fix go (oi : N) (fts : list etree) (opts : list bool) (fs : list (option wire))
              (pf : list rnode) (td : tdicts) {struct fs} : tdicts * list rnode :=
         match fs, fts, opts with
         | f :: fs', ft :: fts', o :: opts' =>
           let pi := hd RNil pf in
           let oi' := if o then oi + 1 else oi in
           match f with
           | Some a' =>
             let pi := if o && negb (N.testbit pp oi) then RNil else pi in
             let '(td1, v) := apply env' (resolve env' ft) pi a' td in
             let '(td2, r) := go oi' fts' opts' fs' (tl pf) td1 in (td2, v :: r)
           | None =>
             let '(td2, r) := go oi' fts' opts' fs' (tl pf) td in (td2, pi :: r)
           end
         | _, _, _ => (td, pf)
         end) 0 fts opts fields (prev_fields prev) td in
    (td', RStruct mask present nf) in
  match t, a with
  | _, WBool b => (td, RBool b)
  | _, WU64 v => (td, RU64 v)
  | _, WI64 z => (td, RI64 z)
  | _, WF64 v => (td, RF64 v)
  | _, WStr b => (td, RStr b)
  | EStruct c sid false None fc opts fts, WStruct mask present fields =>
    body opts fts (push_env env t) mask present fields td
  | EStruct c sid false (Some dn) fc opts fts, WDictRef ref =>
    (td, nth (N.to_nat ref) (td_get td dn) RNil)
  | EStruct c sid false (Some dn) fc opts fts, WDictFull (WStruct mask present fields) =>
    let '(td', v) := body opts fts (push_env env t) mask present fields td in
    (PM.add (dk dn) (td_get td' dn ++ [v]) td', v)
  | EStruct c sid true _ fc opts fts, WOneof tag alt =>
    match alt with
    | None => (td, ROneof tag RNil)
    | Some a' =>
      let env' := push_env env t in
      let '(td', v) := apply env' (resolve env' (nth (N.to_nat (tag - 1)) fts EBad)) (prev_alt prev tag) a' td in
      (td', ROneof tag v)
    end
  | EArr c k et, WArr elems =>
    let env' := push_env env t in
    let '(td', l) :=
      (fix go (es : list wire) (pe : list rnode) (td : tdicts) {struct es} : tdicts * list rnode :=
         match es with
         | [] => (td, [])
         | e :: es' =>
           let '(td1, v) := apply env' (resolve env' et) (hd RNil pe) e td in
           let '(td2, r) := go es' (tl pe) td1 in (td2, v :: r)
         end) elems (prev_elems prev) td in
    (td', RArr l)
  | EMap c mid kt vt, WMapFull kvs =>
    let env' := push_env env t in
    let '(td', l) :=
      (fix go (l : list (wire * wire)) (pk : list (rnode * rnode)) (td : tdicts) {struct l}
         : tdicts * list (rnode * rnode) :=
         match l with
         | [] => (td, [])
         | (k, v) :: l' =>
           let '(pkk, pv) := hd (RNil, RNil) pk in
           let '(td1, k') := apply env' (resolve env' kt) pkk k td in
           let '(td2, v') := apply env' (resolve env' vt) pv v td1 in
           let '(td3, r) := go l' (tl pk) td2 in (td3, (k', v') :: r)
         end) kvs (prev_kvs prev) td in
    (td', RMap l)
  | EMap c mid kt vt, WMapVals changed vals =>
    let env' := push_env env t in
    let pk := prev_kvs prev in
    let idxs := filter (fun i => N.testbit changed (N.of_nat i)) (seq 0 (Nat.min 64 (length pk))) in
    let '(td', ups) :=
      (fix go (vals : list wire) (idxs : list nat) (td : tdicts) {struct vals}
         : tdicts * list (nat * rnode) :=
         match vals, idxs with
         | v :: vals', i :: idxs' =>
           let '(td1, v') := apply env' (resolve env' vt) (snd (nth i pk (RNil, RNil))) v td in
           let '(td2, r) := go vals' idxs' td1 in (td2, (i, v') :: r)
         | _, _ => (td, [])
         end) vals idxs td in
    (td', RMap (map_updates pk ups 0))
  | _, _ => (td, prev)
  end.