(* The theorems of DecSafetyFacts.v are not vacuous: a concrete stream of examples/jsonl
   (oneof / array / multimap / recursion through ERec), encoded by the writer model, opened and
   loaded by the reader model, and decoded; every hypothesis is discharged by computation and the
   conclusions are shown with their numbers.
     record 1:  [ "hi", 0.0, { "k": true, "l": "x" } ]         (array 0 -> 3, full multimap of 2)
     record 2:  [ "hi", 0.0, { l: "y" } (values only), [false] ] (array 3 -> 4, new inner array 0 -> 1) *)
From Coq Require Import List NArith ZArith Bool PArith Lia FMapPositive Arith.
From Stef Require Import Bits BitIO Varint Codecs Schema Schemas Wire WireOk Apply Frame FrameFacts
     Reader Writer StreamFactsBase DecSafetyFactsBase DecSafetyFacts.
Import ListNotations.
Open Scope N_scope.

Definition exj_t : etree := fst (build_root sch_jsonl_jsonl sch_jsonl_jsonl_root_Record None).
Definition jv (tag : N) (w : wire) : wire := WOneof tag (Some w).
Definition exj_rec1 : wire :=
  WStruct 1 0 [Some (jv 2 (WArr [jv 3 (WStr [104;105]); jv 4 (WF64 0);
                                  jv 1 (WMapFull [(WStr [107], jv 5 (WBool true)); (WStr [108], jv 3 (WStr [120]))])]))].
Definition exj_rec2 : wire :=
  WStruct 1 0 [Some (jv 2 (WArr [jv 3 (WStr [104;105]); jv 4 (WF64 0);
                                  jv 1 (WMapVals 2 [jv 3 (WStr [121])]);
                                  jv 2 (WArr [jv 5 (WBool false)])]))].
Definition exj_frames : list (N * list wire) := [(0, [exj_rec1; exj_rec2])].
Definition exj_sizes : N -> N := fun _ => 40.      (* unsafe.Sizeof(JsonValue{}) stand-in *)
Definition exj_src : source :=
  SrcFrames ((0, emit_var_header [] []) :: stream_encode exj_t wst0 exj_frames) false.

(* the reader after New...Reader and after loading the data frame *)
Definition exj_r1 : reader :=
  match reader_open sch_jsonl_jsonl sch_jsonl_jsonl_root_Record exj_src with
  | inr r0 => match reader_next_frame r0 with inr r1 => r1 | inl _ => r0 end
  | inl _ => mkReader EBad exj_src 0 0 rst0 (PM.empty _) RNil None []
  end.
Definition exj_st1 : rst := rd_st exj_r1.

Example exj_loaded : rd_tree exj_r1 = exj_t /\ rd_left exj_r1 = 2 /\ rd_rec exj_r1 = RNil /\
  rst_input_bits exj_st1 = 416 /\ r_alloc exj_st1 = 0.
Proof. vm_compute. repeat split; reflexivity. Qed.

(* the stream satisfies the precondition of the round-trip theorems too *)
Example exj_stream_ok : stream_ok exj_sizes 10 exj_t exj_frames wst0 RNil (PM.empty _) = true.
Proof. vm_compute. reflexivity. Qed.

(* ---- record 1, as a direct call of [dec] *)
Definition exj_dec1 : res (rst * wire) := dec exj_sizes 10 [] exj_t RNil exj_st1.
Definition exj_st2 : rst := match exj_dec1 with Ok (st, _) => st | Err _ => rst0 end.

Example exj_dec1_ok : dec exj_sizes 10 [] exj_t RNil exj_st1 = Ok (exj_st2, exj_rec1).
Proof. vm_compute. reflexivity. Qed.

(* (1) *)
Example ex_dec_alloc_bounded :
  r_alloc exj_st1 <= record_alloc_limit /\ r_alloc exj_st1 <= r_alloc exj_st2 /\
  r_alloc exj_st2 <= record_alloc_limit /\ r_alloc exj_st2 = 144.
Proof.
  assert (H0 : r_alloc exj_st1 <= record_alloc_limit) by (vm_compute; discriminate).
  destruct (dec_alloc_bounded exj_sizes 10 [] exj_t RNil exj_st1 exj_st2 exj_rec1 exj_dec1_ok) as [H1 H2].
  split; [exact H0|]. split; [exact H1|]. split; [exact (H2 H0)|]. vm_compute. reflexivity.
Qed.

(* (3) the record holds a full multimap of 2 entries, inside an array inside a oneof *)
Example ex_dec_multimap_len_bounded :
  mm_okb exj_rec1 = true /\
  subwire (WMapFull [(WStr [107], jv 5 (WBool true)); (WStr [108], jv 3 (WStr [120]))]) exj_rec1 /\
  N.of_nat (length [(WStr [107], jv 5 (WBool true)); (WStr [108], jv 3 (WStr [120]))]) < multimap_limit.
Proof.
  assert (S : subwire (WMapFull [(WStr [107], jv 5 (WBool true)); (WStr [108], jv 3 (WStr [120]))]) exj_rec1).
  { unfold exj_rec1, jv.
    eapply sub_child; [cbn [wire_children flat_map app]; left; reflexivity|].
    eapply sub_child; [cbn [wire_children]; left; reflexivity|].
    eapply sub_child; [cbn [wire_children]; right; right; left; reflexivity|].
    eapply sub_child; [cbn [wire_children]; left; reflexivity|]. apply sub_here. }
  split; [exact (dec_multimap_len_bounded exj_sizes 10 [] exj_t RNil exj_st1 exj_st2 exj_rec1 exj_dec1_ok)|]. split; [exact S|].
  exact (dec_multimap_nodes_bounded exj_sizes 10 [] exj_t RNil exj_st1 exj_st2 exj_rec1 _ exj_dec1_ok S).
Qed.

(* (2) the counter is the growth of the wire tree: one array, 0 -> 3 elements of 8 + 40 bytes *)
Example ex_dec_array_len_bounded :
  wire_arr_growth exj_sizes [] exj_t RNil exj_rec1 = 144 /\
  r_alloc exj_st2 = r_alloc exj_st1 + wire_arr_growth exj_sizes [] exj_t RNil exj_rec1 /\
  r_alloc exj_st2 = alloc_after exj_sizes [] exj_t RNil exj_rec1 (r_alloc exj_st1).
Proof.
  split; [vm_compute; reflexivity|].
  split; [exact (proj1 (dec_array_len_bounded exj_sizes 10 [] exj_t RNil exj_st1 exj_st2 exj_rec1 exj_dec1_ok))|].
  exact (dec_alloc_exact exj_sizes 10 [] exj_t RNil exj_st1 exj_st2 exj_rec1 exj_dec1_ok).
Qed.

(* (4) record 1 consumes 105 of the 416 units the loaded frame offers ([load_cols] makes every
   column available both as bits and as bytes, so the 26 data bytes of the frame count twice);
   column 5 (array lengths) goes from 16 to 12 remaining bits, column 4 (multimap keys) from 4 to 0
   remaining bytes *)
Example ex_dec_consumes :
  consumes exj_st1 exj_st2 /\
  rst_input_bits exj_st1 = 416 /\ rst_input_bits exj_st2 = 311 /\
  length (br_rem (rc_br (rget exj_st1 5))) = 16%nat /\ length (br_rem (rc_br (rget exj_st2 5))) = 12%nat /\
  length (rc_bytes (rget exj_st1 4)) = 4%nat /\ length (rc_bytes (rget exj_st2 4)) = 0%nat.
Proof.
  split; [exact (dec_consumes exj_sizes 10 [] exj_t RNil exj_st1 exj_st2 exj_rec1 exj_dec1_ok)|]. vm_compute. repeat split; reflexivity.
Qed.

(* ---- both records through [reader_read] *)
Definition exj_read1 : read_result := reader_read exj_sizes 10 4 false exj_r1.
Definition exj_r2 : reader := match exj_read1 with RdRecord r _ => r | _ => exj_r1 end.
Definition exj_read2 : read_result := reader_read exj_sizes 10 4 false exj_r2.
Definition exj_r3 : reader := match exj_read2 with RdRecord r _ => r | _ => exj_r1 end.

Example exj_read1_ok : reader_read exj_sizes 10 4 false exj_r1 = RdRecord exj_r2 exj_rec1.
Proof. vm_compute. reflexivity. Qed.
Example exj_read2_ok : reader_read exj_sizes 10 4 false exj_r2 = RdRecord exj_r3 exj_rec2.
Proof. vm_compute. reflexivity. Qed.

(* record 2: the outer array grows 3 -> 4 (48 bytes) and the new element is an array 0 -> 1 (48
   bytes); the counter was reset, so it is 96 and not 144 + 96 *)
Example ex_reader_read_alloc :
  r_alloc (rd_st exj_r2) = 144 /\ r_alloc (rd_st exj_r3) = 96 /\
  r_alloc (rd_st exj_r3) = wire_arr_growth exj_sizes [] (rd_tree exj_r2) (rd_rec exj_r2) exj_rec2 /\
  r_alloc (rd_st exj_r3) <= record_alloc_limit /\
  mm_okb exj_rec2 = true /\ consumes (rd_st exj_r2) (rd_st exj_r3).
Proof.
  split; [vm_compute; reflexivity|]. split; [vm_compute; reflexivity|].
  split; [exact (proj1 (reader_read_alloc_exact exj_sizes 10 4 false exj_r2 exj_r3 exj_rec2 exj_read2_ok))|].
  split; [exact (reader_read_alloc_bounded exj_sizes 10 4 false exj_r2 exj_r3 exj_rec2 exj_read2_ok)|].
  split; [exact (reader_read_multimap_bounded exj_sizes 10 4 false exj_r2 exj_r3 exj_rec2 exj_read2_ok)|].
  apply (reader_read_consumes exj_sizes 10 4 false exj_r2 exj_r3 exj_rec2); [vm_compute; discriminate|exact exj_read2_ok].
Qed.

(* (5) the hypotheses of the general family are satisfiable: 1000 zero-size structs from 16 bits *)
Example ex_dec_zero_size_elems : exists rs',
  dec zs_sizes 2 [] zs_tree RNil (zs_rs 1000) = Ok (rs', WArr (repeat (WStruct 0 0 []) (N.to_nat 1000))) /\
  rst_input_bits (zs_rs 1000) = 16 /\
  wire_size (WArr (repeat (WStruct 0 0 []) (N.to_nat 1000))) = 1001.
Proof.
  destruct (dec_zero_size_elems zs_sizes 0 [] 1 KNone 2 0 RNil (zs_rs 1000) 1000 []) as [rs' E].
  - vm_compute. split; reflexivity.
  - vm_compute. reflexivity.
  - vm_compute. reflexivity.
  - vm_compute. reflexivity.
  - vm_compute. discriminate.
  - exists rs'. split; [exact E|]. split; [vm_compute; reflexivity|].
    rewrite wire_size_zero_structs. rewrite N2Nat.id. reflexivity.
Qed.

(* extra: nesting depth of record 1 is 7 wire levels, the fuel was 10 *)
Example ex_dec_depth_bounded : (height exj_rec1 <= 2 * 10)%nat /\ height exj_rec1 = 7%nat.
Proof.
  split; [exact (dec_depth_bounded exj_sizes 10 [] exj_t RNil exj_st1 exj_st2 exj_rec1 exj_dec1_ok)|].
  vm_compute. reflexivity.
Qed.

Print Assumptions ex_dec_alloc_bounded.
Print Assumptions ex_dec_multimap_len_bounded.
Print Assumptions ex_dec_array_len_bounded.
Print Assumptions ex_dec_consumes.
Print Assumptions ex_reader_read_alloc.
Print Assumptions ex_dec_zero_size_elems.
Print Assumptions ex_dec_depth_bounded.
