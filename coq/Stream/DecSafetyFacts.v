(* Safety bounds of ONE record decode, for ALL inputs (any reader state, tree, previous value, fuel
   and size function; nothing is assumed about the bytes), lifted to [reader_read]:
   (1) the allocation counter never exceeds [record_alloc_limit] and never decreases;
   (3) every full multimap in the decoded wire tree has fewer than [multimap_limit] entries;
   (2) the allocation counter after a decode is EXACTLY [alloc_after] (WireOk.v) of the decoded wire
       tree: the sum over all array nodes of (growth over the previous length) * (element size);
   (4) the decoder only consumes input and dictionaries only grow ([consumes]);
   (5) the size of the decoded wire tree is NOT bounded by the input size (refuted with a witness);
       what bounds it is (2)+(1). *)
From Coq Require Import List NArith ZArith Bool PArith Lia FMapPositive Arith.
From Coq Require Import ZifyN ZifyNat ZifyBool.
From Stef Require Import Bits BitsFacts BitIO BitIOFacts Varint VarintFacts Codecs CodecFacts Schema
     Wire WireOk WireFactsBase Apply Frame Reader DecSafetyFactsBase.
Import ListNotations.
Open Scope N_scope.

(* ================================================================== (1) allocation bound *)
Definition alloc_rel (rs rs' : rst) : Prop :=
  r_alloc rs <= r_alloc rs' /\ (r_alloc rs <= record_alloc_limit -> r_alloc rs' <= record_alloc_limit).

Theorem dec_alloc_bounded : forall sizes fuel env t prev rs rs' a,
  dec sizes fuel env t prev rs = Ok (rs', a) ->
  r_alloc rs <= r_alloc rs' /\ (r_alloc rs <= record_alloc_limit -> r_alloc rs' <= record_alloc_limit).
Proof.
  intros sizes fuel env t prev rs rs' a H.
  apply (dec_R sizes alloc_rel) with (fuel := fuel) (env := env) (t := t) (prev := prev) (w := a); [..|exact H];
    unfold alloc_rel.
  - intros s. split; [lia|tauto].
  - intros x y z [A1 A2] [B1 B2]. split; [lia|tauto].
  - intros st c p d st' w Hp. rewrite (dec_prim_alloc _ _ _ _ _ _ Hp). split; [lia|tauto].
  - intros st c r _. unfold rset_br, rset. cbn [r_alloc]. split; [lia|tauto].
  - intros st c rest _. unfold rset. cbn [r_alloc]. split; [lia|tauto].
  - intros st dn. cbn [r_alloc]. split; [lia|tauto].
  - intros st al H1 H2. cbn [r_alloc]. split; [exact H1|]. destruct H2 as [->|H2]; tauto.
Qed.
Print Assumptions dec_alloc_bounded.

(* [reader_read] resets the counter before every record: whatever the stream contains, after a
   successful Read the counter of the new state is within the limit *)
Theorem reader_read_alloc_bounded : forall sizes fuel k tef r r' w,
  reader_read sizes fuel k tef r = RdRecord r' w -> r_alloc (rd_st r') <= record_alloc_limit.
Proof.
  intros sizes fuel. induction k as [|k IH]; intros tef r r' w H; [discriminate|].
  cbn [reader_read] in H. destruct (rd_left r =? 0).
  - destruct tef; [discriminate|].
    destruct (reader_next_frame r) as [[| |e]|r1]; try discriminate. eapply IH; exact H.
  - destruct (dec sizes fuel [] (rd_tree r) (rd_rec r) _) as [[st' w1]|e] eqn:E; [|discriminate].
    destruct (apply [] (rd_tree r) (rd_rec r) w1 (rd_td r)) as [td' v]. inversion H; subst. cbn [rd_st].
    apply dec_alloc_bounded in E. cbn [r_alloc] in E. destruct E as [_ E]. apply E.
    unfold record_alloc_limit. lia.
Qed.
Print Assumptions reader_read_alloc_bounded.

(* ================================================================== (3) multimap lengths *)
(* every full multimap node of a wire tree has fewer than [multimap_limit] entries *)
Fixpoint mm_okb (a : wire) : bool :=
  match a with
  | WStruct _ _ fs => forallb (fun f => match f with Some x => mm_okb x | None => true end) fs
  | WDictFull s => mm_okb s
  | WOneof _ (Some x) => mm_okb x
  | WArr l => forallb mm_okb l
  | WMapFull kvs =>
    (N.of_nat (length kvs) <? multimap_limit) && forallb (fun kv => mm_okb (fst kv) && mm_okb (snd kv)) kvs
  | WMapVals _ l => forallb mm_okb l
  | _ => true
  end.

Definition mm_fopt (f : option wire) : bool := match f with Some x => mm_okb x | None => true end.
Definition mm_fkv (kv : wire * wire) : bool := mm_okb (fst kv) && mm_okb (snd kv).

Lemma forallb_snoc : forall A (f : A -> bool) l x, forallb f l = true -> f x = true -> forallb f (l ++ [x]) = true.
Proof. intros. rewrite forallb_app. cbn [forallb]. rewrite H, H0. reflexivity. Qed.

Lemma forallb_rev_true : forall A (f : A -> bool) l, forallb f l = true -> forallb f (rev l) = true.
Proof.
  intros A f l H. apply forallb_forall. intros x Hx. apply in_rev in Hx.
  rewrite forallb_forall in H. apply H. exact Hx.
Qed.

Section MmLoops.
  Variable D : renv -> etree -> rnode -> rst -> res (rst * wire).
  Hypothesis HD : forall env t p s s' w, D env t p s = Ok (s', w) -> mm_okb w = true.

  Lemma fields_mm : forall env' prev mask present fts opts i oi pf st acc st' fs,
    dec_fields D env' prev mask present i oi fts opts pf st acc = Ok (st', fs) ->
    forallb mm_fopt acc = true -> forallb mm_fopt fs = true.
  Proof.
    intros env' prev mask present. induction fts as [|ft fts IH]; intros opts i oi pf st acc st' fs H HA.
    - rewrite dec_fields_nil in H by (left; reflexivity). inversion H; subst. exact HA.
    - destruct opts as [|o opts].
      + rewrite dec_fields_nil in H by (right; reflexivity). inversion H; subst. exact HA.
      + rewrite dec_fields_cons in H. cbv zeta in H.
        destruct (N.testbit mask i && (negb o || N.testbit present oi)).
        * destruct (D env' (resolve env' ft) _ st) as [[st1 w]|e] eqn:E; [|discriminate].
          destruct (negb o && is_nil_ref w); [discriminate|].
          eapply IH; [exact H|]. apply forallb_snoc; [exact HA|]. cbn [mm_fopt]. eapply HD; exact E.
        * eapply IH; [exact H|]. apply forallb_snoc; [exact HA|reflexivity].
  Qed.

  Lemma body_mm : forall prev c fc opts fts env' st st' w,
    dec_body D prev c fc opts fts env' st = Ok (st', w) -> mm_okb w = true.
  Proof.
    intros prev c fc opts fts env' st st' w H. unfold dec_body in H.
    destruct (br_read_bits (rc_br (rget st c)) (N.to_nat fc)) as [mask r1].
    destruct (br_read_bits r1 (opt_count opts)) as [present r2].
    destruct (dec_fields D env' prev mask present 0 0 fts opts (prev_fields prev) (rset_br st c r2) [])
      as [[st1 fs]|e] eqn:EF; [|discriminate].
    destruct (col_err st1 c); [discriminate|]. inversion H; subst.
    cbn [mm_okb]. apply (fields_mm _ _ _ _ _ _ _ _ _ _ _ _ _ EF). reflexivity.
  Qed.

  Lemma arr_mm : forall env' et c m k pe st acc st' w,
    run (dec_arr_step D env' et c) m (k, pe, st, acc) = inr (Ok (st', w)) ->
    forallb mm_okb acc = true -> mm_okb w = true.
  Proof.
    intros env' et c. induction m as [|m IH]; intros k pe st acc st' w H HA; [discriminate|].
    cbn [run] in H. unfold dec_arr_step at 1 in H.
    destruct (k =? 0).
    - destruct (col_err st c); inversion H; subst. cbn [mm_okb]. apply forallb_rev_true. exact HA.
    - destruct (D env' (resolve env' et) (hd RNil pe) st) as [[st1 w1]|e] eqn:E; [|discriminate].
      eapply IH; [exact H|]. cbn [forallb]. rewrite HA, (HD _ _ _ _ _ _ E). reflexivity.
  Qed.

  Lemma vals_mm : forall env' vt changed pk i st acc st' w,
    dec_vals D env' vt changed i pk st acc = Ok (st', w) -> forallb mm_okb acc = true -> mm_okb w = true.
  Proof.
    intros env' vt changed. induction pk as [|[pkk pv] pk IH]; intros i st acc st' w H HA; cbn [dec_vals] in H.
    - inversion H; subst. exact HA.
    - destruct ((i <? 64) && N.testbit changed i).
      + destruct (D env' (resolve env' vt) pv st) as [[st1 w1]|e] eqn:E; [|discriminate].
        eapply IH; [exact H|]. apply forallb_snoc; [exact HA|eapply HD; exact E].
      + eapply IH; eassumption.
  Qed.

  Lemma full_mm : forall env' kt vt k pk st acc st' w,
    dec_full D env' kt vt k pk st acc = Ok (st', w) -> forallb mm_fkv acc = true ->
    N.of_nat (length acc + k) < multimap_limit -> mm_okb w = true.
  Proof.
    intros env' kt vt. induction k as [|k IH]; intros pk st acc st' w H HA HL; cbn [dec_full] in H.
    - inversion H; subst. cbn [mm_okb]. apply andb_true_intro. split; [apply N.ltb_lt; lia|exact HA].
    - destruct (hd (RNil, RNil) pk) as [pkk pv].
      destruct (D env' (resolve env' kt) pkk st) as [[st1 wk]|e] eqn:E1; [|discriminate].
      destruct (D env' (resolve env' vt) pv st1) as [[st2 wv]|e] eqn:E2; [|discriminate].
      eapply IH; [exact H| |].
      + apply forallb_snoc; [exact HA|]. unfold mm_fkv. cbn [fst snd].
        rewrite (HD _ _ _ _ _ _ E1), (HD _ _ _ _ _ _ E2). reflexivity.
      + rewrite app_length. cbn [length]. lia.
  Qed.
End MmLoops.

Theorem dec_multimap_len_bounded : forall sizes fuel env t prev rs rs' a,
  dec sizes fuel env t prev rs = Ok (rs', a) -> mm_okb a = true.
Proof.
  intros sizes. induction fuel as [|f IH]; intros env t prev st st' w H; [discriminate|].
  destruct t as [c p d|c sid oneof d fc opts fts|c k et|c mid kt vt|k|].
  - rewrite dec_eq_prim in H. apply dec_prim_leaf in H. destruct w; try discriminate; reflexivity.
  - destruct oneof.
    + rewrite dec_eq_oneof in H.
      destruct (br_read_bits (rc_br (rget st c)) (oneof_bits fc)) as [tag r1]. cbv zeta in H.
      destruct (fc + 1 <=? tag); [discriminate|]. destruct (br_err r1); [discriminate|].
      destruct (tag =? 0); [inversion H; subst; reflexivity|].
      destruct (dec sizes f _ _ _ (rset_br st c r1)) as [[st1 w1]|e] eqn:E; [|discriminate].
      inversion H; subst. cbn [mm_okb]. eapply IH; exact E.
    + destruct d as [dn|].
      * rewrite dec_eq_dict in H.
        destruct (br_read_bits (rc_br (rget st c)) 1) as [flag r1].
        destruct (flag =? 0).
        -- destruct (br_read_uvc r1) as [ref r2]. cbv zeta in H.
           destruct (r_tl (rset_br st c r2) dn <=? ref); [discriminate|].
           destruct (br_err r2); [discriminate|]. inversion H; subst. reflexivity.
        -- cbv zeta in H.
           destruct (dec_body (dec sizes f) prev c fc opts fts _ (rset_br st c r1)) as [[st1 w1]|e] eqn:E; [|discriminate].
           inversion H; subst. cbn [mm_okb]. eapply body_mm; [exact IH|exact E].
      * rewrite dec_eq_struct in H. eapply body_mm; [exact IH|exact H].
  - rewrite dec_eq_arr in H.
    destruct (br_read_uvc (rc_br (rget st c))) as [n r1]. cbv zeta in H.
    match type of H with (if ?b then _ else _) = _ => destruct b; [discriminate|] end.
    match type of H with match iter_pow _ ?step ?s with _ => _ end = _ =>
      destruct (iter_pow loop_k step s) as [s'|r] eqn:EI; [discriminate|] end.
    subst r. rewrite iter_pow_run in EI. eapply arr_mm; [exact IH|exact EI|reflexivity].
  - rewrite dec_eq_map in H. cbv zeta in H.
    destruct (leb_dec (rc_bytes (rget st c))) as [[hdr rest]|]; [|discriminate].
    destruct (hdr =? 0); [inversion H; subst; reflexivity|].
    destruct (N.even hdr).
    + eapply vals_mm; [exact IH|exact H|reflexivity].
    + destruct (multimap_limit <=? hdr / 2) eqn:EL; [discriminate|].
      eapply full_mm; [exact IH|exact H|reflexivity|]. cbn [length Nat.add]. apply N.leb_gt in EL. lia.
  - discriminate.
  - discriminate.
Qed.
Print Assumptions dec_multimap_len_bounded.

(* the same statement node by node: [subwire x a] says that [x] occurs inside [a] *)
Definition wire_children (a : wire) : list wire :=
  match a with
  | WStruct _ _ fs => flat_map (fun f => match f with Some x => [x] | None => [] end) fs
  | WDictFull s => [s]
  | WOneof _ (Some x) => [x]
  | WArr l => l
  | WMapFull kvs => flat_map (fun kv => [fst kv; snd kv]) kvs
  | WMapVals _ l => l
  | _ => []
  end.

Inductive subwire (x : wire) : wire -> Prop :=
| sub_here : subwire x x
| sub_child : forall a c, In c (wire_children a) -> subwire x c -> subwire x a.

Lemma mm_okb_children : forall a c, mm_okb a = true -> In c (wire_children a) -> mm_okb c = true.
Proof.
  intros a c H Hin. destruct a as [| | | | |m p fs|ref|s|tag alt|l|kvs|ch l]; cbn [wire_children] in Hin;
    try contradiction; cbn [mm_okb] in H.
  - apply in_flat_map in Hin. destruct Hin as [f [Hf Hc]]. rewrite forallb_forall in H. specialize (H f Hf).
    destruct f as [x|]; [|contradiction]. destruct Hc as [<-|[]]. exact H.
  - destruct Hin as [<-|[]]. exact H.
  - destruct alt as [x|]; [|contradiction]. destruct Hin as [<-|[]]. exact H.
  - rewrite forallb_forall in H. apply H. exact Hin.
  - apply andb_true_iff in H. destruct H as [_ H]. apply in_flat_map in Hin. destruct Hin as [kv [Hkv Hc]].
    rewrite forallb_forall in H. specialize (H kv Hkv). apply andb_true_iff in H. destruct H as [H1 H2].
    destruct Hc as [<-|[<-|[]]]; assumption.
  - rewrite forallb_forall in H. apply H. exact Hin.
Qed.

Lemma mm_okb_subwire : forall x a, subwire x a -> mm_okb a = true -> mm_okb x = true.
Proof.
  intros x a S. induction S as [|a c Hin S IH]; intros H; [exact H|].
  apply IH. eapply mm_okb_children; eassumption.
Qed.

Theorem dec_multimap_nodes_bounded : forall sizes fuel env t prev rs rs' a kvs,
  dec sizes fuel env t prev rs = Ok (rs', a) -> subwire (WMapFull kvs) a ->
  N.of_nat (length kvs) < multimap_limit.
Proof.
  intros sizes fuel env t prev rs rs' a kvs H S.
  apply dec_multimap_len_bounded in H. apply (mm_okb_subwire _ _ S) in H.
  cbn [mm_okb] in H. apply andb_true_iff in H. destruct H as [H _]. apply N.ltb_lt in H. exact H.
Qed.
Print Assumptions dec_multimap_nodes_bounded.

Theorem reader_read_multimap_bounded : forall sizes fuel k tef r r' w,
  reader_read sizes fuel k tef r = RdRecord r' w -> mm_okb w = true.
Proof.
  intros sizes fuel. induction k as [|k IH]; intros tef r r' w H; [discriminate|].
  cbn [reader_read] in H. destruct (rd_left r =? 0).
  - destruct tef; [discriminate|].
    destruct (reader_next_frame r) as [[| |e]|r1]; try discriminate. eapply IH; exact H.
  - destruct (dec sizes fuel [] (rd_tree r) (rd_rec r) _) as [[st' w1]|e] eqn:E; [|discriminate].
    destruct (apply [] (rd_tree r) (rd_rec r) w1 (rd_td r)) as [td' v]. inversion H; subst.
    eapply dec_multimap_len_bounded; exact E.
Qed.
Print Assumptions reader_read_multimap_bounded.

(* ================================================================== (2) what the counter counts *)
(* [alloc_after sizes env t prev a al] (WireOk.v) walks the wire tree [a] along the tree [t] and the
   previous value [prev] exactly as [dec] does and adds, at every array node that is longer than the
   array it overwrites, (new length - old length) * elem_size.  For EVERY successful decode (no
   [wire_ok] assumed) the counter of the resulting state is that number. *)
Section AaLoops.
  Variable sizes : N -> N.
  Variable D : renv -> etree -> rnode -> rst -> res (rst * wire).
  Hypothesis HD : forall env t p s s' w, D env t p s = Ok (s', w) ->
    r_alloc s' = alloc_after sizes env t p w (r_alloc s).

  Lemma fields_aa : forall env' prev mask present fts opts i oi pf st acc st' fs,
    dec_fields D env' prev mask present i oi fts opts pf st acc = Ok (st', fs) ->
    exists new, fs = acc ++ new /\
      r_alloc st' = aa_fields sizes env' prev oi fts opts new pf (r_alloc st).
  Proof.
    intros env' prev mask present. induction fts as [|ft fts IH]; intros opts i oi pf st acc st' fs H.
    - rewrite dec_fields_nil in H by (left; reflexivity). inversion H; subst.
      exists []. rewrite app_nil_r. split; reflexivity.
    - destruct opts as [|o opts].
      + rewrite dec_fields_nil in H by (right; reflexivity). inversion H; subst.
        exists []. rewrite app_nil_r. split; reflexivity.
      + rewrite dec_fields_cons in H. cbv zeta in H.
        destruct (N.testbit mask i && (negb o || N.testbit present oi)).
        * destruct (D env' (resolve env' ft) _ st) as [[st1 w]|e] eqn:E; [|discriminate].
          destruct (negb o && is_nil_ref w); [discriminate|].
          destruct (IH _ _ _ _ _ _ _ _ H) as [new [E1 E2]].
          exists (Some w :: new). split; [rewrite E1, <- app_assoc; reflexivity|].
          cbn [aa_fields]. rewrite E2, (HD _ _ _ _ _ _ E). reflexivity.
        * destruct (IH _ _ _ _ _ _ _ _ H) as [new [E1 E2]].
          exists (None :: new). split; [rewrite E1, <- app_assoc; reflexivity|].
          cbn [aa_fields]. exact E2.
  Qed.

  Lemma body_aa : forall prev c fc opts fts env' st st' w,
    dec_body D prev c fc opts fts env' st = Ok (st', w) ->
    exists mask present fs, w = WStruct mask present fs /\
      r_alloc st' = aa_fields sizes env' prev 0 fts opts fs (prev_fields prev) (r_alloc st).
  Proof.
    intros prev c fc opts fts env' st st' w H. unfold dec_body in H.
    destruct (br_read_bits (rc_br (rget st c)) (N.to_nat fc)) as [mask r1].
    destruct (br_read_bits r1 (opt_count opts)) as [present r2].
    destruct (dec_fields D env' prev mask present 0 0 fts opts (prev_fields prev) (rset_br st c r2) [])
      as [[st1 fs]|e] eqn:EF; [|discriminate].
    destruct (col_err st1 c); [discriminate|]. inversion H; subst.
    destruct (fields_aa _ _ _ _ _ _ _ _ _ _ _ _ _ EF) as [new [E1 E2]]. cbn [app] in E1. subst new.
    exists mask, present, fs. split; [reflexivity|exact E2].
  Qed.

  Lemma arr_aa : forall env' et c m k pe st acc st' w,
    run (dec_arr_step D env' et c) m (k, pe, st, acc) = inr (Ok (st', w)) ->
    exists new, w = WArr (rev acc ++ new) /\ N.of_nat (length new) = k /\
      r_alloc st' = aa_elems sizes env' et new pe (r_alloc st).
  Proof.
    intros env' et c. induction m as [|m IH]; intros k pe st acc st' w H; [discriminate|].
    cbn [run] in H. unfold dec_arr_step at 1 in H.
    destruct (N.eqb_spec k 0) as [K|K].
    - destruct (col_err st c); inversion H; subst.
      exists []. rewrite app_nil_r. repeat split; reflexivity.
    - destruct (D env' (resolve env' et) (hd RNil pe) st) as [[st1 w1]|e] eqn:E; [|discriminate].
      destruct (IH _ _ _ _ _ _ H) as [new [E1 [E2 E3]]].
      exists (w1 :: new). split; [|split].
      + rewrite E1. cbn [rev]. rewrite <- app_assoc. reflexivity.
      + cbn [length]. lia.
      + cbn [aa_elems]. rewrite E3, (HD _ _ _ _ _ _ E). reflexivity.
  Qed.

  Lemma vals_aa : forall env' vt changed pk i st acc st' w,
    dec_vals D env' vt changed i pk st acc = Ok (st', w) ->
    exists new, w = WMapVals changed (acc ++ new) /\
      r_alloc st' = aa_elems sizes env' vt new (sel_prevs changed i pk) (r_alloc st).
  Proof.
    intros env' vt changed. induction pk as [|[pkk pv] pk IH]; intros i st acc st' w H; cbn [dec_vals] in H.
    - inversion H; subst. exists []. rewrite app_nil_r. split; reflexivity.
    - cbn [sel_prevs]. destruct ((i <? 64) && N.testbit changed i).
      + destruct (D env' (resolve env' vt) pv st) as [[st1 w1]|e] eqn:E; [|discriminate].
        destruct (IH _ _ _ _ _ H) as [new [E1 E2]].
        exists (w1 :: new). split; [rewrite E1, <- app_assoc; reflexivity|].
        cbn [aa_elems hd tl]. rewrite E2, (HD _ _ _ _ _ _ E). reflexivity.
      + exact (IH _ _ _ _ _ H).
  Qed.

  Lemma full_aa : forall env' kt vt k pk st acc st' w,
    dec_full D env' kt vt k pk st acc = Ok (st', w) ->
    exists new, w = WMapFull (acc ++ new) /\ length new = k /\
      r_alloc st' = aa_kvs sizes env' kt vt new pk (r_alloc st).
  Proof.
    intros env' kt vt. induction k as [|k IH]; intros pk st acc st' w H; cbn [dec_full] in H.
    - inversion H; subst. exists []. rewrite app_nil_r. repeat split; reflexivity.
    - destruct (hd (RNil, RNil) pk) as [pkk pv] eqn:EP.
      destruct (D env' (resolve env' kt) pkk st) as [[st1 wk]|e] eqn:E1; [|discriminate].
      destruct (D env' (resolve env' vt) pv st1) as [[st2 wv]|e] eqn:E2; [|discriminate].
      destruct (IH _ _ _ _ _ H) as [new [F1 [F2 F3]]].
      exists ((wk, wv) :: new). split; [|split].
      + rewrite F1, <- app_assoc. reflexivity.
      + cbn [length]. rewrite F2. reflexivity.
      + cbn [aa_kvs]. rewrite EP, F3, (HD _ _ _ _ _ _ E2), (HD _ _ _ _ _ _ E1). reflexivity.
  Qed.
End AaLoops.

Lemma alloc_after_leaf : forall sizes env t prev a al, is_leaf a = true ->
  alloc_after sizes env t prev a al = al.
Proof. intros sizes env t prev a al H. destruct a; try discriminate; destruct t as [| ? ? [|] ? ? ? ?| | | |]; reflexivity. Qed.

Theorem dec_alloc_exact : forall sizes fuel env t prev rs rs' a,
  dec sizes fuel env t prev rs = Ok (rs', a) ->
  r_alloc rs' = alloc_after sizes env t prev a (r_alloc rs).
Proof.
  intros sizes. induction fuel as [|f IH]; intros env t prev st st' w H; [discriminate|].
  destruct t as [c p d|c sid oneof d fc opts fts|c k et|c mid kt vt|k|].
  - rewrite dec_eq_prim in H. rewrite (dec_prim_alloc _ _ _ _ _ _ H).
    symmetry. apply alloc_after_leaf. eapply dec_prim_leaf; exact H.
  - destruct oneof.
    + rewrite dec_eq_oneof in H.
      destruct (br_read_bits (rc_br (rget st c)) (oneof_bits fc)) as [tag r1]. cbv zeta in H.
      destruct (fc + 1 <=? tag); [discriminate|]. destruct (br_err r1); [discriminate|].
      destruct (tag =? 0); [inversion H; subst; reflexivity|].
      destruct (dec sizes f _ _ _ (rset_br st c r1)) as [[st1 w1]|e] eqn:E; [|discriminate].
      inversion H; subst. rewrite aa_eq_oneof. cbv zeta. rewrite (IH _ _ _ _ _ _ E). reflexivity.
    + destruct d as [dn|].
      * rewrite dec_eq_dict in H.
        destruct (br_read_bits (rc_br (rget st c)) 1) as [flag r1].
        destruct (flag =? 0).
        -- destruct (br_read_uvc r1) as [ref r2]. cbv zeta in H.
           destruct (r_tl (rset_br st c r2) dn <=? ref); [discriminate|].
           destruct (br_err r2); [discriminate|]. inversion H; subst. reflexivity.
        -- cbv zeta in H.
           destruct (dec_body (dec sizes f) prev c fc opts fts _ (rset_br st c r1)) as [[st1 w1]|e] eqn:E; [|discriminate].
           inversion H; subst. cbn [r_alloc].
           destruct (body_aa sizes _ (IH) _ _ _ _ _ _ _ _ _ E) as (mask & present & fs & E1 & E2).
           subst w1. rewrite aa_eq_dictfull. exact E2.
      * rewrite dec_eq_struct in H.
        destruct (body_aa sizes _ (IH) _ _ _ _ _ _ _ _ _ H) as (mask & present & fs & E1 & E2).
        subst w. rewrite aa_eq_struct. exact E2.
  - rewrite dec_eq_arr in H.
    destruct (br_read_uvc (rc_br (rget st c))) as [n r1]. cbv zeta in H.
    match type of H with (if ?b then _ else _) = _ => destruct b; [discriminate|] end.
    match type of H with match iter_pow _ ?step ?s with _ => _ end = _ =>
      destruct (iter_pow loop_k step s) as [s'|r] eqn:EI; [discriminate|] end.
    subst r. rewrite iter_pow_run in EI.
    destruct (arr_aa sizes _ (IH) _ _ _ _ _ _ _ _ _ _ EI) as (new & E1 & E2 & E3).
    cbn [rev app] in E1. subst w. rewrite aa_eq_arr. cbv zeta. rewrite E2, E3. reflexivity.
  - rewrite dec_eq_map in H. cbv zeta in H.
    destruct (leb_dec (rc_bytes (rget st c))) as [[hdr rest]|]; [|discriminate].
    destruct (hdr =? 0); [inversion H; subst; reflexivity|].
    destruct (N.even hdr).
    + destruct (vals_aa sizes _ (IH) _ _ _ _ _ _ _ _ _ H) as (new & E1 & E2).
      cbn [app] in E1. subst w. rewrite aa_eq_mapvals. exact E2.
    + destruct (multimap_limit <=? hdr / 2); [discriminate|].
      destruct (full_aa sizes _ (IH) _ _ _ _ _ _ _ _ _ H) as (new & E1 & _ & E3).
      cbn [app] in E1. subst w. rewrite aa_eq_mapfull. exact E3.
  - discriminate.
  - discriminate.
Qed.
Print Assumptions dec_alloc_exact.

(* [alloc_after] only ever adds: the amount does not depend on the starting value *)
Definition hfopt (n : nat) (f : option wire) : Prop := match f with Some x => (height x < n)%nat | None => True end.

Section AddStep.
  Variable sizes : N -> N.
  Variable n : nat.
  Hypothesis IHn : forall a env t prev al, (height a < n)%nat ->
    alloc_after sizes env t prev a al = al + alloc_after sizes env t prev a 0.

  Lemma aa_fields_add : forall env' prev fs oi fts opts pf al, Forall (hfopt n) fs ->
    aa_fields sizes env' prev oi fts opts fs pf al = al + aa_fields sizes env' prev oi fts opts fs pf 0.
  Proof.
    intros env' prev. induction fs as [|f fs IH]; intros oi fts opts pf al HF.
    - cbn [aa_fields]. lia.
    - destruct fts as [|ft fts]; [cbn [aa_fields]; lia|]. destruct opts as [|o opts]; [cbn [aa_fields]; lia|].
      inversion HF as [|? ? Hf HF']; subst. cbn [aa_fields]. cbv zeta.
      destruct f as [a'|]; [|apply IH; exact HF'].
      rewrite (IH _ _ _ _ (alloc_after sizes env' _ _ a' al)) by exact HF'.
      rewrite (IH _ _ _ _ (alloc_after sizes env' _ _ a' 0)) by exact HF'.
      rewrite (IHn a' env' _ _ al) by exact Hf. lia.
  Qed.

  Lemma aa_elems_add : forall env' et es pe al, Forall (fun x => (height x < n)%nat) es ->
    aa_elems sizes env' et es pe al = al + aa_elems sizes env' et es pe 0.
  Proof.
    intros env' et. induction es as [|e es IH]; intros pe al HF; cbn [aa_elems]; [lia|].
    inversion HF as [|? ? He HF']; subst.
    rewrite (IH _ (alloc_after sizes env' _ _ e al)) by exact HF'.
    rewrite (IH _ (alloc_after sizes env' _ _ e 0)) by exact HF'.
    rewrite (IHn e env' _ _ al) by exact He. lia.
  Qed.

  Lemma aa_kvs_add : forall env' kt vt l pk al,
    Forall (fun kv => (height (fst kv) < n)%nat /\ (height (snd kv) < n)%nat) l ->
    aa_kvs sizes env' kt vt l pk al = al + aa_kvs sizes env' kt vt l pk 0.
  Proof.
    intros env' kt vt. induction l as [|[k v] l IH]; intros pk al HF; cbn [aa_kvs]; [lia|].
    inversion HF as [|? ? [Hk Hv] HF']; subst. cbn [fst snd] in Hk, Hv.
    destruct (hd (RNil, RNil) pk) as [pkk pv].
    rewrite (IH _ (alloc_after sizes env' _ pv v _)) by exact HF'.
    rewrite (IH _ (alloc_after sizes env' _ pv v (alloc_after sizes env' _ pkk k 0))) by exact HF'.
    rewrite (IHn v env' _ pv (alloc_after sizes env' _ pkk k al)) by exact Hv.
    rewrite (IHn v env' _ pv (alloc_after sizes env' _ pkk k 0)) by exact Hv.
    rewrite (IHn k env' _ pkk al) by exact Hk. lia.
  Qed.
End AddStep.

Lemma alloc_after_add_n : forall sizes n a env t prev al, (height a < n)%nat ->
  alloc_after sizes env t prev a al = al + alloc_after sizes env t prev a 0.
Proof.
  intros sizes. induction n as [|n IHn]; intros a env t prev al Hh; [lia|].
  destruct t as [c p d|c sid [|] d fc opts fts|c k et|c mid kt vt|k|];
    destruct a as [b|v|z|v|s|mask present fs|ref|s|tag alt|l|kvs|ch l];
    try (change (al = al + 0); lia).
  - (* oneof *)
    destruct alt as [a'|]; [|change (al = al + 0); lia].
    rewrite !aa_eq_oneof. cbv zeta. apply IHn. cbn [height] in Hh. lia.
  - (* struct *)
    rewrite !aa_eq_struct. apply aa_fields_add with (n := n); [exact IHn|].
    apply height_fields_lt. cbn [height] in Hh. lia.
  - (* dictionary struct, full *)
    destruct s as [| | | | |mask present fs| | | | | |]; try (change (al = al + 0); lia).
    rewrite !aa_eq_dictfull. apply aa_fields_add with (n := n); [exact IHn|].
    apply height_fields_lt. cbn [height] in Hh. lia.
  - (* array *)
    rewrite !aa_eq_arr. cbv zeta.
    assert (HF : Forall (fun x => (height x < n)%nat) l) by (apply height_elems_lt; cbn [height] in Hh; lia).
    destruct (0 <? _).
    + rewrite (aa_elems_add sizes n IHn _ _ _ _ (al + _) HF), (aa_elems_add sizes n IHn _ _ _ _ (0 + _) HF). lia.
    + apply aa_elems_add with (n := n); assumption.
  - (* multimap, full *)
    rewrite !aa_eq_mapfull. apply aa_kvs_add with (n := n); [exact IHn|].
    apply height_kvs_lt. cbn [height] in Hh. lia.
  - (* multimap, values *)
    rewrite !aa_eq_mapvals. apply aa_elems_add with (n := n); [exact IHn|].
    apply height_elems_lt. cbn [height] in Hh. lia.
Qed.

(* the amount added for the array nodes of [a]: for each array node that is longer than the array
   of [prev] at the same place, (new length - old length) * elem_size, summed over the tree *)
Definition wire_arr_growth (sizes : N -> N) (env : renv) (t : etree) (prev : rnode) (a : wire) : N :=
  alloc_after sizes env t prev a 0.

Theorem alloc_after_growth : forall sizes env t prev a al,
  alloc_after sizes env t prev a al = al + wire_arr_growth sizes env t prev a.
Proof. intros. unfold wire_arr_growth. apply (alloc_after_add_n sizes (S (height a))). lia. Qed.
Print Assumptions alloc_after_growth.

(* growth of an array node: its own growth plus the growth inside its elements *)
Lemma wire_arr_growth_arr : forall sizes env c k et prev elems,
  wire_arr_growth sizes env (EArr c k et) prev (WArr elems) =
  (N.of_nat (length elems) - N.of_nat (length (prev_elems prev))) * elem_size sizes et +
  aa_elems sizes (push_env env (EArr c k et)) et elems (prev_elems prev) 0.
Proof.
  intros. unfold wire_arr_growth. rewrite aa_eq_arr. cbv zeta.
  assert (HF : Forall (fun x => (height x < S (height (WArr elems)))%nat) elems).
  { apply height_elems_lt. cbn [height]. lia. }
  pose proof (fun a env t prev al H => alloc_after_add_n sizes (S (height (WArr elems))) a env t prev al H) as IHn.
  destruct (N.ltb_spec 0 (N.of_nat (length elems) - N.of_nat (length (prev_elems prev)))) as [G|G].
  - rewrite (aa_elems_add sizes _ IHn _ _ _ _ (0 + _) HF). lia.
  - replace (N.of_nat (length elems) - N.of_nat (length (prev_elems prev))) with 0 by lia. lia.
Qed.

Lemma aa_elems_ge : forall sizes env' et es pe al, al <= aa_elems sizes env' et es pe al.
Proof.
  intros sizes env' et. induction es as [|e es IH]; intros pe al; cbn [aa_elems]; [lia|].
  specialize (IH (tl pe) (alloc_after sizes env' (resolve env' et) (hd RNil pe) e al)).
  rewrite alloc_after_growth in IH. rewrite alloc_after_growth. lia.
Qed.

Theorem dec_array_len_bounded : forall sizes fuel env t prev rs rs' a,
  dec sizes fuel env t prev rs = Ok (rs', a) ->
  r_alloc rs' = r_alloc rs + wire_arr_growth sizes env t prev a /\
  (r_alloc rs <= record_alloc_limit -> r_alloc rs + wire_arr_growth sizes env t prev a <= record_alloc_limit).
Proof.
  intros sizes fuel env t prev rs rs' a H.
  pose proof (dec_alloc_exact _ _ _ _ _ _ _ _ H) as E. rewrite alloc_after_growth in E.
  split; [exact E|]. intros HL. rewrite <- E. apply (dec_alloc_bounded _ _ _ _ _ _ _ _ H). exact HL.
Qed.
Print Assumptions dec_array_len_bounded.

(* in particular for the array being decoded itself: the number of NEW elements times the element
   size is within the limit (the element size is at least 1: at most 2^25 new elements) *)
Theorem dec_top_array_len_bounded : forall sizes fuel env c k et prev rs rs' elems,
  dec sizes fuel env (EArr c k et) prev rs = Ok (rs', WArr elems) ->
  r_alloc rs <= record_alloc_limit ->
  (N.of_nat (length elems) - N.of_nat (length (prev_elems prev))) * elem_size sizes et <= record_alloc_limit.
Proof.
  intros sizes fuel env c k et prev rs rs' elems H HL.
  apply dec_array_len_bounded in H. destruct H as [_ H]. specialize (H HL).
  rewrite wire_arr_growth_arr in H. lia.
Qed.
Print Assumptions dec_top_array_len_bounded.

Lemma elem_size_pos : forall sizes et, 1 <= elem_size sizes et.
Proof.
  intros sizes et. unfold elem_size.
  destruct et as [c p d| | | |k|]; try lia; [destruct p; lia|destruct k; lia].
Qed.

(* at most 2^25 new elements, whatever the element type *)
Corollary dec_top_array_new_elems_bounded : forall sizes fuel env c k et prev rs rs' elems,
  dec sizes fuel env (EArr c k et) prev rs = Ok (rs', WArr elems) ->
  r_alloc rs <= record_alloc_limit ->
  N.of_nat (length elems) <= N.of_nat (length (prev_elems prev)) + record_alloc_limit.
Proof.
  intros sizes fuel env c k et prev rs rs' elems H HL.
  pose proof (dec_top_array_len_bounded _ _ _ _ _ _ _ _ _ _ H HL) as B.
  pose proof (elem_size_pos sizes et) as P. nia.
Qed.
Print Assumptions dec_top_array_new_elems_bounded.

Lemma reader_next_frame_keeps : forall r r1, reader_next_frame r = inr r1 ->
  rd_tree r1 = rd_tree r /\ rd_rec r1 = rd_rec r.
Proof.
  intros r r1 H. unfold reader_next_frame in H.
  destruct (next_frame (rd_src r)) as [e|[[fl content] src']]; [discriminate|].
  destruct (parse_data_frame (rd_tree r) content) as [e|[nrec cols]]; [discriminate|].
  inversion H; subst. split; reflexivity.
Qed.

Theorem reader_read_alloc_exact : forall sizes fuel k tef r r' w,
  reader_read sizes fuel k tef r = RdRecord r' w ->
  r_alloc (rd_st r') = wire_arr_growth sizes [] (rd_tree r) (rd_rec r) w /\
  wire_arr_growth sizes [] (rd_tree r) (rd_rec r) w <= record_alloc_limit.
Proof.
  intros sizes fuel. induction k as [|k IH]; intros tef r r' w H; [discriminate|].
  cbn [reader_read] in H. destruct (rd_left r =? 0).
  - destruct tef; [discriminate|].
    destruct (reader_next_frame r) as [[| |e]|r1] eqn:EN; try discriminate.
    apply reader_next_frame_keeps in EN. destruct EN as [E1 E2]. rewrite <- E1, <- E2. eapply IH; exact H.
  - destruct (dec sizes fuel [] (rd_tree r) (rd_rec r) _) as [[st' w1]|e] eqn:E; [|discriminate].
    destruct (apply [] (rd_tree r) (rd_rec r) w1 (rd_td r)) as [td' v]. inversion H; subst. cbn [rd_st].
    apply dec_array_len_bounded in E. cbn [r_alloc] in E. destruct E as [E1 E2].
    split; [rewrite E1; lia|]. assert (0 <= record_alloc_limit) by lia. specialize (E2 H0). lia.
Qed.
Print Assumptions reader_read_alloc_exact.

(* ================================================================== (4) the decoder only consumes *)
Theorem dec_consumes : forall sizes fuel env t prev rs rs' a,
  dec sizes fuel env t prev rs = Ok (rs', a) -> consumes rs rs'.
Proof.
  intros sizes fuel env t prev rs rs' a H.
  apply (dec_R sizes consumes) with (fuel := fuel) (env := env) (t := t) (prev := prev) (w := a); [..|exact H].
  - exact consumes_refl.
  - exact consumes_trans.
  - exact consumes_prim.
  - exact consumes_rset_br.
  - intros st c rest Hs. apply consumes_rset_bytes. exact Hs.
  - intros st dn. apply consumes_tlen. lia.
  - intros st al _ _. apply consumes_alloc.
Qed.
Print Assumptions dec_consumes.

(* within a frame a Read only consumes the loaded columns (a Read that has to load the next frame
   replaces the columns, and a restart flag empties the dictionaries: no such relation then) *)
Theorem reader_read_consumes : forall sizes fuel k tef r r' w, rd_left r <> 0 ->
  reader_read sizes fuel k tef r = RdRecord r' w -> consumes (rd_st r) (rd_st r').
Proof.
  intros sizes fuel k tef r r' w Hl H. destruct k as [|k]; [discriminate|].
  cbn [reader_read] in H. destruct (N.eqb_spec (rd_left r) 0); [contradiction|].
  destruct (dec sizes fuel [] (rd_tree r) (rd_rec r) _) as [[st' w1]|e] eqn:E; [|discriminate].
  destruct (apply [] (rd_tree r) (rd_rec r) w1 (rd_td r)) as [td' v]. inversion H; subst. cbn [rd_st].
  eapply consumes_trans; [apply (consumes_alloc (rd_st r) 0)|]. eapply dec_consumes; exact E.
Qed.
Print Assumptions reader_read_consumes.

(* consequences in numbers: nothing is ever "un-read" *)
Corollary dec_consumes_lengths : forall sizes fuel env t prev rs rs' a c,
  dec sizes fuel env t prev rs = Ok (rs', a) ->
  (length (br_rem (rc_br (rget rs' c))) <= length (br_rem (rc_br (rget rs c))))%nat /\
  (length (rc_bytes (rget rs' c)) <= length (rc_bytes (rget rs c)))%nat.
Proof.
  intros sizes fuel env t prev rs rs' a c H. apply dec_consumes in H.
  split; apply suffix_length; [apply (cs_bits _ _ H)|apply (cs_bytes _ _ H)].
Qed.
Print Assumptions dec_consumes_lengths.

(* ================================================================== (5) size of the result *)
(* "The number of nodes of the decoded wire tree is bounded by a linear function of the input
   available in the columns plus the size of the tree" is FALSE: an element type that consumes no
   input (a struct whose wire field count is 0: no mask bits, no presence bits, no fields) makes an
   array of n elements cost only the compact varint n.  What bounds n is the allocation counter:
   (2)+(1) give  (new elements) * elem_size <= record_alloc_limit  per record; elements that fit
   the array of the previous value are not accounted at all (they were accounted when that array
   grew, in an earlier record). *)
Fixpoint wire_size (a : wire) : N :=
  1 + match a with
      | WStruct _ _ fs => fold_right (fun f m => match f with Some x => wire_size x | None => 0 end + m) 0 fs
      | WDictFull s => wire_size s
      | WOneof _ (Some x) => wire_size x
      | WArr l => fold_right (fun x m => wire_size x + m) 0 l
      | WMapFull kvs => fold_right (fun kv m => wire_size (fst kv) + wire_size (snd kv) + m) 0 kvs
      | WMapVals _ l => fold_right (fun x m => wire_size x + m) 0 l
      | _ => 0
      end.

Fixpoint etree_size (t : etree) : N :=
  match t with
  | EStruct _ _ _ _ _ _ fts => 1 + fold_right (fun x m => etree_size x + m) 0 fts
  | EArr _ _ e => 1 + etree_size e
  | EMap _ _ k v => 1 + etree_size k + etree_size v
  | _ => 1
  end.

(* all the input a reader state holds: bits of the bit readers plus 8 * bytes, over all columns *)
Definition rst_input_bits (rs : rst) : N :=
  PM.fold (fun _ x acc => acc + N.of_nat (length (br_rem (rc_br x))) + 8 * N.of_nat (length (rc_bytes x)))
          (r_cols rs) 0.

(* array (column 1) of structs with no wire fields (column 2) *)
Definition zs_elem : etree := EStruct 2 0 false None 0 [] [].
Definition zs_tree : etree := EArr 1 KNone zs_elem.
Definition zs_rs (n : N) : rst :=
  rset rst0 1 (mkRcol (br_init (column_bytes (uvc_write_bits n))) [] u64_init f64_init).
Definition zs_sizes : N -> N := fun _ => 8.

(* 24 bits of input, a tree of 2 nodes: a wire tree of 10001 nodes; 160000 bytes accounted *)
Lemma zs_check : match dec zs_sizes 2 [] zs_tree RNil (zs_rs 10000) with
                 | Ok (rs', a) => wire_size a = 10001 /\ r_alloc rs' = 10000 * elem_size zs_sizes zs_elem
                 | Err _ => False end.
Proof. vm_compute. split; reflexivity. Qed.

Theorem dec_result_size_refuted : exists rs' a,
  dec zs_sizes 2 [] zs_tree RNil (zs_rs 10000) = Ok (rs', a) /\
  rst_input_bits (zs_rs 10000) = 24 /\ etree_size zs_tree = 2 /\
  wire_size a = 10001 /\ r_alloc rs' = 10000 * elem_size zs_sizes zs_elem.
Proof.
  pose proof zs_check as X.
  destruct (dec zs_sizes 2 [] zs_tree RNil (zs_rs 10000)) as [[rs' a]|e]; [|contradiction].
  exists rs', a. split; [reflexivity|]. split; [vm_compute; reflexivity|]. split; [vm_compute; reflexivity|exact X].
Qed.
Print Assumptions dec_result_size_refuted.

(* the same array decoded over a previous value that already has 10000 elements: nothing is
   accounted, the counter stays 0 *)
Definition zs_prev : rnode := RArr (repeat RNil (N.to_nat 10000)).

Lemma zs_check_prev : match dec zs_sizes 2 [] zs_tree zs_prev (zs_rs 10000) with
                      | Ok (rs', a) => wire_size a = 10001 /\ r_alloc rs' = 0
                      | Err _ => False end.
Proof. vm_compute. split; reflexivity. Qed.

Theorem dec_result_size_refuted_prev : exists rs' a,
  dec zs_sizes 2 [] zs_tree zs_prev (zs_rs 10000) = Ok (rs', a) /\ wire_size a = 10001 /\ r_alloc rs' = 0.
Proof.
  pose proof zs_check_prev as X.
  destruct (dec zs_sizes 2 [] zs_tree zs_prev (zs_rs 10000)) as [[rs' a]|e]; [|contradiction].
  exists rs', a. split; [reflexivity|exact X].
Qed.
Print Assumptions dec_result_size_refuted_prev.

(* the whole family: for EVERY n < 2^40 that the allocation counter admits, the compact varint of n
   (at most 56 bits) decodes to an array of n elements, whatever else the reader state holds *)
Lemma br_read_bits_0 : forall r, exists r', br_read_bits r 0 = (0, r') /\ br_err r' = br_err r.
Proof.
  intros r. eexists. split; [reflexivity|]. unfold br_peek, br_consume. cbn [br_err fst snd].
  change (0 <? N.of_nat 0) with false. cbn [andb]. apply orb_false_r.
Qed.

Lemma zero_struct_dec : forall sizes f env c2 sid p st, br_err (rc_br (rget st c2)) = false ->
  exists st', dec sizes (S f) env (EStruct c2 sid false None 0 [] []) p st = Ok (st', WStruct 0 0 []) /\
    (forall c, br_err (rc_br (rget st' c)) = br_err (rc_br (rget st c))) /\ r_alloc st' = r_alloc st.
Proof.
  intros sizes f env c2 sid p st He. rewrite dec_eq_struct. unfold dec_body.
  change (N.to_nat 0) with 0%nat. change (opt_count []) with 0%nat.
  destruct (br_read_bits_0 (rc_br (rget st c2))) as [r1 [E1 H1]]. rewrite E1.
  destruct (br_read_bits_0 r1) as [r2 [E2 H2]]. rewrite E2.
  rewrite dec_fields_nil by (left; reflexivity).
  assert (HC : forall c, br_err (rc_br (rget (rset_br st c2 r2) c)) = br_err (rc_br (rget st c))).
  { intros c. unfold rset_br. destruct (Pos.eq_dec c c2) as [->|N].
    - rewrite rget_rset_same. cbn [rc_br]. rewrite H2, H1. reflexivity.
    - rewrite rget_rset_other by assumption. reflexivity. }
  unfold col_err. rewrite HC, He. eexists. split; [reflexivity|]. split; [exact HC|reflexivity].
Qed.

Lemma run_S : forall (S R : Type) (step : S -> S + R) m s,
  run step (Datatypes.S m) s = match step s with inl s' => run step m s' | inr r => inr r end.
Proof. reflexivity. Qed.

Lemma zero_struct_run : forall sizes f env' c c2 sid k pe st acc,
  br_err (rc_br (rget st c)) = false -> br_err (rc_br (rget st c2)) = false ->
  exists st', run (dec_arr_step (dec sizes (S f)) env' (EStruct c2 sid false None 0 [] []) c) (S k)
                  (N.of_nat k, pe, st, acc)
              = inr (Ok (st', WArr (rev acc ++ repeat (WStruct 0 0 []) k))).
Proof.
  intros sizes f env' c c2 sid. induction k as [|k IH]; intros pe st acc Hc Hc2.
  - cbn [run]. unfold dec_arr_step. change (N.of_nat 0 =? 0) with true. cbv iota.
    unfold col_err. rewrite Hc. exists st. cbn [repeat]. rewrite app_nil_r. reflexivity.
  - rewrite run_S. unfold dec_arr_step at 1.
    destruct (N.eqb_spec (N.of_nat (S k)) 0) as [E|_]; [lia|]. cbn [resolve].
    destruct (zero_struct_dec sizes f env' c2 sid (hd RNil pe) st Hc2) as (st1 & E1 & E2 & _).
    rewrite E1. replace (N.of_nat (S k) - 1) with (N.of_nat k) by lia.
    destruct (IH (tl pe) st1 (WStruct 0 0 [] :: acc)) as [st' E'].
    + rewrite E2. exact Hc.
    + rewrite E2. exact Hc2.
    + exists st'. rewrite E'. cbn [rev repeat]. rewrite <- app_assoc. reflexivity.
Qed.

Theorem dec_zero_size_elems : forall sizes f env c kk c2 sid prev rs n rest,
  br_wf (rc_br (rget rs c)) -> br_rem (rc_br (rget rs c)) = uvc_write_bits n ++ rest ->
  br_err (rc_br (rget rs c2)) = false ->
  n < 2 ^ 40 ->
  r_alloc rs + (n - N.of_nat (length (prev_elems prev))) * (8 + sizes sid) <= record_alloc_limit ->
  exists rs', dec sizes (S (S f)) env (EArr c kk (EStruct c2 sid false None 0 [] [])) prev rs
              = Ok (rs', WArr (repeat (WStruct 0 0 []) (N.to_nat n))).
Proof.
  intros sizes f env c kk c2 sid prev rs n rest Hwf Hrem He2 Hn Hal.
  rewrite dec_eq_arr.
  destruct (uvc_roundtrip (rc_br (rget rs c)) n rest) as (r' & E1 & [W1 _] & _); [unfold two48; lia|assumption..|].
  rewrite E1. cbv zeta. change (elem_size sizes (EStruct c2 sid false None 0 [] [])) with (8 + sizes sid).
  replace (r_alloc (rset_br rs c r')) with (r_alloc rs) by reflexivity.
  set (grow := n - N.of_nat (length (prev_elems prev))) in *.
  replace ((0 <? grow) && (record_alloc_limit <? r_alloc rs + grow * (8 + sizes sid))) with false
    by (symmetry; apply andb_false_iff; right; apply N.ltb_ge; exact Hal).
  match goal with |- context [iter_pow loop_k ?step (n, ?pe, ?st, [])] =>
    destruct (zero_struct_run sizes f (push_env env (EArr c kk (EStruct c2 sid false None 0 [] []))) c c2 sid
                              (N.to_nat n) pe st []) as [st' ER] end.
  - unfold rget. cbn [r_cols]. fold (rget (rset_br rs c r') c). unfold rset_br. rewrite rget_rset_same. exact W1.
  - unfold rget. cbn [r_cols]. fold (rget (rset_br rs c r') c2). unfold rset_br.
    destruct (Pos.eq_dec c2 c) as [->|N]; [rewrite rget_rset_same; exact W1|rewrite rget_rset_other by assumption; exact He2].
  - rewrite N2Nat.id in ER. rewrite (iter_pow_loop_k _ _ _ _ ER); [exists st'; reflexivity|].
    change (2 ^ 40) with 1099511627776 in *. lia.
Qed.
Print Assumptions dec_zero_size_elems.

Lemma wire_size_zero_structs : forall k, wire_size (WArr (repeat (WStruct 0 0 []) k)) = 1 + N.of_nat k.
Proof.
  intros k. cbn [wire_size]. f_equal. induction k as [|k IH]; [reflexivity|].
  cbn [repeat fold_right]. rewrite IH. cbn [wire_size fold_right]. lia.
Qed.

(* ================================================================== extra: nesting depth *)
(* The nesting depth of the decoded wire tree is bounded by the fuel: one fuel unit per decoder
   level; a full dictionary struct is two wire levels (WDictFull (WStruct ..)) for one decoder.
   With (4) this is the "no hang" side of one record: [dec] is structurally recursive on [fuel],
   every inner loop runs over a list of the tree / previous value or a checked counter. *)
Lemma fold_max_le : forall A (g : A -> nat) l m, Forall (fun x => (g x <= m)%nat) l ->
  (fold_right (fun x r => Nat.max (g x) r) 0%nat l <= m)%nat.
Proof.
  intros A g l m H. induction H as [|x l Hx _ IH]; cbn [fold_right]; [lia|]. apply Nat.max_lub; assumption.
Qed.

Definition hopt (f : option wire) : nat := match f with Some x => height x | None => 0%nat end.
Definition hkv (kv : wire * wire) : nat := Nat.max (height (fst kv)) (height (snd kv)).

Lemma Forall_snoc : forall A (P : A -> Prop) l x, Forall P l -> P x -> Forall P (l ++ [x]).
Proof. intros. apply Forall_app. split; [assumption|constructor; [assumption|constructor]]. Qed.

Section HeightLoops.
  Variable D : renv -> etree -> rnode -> rst -> res (rst * wire).
  Variable m : nat.
  Hypothesis HD : forall env t p s s' w, D env t p s = Ok (s', w) -> (height w <= m)%nat.

  Lemma fields_h : forall env' prev mask present fts opts i oi pf st acc st' fs,
    dec_fields D env' prev mask present i oi fts opts pf st acc = Ok (st', fs) ->
    Forall (fun f => (hopt f <= m)%nat) acc -> Forall (fun f => (hopt f <= m)%nat) fs.
  Proof.
    intros env' prev mask present. induction fts as [|ft fts IH]; intros opts i oi pf st acc st' fs H HA.
    - rewrite dec_fields_nil in H by (left; reflexivity). inversion H; subst. exact HA.
    - destruct opts as [|o opts].
      + rewrite dec_fields_nil in H by (right; reflexivity). inversion H; subst. exact HA.
      + rewrite dec_fields_cons in H. cbv zeta in H.
        destruct (N.testbit mask i && (negb o || N.testbit present oi)).
        * destruct (D env' (resolve env' ft) _ st) as [[st1 w]|e] eqn:E; [|discriminate].
          destruct (negb o && is_nil_ref w); [discriminate|].
          eapply IH; [exact H|]. apply Forall_snoc; [exact HA|]. cbn [hopt]. eapply HD; exact E.
        * eapply IH; [exact H|]. apply Forall_snoc; [exact HA|]. cbn [hopt]. lia.
  Qed.

  Lemma body_h : forall prev c fc opts fts env' st st' w,
    dec_body D prev c fc opts fts env' st = Ok (st', w) -> (height w <= S m)%nat.
  Proof.
    intros prev c fc opts fts env' st st' w H. unfold dec_body in H.
    destruct (br_read_bits (rc_br (rget st c)) (N.to_nat fc)) as [mask r1].
    destruct (br_read_bits r1 (opt_count opts)) as [present r2].
    destruct (dec_fields D env' prev mask present 0 0 fts opts (prev_fields prev) (rset_br st c r2) [])
      as [[st1 fs]|e] eqn:EF; [|discriminate].
    destruct (col_err st1 c); [discriminate|]. inversion H; subst.
    cbn [height]. apply le_n_S. apply (fold_max_le _ hopt).
    apply (fields_h _ _ _ _ _ _ _ _ _ _ _ _ _ EF). constructor.
  Qed.

  Lemma arr_h : forall env' et c n k pe st acc st' w,
    run (dec_arr_step D env' et c) n (k, pe, st, acc) = inr (Ok (st', w)) ->
    Forall (fun x => (height x <= m)%nat) acc -> (height w <= S m)%nat.
  Proof.
    intros env' et c. induction n as [|n IH]; intros k pe st acc st' w H HA; [discriminate|].
    rewrite run_S in H. unfold dec_arr_step at 1 in H.
    destruct (k =? 0).
    - destruct (col_err st c); inversion H; subst. cbn [height]. apply le_n_S. apply (fold_max_le _ height).
      apply Forall_rev. exact HA.
    - destruct (D env' (resolve env' et) (hd RNil pe) st) as [[st1 w1]|e] eqn:E; [|discriminate].
      eapply IH; [exact H|]. constructor; [eapply HD; exact E|exact HA].
  Qed.

  Lemma vals_h : forall env' vt changed pk i st acc st' w,
    dec_vals D env' vt changed i pk st acc = Ok (st', w) ->
    Forall (fun x => (height x <= m)%nat) acc -> (height w <= S m)%nat.
  Proof.
    intros env' vt changed. induction pk as [|[pkk pv] pk IH]; intros i st acc st' w H HA; cbn [dec_vals] in H.
    - inversion H; subst. cbn [height]. apply le_n_S. apply (fold_max_le _ height). exact HA.
    - destruct ((i <? 64) && N.testbit changed i).
      + destruct (D env' (resolve env' vt) pv st) as [[st1 w1]|e] eqn:E; [|discriminate].
        eapply IH; [exact H|]. apply Forall_snoc; [exact HA|eapply HD; exact E].
      + eapply IH; eassumption.
  Qed.

  Lemma full_h : forall env' kt vt k pk st acc st' w,
    dec_full D env' kt vt k pk st acc = Ok (st', w) ->
    Forall (fun kv => (hkv kv <= m)%nat) acc -> (height w <= S m)%nat.
  Proof.
    intros env' kt vt. induction k as [|k IH]; intros pk st acc st' w H HA; cbn [dec_full] in H.
    - inversion H; subst. cbn [height]. apply le_n_S. apply (fold_max_le _ hkv). exact HA.
    - destruct (hd (RNil, RNil) pk) as [pkk pv].
      destruct (D env' (resolve env' kt) pkk st) as [[st1 wk]|e] eqn:E1; [|discriminate].
      destruct (D env' (resolve env' vt) pv st1) as [[st2 wv]|e] eqn:E2; [|discriminate].
      eapply IH; [exact H|]. apply Forall_snoc; [exact HA|]. unfold hkv. cbn [fst snd].
      apply Nat.max_lub; eapply HD; eassumption.
  Qed.
End HeightLoops.

Theorem dec_depth_bounded : forall sizes fuel env t prev rs rs' a,
  dec sizes fuel env t prev rs = Ok (rs', a) -> (height a <= 2 * fuel)%nat.
Proof.
  intros sizes. induction fuel as [|f IH]; intros env t prev st st' w H; [discriminate|].
  destruct t as [c p d|c sid oneof d fc opts fts|c k et|c mid kt vt|k|].
  - rewrite dec_eq_prim in H. apply dec_prim_leaf in H. destruct w; try discriminate; cbn [height]; lia.
  - destruct oneof.
    + rewrite dec_eq_oneof in H.
      destruct (br_read_bits (rc_br (rget st c)) (oneof_bits fc)) as [tag r1]. cbv zeta in H.
      destruct (fc + 1 <=? tag); [discriminate|]. destruct (br_err r1); [discriminate|].
      destruct (tag =? 0); [inversion H; subst; cbn [height]; lia|].
      destruct (dec sizes f _ _ _ (rset_br st c r1)) as [[st1 w1]|e] eqn:E; [|discriminate].
      inversion H; subst. cbn [height]. apply IH in E. lia.
    + destruct d as [dn|].
      * rewrite dec_eq_dict in H.
        destruct (br_read_bits (rc_br (rget st c)) 1) as [flag r1].
        destruct (flag =? 0).
        -- destruct (br_read_uvc r1) as [ref r2]. cbv zeta in H.
           destruct (r_tl (rset_br st c r2) dn <=? ref); [discriminate|].
           destruct (br_err r2); [discriminate|]. inversion H; subst. cbn [height]. lia.
        -- cbv zeta in H.
           destruct (dec_body (dec sizes f) prev c fc opts fts _ (rset_br st c r1)) as [[st1 w1]|e] eqn:E; [|discriminate].
           inversion H; subst. cbn [height]. apply (body_h _ (2 * f) (IH)) in E. lia.
      * rewrite dec_eq_struct in H. apply (body_h _ (2 * f) (IH)) in H. lia.
  - rewrite dec_eq_arr in H.
    destruct (br_read_uvc (rc_br (rget st c))) as [n r1]. cbv zeta in H.
    match type of H with (if ?b then _ else _) = _ => destruct b; [discriminate|] end.
    match type of H with match iter_pow _ ?step ?s with _ => _ end = _ =>
      destruct (iter_pow loop_k step s) as [s'|r] eqn:EI; [discriminate|] end.
    subst r. rewrite iter_pow_run in EI. apply (arr_h _ (2 * f) (IH)) in EI; [lia|constructor].
  - rewrite dec_eq_map in H. cbv zeta in H.
    destruct (leb_dec (rc_bytes (rget st c))) as [[hdr rest]|]; [|discriminate].
    destruct (hdr =? 0); [inversion H; subst; cbn [height fold_right]; lia|].
    destruct (N.even hdr).
    + apply (vals_h _ (2 * f) (IH)) in H; [lia|constructor].
    + destruct (multimap_limit <=? hdr / 2); [discriminate|].
      apply (full_h _ (2 * f) (IH)) in H; [lia|constructor].
  - discriminate.
  - discriminate.
Qed.
Print Assumptions dec_depth_bounded.
