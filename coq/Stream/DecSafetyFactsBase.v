(* Building blocks of the decoder safety facts (DecSafetyFacts.v), for ARBITRARY reader states:
   1. suffixes: every primitive read (bits, compact varint, LEB128, codecs) leaves a suffix of
      its input;
   2. [consumes]: the reader-state relation "only consumes input, dictionaries only grow";
   3. the struct-field loop of [dec] with the nil-reference test as a boolean;
   4. a generic lifting principle: a reflexive transitive relation on reader states that holds for
      every primitive step of [dec] holds for [dec] (induction on fuel through all inner loops). *)
From Coq Require Import List NArith ZArith Bool PArith Lia FMapPositive Arith.
From Coq Require Import ZifyN ZifyNat ZifyBool.
From Stef Require Import Bits BitsFacts BitIO BitIOFacts Varint VarintFacts Codecs CodecFacts Schema
     Wire WireOk WireFactsBase.
Import ListNotations.
Open Scope N_scope.

(* ------------------------------------------------------------------ 1. suffixes *)
Definition suffix {A : Type} (s l : list A) : Prop := exists pre, l = pre ++ s.

Lemma suffix_refl : forall A (l : list A), suffix l l.
Proof. intros. exists []. reflexivity. Qed.

Lemma suffix_trans : forall A (a b c : list A), suffix a b -> suffix b c -> suffix a c.
Proof. intros A a b c [p Hp] [q Hq]. exists (q ++ p). rewrite Hq, Hp, app_assoc. reflexivity. Qed.

Lemma suffix_skipn : forall A n (l : list A), suffix (skipn n l) l.
Proof. intros. exists (firstn n l). symmetry. apply firstn_skipn. Qed.

Lemma suffix_cons : forall A (x : A) l, suffix l (x :: l).
Proof. intros. exists [x]. reflexivity. Qed.

Lemma suffix_length : forall A (s l : list A), suffix s l -> (length s <= length l)%nat.
Proof. intros A s l [p Hp]. subst l. rewrite app_length. lia. Qed.

(* bit reader *)
Lemma br_peek_rem : forall r n, br_rem (snd (br_peek r n)) = br_rem r.
Proof. reflexivity. Qed.

Lemma br_peek_eq : forall r n v r1, br_peek r n = (v, r1) -> br_rem r1 = br_rem r.
Proof. intros r n v r1 H. unfold br_peek in H. inversion H; subst. reflexivity. Qed.

Lemma br_consume_suffix : forall r n, suffix (br_rem (br_consume r n)) (br_rem r).
Proof. intros. unfold br_consume. cbn [br_rem]. apply suffix_skipn. Qed.

Lemma br_read_bits_suffix : forall r n v r', br_read_bits r n = (v, r') -> suffix (br_rem r') (br_rem r).
Proof.
  intros r n v r' H. unfold br_read_bits in H.
  destruct (n <=? 56)%nat.
  - destruct (br_peek r n) as [v1 r1] eqn:E1. apply br_peek_eq in E1. inversion H; subst.
    rewrite <- E1. apply br_consume_suffix.
  - destruct (br_peek r 56) as [hi r1] eqn:E1. apply br_peek_eq in E1.
    destruct (br_peek (br_consume r1 56) (n - 56)) as [lo r3] eqn:E3. apply br_peek_eq in E3.
    inversion H; subst. eapply suffix_trans; [apply br_consume_suffix|]. rewrite E3, <- E1.
    apply br_consume_suffix.
Qed.

Lemma br_read_bit_suffix : forall r b r', br_read_bit r = (b, r') -> suffix (br_rem r') (br_rem r).
Proof.
  intros r b r' H. unfold br_read_bit in H. destruct (br_read_bits r 1) as [v r1] eqn:E.
  inversion H; subst. eapply br_read_bits_suffix; eassumption.
Qed.

Lemma br_read_uvc_suffix : forall r v r', br_read_uvc r = (v, r') -> suffix (br_rem r') (br_rem r).
Proof.
  intros r v r' H. unfold br_read_uvc, br_peek, br_consume in H. inversion H; subst. cbn [br_rem].
  apply suffix_skipn.
Qed.

Lemma f64_decode_suffix : forall s r s' v r', f64_decode s r = (s', v, r') -> suffix (br_rem r') (br_rem r).
Proof.
  intros s r s' v r' H. unfold f64_decode in H.
  destruct (br_peek r 13) as [hdr r0] eqn:EP.
  assert (E0 : br_rem r0 = br_rem r) by (unfold br_peek in EP; inversion EP; reflexivity).
  destruct (N.testbit hdr 12).
  - destruct (N.testbit hdr 11).
    + destruct (br_read_bits (br_consume r0 13) _) as [xv r2] eqn:ER. inversion H; subst.
      apply br_read_bits_suffix in ER. eapply suffix_trans; [exact ER|].
      unfold br_consume. cbn [br_rem]. rewrite E0. apply suffix_skipn.
    + destruct (br_read_bits (br_consume r0 2) _) as [xv r2] eqn:ER. inversion H; subst.
      apply br_read_bits_suffix in ER. eapply suffix_trans; [exact ER|].
      unfold br_consume. cbn [br_rem]. rewrite E0. apply suffix_skipn.
  - inversion H; subst. unfold br_consume. cbn [br_rem]. rewrite E0. apply suffix_skipn.
Qed.

(* byte reader *)
Lemma leb_dec_loop_suffix : forall fuel i x s l v r,
  leb_dec_loop fuel i x s l = Some (v, r) -> suffix r l.
Proof.
  induction fuel as [|f IH]; intros i x s l v r H; [discriminate|].
  cbn [leb_dec_loop] in H. destruct l as [|b l']; [discriminate|].
  destruct (Nat.eqb i 10); [discriminate|].
  destruct (b <? 128).
  - destruct ((Nat.eqb i 9) && (1 <? b))%bool; [discriminate|]. inversion H; subst. apply suffix_cons.
  - apply IH in H. eapply suffix_trans; [exact H|apply suffix_cons].
Qed.

Lemma leb_dec_suffix : forall l v r, leb_dec l = Some (v, r) -> suffix r l.
Proof. intros l v r H. unfold leb_dec in H. eapply leb_dec_loop_suffix; eassumption. Qed.

Lemma leb_dec_shorter : forall l v r, leb_dec l = Some (v, r) -> (length r < length l)%nat.
Proof.
  assert (G : forall fuel i x s l v r, leb_dec_loop fuel i x s l = Some (v, r) -> (length r < length l)%nat).
  { induction fuel as [|f IH]; intros i x s l v r H; [discriminate|].
    cbn [leb_dec_loop] in H. destruct l as [|b l']; [discriminate|].
    destruct (Nat.eqb i 10); [discriminate|].
    destruct (b <? 128).
    - destruct ((Nat.eqb i 9) && (1 <? b))%bool; [discriminate|]. inversion H; subst. cbn. lia.
    - apply IH in H. cbn [length]. lia. }
  intros l v r H. unfold leb_dec in H. eapply G; eassumption.
Qed.

Lemma varint_dec_suffix : forall l v r, varint_dec l = Some (v, r) -> suffix r l.
Proof.
  intros l v r H. unfold varint_dec in H. destruct (leb_dec l) as [[u r0]|] eqn:E; [|discriminate].
  inversion H; subst. eapply leb_dec_suffix; eassumption.
Qed.

Lemma u64_decode_suffix : forall s l s' v r, u64_decode s l = Some (s', v, r) -> suffix r l.
Proof.
  intros s l s' v r H. unfold u64_decode in H. destruct (varint_dec l) as [[x r0]|] eqn:E; [|discriminate].
  inversion H; subst. eapply varint_dec_suffix; eassumption.
Qed.

Lemma i64_decode_suffix : forall s l s' v r, i64_decode s l = Some (s', v, r) -> suffix r l.
Proof.
  intros s l s' v r H. unfold i64_decode in H. destruct (u64_decode s l) as [[[s0 v0] r0]|] eqn:E; [|discriminate].
  inversion H; subst. eapply u64_decode_suffix; eassumption.
Qed.

Lemma str_decode_suffix : forall l v r, str_decode l = inr (v, r) -> suffix r l.
Proof.
  intros l v r H. unfold str_decode in H. destruct (varint_dec l) as [[x r0]|] eqn:E; [|discriminate].
  destruct (0 <=? x)%Z; [|discriminate]. destruct (x <=? Z.of_nat (length r0))%Z; [|discriminate].
  inversion H; subst. eapply suffix_trans; [apply suffix_skipn|]. eapply varint_dec_suffix; eassumption.
Qed.

(* the string dictionary is only ever extended at the end *)
Lemma strdict_decode_suffix : forall d l d' v r, strdict_decode d l = inr (d', v, r) ->
  suffix r l /\ exists ext, d' = d ++ ext.
Proof.
  intros d l d' v r H. unfold strdict_decode in H. destruct (varint_dec l) as [[x r0]|] eqn:E; [|discriminate].
  apply varint_dec_suffix in E.
  destruct (0 <=? x)%Z.
  - destruct (x <=? Z.of_nat (length r0))%Z; [|discriminate]. inversion H; subst. split.
    + eapply suffix_trans; [apply suffix_skipn|exact E].
    + destruct (1 <? Z.to_nat x)%nat; [eexists; reflexivity|exists []; rewrite app_nil_r; reflexivity].
  - destruct (- x - 1 <? Z.of_nat (length d))%Z; [|discriminate].
    destruct (nth_error d (Z.to_nat (- x - 1))); [|discriminate]. inversion H; subst. split; [exact E|].
    exists []. rewrite app_nil_r. reflexivity.
Qed.

(* ------------------------------------------------------------------ 2. [consumes] *)
(* [rs'] is [rs] after consuming input: in every column the remaining bits (bytes) are a suffix
   of what remained before; a string dictionary keeps its entries and may get new ones at the end;
   the length of a struct dictionary does not decrease.  (The allocation counter and the codec
   states are not constrained.) *)
Record consumes (rs rs' : rst) : Prop := {
  cs_bits : forall c, suffix (br_rem (rc_br (rget rs' c))) (br_rem (rc_br (rget rs c)));
  cs_bytes : forall c, suffix (rc_bytes (rget rs' c)) (rc_bytes (rget rs c));
  cs_sdict : forall d, exists ext, r_sd rs' d = r_sd rs d ++ ext;
  cs_tlen : forall d, r_tl rs d <= r_tl rs' d
}.

Lemma consumes_refl : forall rs, consumes rs rs.
Proof.
  intros rs. constructor; intros.
  - apply suffix_refl.
  - apply suffix_refl.
  - exists []. rewrite app_nil_r. reflexivity.
  - lia.
Qed.

Lemma consumes_trans : forall a b c, consumes a b -> consumes b c -> consumes a c.
Proof.
  intros a b c H1 H2. constructor; intros x.
  - eapply suffix_trans; [apply (cs_bits _ _ H2)|apply (cs_bits _ _ H1)].
  - eapply suffix_trans; [apply (cs_bytes _ _ H2)|apply (cs_bytes _ _ H1)].
  - destruct (cs_sdict _ _ H1 x) as [e1 E1]. destruct (cs_sdict _ _ H2 x) as [e2 E2].
    exists (e1 ++ e2). rewrite E2, E1, app_assoc. reflexivity.
  - pose proof (cs_tlen _ _ H1 x). pose proof (cs_tlen _ _ H2 x). lia.
Qed.

(* one column replaced by a column that holds suffixes *)
Lemma consumes_rset : forall st c y,
  suffix (br_rem (rc_br y)) (br_rem (rc_br (rget st c))) ->
  suffix (rc_bytes y) (rc_bytes (rget st c)) ->
  consumes st (rset st c y).
Proof.
  intros st c y Hb Hy. constructor; intros x.
  - destruct (Pos.eq_dec x c) as [->|N].
    + rewrite rget_rset_same. exact Hb.
    + rewrite rget_rset_other by assumption. apply suffix_refl.
  - destruct (Pos.eq_dec x c) as [->|N].
    + rewrite rget_rset_same. exact Hy.
    + rewrite rget_rset_other by assumption. apply suffix_refl.
  - exists []. rewrite app_nil_r. reflexivity.
  - unfold r_tl, rset. cbn [r_tlen]. lia.
Qed.

Lemma consumes_rset_br : forall st c r, suffix (br_rem r) (br_rem (rc_br (rget st c))) ->
  consumes st (rset_br st c r).
Proof. intros st c r H. unfold rset_br. apply consumes_rset; [exact H|apply suffix_refl]. Qed.

Lemma consumes_rset_bytes : forall st c rest u f, suffix rest (rc_bytes (rget st c)) ->
  consumes st (rset st c (mkRcol (rc_br (rget st c)) rest u f)).
Proof. intros st c rest u f H. apply consumes_rset; [apply suffix_refl|exact H]. Qed.

(* only the columns, dictionaries and dictionary lengths matter *)
Lemma consumes_alloc : forall st al, consumes st (mkRst (r_cols st) (r_sdict st) (r_tlen st) al).
Proof.
  intros st al. constructor; intros x.
  - apply suffix_refl.
  - apply suffix_refl.
  - exists []. rewrite app_nil_r. reflexivity.
  - unfold r_tl. cbn [r_tlen]. lia.
Qed.

Lemma consumes_sdict : forall st dn d' al, (exists ext, d' = r_sd st dn ++ ext) ->
  consumes st (mkRst (r_cols st) (PM.add (dk dn) d' (r_sdict st)) (r_tlen st) al).
Proof.
  intros st dn d' al [ext He]. constructor; intros x.
  - apply suffix_refl.
  - apply suffix_refl.
  - unfold r_sd at 1. cbn [r_sdict]. destruct (N.eq_dec x dn) as [->|N].
    + rewrite PM.gss. exists ext. exact He.
    + rewrite PM.gso by (intro E; apply N; apply dk_inj; exact E). exists []. rewrite app_nil_r. reflexivity.
  - unfold r_tl. cbn [r_tlen]. lia.
Qed.

Lemma consumes_tlen : forall st dn n al, r_tl st dn <= n ->
  consumes st (mkRst (r_cols st) (r_sdict st) (PM.add (dk dn) n (r_tlen st)) al).
Proof.
  intros st dn n al Hn. constructor; intros x.
  - apply suffix_refl.
  - apply suffix_refl.
  - exists []. rewrite app_nil_r. reflexivity.
  - unfold r_tl at 2. cbn [r_tlen]. destruct (N.eq_dec x dn) as [->|N].
    + rewrite PM.gss. exact Hn.
    + rewrite PM.gso by (intro E; apply N; apply dk_inj; exact E). unfold r_tl. lia.
Qed.

Lemma consumes_prim : forall st c p d st' w, dec_prim st c p d = Ok (st', w) -> consumes st st'.
Proof.
  intros st c p d st' w H. unfold dec_prim in H. cbv zeta in H. destruct p.
  - destruct (bool_decode (rc_br (rget st c))) as [b r] eqn:E. destruct (br_err r); [discriminate|].
    inversion H; subst. apply consumes_rset; cbn [rc_br rc_bytes]; [|apply suffix_refl].
    unfold bool_decode in E. eapply br_read_bit_suffix; eassumption.
  - destruct (i64_decode (rc_u (rget st c)) (rc_bytes (rget st c))) as [[[s' v] rest]|] eqn:E; [|discriminate].
    inversion H; subst. apply consumes_rset_bytes. eapply i64_decode_suffix; eassumption.
  - destruct (u64_decode (rc_u (rget st c)) (rc_bytes (rget st c))) as [[[s' v] rest]|] eqn:E; [|discriminate].
    inversion H; subst. apply consumes_rset_bytes. eapply u64_decode_suffix; eassumption.
  - destruct (f64_decode (rc_f (rget st c)) (rc_br (rget st c))) as [[s' v] r] eqn:E.
    destruct (br_err r); [discriminate|]. inversion H; subst.
    apply consumes_rset; cbn [rc_br rc_bytes]; [|apply suffix_refl]. eapply f64_decode_suffix; eassumption.
  - destruct d as [dn|].
    + destruct (strdict_decode (r_sd st dn) (rc_bytes (rget st c))) as [e|[[d' v] rest]] eqn:E; [discriminate|].
      inversion H; subst. apply strdict_decode_suffix in E. destruct E as [E1 E2].
      eapply consumes_trans; [apply consumes_rset_bytes; exact E1|].
      apply (consumes_sdict (rset st c _) dn d'). exact E2.
    + destruct (str_decode (rc_bytes (rget st c))) as [e|[v rest]] eqn:E; [discriminate|].
      inversion H; subst. apply consumes_rset_bytes. eapply str_decode_suffix; eassumption.
  - destruct d as [dn|].
    + destruct (strdict_decode (r_sd st dn) (rc_bytes (rget st c))) as [e|[[d' v] rest]] eqn:E; [discriminate|].
      inversion H; subst. apply strdict_decode_suffix in E. destruct E as [E1 E2].
      eapply consumes_trans; [apply consumes_rset_bytes; exact E1|].
      apply (consumes_sdict (rset st c _) dn d'). exact E2.
    + destruct (str_decode (rc_bytes (rget st c))) as [e|[v rest]] eqn:E; [discriminate|].
      inversion H; subst. apply consumes_rset_bytes. eapply str_decode_suffix; eassumption.
Qed.

(* a primitive decode leaves the allocation counter alone *)
Lemma dec_prim_alloc : forall st c p d st' w, dec_prim st c p d = Ok (st', w) -> r_alloc st' = r_alloc st.
Proof.
  intros st c p d st' w H. unfold dec_prim in H. cbv zeta in H. destruct p.
  - destruct (bool_decode (rc_br (rget st c))) as [b r]. destruct (br_err r); [discriminate|].
    inversion H; subst. reflexivity.
  - destruct (i64_decode _ _) as [[[s' v] rest]|]; [|discriminate]. inversion H; subst. reflexivity.
  - destruct (u64_decode _ _) as [[[s' v] rest]|]; [|discriminate]. inversion H; subst. reflexivity.
  - destruct (f64_decode _ _) as [[s' v] r]. destruct (br_err r); [discriminate|]. inversion H; subst. reflexivity.
  - destruct d as [dn|].
    + destruct (strdict_decode _ _) as [e|[[d' v] rest]]; [discriminate|]. inversion H; subst. reflexivity.
    + destruct (str_decode _) as [e|[v rest]]; [discriminate|]. inversion H; subst. reflexivity.
  - destruct d as [dn|].
    + destruct (strdict_decode _ _) as [e|[[d' v] rest]]; [discriminate|]. inversion H; subst. reflexivity.
    + destruct (str_decode _) as [e|[v rest]]; [discriminate|]. inversion H; subst. reflexivity.
Qed.

(* the wire tree of a primitive is a leaf *)
Definition is_leaf (w : wire) : bool :=
  match w with WBool _ | WU64 _ | WI64 _ | WF64 _ | WStr _ => true | _ => false end.

Lemma dec_prim_leaf : forall st c p d st' w, dec_prim st c p d = Ok (st', w) -> is_leaf w = true.
Proof.
  intros st c p d st' w H. unfold dec_prim in H. cbv zeta in H. destruct p.
  - destruct (bool_decode (rc_br (rget st c))) as [b r]. destruct (br_err r); [discriminate|].
    inversion H; subst. reflexivity.
  - destruct (i64_decode _ _) as [[[s' v] rest]|]; [|discriminate]. inversion H; subst. reflexivity.
  - destruct (u64_decode _ _) as [[[s' v] rest]|]; [|discriminate]. inversion H; subst. reflexivity.
  - destruct (f64_decode _ _) as [[s' v] r]. destruct (br_err r); [discriminate|]. inversion H; subst. reflexivity.
  - destruct d as [dn|].
    + destruct (strdict_decode _ _) as [e|[[d' v] rest]]; [discriminate|]. inversion H; subst. reflexivity.
    + destruct (str_decode _) as [e|[v rest]]; [discriminate|]. inversion H; subst. reflexivity.
  - destruct d as [dn|].
    + destruct (strdict_decode _ _) as [e|[[d' v] rest]]; [discriminate|]. inversion H; subst. reflexivity.
    + destruct (str_decode _) as [e|[v rest]]; [discriminate|]. inversion H; subst. reflexivity.
Qed.

(* ------------------------------------------------------------------ 3. the field loop *)
(* the nil entry of a struct dictionary: [WDictRef 0] *)
Definition is_nil_ref (w : wire) : bool := match w with WDictRef 0 => true | _ => false end.

Lemma nil_ref_match : forall (A : Type) (w : wire) (o : bool) (x y : A),
  match w with WDictRef 0 => if o then x else y | _ => x end = if negb o && is_nil_ref w then y else x.
Proof.
  intros A w o x y. destruct w as [| | | | | | ref | | | | |]; try (destruct o; reflexivity).
  destruct ref; destruct o; reflexivity.
Qed.

Lemma dec_fields_nil : forall D env' prev mask present i oi fts opts pf st acc,
  fts = [] \/ opts = [] ->
  dec_fields D env' prev mask present i oi fts opts pf st acc = Ok (st, acc).
Proof. intros. destruct fts; [reflexivity|]. destruct opts; [reflexivity|]. destruct H; discriminate. Qed.

Lemma dec_fields_cons : forall D env' prev mask present i oi ft fts o opts pf st acc,
  dec_fields D env' prev mask present i oi (ft :: fts) (o :: opts) pf st acc =
  let oi' := if o then oi + 1 else oi in
  if N.testbit mask i && (negb o || N.testbit present oi) then
    match D env' (resolve env' ft)
            (if o && negb (N.testbit (prev_present prev) oi) then RNil else hd RNil pf) st with
    | Err e => Err e
    | Ok (st', w) =>
      if negb o && is_nil_ref w then Err EInvalid
      else dec_fields D env' prev mask present (i + 1) oi' fts opts (tl pf) st' (acc ++ [Some w])
    end
  else dec_fields D env' prev mask present (i + 1) oi' fts opts (tl pf) st (acc ++ [None]).
Proof.
  intros. cbn [dec_fields]. cbv zeta.
  destruct (N.testbit mask i && (negb o || N.testbit present oi)); [|reflexivity].
  destruct (D env' (resolve env' ft) _ st) as [[st' w]|e]; [|reflexivity].
  apply nil_ref_match.
Qed.

(* ------------------------------------------------------------------ 4. lifting a state relation *)
Section StateRel.
  Variable sizes : N -> N.
  Variable R : rst -> rst -> Prop.
  Hypothesis R_refl : forall s, R s s.
  Hypothesis R_trans : forall a b c, R a b -> R b c -> R a c.
  Hypothesis R_prim : forall st c p d st' w, dec_prim st c p d = Ok (st', w) -> R st st'.
  Hypothesis R_br : forall st c r, suffix (br_rem r) (br_rem (rc_br (rget st c))) -> R st (rset_br st c r).
  Hypothesis R_bytes : forall st c rest, suffix rest (rc_bytes (rget st c)) ->
    R st (rset st c (mkRcol (rc_br (rget st c)) rest (rc_u (rget st c)) (rc_f (rget st c)))).
  Hypothesis R_tlen : forall st dn,
    R st (mkRst (r_cols st) (r_sdict st) (PM.add (dk dn) (r_tl st dn + 1) (r_tlen st)) (r_alloc st)).
  Hypothesis R_alloc : forall st al, r_alloc st <= al -> (al = r_alloc st \/ al <= record_alloc_limit) ->
    R st (mkRst (r_cols st) (r_sdict st) (r_tlen st) al).

  Section Loops.
    Variable D : renv -> etree -> rnode -> rst -> res (rst * wire).
    Hypothesis HD : forall env t p s s' w, D env t p s = Ok (s', w) -> R s s'.

    Lemma fields_R : forall env' prev mask present fts opts i oi pf st acc st' fs,
      dec_fields D env' prev mask present i oi fts opts pf st acc = Ok (st', fs) -> R st st'.
    Proof.
      intros env' prev mask present. induction fts as [|ft fts IH]; intros opts i oi pf st acc st' fs H.
      - rewrite dec_fields_nil in H by (left; reflexivity). inversion H; subst. apply R_refl.
      - destruct opts as [|o opts].
        + rewrite dec_fields_nil in H by (right; reflexivity). inversion H; subst. apply R_refl.
        + rewrite dec_fields_cons in H. cbv zeta in H.
          destruct (N.testbit mask i && (negb o || N.testbit present oi)).
          * destruct (D env' (resolve env' ft) _ st) as [[st1 w]|e] eqn:E; [|discriminate].
            destruct (negb o && is_nil_ref w); [discriminate|].
            eapply R_trans; [eapply HD; exact E|eapply IH; exact H].
          * eapply IH; exact H.
    Qed.

    Lemma body_R : forall prev c fc opts fts env' st st' w,
      dec_body D prev c fc opts fts env' st = Ok (st', w) -> R st st'.
    Proof.
      intros prev c fc opts fts env' st st' w H. unfold dec_body in H.
      destruct (br_read_bits (rc_br (rget st c)) (N.to_nat fc)) as [mask r1] eqn:E1.
      destruct (br_read_bits r1 (opt_count opts)) as [present r2] eqn:E2.
      destruct (dec_fields D env' prev mask present 0 0 fts opts (prev_fields prev) (rset_br st c r2) [])
        as [[st1 fs]|e] eqn:EF; [|discriminate].
      destruct (col_err st1 c); [discriminate|]. inversion H; subst.
      eapply R_trans; [|eapply fields_R; exact EF].
      apply R_br. eapply suffix_trans; eapply br_read_bits_suffix; eassumption.
    Qed.

    Lemma arr_R : forall env' et c m k pe st acc st' w,
      run (dec_arr_step D env' et c) m (k, pe, st, acc) = inr (Ok (st', w)) -> R st st'.
    Proof.
      intros env' et c. induction m as [|m IH]; intros k pe st acc st' w H; [discriminate|].
      cbn [run] in H. unfold dec_arr_step at 1 in H.
      destruct (k =? 0).
      - destruct (col_err st c); inversion H; subst. apply R_refl.
      - destruct (D env' (resolve env' et) (hd RNil pe) st) as [[st1 w1]|e] eqn:E; [|discriminate].
        eapply R_trans; [eapply HD; exact E|eapply IH; exact H].
    Qed.

    Lemma vals_R : forall env' vt changed pk i st acc st' w,
      dec_vals D env' vt changed i pk st acc = Ok (st', w) -> R st st'.
    Proof.
      intros env' vt changed. induction pk as [|[pkk pv] pk IH]; intros i st acc st' w H; cbn [dec_vals] in H.
      - inversion H; subst. apply R_refl.
      - destruct ((i <? 64) && N.testbit changed i).
        + destruct (D env' (resolve env' vt) pv st) as [[st1 w1]|e] eqn:E; [|discriminate].
          eapply R_trans; [eapply HD; exact E|eapply IH; exact H].
        + eapply IH; exact H.
    Qed.

    Lemma full_R : forall env' kt vt k pk st acc st' w,
      dec_full D env' kt vt k pk st acc = Ok (st', w) -> R st st'.
    Proof.
      intros env' kt vt. induction k as [|k IH]; intros pk st acc st' w H; cbn [dec_full] in H.
      - inversion H; subst. apply R_refl.
      - destruct (hd (RNil, RNil) pk) as [pkk pv].
        destruct (D env' (resolve env' kt) pkk st) as [[st1 wk]|e] eqn:E1; [|discriminate].
        destruct (D env' (resolve env' vt) pv st1) as [[st2 wv]|e] eqn:E2; [|discriminate].
        eapply R_trans; [eapply HD; exact E1|]. eapply R_trans; [eapply HD; exact E2|eapply IH; exact H].
    Qed.
  End Loops.

  Theorem dec_R : forall fuel env t prev st st' w,
    dec sizes fuel env t prev st = Ok (st', w) -> R st st'.
  Proof.
    induction fuel as [|f IH]; intros env t prev st st' w H; [discriminate|].
    destruct t as [c p d|c sid oneof d fc opts fts|c k et|c mid kt vt|k|].
    - rewrite dec_eq_prim in H. eapply R_prim; exact H.
    - destruct oneof.
      + rewrite dec_eq_oneof in H.
        destruct (br_read_bits (rc_br (rget st c)) (oneof_bits fc)) as [tag r1] eqn:E1. cbv zeta in H.
        assert (R1 : R st (rset_br st c r1)) by (apply R_br; eapply br_read_bits_suffix; exact E1).
        destruct (fc + 1 <=? tag); [discriminate|]. destruct (br_err r1); [discriminate|].
        destruct (tag =? 0); [inversion H; subst; exact R1|].
        destruct (dec sizes f _ _ _ (rset_br st c r1)) as [[st1 w1]|e] eqn:E; [|discriminate].
        inversion H; subst. eapply R_trans; [exact R1|eapply IH; exact E].
      + destruct d as [dn|].
        * rewrite dec_eq_dict in H.
          destruct (br_read_bits (rc_br (rget st c)) 1) as [flag r1] eqn:E1.
          pose proof (br_read_bits_suffix _ _ _ _ E1) as S1.
          destruct (flag =? 0).
          -- destruct (br_read_uvc r1) as [ref r2] eqn:E2. cbv zeta in H.
             destruct (r_tl (rset_br st c r2) dn <=? ref); [discriminate|].
             destruct (br_err r2); [discriminate|]. inversion H; subst.
             apply R_br. eapply suffix_trans; [eapply br_read_uvc_suffix; exact E2|exact S1].
          -- cbv zeta in H.
             destruct (dec_body (dec sizes f) prev c fc opts fts _ (rset_br st c r1)) as [[st1 w1]|e] eqn:E; [|discriminate].
             inversion H; subst.
             eapply R_trans; [apply R_br; exact S1|].
             eapply R_trans; [eapply body_R; [exact (IH)|exact E]|]. apply R_tlen.
        * rewrite dec_eq_struct in H. eapply body_R; [exact IH|exact H].
    - rewrite dec_eq_arr in H.
      destruct (br_read_uvc (rc_br (rget st c))) as [n r1] eqn:E1. cbv zeta in H.
      pose proof (br_read_uvc_suffix _ _ _ E1) as S1.
      set (st1 := rset_br st c r1) in *.
      set (grow := n - N.of_nat (length (prev_elems prev))) in *.
      destruct ((0 <? grow) && (record_alloc_limit <? r_alloc st1 + grow * elem_size sizes et)) eqn:EL; [discriminate|].
      match type of H with match iter_pow _ ?step ?s with _ => _ end = _ =>
        destruct (iter_pow loop_k step s) as [s'|r] eqn:EI; [discriminate|] end.
      subst r. rewrite iter_pow_run in EI.
      eapply R_trans; [apply R_br; exact S1|]. fold st1.
      eapply R_trans; [|eapply arr_R; [exact IH|exact EI]].
      apply R_alloc.
      + destruct (0 <? grow); lia.
      + destruct (0 <? grow) eqn:EG; [right|left; reflexivity].
        cbn [andb] in EL. apply N.ltb_ge in EL. exact EL.
    - rewrite dec_eq_map in H. cbv zeta in H.
      destruct (leb_dec (rc_bytes (rget st c))) as [[hdr rest]|] eqn:E1; [|discriminate].
      assert (R1 : R st (rset st c (mkRcol (rc_br (rget st c)) rest (rc_u (rget st c)) (rc_f (rget st c)))))
        by (apply R_bytes; eapply leb_dec_suffix; exact E1).
      destruct (hdr =? 0); [inversion H; subst; exact R1|].
      destruct (N.even hdr).
      + eapply R_trans; [exact R1|eapply vals_R; [exact IH|exact H]].
      + destruct (multimap_limit <=? hdr / 2); [discriminate|].
        eapply R_trans; [exact R1|eapply full_R; [exact IH|exact H]].
    - discriminate.
    - discriminate.
  Qed.
End StateRel.
