(* Schema evolution (C04) and the handshake (C14) end to end: the decision layer
   (Net/HandshakeFacts.v: build_root_replay, new_writer_with_ancestor_schema,
   server_open_ancestor_descriptor, handshake_sound_server_not_behind) composed with the header
   round trip (EvolveFactsBase.v) and the whole-stream round trip (Stream/StreamFacts.v).

     decodes_all sc root d t     a reader for (sc, root) that finds descriptor [d] in the var header
                                 decodes every stream written with tree [t] to exactly what was written
     server_open_decodes_all     server_open VCurrent sc root d = Some t  ->  decodes_all sc root d t
     forward_read*               old writer, newer reader (descriptor = old's wire schema)
     downgrade_write_read*       newer writer told to write old's wire schema, old reader
     handshake_stream_decodes*   handshake = OStream .. true  ->  the server decodes everything
     handshake_server_not_behind_decodes   the positive half of C14 down to the records

   The statements are about wire trees and the reader's record values ([stream_values]); the
   padding of fields the writer does not know with defaults happens above this layer (the reader's
   tree simply has fewer fields than its schema).
   This file must come after Net/HandshakeFacts.v in _CoqProject. *)
From Coq Require Import List Arith NArith ZArith Bool PArith Lia FMapPositive.
From Coq Require Import ZifyN ZifyNat ZifyBool.
From Stef Require Import Bits BitIO Varint Codecs Schema SchemaFacts Wire WireOk Apply Frame FrameFacts
     Reader Writer Limits StreamFactsBase StreamFacts Handshake HandshakeFacts EvolveFactsBase.
Import ListNotations.
Open Scope N_scope.

(* ------------------------------------------------------------------ the interface *)
(* [src] is anything that serves the header frame, then the data frames the writer produces from
   its initial state with tree [t], then reports [e] (clean end, truncation inside a later frame,
   garbage).  [header_okb] and [stream_ok] are the boolean side conditions (limits of the
   reader; encodability of the records), [kr]/[k] the fuel of the read loop. *)
Definition decodes_all (sc : schema) (root : N) (d : option (list N)) (t : etree) : Prop :=
  forall sizes fuel hfl ud frames src src' e kr k,
    header_okb hfl d ud = true ->
    next_frame src = inr (hfl, header_content d ud, src') ->
    serves src' (stream_encode t wst0 frames) e ->
    stream_ok sizes fuel t frames wst0 RNil (PM.empty _) = true ->
    (length frames < kr)%nat -> (length (concat (map snd frames)) < k)%nat ->
    exists r0,
      reader_open sc root src = inr r0 /\
      rd_tree r0 = t /\ rd_wire_schema r0 = d /\ rd_user_data r0 = ud /\
      read_all sizes fuel kr k r0 =
      (concat (map snd frames), stream_values t frames RNil (PM.empty _), Some (end_result e)).

(* the reader opened with tree [t] on [src'] reads everything *)
Lemma opened_reads_all : forall sc root src t src' d ud sizes fuel frames e kr k,
  reader_open sc root src = inr (mkReader t src' 0 0 rst0 (PM.empty _) RNil d ud) ->
  serves src' (stream_encode t wst0 frames) e ->
  stream_ok sizes fuel t frames wst0 RNil (PM.empty _) = true ->
  (length frames < kr)%nat -> (length (concat (map snd frames)) < k)%nat ->
  exists r0,
    reader_open sc root src = inr r0 /\
    rd_tree r0 = t /\ rd_wire_schema r0 = d /\ rd_user_data r0 = ud /\
    read_all sizes fuel kr k r0 =
    (concat (map snd frames), stream_values t frames RNil (PM.empty _), Some (end_result e)).
Proof.
  intros sc root src t src' d ud sizes fuel frames e kr k Hop Hsrv Hok Hkr Hk.
  exists (mkReader t src' 0 0 rst0 (PM.empty _) RNil d ud).
  split; [exact Hop|]. split; [reflexivity|]. split; [reflexivity|]. split; [reflexivity|].
  exact (stream_roundtrip_open_gen sc root sizes fuel src _ frames e kr k Hop Hsrv Hok Hkr Hk).
Qed.

Theorem server_open_decodes_all : forall sc root d t,
  server_open VCurrent sc root d = Some t -> decodes_all sc root d t.
Proof.
  intros sc root d t Hs sizes fuel hfl ud frames src src' e kr k Hh Hn Hsrv Hok Hkr Hk.
  pose proof (reader_open_header sc root src hfl d ud src' Hn Hh) as Hop. rewrite Hs in Hop.
  exact (opened_reads_all sc root src t src' d ud sizes fuel frames e kr k Hop Hsrv Hok Hkr Hk).
Qed.
Print Assumptions server_open_decodes_all.

(* the same for ANY header content that parses to the descriptor [d] and user data [ud] *)
Theorem server_open_decodes_parsed : forall sc root d t,
  server_open VCurrent sc root d = Some t ->
  forall sizes fuel hfl content schema_bytes ud frames src src' e kr k,
    next_frame src = inr (hfl, content, src') ->
    (N.of_nat (length content) <=? var_hdr_limit) = true ->
    parse_var_header content = inr (schema_bytes, ud) ->
    match d with
    | Some c => schema_bytes <> [] /\ parse_wire_schema schema_bytes = inr c
    | None => schema_bytes = []
    end ->
    serves src' (stream_encode t wst0 frames) e ->
    stream_ok sizes fuel t frames wst0 RNil (PM.empty _) = true ->
    (length frames < kr)%nat -> (length (concat (map snd frames)) < k)%nat ->
    exists r0,
      reader_open sc root src = inr r0 /\
      rd_tree r0 = t /\ rd_wire_schema r0 = d /\ rd_user_data r0 = ud /\
      read_all sizes fuel kr k r0 =
      (concat (map snd frames), stream_values t frames RNil (PM.empty _), Some (end_result e)).
Proof.
  intros sc root d t Hs sizes fuel hfl content sb ud frames src src' e kr k Hn Hl Hp Hd Hsrv Hok Hkr Hk.
  pose proof (reader_open_parsed sc root src hfl content src' sb ud d Hn Hl Hp Hd) as Hop. rewrite Hs in Hop.
  exact (opened_reads_all sc root src t src' d ud sizes fuel frames e kr k Hop Hsrv Hok Hkr Hk).
Qed.
Print Assumptions server_open_decodes_parsed.

(* [decodes_all] on the two concrete sources of Stream/Reader.v *)
Theorem decodes_all_frames : forall sc root d t, decodes_all sc root d t ->
  forall sizes fuel hfl ud frames trunc kr k,
    header_okb hfl d ud = true ->
    stream_ok sizes fuel t frames wst0 RNil (PM.empty _) = true ->
    (length frames < kr)%nat -> (length (concat (map snd frames)) < k)%nat ->
    exists r0,
      reader_open sc root (SrcFrames ((hfl, header_content d ud) :: stream_encode t wst0 frames) trunc) = inr r0 /\
      rd_tree r0 = t /\ rd_wire_schema r0 = d /\ rd_user_data r0 = ud /\
      read_all sizes fuel kr k r0 =
      (concat (map snd frames), stream_values t frames RNil (PM.empty _),
       Some (if trunc then RdErr true EEof else RdEnd)).
Proof.
  intros sc root d t H sizes fuel hfl ud frames trunc kr k Hh Hok Hkr Hk.
  destruct (H sizes fuel hfl ud frames
              (SrcFrames ((hfl, header_content d ud) :: stream_encode t wst0 frames) trunc)
              (SrcFrames (stream_encode t wst0 frames) trunc) (if trunc then PTrunc else PEnd) kr k Hh)
    as (r0 & H1 & H2 & H3 & H4 & H5); try assumption.
  - apply next_frame_frames. exact (header_okb_frame _ _ _ Hh).
  - apply serves_frames. exact (stream_ok_frames_ok _ _ _ _ _ _ _ Hok).
  - exists r0. repeat (split; [assumption|]). rewrite H5. destruct trunc; reflexivity.
Qed.
Print Assumptions decodes_all_frames.

Theorem decodes_all_bytes : forall sc root d t, decodes_all sc root d t ->
  forall sizes fuel hfl ud frames kr k,
    header_okb hfl d ud = true ->
    stream_ok sizes fuel t frames wst0 RNil (PM.empty _) = true ->
    (length frames < kr)%nat -> (length (concat (map snd frames)) < k)%nat ->
    exists r0,
      reader_open sc root (SrcBytes (emit_frame hfl (header_content d ud) ++ emit_all (stream_encode t wst0 frames))) = inr r0 /\
      rd_tree r0 = t /\ rd_wire_schema r0 = d /\ rd_user_data r0 = ud /\
      read_all sizes fuel kr k r0 =
      (concat (map snd frames), stream_values t frames RNil (PM.empty _), Some RdEnd).
Proof.
  intros sc root d t H sizes fuel hfl ud frames kr k Hh Hok Hkr Hk.
  destruct (H sizes fuel hfl ud frames
              (SrcBytes (emit_frame hfl (header_content d ud) ++ emit_all (stream_encode t wst0 frames)))
              (SrcBytes (emit_all (stream_encode t wst0 frames))) PEnd kr k Hh)
    as (r0 & H1 & H2 & H3 & H4 & H5); try assumption.
  - apply next_frame_bytes. exact (header_okb_frame _ _ _ Hh).
  - apply serves_bytes. exact (stream_ok_frames_ok _ _ _ _ _ _ _ Hok).
  - exists r0. repeat (split; [assumption|]). exact H5.
Qed.
Print Assumptions decodes_all_bytes.

(* the byte stream cut inside a later frame (C05 composed with evolution): every record of the
   complete frames, then "truncated" *)
Theorem decodes_all_bytes_cut : forall sc root d t, decodes_all sc root d t ->
  forall sizes fuel hfl ud frames fl c n kr k,
    header_okb hfl d ud = true ->
    stream_ok sizes fuel t frames wst0 RNil (PM.empty _) = true ->
    frame_okb fl c = true -> (0 < n)%nat -> (n < length (emit_frame fl c))%nat ->
    (length frames < kr)%nat -> (length (concat (map snd frames)) < k)%nat ->
    exists r0,
      reader_open sc root (SrcBytes (emit_frame hfl (header_content d ud) ++
                                     emit_all (stream_encode t wst0 frames) ++ firstn n (emit_frame fl c))) = inr r0 /\
      rd_tree r0 = t /\ rd_wire_schema r0 = d /\ rd_user_data r0 = ud /\
      read_all sizes fuel kr k r0 =
      (concat (map snd frames), stream_values t frames RNil (PM.empty _), Some (RdErr true EEof)).
Proof.
  intros sc root d t H sizes fuel hfl ud frames fl c n kr k Hh Hok Hfr Hn0 Hn Hkr Hk.
  destruct (H sizes fuel hfl ud frames
              (SrcBytes (emit_frame hfl (header_content d ud) ++
                         emit_all (stream_encode t wst0 frames) ++ firstn n (emit_frame fl c)))
              (SrcBytes (emit_all (stream_encode t wst0 frames) ++ firstn n (emit_frame fl c))) PTrunc kr k Hh)
    as (r0 & H1 & H2 & H3 & H4 & H5); try assumption.
  - apply next_frame_bytes. exact (header_okb_frame _ _ _ Hh).
  - apply serves_bytes_tail; [exact (stream_ok_frames_ok _ _ _ _ _ _ _ Hok)|].
    apply parse_frame_prefix; [apply frame_okb_sound; exact Hfr|exact Hn0|exact Hn].
  - exists r0. repeat (split; [assumption|]). exact H5.
Qed.
Print Assumptions decodes_all_bytes_cut.

(* ------------------------------------------------------------------ (1) old writer, newer reader *)
Lemma compatible_not_incompat : forall own other, compatible own other = true ->
  is_incompat (compat3 VCurrent own other) = false.
Proof. intros own other H. rewrite compatible_is_current in H. apply negb_true_iff in H. exact H. Qed.

(* the reader generated from [new] that finds the wire schema of its ancestor [old] in the header
   decodes with [old]'s encoder tree, hence every stream of a writer generated from [old] *)
Theorem forward_read_gen : forall old new root,
  schema_closed old = true -> evolves old new = true ->
  root < N.of_nat (length (structs old)) -> build_ok old root = true ->
  compatible (own_counts new root) (own_counts old root) = true ->
  decodes_all new root (Some (own_counts old root)) (fst (build_root old root None)).
Proof.
  intros old new root Hc He Hr Hok Hcomp. apply server_open_decodes_all.
  apply server_open_ancestor_descriptor; try assumption. apply compatible_not_incompat. exact Hcomp.
Qed.
Print Assumptions forward_read_gen.

(* frames handed over one by one (zstd streams after decompression) *)
Theorem forward_read : forall old new root sizes fuel hfl ud frames trunc kr k,
  schema_closed old = true -> evolves old new = true ->
  root < N.of_nat (length (structs old)) -> build_ok old root = true ->
  compatible (own_counts new root) (own_counts old root) = true ->
  let t := fst (build_root old root None) in
  let d := Some (own_counts old root) in
  header_okb hfl d ud = true ->
  stream_ok sizes fuel t frames wst0 RNil (PM.empty _) = true ->
  (length frames < kr)%nat -> (length (concat (map snd frames)) < k)%nat ->
  exists r0,
    reader_open new root (SrcFrames ((hfl, header_content d ud) :: stream_encode t wst0 frames) trunc) = inr r0 /\
    rd_tree r0 = t /\ rd_wire_schema r0 = d /\ rd_user_data r0 = ud /\
    read_all sizes fuel kr k r0 =
    (concat (map snd frames), stream_values t frames RNil (PM.empty _),
     Some (if trunc then RdErr true EEof else RdEnd)).
Proof.
  intros old new root sizes fuel hfl ud frames trunc kr k Hc He Hr Hok Hcomp t d.
  exact (decodes_all_frames new root d t (forward_read_gen old new root Hc He Hr Hok Hcomp)
           sizes fuel hfl ud frames trunc kr k).
Qed.
Print Assumptions forward_read.

(* the uncompressed byte stream after the fixed header *)
Theorem forward_read_bytes : forall old new root sizes fuel hfl ud frames kr k,
  schema_closed old = true -> evolves old new = true ->
  root < N.of_nat (length (structs old)) -> build_ok old root = true ->
  compatible (own_counts new root) (own_counts old root) = true ->
  let t := fst (build_root old root None) in
  let d := Some (own_counts old root) in
  header_okb hfl d ud = true ->
  stream_ok sizes fuel t frames wst0 RNil (PM.empty _) = true ->
  (length frames < kr)%nat -> (length (concat (map snd frames)) < k)%nat ->
  exists r0,
    reader_open new root (SrcBytes (emit_frame hfl (header_content d ud) ++ emit_all (stream_encode t wst0 frames))) = inr r0 /\
    rd_tree r0 = t /\ rd_wire_schema r0 = d /\ rd_user_data r0 = ud /\
    read_all sizes fuel kr k r0 =
    (concat (map snd frames), stream_values t frames RNil (PM.empty _), Some RdEnd).
Proof.
  intros old new root sizes fuel hfl ud frames kr k Hc He Hr Hok Hcomp t d.
  exact (decodes_all_bytes new root d t (forward_read_gen old new root Hc He Hr Hok Hcomp)
           sizes fuel hfl ud frames kr k).
Qed.
Print Assumptions forward_read_bytes.

(* any header bytes that parse to [old]'s wire schema (not only the canonical serialisation) *)
Theorem forward_read_parsed : forall old new root sizes fuel hfl hdr schema_bytes ud frames kr k,
  schema_closed old = true -> evolves old new = true ->
  root < N.of_nat (length (structs old)) -> build_ok old root = true ->
  compatible (own_counts new root) (own_counts old root) = true ->
  let t := fst (build_root old root None) in
  frame_okb hfl hdr = true -> (N.of_nat (length hdr) <=? var_hdr_limit) = true ->
  parse_var_header hdr = inr (schema_bytes, ud) -> schema_bytes <> [] ->
  parse_wire_schema schema_bytes = inr (own_counts old root) ->
  stream_ok sizes fuel t frames wst0 RNil (PM.empty _) = true ->
  (length frames < kr)%nat -> (length (concat (map snd frames)) < k)%nat ->
  exists r0,
    reader_open new root (SrcBytes (emit_frame hfl hdr ++ emit_all (stream_encode t wst0 frames))) = inr r0 /\
    rd_tree r0 = t /\ rd_wire_schema r0 = Some (own_counts old root) /\ rd_user_data r0 = ud /\
    read_all sizes fuel kr k r0 =
    (concat (map snd frames), stream_values t frames RNil (PM.empty _), Some RdEnd).
Proof.
  intros old new root sizes fuel hfl hdr sb ud frames kr k Hc He Hr Hok Hcomp t Hf Hl Hp Hne Hw Hsok Hkr Hk.
  assert (Hs : server_open VCurrent new root (Some (own_counts old root)) = Some t).
  { apply server_open_ancestor_descriptor; try assumption. apply compatible_not_incompat. exact Hcomp. }
  apply (server_open_decodes_parsed new root _ t Hs sizes fuel hfl hdr sb ud frames _
           (SrcBytes (emit_all (stream_encode t wst0 frames))) PEnd kr k); try assumption.
  - apply next_frame_bytes. exact Hf.
  - split; assumption.
  - apply serves_bytes. exact (stream_ok_frames_ok _ _ _ _ _ _ _ Hsok).
Qed.
Print Assumptions forward_read_parsed.

(* without a descriptor the newer reader uses its own tree: right exactly when nothing reachable
   from the root has grown (identical wire schemas) *)
Theorem forward_read_no_descriptor : forall old new root,
  schema_closed old = true -> schema_closed new = true -> evolves old new = true ->
  root < N.of_nat (length (structs old)) ->
  build_ok old root = true -> build_ok new root = true ->
  own_counts old root = own_counts new root ->
  decodes_all new root None (fst (build_root old root None)).
Proof.
  intros old new root Hco Hcn He Hr Hoko Hokn Heq. apply server_open_decodes_all.
  rewrite <- (same_counts_same_tree old new root Hco Hcn He Hr Hoko Hokn Heq).
  unfold server_open. unfold build_ok in Hokn.
  destruct (build_root new root None) as [t' ist'] eqn:Hb. cbn [snd fst] in *.
  apply negb_true_iff in Hokn.
  rewrite Hokn, (build_root_none_over new root t' ist' Hcn (evolves_root_in_range _ _ _ He Hr) Hb Hokn).
  reflexivity.
Qed.
Print Assumptions forward_read_no_descriptor.

(* ------------------------------------------------------------------ (2) newer writer, old reader *)
(* a reader on its own schema: with its own wire schema as descriptor, or with none *)
Lemma own_reader_decodes : forall sc root,
  schema_closed sc = true -> root < N.of_nat (length (structs sc)) -> build_ok sc root = true ->
  decodes_all sc root (Some (own_counts sc root)) (fst (build_root sc root None)) /\
  decodes_all sc root None (fst (build_root sc root None)).
Proof.
  intros sc root Hc Hr Hok. split; apply server_open_decodes_all.
  - apply server_open_ancestor_descriptor; try assumption; [apply evolves_refl|].
    rewrite compat3_refl. reflexivity.
  - unfold server_open. unfold build_ok in Hok.
    destruct (build_root sc root None) as [t ist] eqn:Hb. cbn [snd fst] in *.
    apply negb_true_iff in Hok.
    rewrite Hok, (build_root_none_over sc root t ist Hc Hr Hb Hok). reflexivity.
Qed.

(* the writer generated from [new] with opts.Schema = [old]'s wire schema is created, announces
   that schema and encodes with [old]'s tree; the reader generated from [old] decodes every
   stream it writes, whether the descriptor is in the header or not.  [v]: either version of
   Compatible in the writer's re-check. *)
Theorem downgrade_write_read : forall v old new root md,
  schema_closed old = true -> evolves old new = true ->
  root < N.of_nat (length (structs old)) -> build_ok old root = true ->
  is_incompat (compat3 v (own_counts new root) (own_counts old root)) = false ->
  let t := fst (build_root old root None) in
  new_writer v new root (mkWopts (Some (own_counts old root)) true md) = Some (t, Some (own_counts old root)) /\
  decodes_all old root (Some (own_counts old root)) t /\
  decodes_all old root None t.
Proof.
  intros v old new root md Hc He Hr Hok Hcomp t. split.
  - apply new_writer_with_ancestor_schema; assumption.
  - exact (own_reader_decodes old root Hc Hr Hok).
Qed.
Print Assumptions downgrade_write_read.

(* spelled out for the uncompressed byte stream the writer emits (header with the descriptor) *)
Theorem downgrade_write_read_bytes : forall v old new root md sizes fuel hfl ud frames kr k tw descr,
  schema_closed old = true -> evolves old new = true ->
  root < N.of_nat (length (structs old)) -> build_ok old root = true ->
  is_incompat (compat3 v (own_counts new root) (own_counts old root)) = false ->
  new_writer v new root (mkWopts (Some (own_counts old root)) true md) = Some (tw, descr) ->
  header_okb hfl descr ud = true ->
  stream_ok sizes fuel tw frames wst0 RNil (PM.empty _) = true ->
  (length frames < kr)%nat -> (length (concat (map snd frames)) < k)%nat ->
  tw = fst (build_root old root None) /\ descr = Some (own_counts old root) /\
  exists r0,
    reader_open old root (SrcBytes (emit_frame hfl (header_content descr ud) ++ emit_all (stream_encode tw wst0 frames))) = inr r0 /\
    rd_tree r0 = tw /\ rd_wire_schema r0 = descr /\ rd_user_data r0 = ud /\
    read_all sizes fuel kr k r0 =
    (concat (map snd frames), stream_values tw frames RNil (PM.empty _), Some RdEnd).
Proof.
  intros v old new root md sizes fuel hfl ud frames kr k tw descr Hc He Hr Hok Hcomp Hw Hh Hsok Hkr Hk.
  destruct (downgrade_write_read v old new root md Hc He Hr Hok Hcomp) as (Hw' & Hd & _).
  rewrite Hw' in Hw. inversion Hw; subst tw descr. split; [reflexivity|]. split; [reflexivity|].
  exact (decodes_all_bytes old root _ _ Hd sizes fuel hfl ud frames kr k Hh Hsok Hkr Hk).
Qed.
Print Assumptions downgrade_write_read_bytes.

(* ------------------------------------------------------------------ (3) the handshake *)
(* [handshake] reports same_layout = true: the client's writer exists, and the server's reader
   (current code) decodes every stream that writer produces *)
Theorem handshake_stream_decodes : forall v scc rc scs rs md o descr,
  handshake v scc rc scs rs md = OStream o descr true ->
  exists tw,
    connect v (own_counts scc rc) (own_counts scs rs) md = Some o /\
    new_writer v scc rc o = Some (tw, descr) /\
    server_open VCurrent scs rs descr = Some tw /\
    decodes_all scs rs descr tw.
Proof.
  intros v scc rc scs rs md o descr H. unfold handshake in H.
  destruct (connect v (own_counts scc rc) (own_counts scs rs) md) as [o'|] eqn:Hc; [|discriminate H].
  destruct (new_writer v scc rc o') as [[tw d]|] eqn:Hw; [|discriminate H].
  destruct (server_open v scs rs d) as [tr|] eqn:Hs; [|discriminate H].
  pose proof (f_equal (fun x => match x with OStream a _ _ => Some a | _ => None end) H) as E1.
  pose proof (f_equal (fun x => match x with OStream _ b _ => b | _ => None end) H) as E2.
  pose proof (f_equal (fun x => match x with OStream _ _ c => c | _ => false end) H) as E3.
  cbv beta iota in E1, E2, E3. injection E1 as E1. subst o' d.
  apply etree_eqb_eq in E3. subst tr.
  pose proof (server_open_any_current v scc rc scs rs md o tw descr tw Hc Hw Hs) as Hcur.
  exists tw. split; [reflexivity|]. split; [exact Hw|]. split; [exact Hcur|].
  apply server_open_decodes_all. exact Hcur.
Qed.
Print Assumptions handshake_stream_decodes.

(* spelled out for the byte stream that goes over the transport *)
Theorem handshake_stream_decodes_bytes : forall v scc rc scs rs md o descr tw d' sizes fuel hfl ud frames kr k,
  handshake v scc rc scs rs md = OStream o descr true ->
  new_writer v scc rc o = Some (tw, d') ->
  header_okb hfl descr ud = true ->
  stream_ok sizes fuel tw frames wst0 RNil (PM.empty _) = true ->
  (length frames < kr)%nat -> (length (concat (map snd frames)) < k)%nat ->
  d' = descr /\
  exists r0,
    reader_open scs rs (SrcBytes (emit_frame hfl (header_content descr ud) ++ emit_all (stream_encode tw wst0 frames))) = inr r0 /\
    rd_tree r0 = tw /\ rd_wire_schema r0 = descr /\ rd_user_data r0 = ud /\
    read_all sizes fuel kr k r0 =
    (concat (map snd frames), stream_values tw frames RNil (PM.empty _), Some RdEnd).
Proof.
  intros v scc rc scs rs md o descr tw d' sizes fuel hfl ud frames kr k H Hw Hh Hsok Hkr Hk.
  destruct (handshake_stream_decodes v scc rc scs rs md o descr H) as (tw' & _ & Hw' & _ & Hd).
  rewrite Hw' in Hw. inversion Hw; subst tw' d'. split; [reflexivity|].
  exact (decodes_all_bytes scs rs descr tw Hd sizes fuel hfl ud frames kr k Hh Hsok Hkr Hk).
Qed.
Print Assumptions handshake_stream_decodes_bytes.

(* the positive half of C14 down to the records: the server's schema descends from the client's
   and the server is not behind by the code's own criterion => Connect succeeds with the
   advertised dictionary limit, the writer is created, the server decodes everything *)
Theorem handshake_server_not_behind_decodes : forall v scc scs root md,
  schema_closed scc = true -> evolves scc scs = true -> root < N.of_nat (length (structs scc)) ->
  build_ok scc root = true ->
  let cs := own_counts scc root in
  let ss := own_counts scs root in
  (cs = ss /\ schema_closed scs = true /\ build_ok scs root = true) \/ compat3 v ss cs = CSuperset ->
  exists o descr t,
    connect v cs ss md = Some o /\ o_maxdict o = md /\
    new_writer v scc root o = Some (t, descr) /\
    t = fst (build_root scc root None) /\
    decodes_all scs root descr t.
Proof.
  intros v scc scs root md Hc He Hr Hok cs ss Hcase.
  destruct (handshake_sound_server_not_behind v scc scs root md Hc He Hr Hok Hcase)
    as (o & descr & t & Hconn & Hmd & Hw & Hs).
  exists o, descr, t. split; [exact Hconn|]. split; [exact Hmd|]. split; [exact Hw|]. split.
  - (* the writer's tree is the client's own tree in both branches *)
    fold cs ss in Hconn.
    destruct (connect_schema_is_clients _ _ _ _ _ Hconn) as [_ [[H1 _]|[H1 _]]].
    + unfold new_writer in Hw. rewrite H1 in Hw. destruct (build_root scc root None) as [t0 i0].
      inversion Hw. reflexivity.
    + assert (Hw2 : new_writer v scc root (mkWopts (Some cs) true (o_maxdict o)) = Some (t, descr)).
      { destruct o as [os od om]. cbn [o_schema o_maxdict] in *. subst os.
        unfold new_writer in Hw |- *. cbn [o_schema o_descr] in *. exact Hw. }
      assert (Hn : is_incompat (compat3 v (own_counts scc root) (own_counts scc root)) = false)
        by (rewrite compat3_refl; reflexivity).
      pose proof (new_writer_with_ancestor_schema v scc scc root (o_maxdict o) Hc (evolves_refl scc) Hr Hok Hn) as Hn2.
      unfold cs in Hw2. rewrite Hn2 in Hw2. injection Hw2 as E _. symmetry. exact E.
  - apply server_open_decodes_all.
    exact (server_open_any_current v scc root scs root md o t descr t Hconn Hw Hs).
Qed.
Print Assumptions handshake_server_not_behind_decodes.

(* ------------------------------------------------------------------ (4) not vacuous *)
(* old: struct R root { a uint64 }     new: struct R root { a uint64; b string } *)
Definition ev_old : schema := mkSchema [mkSdef false None [mkField (TPrim PUint64 None) false]] [].
Definition ev_new : schema :=
  mkSchema [mkSdef false None [mkField (TPrim PUint64 None) false; mkField (TPrim PString None) false]] [].
Definition ev_t : etree := fst (build_root ev_old 0 None).
Definition ev_d : option (list N) := Some (own_counts ev_old 0).
Definition ev_ud : list (bytes * bytes) := [([107], [118; 49])].
Definition ev_frames : list (N * list wire) :=
  [(0, [WStruct 1 0 [Some (WU64 5)]; WStruct 1 0 [Some (WU64 9)]])].
Definition ev_sizes : N -> N := fun _ => 8.
Definition ev_src : source :=
  SrcBytes (emit_frame 0 (header_content ev_d ev_ud) ++ emit_all (stream_encode ev_t wst0 ev_frames)).

Example ev_counts : own_counts ev_old 0 = [1] /\ own_counts ev_new 0 = [2].
Proof. split; vm_compute; reflexivity. Qed.

(* every hypothesis of [forward_read_bytes] holds, so the newer reader returns the two records *)
Example ev_forward : exists r0,
  reader_open ev_new 0 ev_src = inr r0 /\
  rd_tree r0 = ev_t /\ rd_wire_schema r0 = Some [1] /\ rd_user_data r0 = ev_ud /\
  read_all ev_sizes 10 3 3 r0 =
  ([WStruct 1 0 [Some (WU64 5)]; WStruct 1 0 [Some (WU64 9)]],
   [RStruct 1 0 [RU64 5]; RStruct 1 0 [RU64 9]], Some RdEnd).
Proof.
  assert (H1 : schema_closed ev_old = true) by (vm_compute; reflexivity).
  assert (H2 : evolves ev_old ev_new = true) by (vm_compute; reflexivity).
  assert (H3 : 0 < N.of_nat (length (structs ev_old))) by (vm_compute; reflexivity).
  assert (H4 : build_ok ev_old 0 = true) by (vm_compute; reflexivity).
  assert (H5 : compatible (own_counts ev_new 0) (own_counts ev_old 0) = true) by (vm_compute; reflexivity).
  assert (H6 : header_okb 0 ev_d ev_ud = true) by (vm_compute; reflexivity).
  assert (H7 : stream_ok ev_sizes 10 ev_t ev_frames wst0 RNil (PM.empty _) = true) by (vm_compute; reflexivity).
  destruct (forward_read_bytes ev_old ev_new 0 ev_sizes 10 0 ev_ud ev_frames 3 3 H1 H2 H3 H4 H5 H6 H7)
    as (r0 & R1 & R2 & R3 & R4 & R5); [cbn; lia|cbn; lia|].
  exists r0. split; [exact R1|]. split; [exact R2|]. split; [exact R3|]. split; [exact R4|].
  rewrite R5. vm_compute. reflexivity.
Qed.

(* the same computed by the model reader directly (the theorem and the evaluation agree) *)
Example ev_forward_computed :
  match reader_open ev_new 0 ev_src with
  | inr r0 => read_all ev_sizes 10 3 3 r0
  | inl _ => ([], [], None)
  end =
  ([WStruct 1 0 [Some (WU64 5)]; WStruct 1 0 [Some (WU64 9)]],
   [RStruct 1 0 [RU64 5]; RStruct 1 0 [RU64 9]], Some RdEnd).
Proof. vm_compute. reflexivity. Qed.

(* the other direction on the same pair: the writer generated from [ev_new] told to write
   [ev_old]'s wire schema, the reader generated from [ev_old] *)
Example ev_downgrade : forall v md, exists r0,
  new_writer v ev_new 0 (mkWopts (Some [1]) true md) = Some (ev_t, Some [1]) /\
  reader_open ev_old 0 ev_src = inr r0 /\
  read_all ev_sizes 10 3 3 r0 =
  ([WStruct 1 0 [Some (WU64 5)]; WStruct 1 0 [Some (WU64 9)]],
   [RStruct 1 0 [RU64 5]; RStruct 1 0 [RU64 9]], Some RdEnd).
Proof.
  intros v md.
  assert (H1 : schema_closed ev_old = true) by (vm_compute; reflexivity).
  assert (H2 : evolves ev_old ev_new = true) by (vm_compute; reflexivity).
  assert (H3 : 0 < N.of_nat (length (structs ev_old))) by (vm_compute; reflexivity).
  assert (H4 : build_ok ev_old 0 = true) by (vm_compute; reflexivity).
  assert (H5 : is_incompat (compat3 v (own_counts ev_new 0) (own_counts ev_old 0)) = false)
    by (destruct v; vm_compute; reflexivity).
  assert (H6 : header_okb 0 ev_d ev_ud = true) by (vm_compute; reflexivity).
  assert (H7 : stream_ok ev_sizes 10 ev_t ev_frames wst0 RNil (PM.empty _) = true) by (vm_compute; reflexivity).
  destruct (downgrade_write_read v ev_old ev_new 0 md H1 H2 H3 H4 H5) as (Hw & Hd & _).
  destruct (decodes_all_bytes ev_old 0 _ _ Hd ev_sizes 10 0 ev_ud ev_frames 3 3 H6 H7)
    as (r0 & R1 & _ & _ & _ & R5); [cbn; lia|cbn; lia|].
  exists r0. split; [exact Hw|]. split; [exact R1|]. rewrite R5. vm_compute. reflexivity.
Qed.

(* and through the handshake: client [ev_old], server [ev_new] *)
Example ev_handshake : forall v md,
  handshake v ev_old 0 ev_new 0 md = OStream (mkWopts (Some [1]) true md) (Some [1]) true.
Proof. intros v md. destruct v; vm_compute; reflexivity. Qed.
