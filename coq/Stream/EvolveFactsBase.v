(* Helpers for Stream/EvolveFacts.v:
     - the var header the writer emits (wire schema descriptor + user data) is parsed back exactly
       (Frame.emit_var_header / parse_var_header, Frame.emit_wire_schema / parse_wire_schema),
       under the reader's own limits, given as the boolean [header_okb];
     - [Reader.reader_open] on such a header is [Handshake.server_open VCurrent];
     - [Handshake.etree_eqb] is sound;
     - whatever server the handshake of either version lets through, the current reader opens. *)
From Coq Require Import List Arith NArith ZArith Bool PArith Lia FMapPositive.
From Coq Require Import ZifyN ZifyNat ZifyBool.
From Stef Require Import Bits BitsFacts BitIO Varint VarintFacts Codecs Schema SchemaFacts Wire Apply Frame FrameFacts
     Reader Limits StreamFactsBase Handshake HandshakeFacts.
From Stef.Idl Require Import WireSchema WireSchemaFacts WireOrderFacts.
Import ListNotations.
Open Scope N_scope.

(* ------------------------------------------------------------------ the var header round trip *)
Lemma buf_read_app_exact : forall (a b : bytes), buf_read (N.of_nat (length a)) (a ++ b) = Some (a, b).
Proof.
  intros a b. unfold buf_read.
  destruct (N.eqb_spec (N.of_nat (length a)) 0) as [E|E].
  - destruct a; [reflexivity|cbn [length] in E; lia].
  - destruct (a ++ b) as [|x l] eqn:Eab.
    + destruct a; [cbn [length] in E; lia|discriminate Eab].
    + rewrite <- Eab. rewrite app_length.
      rewrite N.min_l by lia. rewrite N.sub_diag. rewrite Nat2N.id.
      rewrite firstn_app_exact, skipn_app_exact. cbn [N.to_nat repeat]. rewrite app_nil_r. reflexivity.
Qed.

Definition str_okb (s : bytes) : bool := N.of_nat (length s) <=? max_string_len.

Lemma parse_string_emit : forall s rest, str_okb s = true ->
  parse_string (emit_string s ++ rest) = inr (s, rest).
Proof.
  intros s rest H. unfold str_okb, max_string_len in H. unfold parse_string, emit_string, read_uvarint.
  rewrite <- app_assoc. rewrite leb_roundtrip by (unfold two64; lia).
  unfold max_string_len. destruct (N.ltb_spec 256 (N.of_nat (length s))); [lia|].
  rewrite buf_read_app_exact. reflexivity.
Qed.

Definition kv_okb (kv : bytes * bytes) : bool := str_okb (fst kv) && str_okb (snd kv).

Definition emit_kv (kv : bytes * bytes) : bytes := emit_string (fst kv) ++ emit_string (snd kv).

Lemma parse_user_data_emit : forall ud rest acc, forallb kv_okb ud = true ->
  parse_user_data (length ud) (flat_map emit_kv ud ++ rest) acc = inr (acc ++ ud).
Proof.
  induction ud as [|[k v] ud IH]; intros rest acc H; cbn [length flat_map parse_user_data app].
  - rewrite app_nil_r. reflexivity.
  - cbn [forallb] in H. apply andb_true_iff in H. destruct H as [Hkv H].
    unfold kv_okb in Hkv. cbn [fst snd] in Hkv. apply andb_true_iff in Hkv. destruct Hkv as [Hk Hv].
    unfold emit_kv at 1. cbn [fst snd]. rewrite <- !app_assoc.
    rewrite (parse_string_emit k _ Hk). rewrite (parse_string_emit v _ Hv).
    rewrite IH by exact H. rewrite <- app_assoc. reflexivity.
Qed.

(* VarHeader.Deserialize's limits on what VarHeader.Serialize wrote *)
Definition var_header_okb (schema : bytes) (ud : list (bytes * bytes)) : bool :=
  (N.of_nat (length schema) <=? max_schema_wire_bytes) &&
  (N.of_nat (length ud) <=? max_user_data) && forallb kv_okb ud.

Theorem parse_var_header_emit : forall schema ud, var_header_okb schema ud = true ->
  parse_var_header (emit_var_header schema ud) = inr (schema, ud).
Proof.
  intros schema ud H. unfold var_header_okb in H.
  apply andb_true_iff in H. destruct H as [H Hkv]. apply andb_true_iff in H. destruct H as [Hs Hu].
  unfold max_schema_wire_bytes in Hs. unfold max_user_data in Hu.
  unfold parse_var_header, emit_var_header, read_uvarint.
  rewrite leb_roundtrip by (unfold two64; lia).
  unfold max_schema_wire_bytes. destruct (N.ltb_spec 1048576 (N.of_nat (length schema))); [lia|].
  rewrite buf_read_app_exact. rewrite leb_roundtrip by (unfold two64; lia).
  unfold max_user_data. destruct (N.ltb_spec 1024 (N.of_nat (length ud))); [lia|].
  rewrite Nat2N.id.
  change (fun kv : bytes * bytes => emit_string (fst kv) ++ emit_string (snd kv)) with emit_kv.
  rewrite <- (app_nil_r (flat_map emit_kv ud)). rewrite parse_user_data_emit by exact Hkv. reflexivity.
Qed.
Print Assumptions parse_var_header_emit.

(* WireSchema.Deserialize's limits on what WireSchema.Serialize wrote *)
Definition counts_okb (c : list N) : bool :=
  (N.of_nat (length c) <=? max_struct_count) && forallb (fun x => x <? two64) c.

Theorem parse_wire_schema_emit : forall c, counts_okb c = true ->
  parse_wire_schema (emit_wire_schema c) = inr c.
Proof.
  intros c H. unfold counts_okb, max_struct_count in H. apply andb_true_iff in H. destruct H as [Hl Hc].
  pose proof (deserialize_serialize c [] ltac:(lia)) as D. unfold deserialize, serialize in D.
  rewrite app_nil_r in D. apply D.
  apply Forall_forall. intros x Hx. rewrite forallb_forall in Hc. specialize (Hc x Hx). lia.
Qed.
Print Assumptions parse_wire_schema_emit.

Lemma leb_enc_nonempty : forall v, leb_enc v <> [].
Proof. intros v. unfold leb_enc. cbn [leb_enc_fuel]. destruct (v <? 128); discriminate. Qed.

Lemma emit_wire_schema_nonempty : forall c, emit_wire_schema c <> [].
Proof.
  intros c. unfold emit_wire_schema. intros E. apply app_eq_nil in E. destruct E as [E _].
  exact (leb_enc_nonempty _ E).
Qed.

(* ------------------------------------------------------------------ the header frame of a writer *)
(* writer.go.tmpl: the var header carries the serialised descriptor (IncludeDescriptor or
   opts.Schema) or an empty schema, and the user data *)
Definition descr_bytes (d : option (list N)) : bytes :=
  match d with Some c => emit_wire_schema c | None => [] end.

Definition header_content (d : option (list N)) (ud : list (bytes * bytes)) : bytes :=
  emit_var_header (descr_bytes d) ud.

(* everything the reader checks about the header frame before it looks at the schema: frame flags
   and size, VarHdrContentSizeLimit, schema and user data limits, struct count limit *)
Definition header_okb (hfl : N) (d : option (list N)) (ud : list (bytes * bytes)) : bool :=
  frame_okb hfl (header_content d ud) &&
  (N.of_nat (length (header_content d ud)) <=? var_hdr_limit) &&
  var_header_okb (descr_bytes d) ud &&
  match d with Some c => counts_okb c | None => true end.

(* [reader_open] on a source whose first frame is such a header: the decision is
   [server_open VCurrent] *)
Lemma reader_open_header : forall sc root src hfl d ud src',
  next_frame src = inr (hfl, header_content d ud, src') ->
  header_okb hfl d ud = true ->
  reader_open sc root src =
  match server_open VCurrent sc root d with
  | Some t => inr (mkReader t src' 0 0 rst0 (PM.empty _) RNil d ud)
  | None => inl (PBad EInvalid)
  end.
Proof.
  intros sc root src hfl d ud src' Hn H. unfold header_okb in H.
  apply andb_true_iff in H. destruct H as [H Hc]. apply andb_true_iff in H. destruct H as [H Hv].
  apply andb_true_iff in H. destruct H as [_ Hl].
  assert (Hl' : (var_hdr_limit <? N.of_nat (length (header_content d ud))) = false)
    by (apply N.ltb_ge; apply N.leb_le; exact Hl).
  pose proof (parse_var_header_emit _ _ Hv) as Hp. fold (header_content d ud) in Hp.
  destruct d as [c|].
  - cbn [descr_bytes] in Hp.
    pose proof (server_open_current_is_reader_open sc root src hfl _ src' _ ud c Hn Hl' Hp
                  (emit_wire_schema_nonempty c) (parse_wire_schema_emit c Hc)) as R.
    destruct (server_open VCurrent sc root (Some c)); exact R.
  - cbn [descr_bytes] in Hp.
    pose proof (server_open_none_is_reader_open sc root src hfl _ src' ud Hn Hl' Hp) as R.
    destruct (server_open VCurrent sc root None); exact R.
Qed.
Print Assumptions reader_open_header.

(* the same decision for ANY header content that parses to the descriptor (not necessarily the
   canonical serialisation) *)
Lemma reader_open_parsed : forall sc root src hfl content src' schema_bytes ud d,
  next_frame src = inr (hfl, content, src') ->
  (N.of_nat (length content) <=? var_hdr_limit) = true ->
  parse_var_header content = inr (schema_bytes, ud) ->
  match d with
  | Some c => schema_bytes <> [] /\ parse_wire_schema schema_bytes = inr c
  | None => schema_bytes = []
  end ->
  reader_open sc root src =
  match server_open VCurrent sc root d with
  | Some t => inr (mkReader t src' 0 0 rst0 (PM.empty _) RNil d ud)
  | None => inl (PBad EInvalid)
  end.
Proof.
  intros sc root src hfl content src' sb ud d Hn Hl Hp Hd.
  assert (Hl' : (var_hdr_limit <? N.of_nat (length content)) = false)
    by (apply N.ltb_ge; apply N.leb_le; exact Hl).
  destruct d as [c|].
  - destruct Hd as [Hne Hw].
    pose proof (server_open_current_is_reader_open sc root src hfl _ src' _ ud c Hn Hl' Hp Hne Hw) as R.
    destruct (server_open VCurrent sc root (Some c)); exact R.
  - subst sb.
    pose proof (server_open_none_is_reader_open sc root src hfl _ src' ud Hn Hl' Hp) as R.
    destruct (server_open VCurrent sc root None); exact R.
Qed.
Print Assumptions reader_open_parsed.

(* the two sources *)
Lemma next_frame_frames : forall hfl hdr fs trunc, frame_okb hfl hdr = true ->
  next_frame (SrcFrames ((hfl, hdr) :: fs) trunc) = inr (hfl, hdr, SrcFrames fs trunc).
Proof.
  intros hfl hdr fs trunc H. destruct (frame_okb_sound _ _ H) as [H1 H2]. cbn [next_frame].
  destruct (N.leb_spec 8 hfl); [lia|].
  destruct (N.ltb_spec frame_size_limit (N.of_nat (length hdr))); [lia|reflexivity].
Qed.

Lemma next_frame_bytes : forall hfl hdr rest, frame_okb hfl hdr = true ->
  next_frame (SrcBytes (emit_frame hfl hdr ++ rest)) = inr (hfl, hdr, SrcBytes rest).
Proof.
  intros hfl hdr rest H. cbn [next_frame]. rewrite parse_frame_emit by (apply frame_okb_sound; exact H).
  reflexivity.
Qed.

Lemma header_okb_frame : forall hfl d ud, header_okb hfl d ud = true -> frame_okb hfl (header_content d ud) = true.
Proof.
  intros hfl d ud H. unfold header_okb in H.
  apply andb_true_iff in H. destruct H as [H _]. apply andb_true_iff in H. destruct H as [H _].
  apply andb_true_iff in H. destruct H as [H _]. exact H.
Qed.

(* ------------------------------------------------------------------ etree_eqb is sound *)
Lemma etree_eqb_eq : forall f a b, etree_eqb f a b = true -> a = b.
Proof.
  induction f as [|f IH]; intros a b H; [discriminate H|].
  assert (Hopt : forall d d' : option N,
            match d, d' with None, None => true | Some x, Some y => x =? y | _, _ => false end = true -> d = d').
  { intros [x|] [y|] E; try discriminate E; [|reflexivity]. apply N.eqb_eq in E. subst. reflexivity. }
  destruct a, b; cbn [etree_eqb] in H; try discriminate H.
  - apply andb_true_iff in H. destruct H as [H H3]. apply andb_true_iff in H. destruct H as [H1 H2].
    apply Pos.eqb_eq in H1. apply Hopt in H3. subst.
    destruct p, p0; try discriminate H2; reflexivity.
  - repeat (apply andb_true_iff in H; let X := fresh "X" in destruct H as [H X]).
    apply Pos.eqb_eq in H. apply N.eqb_eq in X4. apply Bool.eqb_prop in X3. apply Hopt in X2.
    apply N.eqb_eq in X1. subst.
    assert (Eo : opts = opts0).
    { clear - X0. revert opts0 X0. induction opts as [|p x IHx]; intros [|q y] E; try discriminate E; [reflexivity|].
      apply andb_true_iff in E. destruct E as [E1 E2]. apply Bool.eqb_prop in E1. apply IHx in E2. subst. reflexivity. }
    assert (Ef : fields = fields0).
    { clear - X IH. revert fields0 X. induction fields as [|p x IHx]; intros [|q y] E; try discriminate E; [reflexivity|].
      apply andb_true_iff in E. destruct E as [E1 E2]. apply IH in E1. apply IHx in E2. subst. reflexivity. }
    subst. reflexivity.
  - apply andb_true_iff in H. destruct H as [H H3]. apply andb_true_iff in H. destruct H as [H1 H2].
    apply Pos.eqb_eq in H1. apply reckey_eqb_eq in H2. apply IH in H3. subst. reflexivity.
  - repeat (apply andb_true_iff in H; let X := fresh "X" in destruct H as [H X]).
    apply Pos.eqb_eq in H. apply N.eqb_eq in X1. apply IH in X0. apply IH in X. subst. reflexivity.
  - apply reckey_eqb_eq in H. subst. reflexivity.
  - reflexivity.
Qed.
Print Assumptions etree_eqb_eq.

(* ------------------------------------------------------------------ either version -> current reader *)
(* Stream/Reader.v models the reader of the current code (Compatible after fd32b12).  Whenever
   Connect and the writer of EITHER version went ahead and the server model of that version
   opened the stream, the current reader opens it too, with the same tree: a descriptor is only
   sent in the branches where the verdict does not depend on the version. *)
Lemma server_open_any_current : forall v scc rc scs rs md o tw descr tr,
  connect v (own_counts scc rc) (own_counts scs rs) md = Some o ->
  new_writer v scc rc o = Some (tw, descr) ->
  server_open v scs rs descr = Some tr ->
  server_open VCurrent scs rs descr = Some tr.
Proof.
  intros v scc rc scs rs md o tw descr tr Hc Hw Hs.
  set (cs := own_counts scc rc) in *. set (ss := own_counts scs rs) in *.
  assert (Hd : descr = None \/ (descr = Some cs /\ o_schema o = Some cs)).
  { destruct (connect_schema_is_clients _ _ _ _ _ Hc) as [_ [[H1 [H2 _]]|[H1 H2]]];
      unfold new_writer in Hw; rewrite H1 in Hw.
    - destruct (build_root scc rc None) as [t ist]. rewrite H2 in Hw. inversion Hw. left. reflexivity.
    - destruct (is_incompat (compat3 v (own_counts scc rc) cs)); [discriminate Hw|].
      destruct (build_root scc rc (Some cs)) as [t ist].
      destruct (exhausted cs ist || negb (all_fetched ist)); [discriminate Hw|].
      inversion Hw. right. split; [reflexivity|exact H1]. }
  destruct Hd as [Hd|[Hd Ho]]; subst descr; [exact Hs|].
  unfold server_open in Hs |- *. fold ss in Hs |- *.
  destruct (compat3 v ss cs) eqn:E.
  - (* exact: Connect sends no schema *)
    unfold connect in Hc. rewrite E in Hc. inversion Hc; subst o. discriminate Ho.
  - assert (E' : compat3 VCurrent ss cs = CSuperset)
      by (apply (superset_same VCurrent); apply (superset_same v); exact E).
    rewrite E'. cbn [is_incompat] in Hs |- *. exact Hs.
  - cbn [is_incompat] in Hs. discriminate Hs.
Qed.
Print Assumptions server_open_any_current.
