(* Stream framing: fixed header, frames, var header, data frame content with the column size
   table (go/pkg/basereader.go, frame.go, header.go, recordbuf.go, writer.go.tmpl).
   Written from the specification with the notes N1-N5 of DESIGN.md §7. *)
From Coq Require Import List NArith ZArith Bool PArith Lia FMapPositive.
From Stef Require Import Bits BitIO Varint Codecs Schema Wire.
Import ListNotations.
Open Scope N_scope.

(* limits: gen/Limits.v carries the values regenerated from the Go source; the model refers
   to these names and Props check they agree *)
Definition fixed_hdr_limit : N := 1048576.
Definition var_hdr_limit : N := 1048576.
Definition frame_size_limit : N := 67108864.
Definition max_schema_wire_bytes : N := 1048576.
Definition max_user_data : N := 1024.
Definition max_string_len : N := 256.
Definition max_struct_count : N := 1024.

Definition signature : bytes := [83; 84; 69; 70].   (* "STEF" *)

(* binary.ReadUvarint over a byte source: None on EOF / overflow *)
Definition read_uvarint (bs : bytes) : option (N * bytes) := leb_dec bs.

Definition take (n : N) (bs : bytes) : option (bytes * bytes) :=
  if n <=? N.of_nat (length bs) then Some (firstn (N.to_nat n) bs, skipn (N.to_nat n) bs) else None.

(* ---------- emit (writer side) ---------- *)
Definition emit_fixed_header (compr : N) : bytes := signature ++ leb_enc 2 ++ [0; compr mod 4].

Definition emit_frame (flags : N) (content : bytes) : bytes :=
  [flags] ++ leb_enc (N.of_nat (length content)) ++ content.

Definition emit_string (s : bytes) : bytes := leb_enc (N.of_nat (length s)) ++ s.

Definition emit_var_header (schema : bytes) (ud : list (bytes * bytes)) : bytes :=
  leb_enc (N.of_nat (length schema)) ++ schema ++ leb_enc (N.of_nat (length ud)) ++
  flat_map (fun kv => emit_string (fst kv) ++ emit_string (snd kv)) ud.

Definition emit_wire_schema (counts : list N) : bytes :=
  leb_enc (N.of_nat (length counts)) ++ flat_map leb_enc counts.

(* columns of an encoder tree in depth-first order with their children *)
Definition tree_col (t : etree) : option positive :=
  match t with
  | EPrim c _ _ | EStruct c _ _ _ _ _ _ | EArr c _ _ | EMap c _ _ _ => Some c
  | _ => None
  end.
Definition tree_children (t : etree) : list etree :=
  match t with
  | EStruct _ _ _ _ _ _ fts => fts
  | EArr _ _ e => [e]
  | EMap _ _ k v => [k; v]
  | _ => []
  end.
Definition is_bit_col (t : etree) : bool :=
  match t with
  | EPrim _ (PBool | PFloat64) _ | EStruct _ _ _ _ _ _ _ | EArr _ _ _ => true
  | _ => false
  end.

(* bytes of a column at frame end: bit columns are zero padded to a byte *)
Definition col_data (st : wst) (t : etree) : bytes :=
  match tree_col t with
  | None => []
  | Some c => let x := wget st c in if is_bit_col t then column_bytes (wc_bits x) else wc_bytes x
  end.

(* size table (WriteSizesTo) and data (WriteDataTo): a column of size 0 omits all descendants *)
Fixpoint emit_sizes (fuel : nat) (st : wst) (t : etree) : bits :=
  match fuel with
  | O => []
  | S f =>
    match tree_col t with
    | None => []
    | Some _ =>
      let d := col_data st t in
      uvc_write_bits (N.of_nat (length d)) ++
      (if (length d =? 0)%nat then [] else flat_map (emit_sizes f st) (tree_children t))
    end
  end.
Fixpoint emit_data (fuel : nat) (st : wst) (t : etree) : bytes :=
  match fuel with
  | O => []
  | S f =>
    match tree_col t with
    | None => []
    | Some _ =>
      let d := col_data st t in
      d ++ (if (length d =? 0)%nat then [] else flat_map (emit_data f st) (tree_children t))
    end
  end.

Definition tree_fuel : nat := 200.

Definition emit_data_frame_content (st : wst) (t : etree) (nrec : N) : bytes :=
  let sizes := column_bytes (emit_sizes tree_fuel st t) in
  leb_enc nrec ++ leb_enc (N.of_nat (length sizes)) ++ sizes ++ emit_data tree_fuel st t.

(* ---------- parse (reader side) ---------- *)
Inductive perr := PEnd            (* clean end of input at a frame boundary *)
                | PTrunc          (* input ends inside a header or frame *)
                | PBad (e : derr).

Definition parse_fixed_header (bs : bytes) : perr + (N * bytes) :=
  match take 4 bs with
  | None => inl PTrunc
  | Some (sig, r) =>
    if negb (bytes_eqb sig signature) then inl (PBad EInvalid)
    else match read_uvarint r with
         | None => inl PTrunc
         | Some (sz, r) =>
           if (sz <? 2) || (fixed_hdr_limit <? sz) then inl (PBad EInvalid)
           else match take sz r with
                | None => inl PTrunc
                | Some (content, r) =>
                  let ver := nth 0 content 0 mod 16 in
                  let compr := nth 1 content 0 mod 4 in
                  if negb (ver =? 0) then inl (PBad EInvalid)
                  else if 2 <=? compr then inl (PBad EInvalid)
                  else inr (compr, r)
                end
         end
  end.

(* one frame of an uncompressed stream: (flags, content, rest) *)
Definition parse_frame (bs : bytes) : perr + (N * bytes * bytes) :=
  match bs with
  | [] => inl PEnd
  | flags :: r =>
    if 8 <=? flags then inl (PBad EInvalid)
    else match read_uvarint r with
         | None => inl PTrunc
         | Some (usize, r) =>
           if frame_size_limit <? usize then inl (PBad ELimit)
           else match take usize r with
                | None => inl PTrunc
                | Some (content, r) => inr (flags, content, r)
                end
         end
  end.

(* bytes.Buffer.Read semantics used by VarHeader.Deserialize / internal.ReadString:
   a short buffer yields what is there (zero padded by the caller's make), an empty one io.EOF *)
Definition buf_read (n : N) (bs : bytes) : option (bytes * bytes) :=
  if n =? 0 then Some ([], bs)
  else match bs with
       | [] => None
       | _ => let k := N.min n (N.of_nat (length bs)) in
              Some (firstn (N.to_nat k) bs ++ repeat 0 (N.to_nat (n - k)), skipn (N.to_nat k) bs)
       end.

Definition parse_string (bs : bytes) : derr + (bytes * bytes) :=
  match read_uvarint bs with
  | None => inl EEof
  | Some (l, r) =>
    if max_string_len <? l then inl ELimit
    else match buf_read l r with None => inl EEof | Some (s, r) => inr (s, r) end
  end.

Fixpoint parse_user_data (n : nat) (bs : bytes) (acc : list (bytes * bytes))
  : derr + list (bytes * bytes) :=
  match n with
  | O => inr acc
  | S m =>
    match parse_string bs with
    | inl e => inl e
    | inr (k, r) =>
      match parse_string r with
      | inl e => inl e
      | inr (v, r) => parse_user_data m r (acc ++ [(k, v)])
      end
    end
  end.

Definition parse_var_header (content : bytes) : derr + (bytes * list (bytes * bytes)) :=
  match read_uvarint content with
  | None => inl EEof
  | Some (slen, r) =>
    if max_schema_wire_bytes <? slen then inl ELimit
    else match buf_read slen r with
         | None => inl EEof
         | Some (schema, r) =>
           match read_uvarint r with
           | None => inl EEof
           | Some (cnt, r) =>
             if max_user_data <? cnt then inl ELimit
             else match parse_user_data (N.to_nat cnt) r [] with
                  | inl e => inl e
                  | inr ud => inr (schema, ud)
                  end
           end
         end
  end.

Fixpoint parse_counts (n : nat) (bs : bytes) (acc : list N) : option (list N) :=
  match n with
  | O => Some acc
  | S m => match read_uvarint bs with
           | None => None
           | Some (c, r) => parse_counts m r (acc ++ [c])
           end
  end.
Definition parse_wire_schema (bs : bytes) : derr + list N :=
  match read_uvarint bs with
  | None => inl EEof
  | Some (cnt, r) =>
    if max_struct_count <? cnt then inl ELimit
    else match parse_counts (N.to_nat cnt) r [] with
         | None => inl EEof
         | Some l => inr l
         end
  end.

(* size table: ReadSizesFrom; returns (column id, size) in depth-first order for the columns that
   are present; absent descendants of an empty column get size 0 implicitly *)
Fixpoint parse_sizes (fuel : nat) (t : etree) (r : br) (limit : N)
  : derr + (list (positive * N) * br * N) :=
  match fuel with
  | O => inl EOther
  | S f =>
    match tree_col t with
    | None => inr ([], r, limit)
    | Some c =>
      let '(sz, r) := br_read_uvc r in
      if limit <? sz then inl ELimit
      else
        let limit := limit - sz in
        if sz =? 0 then inr ([(c, 0)], r, limit)
        else
          (fix go (ch : list etree) (r : br) (limit : N) (acc : list (positive * N))
             : derr + (list (positive * N) * br * N) :=
             match ch with
             | [] => inr (acc, r, limit)
             | x :: ch' =>
               match parse_sizes f x r limit with
               | inl e => inl e
               | inr (l, r, limit) => go ch' r limit (acc ++ l)
               end
             end) (tree_children t) r limit [(c, sz)]
    end
  end.

(* split the column data that follows the size table *)
Fixpoint split_cols (sizes : list (positive * N)) (bs : bytes) (acc : list (positive * bytes))
  : option (list (positive * bytes)) :=
  match sizes with
  | [] => Some acc
  | (c, sz) :: r =>
    match take sz bs with
    | None => None
    | Some (d, bs') => split_cols r bs' (acc ++ [(c, d)])
    end
  end.

(* data frame content -> (record count, column data) *)
Definition parse_data_frame (t : etree) (content : bytes)
  : derr + (N * list (positive * bytes)) :=
  match read_uvarint content with
  | None => inl EEof
  | Some (nrec, r) =>
    let remaining := N.of_nat (length r) in
    match read_uvarint r with
    | None => inl EEof
    | Some (tsize, r) =>
      if remaining <? tsize then inl ELimit
      else match take tsize r with
           | None => inl EEof
           | Some (tbl, r) =>
             match parse_sizes tree_fuel t (br_init tbl) (remaining - tsize) with
             | inl e => inl e
             | inr (sizes, _, _) =>
               match split_cols sizes r [] with
               | None => inl EEof
               | Some cols => inr (nrec, cols)
               end
             end
           end
    end
  end.
