(* The frame-content layer round trip: size table, column data, parse_data_frame of
   emit_data_frame_content, loading of the columns into the reader state, and the bridge to the
   record layer ([sync] of WireOk.v at the start of a frame). *)
From Coq Require Import List NArith ZArith Bool PArith Lia FMapPositive ZifyN ZifyNat ZifyBool.
From Stef Require Import Bits BitsFacts BitIO BitIOFacts Varint VarintFacts Codecs CodecFacts
                         Schema Wire WireOk Frame FrameFacts Reader Writer.
Import ListNotations.
Open Scope N_scope.
Ltac Zify.zify_post_hook ::= Z.div_mod_to_equations.

(* ------------------------------------------------------------------ bits <-> bytes *)
Lemma length_bits_of_bytes : forall bs, length (bits_of_bytes bs) = (8 * length bs)%nat.
Proof.
  unfold bits_of_bytes. induction bs as [|b bs IH]; [reflexivity|].
  cbn [flat_map length]. rewrite app_length, length_bits_of_N, IH. lia.
Qed.

Lemma bits_of_bytes_app : forall a b, bits_of_bytes (a ++ b) = bits_of_bytes a ++ bits_of_bytes b.
Proof. intros. unfold bits_of_bytes. apply flat_map_app. Qed.

Lemma bits_of_bytes_of_bits_fuel : forall k fuel l,
  length l = (8 * k)%nat -> (k <= fuel)%nat ->
  bits_of_bytes (bytes_of_bits_fuel fuel l) = l.
Proof.
  induction k as [|k IH]; intros fuel l Hl Hf.
  - destruct l; [|cbn in Hl; lia]. destruct fuel; reflexivity.
  - destruct fuel as [|f]; [lia|].
    destruct l as [|b l']; [cbn in Hl; lia|]. set (l := b :: l') in *.
    cbn [bytes_of_bits_fuel]. unfold l at 1. fold l.
    unfold bits_of_bytes. cbn [flat_map]. fold (bits_of_bytes (bytes_of_bits_fuel f (skipn 8 l))).
    assert (H8 : length (firstn 8 l) = 8%nat) by (rewrite firstn_length; lia).
    rewrite IH; [| rewrite skipn_length; lia | lia].
    rewrite <- H8 at 1. rewrite bits_of_N_of_bits. apply firstn_skipn.
Qed.

Lemma bits_of_bytes_of_bits : forall l, (length l mod 8 = 0)%nat ->
  bits_of_bytes (bytes_of_bits l) = l.
Proof.
  intros l H. unfold bytes_of_bits.
  apply (bits_of_bytes_of_bits_fuel (length l / 8)); lia.
Qed.

Lemma length_pad8 : forall l, (length (pad8 l) mod 8 = 0)%nat.
Proof. intros. unfold pad8. rewrite app_length, length_zeros. lia. Qed.

(* reading a closed bit column back: the bits followed by the zero padding *)
Theorem bits_of_column_bytes : forall b, bits_of_bytes (column_bytes b) = pad8 b.
Proof. intros. unfold column_bytes. apply bits_of_bytes_of_bits, length_pad8. Qed.

Lemma bytes_of_bits_fuel_length : forall k fuel l,
  length l = (8 * k)%nat -> (k <= fuel)%nat -> length (bytes_of_bits_fuel fuel l) = k.
Proof.
  induction k as [|k IH]; intros fuel l Hl Hf.
  - destruct l; [|cbn in Hl; lia]. destruct fuel; reflexivity.
  - destruct fuel as [|f]; [lia|].
    destruct l as [|b l']; [cbn in Hl; lia|]. set (l := b :: l') in *.
    cbn [bytes_of_bits_fuel]. unfold l at 1. fold l. cbn [length].
    rewrite IH; [reflexivity | rewrite skipn_length; lia | lia].
Qed.

Lemma length_column_bytes : forall b, length (column_bytes b) = ((length b + 7) / 8)%nat.
Proof.
  intros. unfold column_bytes, bytes_of_bits.
  pose proof (length_pad8 b) as Hp.
  rewrite (bytes_of_bits_fuel_length (length (pad8 b) / 8)); try lia.
  unfold pad8 in *. rewrite app_length, length_zeros in *. lia.
Qed.

Lemma column_bytes_nil_iff : forall b, column_bytes b = [] <-> b = [].
Proof.
  intros. split; intros H.
  - apply (f_equal (@length _)) in H. rewrite length_column_bytes in H. cbn [length] in H.
    destruct b; [reflexivity|]. cbn [length] in H. lia.
  - subst. reflexivity.
Qed.

Lemma br_init_wf : forall bs, br_wf (br_init bs).
Proof.
  intros. unfold br_wf, br_init. cbn [br_err br_pos br_rem br_len].
  rewrite length_bits_of_bytes. split; [reflexivity|lia].
Qed.

(* ------------------------------------------------------------------ trees *)
Fixpoint depth (t : etree) : nat :=
  match t with
  | EStruct _ _ _ _ _ _ fts => S (fold_right (fun x m => Nat.max (depth x) m) 0%nat fts)
  | EArr _ _ e => S (depth e)
  | EMap _ _ k v => S (Nat.max (depth k) (depth v))
  | _ => 1%nat
  end.

(* the column-bearing nodes of a tree, depth first (ERec / EBad leaves carry no column) *)
Fixpoint tree_nodes (t : etree) : list etree :=
  match t with
  | EPrim _ _ _ => [t]
  | EStruct _ _ _ _ _ _ fts => t :: flat_map tree_nodes fts
  | EArr _ _ e => t :: tree_nodes e
  | EMap _ _ k v => t :: tree_nodes k ++ tree_nodes v
  | _ => []
  end.

Fixpoint tree_cols (t : etree) : list positive :=
  match t with
  | EPrim c _ _ => [c]
  | EStruct c _ _ _ _ _ fts => c :: flat_map tree_cols fts
  | EArr c _ e => c :: tree_cols e
  | EMap c _ k v => c :: tree_cols k ++ tree_cols v
  | _ => []
  end.

Lemma depth_pos : forall t, (1 <= depth t)%nat.
Proof. destruct t; cbn [depth]; lia. Qed.

Lemma depth_children : forall t x, In x (tree_children t) -> (S (depth x) <= depth t)%nat.
Proof.
  intros t x H. destruct t; cbn [tree_children] in H; try contradiction; cbn [depth].
  - induction fields as [|y l IH]; [contradiction|]. cbn [fold_right].
    destruct H as [->|H]; [lia|]. specialize (IH H). lia.
  - destruct H as [->|[]]. lia.
  - destruct H as [->|[->|[]]]; lia.
Qed.

Lemma tree_nodes_unfold : forall t,
  tree_nodes t = match tree_col t with
                 | None => []
                 | Some _ => t :: flat_map tree_nodes (tree_children t)
                 end.
Proof.
  destruct t; cbn [tree_nodes tree_col tree_children flat_map]; rewrite ?app_nil_r; reflexivity.
Qed.

Lemma tree_cols_unfold : forall t,
  tree_cols t = match tree_col t with
                | None => []
                | Some c => c :: flat_map tree_cols (tree_children t)
                end.
Proof.
  destruct t; cbn [tree_cols tree_col tree_children flat_map]; rewrite ?app_nil_r; reflexivity.
Qed.

(* induction over the children relation *)
Lemma etree_children_ind : forall P : etree -> Prop,
  (forall t, (forall x, In x (tree_children t) -> P x) -> P t) -> forall t, P t.
Proof.
  intros P H.
  assert (Hn : forall n t, (depth t <= n)%nat -> P t).
  { induction n as [|n IH]; intros t Hd.
    - pose proof (depth_pos t). lia.
    - apply H. intros x Hx. apply IH. pose proof (depth_children t x Hx). lia. }
  intros t. apply (Hn (depth t)). lia.
Qed.

Definition node_col (x : etree) : positive := match tree_col x with Some c => c | None => 1%positive end.

Lemma flat_map_ext_in : forall {A B} (f g : A -> list B) l,
  (forall x, In x l -> f x = g x) -> flat_map f l = flat_map g l.
Proof.
  intros A B f g l. induction l as [|a l IH]; intros H; [reflexivity|].
  cbn [flat_map]. rewrite H by (left; reflexivity). rewrite IH; [reflexivity|].
  intros x Hx. apply H. right. exact Hx.
Qed.

Lemma map_flat_map : forall {A B C} (g : B -> C) (f : A -> list B) l,
  map g (flat_map f l) = flat_map (fun x => map g (f x)) l.
Proof.
  intros. induction l as [|a l IH]; [reflexivity|]. cbn [flat_map]. rewrite map_app, IH. reflexivity.
Qed.

Lemma tree_cols_nodes : forall t, tree_cols t = map node_col (tree_nodes t).
Proof.
  induction t as [t IH] using etree_children_ind.
  rewrite tree_cols_unfold, tree_nodes_unfold.
  destruct (tree_col t) as [c|] eqn:Hc; [|reflexivity].
  cbn [map]. unfold node_col at 1. rewrite Hc. f_equal.
  rewrite map_flat_map. apply flat_map_ext_in. exact IH.
Qed.

Lemma tree_nodes_col : forall t x, In x (tree_nodes t) -> tree_col x = Some (node_col x).
Proof.
  induction t as [t IH] using etree_children_ind. intros x Hx.
  rewrite tree_nodes_unfold in Hx. destruct (tree_col t) as [c|] eqn:Hc; [|contradiction].
  destruct Hx as [<-|Hx].
  - unfold node_col. rewrite Hc. reflexivity.
  - apply in_flat_map in Hx. destruct Hx as [ch [Hch Hx]]. exact (IH ch Hch x Hx).
Qed.

Lemma tree_nodes_self : forall t c, tree_col t = Some c -> In t (tree_nodes t).
Proof. intros t c H. rewrite tree_nodes_unfold, H. left. reflexivity. Qed.

Lemma tree_nodes_child : forall t ch x, tree_col t <> None -> In ch (tree_children t) ->
  In x (tree_nodes ch) -> In x (tree_nodes t).
Proof.
  intros t ch x Hc Hch Hx. rewrite tree_nodes_unfold. destruct (tree_col t); [|congruence].
  right. apply in_flat_map. exists ch. split; assumption.
Qed.

(* the nodes of a node of t are nodes of t *)
Lemma tree_nodes_trans : forall t x y, In x (tree_nodes t) -> In y (tree_nodes x) -> In y (tree_nodes t).
Proof.
  induction t as [t IH] using etree_children_ind. intros x y Hx Hy.
  rewrite tree_nodes_unfold in Hx. destruct (tree_col t) as [c|] eqn:Hc; [|contradiction].
  destruct Hx as [<-|Hx]; [exact Hy|].
  apply in_flat_map in Hx. destruct Hx as [ch [Hch Hx]].
  apply (tree_nodes_child t ch); [congruence|exact Hch|]. exact (IH ch Hch x y Hx Hy).
Qed.

Lemma node_children_nodes : forall t x ch, In x (tree_nodes t) -> In ch (tree_children x) ->
  forall y, In y (tree_nodes ch) -> In y (tree_nodes t).
Proof.
  intros t x ch Hx Hch y Hy. apply (tree_nodes_trans t x y Hx).
  apply (tree_nodes_child x ch); [|exact Hch|exact Hy].
  rewrite (tree_nodes_col t x Hx). discriminate.
Qed.

Lemma NoDup_map_inj : forall {A B} (f : A -> B) l a b,
  NoDup (map f l) -> In a l -> In b l -> f a = f b -> a = b.
Proof.
  intros A B f l. induction l as [|x l IH]; intros a b Hnd Ha Hb Hf; [contradiction|].
  cbn [map] in Hnd. inversion Hnd as [|? ? Hni Hnd']; subst.
  destruct Ha as [<-|Ha], Hb as [<-|Hb]; try reflexivity.
  - exfalso. apply Hni. rewrite Hf. apply in_map. exact Hb.
  - exfalso. apply Hni. rewrite <- Hf. apply in_map. exact Ha.
  - apply IH; assumption.
Qed.

(* with pairwise distinct column ids a column identifies its node *)
Lemma node_unique : forall t x y, NoDup (tree_cols t) ->
  In x (tree_nodes t) -> In y (tree_nodes t) -> node_col x = node_col y -> x = y.
Proof. intros t x y Hnd. rewrite tree_cols_nodes in Hnd. apply NoDup_map_inj. exact Hnd. Qed.

(* ------------------------------------------------------------------ F1: the size table *)
(* (column id, byte size) in depth-first preorder; the descendants of a column whose data is
   empty are omitted: what [emit_sizes] writes *)
Fixpoint present_cols (fuel : nat) (st : wst) (t : etree) : list (positive * N) :=
  match fuel with
  | O => []
  | S f =>
    match tree_col t with
    | None => []
    | Some c =>
      let d := col_data st t in
      (c, N.of_nat (length d)) ::
      (if (length d =? 0)%nat then [] else flat_map (present_cols f st) (tree_children t))
    end
  end.

(* the same walk with the data instead of the sizes *)
Fixpoint present_data (fuel : nat) (st : wst) (t : etree) : list (positive * bytes) :=
  match fuel with
  | O => []
  | S f =>
    match tree_col t with
    | None => []
    | Some c =>
      let d := col_data st t in
      (c, d) :: (if (length d =? 0)%nat then [] else flat_map (present_data f st) (tree_children t))
    end
  end.

Definition sizes_total (l : list (positive * N)) : N := fold_right (fun x a => snd x + a) 0 l.

Lemma sizes_total_app : forall a b, sizes_total (a ++ b) = sizes_total a + sizes_total b.
Proof.
  induction a as [|x a IH]; intros b; [reflexivity|].
  unfold sizes_total in *. cbn [app fold_right]. rewrite IH. lia.
Qed.

(* every column of the writer state, closed, is shorter than 2^48 bytes *)
Definition wst_small (st : wst) : Prop :=
  forall c, N.of_nat (length (column_bytes (wc_bits (wget st c)))) < two48 /\
            N.of_nat (length (wc_bytes (wget st c))) < two48.

Lemma col_data_small : forall st t, wst_small st -> N.of_nat (length (col_data st t)) < two48.
Proof.
  intros st t H. unfold col_data. destruct (tree_col t) as [c|]; [|reflexivity].
  destruct (H c). destruct (is_bit_col t); assumption.
Qed.

Theorem parse_sizes_emit : forall fuel t st r rest limit,
  (depth t <= fuel)%nat -> wst_small st -> br_wf r ->
  br_rem r = emit_sizes fuel st t ++ rest ->
  sizes_total (present_cols fuel st t) <= limit ->
  exists r', parse_sizes fuel t r limit
             = inr (present_cols fuel st t, r', limit - sizes_total (present_cols fuel st t)) /\
             br_wf r' /\ br_rem r' = rest.
Proof.
  induction fuel as [|f IH]; intros t st r rest limit Hd Hs Hwf Hrem Hlim.
  - pose proof (depth_pos t). lia.
  - cbn [parse_sizes present_cols emit_sizes] in *.
    destruct (tree_col t) as [c|] eqn:Hc.
    2:{ exists r. cbn [sizes_total fold_right app] in *. rewrite N.sub_0_r. auto. }
    set (d := col_data st t) in *.
    rewrite <- app_assoc in Hrem.
    destruct (uvc_roundtrip r _ _ (col_data_small st t Hs) Hwf Hrem) as [r1 [Hr1 [Hwf1 Hrem1]]].
    fold d in Hr1. rewrite Hr1.
    cbn [sizes_total fold_right snd] in Hlim. fold (sizes_total) in Hlim.
    change (fold_right (fun x a => snd x + a) 0) with sizes_total in *.
    cbn [sizes_total fold_right snd]. change (fold_right (fun x a => snd x + a) 0) with sizes_total.
    destruct (N.ltb_spec limit (N.of_nat (length d))); [lia|].
    destruct (Nat.eqb_spec (length d) 0) as [Hz|Hnz].
    + rewrite Hz. cbn [N.of_nat N.eqb]. exists r1. cbn [app] in Hrem1.
      cbn [sizes_total fold_right]. rewrite N.add_0_r. auto.
    + destruct (N.eqb_spec (N.of_nat (length d)) 0); [lia|].
      (* the children *)
      assert (Hgo : forall ch r limit acc,
                (forall x, In x ch -> (depth x <= f)%nat) -> br_wf r ->
                br_rem r = flat_map (emit_sizes f st) ch ++ rest ->
                sizes_total (flat_map (present_cols f st) ch) <= limit ->
                exists r',
                  (fix go (ch : list etree) (r : br) (limit : N) (acc : list (positive * N))
                     : derr + (list (positive * N) * br * N) :=
                     match ch with
                     | [] => inr (acc, r, limit)
                     | x :: ch' =>
                       match parse_sizes f x r limit with
                       | inl e => inl e
                       | inr (l, r, limit) => go ch' r limit (acc ++ l)
                       end
                     end) ch r limit acc
                  = inr (acc ++ flat_map (present_cols f st) ch, r',
                         limit - sizes_total (flat_map (present_cols f st) ch)) /\
                  br_wf r' /\ br_rem r' = rest).
      { induction ch as [|x ch IHch]; intros r0 lim acc Hdx Hwf0 Hrem0 Hlim0.
        - exists r0. cbn [flat_map sizes_total fold_right app] in *.
          rewrite app_nil_r, N.sub_0_r. auto.
        - cbn [flat_map] in *. rewrite <- app_assoc in Hrem0. rewrite sizes_total_app in Hlim0.
          destruct (IH x st r0 _ lim (Hdx x (or_introl eq_refl)) Hs Hwf0 Hrem0) as [r2 [Hp [Hwf2 Hrem2]]]; [lia|].
          rewrite Hp.
          destruct (IHch r2 (lim - sizes_total (present_cols f st x)) (acc ++ present_cols f st x))
            as [r3 [Hg [Hwf3 Hrem3]]]; auto; [intros y Hy; apply Hdx; right; exact Hy | lia |].
          exists r3. rewrite Hg, sizes_total_app, <- app_assoc. split; [|auto].
          f_equal. f_equal. lia. }
      destruct (Hgo (tree_children t) r1 (limit - N.of_nat (length d)) [(c, N.of_nat (length d))])
        as [r2 [Hg [Hwf2 Hrem2]]]; auto.
      { intros x Hx. pose proof (depth_children t x Hx). lia. }
      { lia. }
      exists r2. rewrite Hg. split; [|auto]. cbn [app]. f_equal. f_equal. lia.
Qed.

(* ------------------------------------------------------------------ F2: the column data *)
Lemma present_cols_data : forall fuel st t,
  present_cols fuel st t = map (fun x => (fst x, N.of_nat (length (snd x)))) (present_data fuel st t).
Proof.
  induction fuel as [|f IH]; intros st t; [reflexivity|].
  cbn [present_cols present_data]. destruct (tree_col t) as [c|]; [|reflexivity].
  cbn [map fst snd]. f_equal. destruct (length (col_data st t) =? 0)%nat; [reflexivity|].
  rewrite map_flat_map. apply flat_map_ext_in. intros x _. apply IH.
Qed.

Lemma split_cols_app : forall (l1 : list (positive * bytes)) more rest acc,
  split_cols (map (fun x => (fst x, N.of_nat (length (snd x)))) l1 ++ more)
             (flat_map snd l1 ++ rest) acc
  = split_cols more rest (acc ++ l1).
Proof.
  induction l1 as [|[c d] l1 IH]; intros more rest acc.
  - cbn [map flat_map app]. rewrite app_nil_r. reflexivity.
  - cbn [map flat_map app fst snd split_cols]. rewrite <- app_assoc, take_app_exact.
    rewrite IH, <- app_assoc. reflexivity.
Qed.

Lemma flat_map_flat_map : forall {A B C} (g : B -> list C) (f : A -> list B) l,
  flat_map g (flat_map f l) = flat_map (fun x => flat_map g (f x)) l.
Proof.
  intros. induction l as [|a l IH]; [reflexivity|]. cbn [flat_map]. rewrite flat_map_app, IH. reflexivity.
Qed.

Lemma emit_data_present : forall fuel st t, emit_data fuel st t = flat_map snd (present_data fuel st t).
Proof.
  induction fuel as [|f IH]; intros st t; [reflexivity|].
  cbn [emit_data present_data]. destruct (tree_col t) as [c|]; [|reflexivity].
  cbn [flat_map snd]. f_equal. destruct (length (col_data st t) =? 0)%nat; [reflexivity|].
  rewrite flat_map_flat_map. apply flat_map_ext_in. intros x _. apply IH.
Qed.

(* the data of the present columns is split off exactly; what follows is left for what follows *)
Theorem split_cols_emit_gen : forall fuel st t more rest acc,
  split_cols (present_cols fuel st t ++ more) (emit_data fuel st t ++ rest) acc
  = split_cols more rest (acc ++ present_data fuel st t).
Proof. intros. rewrite present_cols_data, emit_data_present. apply split_cols_app. Qed.

Theorem split_cols_emit : forall fuel st t acc,
  split_cols (present_cols fuel st t) (emit_data fuel st t) acc = Some (acc ++ present_data fuel st t).
Proof.
  intros. pose proof (split_cols_emit_gen fuel st t [] [] acc) as H.
  rewrite !app_nil_r in H. exact H.
Qed.

Lemma sizes_total_data : forall fuel st t,
  sizes_total (present_cols fuel st t) = N.of_nat (length (emit_data fuel st t)).
Proof.
  intros. rewrite present_cols_data, emit_data_present.
  induction (present_data fuel st t) as [|[c d] l IH]; [reflexivity|].
  cbn [map flat_map fst snd]. rewrite app_length. unfold sizes_total in *. cbn [fold_right snd].
  rewrite IH. lia.
Qed.

(* every entry of the split is a node of the tree with its data *)
Lemma present_data_in : forall fuel st t c d, In (c, d) (present_data fuel st t) ->
  exists x, In x (tree_nodes t) /\ tree_col x = Some c /\ d = col_data st x.
Proof.
  induction fuel as [|f IH]; intros st t c d H; [contradiction|].
  cbn [present_data] in H. destruct (tree_col t) as [c0|] eqn:Hc; [|contradiction].
  destruct H as [H|H].
  - inversion H; subst. exists t. split; [apply (tree_nodes_self t c Hc)|auto].
  - destruct (length (col_data st t) =? 0)%nat; [contradiction|].
    apply in_flat_map in H. destruct H as [ch [Hch H]].
    destruct (IH st ch c d H) as [x [Hx Hxc]]. exists x. split; [|exact Hxc].
    apply (tree_nodes_child t ch); [congruence|exact Hch|exact Hx].
Qed.

(* ------------------------------------------------------------------ F3: the frame content *)
Definition frame_content_ok (st : wst) (t : etree) (nrec : N) : Prop :=
  nrec < two64 /\
  N.of_nat (length (column_bytes (emit_sizes tree_fuel st t))) < two64 /\
  wst_small st /\ (depth t <= tree_fuel)%nat.

Theorem parse_data_frame_emit : forall st t nrec, frame_content_ok st t nrec ->
  parse_data_frame t (emit_data_frame_content st t nrec) = inr (nrec, present_data tree_fuel st t).
Proof.
  intros st t nrec (Hn & Htl & Hs & Hd).
  unfold parse_data_frame, emit_data_frame_content, read_uvarint.
  set (tbl := column_bytes (emit_sizes tree_fuel st t)) in *.
  rewrite leb_roundtrip by exact Hn.
  rewrite leb_roundtrip by exact Htl.
  rewrite !app_length.
  destruct (N.ltb_spec (N.of_nat (length (leb_enc (N.of_nat (length tbl))) +
                                  (length tbl + length (emit_data tree_fuel st t))))
                       (N.of_nat (length tbl))); [lia|].
  rewrite take_app_exact.
  destruct (parse_sizes_emit tree_fuel t st (br_init tbl)
              (zeros ((8 - length (emit_sizes tree_fuel st t) mod 8) mod 8))
              (N.of_nat (length (leb_enc (N.of_nat (length tbl))) +
                         (length tbl + length (emit_data tree_fuel st t))) - N.of_nat (length tbl))
              Hd Hs (br_init_wf tbl)) as [r' [Hp _]].
  - unfold br_init. cbn [br_rem]. unfold tbl. rewrite bits_of_column_bytes. reflexivity.
  - rewrite sizes_total_data. lia.
  - rewrite Hp. rewrite split_cols_emit. reflexivity.
Qed.

(* ------------------------------------------------------------------ F4: loading the columns *)
Definition loaded_col (cols : list (positive * bytes)) (restart : bool) (old : PM.t rcol)
           (c : positive) : rcol :=
  let d := col_lookup cols c in
  let o := match PM.find c old with Some x => x | None => rcol0 end in
  mkRcol (br_init d) d (if restart then u64_init else rc_u o) (if restart then f64_init else rc_f o).

Lemma load_cols_spec : forall fuel t cols restart old c m, (depth t <= fuel)%nat ->
  (In c (tree_cols t) -> PM.find c (load_cols fuel t cols restart m old) = Some (loaded_col cols restart old c)) /\
  (~ In c (tree_cols t) -> PM.find c (load_cols fuel t cols restart m old) = PM.find c m).
Proof.
  induction fuel as [|f IH]; intros t cols restart old c m Hd.
  - pose proof (depth_pos t). lia.
  - cbn [load_cols]. rewrite tree_cols_unfold. destruct (tree_col t) as [c0|] eqn:Hc.
    2:{ split; [intros []|reflexivity]. }
    assert (Hfold : forall ch m,
              (forall x, In x ch -> (depth x <= f)%nat) ->
              (In c (flat_map tree_cols ch) ->
               PM.find c (fold_left (fun m ch => load_cols f ch cols restart m old) ch m)
               = Some (loaded_col cols restart old c)) /\
              (~ In c (flat_map tree_cols ch) ->
               PM.find c (fold_left (fun m ch => load_cols f ch cols restart m old) ch m) = PM.find c m)).
    { induction ch as [|x ch IHch]; intros m0 Hdx.
      - cbn [flat_map fold_left]. split; [intros []|reflexivity].
      - cbn [flat_map fold_left].
        destruct (IH x cols restart old c m0 (Hdx x (or_introl eq_refl))) as [Hx1 Hx2].
        destruct (IHch (load_cols f x cols restart m0 old) (fun y Hy => Hdx y (or_intror Hy))) as [Hc1 Hc2].
        split.
        + intros Hin. apply in_app_or in Hin.
          destruct (in_dec Pos.eq_dec c (flat_map tree_cols ch)) as [Hi|Hni]; [exact (Hc1 Hi)|].
          rewrite (Hc2 Hni). destruct Hin as [Hin|Hin]; [exact (Hx1 Hin)|contradiction].
        + intros Hni. rewrite Hc2 by (intros Hi; apply Hni, in_or_app; right; exact Hi).
          apply Hx2. intros Hi. apply Hni, in_or_app. left. exact Hi. }
    match goal with |- context [PM.add c0 ?x m] => set (x0 := x) end.
    destruct (Hfold (tree_children t) (PM.add c0 x0 m)) as [H1 H2].
    { intros x Hx. pose proof (depth_children t x Hx). lia. }
    split.
    + intros Hin.
      destruct (in_dec Pos.eq_dec c (flat_map tree_cols (tree_children t))) as [Hi|Hni]; [exact (H1 Hi)|].
      rewrite (H2 Hni). destruct Hin as [<-|Hin]; [|contradiction].
      rewrite PM.gss. reflexivity.
    + intros Hni. rewrite H2 by (intros Hi; apply Hni; right; exact Hi).
      apply PM.gso. intros ->. apply Hni. left. reflexivity.
Qed.

(* every column of the tree gets the frame's data and the old (or initial) codec state; no other
   column is touched *)
Theorem load_cols_tree : forall t cols restart old c, (depth t <= tree_fuel)%nat ->
  PM.find c (load_cols tree_fuel t cols restart (PM.empty _) old)
  = if in_dec Pos.eq_dec c (tree_cols t) then Some (loaded_col cols restart old c) else None.
Proof.
  intros t cols restart old c Hd.
  destruct (load_cols_spec tree_fuel t cols restart old c (PM.empty _) Hd) as [H1 H2].
  destruct (in_dec Pos.eq_dec c (tree_cols t)) as [Hi|Hni]; [exact (H1 Hi)|].
  rewrite (H2 Hni). apply PM.gempty.
Qed.

(* ------------------------------------------------------------------ F5: the columns of a frame *)
(* hereditary emptiness: below a column without data there is no data (every encoder writes to
   its own column before its children do) *)
Definition elision_ok (st : wst) (t : etree) : Prop :=
  forall x, In x (tree_nodes t) -> col_data st x = [] ->
  forall y, In y (tree_children x) -> col_data st y = [].

Lemma nodes_nonempty_self : forall ch y, In y (tree_nodes ch) -> In ch (tree_nodes ch).
Proof.
  intros ch y H. rewrite tree_nodes_unfold in *. destruct (tree_col ch); [left; reflexivity|contradiction].
Qed.

Lemma elided_empty : forall root st, elision_ok st root ->
  forall x, In x (tree_nodes root) -> col_data st x = [] ->
  forall y, In y (tree_nodes x) -> col_data st y = [].
Proof.
  intros root st He. induction x as [x IH] using etree_children_ind. intros Hx Hd y Hy.
  rewrite tree_nodes_unfold in Hy. destruct (tree_col x) as [c|] eqn:Hc; [|contradiction].
  destruct Hy as [<-|Hy]; [exact Hd|].
  apply in_flat_map in Hy. destruct Hy as [ch [Hch Hy]].
  apply (IH ch Hch); [|exact (He x Hx Hd ch Hch)|exact Hy].
  apply (node_children_nodes root x ch Hx Hch). exact (nodes_nonempty_self ch y Hy).
Qed.

Lemma length_eqb0_nil : forall {A} (l : list A), (length l =? 0)%nat = true -> l = [].
Proof. intros A l H. destruct l; [reflexivity|discriminate]. Qed.

Lemma present_or_empty : forall root st, elision_ok st root ->
  forall fuel t, In t (tree_nodes root) -> (depth t <= fuel)%nat ->
  forall x, In x (tree_nodes t) ->
  In (node_col x, col_data st x) (present_data fuel st t) \/ col_data st x = [].
Proof.
  intros root st He. induction fuel as [|f IH]; intros t Ht Hd x Hx.
  - pose proof (depth_pos t). lia.
  - cbn [present_data]. rewrite tree_nodes_unfold in Hx.
    destruct (tree_col t) as [c|] eqn:Hc; [|contradiction].
    destruct Hx as [<-|Hx].
    + left. left. unfold node_col. rewrite Hc. reflexivity.
    + destruct (length (col_data st t) =? 0)%nat eqn:Hz.
      * right. apply (elided_empty root st He t Ht (length_eqb0_nil _ Hz)).
        rewrite tree_nodes_unfold, Hc. right. exact Hx.
      * apply in_flat_map in Hx. destruct Hx as [ch [Hch Hx]].
        destruct (IH ch) with (x := x) as [Hin|Hem]; [| |exact Hx| |right; exact Hem].
        -- apply (node_children_nodes root t ch Ht Hch). exact (nodes_nonempty_self ch x Hx).
        -- pose proof (depth_children t ch Hch). lia.
        -- left. right. apply in_flat_map. exists ch. split; assumption.
Qed.

(* the reader's lookup of a node's column in the split data finds that node's data *)
Theorem col_lookup_present : forall fuel st t x,
  NoDup (tree_cols t) -> elision_ok st t -> (depth t <= fuel)%nat -> In x (tree_nodes t) ->
  col_lookup (present_data fuel st t) (node_col x) = col_data st x.
Proof.
  intros fuel st t x Hnd He Hd Hx. unfold col_lookup.
  destruct (find _ (present_data fuel st t)) as [[c' d']|] eqn:Hf.
  - apply find_some in Hf. destruct Hf as [Hin Heq]. cbn [fst] in Heq.
    apply Pos.eqb_eq in Heq. subst c'.
    destruct (present_data_in fuel st t _ _ Hin) as [x' [Hx' [Hc' ->]]].
    assert (x' = x); [|subst; reflexivity].
    apply (node_unique t); auto. unfold node_col at 1. rewrite Hc'. reflexivity.
  - assert (Ht : In t (tree_nodes t)) by exact (nodes_nonempty_self t x Hx).
    destruct (present_or_empty t st He fuel t Ht Hd x Hx) as [Hin|Hem]; [|symmetry; exact Hem].
    pose proof (find_none _ _ Hf _ Hin) as Hn. cbn [fst] in Hn. rewrite Pos.eqb_refl in Hn. discriminate.
Qed.

(* the node that owns a column, and the frame's bytes for a column (none outside the tree) *)
Definition node_of (t : etree) (c : positive) : option etree :=
  find (fun x => Pos.eqb (node_col x) c) (tree_nodes t).
Definition frame_col (st : wst) (t : etree) (c : positive) : bytes :=
  match node_of t c with Some x => col_data st x | None => [] end.

Lemma node_of_in : forall t x, NoDup (tree_cols t) -> In x (tree_nodes t) -> node_of t (node_col x) = Some x.
Proof.
  intros t x Hnd Hx. unfold node_of.
  destruct (find _ (tree_nodes t)) as [y|] eqn:Hf.
  - apply find_some in Hf. destruct Hf as [Hy Heq]. apply Pos.eqb_eq in Heq.
    f_equal. apply (node_unique t); auto.
  - pose proof (find_none _ _ Hf _ Hx) as Hn. cbn in Hn. rewrite Pos.eqb_refl in Hn. discriminate.
Qed.

Lemma node_of_out : forall t c, ~ In c (tree_cols t) -> node_of t c = None.
Proof.
  intros t c Hni. unfold node_of. destruct (find _ (tree_nodes t)) as [y|] eqn:Hf; [|reflexivity].
  apply find_some in Hf. destruct Hf as [Hy Heq]. apply Pos.eqb_eq in Heq.
  exfalso. apply Hni. rewrite tree_cols_nodes, <- Heq. apply in_map. exact Hy.
Qed.

Lemma tree_cols_node : forall t c, In c (tree_cols t) -> exists x, In x (tree_nodes t) /\ node_col x = c.
Proof.
  intros t c H. rewrite tree_cols_nodes in H. apply in_map_iff in H.
  destruct H as [x [Hc Hx]]. exists x. auto.
Qed.

Lemma frame_col_lookup : forall st t c,
  NoDup (tree_cols t) -> elision_ok st t -> (depth t <= tree_fuel)%nat -> In c (tree_cols t) ->
  col_lookup (present_data tree_fuel st t) c = frame_col st t c.
Proof.
  intros st t c Hnd He Hd Hc. destruct (tree_cols_node t c Hc) as [x [Hx <-]].
  unfold frame_col. rewrite (node_of_in t x Hnd Hx). apply col_lookup_present; assumption.
Qed.

(* the complete content of every column of the frame, as the reader sees it: the bytes of the
   column and, for the bit reader, their bits (for a bit column: the bits written followed by the
   zero padding, see [frame_totals_bit]) *)
Definition frame_totals (st : wst) (t : etree) : totals :=
  mkTot (fun c => bits_of_bytes (frame_col st t c)) (frame_col st t).

Lemma frame_totals_bit : forall st t x, NoDup (tree_cols t) -> In x (tree_nodes t) -> is_bit_col x = true ->
  let c := node_col x in
  t_bits (frame_totals st t) c
  = wc_bits (wget st c) ++ zeros ((8 - length (wc_bits (wget st c)) mod 8) mod 8) /\
  t_bytes (frame_totals st t) c = column_bytes (wc_bits (wget st c)).
Proof.
  intros st t x Hnd Hx Hb c. unfold frame_totals. cbn [t_bits t_bytes].
  unfold frame_col, c. rewrite (node_of_in t x Hnd Hx). unfold col_data.
  rewrite (tree_nodes_col t x Hx), Hb. rewrite bits_of_column_bytes. split; reflexivity.
Qed.

Lemma frame_totals_bytes : forall st t x, NoDup (tree_cols t) -> In x (tree_nodes t) -> is_bit_col x = false ->
  let c := node_col x in
  t_bytes (frame_totals st t) c = wc_bytes (wget st c) /\
  t_bits (frame_totals st t) c = bits_of_bytes (wc_bytes (wget st c)).
Proof.
  intros st t x Hnd Hx Hb c. unfold frame_totals. cbn [t_bits t_bytes].
  unfold frame_col, c. rewrite (node_of_in t x Hnd Hx). unfold col_data.
  rewrite (tree_nodes_col t x Hx), Hb. split; reflexivity.
Qed.

Lemma frame_totals_outside : forall st t c, ~ In c (tree_cols t) ->
  t_bits (frame_totals st t) c = [] /\ t_bytes (frame_totals st t) c = [].
Proof.
  intros st t c H. unfold frame_totals, frame_col. cbn [t_bits t_bytes].
  rewrite (node_of_out t c H). split; reflexivity.
Qed.

(* the writer keeps bits out of byte columns and bytes out of bit columns, and touches no column
   outside the tree *)
Definition kind_ok (st : wst) (t : etree) : Prop :=
  forall x, In x (tree_nodes t) ->
  if is_bit_col x then wc_bytes (wget st (node_col x)) = [] else wc_bits (wget st (node_col x)) = [].
Definition outside_default (st : wst) (t : etree) : Prop :=
  forall c, ~ In c (tree_cols t) -> wget st c = wcol0.

Theorem frame_totals_extends : forall st t, NoDup (tree_cols t) ->
  kind_ok st t -> outside_default st t -> extends (frame_totals st t) st.
Proof.
  intros st t Hnd Hk Ho c.
  destruct (in_dec Pos.eq_dec c (tree_cols t)) as [Hi|Hni].
  - destruct (tree_cols_node t c Hi) as [x [Hx <-]]. specialize (Hk x Hx).
    destruct (is_bit_col x) eqn:Hb.
    + destruct (frame_totals_bit st t x Hnd Hx Hb) as [H1 H2]. rewrite H1, H2, Hk.
      split; eexists; [reflexivity|cbn [app]; reflexivity].
    + destruct (frame_totals_bytes st t x Hnd Hx Hb) as [H1 H2]. rewrite H1, H2, Hk.
      split; eexists; [cbn [app]; reflexivity|symmetry; apply app_nil_r].
  - destruct (frame_totals_outside st t c Hni) as [H1 H2]. rewrite H1, H2, (Ho c Hni).
    cbn [wcol0 wc_bits wc_bytes]. split; exists []; reflexivity.
Qed.

(* what is carried from one frame to the next: codec states, dictionaries, no error *)
Record carry (ws : wst) (rs : rst) : Prop := {
  ca_u : forall c, rc_u (rget rs c) = wc_u (wget ws c) /\ u64_wf (wc_u (wget ws c));
  ca_f : forall c, rc_f (rget rs c) = wc_f (wget ws c) /\ f64_wf (wc_f (wget ws c));
  ca_sd : forall d, r_sd rs d = w_sd ws d;
  ca_tl : forall d, r_tl rs d = w_tl ws d;
  ca_noerr : w_err ws = false
}.

Definition acc_empty (ws : wst) : Prop :=
  forall c, wc_bits (wget ws c) = [] /\ wc_bytes (wget ws c) = [].

Lemma u64_init_wf : u64_wf u64_init.
Proof. unfold u64_wf, u64_init, two64. cbn. lia. Qed.
Lemma f64_init_wf : f64_wf f64_init.
Proof. unfold f64_wf, f64_init, two64. cbn. lia. Qed.

Lemma wget_map : forall (g : wcol -> wcol) st sd tl e c, g wcol0 = wcol0 ->
  wget (mkWst (PM.map g (w_cols st)) sd tl e) c = g (wget st c).
Proof.
  intros g st sd tl e c Hg. unfold wget. cbn [w_cols]. unfold PM.map. rewrite PM.gmapi.
  destruct (PM.find c (w_cols st)); [reflexivity|symmetry; exact Hg].
Qed.

Lemma wget_clear : forall st c,
  wget (w_clear st) c = mkWcol [] [] (wc_u (wget st c)) (wc_f (wget st c)).
Proof. intros. unfold w_clear. rewrite wget_map; reflexivity. Qed.

Lemma wget_restart : forall fl st c,
  wget (w_restart fl st) c =
  if N.testbit fl 2 then mkWcol (wc_bits (wget st c)) (wc_bytes (wget st c)) u64_init f64_init
  else wget st c.
Proof.
  intros. unfold w_restart.
  destruct (N.testbit fl 2), (N.testbit fl 0); try (rewrite wget_map; reflexivity); reflexivity.
Qed.

Lemma w_sd_restart : forall fl st d,
  w_sd (w_restart fl st) d = if N.testbit fl 0 then [] else w_sd st d.
Proof.
  intros. unfold w_restart, w_sd. destruct (N.testbit fl 0); cbn [w_sdict]; [|reflexivity].
  rewrite PM.gempty. reflexivity.
Qed.
Lemma w_tl_restart : forall fl st d,
  w_tl (w_restart fl st) d = if N.testbit fl 0 then 1 else w_tl st d.
Proof.
  intros. unfold w_restart, w_tl. destruct (N.testbit fl 0); cbn [w_tlen]; [|reflexivity].
  rewrite PM.gempty. reflexivity.
Qed.
Lemma w_err_restart : forall fl st, w_err (w_restart fl st) = w_err st.
Proof. intros. unfold w_restart. destruct (N.testbit fl 0); reflexivity. Qed.

(* the reader state after Continue() on a data frame *)
Definition frame_rst (t : etree) (fl : N) (cols : list (positive * bytes)) (rs0 : rst) : rst :=
  let cm := load_cols tree_fuel t cols (flag_codecs fl) (PM.empty _) (r_cols rs0) in
  if flag_dicts fl then mkRst cm (PM.empty _) (PM.empty _) 0
  else mkRst cm (r_sdict rs0) (r_tlen rs0) 0.

Lemma rget_frame_rst : forall t fl cols rs0 c, (depth t <= tree_fuel)%nat ->
  rget (frame_rst t fl cols rs0) c =
  if in_dec Pos.eq_dec c (tree_cols t)
  then mkRcol (br_init (col_lookup cols c)) (col_lookup cols c)
              (if flag_codecs fl then u64_init else rc_u (rget rs0 c))
              (if flag_codecs fl then f64_init else rc_f (rget rs0 c))
  else rcol0.
Proof.
  intros t fl cols rs0 c Hd. unfold frame_rst, rget at 1.
  assert (Hc : r_cols (if flag_dicts fl
                       then mkRst (load_cols tree_fuel t cols (flag_codecs fl) (PM.empty _) (r_cols rs0)) (PM.empty _) (PM.empty _) 0
                       else mkRst (load_cols tree_fuel t cols (flag_codecs fl) (PM.empty _) (r_cols rs0)) (r_sdict rs0) (r_tlen rs0) 0)
               = load_cols tree_fuel t cols (flag_codecs fl) (PM.empty _) (r_cols rs0))
    by (destruct (flag_dicts fl); reflexivity).
  rewrite Hc, load_cols_tree by exact Hd.
  destruct (in_dec Pos.eq_dec c (tree_cols t)); reflexivity.
Qed.

(* F5: the reader state produced from the frame content of [st_end] is in [sync] with the
   writer state at the start of the frame, for the totals [frame_totals st_end t] *)
Theorem frame_start_sync : forall t fl ws0 rs0 st_end,
  NoDup (tree_cols t) -> (depth t <= tree_fuel)%nat -> elision_ok st_end t ->
  carry ws0 rs0 -> acc_empty ws0 -> outside_default ws0 t ->
  sync (frame_totals st_end t) (w_restart fl ws0)
       (frame_rst t fl (present_data tree_fuel st_end t) rs0).
Proof.
  intros t fl ws0 rs0 st_end Hnd Hd He Hca Hae Hod.
  assert (Hrg : forall c,
    rget (frame_rst t fl (present_data tree_fuel st_end t) rs0) c =
    mkRcol (br_init (frame_col st_end t c)) (frame_col st_end t c)
           (wc_u (wget (w_restart fl ws0) c)) (wc_f (wget (w_restart fl ws0) c))).
  { intros c. rewrite rget_frame_rst by exact Hd. rewrite wget_restart.
    unfold flag_codecs. destruct (in_dec Pos.eq_dec c (tree_cols t)) as [Hi|Hni].
    - rewrite frame_col_lookup by assumption.
      destruct (N.testbit fl 2); cbn [wc_u wc_f]; [reflexivity|].
      rewrite (proj1 (ca_u _ _ Hca c)), (proj1 (ca_f _ _ Hca c)). reflexivity.
    - unfold frame_col. rewrite (node_of_out t c Hni), (Hod c Hni).
      destruct (N.testbit fl 2); reflexivity. }
  assert (Hwb : forall c, wc_bits (wget (w_restart fl ws0) c) = [] /\ wc_bytes (wget (w_restart fl ws0) c) = []).
  { intros c. rewrite wget_restart. destruct (N.testbit fl 2); cbn [wc_bits wc_bytes]; apply Hae. }
  constructor.
  - intros c. rewrite Hrg, (proj1 (Hwb c)). reflexivity.
  - intros c. rewrite Hrg. cbn [rc_br]. apply br_init_wf.
  - intros c. rewrite Hrg, (proj2 (Hwb c)). reflexivity.
  - intros c. rewrite Hrg. cbn [rc_u]. split; [reflexivity|].
    rewrite wget_restart. destruct (N.testbit fl 2); cbn [wc_u]; [apply u64_init_wf|apply (ca_u _ _ Hca c)].
  - intros c. rewrite Hrg. cbn [rc_f]. split; [reflexivity|].
    rewrite wget_restart. destruct (N.testbit fl 2); cbn [wc_f]; [apply f64_init_wf|apply (ca_f _ _ Hca c)].
  - intros d. rewrite w_sd_restart. unfold frame_rst, flag_dicts, r_sd.
    destruct (N.testbit fl 0); cbn [r_sdict]; [rewrite PM.gempty; reflexivity|apply (ca_sd _ _ Hca d)].
  - intros d. rewrite w_tl_restart. unfold frame_rst, flag_dicts, r_tl.
    destruct (N.testbit fl 0); cbn [r_tlen]; [rewrite PM.gempty; reflexivity|apply (ca_tl _ _ Hca d)].
  - rewrite w_err_restart. apply (ca_noerr _ _ Hca).
Qed.

(* closing a frame re-establishes what the next frame needs *)
Lemma sync_carry : forall T ws rs, sync T ws rs -> carry (w_clear ws) rs.
Proof.
  intros T ws rs H. constructor.
  - intros c. rewrite wget_clear. cbn [wc_u]. apply (sy_u _ _ _ H c).
  - intros c. rewrite wget_clear. cbn [wc_f]. apply (sy_f _ _ _ H c).
  - intros d. apply (sy_sd _ _ _ H d).
  - intros d. apply (sy_tl _ _ _ H d).
  - apply (sy_noerr _ _ _ H).
Qed.

Lemma carry_init : carry wst0 rst0.
Proof.
  constructor; intros; try reflexivity; unfold wget, rget, wst0, rst0; cbn [w_cols r_cols];
    rewrite !PM.gempty; cbn; (split; [reflexivity|]); [apply u64_init_wf|apply f64_init_wf].
Qed.

Lemma acc_empty_clear : forall st, acc_empty (w_clear st).
Proof. intros st c. rewrite wget_clear. split; reflexivity. Qed.

Lemma acc_empty_init : acc_empty wst0.
Proof. intros c. unfold wget, wst0. cbn [w_cols]. rewrite PM.gempty. split; reflexivity. Qed.

Lemma outside_default_clear : forall st t, outside_default st t -> outside_default (w_clear st) t.
Proof. intros st t H c Hc. rewrite wget_clear, (H c Hc). reflexivity. Qed.

Lemma outside_default_init : forall t, outside_default wst0 t.
Proof. intros t c _. unfold wget, wst0. cbn [w_cols]. rewrite PM.gempty. reflexivity. Qed.

(* the whole reader step on the content produced from [st_end] *)
Theorem reader_next_frame_sync : forall r fl nrec src' ws0 st_end,
  let t := rd_tree r in
  next_frame (rd_src r) = inr (fl, emit_data_frame_content st_end t nrec, src') ->
  frame_content_ok st_end t nrec ->
  NoDup (tree_cols t) -> elision_ok st_end t ->
  carry ws0 (rd_st r) -> acc_empty ws0 -> outside_default ws0 t ->
  exists r', reader_next_frame r = inr r' /\
    rd_tree r' = t /\ rd_src r' = src' /\ rd_left r' = nrec /\ rd_count r' = rd_count r /\
    rd_rec r' = rd_rec r /\
    rd_td r' = (if flag_dicts fl then PM.empty _ else rd_td r) /\
    sync (frame_totals st_end t) (w_restart fl ws0) (rd_st r').
Proof.
  intros r fl nrec src' ws0 st_end t Hnf Hok Hnd He Hca Hae Hod.
  unfold reader_next_frame. rewrite Hnf. fold t.
  rewrite (parse_data_frame_emit st_end t nrec Hok).
  eexists. split; [reflexivity|].
  cbn [rd_tree rd_src rd_left rd_count rd_rec rd_td rd_st].
  repeat (split; [reflexivity|]).
  destruct Hok as (_ & _ & _ & Hd).
  exact (frame_start_sync t fl ws0 (rd_st r) st_end Hnd Hd He Hca Hae Hod).
Qed.
