(* The frame-content layer round trip: size table, column data, parse_data_frame of
   emit_data_frame_content, loading of the columns into the reader state, and the bridge to the
   record layer ([sync] of WireOk.v at the start of a frame). *)
From Coq Require Import List NArith ZArith Bool PArith Lia FMapPositive ZifyN ZifyNat ZifyBool.
From Stef Require Import Bits BitsFacts BitIO BitIOFacts Varint VarintFacts Codecs CodecFacts
                         Schema Wire WireOk Frame FrameFacts Reader Writer.
Import ListNotations.
Open Scope N_scope.
Ltac Zify.zify_post_hook ::= Z.div_mod_to_equations.

(* ------------------------------------------------------------------ bits <-> bytes *)
Lemma length_bits_of_bytes : forall bs, length (bits_of_bytes bs) = (8 * length bs)%nat.
Proof.
  unfold bits_of_bytes. induction bs as [|b bs IH]; [reflexivity|].
  cbn [flat_map length]. rewrite app_length, length_bits_of_N, IH. lia.
Qed.

Lemma bits_of_bytes_app : forall a b, bits_of_bytes (a ++ b) = bits_of_bytes a ++ bits_of_bytes b.
Proof. intros. unfold bits_of_bytes. apply flat_map_app. Qed.

Lemma bits_of_bytes_of_bits_fuel : forall k fuel l,
  length l = (8 * k)%nat -> (k <= fuel)%nat ->
  bits_of_bytes (bytes_of_bits_fuel fuel l) = l.
Proof.
  induction k as [|k IH]; intros fuel l Hl Hf.
  - destruct l; [|cbn in Hl; lia]. destruct fuel; reflexivity.
  - destruct fuel as [|f]; [lia|].
    destruct l as [|b l']; [cbn in Hl; lia|]. set (l := b :: l') in *.
    cbn [bytes_of_bits_fuel]. unfold l at 1. fold l.
    unfold bits_of_bytes. cbn [flat_map]. fold (bits_of_bytes (bytes_of_bits_fuel f (skipn 8 l))).
    assert (H8 : length (firstn 8 l) = 8%nat) by (rewrite firstn_length; lia).
    rewrite IH; [| rewrite skipn_length; lia | lia].
    rewrite <- H8 at 1. rewrite bits_of_N_of_bits. apply firstn_skipn.
Qed.

Lemma bits_of_bytes_of_bits : forall l, (length l mod 8 = 0)%nat ->
  bits_of_bytes (bytes_of_bits l) = l.
Proof.
  intros l H. unfold bytes_of_bits.
  apply (bits_of_bytes_of_bits_fuel (length l / 8)); lia.
Qed.

Lemma length_pad8 : forall l, (length (pad8 l) mod 8 = 0)%nat.
Proof. intros. unfold pad8. rewrite app_length, length_zeros. lia. Qed.

(* reading a closed bit column back: the bits followed by the zero padding *)
Theorem bits_of_column_bytes : forall b, bits_of_bytes (column_bytes b) = pad8 b.
Proof. intros. unfold column_bytes. apply bits_of_bytes_of_bits, length_pad8. Qed.

Lemma bytes_of_bits_fuel_length : forall k fuel l,
  length l = (8 * k)%nat -> (k <= fuel)%nat -> length (bytes_of_bits_fuel fuel l) = k.
Proof.
  induction k as [|k IH]; intros fuel l Hl Hf.
  - destruct l; [|cbn in Hl; lia]. destruct fuel; reflexivity.
  - destruct fuel as [|f]; [lia|].
    destruct l as [|b l']; [cbn in Hl; lia|]. set (l := b :: l') in *.
    cbn [bytes_of_bits_fuel]. unfold l at 1. fold l. cbn [length].
    rewrite IH; [reflexivity | rewrite skipn_length; lia | lia].
Qed.

Lemma length_column_bytes : forall b, length (column_bytes b) = ((length b + 7) / 8)%nat.
Proof.
  intros. unfold column_bytes, bytes_of_bits.
  pose proof (length_pad8 b) as Hp.
  rewrite (bytes_of_bits_fuel_length (length (pad8 b) / 8)); try lia.
  unfold pad8 in *. rewrite app_length, length_zeros in *. lia.
Qed.

Lemma column_bytes_nil_iff : forall b, column_bytes b = [] <-> b = [].
Proof.
  intros. split; intros H.
  - apply (f_equal (@length _)) in H. rewrite length_column_bytes in H. cbn [length] in H.
    destruct b; [reflexivity|]. cbn [length] in H. lia.
  - subst. reflexivity.
Qed.

Lemma br_init_wf : forall bs, br_wf (br_init bs).
Proof.
  intros. unfold br_wf, br_init. cbn [br_err br_pos br_rem br_len].
  rewrite length_bits_of_bytes. split; [reflexivity|lia].
Qed.

(* ------------------------------------------------------------------ trees *)
Fixpoint depth (t : etree) : nat :=
  match t with
  | EStruct _ _ _ _ _ _ fts => S (fold_right (fun x m => Nat.max (depth x) m) 0%nat fts)
  | EArr _ _ e => S (depth e)
  | EMap _ _ k v => S (Nat.max (depth k) (depth v))
  | _ => 1%nat
  end.

(* the column-bearing nodes of a tree, depth first (ERec / EBad leaves carry no column) *)
Fixpoint tree_nodes (t : etree) : list etree :=
  match t with
  | EPrim _ _ _ => [t]
  | EStruct _ _ _ _ _ _ fts => t :: flat_map tree_nodes fts
  | EArr _ _ e => t :: tree_nodes e
  | EMap _ _ k v => t :: tree_nodes k ++ tree_nodes v
  | _ => []
  end.

Fixpoint tree_cols (t : etree) : list positive :=
  match t with
  | EPrim c _ _ => [c]
  | EStruct c _ _ _ _ _ fts => c :: flat_map tree_cols fts
  | EArr c _ e => c :: tree_cols e
  | EMap c _ k v => c :: tree_cols k ++ tree_cols v
  | _ => []
  end.

Lemma depth_pos : forall t, (1 <= depth t)%nat.
Proof. destruct t; cbn [depth]; lia. Qed.

Lemma depth_children : forall t x, In x (tree_children t) -> (S (depth x) <= depth t)%nat.
Proof.
  intros t x H. destruct t; cbn [tree_children] in H; try contradiction; cbn [depth].
  - induction fields as [|y l IH]; [contradiction|]. cbn [fold_right].
    destruct H as [->|H]; [lia|]. specialize (IH H). lia.
  - destruct H as [->|[]]. lia.
  - destruct H as [->|[->|[]]]; lia.
Qed.

Lemma tree_nodes_unfold : forall t,
  tree_nodes t = match tree_col t with
                 | None => []
                 | Some _ => t :: flat_map tree_nodes (tree_children t)
                 end.
Proof.
  destruct t; cbn [tree_nodes tree_col tree_children flat_map]; rewrite ?app_nil_r; reflexivity.
Qed.

Lemma tree_cols_unfold : forall t,
  tree_cols t = match tree_col t with
                | None => []
                | Some c => c :: flat_map tree_cols (tree_children t)
                end.
Proof.
  destruct t; cbn [tree_cols tree_col tree_children flat_map]; rewrite ?app_nil_r; reflexivity.
Qed.

(* induction over the children relation *)
Lemma etree_children_ind : forall P : etree -> Prop,
  (forall t, (forall x, In x (tree_children t) -> P x) -> P t) -> forall t, P t.
Proof.
  intros P H.
  assert (Hn : forall n t, (depth t <= n)%nat -> P t).
  { induction n as [|n IH]; intros t Hd.
    - pose proof (depth_pos t). lia.
    - apply H. intros x Hx. apply IH. pose proof (depth_children t x Hx). lia. }
  intros t. apply (Hn (depth t)). lia.
Qed.

Definition node_col (x : etree) : positive := match tree_col x with Some c => c | None => 1%positive end.

Lemma flat_map_ext_in : forall {A B} (f g : A -> list B) l,
  (forall x, In x l -> f x = g x) -> flat_map f l = flat_map g l.
Proof.
  intros A B f g l. induction l as [|a l IH]; intros H; [reflexivity|].
  cbn [flat_map]. rewrite H by (left; reflexivity). rewrite IH; [reflexivity|].
  intros x Hx. apply H. right. exact Hx.
Qed.

Lemma map_flat_map : forall {A B C} (g : B -> C) (f : A -> list B) l,
  map g (flat_map f l) = flat_map (fun x => map g (f x)) l.
Proof.
  intros. induction l as [|a l IH]; [reflexivity|]. cbn [flat_map]. rewrite map_app, IH. reflexivity.
Qed.

Lemma tree_cols_nodes : forall t, tree_cols t = map node_col (tree_nodes t).
Proof.
  induction t as [t IH] using etree_children_ind.
  rewrite tree_cols_unfold, tree_nodes_unfold.
  destruct (tree_col t) as [c|] eqn:Hc; [|reflexivity].
  cbn [map]. unfold node_col at 1. rewrite Hc. f_equal.
  rewrite map_flat_map. apply flat_map_ext_in. exact IH.
Qed.

Lemma tree_nodes_col : forall t x, In x (tree_nodes t) -> tree_col x = Some (node_col x).
Proof.
  induction t as [t IH] using etree_children_ind. intros x Hx.
  rewrite tree_nodes_unfold in Hx. destruct (tree_col t) as [c|] eqn:Hc; [|contradiction].
  destruct Hx as [<-|Hx].
  - unfold node_col. rewrite Hc. reflexivity.
  - apply in_flat_map in Hx. destruct Hx as [ch [Hch Hx]]. exact (IH ch Hch x Hx).
Qed.

Lemma tree_nodes_self : forall t c, tree_col t = Some c -> In t (tree_nodes t).
Proof. intros t c H. rewrite tree_nodes_unfold, H. left. reflexivity. Qed.

Lemma tree_nodes_child : forall t ch x, tree_col t <> None -> In ch (tree_children t) ->
  In x (tree_nodes ch) -> In x (tree_nodes t).
Proof.
  intros t ch x Hc Hch Hx. rewrite tree_nodes_unfold. destruct (tree_col t); [|congruence].
  right. apply in_flat_map. exists ch. split; assumption.
Qed.

(* the nodes of a node of t are nodes of t *)
Lemma tree_nodes_trans : forall t x y, In x (tree_nodes t) -> In y (tree_nodes x) -> In y (tree_nodes t).
Proof.
  induction t as [t IH] using etree_children_ind. intros x y Hx Hy.
  rewrite tree_nodes_unfold in Hx. destruct (tree_col t) as [c|] eqn:Hc; [|contradiction].
  destruct Hx as [<-|Hx]; [exact Hy|].
  apply in_flat_map in Hx. destruct Hx as [ch [Hch Hx]].
  apply (tree_nodes_child t ch); [congruence|exact Hch|]. exact (IH ch Hch x y Hx Hy).
Qed.

Lemma node_children_nodes : forall t x ch, In x (tree_nodes t) -> In ch (tree_children x) ->
  forall y, In y (tree_nodes ch) -> In y (tree_nodes t).
Proof.
  intros t x ch Hx Hch y Hy. apply (tree_nodes_trans t x y Hx).
  apply (tree_nodes_child x ch); [|exact Hch|exact Hy].
  rewrite (tree_nodes_col t x Hx). discriminate.
Qed.

Lemma NoDup_map_inj : forall {A B} (f : A -> B) l a b,
  NoDup (map f l) -> In a l -> In b l -> f a = f b -> a = b.
Proof.
  intros A B f l. induction l as [|x l IH]; intros a b Hnd Ha Hb Hf; [contradiction|].
  cbn [map] in Hnd. inversion Hnd as [|? ? Hni Hnd']; subst.
  destruct Ha as [<-|Ha], Hb as [<-|Hb]; try reflexivity.
  - exfalso. apply Hni. rewrite Hf. apply in_map. exact Hb.
  - exfalso. apply Hni. rewrite <- Hf. apply in_map. exact Ha.
  - apply IH; assumption.
Qed.

(* with pairwise distinct column ids a column identifies its node *)
Lemma node_unique : forall t x y, NoDup (tree_cols t) ->
  In x (tree_nodes t) -> In y (tree_nodes t) -> node_col x = node_col y -> x = y.
Proof. intros t x y Hnd. rewrite tree_cols_nodes in Hnd. apply NoDup_map_inj. exact Hnd. Qed.

(* ------------------------------------------------------------------ F1: the size table *)
(* (column id, byte size) in depth-first preorder; the descendants of a column whose data is
   empty are omitted: what [emit_sizes] writes *)
Fixpoint present_cols (fuel : nat) (st : wst) (t : etree) : list (positive * N) :=
  match fuel with
  | O => []
  | S f =>
    match tree_col t with
    | None => []
    | Some c =>
      let d := col_data st t in
      (c, N.of_nat (length d)) ::
      (if (length d =? 0)%nat then [] else flat_map (present_cols f st) (tree_children t))
    end
  end.

(* the same walk with the data instead of the sizes *)
Fixpoint present_data (fuel : nat) (st : wst) (t : etree) : list (positive * bytes) :=
  match fuel with
  | O => []
  | S f =>
    match tree_col t with
    | None => []
    | Some c =>
      let d := col_data st t in
      (c, d) :: (if (length d =? 0)%nat then [] else flat_map (present_data f st) (tree_children t))
    end
  end.

Definition sizes_total (l : list (positive * N)) : N := fold_right (fun x a => snd x + a) 0 l.

Lemma sizes_total_app : forall a b, sizes_total (a ++ b) = sizes_total a + sizes_total b.
Proof.
  induction a as [|x a IH]; intros b; [reflexivity|].
  unfold sizes_total in *. cbn [app fold_right]. rewrite IH. lia.
Qed.

(* every column of the writer state, closed, is shorter than 2^48 bytes *)
Definition wst_small (st : wst) : Prop :=
  forall c, N.of_nat (length (column_bytes (wc_bits (wget st c)))) < two48 /\
            N.of_nat (length (wc_bytes (wget st c))) < two48.

Lemma col_data_small : forall st t, wst_small st -> N.of_nat (length (col_data st t)) < two48.
Proof.
  intros st t H. unfold col_data. destruct (tree_col t) as [c|]; [|reflexivity].
  destruct (H c). destruct (is_bit_col t); assumption.
Qed.

Theorem parse_sizes_emit : forall fuel t st r rest limit,
  (depth t <= fuel)%nat -> wst_small st -> br_wf r ->
  br_rem r = emit_sizes fuel st t ++ rest ->
  sizes_total (present_cols fuel st t) <= limit ->
  exists r', parse_sizes fuel t r limit
             = inr (present_cols fuel st t, r', limit - sizes_total (present_cols fuel st t)) /\
             br_wf r' /\ br_rem r' = rest.
Proof.
  induction fuel as [|f IH]; intros t st r rest limit Hd Hs Hwf Hrem Hlim.
  - pose proof (depth_pos t). lia.
  - cbn [parse_sizes present_cols emit_sizes] in *.
    destruct (tree_col t) as [c|] eqn:Hc.
    2:{ exists r. cbn [sizes_total fold_right app] in *. rewrite N.sub_0_r. auto. }
    set (d := col_data st t) in *.
    rewrite <- app_assoc in Hrem.
    destruct (uvc_roundtrip r _ _ (col_data_small st t Hs) Hwf Hrem) as [r1 [Hr1 [Hwf1 Hrem1]]].
    fold d in Hr1. rewrite Hr1.
    cbn [sizes_total fold_right snd] in Hlim. fold (sizes_total) in Hlim.
    change (fold_right (fun x a => snd x + a) 0) with sizes_total in *.
    cbn [sizes_total fold_right snd]. change (fold_right (fun x a => snd x + a) 0) with sizes_total.
    destruct (N.ltb_spec limit (N.of_nat (length d))); [lia|].
    destruct (Nat.eqb_spec (length d) 0) as [Hz|Hnz].
    + rewrite Hz. cbn [N.of_nat N.eqb]. exists r1. cbn [app] in Hrem1.
      cbn [sizes_total fold_right]. rewrite N.add_0_r. auto.
    + destruct (N.eqb_spec (N.of_nat (length d)) 0); [lia|].
      (* the children *)
      assert (Hgo : forall ch r limit acc,
                (forall x, In x ch -> (depth x <= f)%nat) -> br_wf r ->
                br_rem r = flat_map (emit_sizes f st) ch ++ rest ->
                sizes_total (flat_map (present_cols f st) ch) <= limit ->
                exists r',
                  (fix go (ch : list etree) (r : br) (limit : N) (acc : list (positive * N))
                     : derr + (list (positive * N) * br * N) :=
                     match ch with
                     | [] => inr (acc, r, limit)
                     | x :: ch' =>
                       match parse_sizes f x r limit with
                       | inl e => inl e
                       | inr (l, r, limit) => go ch' r limit (acc ++ l)
                       end
                     end) ch r limit acc
                  = inr (acc ++ flat_map (present_cols f st) ch, r',
                         limit - sizes_total (flat_map (present_cols f st) ch)) /\
                  br_wf r' /\ br_rem r' = rest).
      { induction ch as [|x ch IHch]; intros r0 lim acc Hdx Hwf0 Hrem0 Hlim0.
        - exists r0. cbn [flat_map sizes_total fold_right app] in *.
          rewrite app_nil_r, N.sub_0_r. auto.
        - cbn [flat_map] in *. rewrite <- app_assoc in Hrem0. rewrite sizes_total_app in Hlim0.
          destruct (IH x st r0 _ lim (Hdx x (or_introl eq_refl)) Hs Hwf0 Hrem0) as [r2 [Hp [Hwf2 Hrem2]]]; [lia|].
          rewrite Hp.
          destruct (IHch r2 (lim - sizes_total (present_cols f st x)) (acc ++ present_cols f st x))
            as [r3 [Hg [Hwf3 Hrem3]]]; auto; [intros y Hy; apply Hdx; right; exact Hy | lia |].
          exists r3. rewrite Hg, sizes_total_app, <- app_assoc. split; [|auto].
          f_equal. f_equal. lia. }
      destruct (Hgo (tree_children t) r1 (limit - N.of_nat (length d)) [(c, N.of_nat (length d))])
        as [r2 [Hg [Hwf2 Hrem2]]]; auto.
      { intros x Hx. pose proof (depth_children t x Hx). lia. }
      { lia. }
      exists r2. rewrite Hg. split; [|auto]. cbn [app]. f_equal. f_equal. lia.
Qed.

(* ------------------------------------------------------------------ F2: the column data *)
Lemma present_cols_data : forall fuel st t,
  present_cols fuel st t = map (fun x => (fst x, N.of_nat (length (snd x)))) (present_data fuel st t).
Proof.
  induction fuel as [|f IH]; intros st t; [reflexivity|].
  cbn [present_cols present_data]. destruct (tree_col t) as [c|]; [|reflexivity].
  cbn [map fst snd]. f_equal. destruct (length (col_data st t) =? 0)%nat; [reflexivity|].
  rewrite map_flat_map. apply flat_map_ext_in. intros x _. apply IH.
Qed.

Lemma split_cols_app : forall (l1 : list (positive * bytes)) more rest acc,
  split_cols (map (fun x => (fst x, N.of_nat (length (snd x)))) l1 ++ more)
             (flat_map snd l1 ++ rest) acc
  = split_cols more rest (acc ++ l1).
Proof.
  induction l1 as [|[c d] l1 IH]; intros more rest acc.
  - cbn [map flat_map app]. rewrite app_nil_r. reflexivity.
  - cbn [map flat_map app fst snd split_cols]. rewrite <- app_assoc, take_app_exact.
    rewrite IH, <- app_assoc. reflexivity.
Qed.

Lemma flat_map_flat_map : forall {A B C} (g : B -> list C) (f : A -> list B) l,
  flat_map g (flat_map f l) = flat_map (fun x => flat_map g (f x)) l.
Proof.
  intros. induction l as [|a l IH]; [reflexivity|]. cbn [flat_map]. rewrite flat_map_app, IH. reflexivity.
Qed.

Lemma emit_data_present : forall fuel st t, emit_data fuel st t = flat_map snd (present_data fuel st t).
Proof.
  induction fuel as [|f IH]; intros st t; [reflexivity|].
  cbn [emit_data present_data]. destruct (tree_col t) as [c|]; [|reflexivity].
  cbn [flat_map snd]. f_equal. destruct (length (col_data st t) =? 0)%nat; [reflexivity|].
  rewrite flat_map_flat_map. apply flat_map_ext_in. intros x _. apply IH.
Qed.

(* the data of the present columns is split off exactly; what follows is left for what follows *)
Theorem split_cols_emit_gen : forall fuel st t more rest acc,
  split_cols (present_cols fuel st t ++ more) (emit_data fuel st t ++ rest) acc
  = split_cols more rest (acc ++ present_data fuel st t).
Proof. intros. rewrite present_cols_data, emit_data_present. apply split_cols_app. Qed.

Theorem split_cols_emit : forall fuel st t acc,
  split_cols (present_cols fuel st t) (emit_data fuel st t) acc = Some (acc ++ present_data fuel st t).
Proof.
  intros. pose proof (split_cols_emit_gen fuel st t [] [] acc) as H.
  rewrite !app_nil_r in H. exact H.
Qed.

Lemma sizes_total_data : forall fuel st t,
  sizes_total (present_cols fuel st t) = N.of_nat (length (emit_data fuel st t)).
Proof.
  intros. rewrite present_cols_data, emit_data_present.
  induction (present_data fuel st t) as [|[c d] l IH]; [reflexivity|].
  cbn [map flat_map fst snd]. rewrite app_length. unfold sizes_total in *. cbn [fold_right snd].
  rewrite IH. lia.
Qed.

(* every entry of the split is a node of the tree with its data *)
Lemma present_data_in : forall fuel st t c d, In (c, d) (present_data fuel st t) ->
  exists x, In x (tree_nodes t) /\ tree_col x = Some c /\ d = col_data st x.
Proof.
  induction fuel as [|f IH]; intros st t c d H; [contradiction|].
  cbn [present_data] in H. destruct (tree_col t) as [c0|] eqn:Hc; [|contradiction].
  destruct H as [H|H].
  - inversion H; subst. exists t. split; [apply (tree_nodes_self t c Hc)|auto].
  - destruct (length (col_data st t) =? 0)%nat; [contradiction|].
    apply in_flat_map in H. destruct H as [ch [Hch H]].
    destruct (IH st ch c d H) as [x [Hx Hxc]]. exists x. split; [|exact Hxc].
    apply (tree_nodes_child t ch); [congruence|exact Hch|exact Hx].
Qed.

(* ------------------------------------------------------------------ F3: the frame content *)
Definition frame_content_ok (st : wst) (t : etree) (nrec : N) : Prop :=
  nrec < two64 /\
  N.of_nat (length (column_bytes (emit_sizes tree_fuel st t))) < two64 /\
  wst_small st /\ (depth t <= tree_fuel)%nat.

Theorem parse_data_frame_emit : forall st t nrec, frame_content_ok st t nrec ->
  parse_data_frame t (emit_data_frame_content st t nrec) = inr (nrec, present_data tree_fuel st t).
Proof.
  intros st t nrec (Hn & Htl & Hs & Hd).
  unfold parse_data_frame, emit_data_frame_content, read_uvarint.
  set (tbl := column_bytes (emit_sizes tree_fuel st t)) in *.
  rewrite leb_roundtrip by exact Hn.
  rewrite leb_roundtrip by exact Htl.
  rewrite !app_length.
  destruct (N.ltb_spec (N.of_nat (length (leb_enc (N.of_nat (length tbl))) +
                                  (length tbl + length (emit_data tree_fuel st t))))
                       (N.of_nat (length tbl))); [lia|].
  rewrite take_app_exact.
  destruct (parse_sizes_emit tree_fuel t st (br_init tbl)
              (zeros ((8 - length (emit_sizes tree_fuel st t) mod 8) mod 8))
              (N.of_nat (length (leb_enc (N.of_nat (length tbl))) +
                         (length tbl + length (emit_data tree_fuel st t))) - N.of_nat (length tbl))
              Hd Hs (br_init_wf tbl)) as [r' [Hp _]].
  - unfold br_init. cbn [br_rem]. unfold tbl. rewrite bits_of_column_bytes. reflexivity.
  - rewrite sizes_total_data. lia.
  - rewrite Hp. rewrite split_cols_emit. reflexivity.
Qed.
