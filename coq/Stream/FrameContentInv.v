(* The hypotheses of FrameContentFacts.frame_start_sync / frame_totals_extends that speak about
   the writer state at the end of a frame -- [elision_ok], [kind_ok], [outside_default] -- as
   invariants of [enc]: an encoder only appends, only to the column of its own node and only in
   that column's kind, and writes to its own column before any of its children is encoded. *)
From Coq Require Import List NArith ZArith Bool PArith Lia FMapPositive ZifyN ZifyNat ZifyBool.
From Stef Require Import Bits BitsFacts BitIO BitIOFacts Varint VarintFacts Codecs CodecFacts
                         Schema Wire WireOk WireFactsBase Frame Writer FrameContentFacts.
Import ListNotations.
Open Scope N_scope.

(* ------------------------------------------------------------------ small facts *)
Definition nonempty (st : wst) (x : etree) : Prop := col_data st x <> [].

Lemma nonempty_mono : forall st st' x, mono st st' -> nonempty st x -> nonempty st' x.
Proof.
  intros st st' x M H. unfold nonempty, col_data in *.
  destruct (tree_col x) as [c|]; [|exact H].
  destruct (M c) as [[r1 E1] [r2 E2]]. destruct (is_bit_col x).
  - rewrite column_bytes_nil_iff in *. rewrite E1. intros Hn. apply app_eq_nil in Hn. tauto.
  - rewrite E2. intros Hn. apply app_eq_nil in Hn. tauto.
Qed.

Lemma env_find_in : forall env k, env_find env k = EBad \/ exists k', In (k', env_find env k) env.
Proof.
  induction env as [|[k' t] env IH]; intros k; [left; reflexivity|].
  cbn [env_find]. destruct (reckey_eqb k k').
  - right. exists k'. left. reflexivity.
  - destruct (IH k) as [H|[k'' H]]; [left; exact H|right; exists k''; right; exact H].
Qed.

Lemma leb_enc_nonnil : forall v, leb_enc v <> [].
Proof. intros v. unfold leb_enc. cbn [leb_enc_fuel]. destruct (v <? 128); discriminate. Qed.

Lemma uvc_write_bits_nonnil : forall v, v < two48 -> uvc_write_bits v <> [].
Proof.
  intros v Hv. rewrite uvc_write_is_spec by exact Hv. unfold uvc_spec_bits.
  destruct (uvc_spec_class v) as [k w]. intros H. apply app_eq_nil in H. destruct H as [_ H]. discriminate.
Qed.

Lemma bits_of_N_nonnil : forall n v, (0 < n)%nat -> bits_of_N n v <> [].
Proof.
  intros n v Hn H. apply (f_equal (@length _)) in H. rewrite length_bits_of_N in H. cbn in H. lia.
Qed.

Lemma oneof_bits_pos : forall fc, (0 < oneof_bits fc)%nat.
Proof.
  intros fc. unfold oneof_bits.
  assert (0 < N.size (fc + 1)); [|lia].
  destruct (fc + 1) eqn:E; [lia|]. cbn. lia.
Qed.

(* a bound on the array lengths of a wire tree (wire_ok demands 2^40) *)
Fixpoint arrs_P (P : nat -> Prop) (a : wire) : Prop :=
  match a with
  | WStruct _ _ fs =>
    fold_right (fun f Q => match f with Some x => arrs_P P x | None => True end /\ Q) True fs
  | WDictFull s => arrs_P P s
  | WOneof _ (Some x) => arrs_P P x
  | WArr l => P (length l) /\ fold_right (fun x Q => arrs_P P x /\ Q) True l
  | WMapFull kvs => fold_right (fun kv Q => (arrs_P P (fst kv) /\ arrs_P P (snd kv)) /\ Q) True kvs
  | WMapVals _ l => fold_right (fun x Q => arrs_P P x /\ Q) True l
  | _ => True
  end.

Lemma fold_and_Forall : forall {A} (R : A -> Prop) l,
  fold_right (fun x Q => R x /\ Q) True l -> Forall R l.
Proof. intros A R. induction l as [|x l IH]; intros H; constructor; cbn [fold_right] in H; tauto. Qed.

Lemma Forall_and : forall {A} (R S : A -> Prop) l, Forall R l -> Forall S l -> Forall (fun x => R x /\ S x) l.
Proof. intros A R S l H1. induction H1; intros H2; inversion H2; subst; constructor; auto. Qed.

(* ------------------------------------------------------------------ the induction, once *)
Section EncInv.
  Variable root : etree.
  Variable I : wst -> Prop.
  Variables Pre Ne : etree -> wst -> Prop.
  Variable P : nat -> Prop.

  Hypothesis I_cols : forall st sd tl e, I st -> I (mkWst (w_cols st) sd tl e).
  Hypothesis Pre_mono : forall x st st', mono st st' -> Pre x st -> Pre x st'.
  Hypothesis Ne_mono : forall x st st', mono st st' -> Ne x st -> Ne x st'.
  Hypothesis I_write : forall t st x', In t (tree_nodes root) -> I st -> Pre t st ->
    (if is_bit_col t
     then (exists b, wc_bits x' = wc_bits (wget st (node_col t)) ++ b) /\
          wc_bytes x' = wc_bytes (wget st (node_col t))
     else (exists b, wc_bytes x' = wc_bytes (wget st (node_col t)) ++ b) /\
          wc_bits x' = wc_bits (wget st (node_col t))) ->
    I (wset st (node_col t) x').
  Hypothesis Pre_child : forall t ch st, In t (tree_nodes root) -> In ch (tree_children t) ->
    tree_col ch <> None -> Pre t st -> Ne t st -> Pre ch st.
  Hypothesis Ne_bits : forall t st b, tree_col t <> None -> is_bit_col t = true -> b <> [] -> Ne t (add_bits st (node_col t) b).
  Hypothesis Ne_bytes : forall t st b, tree_col t <> None -> is_bit_col t = false -> b <> [] -> Ne t (add_bytes st (node_col t) b).
  Hypothesis Ne_arr : forall t st n, tree_col t <> None -> is_bit_col t = true -> P n ->
    Ne t (add_bits st (node_col t) (uvc_write_bits (N.of_nat n))).
  Hypothesis Ne_struct : forall c sid d fc opts fts st mask present,
    In (EStruct c sid false d fc opts fts) (tree_nodes root) -> fts <> [] ->
    Ne (EStruct c sid false d fc opts fts)
       (add_bits st c (bits_of_N (N.to_nat fc) mask ++ bits_of_N (opt_count opts) present)).

  Definition env_ok (env : renv) (st : wst) : Prop :=
    forall k y, In (k, y) env -> In y (tree_nodes root) /\ Pre y st.
  Definition callable (t : etree) (st : wst) : Prop :=
    tree_col t = None \/ (In t (tree_nodes root) /\ Pre t st).

  Lemma env_ok_mono : forall env st st', mono st st' -> env_ok env st -> env_ok env st'.
  Proof. intros env st st' M H k y Hin. destruct (H k y Hin). split; [assumption|]. eapply Pre_mono; eassumption. Qed.

  Lemma env_ok_push : forall env t st, env_ok env st -> In t (tree_nodes root) -> Pre t st ->
    env_ok (push_env env t) st.
  Proof.
    intros env t st He Ht Hp. destruct t; cbn [push_env]; try exact He;
      intros k0 y0 [Heq|Hin]; try (inversion Heq; subst; split; assumption); exact (He k0 y0 Hin).
  Qed.

  Lemma I_wfail : forall st, I st -> I (wfail st).
  Proof. intros st H. unfold wfail. apply I_cols. exact H. Qed.

  Lemma I_add_bits : forall t st b, In t (tree_nodes root) -> is_bit_col t = true -> I st -> Pre t st ->
    I (add_bits st (node_col t) b).
  Proof.
    intros t st b Ht Hb Hi Hp. unfold add_bits. apply I_write; try assumption.
    rewrite Hb. cbn [wc_bits wc_bytes]. split; [eexists; reflexivity|reflexivity].
  Qed.

  Lemma I_add_bytes : forall t st b, In t (tree_nodes root) -> is_bit_col t = false -> I st -> Pre t st ->
    I (add_bytes st (node_col t) b).
  Proof.
    intros t st b Ht Hb Hi Hp. unfold add_bytes. apply I_write; try assumption.
    rewrite Hb. cbn [wc_bits wc_bytes]. split; [eexists; reflexivity|reflexivity].
  Qed.

  Lemma I_enc_prim : forall c p d a st, In (EPrim c p d) (tree_nodes root) -> I st -> Pre (EPrim c p d) st ->
    I (enc_prim st c p d a).
  Proof.
    intros c p d a st Ht Hi Hp.
    pose proof (I_add_bits (EPrim c p d) st) as Hbits.
    pose proof (I_add_bytes (EPrim c p d) st) as Hbytes.
    pose proof (I_write (EPrim c p d) st) as Hw.
    change (node_col (EPrim c p d)) with c in *.
    destruct a as [b|v|z|v|s|? ? ?|?|?|? ?|?|?|? ?]; destruct p; cbn [enc_prim];
      try (apply I_wfail; exact Hi).
    - apply Hbits; auto.
    - destruct (u64_encode (wc_u (wget st c)) v) as [s' bs]. apply Hw; auto.
      cbn [is_bit_col wc_bits wc_bytes]. split; [eexists; reflexivity|reflexivity].
    - destruct (i64_encode (wc_u (wget st c)) z) as [s' bs]. apply Hw; auto.
      cbn [is_bit_col wc_bits wc_bytes]. split; [eexists; reflexivity|reflexivity].
    - destruct (f64_encode (wc_f (wget st c)) v) as [s' b]. apply Hw; auto.
      cbn [is_bit_col wc_bits wc_bytes]. split; [eexists; reflexivity|reflexivity].
    - destruct d as [dn|]; [|apply Hbytes; auto].
      destruct (strdict_encode (w_sd st dn) s) as [d' bs]. apply I_cols. apply Hbytes; auto.
    - destruct d as [dn|]; [|apply Hbytes; auto].
      destruct (strdict_encode (w_sd st dn) s) as [d' bs]. apply I_cols. apply Hbytes; auto.
  Qed.

  (* a child of a node that has written to its own column may be encoded *)
  Lemma resolve_callable : forall env' t ft st,
    env_ok env' st -> In t (tree_nodes root) -> Pre t st -> Ne t st ->
    (In ft (tree_children t) \/ ft = EBad) -> callable (resolve env' ft) st.
  Proof.
    intros env' t ft st He Ht Hp Hne [Hft| ->]; [|left; reflexivity].
    assert (Hself : tree_col ft <> None -> callable ft st).
    { intros Hc. right. split.
      - apply (node_children_nodes root t ft Ht Hft).
        rewrite tree_nodes_unfold. destruct (tree_col ft); [left; reflexivity|congruence].
      - apply (Pre_child t ft st); assumption. }
    destruct ft; cbn [resolve]; try (apply Hself; discriminate).
    - destruct (env_find_in env' k) as [E|[k' Hin]]; [rewrite E; left; reflexivity|].
      right. exact (He _ _ Hin).
    - left. reflexivity.
  Qed.

  Section Step.
    Variable n : nat.
    Hypothesis IH : forall a env t st, (height a < n)%nat -> arrs_P P a ->
      env_ok env st -> callable t st -> I st -> I (enc env t a st).

    Lemma fields_inv_n : forall env' t fs fts st,
      Forall (fun f => match f with Some x => (height x < n)%nat /\ arrs_P P x | None => True end) fs ->
      incl fts (tree_children t) -> In t (tree_nodes root) ->
      env_ok env' st -> Pre t st -> Ne t st -> I st -> I (enc_fields env' fts fs st).
    Proof.
      intros env' t. induction fs as [|f fs IHfs]; intros fts st HF Hinc Ht He Hp Hne Hi.
      - destruct fts; exact Hi.
      - destruct fts as [|ft fts]; [exact Hi|]. cbn [enc_fields].
        inversion HF as [|? ? Hf HF']; subst.
        assert (Hinc' : incl fts (tree_children t)) by (intros z Hz; apply Hinc; right; exact Hz).
        destruct f as [a'|]; [|apply IHfs; assumption].
        destruct Hf as [Hh Ha].
        pose proof (mono_enc a' env' (resolve env' ft) st) as M.
        apply IHfs; try assumption.
        + eapply env_ok_mono; eassumption.
        + eapply Pre_mono; eassumption.
        + eapply Ne_mono; eassumption.
        + apply IH; try assumption.
          apply (resolve_callable env' t ft st); try assumption. left. apply Hinc. left. reflexivity.
    Qed.

    Lemma elems_inv_n : forall env' t et es st,
      Forall (fun x => (height x < n)%nat /\ arrs_P P x) es ->
      In et (tree_children t) -> In t (tree_nodes root) ->
      env_ok env' st -> Pre t st -> Ne t st -> I st -> I (enc_elems env' et es st).
    Proof.
      intros env' t et. induction es as [|e es IHes]; intros st HF Het Ht He Hp Hne Hi; [exact Hi|].
      cbn [enc_elems]. inversion HF as [|? ? [Hh Ha] HF']; subst.
      pose proof (mono_enc e env' (resolve env' et) st) as M.
      apply IHes; try assumption.
      - eapply env_ok_mono; eassumption.
      - eapply Pre_mono; eassumption.
      - eapply Ne_mono; eassumption.
      - apply IH; try assumption.
        apply (resolve_callable env' t et st); try assumption. left. exact Het.
    Qed.

    Lemma kvs_inv_n : forall env' t kt vt l st,
      Forall (fun kv => ((height (fst kv) < n)%nat /\ arrs_P P (fst kv)) /\
                        ((height (snd kv) < n)%nat /\ arrs_P P (snd kv))) l ->
      In kt (tree_children t) -> In vt (tree_children t) -> In t (tree_nodes root) ->
      env_ok env' st -> Pre t st -> Ne t st -> I st -> I (enc_kvs env' kt vt l st).
    Proof.
      intros env' t kt vt. induction l as [|[k v] l IHl]; intros st HF Hkt Hvt Ht He Hp Hne Hi; [exact Hi|].
      cbn [enc_kvs]. inversion HF as [|? ? [[Hhk Hak] [Hhv Hav]] HF']; subst. cbn [fst snd] in *.
      pose proof (mono_enc k env' (resolve env' kt) st) as M1.
      set (st1 := enc env' (resolve env' kt) k st) in *.
      pose proof (mono_enc v env' (resolve env' vt) st1) as M2.
      assert (M : mono st (enc env' (resolve env' vt) v st1)) by (eapply mono_trans; eassumption).
      apply IHl; try assumption.
      - eapply env_ok_mono; eassumption.
      - eapply Pre_mono; eassumption.
      - eapply Ne_mono; eassumption.
      - apply IH; try assumption.
        + eapply env_ok_mono; eassumption.
        + apply (resolve_callable env' t vt st1); try assumption.
          * eapply env_ok_mono; eassumption.
          * eapply Pre_mono; eassumption.
          * eapply Ne_mono; eassumption.
          * left. exact Hvt.
        + apply IH; try assumption.
          apply (resolve_callable env' t kt st); try assumption. left. exact Hkt.
    Qed.
  End Step.

  Lemma fields_pack : forall n fs,
    (fold_right (fun f m => Nat.max (match f with Some x => height x | None => 0%nat end) m) 0%nat fs < n)%nat ->
    fold_right (fun f Q => match f with Some x => arrs_P P x | None => True end /\ Q) True fs ->
    Forall (fun f => match f with Some x => (height x < n)%nat /\ arrs_P P x | None => True end) fs.
  Proof.
    intros n fs Hh Ha. apply height_fields_lt in Hh.
    apply (fold_and_Forall (fun f => match f with Some x => arrs_P P x | None => True end)) in Ha.
    pose proof (Forall_and _ _ _ Hh Ha) as H. eapply Forall_impl; [|exact H].
    intros [x|] [H1 H2]; [split; assumption|exact Logic.I].
  Qed.

  Lemma elems_pack : forall n l,
    (fold_right (fun x m => Nat.max (height x) m) 0%nat l < n)%nat ->
    fold_right (fun x Q => arrs_P P x /\ Q) True l ->
    Forall (fun x => (height x < n)%nat /\ arrs_P P x) l.
  Proof.
    intros n l Hh Ha. apply height_elems_lt in Hh. apply (fold_and_Forall (arrs_P P)) in Ha.
    exact (Forall_and _ _ _ Hh Ha).
  Qed.

  Lemma kvs_pack : forall n l,
    (fold_right (fun kv m => Nat.max (Nat.max (height (fst kv)) (height (snd kv))) m) 0%nat l < n)%nat ->
    fold_right (fun kv Q => (arrs_P P (fst kv) /\ arrs_P P (snd kv)) /\ Q) True l ->
    Forall (fun kv => ((height (fst kv) < n)%nat /\ arrs_P P (fst kv)) /\
                      ((height (snd kv) < n)%nat /\ arrs_P P (snd kv))) l.
  Proof.
    intros n l Hh Ha. apply height_kvs_lt in Hh.
    apply (fold_and_Forall (fun kv => arrs_P P (fst kv) /\ arrs_P P (snd kv))) in Ha.
    pose proof (Forall_and _ _ _ Hh Ha) as H. eapply Forall_impl; [|exact H].
    intros kv [[H1 H2] [H3 H4]]. tauto.
  Qed.

  Lemma enc_inv_n : forall n a env t st, (height a < n)%nat -> arrs_P P a ->
    env_ok env st -> callable t st -> I st -> I (enc env t a st).
  Proof.
    induction n as [|n IHn]; intros a env t st Hh Ha He Hcall Hi; [lia|].
    destruct t as [c p d|c sid oneof d fc opts fts|c k et|c mid kt vt|k|].
    - rewrite enc_eq_prim. destruct Hcall as [Hc|[Ht Hp]]; [discriminate|]. apply I_enc_prim; assumption.
    - destruct Hcall as [Hc|[Ht Hp]]; [discriminate|].
      set (t := EStruct c sid oneof d fc opts fts) in *.
      assert (Hpush : forall st1, mono st st1 -> env_ok (push_env env t) st1).
      { intros st1 M. apply env_ok_push; [eapply env_ok_mono; eassumption|exact Ht|eapply Pre_mono; eassumption]. }
      destruct a; try (destruct oneof; [|destruct d]; apply I_wfail; exact Hi).
      + (* WStruct *)
        destruct oneof; [apply I_wfail; exact Hi|]. destruct d; [apply I_wfail; exact Hi|].
        unfold t. rewrite enc_eq_struct. fold t. unfold enc_body.
        match goal with |- context [add_bits st c ?b] => set (bs := b) end.
        pose proof (mono_add_bits st c bs) as M.
        assert (Hi1 : I (add_bits st c bs)) by (apply (I_add_bits t); auto).
        assert (Efts : fts = [] \/ fts <> []) by (destruct fts; [left; reflexivity|right; discriminate]).
        destruct Efts as [Efts|Efts].
        { rewrite Efts. destruct fields; exact Hi1. }
        apply (fields_inv_n n IHn _ t); auto.
        * apply fields_pack; [cbn [height] in Hh; lia|exact Ha].
        * unfold t. cbn [tree_children]. apply incl_refl.
        * eapply Pre_mono; eassumption.
        * apply Ne_struct; [exact Ht|exact Efts].
      + (* WDictRef *)
        destruct oneof; [apply I_wfail; exact Hi|]. destruct d; [|apply I_wfail; exact Hi].
        unfold t. rewrite enc_eq_dictref. apply (I_add_bits t); auto.
      + (* WDictFull *)
        destruct oneof; [apply I_wfail; exact Hi|]. destruct d; [|apply I_wfail; exact Hi].
        destruct a; try (apply I_wfail; exact Hi).
        unfold t. rewrite enc_eq_dictfull. fold t. cbv zeta. apply I_cols. unfold enc_body.
        pose proof (mono_add_bits st c [true]) as M1.
        assert (Hi1 : I (add_bits st c [true])) by (apply (I_add_bits t); auto).
        assert (Hne1 : Ne t (add_bits st c [true])) by (apply (Ne_bits t); [discriminate|reflexivity|discriminate]).
        match goal with |- context [add_bits (add_bits st c [true]) c ?b] => set (bs := b) end.
        pose proof (mono_add_bits (add_bits st c [true]) c bs) as M2.
        assert (M : mono st (add_bits (add_bits st c [true]) c bs)) by (eapply mono_trans; eassumption).
        apply (fields_inv_n n IHn _ t); auto.
        * apply fields_pack; [cbn [height] in Hh; lia|exact Ha].
        * unfold t. cbn [tree_children]. apply incl_refl.
        * exact (Pre_mono _ _ _ M Hp).
        * exact (Ne_mono _ _ _ M2 Hne1).
        * apply (I_add_bits t); auto. exact (Pre_mono _ _ _ M1 Hp).
      + (* WOneof *)
        destruct oneof; [|destruct d; apply I_wfail; exact Hi].
        unfold t. rewrite enc_eq_oneof. fold t. cbv zeta.
        match goal with |- context [add_bits st c ?b] => set (bs := b) end.
        pose proof (mono_add_bits st c bs) as M.
        assert (Hi1 : I (add_bits st c bs)) by (apply (I_add_bits t); auto).
        destruct alt as [a'|]; [|exact Hi1].
        apply IHn; auto.
        * cbn [height] in Hh. lia.
        * apply (resolve_callable _ t); auto.
          -- eapply Pre_mono; eassumption.
          -- apply (Ne_bits t); [discriminate|reflexivity|]. apply bits_of_N_nonnil, oneof_bits_pos.
          -- unfold t. cbn [tree_children].
             destruct (nth_in_or_default (N.to_nat (tag - 1)) fts EBad) as [Hin|Hd]; [left; exact Hin|right; exact Hd].
    - destruct Hcall as [Hc|[Ht Hp]]; [discriminate|].
      set (t := EArr c k et) in *.
      destruct a; try (apply I_wfail; exact Hi).
      unfold t. rewrite enc_eq_arr. fold t.
      match goal with |- context [add_bits st c ?b] => set (bs := b) end.
      pose proof (mono_add_bits st c bs) as M. cbn [arrs_P] in Ha. destruct Ha as [HP Ha].
      apply (elems_inv_n n IHn _ t); auto.
      + apply elems_pack; [cbn [height] in Hh; lia|exact Ha].
      + left. reflexivity.
      + apply env_ok_push; [eapply env_ok_mono; eassumption|exact Ht|eapply Pre_mono; eassumption].
      + eapply Pre_mono; eassumption.
      + apply (Ne_arr t); [discriminate|reflexivity|exact HP].
      + apply (I_add_bits t); auto.
    - destruct Hcall as [Hc|[Ht Hp]]; [discriminate|].
      set (t := EMap c mid kt vt) in *.
      destruct a; try (apply I_wfail; exact Hi).
      + unfold t. rewrite enc_eq_mapfull. fold t.
        match goal with |- context [add_bytes st c ?b] => set (bs := b) end.
        pose proof (mono_add_bytes st c bs) as M.
        apply (kvs_inv_n n IHn _ t); auto.
        * apply kvs_pack; [cbn [height] in Hh; lia|exact Ha].
        * left. reflexivity.
        * right. left. reflexivity.
        * apply env_ok_push; [eapply env_ok_mono; eassumption|exact Ht|eapply Pre_mono; eassumption].
        * eapply Pre_mono; eassumption.
        * apply (Ne_bytes t); [discriminate|reflexivity|apply leb_enc_nonnil].
        * apply (I_add_bytes t); auto.
      + unfold t. rewrite enc_eq_mapvals. fold t.
        match goal with |- context [add_bytes st c ?b] => set (bs := b) end.
        pose proof (mono_add_bytes st c bs) as M.
        apply (elems_inv_n n IHn _ t); auto.
        * apply elems_pack; [cbn [height] in Hh; lia|exact Ha].
        * right. left. reflexivity.
        * apply env_ok_push; [eapply env_ok_mono; eassumption|exact Ht|eapply Pre_mono; eassumption].
        * eapply Pre_mono; eassumption.
        * apply (Ne_bytes t); [discriminate|reflexivity|apply leb_enc_nonnil].
        * apply (I_add_bytes t); auto.
    - destruct a; apply I_wfail; exact Hi.
    - destruct a; apply I_wfail; exact Hi.
  Qed.

  Theorem enc_inv : forall a env t st, arrs_P P a ->
    env_ok env st -> callable t st -> I st -> I (enc env t a st).
  Proof. intros a env t st. apply (enc_inv_n (S (height a))). lia. Qed.
End EncInv.

(* ------------------------------------------------------------------ instances *)
Lemma arrs_P_True_n : forall n a, (height a < n)%nat -> arrs_P (fun _ => True) a.
Proof.
  induction n as [|n IH]; intros a Hh; [lia|].
  destruct a; cbn [arrs_P]; try exact Logic.I; cbn [height] in Hh.
  - induction fields as [|f fs IHf]; cbn [fold_right] in *; [exact Logic.I|].
    split; [destruct f; [apply IH; lia|exact Logic.I]|apply IHf; lia].
  - apply IH. lia.
  - destruct alt; [apply IH; lia|exact Logic.I].
  - split; [exact Logic.I|]. induction elems as [|x l IHl]; cbn [fold_right] in *; [exact Logic.I|].
    split; [apply IH; lia|apply IHl; lia].
  - induction kvs as [|x l IHl]; cbn [fold_right] in *; [exact Logic.I|].
    split; [split; apply IH; lia|apply IHl; lia].
  - induction vals as [|x l IHl]; cbn [fold_right] in *; [exact Logic.I|].
    split; [apply IH; lia|apply IHl; lia].
Qed.

Lemma arrs_P_True : forall a, arrs_P (fun _ => True) a.
Proof. intros a. apply (arrs_P_True_n (S (height a))). lia. Qed.

Lemma node_col_in : forall root t, In t (tree_nodes root) -> In (node_col t) (tree_cols root).
Proof. intros root t H. rewrite tree_cols_nodes. apply in_map. exact H. Qed.

(* 1. nothing outside the tree is touched *)
Theorem enc_outside_default : forall root a st,
  outside_default st root -> outside_default (enc [] root a st) root.
Proof.
  intros root a st H.
  apply (enc_inv root (fun st => outside_default st root) (fun _ _ => True) (fun _ _ => True) (fun _ => True));
    try (intros; exact Logic.I); [| | | | |exact H].
  - intros s sd tl e Hs c Hc. exact (Hs c Hc).
  - intros t s x' Ht Hs _ _ c Hc. rewrite wget_wset_other; [exact (Hs c Hc)|].
    intros ->. apply Hc. apply node_col_in. exact Ht.
  - apply arrs_P_True.
  - intros k y [].
  - destruct (tree_col root) as [c0|] eqn:E; [right|left; exact E].
    split; [apply (tree_nodes_self root c0 E)|exact Logic.I].
Qed.

(* 2. bits go to bit columns, bytes to byte columns *)
Theorem enc_kind_ok : forall root a st, NoDup (tree_cols root) ->
  kind_ok st root -> kind_ok (enc [] root a st) root.
Proof.
  intros root a st Hnd H.
  apply (enc_inv root (fun st => kind_ok st root) (fun _ _ => True) (fun _ _ => True) (fun _ => True));
    try (intros; exact Logic.I); [| | | | |exact H].
  - intros s sd tl e Hs x Hx. exact (Hs x Hx).
  - intros t s x' Ht Hs _ Hshape x Hx.
    destruct (Pos.eq_dec (node_col x) (node_col t)) as [E|N].
    + assert (x = t) by (apply (node_unique root); assumption). subst x.
      rewrite wget_wset_same. specialize (Hs t Ht).
      destruct (is_bit_col t); destruct Hshape as [_ ->]; exact Hs.
    + rewrite wget_wset_other by exact N. exact (Hs x Hx).
  - apply arrs_P_True.
  - intros k y [].
  - destruct (tree_col root) as [c0|] eqn:E; [right|left; exact E].
    split; [apply (tree_nodes_self root c0 E)|exact Logic.I].
Qed.

(* 3. hereditary emptiness *)
(* (child, parent) edges between column-bearing nodes *)
Definition edge (ch t : etree) : list (etree * etree) :=
  match tree_col ch with Some _ => [(ch, t)] | None => [] end.

Fixpoint parents (t : etree) : list (etree * etree) :=
  match t with
  | EStruct _ _ _ _ _ _ fts => flat_map (fun ch => edge ch t ++ parents ch) fts
  | EArr _ _ e => edge e t ++ parents e
  | EMap _ _ k v => (edge k t ++ parents k) ++ (edge v t ++ parents v)
  | _ => []
  end.

Lemma parents_unfold : forall t,
  parents t = match tree_col t with
              | None => []
              | Some _ => flat_map (fun ch => edge ch t ++ parents ch) (tree_children t)
              end.
Proof.
  destruct t; cbn [parents tree_col tree_children flat_map]; rewrite ?app_nil_r; reflexivity.
Qed.

Definition edge_col (e : etree * etree) : positive := node_col (fst e).

Lemma parents_cols : forall t,
  map edge_col (parents t) = match tree_col t with
                             | None => []
                             | Some _ => flat_map tree_cols (tree_children t)
                             end.
Proof.
  induction t as [t IH] using etree_children_ind.
  rewrite parents_unfold. destruct (tree_col t) as [c|] eqn:Hc; [|reflexivity].
  rewrite map_flat_map. apply flat_map_ext_in. intros ch Hch.
  rewrite map_app, (IH ch Hch), (tree_cols_unfold ch). unfold edge.
  destruct (tree_col ch) as [cc|] eqn:Hcc; [|reflexivity].
  cbn [map app]. unfold edge_col at 1. cbn [fst]. unfold node_col. rewrite Hcc. reflexivity.
Qed.

Lemma tree_cols_parents : forall t c, tree_col t = Some c -> tree_cols t = c :: map edge_col (parents t).
Proof. intros t c H. rewrite tree_cols_unfold, parents_cols, H. reflexivity. Qed.

Lemma parents_in : forall root ch p, In (ch, p) (parents root) ->
  In ch (tree_nodes root) /\ In p (tree_nodes root) /\ In ch (tree_children p) /\ tree_col ch <> None.
Proof.
  induction root as [t IH] using etree_children_ind. intros ch p H.
  rewrite parents_unfold in H. destruct (tree_col t) as [c|] eqn:Hc; [|contradiction].
  apply in_flat_map in H. destruct H as [x [Hx H]]. apply in_app_or in H. destruct H as [H|H].
  - unfold edge in H. destruct (tree_col x) as [cx|] eqn:Hcx; [|contradiction].
    destruct H as [H|[]]. inversion H; subst.
    split; [|split; [apply (tree_nodes_self p c Hc)|split; [exact Hx|congruence]]].
    apply (tree_nodes_child p ch); [congruence|exact Hx|apply (tree_nodes_self ch cx Hcx)].
  - destruct (IH x Hx ch p H) as (H1 & H2 & H3).
    split; [|split; [|exact H3]]; apply (tree_nodes_child t x); try congruence; assumption.
Qed.

Lemma parents_edge : forall root t ch, In t (tree_nodes root) -> In ch (tree_children t) ->
  tree_col ch <> None -> In (ch, t) (parents root).
Proof.
  induction root as [r IH] using etree_children_ind. intros t ch Ht Hch Hc.
  rewrite tree_nodes_unfold in Ht. rewrite parents_unfold.
  destruct (tree_col r) as [c|] eqn:Hr; [|contradiction].
  destruct Ht as [<-|Ht].
  - apply in_flat_map. exists ch. split; [exact Hch|]. apply in_or_app. left.
    unfold edge. destruct (tree_col ch); [left; reflexivity|congruence].
  - apply in_flat_map in Ht. destruct Ht as [x [Hx Ht]].
    apply in_flat_map. exists x. split; [exact Hx|]. apply in_or_app. right.
    exact (IH x Hx t ch Ht Hch Hc).
Qed.

Lemma parent_unique : forall root ch p q, NoDup (tree_cols root) ->
  In (ch, p) (parents root) -> In (ch, q) (parents root) -> p = q.
Proof.
  intros root ch p q Hnd Hp Hq.
  destruct (tree_col root) as [c|] eqn:Hc.
  2:{ rewrite parents_unfold, Hc in Hp. contradiction. }
  rewrite (tree_cols_parents root c Hc) in Hnd. inversion Hnd as [|? ? _ Hnd']; subst.
  assert (E : (ch, p) = (ch, q)) by (apply (NoDup_map_inj edge_col (parents root)); auto).
  inversion E. reflexivity.
Qed.

Lemma root_no_parent : forall root p, NoDup (tree_cols root) -> ~ In (root, p) (parents root).
Proof.
  intros root p Hnd H.
  destruct (tree_col root) as [c|] eqn:Hc.
  2:{ rewrite parents_unfold, Hc in H. contradiction. }
  rewrite (tree_cols_parents root c Hc) in Hnd. inversion Hnd as [|? ? Hni _]; subst.
  apply Hni. apply (in_map edge_col) in H. unfold edge_col at 1 in H. cbn [fst] in H.
  unfold node_col in H. rewrite Hc in H. exact H.
Qed.

(* upward form of the invariant: a column with data has a parent with data *)
Definition up_ok (root : etree) (st : wst) : Prop :=
  forall ch p, In (ch, p) (parents root) -> nonempty st ch -> nonempty st p.
Definition parents_ne (root : etree) (x : etree) (st : wst) : Prop :=
  forall p, In (x, p) (parents root) -> nonempty st p.

Lemma up_ok_elision : forall root st, up_ok root st -> elision_ok st root.
Proof.
  intros root st H x Hx Hd y Hy.
  destruct (tree_col y) as [c|] eqn:Hc; [|unfold col_data; rewrite Hc; reflexivity].
  destruct (col_data st y) eqn:E; [reflexivity|exfalso].
  assert (Hin : In (y, x) (parents root)) by (apply parents_edge; [exact Hx|exact Hy|congruence]).
  apply (H y x Hin); [unfold nonempty; rewrite E; discriminate|exact Hd].
Qed.

(* every struct node that has children writes at least one mask bit *)
Definition fc_ok (root : etree) : Prop :=
  forall c sid d fc opts fts, In (EStruct c sid false d fc opts fts) (tree_nodes root) ->
  fts <> [] -> fc <> 0.

Definition arr_small (n : nat) : Prop := N.of_nat n < two48.

Lemma col_data_wset_other : forall st c x' y, tree_col y <> None -> node_col y <> c ->
  col_data (wset st c x') y = col_data st y.
Proof.
  intros st c x' y Hy N. unfold col_data. unfold node_col in N.
  destruct (tree_col y) as [cy|]; [|congruence]. rewrite wget_wset_other by exact N. reflexivity.
Qed.

Lemma nonempty_add_bits : forall t st b, tree_col t <> None -> is_bit_col t = true -> b <> [] ->
  nonempty (add_bits st (node_col t) b) t.
Proof.
  intros t st b Hc Hb Hne. unfold nonempty, col_data, node_col.
  destruct (tree_col t) as [c|]; [|congruence]. rewrite Hb. unfold add_bits.
  rewrite wget_wset_same. cbn [wc_bits]. rewrite column_bytes_nil_iff.
  intros H. apply app_eq_nil in H. tauto.
Qed.

Lemma nonempty_add_bytes : forall t st b, tree_col t <> None -> is_bit_col t = false -> b <> [] ->
  nonempty (add_bytes st (node_col t) b) t.
Proof.
  intros t st b Hc Hb Hne. unfold nonempty, col_data, node_col.
  destruct (tree_col t) as [c|]; [|congruence]. rewrite Hb. unfold add_bytes.
  rewrite wget_wset_same. cbn [wc_bytes]. intros H. apply app_eq_nil in H. tauto.
Qed.

Theorem enc_up_ok : forall root a st, NoDup (tree_cols root) -> fc_ok root -> arrs_P arr_small a ->
  up_ok root st -> up_ok root (enc [] root a st).
Proof.
  intros root a st Hnd Hfc Ha H.
  apply (enc_inv root (up_ok root) (parents_ne root) (fun x st => nonempty st x) arr_small);
    [| | | | | | | | | exact Ha | | | exact H].
  - intros s sd tl e Hs ch p Hin. exact (Hs ch p Hin).
  - intros x s s' M Hp p Hin. apply (nonempty_mono s s' p M). exact (Hp p Hin).
  - intros x s s' M Hn. exact (nonempty_mono s s' x M Hn).
  - (* own-kind write *)
    intros t s x' Ht Hs Hp Hshape ch p Hin Hne.
    assert (M : mono s (wset s (node_col t) x')).
    { intros c. destruct (Pos.eq_dec c (node_col t)) as [->|N].
      - rewrite wget_wset_same. destruct (is_bit_col t); destruct Hshape as [[b Hb] He]; rewrite Hb, He;
          split; eexists; try reflexivity; symmetry; apply app_nil_r.
      - rewrite wget_wset_other by exact N. split; exists []; symmetry; apply app_nil_r. }
    destruct (parents_in root ch p Hin) as (Hch & Hpn & _ & Hcc).
    destruct (Pos.eq_dec (node_col ch) (node_col t)) as [E|N].
    + assert (ch = t) by (apply (node_unique root); assumption). subst ch.
      apply (nonempty_mono s _ p M). exact (Hp p Hin).
    + apply (nonempty_mono s _ p M). apply (Hs ch p Hin).
      unfold nonempty in *. rewrite col_data_wset_other in Hne; assumption.
  - (* children *)
    intros t ch s Ht Hch Hc Hp Hn p Hin.
    assert (p = t); [|subst; exact Hn].
    apply (parent_unique root ch); [exact Hnd|exact Hin|apply parents_edge; assumption].
  - intros t s b Hc Hb Hne. apply nonempty_add_bits; assumption.
  - intros t s b Hc Hb Hne. apply nonempty_add_bytes; assumption.
  - intros t s n Hc Hb Hn. apply nonempty_add_bits; try assumption.
    apply uvc_write_bits_nonnil. exact Hn.
  - intros c sid d fc opts fts s mask present Ht Hfts.
    apply (nonempty_add_bits (EStruct c sid false d fc opts fts)); [discriminate|reflexivity|].
    pose proof (Hfc c sid d fc opts fts Ht Hfts) as Hfc0.
    intros Hnil. apply app_eq_nil in Hnil. destruct Hnil as [Hnil _].
    apply (bits_of_N_nonnil (N.to_nat fc) mask); [lia|exact Hnil].
  - intros k y [].
  - destruct (tree_col root) as [c0|] eqn:E; [right|left; exact E].
    split; [apply (tree_nodes_self root c0 E)|].
    intros p Hin. exfalso. exact (root_no_parent root p Hnd Hin).
Qed.

(* ------------------------------------------------------------------ a whole frame *)
Lemma restart_acc_empty : forall fl ws0, acc_empty ws0 -> acc_empty (w_restart fl ws0).
Proof.
  intros fl ws0 H c. rewrite wget_restart. destruct (N.testbit fl 2); cbn [wc_bits wc_bytes]; apply H.
Qed.

Lemma restart_outside_default : forall fl ws0 t, outside_default ws0 t -> outside_default (w_restart fl ws0) t.
Proof.
  intros fl ws0 t H c Hc. rewrite wget_restart, (H c Hc). destruct (N.testbit fl 2); reflexivity.
Qed.

Lemma acc_empty_col_data : forall st x, acc_empty st -> col_data st x = [].
Proof.
  intros st x H. unfold col_data. destruct (tree_col x) as [c|]; [|reflexivity].
  destruct (H c) as [H1 H2]. rewrite H1, H2. destruct (is_bit_col x); reflexivity.
Qed.

Lemma acc_empty_up_ok : forall root st, acc_empty st -> up_ok root st.
Proof. intros root st H ch p _ Hne. exfalso. apply Hne. apply acc_empty_col_data. exact H. Qed.

Lemma acc_empty_kind_ok : forall root st, acc_empty st -> kind_ok st root.
Proof. intros root st H x _. destruct (H (node_col x)). destruct (is_bit_col x); assumption. Qed.

Definition frame_end (t : etree) (fl : N) (ws0 : wst) (recs : list wire) : wst :=
  fold_left (fun st a => enc [] t a st) recs (w_restart fl ws0).

Lemma frame_encode_end : forall t fl ws0 recs,
  frame_encode t fl ws0 recs =
  (w_clear (frame_end t fl ws0 recs),
   emit_data_frame_content (frame_end t fl ws0 recs) t (N.of_nat (length recs))).
Proof. reflexivity. Qed.

(* the three side conditions hold for the writer state at the end of every frame *)
Theorem frame_end_invariants : forall t fl ws0 recs,
  NoDup (tree_cols t) -> fc_ok t -> Forall (arrs_P arr_small) recs ->
  acc_empty ws0 -> outside_default ws0 t ->
  elision_ok (frame_end t fl ws0 recs) t /\ kind_ok (frame_end t fl ws0 recs) t /\
  outside_default (frame_end t fl ws0 recs) t.
Proof.
  intros t fl ws0 recs Hnd Hfc Hrecs Hae Hod. unfold frame_end.
  assert (H0 : up_ok t (w_restart fl ws0) /\ kind_ok (w_restart fl ws0) t /\ outside_default (w_restart fl ws0) t).
  { pose proof (restart_acc_empty fl ws0 Hae) as Hae'.
    split; [apply acc_empty_up_ok; exact Hae'|split; [apply acc_empty_kind_ok; exact Hae'|]].
    apply restart_outside_default. exact Hod. }
  revert H0. generalize (w_restart fl ws0) as s.
  induction Hrecs as [|a l Ha Hl IH]; intros s (H1 & H2 & H3); cbn [fold_left].
  - split; [apply up_ok_elision; exact H1|split; assumption].
  - apply IH. split; [apply enc_up_ok; assumption|split; [apply enc_kind_ok; assumption|]].
    apply enc_outside_default. exact H3.
Qed.

(* the frame-content round trip for what [frame_encode] emits: the reader's next frame is in
   [sync] with the writer at the start of the frame, the totals extend every writer state of the
   frame (WireFactsBase.extends_mono), and the writer state handed to the next frame satisfies
   the same preconditions *)
Theorem frame_encode_reader_sync : forall r fl ws0 recs src',
  let t := Reader.rd_tree r in
  let st_end := frame_end t fl ws0 recs in
  Reader.next_frame (Reader.rd_src r) = inr (fl, snd (frame_encode t fl ws0 recs), src') ->
  frame_content_ok st_end t (N.of_nat (length recs)) ->
  NoDup (tree_cols t) -> fc_ok t -> Forall (arrs_P arr_small) recs ->
  carry ws0 (Reader.rd_st r) -> acc_empty ws0 -> outside_default ws0 t ->
  exists r', Reader.reader_next_frame r = inr r' /\
    Reader.rd_tree r' = t /\ Reader.rd_src r' = src' /\
    Reader.rd_left r' = N.of_nat (length recs) /\ Reader.rd_count r' = Reader.rd_count r /\
    Reader.rd_rec r' = Reader.rd_rec r /\
    sync (frame_totals st_end t) (w_restart fl ws0) (Reader.rd_st r') /\
    extends (frame_totals st_end t) st_end /\
    acc_empty (fst (frame_encode t fl ws0 recs)) /\
    outside_default (fst (frame_encode t fl ws0 recs)) t.
Proof.
  intros r fl ws0 recs src' t st_end Hnf Hok Hnd Hfc Hrecs Hca Hae Hod.
  destruct (frame_end_invariants t fl ws0 recs Hnd Hfc Hrecs Hae Hod) as (He & Hk & Ho).
  rewrite frame_encode_end in *. cbn [fst snd] in *. fold st_end in Hnf, He, Hk, Ho |- *.
  destruct (reader_next_frame_sync r fl _ src' ws0 st_end Hnf Hok Hnd He Hca Hae Hod)
    as (r' & H1 & H2 & H3 & H4 & H5 & H6 & _ & H8).
  exists r'. repeat (split; [assumption|]).
  split; [apply frame_totals_extends; assumption|].
  split; [apply acc_empty_clear|apply outside_default_clear; exact Ho].
Qed.

(* ------------------------------------------------------------------ fc_ok of built trees *)
Lemma fc_ok_children : forall t,
  (forall c sid d fc opts fts, t = EStruct c sid false d fc opts fts -> fts <> [] -> fc <> 0) ->
  (forall ch, In ch (tree_children t) -> fc_ok ch) -> fc_ok t.
Proof.
  intros t Hself Hch c sid d fc opts fts Hin Hne.
  rewrite tree_nodes_unfold in Hin. destruct (tree_col t); [|contradiction].
  destruct Hin as [E|Hin]; [apply (Hself c sid d fc opts fts E Hne)|].
  apply in_flat_map in Hin. destruct Hin as [ch [H1 H2]]. exact (Hch ch H1 c sid d fc opts fts H2 Hne).
Qed.

Lemma build_fc_ok : forall sc f stack ty st, fc_ok (fst (build sc f stack ty st)).
Proof.
  intros sc. induction f as [|f IH]; intros stack ty st.
  - cbn [build fst]. intros c sid d fc opts fts [].
  - cbn [build]. destruct (on_stack stack (key_of ty)).
    { cbn [fst]. intros c sid d fc opts fts []. }
    unfold fresh_col.
    set (st1 := mkIst (Pos.succ (i_next st)) (i_over st) (i_memo st) (i_err st)).
    destruct ty as [p d|e|s|m].
    + cbn [fst]. apply fc_ok_children; [intros; discriminate|intros ch []].
    + pose proof (IH (key_of (TArray e) :: stack) e st1) as H.
      destruct (build sc f (key_of (TArray e) :: stack) e st1) as [et st2]. cbn [fst] in *.
      apply fc_ok_children; [intros; discriminate|]. intros ch [<-|[]]. exact H.
    + destruct (field_count st1 s (N.of_nat (length (s_fields (get_struct sc s))))) as [fc st2].
      set (st3 := if N.of_nat (length (s_fields (get_struct sc s))) <? fc then set_err st2 else st2).
      assert (Hfold : forall fl (acc : list etree * istate),
                let res := fold_left (fun (acc : list etree * istate) (fl : field) =>
                             let '(l, st) := acc in
                             let '(ft, st) := build sc f (KStruct s :: stack) (f_type fl) st in (l ++ [ft], st)) fl acc in
                (forall x, In x (fst acc) -> fc_ok x) -> (forall x, In x (fst res) -> fc_ok x) /\
                (fl = [] -> fst res = fst acc)).
      { induction fl as [|x fl IHf]; intros acc; cbn [fold_left]; [intros H; split; [exact H|reflexivity]|].
        intros Hacc. destruct acc as [l s0].
        pose proof (IH (KStruct s :: stack) (f_type x) s0) as Hb.
        destruct (build sc f (KStruct s :: stack) (f_type x) s0) as [ft s1]. cbn [fst] in *.
        split; [|discriminate]. apply (IHf (l ++ [ft], s1)). cbn [fst].
        intros y Hy. apply in_app_or in Hy. destruct Hy as [Hy|[<-|[]]]; [exact (Hacc y Hy)|exact Hb]. }
      match goal with |- context [fold_left ?F ?L ?A] =>
        specialize (Hfold L A); cbv zeta in Hfold; destruct (fold_left F L A) as [fts st4] end.
      cbn [fst] in *. destruct Hfold as [Hall Hnil]; [intros x []|].
      apply fc_ok_children.
      * intros c0 sid0 d0 fc0 opts0 fts0 E Hne. inversion E; subst. intros ->.
        apply Hne. apply Hnil. reflexivity.
      * cbn [tree_children]. exact Hall.
    + pose proof (IH (KMap m :: stack) (m_key (get_mmap sc m)) st1) as Hk.
      destruct (build sc f (KMap m :: stack) (m_key (get_mmap sc m)) st1) as [kt st2].
      pose proof (IH (KMap m :: stack) (m_val (get_mmap sc m)) st2) as Hv.
      destruct (build sc f (KMap m :: stack) (m_val (get_mmap sc m)) st2) as [vt st3].
      cbn [fst] in *. apply fc_ok_children; [intros; discriminate|].
      intros ch [<-|[<-|[]]]; assumption.
Qed.

Theorem build_root_fc_ok : forall sc root over, fc_ok (fst (build_root sc root over)).
Proof. intros. unfold build_root. apply build_fc_ok. Qed.

(* ------------------------------------------------------------------ wire_ok bounds the arrays *)
Section OkArrs.
  Variable sizes : N -> N.
  Variable n : nat.
  Hypothesis IH : forall a env t prev st al, (height a < n)%nat ->
    wire_ok sizes env t prev a st al = true -> arrs_P arr_small a.

  Lemma ok_fields_arrs : forall env' prev mask present fs i oi fts opts pf st al,
    Forall (fun f => match f with Some x => (height x < n)%nat | None => True end) fs ->
    ok_fields sizes env' prev mask present i oi fts opts fs pf st al = true ->
    fold_right (fun f Q => match f with Some x => arrs_P arr_small x | None => True end /\ Q) True fs.
  Proof.
    intros env' prev mask present. induction fs as [|f fs IHfs]; intros i oi fts opts pf st al HF H.
    - exact Logic.I.
    - destruct fts as [|ft fts]; [discriminate H|]. destruct opts as [|o opts]; [discriminate H|].
      cbn [ok_fields] in H. inversion HF as [|? ? Hf HF']; subst. cbn [fold_right].
      destruct f as [a'|].
      + rewrite !andb_true_iff in H. destruct H as [[[_ _] Hw] Hgo].
        split; [exact (IH _ _ _ _ _ _ Hf Hw)|exact (IHfs _ _ _ _ _ _ _ HF' Hgo)].
      + rewrite andb_true_iff in H. destruct H as [_ Hgo].
        split; [exact Logic.I|exact (IHfs _ _ _ _ _ _ _ HF' Hgo)].
  Qed.

  Lemma ok_elems_arrs : forall env' et es pe st al,
    Forall (fun x => (height x < n)%nat) es ->
    ok_elems sizes env' et es pe st al = true ->
    fold_right (fun x Q => arrs_P arr_small x /\ Q) True es.
  Proof.
    intros env' et. induction es as [|e es IHes]; intros pe st al HF H; [exact Logic.I|].
    cbn [ok_elems] in H. inversion HF as [|? ? He HF']; subst. cbn [fold_right].
    rewrite andb_true_iff in H. destruct H as [Hw Hgo].
    split; [exact (IH _ _ _ _ _ _ He Hw)|exact (IHes _ _ _ HF' Hgo)].
  Qed.

  Lemma ok_kvs_arrs : forall env' kt vt l pk st al,
    Forall (fun kv => (height (fst kv) < n)%nat /\ (height (snd kv) < n)%nat) l ->
    ok_kvs sizes env' kt vt l pk st al = true ->
    fold_right (fun kv Q => (arrs_P arr_small (fst kv) /\ arrs_P arr_small (snd kv)) /\ Q) True l.
  Proof.
    intros env' kt vt. induction l as [|[k v] l IHl]; intros pk st al HF H; [exact Logic.I|].
    cbn [ok_kvs] in H. inversion HF as [|? ? [Hk Hv] HF']; subst. cbn [fold_right fst snd] in *.
    destruct (hd (RNil, RNil) pk) as [pkk pv]. cbv zeta in H.
    rewrite !andb_true_iff in H. destruct H as [[Hwk Hwv] Hgo].
    split; [split; [exact (IH _ _ _ _ _ _ Hk Hwk)|exact (IH _ _ _ _ _ _ Hv Hwv)]|].
    exact (IHl _ _ _ HF' Hgo).
  Qed.
End OkArrs.

Lemma wire_ok_arrs_n : forall sizes n a env t prev st al, (height a < n)%nat ->
  wire_ok sizes env t prev a st al = true -> arrs_P arr_small a.
Proof.
  intros sizes. induction n as [|n IHn]; intros a env t prev st al Hh H; [lia|].
  destruct a; try exact Logic.I; cbn [arrs_P].
  - (* WStruct *)
    destruct t as [c p d|c sid oneof d fc opts fts|c k et|c mid kt vt|k|]; try discriminate H.
    + rewrite ok_eq_prim in H. destruct p; discriminate H.
    + destruct oneof; [discriminate H|]. destruct d; [discriminate H|].
      rewrite ok_eq_struct in H. unfold ok_body in H. rewrite !andb_true_iff in H. destruct H as [_ H].
      apply (ok_fields_arrs sizes n IHn) in H; [exact H|].
      apply height_fields_lt. cbn [height] in Hh. lia.
  - (* WDictFull *)
    destruct t as [c p d|c sid oneof d fc opts fts|c k et|c mid kt vt|k|]; try discriminate H.
    + rewrite ok_eq_prim in H. destruct p; discriminate H.
    + destruct oneof; [discriminate H|]. destruct d; [|discriminate H].
      destruct a; try discriminate H.
      rewrite ok_eq_dictfull in H. unfold ok_body in H. rewrite !andb_true_iff in H. destruct H as [_ H].
      cbn [arrs_P].
      apply (ok_fields_arrs sizes n IHn) in H; [exact H|].
      apply height_fields_lt. cbn [height] in Hh. lia.
  - (* WOneof *)
    destruct alt as [a'|]; [|exact Logic.I].
    destruct t as [c p d|c sid oneof d fc opts fts|c k et|c mid kt vt|k|]; try discriminate H.
    + rewrite ok_eq_prim in H. destruct p; discriminate H.
    + destruct oneof; [|destruct d; discriminate H].
      rewrite ok_eq_oneof in H. cbv zeta in H. rewrite !andb_true_iff in H. destruct H as [_ [_ H]].
      apply (IHn _ _ _ _ _ _) in H; [exact H|]. cbn [height] in Hh. lia.
  - (* WArr *)
    destruct t as [c p d|c sid oneof d fc opts fts|c k et|c mid kt vt|k|]; try discriminate H.
    + rewrite ok_eq_prim in H. destruct p; discriminate H.
    + destruct oneof; [|destruct d]; discriminate H.
    + rewrite ok_eq_arr in H. cbv zeta in H. rewrite !andb_true_iff in H. destruct H as [[Hn _] H].
      split.
      * unfold arr_small, two48. apply N.ltb_lt in Hn. change (2 ^ 40) with 1099511627776 in Hn. lia.
      * apply (ok_elems_arrs sizes n IHn) in H; [exact H|].
        apply height_elems_lt. cbn [height] in Hh. lia.
  - (* WMapFull *)
    destruct t as [c p d|c sid oneof d fc opts fts|c k et|c mid kt vt|k|]; try discriminate H.
    + rewrite ok_eq_prim in H. destruct p; discriminate H.
    + destruct oneof; [|destruct d]; discriminate H.
    + rewrite ok_eq_mapfull in H. cbv zeta in H. rewrite andb_true_iff in H. destruct H as [_ H].
      apply (ok_kvs_arrs sizes n IHn) in H; [exact H|].
      apply height_kvs_lt. cbn [height] in Hh. lia.
  - (* WMapVals *)
    destruct t as [c p d|c sid oneof d fc opts fts|c k et|c mid kt vt|k|]; try discriminate H.
    + rewrite ok_eq_prim in H. destruct p; discriminate H.
    + destruct oneof; [|destruct d]; discriminate H.
    + rewrite ok_eq_mapvals in H. cbv zeta in H. rewrite !andb_true_iff in H. destruct H as [_ [_ H]].
      apply (ok_elems_arrs sizes n IHn) in H; [exact H|].
      apply height_elems_lt. cbn [height] in Hh. lia.
Qed.

(* what the record-layer theorem assumes of every record is enough *)
Theorem wire_ok_arrs : forall sizes a env t prev st al,
  wire_ok sizes env t prev a st al = true -> arrs_P arr_small a.
Proof. intros sizes a env t prev st al. apply (wire_ok_arrs_n sizes (S (height a))). lia. Qed.
