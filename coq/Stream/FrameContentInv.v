(* The hypotheses of FrameContentFacts.frame_start_sync / frame_totals_extends that speak about
   the writer state at the end of a frame -- [elision_ok], [kind_ok], [outside_default] -- as
   invariants of [enc]: an encoder only appends, only to the column of its own node and only in
   that column's kind, and writes to its own column before any of its children is encoded. *)
From Coq Require Import List NArith ZArith Bool PArith Lia FMapPositive ZifyN ZifyNat ZifyBool.
From Stef Require Import Bits BitsFacts BitIO BitIOFacts Varint VarintFacts Codecs CodecFacts
                         Schema Wire WireOk WireFactsBase Frame Writer FrameContentFacts.
Import ListNotations.
Open Scope N_scope.

(* ------------------------------------------------------------------ small facts *)
Definition nonempty (st : wst) (x : etree) : Prop := col_data st x <> [].

Lemma nonempty_mono : forall st st' x, mono st st' -> nonempty st x -> nonempty st' x.
Proof.
  intros st st' x M H. unfold nonempty, col_data in *.
  destruct (tree_col x) as [c|]; [|exact H].
  destruct (M c) as [[r1 E1] [r2 E2]]. destruct (is_bit_col x).
  - rewrite column_bytes_nil_iff in *. rewrite E1. intros Hn. apply app_eq_nil in Hn. tauto.
  - rewrite E2. intros Hn. apply app_eq_nil in Hn. tauto.
Qed.

Lemma env_find_in : forall env k, env_find env k = EBad \/ exists k', In (k', env_find env k) env.
Proof.
  induction env as [|[k' t] env IH]; intros k; [left; reflexivity|].
  cbn [env_find]. destruct (reckey_eqb k k').
  - right. exists k'. left. reflexivity.
  - destruct (IH k) as [H|[k'' H]]; [left; exact H|right; exists k''; right; exact H].
Qed.

Lemma leb_enc_nonnil : forall v, leb_enc v <> [].
Proof. intros v. unfold leb_enc. cbn [leb_enc_fuel]. destruct (v <? 128); discriminate. Qed.

Lemma uvc_write_bits_nonnil : forall v, v < two48 -> uvc_write_bits v <> [].
Proof.
  intros v Hv. rewrite uvc_write_is_spec by exact Hv. unfold uvc_spec_bits.
  destruct (uvc_spec_class v) as [k w]. intros H. apply app_eq_nil in H. destruct H as [_ H]. discriminate.
Qed.

Lemma bits_of_N_nonnil : forall n v, (0 < n)%nat -> bits_of_N n v <> [].
Proof.
  intros n v Hn H. apply (f_equal (@length _)) in H. rewrite length_bits_of_N in H. cbn in H. lia.
Qed.

Lemma oneof_bits_pos : forall fc, (0 < oneof_bits fc)%nat.
Proof.
  intros fc. unfold oneof_bits.
  assert (0 < N.size (fc + 1)); [|lia].
  destruct (fc + 1) eqn:E; [lia|]. cbn. lia.
Qed.

(* a bound on the array lengths of a wire tree (wire_ok demands 2^40) *)
Fixpoint arrs_P (P : nat -> Prop) (a : wire) : Prop :=
  match a with
  | WStruct _ _ fs =>
    fold_right (fun f Q => match f with Some x => arrs_P P x | None => True end /\ Q) True fs
  | WDictFull s => arrs_P P s
  | WOneof _ (Some x) => arrs_P P x
  | WArr l => P (length l) /\ fold_right (fun x Q => arrs_P P x /\ Q) True l
  | WMapFull kvs => fold_right (fun kv Q => (arrs_P P (fst kv) /\ arrs_P P (snd kv)) /\ Q) True kvs
  | WMapVals _ l => fold_right (fun x Q => arrs_P P x /\ Q) True l
  | _ => True
  end.

Lemma fold_and_Forall : forall {A} (R : A -> Prop) l,
  fold_right (fun x Q => R x /\ Q) True l -> Forall R l.
Proof. intros A R. induction l as [|x l IH]; intros H; constructor; cbn [fold_right] in H; tauto. Qed.

Lemma Forall_and : forall {A} (R S : A -> Prop) l, Forall R l -> Forall S l -> Forall (fun x => R x /\ S x) l.
Proof. intros A R S l H1. induction H1; intros H2; inversion H2; subst; constructor; auto. Qed.

(* ------------------------------------------------------------------ the induction, once *)
Section EncInv.
  Variable root : etree.
  Variable I : wst -> Prop.
  Variables Pre Ne : etree -> wst -> Prop.
  Variable P : nat -> Prop.

  Hypothesis I_cols : forall st sd tl e, I st -> I (mkWst (w_cols st) sd tl e).
  Hypothesis Pre_mono : forall x st st', mono st st' -> Pre x st -> Pre x st'.
  Hypothesis Ne_mono : forall x st st', mono st st' -> Ne x st -> Ne x st'.
  Hypothesis I_write : forall t st x', In t (tree_nodes root) -> I st -> Pre t st ->
    (if is_bit_col t
     then (exists b, wc_bits x' = wc_bits (wget st (node_col t)) ++ b) /\
          wc_bytes x' = wc_bytes (wget st (node_col t))
     else (exists b, wc_bytes x' = wc_bytes (wget st (node_col t)) ++ b) /\
          wc_bits x' = wc_bits (wget st (node_col t))) ->
    I (wset st (node_col t) x').
  Hypothesis Pre_child : forall t ch st, In t (tree_nodes root) -> In ch (tree_children t) ->
    tree_col ch <> None -> Pre t st -> Ne t st -> Pre ch st.
  Hypothesis Ne_bits : forall t st b, is_bit_col t = true -> b <> [] -> Ne t (add_bits st (node_col t) b).
  Hypothesis Ne_bytes : forall t st b, is_bit_col t = false -> b <> [] -> Ne t (add_bytes st (node_col t) b).
  Hypothesis Ne_arr : forall t st n, is_bit_col t = true -> P n ->
    Ne t (add_bits st (node_col t) (uvc_write_bits (N.of_nat n))).
  Hypothesis Ne_struct : forall c sid d fc opts fts st mask present,
    In (EStruct c sid false d fc opts fts) (tree_nodes root) -> fts <> [] ->
    Ne (EStruct c sid false d fc opts fts)
       (add_bits st c (bits_of_N (N.to_nat fc) mask ++ bits_of_N (opt_count opts) present)).

  Definition env_ok (env : renv) (st : wst) : Prop :=
    forall k y, In (k, y) env -> In y (tree_nodes root) /\ Pre y st.
  Definition callable (t : etree) (st : wst) : Prop :=
    tree_col t = None \/ (In t (tree_nodes root) /\ Pre t st).

  Lemma env_ok_mono : forall env st st', mono st st' -> env_ok env st -> env_ok env st'.
  Proof. intros env st st' M H k y Hin. destruct (H k y Hin). split; [assumption|]. eapply Pre_mono; eassumption. Qed.

  Lemma env_ok_push : forall env t st, env_ok env st -> In t (tree_nodes root) -> Pre t st ->
    env_ok (push_env env t) st.
  Proof.
    intros env t st He Ht Hp. destruct t; cbn [push_env]; try exact He;
      intros k0 y0 [Heq|Hin]; try (inversion Heq; subst; split; assumption); exact (He k0 y0 Hin).
  Qed.

  Lemma I_wfail : forall st, I st -> I (wfail st).
  Proof. intros st H. unfold wfail. apply I_cols. exact H. Qed.

  Lemma I_add_bits : forall t st b, In t (tree_nodes root) -> is_bit_col t = true -> I st -> Pre t st ->
    I (add_bits st (node_col t) b).
  Proof.
    intros t st b Ht Hb Hi Hp. unfold add_bits. apply I_write; try assumption.
    rewrite Hb. cbn [wc_bits wc_bytes]. split; [eexists; reflexivity|reflexivity].
  Qed.

  Lemma I_add_bytes : forall t st b, In t (tree_nodes root) -> is_bit_col t = false -> I st -> Pre t st ->
    I (add_bytes st (node_col t) b).
  Proof.
    intros t st b Ht Hb Hi Hp. unfold add_bytes. apply I_write; try assumption.
    rewrite Hb. cbn [wc_bits wc_bytes]. split; [eexists; reflexivity|reflexivity].
  Qed.

  Lemma I_enc_prim : forall c p d a st, In (EPrim c p d) (tree_nodes root) -> I st -> Pre (EPrim c p d) st ->
    I (enc_prim st c p d a).
  Proof.
    intros c p d a st Ht Hi Hp.
    pose proof (I_add_bits (EPrim c p d) st) as Hbits.
    pose proof (I_add_bytes (EPrim c p d) st) as Hbytes.
    pose proof (I_write (EPrim c p d) st) as Hw.
    change (node_col (EPrim c p d)) with c in *.
    destruct a as [b|v|z|v|s|? ? ?|?|?|? ?|?|?|? ?]; destruct p; cbn [enc_prim];
      try (apply I_wfail; exact Hi).
    - apply Hbits; auto.
    - destruct (u64_encode (wc_u (wget st c)) v) as [s' bs]. apply Hw; auto.
      cbn [is_bit_col wc_bits wc_bytes]. split; [eexists; reflexivity|reflexivity].
    - destruct (i64_encode (wc_u (wget st c)) z) as [s' bs]. apply Hw; auto.
      cbn [is_bit_col wc_bits wc_bytes]. split; [eexists; reflexivity|reflexivity].
    - destruct (f64_encode (wc_f (wget st c)) v) as [s' b]. apply Hw; auto.
      cbn [is_bit_col wc_bits wc_bytes]. split; [eexists; reflexivity|reflexivity].
    - destruct d as [dn|]; [|apply Hbytes; auto].
      destruct (strdict_encode (w_sd st dn) s) as [d' bs]. apply I_cols. apply Hbytes; auto.
    - destruct d as [dn|]; [|apply Hbytes; auto].
      destruct (strdict_encode (w_sd st dn) s) as [d' bs]. apply I_cols. apply Hbytes; auto.
  Qed.

  (* a child of a node that has written to its own column may be encoded *)
  Lemma resolve_callable : forall env' t ft st,
    env_ok env' st -> In t (tree_nodes root) -> Pre t st -> Ne t st ->
    (In ft (tree_children t) \/ ft = EBad) -> callable (resolve env' ft) st.
  Proof.
    intros env' t ft st He Ht Hp Hne [Hft| ->]; [|left; reflexivity].
    assert (Hself : tree_col ft <> None -> callable ft st).
    { intros Hc. right. split.
      - apply (node_children_nodes root t ft Ht Hft).
        rewrite tree_nodes_unfold. destruct (tree_col ft); [left; reflexivity|congruence].
      - apply (Pre_child t ft st); assumption. }
    destruct ft; cbn [resolve]; try (apply Hself; discriminate).
    - destruct (env_find_in env' k) as [E|[k' Hin]]; [rewrite E; left; reflexivity|].
      right. exact (He _ _ Hin).
    - left. reflexivity.
  Qed.

  Section Step.
    Variable n : nat.
    Hypothesis IH : forall a env t st, (height a < n)%nat -> arrs_P P a ->
      env_ok env st -> callable t st -> I st -> I (enc env t a st).

    Lemma fields_inv_n : forall env' t fs fts st,
      Forall (fun f => match f with Some x => (height x < n)%nat /\ arrs_P P x | None => True end) fs ->
      incl fts (tree_children t) -> In t (tree_nodes root) ->
      env_ok env' st -> Pre t st -> Ne t st -> I st -> I (enc_fields env' fts fs st).
    Proof.
      intros env' t. induction fs as [|f fs IHfs]; intros fts st HF Hinc Ht He Hp Hne Hi.
      - destruct fts; exact Hi.
      - destruct fts as [|ft fts]; [exact Hi|]. cbn [enc_fields].
        inversion HF as [|? ? Hf HF']; subst.
        assert (Hinc' : incl fts (tree_children t)) by (intros z Hz; apply Hinc; right; exact Hz).
        destruct f as [a'|]; [|apply IHfs; assumption].
        destruct Hf as [Hh Ha].
        pose proof (mono_enc a' env' (resolve env' ft) st) as M.
        apply IHfs; try assumption.
        + eapply env_ok_mono; eassumption.
        + eapply Pre_mono; eassumption.
        + eapply Ne_mono; eassumption.
        + apply IH; try assumption.
          apply (resolve_callable env' t ft st); try assumption. left. apply Hinc. left. reflexivity.
    Qed.

    Lemma elems_inv_n : forall env' t et es st,
      Forall (fun x => (height x < n)%nat /\ arrs_P P x) es ->
      In et (tree_children t) -> In t (tree_nodes root) ->
      env_ok env' st -> Pre t st -> Ne t st -> I st -> I (enc_elems env' et es st).
    Proof.
      intros env' t et. induction es as [|e es IHes]; intros st HF Het Ht He Hp Hne Hi; [exact Hi|].
      cbn [enc_elems]. inversion HF as [|? ? [Hh Ha] HF']; subst.
      pose proof (mono_enc e env' (resolve env' et) st) as M.
      apply IHes; try assumption.
      - eapply env_ok_mono; eassumption.
      - eapply Pre_mono; eassumption.
      - eapply Ne_mono; eassumption.
      - apply IH; try assumption.
        apply (resolve_callable env' t et st); try assumption. left. exact Het.
    Qed.

    Lemma kvs_inv_n : forall env' t kt vt l st,
      Forall (fun kv => ((height (fst kv) < n)%nat /\ arrs_P P (fst kv)) /\
                        ((height (snd kv) < n)%nat /\ arrs_P P (snd kv))) l ->
      In kt (tree_children t) -> In vt (tree_children t) -> In t (tree_nodes root) ->
      env_ok env' st -> Pre t st -> Ne t st -> I st -> I (enc_kvs env' kt vt l st).
    Proof.
      intros env' t kt vt. induction l as [|[k v] l IHl]; intros st HF Hkt Hvt Ht He Hp Hne Hi; [exact Hi|].
      cbn [enc_kvs]. inversion HF as [|? ? [[Hhk Hak] [Hhv Hav]] HF']; subst. cbn [fst snd] in *.
      pose proof (mono_enc k env' (resolve env' kt) st) as M1.
      set (st1 := enc env' (resolve env' kt) k st) in *.
      pose proof (mono_enc v env' (resolve env' vt) st1) as M2.
      assert (M : mono st (enc env' (resolve env' vt) v st1)) by (eapply mono_trans; eassumption).
      apply IHl; try assumption.
      - eapply env_ok_mono; eassumption.
      - eapply Pre_mono; eassumption.
      - eapply Ne_mono; eassumption.
      - apply IH; try assumption.
        + eapply env_ok_mono; eassumption.
        + apply (resolve_callable env' t vt st1); try assumption.
          * eapply env_ok_mono; eassumption.
          * eapply Pre_mono; eassumption.
          * eapply Ne_mono; eassumption.
          * left. exact Hvt.
        + apply IH; try assumption.
          apply (resolve_callable env' t kt st); try assumption. left. exact Hkt.
    Qed.
  End Step.

  Lemma fields_pack : forall n fs,
    (fold_right (fun f m => Nat.max (match f with Some x => height x | None => 0%nat end) m) 0%nat fs < n)%nat ->
    fold_right (fun f Q => match f with Some x => arrs_P P x | None => True end /\ Q) True fs ->
    Forall (fun f => match f with Some x => (height x < n)%nat /\ arrs_P P x | None => True end) fs.
  Proof.
    intros n fs Hh Ha. apply height_fields_lt in Hh.
    apply (fold_and_Forall (fun f => match f with Some x => arrs_P P x | None => True end)) in Ha.
    pose proof (Forall_and _ _ _ Hh Ha) as H. eapply Forall_impl; [|exact H].
    intros [x|] [H1 H2]; [split; assumption|exact Logic.I].
  Qed.

  Lemma elems_pack : forall n l,
    (fold_right (fun x m => Nat.max (height x) m) 0%nat l < n)%nat ->
    fold_right (fun x Q => arrs_P P x /\ Q) True l ->
    Forall (fun x => (height x < n)%nat /\ arrs_P P x) l.
  Proof.
    intros n l Hh Ha. apply height_elems_lt in Hh. apply (fold_and_Forall (arrs_P P)) in Ha.
    exact (Forall_and _ _ _ Hh Ha).
  Qed.

  Lemma kvs_pack : forall n l,
    (fold_right (fun kv m => Nat.max (Nat.max (height (fst kv)) (height (snd kv))) m) 0%nat l < n)%nat ->
    fold_right (fun kv Q => (arrs_P P (fst kv) /\ arrs_P P (snd kv)) /\ Q) True l ->
    Forall (fun kv => ((height (fst kv) < n)%nat /\ arrs_P P (fst kv)) /\
                      ((height (snd kv) < n)%nat /\ arrs_P P (snd kv))) l.
  Proof.
    intros n l Hh Ha. apply height_kvs_lt in Hh.
    apply (fold_and_Forall (fun kv => arrs_P P (fst kv) /\ arrs_P P (snd kv))) in Ha.
    pose proof (Forall_and _ _ _ Hh Ha) as H. eapply Forall_impl; [|exact H].
    intros kv [[H1 H2] [H3 H4]]. tauto.
  Qed.

  Lemma enc_inv_n : forall n a env t st, (height a < n)%nat -> arrs_P P a ->
    env_ok env st -> callable t st -> I st -> I (enc env t a st).
  Proof.
    induction n as [|n IHn]; intros a env t st Hh Ha He Hcall Hi; [lia|].
    destruct t as [c p d|c sid oneof d fc opts fts|c k et|c mid kt vt|k|].
    - rewrite enc_eq_prim. destruct Hcall as [Hc|[Ht Hp]]; [discriminate|]. apply I_enc_prim; assumption.
    - destruct Hcall as [Hc|[Ht Hp]]; [discriminate|].
      set (t := EStruct c sid oneof d fc opts fts) in *.
      assert (Hpush : forall st1, mono st st1 -> env_ok (push_env env t) st1).
      { intros st1 M. apply env_ok_push; [eapply env_ok_mono; eassumption|exact Ht|eapply Pre_mono; eassumption]. }
      destruct a; try (destruct oneof; [|destruct d]; apply I_wfail; exact Hi).
      + (* WStruct *)
        destruct oneof; [apply I_wfail; exact Hi|]. destruct d; [apply I_wfail; exact Hi|].
        unfold t at 2. rewrite enc_eq_struct. fold t. unfold enc_body.
        match goal with |- context [add_bits st c ?b] => set (bs := b) end.
        pose proof (mono_add_bits st c bs) as M.
        assert (Hi1 : I (add_bits st c bs)) by (apply (I_add_bits t); auto).
        destruct fts as [|ft0 fts0] eqn:Efts.
        { destruct fields; exact Hi1. }
        rewrite <- Efts in *.
        apply (fields_inv_n n IHn _ t); auto.
        * apply fields_pack; [cbn [height] in Hh; lia|exact Ha].
        * unfold t. cbn [tree_children]. apply incl_refl.
        * eapply Pre_mono; eassumption.
        * apply Ne_struct; [exact Ht|rewrite Efts; discriminate].
      + (* WDictRef *)
        destruct oneof; [apply I_wfail; exact Hi|]. destruct d; [|apply I_wfail; exact Hi].
        unfold t at 2. rewrite enc_eq_dictref. apply (I_add_bits t); auto.
      + (* WDictFull *)
        destruct oneof; [apply I_wfail; exact Hi|]. destruct d; [|apply I_wfail; exact Hi].
        destruct a; try (apply I_wfail; exact Hi).
        unfold t at 2. rewrite enc_eq_dictfull. fold t. cbv zeta. apply I_cols. unfold enc_body.
        pose proof (mono_add_bits st c [true]) as M1.
        assert (Hi1 : I (add_bits st c [true])) by (apply (I_add_bits t); auto).
        assert (Hne1 : Ne t (add_bits st c [true])) by (apply (Ne_bits t); [reflexivity|discriminate]).
        match goal with |- context [add_bits (add_bits st c [true]) c ?b] => set (bs := b) end.
        pose proof (mono_add_bits (add_bits st c [true]) c bs) as M2.
        assert (M : mono st (add_bits (add_bits st c [true]) c bs)) by (eapply mono_trans; eassumption).
        apply (fields_inv_n n IHn _ t); auto.
        * apply fields_pack; [cbn [height] in Hh; lia|exact Ha].
        * unfold t. cbn [tree_children]. apply incl_refl.
        * eapply Pre_mono; eassumption.
        * eapply Ne_mono; eassumption.
        * apply (I_add_bits t); auto. eapply Pre_mono; eassumption.
      + (* WOneof *)
        destruct oneof; [|destruct d; apply I_wfail; exact Hi].
        unfold t at 2. rewrite enc_eq_oneof. fold t. cbv zeta.
        match goal with |- context [add_bits st c ?b] => set (bs := b) end.
        pose proof (mono_add_bits st c bs) as M.
        assert (Hi1 : I (add_bits st c bs)) by (apply (I_add_bits t); auto).
        destruct alt as [a'|]; [|exact Hi1].
        apply IHn; auto.
        * cbn [height] in Hh. lia.
        * apply (resolve_callable _ t); auto.
          -- eapply Pre_mono; eassumption.
          -- apply (Ne_bits t); [reflexivity|]. apply bits_of_N_nonnil, oneof_bits_pos.
          -- unfold t. cbn [tree_children].
             destruct (nth_in_or_default (N.to_nat (tag - 1)) fts EBad) as [Hin|Hd]; [left; exact Hin|right; exact Hd].
    - destruct Hcall as [Hc|[Ht Hp]]; [discriminate|].
      set (t := EArr c k et) in *.
      destruct a; try (apply I_wfail; exact Hi).
      unfold t at 2. rewrite enc_eq_arr. fold t.
      match goal with |- context [add_bits st c ?b] => set (bs := b) end.
      pose proof (mono_add_bits st c bs) as M. cbn [arrs_P] in Ha. destruct Ha as [HP Ha].
      apply (elems_inv_n n IHn _ t); auto.
      + apply elems_pack; [cbn [height] in Hh; lia|exact Ha].
      + left. reflexivity.
      + apply env_ok_push; [eapply env_ok_mono; eassumption|exact Ht|eapply Pre_mono; eassumption].
      + eapply Pre_mono; eassumption.
      + apply (Ne_arr t); [reflexivity|exact HP].
      + apply (I_add_bits t); auto.
    - destruct Hcall as [Hc|[Ht Hp]]; [discriminate|].
      set (t := EMap c mid kt vt) in *.
      destruct a; try (apply I_wfail; exact Hi).
      + unfold t at 2. rewrite enc_eq_mapfull. fold t.
        match goal with |- context [add_bytes st c ?b] => set (bs := b) end.
        pose proof (mono_add_bytes st c bs) as M.
        apply (kvs_inv_n n IHn _ t); auto.
        * apply kvs_pack; [cbn [height] in Hh; lia|exact Ha].
        * left. reflexivity.
        * right. left. reflexivity.
        * apply env_ok_push; [eapply env_ok_mono; eassumption|exact Ht|eapply Pre_mono; eassumption].
        * eapply Pre_mono; eassumption.
        * apply (Ne_bytes t); [reflexivity|apply leb_enc_nonnil].
        * apply (I_add_bytes t); auto.
      + unfold t at 2. rewrite enc_eq_mapvals. fold t.
        match goal with |- context [add_bytes st c ?b] => set (bs := b) end.
        pose proof (mono_add_bytes st c bs) as M.
        apply (elems_inv_n n IHn _ t); auto.
        * apply elems_pack; [cbn [height] in Hh; lia|exact Ha].
        * right. left. reflexivity.
        * apply env_ok_push; [eapply env_ok_mono; eassumption|exact Ht|eapply Pre_mono; eassumption].
        * eapply Pre_mono; eassumption.
        * apply (Ne_bytes t); [reflexivity|apply leb_enc_nonnil].
        * apply (I_add_bytes t); auto.
    - destruct a; apply I_wfail; exact Hi.
    - destruct a; apply I_wfail; exact Hi.
  Qed.

  Theorem enc_inv : forall a env t st, arrs_P P a ->
    env_ok env st -> callable t st -> I st -> I (enc env t a st).
  Proof. intros a env t st. apply (enc_inv_n (S (height a))). lia. Qed.
End EncInv.
