(* The side conditions of FrameContentFacts.v on encoder trees -- pairwise distinct column ids and
   depth within [tree_fuel] -- for the trees that [build] produces: distinctness in general (any
   schema, any root, any wire-schema override), the depth bound for every checked-in schema. *)
From Coq Require Import List NArith ZArith Bool PArith Lia ZifyN ZifyNat ZifyBool.
From Stef Require Import Schema Schemas SchemaFacts Frame FrameContentFacts.
Import ListNotations.
Open Scope N_scope.

Fixpoint nodupb (l : list positive) : bool :=
  match l with
  | [] => true
  | x :: r => negb (existsb (Pos.eqb x) r) && nodupb r
  end.

Lemma nodupb_sound : forall l, nodupb l = true -> NoDup l.
Proof.
  induction l as [|x r IH]; intros H; [constructor|].
  cbn [nodupb] in H. apply andb_prop in H. destruct H as [H1 H2].
  constructor; [|exact (IH H2)].
  intros Hin. apply negb_true_iff in H1.
  assert (existsb (Pos.eqb x) r = true); [|congruence].
  apply existsb_exists. exists x. split; [exact Hin|apply Pos.eqb_refl].
Qed.

(* every struct of every checked-in schema as a root *)
Definition root_cols_ok (sc : schema) : bool :=
  forallb (fun r => let t := fst (build_root sc r None) in
                    nodupb (tree_cols t) && (depth t <=? tree_fuel)%nat) (root_ids sc).

Lemma all_schemas_cols_ok : forallb root_cols_ok all_schemas = true.
Proof. vm_compute. reflexivity. Qed.

Theorem schema_tree_side_conditions : forall sc r, In sc all_schemas -> In r (root_ids sc) ->
  let t := fst (build_root sc r None) in
  NoDup (tree_cols t) /\ (depth t <= tree_fuel)%nat.
Proof.
  intros sc r Hsc Hr t.
  pose proof all_schemas_cols_ok as H. rewrite forallb_forall in H. specialize (H sc Hsc).
  unfold root_cols_ok in H. rewrite forallb_forall in H. specialize (H r Hr). fold t in H.
  apply andb_prop in H. destruct H as [H1 H2]. split; [exact (nodupb_sound _ H1)|].
  apply Nat.leb_le. exact H2.
Qed.

(* ---- in general: [build] hands out fresh column numbers, so the ids of a tree are distinct ---- *)
Definition cols_in (lo hi : positive) (l : list positive) : Prop :=
  (forall c, In c l -> (lo <= c < hi)%positive) /\ NoDup l.

Lemma cols_in_nil : forall lo hi, cols_in lo hi [].
Proof. intros. split; [intros c []|constructor]. Qed.

Lemma cols_in_app : forall lo mid hi a b, (lo <= mid)%positive -> (mid <= hi)%positive ->
  cols_in lo mid a -> cols_in mid hi b -> cols_in lo hi (a ++ b).
Proof.
  intros lo mid hi a b H1 H2 [Ha Hna] [Hb Hnb]. split.
  - intros c Hc. apply in_app_or in Hc. destruct Hc as [Hc|Hc]; [specialize (Ha c Hc)|specialize (Hb c Hc)]; lia.
  - induction a as [|x a IH]; [exact Hnb|]. cbn [app]. inversion Hna; subst. constructor.
    + intros Hin. apply in_app_or in Hin. destruct Hin as [Hin|Hin]; [contradiction|].
      specialize (Ha x (or_introl eq_refl)). specialize (Hb x Hin). lia.
    + apply IH; [intros c Hc; apply Ha; right; exact Hc|assumption].
Qed.

Lemma cols_in_cons : forall lo hi l, cols_in (Pos.succ lo) hi l -> (Pos.succ lo <= hi)%positive ->
  cols_in lo hi (lo :: l).
Proof.
  intros lo hi l H Hle. change (lo :: l) with ([lo] ++ l).
  apply (cols_in_app lo (Pos.succ lo) hi); [lia|exact Hle| |exact H].
  split; [intros c [<-|[]]; lia|constructor; [intros []|constructor]].
Qed.

Lemma field_count_next : forall st sid own, i_next (snd (field_count st sid own)) = i_next st.
Proof.
  intros. unfold field_count. destruct (memo_find (i_memo st) sid); [reflexivity|].
  destruct (i_over st) as [[|c r]|]; reflexivity.
Qed.

Lemma build_cols : forall sc f stack ty st,
  (i_next st <= i_next (snd (build sc f stack ty st)))%positive /\
  cols_in (i_next st) (i_next (snd (build sc f stack ty st))) (tree_cols (fst (build sc f stack ty st))).
Proof.
  intros sc. induction f as [|f IH]; intros stack ty st.
  - cbn [build fst snd set_err i_next tree_cols]. split; [lia|apply cols_in_nil].
  - cbn [build]. destruct (on_stack stack (key_of ty)).
    { cbn [fst snd tree_cols]. split; [lia|apply cols_in_nil]. }
    unfold fresh_col.
    set (st1 := mkIst (Pos.succ (i_next st)) (i_over st) (i_memo st) (i_err st)).
    assert (Hn1 : i_next st1 = Pos.succ (i_next st)) by reflexivity.
    destruct ty as [p d|e|s|m].
    + cbn [fst snd tree_cols]. rewrite Hn1. split; [lia|].
      apply cols_in_cons; [apply cols_in_nil|lia].
    + destruct (IH (key_of (TArray e) :: stack) e st1) as [Hle Hin].
      destruct (build sc f (key_of (TArray e) :: stack) e st1) as [et st2].
      cbn [fst snd tree_cols] in *. rewrite Hn1 in *. split; [lia|].
      apply cols_in_cons; [exact Hin|exact Hle].
    + pose proof (field_count_next st1 s (N.of_nat (length (s_fields (get_struct sc s))))) as Hfc.
      destruct (field_count st1 s (N.of_nat (length (s_fields (get_struct sc s))))) as [fc st2].
      cbn [snd] in Hfc.
      set (st3 := if N.of_nat (length (s_fields (get_struct sc s))) <? fc then set_err st2 else st2).
      assert (Hn3 : i_next st3 = Pos.succ (i_next st)).
      { unfold st3. destruct (_ <? fc); cbn [set_err i_next]; congruence. }
      assert (Hfold : forall fl (acc : list etree * istate),
                let res := fold_left (fun (acc : list etree * istate) (fl : field) =>
                             let '(l, st) := acc in
                             let '(ft, st) := build sc f (KStruct s :: stack) (f_type fl) st in (l ++ [ft], st)) fl acc in
                (i_next (snd acc) <= i_next (snd res))%positive /\
                exists l2, fst res = fst acc ++ l2 /\
                           cols_in (i_next (snd acc)) (i_next (snd res)) (flat_map tree_cols l2)).
      { induction fl as [|x fl IHf]; intros acc; cbn [fold_left].
        - split; [lia|]. exists []. rewrite app_nil_r. split; [reflexivity|apply cols_in_nil].
        - destruct acc as [l s0].
          destruct (IH (KStruct s :: stack) (f_type x) s0) as [Hle Hin].
          destruct (build sc f (KStruct s :: stack) (f_type x) s0) as [ft s1].
          cbn [fst snd] in Hle, Hin.
          destruct (IHf (l ++ [ft], s1)) as [Hle2 [l2 [Hl2 Hin2]]]. cbn [fst snd] in *.
          split; [lia|]. exists (ft :: l2). rewrite Hl2, <- app_assoc. split; [reflexivity|].
          cbn [flat_map]. apply (cols_in_app _ (i_next s1)); assumption. }
      match goal with |- context [fold_left ?F ?L ?A] =>
        specialize (Hfold L A); cbv zeta in Hfold; destruct (fold_left F L A) as [fts st4] end.
      cbn [fst snd app] in *. destruct Hfold as [Hle [l2 [-> Hin]]]. rewrite Hn3 in *.
      split; [lia|]. apply cols_in_cons; [exact Hin|exact Hle].
    + destruct (IH (KMap m :: stack) (m_key (get_mmap sc m)) st1) as [Hle1 Hin1].
      destruct (build sc f (KMap m :: stack) (m_key (get_mmap sc m)) st1) as [kt st2].
      destruct (IH (KMap m :: stack) (m_val (get_mmap sc m)) st2) as [Hle2 Hin2].
      destruct (build sc f (KMap m :: stack) (m_val (get_mmap sc m)) st2) as [vt st3].
      cbn [fst snd tree_cols] in *. rewrite Hn1 in *. split; [lia|].
      apply cols_in_cons; [|lia]. apply (cols_in_app _ (i_next st2)); assumption.
Qed.

(* any schema, any root, with or without a wire-schema override *)
Theorem build_root_nodup : forall sc root over, NoDup (tree_cols (fst (build_root sc root over))).
Proof. intros. unfold build_root. apply (proj2 (proj2 (build_cols sc _ _ _ _))). Qed.
