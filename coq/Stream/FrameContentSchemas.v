(* The side conditions of FrameContentFacts.v on encoder trees -- pairwise distinct column ids and
   depth within [tree_fuel] -- for the trees that [build] produces: distinctness in general (any
   schema, any root, any wire-schema override), the depth bound for every checked-in schema. *)
From Coq Require Import List NArith ZArith Bool PArith Lia ZifyN ZifyNat ZifyBool.
From Stef Require Import Schema Schemas SchemaFacts Frame FrameContentFacts.
Import ListNotations.
Open Scope N_scope.

Fixpoint nodupb (l : list positive) : bool :=
  match l with
  | [] => true
  | x :: r => negb (existsb (Pos.eqb x) r) && nodupb r
  end.

Lemma nodupb_sound : forall l, nodupb l = true -> NoDup l.
Proof.
  induction l as [|x r IH]; intros H; [constructor|].
  cbn [nodupb] in H. apply andb_prop in H. destruct H as [H1 H2].
  constructor; [|exact (IH H2)].
  intros Hin. apply negb_true_iff in H1.
  assert (existsb (Pos.eqb x) r = true); [|congruence].
  apply existsb_exists. exists x. split; [exact Hin|apply Pos.eqb_refl].
Qed.

(* every struct of every checked-in schema as a root *)
Definition root_cols_ok (sc : schema) : bool :=
  forallb (fun r => let t := fst (build_root sc r None) in
                    nodupb (tree_cols t) && (depth t <=? tree_fuel)%nat) (root_ids sc).

Lemma all_schemas_cols_ok : forallb root_cols_ok all_schemas = true.
Proof. vm_compute. reflexivity. Qed.

Theorem schema_tree_side_conditions : forall sc r, In sc all_schemas -> In r (root_ids sc) ->
  let t := fst (build_root sc r None) in
  NoDup (tree_cols t) /\ (depth t <= tree_fuel)%nat.
Proof.
  intros sc r Hsc Hr t.
  pose proof all_schemas_cols_ok as H. rewrite forallb_forall in H. specialize (H sc Hsc).
  unfold root_cols_ok in H. rewrite forallb_forall in H. specialize (H r Hr). fold t in H.
  apply andb_prop in H. destruct H as [H1 H2]. split; [exact (nodupb_sound _ H1)|].
  apply Nat.leb_le. exact H2.
Qed.
