(* Facts about the frame layer of uncompressed streams: a frame is parsed back exactly, a strict
   prefix of a frame is never parsed as a frame, hence a stream cut at any byte yields exactly
   its complete frames (C05 at the frame level). *)
From Coq Require Import List NArith ZArith Bool Lia.
From Stef Require Import Bits BitsFacts BitIO Varint VarintFacts Codecs Schema Wire Frame.
Import ListNotations.
Open Scope N_scope.

Lemma take_app_exact : forall (a b : bytes), take (N.of_nat (length a)) (a ++ b) = Some (a, b).
Proof.
  intros. unfold take. rewrite app_length.
  destruct (N.leb_spec (N.of_nat (length a)) (N.of_nat (length a + length b))); [|lia].
  rewrite Nat2N.id, firstn_app_exact, skipn_app_exact. reflexivity.
Qed.

Lemma take_short : forall n (a : bytes), N.of_nat (length a) < n -> take n a = None.
Proof. intros. unfold take. destruct (N.leb_spec n (N.of_nat (length a))); [lia|reflexivity]. Qed.

Definition frame_ok (fl : N) (content : bytes) : Prop :=
  fl < 8 /\ N.of_nat (length content) <= frame_size_limit.

Theorem parse_frame_emit : forall fl content rest, frame_ok fl content ->
  parse_frame (emit_frame fl content ++ rest) = inr (fl, content, rest).
Proof.
  intros fl content rest [Hfl Hlen]. unfold emit_frame, parse_frame.
  cbn [app]. destruct (N.leb_spec 8 fl); [lia|].
  unfold read_uvarint. rewrite <- app_assoc.
  rewrite leb_roundtrip by (unfold frame_size_limit, two64 in *; lia).
  destruct (N.ltb_spec frame_size_limit (N.of_nat (length content))); [lia|].
  rewrite take_app_exact. reflexivity.
Qed.

(* prefixes of a LEB128 encoding are not complete encodings *)
Lemma leb_dec_loop_prefix : forall f i x s v k fuel,
  (k < length (leb_enc_fuel f v))%nat -> (length (leb_enc_fuel f v) <= f)%nat ->
  leb_dec_loop fuel i x s (firstn k (leb_enc_fuel f v)) = None.
Proof.
  induction f as [|f IH]; intros i x s v k fuel Hk Hl; cbn [leb_enc_fuel] in *; [cbn in Hk; lia|].
  destruct fuel as [|fuel]; [reflexivity|].
  destruct (N.ltb_spec v 128) as [Hs|Hs].
  - cbn [length] in Hk. assert (k = 0)%nat by lia. subst k. reflexivity.
  - destruct k as [|k]; [reflexivity|].
    cbn [firstn leb_dec_loop].
    destruct (Nat.eqb_spec i 10); [reflexivity|].
    destruct (N.ltb_spec (v mod 128 + 128) 128); [lia|].
    apply IH.
    + cbn [length] in Hk. lia.
    + apply leb_enc_fuel_length.
Qed.

Lemma leb_dec_prefix : forall v k, (k < length (leb_enc v))%nat -> leb_dec (firstn k (leb_enc v)) = None.
Proof. intros. unfold leb_dec, leb_enc in *. apply leb_dec_loop_prefix; [assumption|apply leb_enc_fuel_length]. Qed.

(* a strict, non-empty prefix of an emitted frame is reported as truncated input *)
Theorem parse_frame_prefix : forall fl content k, frame_ok fl content ->
  (0 < k)%nat -> (k < length (emit_frame fl content))%nat ->
  parse_frame (firstn k (emit_frame fl content)) = inl PTrunc.
Proof.
  intros fl content k [Hfl Hlen] Hk0 Hk. unfold emit_frame in *.
  destruct k as [|k]; [lia|]. cbn [app firstn]. unfold parse_frame.
  destruct (N.leb_spec 8 fl); [lia|].
  set (hdr := leb_enc (N.of_nat (length content))) in *.
  cbn [app length] in Hk. rewrite app_length in Hk.
  unfold read_uvarint.
  destruct (Nat.lt_ge_cases k (length hdr)) as [Hin|Hout].
  - (* cut inside the size varint *)
    rewrite firstn_app. replace (k - length hdr)%nat with 0%nat by lia. cbn [firstn]. rewrite app_nil_r.
    unfold hdr. rewrite leb_dec_prefix by (fold hdr; assumption). reflexivity.
  - (* cut inside the content *)
    rewrite firstn_app. rewrite (firstn_all2 hdr) by lia.
    unfold hdr. rewrite leb_roundtrip by (unfold frame_size_limit, two64 in *; lia).
    destruct (N.ltb_spec frame_size_limit (N.of_nat (length content))); [lia|].
    rewrite take_short; [reflexivity|].
    rewrite firstn_length. fold hdr. lia.
Qed.

(* the whole stream of frames: parse everything that is complete *)
Fixpoint parse_all (fuel : nat) (bs : bytes) : list (N * bytes) * perr :=
  match fuel with
  | O => ([], PBad EOther)
  | S f =>
    match parse_frame bs with
    | inl e => ([], e)
    | inr (fl, c, rest) => let '(l, e) := parse_all f rest in ((fl, c) :: l, e)
    end
  end.

Definition emit_all (frames : list (N * bytes)) : bytes :=
  flat_map (fun f => emit_frame (fst f) (snd f)) frames.

Theorem parse_all_emit : forall frames fuel, Forall (fun f => frame_ok (fst f) (snd f)) frames ->
  (length frames < fuel)%nat -> parse_all fuel (emit_all frames) = (frames, PEnd).
Proof.
  induction frames as [|[fl c] r IH]; intros fuel Hok Hf.
  - destruct fuel; [lia|]. reflexivity.
  - destruct fuel as [|fuel]; [cbn in Hf; lia|].
    inversion Hok as [|? ? H1 H2]; subst. cbn [emit_all flat_map fst snd parse_all].
    rewrite parse_frame_emit by assumption. fold (emit_all r).
    rewrite IH by (assumption || (cbn [length] in Hf; lia)). reflexivity.
Qed.

(* C05 at the frame layer: cut the stream anywhere inside frame number (length done) and the parser
   returns exactly the frames before it, then "truncated"; cut exactly at a boundary: "end". *)
Theorem parse_all_cut : forall done fl c k fuel,
  Forall (fun f => frame_ok (fst f) (snd f)) done -> frame_ok fl c ->
  (k < length (emit_frame fl c))%nat -> (length done + 1 < fuel)%nat ->
  parse_all fuel (emit_all done ++ firstn k (emit_frame fl c)) =
  (done, if (k =? 0)%nat then PEnd else PTrunc).
Proof.
  induction done as [|[fl0 c0] r IH]; intros fl c k fuel Hok Hfr Hk Hf.
  - cbn [emit_all flat_map app]. destruct fuel as [|fuel]; [lia|]. cbn [parse_all].
    destruct (Nat.eqb_spec k 0) as [->|Hk0].
    + cbn [firstn]. reflexivity.
    + rewrite parse_frame_prefix by (assumption || lia). reflexivity.
  - destruct fuel as [|fuel]; [cbn in Hf; lia|].
    inversion Hok as [|? ? H1 H2]; subst. cbn [emit_all flat_map fst snd parse_all].
    rewrite <- app_assoc. rewrite parse_frame_emit by assumption. fold (emit_all r).
    rewrite (IH fl c k fuel) by (assumption || (cbn [length] in Hf; lia)). reflexivity.
Qed.
