(* C06 at the level of the stream: a writer and a reader working on the same byte stream.

   The theorems of ReaderFacts.v / Props/C06.v are about one Read on a loaded frame.  Here the
   writer has flushed the first frames of a stream (and may have emitted a strict prefix of the
   bytes of the next frame), the reader reads what is there, the writer flushes more, the reader
   goes on from its state:
     stream_chain_end / stream_ok_app / stream_values_app
                                 [stream_ok], [stream_values] over fr1 ++ fr2
     pending                     what the writer may have emitted after its last Flush
     flushed_prefix_readable     (C06-a) after the Flush that ends fr1 the reader obtains exactly
                                 the records of fr1 and then end of data / truncation; no record
                                 of the unflushed frame
     read_n                      exactly n successful Reads, the final reader
     read_n_append               handing more bytes to the source does not change what the Reads
                                 that succeeded did (the reader state up to [rd_src])
     read_n_position             the state after reading the records of fr1: at a frame boundary,
                                 [carry] with the writer state [stream_end t ws0 fr1], record =
                                 end of the apply chain
     resume_after_more_flushes   (C06-b) from that state [read_all] over the rest of the bytes
                                 returns exactly the records of fr2; the state is the one reached
                                 on the shorter stream, handed the rest of the bytes ([with_src])
     istep / ireach / interleaved_read
                                 LTS of "emit more bytes / flush next frame(s)" and "read until
                                 end of data" steps: every record exactly once, in order *)
From Coq Require Import List NArith ZArith Bool PArith Lia FMapPositive Arith.
From Coq Require Import ZifyN ZifyNat ZifyBool.
From Stef Require Import Bits BitsFacts BitIO BitIOFacts Varint VarintFacts Codecs CodecFacts Schema
     Schemas Wire WireOk WireFactsBase WireFacts Apply Frame FrameFacts Reader ReaderFacts Writer
     FrameContentFacts FrameContentSchemas FrameContentInv StreamFactsBase StreamFacts LimitsCompose.
Import ListNotations.
Open Scope N_scope.

(* ------------------------------------------------------------------ fr1 ++ fr2 *)
(* the reader's (struct dictionaries, record value) after all records of [frames] *)
Fixpoint stream_chain_end (t : etree) (frames : list (N * list wire)) (prev : rnode) (td : tdicts)
  : tdicts * rnode :=
  match frames with
  | [] => (td, prev)
  | f :: rest =>
    let td1 := if flag_dicts (fst f) then PM.empty _ else td in
    let ce := chain_end t (snd f) prev td1 in
    stream_chain_end t rest (snd ce) (fst ce)
  end.

Lemma stream_chain_end_app : forall t F G prev td,
  stream_chain_end t (F ++ G) prev td =
  stream_chain_end t G (snd (stream_chain_end t F prev td)) (fst (stream_chain_end t F prev td)).
Proof.
  intros t. induction F as [|f F IH]; intros G prev td; [reflexivity|].
  cbn [app stream_chain_end]. cbv zeta. apply IH.
Qed.

Lemma stream_values_app : forall t F G prev td,
  stream_values t (F ++ G) prev td =
  stream_values t F prev td ++
  stream_values t G (snd (stream_chain_end t F prev td)) (fst (stream_chain_end t F prev td)).
Proof.
  intros t. induction F as [|f F IH]; intros G prev td; [reflexivity|].
  cbn [app stream_values stream_chain_end]. cbv zeta. rewrite IH, app_assoc. reflexivity.
Qed.

Lemma stream_ok_app : forall sizes fuel t F G ws prev td,
  stream_ok sizes fuel t (F ++ G) ws prev td =
  stream_ok sizes fuel t F ws prev td &&
  stream_ok sizes fuel t G (stream_end t ws F) (snd (stream_chain_end t F prev td))
            (fst (stream_chain_end t F prev td)).
Proof.
  intros sizes fuel t. induction F as [|f F IH]; intros G ws prev td; [reflexivity|].
  cbn [app stream_ok stream_chain_end stream_end]. cbv zeta. rewrite IH, !andb_assoc. reflexivity.
Qed.

Lemma stream_ok_app_inv : forall sizes fuel t F G ws prev td,
  stream_ok sizes fuel t (F ++ G) ws prev td = true ->
  stream_ok sizes fuel t F ws prev td = true /\
  stream_ok sizes fuel t G (stream_end t ws F) (snd (stream_chain_end t F prev td))
            (fst (stream_chain_end t F prev td)) = true.
Proof. intros * H. rewrite stream_ok_app in H. apply andb_true_iff in H. exact H. Qed.

Lemma emit_all_app : forall a b, emit_all (a ++ b) = emit_all a ++ emit_all b.
Proof. intros. unfold emit_all. apply flat_map_app. Qed.

(* the bytes of the stream: what the Flush calls up to the end of fr1 emitted, then the rest *)
Lemma stream_bytes_app : forall t ws fr1 fr2,
  emit_all (stream_encode t ws (fr1 ++ fr2)) =
  emit_all (stream_encode t ws fr1) ++ emit_all (stream_encode t (stream_end t ws fr1) fr2).
Proof. intros. rewrite stream_encode_app, emit_all_app. reflexivity. Qed.

(* ------------------------------------------------------------------ C06-a *)
(* what the reader may see after the bytes of the flushed frames: nothing, or a strict non-empty
   prefix of the bytes of the next frame of the stream *)
Inductive pending (t : etree) (ws : wst) (fr2 : list (N * list wire)) : bytes -> Prop :=
| pending_none : pending t ws fr2 []
| pending_prefix : forall fl recs rest n,
    fr2 = (fl, recs) :: rest ->
    (0 < n)%nat -> (n < length (emit_frame fl (snd (frame_encode t fl ws recs))))%nat ->
    pending t ws fr2 (firstn n (emit_frame fl (snd (frame_encode t fl ws recs)))).

(* how the reader reports the end of what is there *)
Definition pending_result (p : bytes) : read_result :=
  match p with [] => RdEnd | _ => RdErr true EEof end.

Lemma emit_frame_prefix_nonempty : forall fl c n, (0 < n)%nat ->
  pending_result (firstn n (emit_frame fl c)) = RdErr true EEof.
Proof. intros fl c n Hn. destruct n; [lia|]. reflexivity. Qed.

(* the general form: after the flushed frames comes a strict prefix of ANY well-formed frame *)
Theorem flushed_prefix_readable_gen : forall sizes fuel t fr1 ws0 r0 p kr k,
  rd_tree r0 = t -> rd_left r0 = 0 ->
  rd_src r0 = SrcBytes (emit_all (stream_encode t ws0 fr1) ++ p) ->
  carry ws0 (rd_st r0) -> acc_empty ws0 -> outside_default ws0 t ->
  NoDup (tree_cols t) -> fc_ok t ->
  stream_ok sizes fuel t fr1 ws0 (rd_rec r0) (rd_td r0) = true ->
  (p = [] \/ exists fl c n, frame_ok fl c /\ (0 < n)%nat /\ (n < length (emit_frame fl c))%nat /\
                            p = firstn n (emit_frame fl c)) ->
  (length fr1 < kr)%nat -> (length (concat (map snd fr1)) < k)%nat ->
  read_all sizes fuel kr k r0 =
  (concat (map snd fr1), stream_values t fr1 (rd_rec r0) (rd_td r0), Some (pending_result p)).
Proof.
  intros sizes fuel t fr1 ws0 r0 p kr k Ht Hl Hsrc Hca Hae Hod Hnd Hfc Hok Hp Hkr Hk.
  destruct Hp as [->|(fl & c & n & Hfr & Hn0 & Hn & ->)].
  - rewrite app_nil_r in Hsrc.
    exact (stream_roundtrip_bytes sizes fuel t fr1 ws0 r0 kr k Ht Hl Hsrc Hca Hae Hod Hnd Hfc Hok Hkr Hk).
  - rewrite emit_frame_prefix_nonempty by exact Hn0.
    exact (stream_roundtrip_bytes_cut sizes fuel t fr1 ws0 r0 kr k fl c n Ht Hl Hfr Hn0 Hn Hsrc
             Hca Hae Hod Hnd Hfc Hok Hkr Hk).
Qed.
Print Assumptions flushed_prefix_readable_gen.

(* In the writer's vocabulary.  The stream the writer produces is fr1 ++ fr2; it has flushed
   fr1 ("after the k-th Flush", k = length fr1) and emitted [p] of the next frame, which it
   encodes from the state [stream_end t ws0 fr1].  The reader obtains exactly the records of
   fr1, in order, with the right values, then end of data (nothing pending) or "truncated"
   (inside the next frame): no record of fr2 is produced. *)
Theorem flushed_prefix_readable : forall sizes fuel t fr1 fr2 ws0 r0 p kr k,
  rd_tree r0 = t -> rd_left r0 = 0 ->
  rd_src r0 = SrcBytes (emit_all (stream_encode t ws0 fr1) ++ p) ->
  pending t (stream_end t ws0 fr1) fr2 p ->
  carry ws0 (rd_st r0) -> acc_empty ws0 -> outside_default ws0 t ->
  NoDup (tree_cols t) -> fc_ok t ->
  stream_ok sizes fuel t (fr1 ++ fr2) ws0 (rd_rec r0) (rd_td r0) = true ->
  (length fr1 < kr)%nat -> (length (concat (map snd fr1)) < k)%nat ->
  read_all sizes fuel kr k r0 =
  (concat (map snd fr1), stream_values t fr1 (rd_rec r0) (rd_td r0), Some (pending_result p)) /\
  (* the bytes the reader was given are a prefix of the bytes of the whole stream *)
  exists rest, emit_all (stream_encode t ws0 (fr1 ++ fr2)) =
               (emit_all (stream_encode t ws0 fr1) ++ p) ++ rest.
Proof.
  intros sizes fuel t fr1 fr2 ws0 r0 p kr k Ht Hl Hsrc Hp Hca Hae Hod Hnd Hfc Hok Hkr Hk.
  destruct (stream_ok_app_inv _ _ _ _ _ _ _ _ Hok) as [Hok1 Hok2].
  split.
  - apply (flushed_prefix_readable_gen sizes fuel t fr1 ws0 r0 p kr k); try assumption.
    destruct Hp as [|fl recs rest n E Hn0 Hn]; [left; reflexivity|right].
    subst fr2. destruct (stream_ok_cons _ _ _ _ _ _ _ _ _ Hok2) as (Hf & _).
    exists fl, (snd (frame_encode t fl (stream_end t ws0 fr1) recs)), n.
    split; [|repeat split; assumption].
    apply frame_okb_sound. rewrite frame_encode_end. cbn [snd]. exact Hf.
  - rewrite stream_bytes_app.
    destruct Hp as [|fl recs rest n E Hn0 Hn].
    + exists (emit_all (stream_encode t (stream_end t ws0 fr1) fr2)). rewrite app_nil_r. reflexivity.
    + subst fr2. set (ws1 := stream_end t ws0 fr1) in *.
      set (c := snd (frame_encode t fl ws1 recs)) in *.
      exists (skipn n (emit_frame fl c) ++ emit_all (stream_encode t (w_clear (frame_end t fl ws1 recs)) rest)).
      rewrite <- app_assoc. apply f_equal.
      rewrite stream_encode_cons. unfold emit_all at 1. cbn [flat_map fst snd].
      fold (emit_all (stream_encode t (w_clear (frame_end t fl ws1 recs)) rest)).
      unfold c. rewrite frame_encode_end. cbn [snd].
      rewrite app_assoc, firstn_skipn. reflexivity.
Qed.
Print Assumptions flushed_prefix_readable.

(* ------------------------------------------------------------------ not vacuous (C06-a) *)
(* StreamFacts.ex_frames: the reader is opened on the var header frame + the first two frames
   (+ 3 bytes of the third); it returns the two records of the first frame *)
Definition exi_fr1 : list (N * list wire) := firstn 2 ex_frames.
Definition exi_fr2 : list (N * list wire) := skipn 2 ex_frames.

Definition exi_src (p : bytes) : source :=
  SrcBytes (emit_frame 0 (emit_var_header [] []) ++ emit_all (stream_encode ex_t wst0 exi_fr1) ++ p).

Definition exi_next : bytes :=
  emit_frame 5 (snd (frame_encode ex_t 5 (stream_end ex_t wst0 exi_fr1) [WStruct 1 0 [Some (WU64 7)]])).

Definition exi_r0 (p : bytes) : reader :=
  mkReader ex_t (SrcBytes (emit_all (stream_encode ex_t wst0 exi_fr1) ++ p)) 0 0 rst0
           (PM.empty _) RNil None [].

Example exi_open_none :
  reader_open sch_ints_ints sch_ints_ints_root_Record (exi_src []) = inr (exi_r0 []).
Proof. vm_compute. reflexivity. Qed.

Example exi_open_cut :
  reader_open sch_ints_ints sch_ints_ints_root_Record (exi_src (firstn 3 exi_next)) =
  inr (exi_r0 (firstn 3 exi_next)).
Proof. vm_compute. reflexivity. Qed.

Lemma exi_pending : forall n, (n = 0 \/ n < length exi_next)%nat ->
  pending ex_t (stream_end ex_t wst0 exi_fr1) exi_fr2 (firstn n exi_next).
Proof.
  intros n [->|Hn]; [constructor|]. destruct n as [|n]; [constructor|].
  unfold exi_next. eapply pending_prefix; [reflexivity|lia|exact Hn].
Qed.

(* every hypothesis of the theorem holds: the records of the two flushed frames, then the end *)
Example exi_flushed : forall n, (n = 0 \/ n < length exi_next)%nat ->
  read_all ex_sizes 10 3 3 (exi_r0 (firstn n exi_next)) =
  ([WStruct 1 0 [Some (WU64 5)]; WStruct 0 0 [None]],
   [RStruct 1 0 [RU64 5]; RStruct 0 0 [RU64 5]], Some (pending_result (firstn n exi_next))).
Proof.
  intros n Hn.
  assert (Hnd : NoDup (tree_cols ex_t)) by apply build_root_nodup.
  assert (Hfc : fc_ok ex_t) by apply build_root_fc_ok.
  assert (Hkr : (length exi_fr1 < 3)%nat) by (cbn; lia).
  assert (Hk : (length (concat (map snd exi_fr1)) < 3)%nat) by (cbn; lia).
  destruct (flushed_prefix_readable ex_sizes 10 ex_t exi_fr1 exi_fr2 wst0 (exi_r0 (firstn n exi_next))
              (firstn n exi_next) 3 3 eq_refl eq_refl eq_refl (exi_pending n Hn) carry_init
              acc_empty_init (outside_default_init ex_t) Hnd Hfc ex_stream_ok Hkr Hk) as [H _].
  rewrite H. reflexivity.
Qed.

Example exi_flushed_compute :
  read_all ex_sizes 10 3 3 (exi_r0 []) =
  ([WStruct 1 0 [Some (WU64 5)]; WStruct 0 0 [None]],
   [RStruct 1 0 [RU64 5]; RStruct 0 0 [RU64 5]], Some RdEnd) /\
  read_all ex_sizes 10 3 3 (exi_r0 (firstn 3 exi_next)) =
  ([WStruct 1 0 [Some (WU64 5)]; WStruct 0 0 [None]],
   [RStruct 1 0 [RU64 5]; RStruct 0 0 [RU64 5]], Some (RdErr true EEof)).
Proof. split; vm_compute; reflexivity. Qed.

(* ------------------------------------------------------------------ n Reads *)
Definition read_n_step (x : read_result) (cont : reader -> option reader) : option reader :=
  match x with RdRecord r' _ => cont r' | _ => None end.

(* exactly n successful Reads: the reader they leave (None: one of them did not return a record) *)
Fixpoint read_n (sizes : N -> N) (fuel kr n : nat) (r : reader) : option reader :=
  match n with
  | O => Some r
  | S n' => read_n_step (reader_read sizes fuel kr false r) (read_n sizes fuel kr n')
  end.

Lemma read_n_add : forall sizes fuel kr a b r,
  read_n sizes fuel kr (a + b) r =
  match read_n sizes fuel kr a r with Some r' => read_n sizes fuel kr b r' | None => None end.
Proof.
  intros sizes fuel kr. induction a as [|a IH]; intros b r; [reflexivity|].
  cbn [Nat.add read_n]. destruct (reader_read sizes fuel kr false r); cbn [read_n_step]; try reflexivity.
  apply IH.
Qed.

(* the n Reads are the first n steps of the Read loop *)
Lemma read_all_read_n : forall sizes fuel kr n r r',
  read_n sizes fuel kr n r = Some r' ->
  exists ws vs, length ws = n /\ length vs = n /\
    forall k, read_all sizes fuel kr (n + k) r = prepend ws vs (read_all sizes fuel kr k r').
Proof.
  intros sizes fuel kr. induction n as [|n IH]; intros r r' H.
  - cbn [read_n] in H. inversion H; subst. exists [], []. repeat split. intros k. rewrite prepend_nil. reflexivity.
  - cbn [read_n] in H. destruct (reader_read sizes fuel kr false r) as [r1 w| | |] eqn:E; try discriminate H.
    cbn [read_n_step] in H. destruct (IH r1 r' H) as (ws & vs & L1 & L2 & Hk).
    exists (w :: ws), (rd_rec r1 :: vs). cbn [length]. split; [lia|]. split; [lia|].
    intros k. cbn [Nat.add read_all]. rewrite E. cbn [read_step]. rewrite Hk, prepend_cons.
    destruct (prepend ws vs _) as [[a b] e]. reflexivity.
Qed.

(* ------------------------------------------------------------------ more bytes behind the source *)
Lemma leb_dec_loop_app : forall fuel i x s l v r B,
  leb_dec_loop fuel i x s l = Some (v, r) -> leb_dec_loop fuel i x s (l ++ B) = Some (v, r ++ B).
Proof.
  induction fuel as [|f IH]; intros i x s l v r B H; [discriminate H|].
  destruct l as [|b l]; [discriminate H|]. cbn [leb_dec_loop app] in H |- *.
  destruct (i =? 10)%nat; [discriminate H|].
  destruct (b <? 128).
  - destruct ((i =? 9)%nat && (1 <? b))%bool; [discriminate H|]. inversion H; subst. reflexivity.
  - apply IH. exact H.
Qed.

Lemma take_app : forall n l c r B, take n l = Some (c, r) -> take n (l ++ B) = Some (c, r ++ B).
Proof.
  intros n l c r B H. unfold take in *. rewrite app_length.
  destruct (N.leb_spec n (N.of_nat (length l))) as [Hle|]; [|discriminate H].
  inversion H; subst.
  destruct (N.leb_spec n (N.of_nat (length l + length B))); [|lia].
  rewrite firstn_app, skipn_app.
  replace (N.to_nat n - length l)%nat with 0%nat by lia.
  cbn [firstn skipn]. rewrite app_nil_r. reflexivity.
Qed.

(* a frame that is complete in the source stays the same frame when more bytes follow *)
Lemma parse_frame_app : forall A B fl c A',
  parse_frame A = inr (fl, c, A') -> parse_frame (A ++ B) = inr (fl, c, A' ++ B).
Proof.
  intros A B fl c A' H. destruct A as [|flags r]; [discriminate H|].
  cbn [parse_frame app] in H |- *.
  destruct (8 <=? flags); [discriminate H|].
  unfold read_uvarint, leb_dec in *.
  destruct (leb_dec_loop 11 0 0 0 r) as [[usize r1]|] eqn:E; [|discriminate H].
  rewrite (leb_dec_loop_app _ _ _ _ _ _ _ B E).
  destruct (frame_size_limit <? usize); [discriminate H|].
  destruct (take usize r1) as [[c1 r2]|] eqn:E2; [|discriminate H].
  rewrite (take_app _ _ _ _ B E2). inversion H; subst. reflexivity.
Qed.

Lemma with_src_with_src : forall r s1 s2, with_src (with_src r s1) s2 = with_src r s2.
Proof. reflexivity. Qed.

Lemma with_src_id : forall r, with_src r (rd_src r) = r.
Proof. intros []. reflexivity. Qed.

Lemma reader_next_frame_append : forall r A B r',
  rd_src r = SrcBytes A -> reader_next_frame r = inr r' ->
  exists A', rd_src r' = SrcBytes A' /\
    reader_next_frame (with_src r (SrcBytes (A ++ B))) = inr (with_src r' (SrcBytes (A' ++ B))).
Proof.
  intros r A B r' Hs H. unfold reader_next_frame in *. rewrite Hs in H.
  cbn [with_src rd_src rd_tree rd_st rd_td rd_rec rd_count rd_wire_schema rd_user_data next_frame] in *.
  destruct (parse_frame A) as [e|[[fl c] A']] eqn:E; [discriminate H|].
  rewrite (parse_frame_app A B fl c A' E).
  destruct (parse_data_frame (rd_tree r) c) as [e|[nrec cols]]; [discriminate H|].
  inversion H; subst. exists A'. split; reflexivity.
Qed.

(* a Read that returned a record returns the same record and leaves the same state, with the
   new bytes behind what it had not consumed *)
Lemma reader_read_append : forall sizes fuel k r A B r' w,
  rd_src r = SrcBytes A -> reader_read sizes fuel k false r = RdRecord r' w ->
  exists A', rd_src r' = SrcBytes A' /\
    reader_read sizes fuel k false (with_src r (SrcBytes (A ++ B))) =
    RdRecord (with_src r' (SrcBytes (A' ++ B))) w.
Proof.
  intros sizes fuel. induction k as [|k IH]; intros r A B r' w Hs H; [discriminate H|].
  cbn [reader_read] in H |- *.
  change (rd_left (with_src r (SrcBytes (A ++ B)))) with (rd_left r).
  destruct (rd_left r =? 0).
  - destruct (reader_next_frame r) as [e|r1] eqn:E; [destruct e; discriminate H|].
    destruct (reader_next_frame_append r A B r1 Hs E) as (A1 & Hs1 & E1). rewrite E1.
    destruct (IH r1 A1 B r' w Hs1 H) as (A' & Hs' & E'). exists A'. split; [exact Hs'|exact E'].
  - change (rd_st (with_src r (SrcBytes (A ++ B)))) with (rd_st r).
    change (rd_tree (with_src r (SrcBytes (A ++ B)))) with (rd_tree r).
    change (rd_rec (with_src r (SrcBytes (A ++ B)))) with (rd_rec r).
    change (rd_td (with_src r (SrcBytes (A ++ B)))) with (rd_td r).
    destruct (dec sizes fuel [] (rd_tree r) (rd_rec r) _) as [[st' w']|e]; [|discriminate H].
    destruct (apply [] (rd_tree r) (rd_rec r) w' (rd_td r)) as [td' v].
    inversion H; subst. exists A. split; [exact Hs|reflexivity].
Qed.

Theorem read_n_append : forall sizes fuel kr n r A B r',
  rd_src r = SrcBytes A -> read_n sizes fuel kr n r = Some r' ->
  exists A', rd_src r' = SrcBytes A' /\
    read_n sizes fuel kr n (with_src r (SrcBytes (A ++ B))) = Some (with_src r' (SrcBytes (A' ++ B))).
Proof.
  intros sizes fuel kr. induction n as [|n IH]; intros r A B r' Hs H.
  - cbn [read_n] in H |- *. inversion H; subst. exists A. split; [exact Hs|reflexivity].
  - cbn [read_n] in H |- *.
    destruct (reader_read sizes fuel kr false r) as [r1 w| | |] eqn:E; try discriminate H.
    cbn [read_n_step] in H.
    destruct (reader_read_append sizes fuel kr r A B r1 w Hs E) as (A1 & Hs1 & E1).
    rewrite E1. cbn [read_n_step]. exact (IH r1 A1 B r' Hs1 H).
Qed.
Print Assumptions read_n_append.

(* ------------------------------------------------------------------ the reader after a frame *)
(* StreamFactsBase.read_frame_records with the final reader identified as the result of
   [length recs] Reads *)
Lemma read_frame_records_n : forall sizes fuel t T recs r ws,
  rd_tree r = t -> rd_left r = N.of_nat (length recs) ->
  sync T ws (rd_st r) ->
  extends T (fold_left (fun st a => enc [] t a st) recs ws) ->
  recs_ok sizes fuel t recs ws (rd_rec r) (rd_td r) = true ->
  exists r_end,
    rd_tree r_end = t /\ rd_left r_end = 0 /\ rd_src r_end = rd_src r /\
    sync T (fold_left (fun st a => enc [] t a st) recs ws) (rd_st r_end) /\
    (rd_td r_end, rd_rec r_end) = chain_end t recs (rd_rec r) (rd_td r) /\
    rd_count r_end = rd_count r + N.of_nat (length recs) /\
    (recs = [] -> r_end = r) /\
    forall kr, read_n sizes fuel (S kr) (length recs) r = Some r_end.
Proof.
  intros sizes fuel t T. induction recs as [|a recs IH]; intros r ws Ht Hl HS HE Hok.
  - exists r. cbn [fold_left chain_end length Nat.add read_n]. cbn [length N.of_nat] in Hl.
    repeat (split; [assumption || reflexivity || lia|]). intros kr. reflexivity.
  - cbn [recs_ok] in Hok. cbv zeta in Hok.
    apply andb_true_iff in Hok. destruct Hok as [Hok Hgo].
    apply andb_true_iff in Hok. destruct Hok as [Hw Hh]. apply Nat.ltb_lt in Hh.
    cbn [fold_left] in HE |- *.
    assert (HE1 : extends T (enc [] t a ws)) by (eapply extends_mono; [apply mono_fold_enc|exact HE]).
    assert (HS0 : sync T ws (reset_alloc (rd_st r))) by (apply sync_alloc; exact HS).
    destruct (wire_roundtrip sizes a [] t (rd_rec r) ws (reset_alloc (rd_st r)) T fuel HS0 Hw HE1 Hh)
      as [rs1 [D1 [S1 _]]].
    assert (Hnz : rd_left r <> 0) by (rewrite Hl; cbn [length]; lia).
    rewrite <- Ht in D1.
    pose proof (fun kr => reader_read_record sizes fuel kr false r rs1 a Hnz D1) as Hrd.
    rewrite Ht in Hrd.
    set (x := apply [] t (rd_rec r) a (rd_td r)) in *.
    set (r1 := mkReader t (rd_src r) (rd_left r - 1) (rd_count r + 1) rs1 (fst x) (snd x)
                        (rd_wire_schema r) (rd_user_data r)) in *.
    destruct (IH r1 (enc [] t a ws)) as (r_end & E1 & E2 & E3 & E4 & E5 & Ec & _ & E6).
    + reflexivity.
    + unfold r1. cbn [rd_left]. rewrite Hl. cbn [length]. lia.
    + exact S1.
    + exact HE.
    + exact Hgo.
    + exists r_end. split; [exact E1|]. split; [exact E2|]. split; [exact E3|]. split; [exact E4|].
      split; [|split; [|split; [discriminate|]]].
      * cbn [chain_end]. cbv zeta. fold x. exact E5.
      * rewrite Ec. unfold r1. cbn [rd_count length]. lia.
      * intros kr. cbn [length read_n]. rewrite Hrd. cbn [read_n_step]. apply E6.
Qed.

(* the reader between two frames, in step with the writer state [ws] *)
Definition at_boundary (t : etree) (ws : wst) (r : reader) : Prop :=
  rd_tree r = t /\ rd_left r = 0 /\ carry ws (rd_st r) /\ acc_empty ws /\ outside_default ws t.

Lemma at_boundary_with_src : forall t ws r s, at_boundary t ws r -> at_boundary t ws (with_src r s).
Proof. intros t ws r s H. exact H. Qed.

(* the last frame has records *)
Fixpoint ends_nonempty (F : list (N * list wire)) : Prop :=
  match F with
  | [] => False
  | f :: rest => match rest with [] => snd f <> [] | _ => ends_nonempty rest end
  end.

Definition all_empty (E : list (N * list wire)) : Prop := Forall (fun f => snd f = []) E.

Lemma split_trailing_empty : forall F : list (N * list wire),
  exists F1 E, F = F1 ++ E /\ (F1 = [] \/ ends_nonempty F1) /\ all_empty E.
Proof.
  induction F as [|f F IH]; [exists [], []; repeat split; [left; reflexivity|constructor]|].
  destruct IH as (F1 & E & HF & H1 & HE).
  destruct F1 as [|g F1].
  - destruct (snd f) as [|a recs] eqn:Ef.
    + exists [], (f :: E). cbn [app] in *. subst F. repeat split; [left; reflexivity|].
      constructor; assumption.
    + exists [f], E. cbn [app] in *. subst F. repeat split; [|exact HE].
      right. cbn [ends_nonempty]. rewrite Ef. discriminate.
  - exists (f :: g :: F1), E. subst F. repeat split; [|exact HE].
    right. destruct H1 as [H1|H1]; [discriminate H1|]. exact H1.
Qed.

Lemma all_empty_concat : forall E, all_empty E -> concat (map snd E) = [].
Proof. induction 1 as [|f E H _ IH]; [reflexivity|]. cbn [map concat]. rewrite H, IH. reflexivity. Qed.

Lemma all_empty_values : forall t E prev td, all_empty E -> stream_values t E prev td = [].
Proof.
  intros t E prev td H. revert prev td. induction H as [|f E H _ IH]; intros prev td; [reflexivity|].
  cbn [stream_values]. cbv zeta. rewrite H. cbn [chain_values chain_end app snd fst]. apply IH.
Qed.

Lemma all_empty_chain_rec : forall t E prev td, all_empty E -> snd (stream_chain_end t E prev td) = prev.
Proof.
  intros t E prev td H. revert prev td. induction H as [|f E H _ IH]; intros prev td; [reflexivity|].
  cbn [stream_chain_end]. cbv zeta. rewrite H. cbn [chain_end snd fst]. apply IH.
Qed.

Lemma all_empty_not_ends : forall E, all_empty E -> ~ ends_nonempty E.
Proof.
  induction 1 as [|f E H HE IH]; [exact (fun x => x)|].
  cbn [ends_nonempty]. destruct E as [|e E]; [intros Hn; exact (Hn H)|exact IH].
Qed.

Lemma ends_nonempty_app_empty : forall F E, E <> [] -> all_empty E -> ~ ends_nonempty (F ++ E).
Proof.
  induction F as [|f F IH]; intros E Hne HE; [exact (all_empty_not_ends E HE)|].
  cbn [app ends_nonempty]. destruct (F ++ E) as [|g R] eqn:EQ.
  - apply app_eq_nil in EQ. destruct EQ as [_ EQ]. contradiction.
  - rewrite <- EQ. exact (IH E Hne HE).
Qed.

(* ------------------------------------------------------------------ reading up to a boundary *)
(* The induction over the frames ([StreamFacts.stream_roundtrip_ind] for [read_n]); [kr1] is the
   fuel of the Read that is under way, [S kr] that of the later Reads. *)
Lemma read_n_ind : forall sizes fuel t F ws0 r0 tail,
  at_boundary t ws0 r0 -> NoDup (tree_cols t) -> fc_ok t ->
  rd_src r0 = SrcBytes (emit_all (stream_encode t ws0 F) ++ tail) ->
  stream_ok sizes fuel t F ws0 (rd_rec r0) (rd_td r0) = true ->
  ends_nonempty F ->
  forall kr1 kr, (length F < kr1)%nat -> (length F <= kr)%nat ->
  exists r1 m, length (concat (map snd F)) = S m /\
    read_n_step (reader_read sizes fuel kr1 false r0) (read_n sizes fuel (S kr) m) = Some r1 /\
    at_boundary t (stream_end t ws0 F) r1 /\ rd_src r1 = SrcBytes tail /\
    (rd_td r1, rd_rec r1) = stream_chain_end t F (rd_rec r0) (rd_td r0) /\
    rd_count r1 = rd_count r0 + N.of_nat (S m).
Proof.
  intros sizes fuel t. induction F as [|[fl recs] rest IH];
    intros ws0 r0 tail Hab Hnd Hfc Hsrc Hok Hne kr1 kr Hk1 Hkr; [destruct Hne|].
  destruct Hab as (Ht & Hl & Hca & Hae & Hod).
  destruct (stream_ok_cons _ _ _ _ _ _ _ _ _ Hok) as (Hfok & Hfc_ok & Hrecs & Hrest).
  set (td1 := if flag_dicts fl then PM.empty (list rnode) else rd_td r0) in *.
  set (st_end := frame_end t fl ws0 recs) in *.
  (* the frame is complete in the source *)
  rewrite stream_encode_cons in Hsrc. unfold emit_all in Hsrc. cbn [flat_map fst snd] in Hsrc.
  fold st_end in Hsrc. fold (emit_all (stream_encode t (w_clear st_end) rest)) in Hsrc.
  rewrite <- app_assoc in Hsrc.
  set (s' := SrcBytes (emit_all (stream_encode t (w_clear st_end) rest) ++ tail)).
  assert (Hnf : next_frame (rd_src r0) =
                inr (fl, emit_data_frame_content st_end t (N.of_nat (length recs)), s')).
  { rewrite Hsrc. cbn [next_frame]. rewrite parse_frame_emit by (apply frame_okb_sound; exact Hfok).
    reflexivity. }
  (* the frame content layer *)
  pose proof (frame_encode_reader_sync r0 fl ws0 recs s') as Hfr. cbv zeta in Hfr.
  rewrite Ht in Hfr. rewrite frame_encode_end in Hfr. cbn [fst snd] in Hfr. fold st_end in Hfr.
  destruct (Hfr Hnf (frame_content_okb_sound _ _ _ Hfc_ok) Hnd Hfc (recs_ok_arrs _ _ _ _ _ _ _ Hrecs)
                Hca Hae Hod)
    as (r' & Hnext & Ht' & Hsrc' & Hl' & Hcnt' & Hrec' & HS' & HE' & Hae' & Hod').
  assert (Htd' : rd_td r' = td1) by exact (reader_next_frame_td r0 r' fl _ s' Hnf Hnext).
  (* the record layer *)
  rewrite <- Hrec', <- Htd' in Hrecs.
  destruct (read_frame_records_n sizes fuel t (frame_totals st_end t) recs r' (w_restart fl ws0)
              Ht' Hl' HS' HE' Hrecs)
    as (r_end & Et & El & Esrc & ES & Ece & Ecnt & Enil & Eread).
  fold (frame_end t fl ws0 recs) in ES. fold st_end in ES.
  rewrite Hrec', Htd' in Ece.
  assert (Hab2 : at_boundary t (w_clear st_end) r_end).
  { split; [exact Et|]. split; [exact El|]. split; [eapply sync_carry; exact ES|].
    split; [exact Hae'|exact Hod']. }
  assert (Hsrc2 : rd_src r_end = SrcBytes (emit_all (stream_encode t (w_clear st_end) rest) ++ tail))
    by (rewrite Esrc, Hsrc'; reflexivity).
  assert (Hok2 : stream_ok sizes fuel t rest (w_clear st_end) (rd_rec r_end) (rd_td r_end) = true).
  { rewrite <- Ece in Hrest. cbn [fst snd] in Hrest. exact Hrest. }
  cbn [length] in Hk1, Hkr. destruct kr1 as [|j]; [lia|].
  rewrite (reader_read_skip sizes fuel j r0 r' Hl Hnext).
  cbn [map snd concat stream_chain_end stream_end fst]. cbv zeta. fold td1 st_end.
  rewrite <- Ece. cbn [fst snd].
  destruct rest as [|g rest].
  - (* the last frame: it has records *)
    cbn [ends_nonempty snd] in Hne. destruct recs as [|a recs]; [contradiction|].
    destruct j as [|j]; [lia|].
    rewrite (reader_read_fuel_irrelevant sizes fuel j kr false r')
      by (rewrite Hl'; cbn [length]; lia).
    exists r_end, (length recs). cbn [concat stream_chain_end stream_end]. rewrite app_nil_r.
    split; [reflexivity|]. split; [exact (Eread kr)|]. split; [exact Hab2|].
    split; [rewrite Hsrc2; reflexivity|]. split; [reflexivity|].
    rewrite Ecnt, Hcnt'. reflexivity.
  - assert (Hne2 : ends_nonempty (g :: rest)) by exact Hne.
    destruct recs as [|a recs].
    + (* a frame without records: the same Read goes on *)
      pose proof (Enil eq_refl) as Er. subst r_end.
      destruct (IH (w_clear st_end) r' tail Hab2 Hnd Hfc Hsrc2 Hok2 Hne2 j kr) as
        (r1 & m & Hm & Hrn & Hb1 & Hs1 & Hc1 & Hn1); [cbn [length] in *; lia|cbn [length] in *; lia|].
      exists r1, m. cbn [app]. split; [exact Hm|]. split; [exact Hrn|]. split; [exact Hb1|].
      split; [exact Hs1|]. split; [exact Hc1|]. rewrite Hn1, <- Hcnt'. cbn [length] in Ecnt.
      reflexivity.
    + destruct j as [|j]; [lia|].
      rewrite (reader_read_fuel_irrelevant sizes fuel j kr false r')
        by (rewrite Hl'; cbn [length]; lia).
      destruct (IH (w_clear st_end) r_end tail Hab2 Hnd Hfc Hsrc2 Hok2 Hne2 (S kr) kr) as
        (r1 & m & Hm & Hrn & Hb1 & Hs1 & Hc1 & Hn1); [cbn [length] in *; lia|cbn [length] in *; lia|].
      exists r1, (length recs + S m)%nat.
      split; [rewrite app_length, Hm; cbn [length]; lia|].
      split.
      * change (read_n_step (reader_read sizes fuel (S kr) false r')
                            (read_n sizes fuel (S kr) (length recs + S m)))
          with (read_n sizes fuel (S kr) (length (a :: recs) + S m) r').
        rewrite read_n_add, (Eread kr). exact Hrn.
      * split; [exact Hb1|]. split; [exact Hs1|]. split; [exact Hc1|].
        rewrite Hn1, Ecnt, Hcnt'. cbn [length]. lia.
Qed.

(* reading the records of F (no trailing frames without records) from a source that holds the
   bytes of F followed by anything: the reader stops at the frame boundary after F, in step
   with the writer state [stream_end t ws0 F]; what follows F is untouched *)
Theorem read_n_boundary : forall sizes fuel t F ws0 r0 tail kr,
  at_boundary t ws0 r0 -> NoDup (tree_cols t) -> fc_ok t ->
  rd_src r0 = SrcBytes (emit_all (stream_encode t ws0 F) ++ tail) ->
  stream_ok sizes fuel t F ws0 (rd_rec r0) (rd_td r0) = true ->
  F = [] \/ ends_nonempty F -> (length F < kr)%nat ->
  exists r1, read_n sizes fuel kr (length (concat (map snd F))) r0 = Some r1 /\
    at_boundary t (stream_end t ws0 F) r1 /\ rd_src r1 = SrcBytes tail /\
    (rd_td r1, rd_rec r1) = stream_chain_end t F (rd_rec r0) (rd_td r0) /\
    rd_count r1 = rd_count r0 + N.of_nat (length (concat (map snd F))).
Proof.
  intros sizes fuel t F ws0 r0 tail kr Hab Hnd Hfc Hsrc Hok [->|Hne] Hkr.
  - exists r0. cbn [map concat length read_n stream_end stream_chain_end].
    split; [reflexivity|]. split; [exact Hab|]. split; [exact Hsrc|]. split; [reflexivity|].
    cbn. lia.
  - destruct kr as [|kr]; [lia|].
    destruct (read_n_ind sizes fuel t F ws0 r0 tail Hab Hnd Hfc Hsrc Hok Hne (S kr) kr) as
      (r1 & m & Hm & Hrn & Hb1 & Hs1 & Hc1 & Hn1); [lia|lia|].
    exists r1. rewrite Hm. split; [exact Hrn|]. repeat (split; [assumption|]). exact Hn1.
Qed.
Print Assumptions read_n_boundary.

(* ------------------------------------------------------------------ C06-b: the state after fr1 *)
(* Reading the records of fr1 (any frames): the reader has consumed F1 = fr1 without its trailing
   frames that hold no record (a Read only moves past such a frame on its way to a record), it
   is at the frame boundary after F1 in step with the writer state there, its record is the end
   of the apply chain of fr1, and what follows F1 in the source is untouched. *)
Theorem read_n_position : forall sizes fuel t fr1 ws0 r0 tail kr,
  at_boundary t ws0 r0 -> NoDup (tree_cols t) -> fc_ok t ->
  rd_src r0 = SrcBytes (emit_all (stream_encode t ws0 fr1) ++ tail) ->
  stream_ok sizes fuel t fr1 ws0 (rd_rec r0) (rd_td r0) = true ->
  (length fr1 < kr)%nat ->
  exists r1 F1 E, fr1 = F1 ++ E /\ (F1 = [] \/ ends_nonempty F1) /\ all_empty E /\
    read_n sizes fuel kr (length (concat (map snd fr1))) r0 = Some r1 /\
    at_boundary t (stream_end t ws0 F1) r1 /\
    rd_src r1 = SrcBytes (emit_all (stream_encode t (stream_end t ws0 F1) E) ++ tail) /\
    (rd_td r1, rd_rec r1) = stream_chain_end t F1 (rd_rec r0) (rd_td r0) /\
    rd_rec r1 = snd (stream_chain_end t fr1 (rd_rec r0) (rd_td r0)) /\
    rd_count r1 = rd_count r0 + N.of_nat (length (concat (map snd fr1))) /\
    stream_ok sizes fuel t E (stream_end t ws0 F1) (rd_rec r1) (rd_td r1) = true.
Proof.
  intros sizes fuel t fr1 ws0 r0 tail kr Hab Hnd Hfc Hsrc Hok Hkr.
  destruct (split_trailing_empty fr1) as (F1 & E & -> & HF1 & HE).
  destruct (stream_ok_app_inv _ _ _ _ _ _ _ _ Hok) as [Hok1 Hok2].
  rewrite stream_bytes_app, <- app_assoc in Hsrc. rewrite app_length in Hkr.
  destruct (read_n_boundary sizes fuel t F1 ws0 r0 _ kr Hab Hnd Hfc Hsrc Hok1 HF1) as
    (r1 & Hrn & Hb1 & Hs1 & Hc1 & Hn1); [lia|].
  assert (Hcc : concat (map snd (F1 ++ E)) = concat (map snd F1))
    by (rewrite map_app, concat_app, (all_empty_concat E HE), app_nil_r; reflexivity).
  exists r1, F1, E. rewrite Hcc.
  split; [reflexivity|]. split; [exact HF1|]. split; [exact HE|]. split; [exact Hrn|].
  split; [exact Hb1|]. split; [exact Hs1|]. split; [exact Hc1|].
  split; [|split; [exact Hn1|]].
  - rewrite stream_chain_end_app, (all_empty_chain_rec t E _ _ HE), <- Hc1. reflexivity.
  - rewrite <- Hc1 in Hok2. exact Hok2.
Qed.
Print Assumptions read_n_position.

Definition strict_prefix_of_frame (p : bytes) : Prop :=
  p = [] \/ exists fl c n, frame_ok fl c /\ (0 < n)%nat /\ (n < length (emit_frame fl c))%nat /\
                           p = firstn n (emit_frame fl c).

(* The writer has flushed fr1 ++ fr2 (and emitted [p] of a further frame).  A reader that reads
   the records of fr1 from that stream
     - reaches a state at a frame boundary, in step with the writer state after fr1 (without its
       trailing frames that hold no record), record = end of the apply chain of fr1;
     - from that state the Read loop returns exactly the records of fr2, then the end;
     - the state is the one reached by reading fr1 from the shorter stream (fr1 only: the reader
       ran before the later Flush calls), handed the bytes emitted since then. *)
Theorem resume_after_more_flushes : forall sizes fuel t fr1 fr2 ws0 r0 p kr k,
  at_boundary t ws0 r0 -> NoDup (tree_cols t) -> fc_ok t ->
  rd_src r0 = SrcBytes (emit_all (stream_encode t ws0 (fr1 ++ fr2)) ++ p) ->
  strict_prefix_of_frame p ->
  stream_ok sizes fuel t (fr1 ++ fr2) ws0 (rd_rec r0) (rd_td r0) = true ->
  (length (fr1 ++ fr2) < kr)%nat -> (length (concat (map snd fr2)) < k)%nat ->
  let n := length (concat (map snd fr1)) in
  let ce := stream_chain_end t fr1 (rd_rec r0) (rd_td r0) in
  let later := emit_all (stream_encode t (stream_end t ws0 fr1) fr2) ++ p in
  exists r1,
    read_n sizes fuel kr n r0 = Some r1 /\
    (* the state *)
    rd_tree r1 = t /\ rd_left r1 = 0 /\ rd_rec r1 = snd ce /\ rd_count r1 = rd_count r0 + N.of_nat n /\
    (exists F1 E, fr1 = F1 ++ E /\ all_empty E /\ at_boundary t (stream_end t ws0 F1) r1 /\
                  (rd_td r1, rd_rec r1) = stream_chain_end t F1 (rd_rec r0) (rd_td r0) /\
                  rd_src r1 = SrcBytes (emit_all (stream_encode t (stream_end t ws0 F1) E) ++ later)) /\
    (* it continues with exactly the records of fr2 *)
    read_all sizes fuel kr k r1 =
      (concat (map snd fr2), stream_values t fr2 (snd ce) (fst ce), Some (pending_result p)) /\
    (* the same state as on the shorter stream, handed the later bytes *)
    exists r1s unread,
      read_n sizes fuel kr n (with_src r0 (SrcBytes (emit_all (stream_encode t ws0 fr1)))) = Some r1s /\
      rd_src r1s = SrcBytes unread /\
      (fr1 = [] \/ ends_nonempty fr1 -> unread = []) /\
      r1 = with_src r1s (SrcBytes (unread ++ later)).
Proof.
  intros sizes fuel t fr1 fr2 ws0 r0 p kr k Hab Hnd Hfc Hsrc Hp Hok Hkr Hk n ce later.
  destruct (stream_ok_app_inv _ _ _ _ _ _ _ _ Hok) as [Hok1 Hok2].
  rewrite app_length in Hkr.
  rewrite stream_bytes_app, <- app_assoc in Hsrc. fold later in Hsrc.
  destruct (read_n_position sizes fuel t fr1 ws0 r0 later kr Hab Hnd Hfc Hsrc Hok1) as
    (r1 & F1 & E & HF & HF1 & HE & Hrn & Hb1 & Hs1 & Hc1 & Hr1 & Hn1 & HokE); [lia|].
  exists r1. split; [exact Hrn|].
  destruct Hb1 as (Ht1 & Hl1 & Hca1 & Hae1 & Hod1).
  split; [exact Ht1|]. split; [exact Hl1|]. split; [exact Hr1|]. split; [exact Hn1|].
  split.
  { exists F1, E. split; [exact HF|]. split; [exact HE|].
    split; [exact (conj Ht1 (conj Hl1 (conj Hca1 (conj Hae1 Hod1))))|].
    split; [exact Hc1|exact Hs1]. }
  split.
  - (* the continuation: the frames E ++ fr2 from the writer state after F1 *)
    assert (Hce : ce = stream_chain_end t E (rd_rec r1) (rd_td r1)).
    { unfold ce. rewrite HF, stream_chain_end_app, <- Hc1. reflexivity. }
    assert (HokEG : stream_ok sizes fuel t (E ++ fr2) (stream_end t ws0 F1) (rd_rec r1) (rd_td r1) = true).
    { rewrite stream_ok_app, HokE. cbn [andb]. rewrite <- Hce, <- stream_end_app, <- HF. exact Hok2. }
    assert (Hsrc1 : rd_src r1 = SrcBytes (emit_all (stream_encode t (stream_end t ws0 F1) (E ++ fr2)) ++ p)).
    { rewrite Hs1, stream_bytes_app, <- stream_end_app, <- HF, <- app_assoc. reflexivity. }
    rewrite (flushed_prefix_readable_gen sizes fuel t (E ++ fr2) (stream_end t ws0 F1) r1 p kr k
               Ht1 Hl1 Hsrc1 Hca1 Hae1 Hod1 Hnd Hfc HokEG Hp).
    + rewrite map_app, concat_app, (all_empty_concat E HE), stream_values_app,
        (all_empty_values t E _ _ HE), <- Hce. reflexivity.
    + rewrite app_length. subst fr1. rewrite app_length in Hkr. lia.
    + rewrite map_app, concat_app, (all_empty_concat E HE). exact Hk.
  - (* the shorter stream *)
    set (r0s := with_src r0 (SrcBytes (emit_all (stream_encode t ws0 fr1)))).
    assert (Hsrcs : rd_src r0s = SrcBytes (emit_all (stream_encode t ws0 fr1) ++ []))
      by (rewrite app_nil_r; reflexivity).
    destruct (read_n_position sizes fuel t fr1 ws0 r0s [] kr (at_boundary_with_src _ _ _ _ Hab) Hnd Hfc
                Hsrcs Hok1) as
      (r1s & F1' & E' & HF' & HF1' & HE' & Hrns & _ & Hs1s & _); [lia|].
    exists r1s, (emit_all (stream_encode t (stream_end t ws0 F1') E') ++ []).
    split; [exact Hrns|]. split; [exact Hs1s|]. split.
    + (* no trailing frame without records: everything was consumed *)
      intros Hne. rewrite app_nil_r.
      assert (HE0 : E' = []).
      { destruct E' as [|e E']; [reflexivity|exfalso].
        destruct Hne as [->|Hne]; [destruct F1'; discriminate HF'|].
        rewrite HF' in Hne. exact (ends_nonempty_app_empty F1' (e :: E') ltac:(discriminate) HE' Hne). }
      rewrite HE0. reflexivity.
    + destruct (read_n_append sizes fuel kr n r0s _ later r1s (eq_refl : rd_src r0s = SrcBytes _) Hrns)
        as (A' & HA' & Happ).
      unfold r0s in Happ. rewrite with_src_with_src in Happ.
      unfold n in Happ. rewrite <- Hsrc, with_src_id, Hrn in Happ. inversion Happ as [Heq].
      rewrite Hs1s in HA'. inversion HA'; subst A'. reflexivity.
Qed.
Print Assumptions resume_after_more_flushes.

(* ------------------------------------------------------------------ the interleaving *)
Lemma stream_encode_firstn : forall t k frames ws,
  firstn k (stream_encode t ws frames) = stream_encode t ws (firstn k frames).
Proof.
  intros t. induction k as [|k IH]; intros frames ws; [reflexivity|].
  destruct frames as [|[fl recs] rest]; [reflexivity|].
  rewrite stream_encode_cons. cbn [firstn]. rewrite stream_encode_cons, IH. reflexivity.
Qed.

Lemma concat_snd_app : forall (A B : list (N * list wire)),
  concat (map snd (A ++ B)) = concat (map snd A) ++ concat (map snd B).
Proof. intros. rewrite map_app, concat_app. reflexivity. Qed.

(* state of the system: the writer has flushed [i_k] frames and emitted [i_n] bytes of the next
   one; the reader state (its source holds the emitted bytes it has not consumed); the records
   and record values delivered so far; whether the reader's last step ended with "end of data" *)
Record istate := mkI {
  i_k : nat; i_n : nat; i_rd : reader; i_out : list wire; i_vals : list rnode; i_eod : bool }.

Definition is_eod (x : read_result) : bool :=
  match x with RdEnd => true | RdErr true EEof => true | _ => false end.

Section Interleave.
  Variable sizes : N -> N.
  Variables fuel kr kk : nat.
  Variable t : etree.
  Variable ws0 : wst.
  Variable frames : list (N * list wire).     (* everything the writer will ever write *)
  Variable v0 : rnode.
  Variable td0 : tdicts.

  Definition all_enc : list (N * bytes) := stream_encode t ws0 frames.

  Definition pend_bytes (k n : nat) : bytes :=
    match nth_error all_enc k with
    | Some f => firstn n (emit_frame (fst f) (snd f))
    | None => []
    end.

  (* the bytes the writer has emitted at position (k, n) *)
  Definition visible (k n : nat) : bytes := emit_all (firstn k all_enc) ++ pend_bytes k n.

  (* n is a STRICT prefix length of frame k (a complete frame is counted in k) *)
  Definition wpos_ok (k n : nat) : Prop :=
    (k <= length frames)%nat /\
    match nth_error all_enc k with
    | Some f => (n < length (emit_frame (fst f) (snd f)))%nat
    | None => n = 0%nat
    end.

  Inductive istep : istate -> istate -> Prop :=
  (* the writer emits more bytes: flushes further frames and/or part of the next frame; the
     bytes arrive behind what the reader's source still holds *)
  | step_write : forall s k' n' unread delta,
      (i_k s <= k')%nat -> wpos_ok k' n' ->
      rd_src (i_rd s) = SrcBytes unread ->
      visible k' n' = visible (i_k s) (i_n s) ++ delta ->
      istep s (mkI k' n' (with_src (i_rd s) (SrcBytes (unread ++ delta))) (i_out s) (i_vals s) false)
  (* the reader reads until a Read does not return a record; it keeps the state the last
     successful Read left (an unsuccessful Read produces no state) *)
  | step_read : forall s ws vs res r',
      read_all sizes fuel kr kk (i_rd s) = (ws, vs, Some res) ->
      read_n sizes fuel kr (length ws) (i_rd s) = Some r' ->
      istep s (mkI (i_k s) (i_n s) r' (i_out s ++ ws) (i_vals s ++ vs) (is_eod res)).

  Definition iinit (s : istate) : Prop :=
    i_k s = 0%nat /\ i_n s = 0%nat /\ at_boundary t ws0 (i_rd s) /\ rd_src (i_rd s) = SrcBytes [] /\
    rd_rec (i_rd s) = v0 /\ rd_td (i_rd s) = td0 /\ i_out s = [] /\ i_vals s = [] /\ i_eod s = false.

  Inductive ireach : istate -> Prop :=
  | reach_init : forall s, iinit s -> ireach s
  | reach_step : forall s s', ireach s -> istep s s' -> ireach s'.

  (* the reader has consumed the frames F1 (a prefix of the flushed ones) and delivered exactly
     their records; it is at the boundary after F1, in step with the writer state there *)
  Definition iinv (s : istate) : Prop :=
    wpos_ok (i_k s) (i_n s) /\
    exists F1 G unread, frames = F1 ++ G /\ (length F1 <= i_k s)%nat /\
      at_boundary t (stream_end t ws0 F1) (i_rd s) /\
      rd_src (i_rd s) = SrcBytes unread /\
      emit_all (stream_encode t ws0 F1) ++ unread = visible (i_k s) (i_n s) /\
      (rd_td (i_rd s), rd_rec (i_rd s)) = stream_chain_end t F1 v0 td0 /\
      i_out s = concat (map snd F1) /\ i_vals s = stream_values t F1 v0 td0 /\
      (i_eod s = true -> concat (map snd (firstn (i_k s - length F1) G)) = []).

  Hypothesis Hnd : NoDup (tree_cols t).
  Hypothesis Hfc : fc_ok t.
  Hypothesis Hok : stream_ok sizes fuel t frames ws0 v0 td0 = true.
  Hypothesis Hkr : (length frames < kr)%nat.
  Hypothesis Hkk : (length (concat (map snd frames)) < kk)%nat.

  Lemma emit_frame_nonempty : forall fl c, (0 < length (emit_frame fl c))%nat.
  Proof. intros. unfold emit_frame. cbn [app length]. lia. Qed.

  Lemma iinit_inv : forall s, iinit s -> iinv s.
  Proof.
    intros s (Hk & Hn & Hab & Hsrc & Hv & Htd & Ho & Hva & He).
    assert (Hp : pend_bytes 0 0 = []) by (unfold pend_bytes; destruct (nth_error all_enc 0); reflexivity).
    split.
    - rewrite Hk, Hn. split; [lia|]. destruct (nth_error all_enc 0); [apply emit_frame_nonempty|reflexivity].
    - exists [], frames, []. rewrite Hk, Hn, He. cbn [app length stream_end stream_chain_end map concat stream_values].
      repeat (split; [assumption || reflexivity || lia|]).
      split; [unfold visible, emit_all; rewrite Hp; reflexivity|].
      split; [rewrite Hv, Htd; reflexivity|].
      repeat (split; [assumption|]). discriminate.
  Qed.

  Lemma pend_strict : forall k n, wpos_ok k n -> strict_prefix_of_frame (pend_bytes k n).
  Proof.
    intros k n [_ Hn]. unfold pend_bytes. destruct (nth_error all_enc k) as [f|] eqn:E; [|left; reflexivity].
    destruct n as [|n]; [left; reflexivity|right].
    exists (fst f), (snd f), (S n). split; [|split; [lia|split; [exact Hn|reflexivity]]].
    pose proof (stream_ok_frames_ok _ _ _ _ _ _ _ Hok) as HF. rewrite Forall_forall in HF.
    apply HF. exact (nth_error_In _ _ E).
  Qed.

  Lemma is_eod_pending : forall p, is_eod (pending_result p) = true.
  Proof. intros [|b p]; reflexivity. Qed.

  (* the read step from a state that satisfies the invariant *)
  Lemma iinv_read : forall s, iinv s ->
    exists G1 r',
      firstn (i_k s) frames = firstn (i_k s - length G1) frames ++ G1 /\
      i_out s ++ concat (map snd G1) = concat (map snd (firstn (i_k s) frames)) /\
      i_vals s ++ stream_values t G1 (rd_rec (i_rd s)) (rd_td (i_rd s)) =
        stream_values t (firstn (i_k s) frames) v0 td0 /\
      read_all sizes fuel kr kk (i_rd s) =
        (concat (map snd G1), stream_values t G1 (rd_rec (i_rd s)) (rd_td (i_rd s)),
         Some (pending_result (pend_bytes (i_k s) (i_n s)))) /\
      read_n sizes fuel kr (length (concat (map snd G1))) (i_rd s) = Some r' /\
      iinv (mkI (i_k s) (i_n s) r' (i_out s ++ concat (map snd G1))
                (i_vals s ++ stream_values t G1 (rd_rec (i_rd s)) (rd_td (i_rd s))) true).
  Proof.
    intros s (Hw & F1 & G & unread & HFG & HlenF & Hab & Hsrc & Hvis & Hce & Hout & Hvals & _).
    set (k := i_k s) in *. set (n := i_n s) in *. set (r := i_rd s) in *.
    set (j := (k - length F1)%nat). set (G1 := firstn j G). set (G2 := skipn j G).
    assert (HG : G = G1 ++ G2) by (unfold G1, G2; rewrite firstn_skipn; reflexivity).
    assert (Hk : (k <= length frames)%nat) by exact (proj1 Hw).
    assert (HlenG1 : length G1 = j).
    { unfold G1. apply firstn_length_le. rewrite HFG, app_length in Hk. unfold j. lia. }
    assert (Hfk : firstn k frames = F1 ++ G1).
    { rewrite HFG, firstn_app. rewrite (firstn_all2 F1) by exact HlenF. reflexivity. }
    (* what the reader's source holds *)
    assert (Hun : unread = emit_all (stream_encode t (stream_end t ws0 F1) G1) ++ pend_bytes k n).
    { unfold visible, all_enc in Hvis. rewrite stream_encode_firstn, Hfk, stream_bytes_app, <- app_assoc in Hvis.
      exact (app_inv_head _ _ _ Hvis). }
    rewrite Hun in Hsrc.
    (* the frames after F1 are encodable from the values the reader holds *)
    assert (HokG : stream_ok sizes fuel t G (stream_end t ws0 F1) (rd_rec r) (rd_td r) = true).
    { pose proof Hok as H. rewrite HFG in H. destruct (stream_ok_app_inv _ _ _ _ _ _ _ _ H) as [_ H2].
      rewrite <- Hce in H2. exact H2. }
    assert (HokG1 : stream_ok sizes fuel t G1 (stream_end t ws0 F1) (rd_rec r) (rd_td r) = true).
    { rewrite HG in HokG. exact (proj1 (stream_ok_app_inv _ _ _ _ _ _ _ _ HokG)). }
    assert (Hlens : (length G1 < kr)%nat /\ (length (concat (map snd G1)) < kk)%nat).
    { assert (length frames = length F1 + (length G1 + length G2))%nat
        by (rewrite HFG, HG, !app_length; reflexivity).
      assert (length (concat (map snd frames)) =
              length (concat (map snd F1)) + (length (concat (map snd G1)) + length (concat (map snd G2))))%nat
        by (rewrite HFG, HG, !concat_snd_app, !app_length; reflexivity).
      lia. }
    destruct Hlens as [HkrG HkkG].
    destruct Hab as (Ht & Hl & Hca & Hae & Hod).
    pose proof (flushed_prefix_readable_gen sizes fuel t G1 (stream_end t ws0 F1) r (pend_bytes k n) kr kk
                  Ht Hl Hsrc Hca Hae Hod Hnd Hfc HokG1 (pend_strict k n Hw) HkrG HkkG) as Hall.
    destruct (read_n_position sizes fuel t G1 (stream_end t ws0 F1) r (pend_bytes k n) kr
                (conj Ht (conj Hl (conj Hca (conj Hae Hod)))) Hnd Hfc Hsrc HokG1 HkrG) as
      (r1 & Fg & E & HFg & _ & HE & Hrn & Hb1 & Hs1 & Hc1 & _ & _ & _).
    exists G1, r1.
    assert (Hcc : concat (map snd G1) = concat (map snd Fg))
      by (rewrite HFg, concat_snd_app, (all_empty_concat E HE), app_nil_r; reflexivity).
    assert (Hvv : stream_values t G1 (rd_rec r) (rd_td r) = stream_values t Fg (rd_rec r) (rd_td r)).
    { rewrite HFg, stream_values_app, (all_empty_values t E _ _ HE), app_nil_r. reflexivity. }
    assert (Hsv : stream_values t (F1 ++ Fg) v0 td0 = i_vals s ++ stream_values t Fg (rd_rec r) (rd_td r)).
    { rewrite stream_values_app, <- Hce, Hvals. reflexivity. }
    split; [rewrite Hfk, HlenG1; unfold j;
            replace (k - (k - length F1))%nat with (length F1) by lia;
            rewrite HFG, firstn_app, Nat.sub_diag, firstn_all; cbn [firstn]; rewrite app_nil_r; reflexivity|].
    split; [rewrite Hfk, concat_snd_app, Hout; reflexivity|].
    split.
    { rewrite Hfk, stream_values_app, <- Hce, Hvals. reflexivity. }
    split; [exact Hall|]. split; [exact Hrn|].
    (* the invariant of the new state *)
    split; [exact Hw|]. cbn [i_k i_n i_rd i_out i_vals i_eod]. fold k n.
    exists (F1 ++ Fg), (E ++ G2), (emit_all (stream_encode t (stream_end t ws0 (F1 ++ Fg)) E) ++ pend_bytes k n).
    rewrite stream_end_app.
    split; [rewrite HFG, HG, HFg, <- !app_assoc; reflexivity|].
    split; [rewrite app_length; rewrite HFg, app_length in HlenG1; unfold j in HlenG1; lia|].
    split; [exact Hb1|]. split; [exact Hs1|].
    split.
    { unfold visible, all_enc. rewrite stream_encode_firstn, Hfk, HFg.
      rewrite !stream_bytes_app, <- !app_assoc. reflexivity. }
    split; [rewrite stream_chain_end_app, <- Hce; exact Hc1|].
    split; [rewrite concat_snd_app, Hout, Hcc; reflexivity|].
    split; [rewrite Hsv, Hvv; reflexivity|].
    intros _. rewrite HFg, app_length in HlenG1.
    replace (k - length (F1 ++ Fg))%nat with (length E + 0)%nat
      by (rewrite app_length; unfold j in HlenG1; lia).
    rewrite firstn_app_2. cbn [firstn]. rewrite app_nil_r. exact (all_empty_concat E HE).
  Qed.

  Lemma istep_inv : forall s s', iinv s -> istep s s' -> iinv s'.
  Proof.
    intros s s' Hinv Hst. destruct Hst as [s k' n' unread delta Hkk' Hw' Hsrc Hvis|s ws vs res r' Hall Hrn].
    - destruct Hinv as (_ & F1 & G & unread0 & HFG & HlenF & Hab & Hsrc0 & Hvis0 & Hce & Hout & Hvals & _).
      rewrite Hsrc in Hsrc0. inversion Hsrc0; subst unread0.
      split; [exact Hw'|]. cbn [i_k i_n i_rd i_out i_vals i_eod].
      exists F1, G, (unread ++ delta).
      split; [exact HFG|]. split; [lia|]. split; [exact Hab|]. split; [reflexivity|].
      split; [rewrite Hvis, <- Hvis0, app_assoc; reflexivity|].
      split; [exact Hce|]. split; [exact Hout|]. split; [exact Hvals|]. discriminate.
    - destruct (iinv_read s Hinv) as (G1 & r1 & _ & _ & _ & Hall1 & Hrn1 & Hinv1).
      rewrite Hall in Hall1. inversion Hall1; subst ws vs res.
      rewrite Hrn in Hrn1. inversion Hrn1; subst r'.
      rewrite is_eod_pending. exact Hinv1.
  Qed.

  Theorem interleaved_read_inv : forall s, ireach s -> iinv s.
  Proof. induction 1 as [s H|s s' _ IH Hst]; [exact (iinit_inv s H)|exact (istep_inv s s' IH Hst)]. Qed.

  (* Any interleaving of writer steps and "read until end of data" steps: what has been delivered
     is a prefix of the records of the stream (every record once, in order, with the right
     values), it never goes beyond the flushed frames, and when the reader has just reported end
     of data it is exactly the records of the flushed frames. *)
  Theorem interleaved_read : forall s, ireach s ->
    exists m,
      i_out s = firstn m (concat (map snd frames)) /\
      (m <= length (concat (map snd (firstn (i_k s) frames))))%nat /\
      (exists F1 G, frames = F1 ++ G /\ (length F1 <= i_k s)%nat /\
                    i_out s = concat (map snd F1) /\ i_vals s = stream_values t F1 v0 td0) /\
      (i_eod s = true ->
       i_out s = concat (map snd (firstn (i_k s) frames)) /\
       i_vals s = stream_values t (firstn (i_k s) frames) v0 td0).
  Proof.
    intros s Hr. destruct (interleaved_read_inv s Hr) as
      (Hw & F1 & G & unread & HFG & HlenF & Hab & Hsrc & Hvis & Hce & Hout & Hvals & Heod).
    assert (Hfk : firstn (i_k s) frames = F1 ++ firstn (i_k s - length F1) G).
    { rewrite HFG, firstn_app. rewrite (firstn_all2 F1) by exact HlenF. reflexivity. }
    exists (length (concat (map snd F1))).
    split.
    { rewrite Hout, HFG, concat_snd_app, firstn_app, Nat.sub_diag, firstn_all. cbn [firstn].
      rewrite app_nil_r. reflexivity. }
    split; [rewrite Hfk, concat_snd_app, app_length; lia|].
    split; [exists F1, G; repeat (split; [assumption|]); exact Hvals|].
    intros He. specialize (Heod He).
    assert (HE : all_empty (firstn (i_k s - length F1) G)).
    { clear - Heod. induction (firstn (i_k s - length F1) G) as [|f E IH]; [constructor|].
      cbn [map concat] in Heod. apply app_eq_nil in Heod. destruct Heod as [H1 H2].
      constructor; [exact H1|exact (IH H2)]. }
    split.
    - rewrite Hfk, concat_snd_app, Heod, app_nil_r. exact Hout.
    - rewrite Hfk, stream_values_app, (all_empty_values t _ _ _ HE), app_nil_r. exact Hvals.
  Qed.

  (* the read step is always possible, reports end of data (or truncation inside the frame under
     way) and then everything flushed has been delivered *)
  Theorem read_step_enabled : forall s, ireach s ->
    exists s', istep s s' /\ i_eod s' = true /\ i_k s' = i_k s /\
      i_out s' = concat (map snd (firstn (i_k s) frames)) /\
      i_vals s' = stream_values t (firstn (i_k s) frames) v0 td0.
  Proof.
    intros s Hr. destruct (iinv_read s (interleaved_read_inv s Hr)) as
      (G1 & r1 & _ & Ho & Hv & Hall & Hrn & _).
    eexists. split; [exact (step_read s _ _ _ r1 Hall Hrn)|].
    cbn [i_eod i_k i_out i_vals]. rewrite is_eod_pending. repeat split; assumption.
  Qed.
End Interleave.
Print Assumptions interleaved_read.
Print Assumptions read_step_enabled.

(* ------------------------------------------------------------------ executable runs of the LTS *)
Inductive iaction := AWrite (k n : nat) | ARead.

Definition wpos_okb (t : etree) (ws0 : wst) (frames : list (N * list wire)) (k n : nat) : bool :=
  (k <=? length frames)%nat &&
  match nth_error (all_enc t ws0 frames) k with
  | Some f => (n <? length (emit_frame (fst f) (snd f)))%nat
  | None => (n =? 0)%nat
  end.

Lemma wpos_okb_sound : forall t ws0 frames k n,
  wpos_okb t ws0 frames k n = true -> wpos_ok t ws0 frames k n.
Proof.
  intros t ws0 frames k n H. unfold wpos_okb in H. apply andb_true_iff in H. destruct H as [H1 H2].
  split; [apply Nat.leb_le; exact H1|].
  destruct (nth_error (all_enc t ws0 frames) k); [apply Nat.ltb_lt|apply Nat.eqb_eq]; exact H2.
Qed.

Definition do_action (sizes : N -> N) (fuel kr kk : nat) (t : etree) (ws0 : wst)
           (frames : list (N * list wire)) (a : iaction) (s : istate) : option istate :=
  match a with
  | AWrite k' n' =>
    match rd_src (i_rd s) with
    | SrcBytes unread =>
      let old := visible t ws0 frames (i_k s) (i_n s) in
      let new := visible t ws0 frames k' n' in
      let delta := skipn (length old) new in
      if (i_k s <=? k')%nat && wpos_okb t ws0 frames k' n' && bytes_eqb new (old ++ delta)
      then Some (mkI k' n' (with_src (i_rd s) (SrcBytes (unread ++ delta))) (i_out s) (i_vals s) false)
      else None
    | _ => None
    end
  | ARead =>
    match read_all sizes fuel kr kk (i_rd s) with
    | (ws, vs, Some res) =>
      match read_n sizes fuel kr (length ws) (i_rd s) with
      | Some r' => Some (mkI (i_k s) (i_n s) r' (i_out s ++ ws) (i_vals s ++ vs) (is_eod res))
      | None => None
      end
    | _ => None
    end
  end.

Lemma do_action_step : forall sizes fuel kr kk t ws0 frames a s s',
  do_action sizes fuel kr kk t ws0 frames a s = Some s' -> istep sizes fuel kr kk t ws0 frames s s'.
Proof.
  intros sizes fuel kr kk t ws0 frames a s s' H. destruct a as [k' n'|]; cbn [do_action] in H.
  - destruct (rd_src (i_rd s)) as [unread|] eqn:Es; [|discriminate H]. cbv zeta in H.
    destruct (i_k s <=? k')%nat eqn:E1; [|discriminate H].
    destruct (wpos_okb t ws0 frames k' n') eqn:E2; [|discriminate H].
    destruct (bytes_eqb _ _) eqn:E3; [|discriminate H]. cbn [andb] in H. inversion H; subst s'.
    apply step_write.
    + apply Nat.leb_le. exact E1.
    + apply wpos_okb_sound. exact E2.
    + exact Es.
    + apply CodecFacts.bytes_eqb_eq. exact E3.
  - destruct (read_all sizes fuel kr kk (i_rd s)) as [[ws vs] [res|]] eqn:Ea; [|discriminate H].
    destruct (read_n sizes fuel kr (length ws) (i_rd s)) as [r'|] eqn:Er; [|discriminate H].
    inversion H; subst s'. exact (step_read sizes fuel kr kk t ws0 frames s ws vs res r' Ea Er).
Qed.

Fixpoint run (sizes : N -> N) (fuel kr kk : nat) (t : etree) (ws0 : wst)
         (frames : list (N * list wire)) (acts : list iaction) (s : istate) : option istate :=
  match acts with
  | [] => Some s
  | a :: rest =>
    match do_action sizes fuel kr kk t ws0 frames a s with
    | Some s' => run sizes fuel kr kk t ws0 frames rest s'
    | None => None
    end
  end.

Lemma run_reach : forall sizes fuel kr kk t ws0 frames v0 td0 acts s s',
  ireach sizes fuel kr kk t ws0 frames v0 td0 s ->
  run sizes fuel kr kk t ws0 frames acts s = Some s' ->
  ireach sizes fuel kr kk t ws0 frames v0 td0 s'.
Proof.
  intros sizes fuel kr kk t ws0 frames v0 td0. induction acts as [|a acts IH]; intros s s' Hr H.
  - cbn [run] in H. inversion H; subst. exact Hr.
  - cbn [run] in H. destruct (do_action sizes fuel kr kk t ws0 frames a s) as [s1|] eqn:E; [|discriminate H].
    apply (IH s1 s'); [|exact H]. eapply reach_step; [exact Hr|].
    exact (do_action_step sizes fuel kr kk t ws0 frames a s s1 E).
Qed.

(* ------------------------------------------------------------------ not vacuous (C06-b) *)
(* resume: the whole of ex_frames is in the source; the reader reads the two records of the first
   two frames, the state it is in continues with the record of the third frame *)
Definition exi_all : reader :=
  mkReader ex_t (SrcBytes (emit_all (stream_encode ex_t wst0 (exi_fr1 ++ exi_fr2)) ++ [])) 0 0 rst0
           (PM.empty _) RNil None [].

Lemma exi_at_boundary : forall s, at_boundary ex_t wst0 (mkReader ex_t s 0 0 rst0 (PM.empty _) RNil None []).
Proof.
  intros s. split; [reflexivity|]. split; [reflexivity|]. split; [exact carry_init|].
  split; [exact acc_empty_init|apply outside_default_init].
Qed.

Example exi_resume : exists r1,
  read_n ex_sizes 10 4 2 exi_all = Some r1 /\
  rd_left r1 = 0 /\ rd_rec r1 = RStruct 0 0 [RU64 5] /\ rd_count r1 = 2 /\
  read_all ex_sizes 10 4 2 r1 = ([WStruct 1 0 [Some (WU64 7)]], [RStruct 1 0 [RU64 7]], Some RdEnd).
Proof.
  assert (Hnd : NoDup (tree_cols ex_t)) by apply build_root_nodup.
  assert (Hfc : fc_ok ex_t) by apply build_root_fc_ok.
  assert (Hkr : (length (exi_fr1 ++ exi_fr2) < 4)%nat) by (cbn; lia).
  assert (Hk : (length (concat (map snd exi_fr2)) < 2)%nat) by (cbn; lia).
  destruct (resume_after_more_flushes ex_sizes 10 ex_t exi_fr1 exi_fr2 wst0 exi_all [] 4 2
              (exi_at_boundary _) Hnd Hfc eq_refl (or_introl eq_refl) ex_stream_ok Hkr Hk)
    as (r1 & Hrn & _ & Hl & Hrec & Hcnt & _ & Hall & _).
  exists r1. split; [exact Hrn|]. split; [exact Hl|]. split; [rewrite Hrec; reflexivity|].
  split; [rewrite Hcnt; reflexivity|]. rewrite Hall. reflexivity.
Qed.

(* the same by computation *)
Example exi_resume_compute :
  match read_n ex_sizes 10 4 2 exi_all with
  | Some r1 => Some (rd_left r1, rd_rec r1, rd_count r1, read_all ex_sizes 10 4 2 r1)
  | None => None
  end =
  Some (0, RStruct 0 0 [RU64 5], 2,
        ([WStruct 1 0 [Some (WU64 7)]], [RStruct 1 0 [RU64 7]], Some RdEnd)).
Proof. vm_compute. reflexivity. Qed.

(* an interleaving: flush 2 frames, read, emit 3 bytes of the third frame, read, read again,
   complete the third frame, read *)
Definition exi_init : istate :=
  mkI 0 0 (mkReader ex_t (SrcBytes []) 0 0 rst0 (PM.empty _) RNil None []) [] [] false.

Definition exi_acts : list iaction := [AWrite 2 0; ARead; AWrite 2 3; ARead; ARead; AWrite 3 0; ARead].

Definition exi_obs (s : istate) := (i_k s, i_n s, i_out s, i_vals s, i_eod s, rd_count (i_rd s)).

Example exi_run_obs :
  map (fun n => option_map exi_obs (run ex_sizes 10 4 4 ex_t wst0 ex_frames (firstn n exi_acts) exi_init))
      [2; 5; 7]%nat =
  [Some (2%nat, 0%nat, [WStruct 1 0 [Some (WU64 5)]; WStruct 0 0 [None]],
         [RStruct 1 0 [RU64 5]; RStruct 0 0 [RU64 5]], true, 2);
   Some (2%nat, 3%nat, [WStruct 1 0 [Some (WU64 5)]; WStruct 0 0 [None]],
         [RStruct 1 0 [RU64 5]; RStruct 0 0 [RU64 5]], true, 2);
   Some (3%nat, 0%nat, [WStruct 1 0 [Some (WU64 5)]; WStruct 0 0 [None]; WStruct 1 0 [Some (WU64 7)]],
         [RStruct 1 0 [RU64 5]; RStruct 0 0 [RU64 5]; RStruct 1 0 [RU64 7]], true, 3)].
Proof. vm_compute. reflexivity. Qed.

Example exi_run_final :
  option_map exi_obs (run ex_sizes 10 4 4 ex_t wst0 ex_frames exi_acts exi_init) =
  Some (3%nat, 0%nat, [WStruct 1 0 [Some (WU64 5)]; WStruct 0 0 [None]; WStruct 1 0 [Some (WU64 7)]],
        [RStruct 1 0 [RU64 5]; RStruct 0 0 [RU64 5]; RStruct 1 0 [RU64 7]], true, 3).
Proof. vm_compute. reflexivity. Qed.

Lemma exi_init_reach : ireach ex_sizes 10 4 4 ex_t wst0 ex_frames RNil (PM.empty _) exi_init.
Proof.
  apply reach_init. split; [reflexivity|]. split; [reflexivity|]. split; [apply exi_at_boundary|].
  repeat (split; [reflexivity|]). reflexivity.
Qed.

(* the run is a run of the LTS, and the theorem applies to its final state *)
Example exi_run_theorem : exists s,
  run ex_sizes 10 4 4 ex_t wst0 ex_frames exi_acts exi_init = Some s /\
  ireach ex_sizes 10 4 4 ex_t wst0 ex_frames RNil (PM.empty _) s /\
  i_out s = concat (map snd ex_frames).
Proof.
  pose proof exi_run_final as H.
  destruct (run ex_sizes 10 4 4 ex_t wst0 ex_frames exi_acts exi_init) as [s|] eqn:E.
  - exists s. split; [reflexivity|].
    assert (Hr : ireach ex_sizes 10 4 4 ex_t wst0 ex_frames RNil (PM.empty _) s)
      by exact (run_reach _ _ _ _ _ _ _ _ _ _ _ _ exi_init_reach E).
    split; [exact Hr|].
    assert (Hnd : NoDup (tree_cols ex_t)) by apply build_root_nodup.
    assert (Hfc : fc_ok ex_t) by apply build_root_fc_ok.
    assert (Hkr : (length ex_frames < 4)%nat) by (cbn; lia).
    assert (Hkk : (length (concat (map snd ex_frames)) < 4)%nat) by (cbn; lia).
    destruct (interleaved_read ex_sizes 10 4 4 ex_t wst0 ex_frames RNil (PM.empty _) Hnd Hfc
                ex_stream_ok Hkr Hkk s Hr) as (m & _ & _ & _ & Heod).
    assert (Hobs : i_k s = 3%nat /\ i_eod s = true).
    { cbn [option_map] in H. unfold exi_obs in H. injection H as H1 _ _ _ H5 _.
      split; assumption. }
    destruct Hobs as [Hk He]. destruct (Heod He) as [Ho _]. rewrite Ho, Hk. reflexivity.
  - cbn [option_map] in H. discriminate H.
Qed.
