From Coq Require Import List NArith ZArith Bool PArith Lia FMapPositive Arith.
From Coq Require Import ZifyN ZifyNat ZifyBool.
From Stef Require Import Bits BitsFacts BitIO BitIOFacts Varint VarintFacts Codecs CodecFacts Schema
     Schemas Wire WireOk WireFactsBase WireFacts Apply Frame FrameFacts Reader Writer Limits
     FrameContentFacts FrameContentSchemas FrameContentInv StreamFactsBase StreamFacts LimitsCompose.
Import ListNotations.
Open Scope N_scope.
(* ------------------------------------------------------------------ not vacuous *)
(* examples/ints (struct Record { uint64 }), MaxUncompressedFrameByteSize = 3 (24 bits),
   FrameRestartFlags = RestartCodecs: nine records of 9, 17, 9, 9, 25, 9, 9, 9, 9 bits make four
   frames; the last one is closed by Flush() *)
Time Definition exw_cfg : lcfg := mkCfg 3 100 false.
Time Definition exw_recs : list wire :=
  map (fun v => WStruct 1 0 [Some (WU64 v)]) [5; 300; 7; 7; 100000; 9; 10; 11; 12].
Time Definition exw_frames : list (N * list wire) := w_write_all exw_cfg 4 8 ex_t wst0 exw_recs.

Time Example exw_sizes : w_sizes exw_cfg 4 8 ex_t wst0 exw_recs =
  [(9, 0); (17, 0); (9, 0); (9, 0); (25, 0); (9, 0); (9, 0); (9, 0); (9, 0)].
Proof. vm_compute. reflexivity. Qed.

Time Example exw_frames_eq : exw_frames =
  [(0, map (fun v => WStruct 1 0 [Some (WU64 v)]) [5; 300]);
   (4, map (fun v => WStruct 1 0 [Some (WU64 v)]) [7; 7; 100000]);
   (4, map (fun v => WStruct 1 0 [Some (WU64 v)]) [9; 10; 11]);
   (4, map (fun v => WStruct 1 0 [Some (WU64 v)]) [12])].
Proof. vm_compute. reflexivity. Qed.

Time Example exw_stream_ok : stream_ok ex_sizes 10 ex_t exw_frames wst0 RNil (PM.empty _) = true.
Proof. vm_compute. reflexivity. Qed.

Time Definition exw_bytes : source :=
  SrcBytes (emit_frame 0 (emit_var_header [] []) ++ emit_all (stream_encode ex_t wst0 exw_frames)).

Time Example exw_open : exists r0,
  reader_open sch_ints_ints sch_ints_ints_root_Record exw_bytes = inr r0 /\ rd_tree r0 = ex_t.
Proof. eexists. split; [vm_compute; reflexivity|reflexivity]. Qed.

(* every hypothesis of the composed theorem holds for this stream *)
Time Example exw_roundtrip : forall r0,
  reader_open sch_ints_ints sch_ints_ints_root_Record exw_bytes = inr r0 ->
  fst (fst (read_all ex_sizes 10 10 10 r0)) = exw_recs /\
  snd (read_all ex_sizes 10 10 10 r0) = Some RdEnd.
Proof.
  intros r0 Hop.
  assert (Ht : rd_tree r0 = ex_t).
  { destruct exw_open as (r & Hr & Ht). rewrite Hr in Hop. inversion Hop; subst. exact Ht. }
  rewrite (w_write_all_roundtrip_open_bytes exw_cfg 4 8 _ _ ex_sizes 10 0 (emit_var_header [] []) ex_t
             exw_recs r0 10 10 eq_refl Hop Ht exw_stream_ok).
  - split; reflexivity.
  - cbn; lia.
  - cbn; lia.
Time Qed.

(* a schema with a string dictionary: struct Record { string dict(0); uint64 }.
   MaxTotalDictSize = 40, MaxUncompressedFrameByteSize = 4 (32 bits), RestartCodecs.  The strings
   "abc", "de", "fghi" account 19 + 18 + 20 bytes: the limit is reached by the fourth record, the
   dictionaries are cleared and the next frame carries RestartDictionaries (flags 5); in that
   frame "abc" is a new entry again (19 bytes measured on the real encoder state). *)
Time Definition exd_sc : schema :=
  mkSchema [mkSdef false None [mkField (TPrim PString (Some 0)) false; mkField (TPrim PUint64 None) false]] [].
Time Definition exd_t : etree := fst (build_root exd_sc 0 None).
Time Definition exd_rec (s : bytes) (v : N) : wire := WStruct 3 0 [Some (WStr s); Some (WU64 v)].
Time Definition exd_recs : list wire :=
  [exd_rec [97; 98; 99] 1; exd_rec [97; 98; 99] 2; exd_rec [100; 101] 3; exd_rec [102; 103; 104; 105] 4;
   exd_rec [97; 98; 99] 5; exd_rec [100; 101] 6; exd_rec [120] 7].
Time Definition exd_cfg : lcfg := mkCfg 4 40 false.
Time Definition exd_frames : list (N * list wire) := w_write_all exd_cfg 4 8 exd_t wst0 exd_recs.

Time Example exd_sizes : w_sizes exd_cfg 4 8 exd_t wst0 exd_recs =
  [(42, 19); (18, 0); (34, 18); (50, 20); (42, 19); (34, 18); (26, 0)].
Proof. vm_compute. reflexivity. Qed.

Time Example exd_frames_eq : exd_frames =
  [(0, [exd_rec [97; 98; 99] 1]);
   (4, [exd_rec [97; 98; 99] 2; exd_rec [100; 101] 3]);
   (4, [exd_rec [102; 103; 104; 105] 4]);
   (5, [exd_rec [97; 98; 99] 5]);
   (4, [exd_rec [100; 101] 6]);
   (4, [exd_rec [120] 7])].
Proof. vm_compute. reflexivity. Qed.

(* only the dictionary limit (frame limit out of reach): one reset, announced *)
Time Example exd_frames_dict_only : w_write_all (mkCfg 1000 40 false) 0 8 exd_t wst0 exd_recs =
  [(0, [exd_rec [97; 98; 99] 1; exd_rec [97; 98; 99] 2; exd_rec [100; 101] 3; exd_rec [102; 103; 104; 105] 4]);
   (1, [exd_rec [97; 98; 99] 5; exd_rec [100; 101] 6; exd_rec [120] 7])].
Proof. vm_compute. reflexivity. Qed.

(* FrameRestartFlags with RestartDictionaries: one record per frame, every frame but the first
   flagged *)
Time Example exd_frames_every : map (fun f => (fst f, length (snd f)))
    (w_write_all (mkCfg 1000 40 true) 5 8 exd_t wst0 exd_recs) =
  [(0, 1%nat); (5, 1%nat); (5, 1%nat); (5, 1%nat); (5, 1%nat); (5, 1%nat); (5, 1%nat)].
Proof. vm_compute. reflexivity. Qed.

Time Example exd_stream_ok : stream_ok ex_sizes 10 exd_t exd_frames wst0 RNil (PM.empty _) = true.
Proof. vm_compute. reflexivity. Qed.

Time Definition exd_bytes : source :=
  SrcBytes (emit_frame 0 (emit_var_header [] []) ++ emit_all (stream_encode exd_t wst0 exd_frames)).

Time Example exd_open : exists r0, reader_open exd_sc 0 exd_bytes = inr r0 /\ rd_tree r0 = exd_t.
Proof. eexists. split; [vm_compute; reflexivity|reflexivity]. Qed.

Time Example exd_roundtrip : forall r0,
  reader_open exd_sc 0 exd_bytes = inr r0 ->
  fst (fst (read_all ex_sizes 10 8 8 r0)) = exd_recs /\
  snd (read_all ex_sizes 10 8 8 r0) = Some RdEnd.
Proof.
  intros r0 Hop.
  assert (Ht : rd_tree r0 = exd_t).
  { destruct exd_open as (r & Hr & Ht). rewrite Hr in Hop. inversion Hop; subst. exact Ht. }
  rewrite (w_write_all_roundtrip_open_bytes exd_cfg 4 8 _ _ ex_sizes 10 0 (emit_var_header [] []) exd_t
             exd_recs r0 8 8 eq_refl Hop Ht exd_stream_ok).
  - split; reflexivity.
  - cbn; lia.
  - cbn; lia.
Time Qed.
