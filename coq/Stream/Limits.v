(* The writer's control logic around the two size limits (writer.go.tmpl Write/restartFrame,
   go/pkg/dictlimiter.go): after every record the limiter is consulted; dictionaries are reset
   and the next frame announced with RestartDictionaries, the frame is closed when its
   accounted size reached the limit.  Records are abstracted to what the limiter sees of them:
   (bits added to the frame, bytes added to the dictionaries). *)
From Coq Require Import List NArith Bool Lia.
Import ListNotations.
Open Scope N_scope.

Record lcfg := mkCfg { c_frame_limit : N;      (* MaxUncompressedFrameByteSize, > 0 after defaults *)
                       c_dict_limit : N;       (* MaxTotalDictSize, > 0 after defaults *)
                       c_flag_dicts : bool }.  (* FrameRestartFlags has RestartDictionaries *)

Record lstate := mkL { l_frame_bits : N; l_dict : N; l_dict_reached : bool;
                       l_frame_recs : list (N * N);        (* records of the open frame *)
                       l_next_flag : bool;                  (* open frame was announced with RestartDictionaries *)
                       l_closed : list (bool * list (N * N)) }.  (* closed frames: (flag, records) *)

Definition l_init : lstate := mkL 0 0 false [] false [].

(* one Write() *)
Definition l_write (c : lcfg) (s : lstate) (r : N * N) : lstate :=
  let '(bits, dbytes) := r in
  let fb := l_frame_bits s + bits in
  (* AddDictElemSize: only accounted when a limit is set (it always is after defaults) *)
  let d := l_dict s + dbytes in
  let reached := l_dict_reached s || (0 <? dbytes) && (c_dict_limit c <=? d) in
  let recs := l_frame_recs s ++ [r] in
  let reset := reached || c_flag_dicts c in
  let restart := reset || (8 * c_frame_limit c <=? fb) in
  if restart then
    mkL 0 (if reset then 0 else d) (if reset then false else reached) [] reset
        (l_closed s ++ [(l_next_flag s, recs)])
  else mkL fb d reached recs (l_next_flag s) (l_closed s).

Definition l_run (c : lcfg) (rs : list (N * N)) : lstate := fold_left (l_write c) rs l_init.

Definition sum_bits (l : list (N * N)) : N := fold_left (fun a r => a + fst r) l 0.
Definition sum_dict (l : list (N * N)) : N := fold_left (fun a r => a + snd r) l 0.

(* invariant: the open frame never reached either limit; accounting matches the open records *)
Definition l_inv (c : lcfg) (s : lstate) : Prop :=
  l_frame_bits s = sum_bits (l_frame_recs s) /\
  l_frame_bits s < 8 * c_frame_limit c \/ l_frame_recs s = [] /\ l_frame_bits s = 0.

(* every closed frame: all records but the last stay below the frame limit *)
Definition frame_bounded (c : lcfg) (recs : list (N * N)) : Prop :=
  sum_bits (removelast recs) < 8 * c_frame_limit c \/ removelast recs = [].

Lemma sum_bits_app : forall a b, sum_bits (a ++ b) = sum_bits a + sum_bits b.
Proof.
  intros a b. unfold sum_bits. rewrite fold_left_app.
  generalize (fold_left (fun a0 r => a0 + fst r) a 0).
  induction b as [|x b IH]; intros n; cbn [fold_left]; [lia|].
  rewrite IH. rewrite (IH (0 + fst x)). lia.
Qed.

Lemma l_write_inv : forall c s r, 0 < c_frame_limit c ->
  l_frame_bits s = sum_bits (l_frame_recs s) ->
  (l_frame_recs s = [] \/ l_frame_bits s < 8 * c_frame_limit c) ->
  Forall (fun f => frame_bounded c (snd f)) (l_closed s) ->
  let s' := l_write c s r in
  l_frame_bits s' = sum_bits (l_frame_recs s') /\
  (l_frame_recs s' = [] \/ l_frame_bits s' < 8 * c_frame_limit c) /\
  Forall (fun f => frame_bounded c (snd f)) (l_closed s').
Proof.
  intros c s [bits db] Hlim Hacc Hopen Hcl. unfold l_write.
  set (fb := l_frame_bits s + bits).
  destruct (l_dict_reached s || (0 <? db) && (c_dict_limit c <=? l_dict s + db) || c_flag_dicts c
            || (8 * c_frame_limit c <=? fb)) eqn:Hr; cbn [l_frame_bits l_frame_recs l_closed].
  - split; [reflexivity|]. split; [left; reflexivity|].
    apply Forall_app. split; [assumption|]. constructor; [|constructor]. cbn [snd].
    unfold frame_bounded. rewrite removelast_last.
    destruct Hopen as [Hn|Hb]; [right; assumption|left; rewrite <- Hacc; assumption].
  - split.
    + rewrite sum_bits_app. unfold fb. rewrite Hacc. unfold sum_bits at 3. cbn. lia.
    + split; [|assumption]. right.
      apply orb_false_iff in Hr. destruct Hr as [_ Hr]. apply N.leb_gt in Hr. exact Hr.
Qed.

Theorem frames_bounded : forall c rs, 0 < c_frame_limit c ->
  Forall (fun f => frame_bounded c (snd f)) (l_closed (l_run c rs)).
Proof.
  intros c rs Hlim. unfold l_run.
  assert (H : forall s, l_frame_bits s = sum_bits (l_frame_recs s) ->
                        (l_frame_recs s = [] \/ l_frame_bits s < 8 * c_frame_limit c) ->
                        Forall (fun f => frame_bounded c (snd f)) (l_closed s) ->
                        Forall (fun f => frame_bounded c (snd f)) (l_closed (fold_left (l_write c) rs s))).
  { induction rs as [|r rs IH]; intros s H1 H2 H3; cbn [fold_left]; [assumption|].
    destruct (l_write_inv c s r Hlim H1 H2 H3) as [A [B C]]. apply IH; assumption. }
  apply H; [reflexivity|left; reflexivity|constructor].
Qed.

(* the dictionary size seen at any record boundary inside an epoch stays below the limit, except
   for what the last record of the epoch added *)
Definition dict_below (c : lcfg) (s : lstate) : Prop :=
  l_dict_reached s = false -> l_dict s < c_dict_limit c \/ l_dict s = 0.

Lemma l_write_dict : forall c s r, 0 < c_dict_limit c -> dict_below c s -> l_dict_reached s = false ->
  dict_below c (l_write c s r) /\ l_dict_reached (l_write c s r) = false.
Proof.
  intros c s [bits db] Hl Hd Hnr. unfold l_write. rewrite Hnr. cbn [orb].
  destruct ((0 <? db) && (c_dict_limit c <=? l_dict s + db)) eqn:Hreach; cbn [orb].
  - cbn. split; [intros _; right; reflexivity|reflexivity].
  - destruct (c_flag_dicts c); cbn [orb].
    + cbn. split; [intros _; right; reflexivity|reflexivity].
    + destruct (8 * c_frame_limit c <=? l_frame_bits s + bits); cbn; (split; [|reflexivity]); intros _;
        apply andb_false_iff in Hreach; destruct Hreach as [H0|H1];
        try (apply N.ltb_ge in H0; assert (db = 0) by lia; subst db; rewrite N.add_0_r; apply Hd; assumption);
        try (apply N.leb_gt in H1; left; assumption).
Qed.

Theorem dict_bounded : forall c rs, 0 < c_dict_limit c ->
  let s := l_run c rs in dict_below c s /\ l_dict_reached s = false.
Proof.
  intros c rs Hl. unfold l_run.
  assert (H : forall s, dict_below c s -> l_dict_reached s = false ->
                        dict_below c (fold_left (l_write c) rs s) /\ l_dict_reached (fold_left (l_write c) rs s) = false).
  { induction rs as [|r rs IH]; intros s H1 H2; cbn [fold_left]; [split; assumption|].
    destruct (l_write_dict c s r Hl H1 H2) as [A B]. apply IH; assumption. }
  apply H; [intros _; right; reflexivity|reflexivity].
Qed.

(* reset <-> announced: the flag carried by the open frame is exactly "the Write that closed the
   previous frame reset the dictionaries" *)
Theorem reset_announced : forall c s r,
  let s' := l_write c s r in
  (l_dict s' = 0 /\ l_frame_recs s' = [] /\ l_next_flag s' = true) \/
  (l_next_flag s' = false /\ l_frame_recs s' = []) \/
  (l_frame_recs s' <> [] /\ l_next_flag s' = l_next_flag s).
Proof.
  intros c s [bits db]. unfold l_write.
  destruct (l_dict_reached s || (0 <? db) && (c_dict_limit c <=? l_dict s + db) || c_flag_dicts c) eqn:Hreset; cbn [orb].
  - left. cbn. repeat split; reflexivity.
  - destruct (8 * c_frame_limit c <=? l_frame_bits s + bits); cbn.
    + right. left. split; reflexivity.
    + right. right. split; [|reflexivity]. destruct (l_frame_recs s); discriminate.
Qed.
