(* The writer's control loop (Limits.v) composed with the real encoder (Writer.v / Wire.enc) and
   with the whole-stream round trip (StreamFacts.v).

   Limits.v runs the limit logic of writer.go.tmpl Write() on ABSTRACT records (bits, dict bytes);
   StreamFacts.v proves the round trip of [stream_encode t ws frames] for a GIVEN list of frames.
   Here:
     w_write / w_run      the concrete loop: one Write() = encode the record with [enc] into the
                          encoder state of the open frame, measure what the SizeLimiter saw of it
                          ([wst_frame_bits] difference, dictionary measure difference), run the two
                          checks of Write(), close the frame / reset the dictionaries.
     w_write_all          Write() for every record, then Flush(): the list of (flags, records)
     w_write_all_abstracts   the frames and flags are exactly those [Limits.l_run] computes on the
                          measured sizes (so the theorems of Limits.v / Props/C08.v transfer)
     w_run_state          the loop's own encoder state is the state [stream_encode] has at that
                          point: the frames formed by the loop are a [stream_encode] input and the
                          dictionaries were cleared exactly for the frames flagged RestartDictionaries
     frame_bits_bounded   the REAL accumulated column bits of all records but the last of every
                          frame are below 8 * MaxUncompressedFrameByteSize
     dict_measure_bounded the real dictionary measure at every record boundary is below the limit
     w_write_all_concat   no record lost, duplicated or reordered; no empty frame
     w_write_all_roundtrip*  reading [stream_encode t ws0 (w_write_all ...)] returns [recs]

   Dictionary measure ([wst_dict_measure esz]): [Writer.wst_strdict_bytes] (len + 16 per string
   dictionary entry: exactly stringdict.go) + [esz] bytes per struct dictionary entry
   ([Writer.wst_tdict_counts]).  Go accounts val.byteSize() >= unsafe.Sizeof(struct) per struct
   entry, which depends on the Go struct layout and on the nested values: with
   esz <= the smallest struct size this measure is a LOWER BOUND of the Go accounting, so the Go
   writer may reset the dictionaries earlier than this loop (never later).  All theorems hold for
   every [esz].  The frame bit accounting is the Go accounting exactly. *)
From Coq Require Import List NArith ZArith Bool PArith Lia FMapPositive Arith.
From Coq Require Import ZifyN ZifyNat ZifyBool.
From Stef Require Import Bits BitsFacts BitIO BitIOFacts Varint VarintFacts Codecs CodecFacts Schema
     Schemas Wire WireOk WireFactsBase WireFacts Apply Frame FrameFacts Reader Writer Limits
     FrameContentFacts FrameContentSchemas FrameContentInv StreamFactsBase StreamFacts.
Import ListNotations.
Open Scope N_scope.

(* ------------------------------------------------------------------ sums over a PositiveMap *)
(* [PM.fold] of an additive function, as a structural sum over the trie *)
Fixpoint tsum {A : Type} (g : A -> N) (m : PM.t A) : N :=
  match m with
  | PM.Leaf _ => 0
  | PM.Node l o r => tsum g l + match o with Some x => g x | None => 0 end + tsum g r
  end.

Definition osum {A : Type} (g : A -> N) (o : option A) : N :=
  match o with Some x => g x | None => 0 end.

Lemma xfoldi_tsum : forall (A : Type) (f : PM.key -> A -> N -> N) (g : A -> N),
  (forall k x acc, f k x acc = acc + g x) ->
  forall m v i, PM.xfoldi f m v i = v + tsum g m.
Proof.
  intros A f g Hf. induction m as [|l IHl o r IHr]; intros v i; cbn [PM.xfoldi tsum]; [lia|].
  destruct o as [x|]; rewrite IHr, ?Hf, IHl; lia.
Qed.

Lemma fold_tsum : forall (A : Type) (f : PM.key -> A -> N -> N) (g : A -> N),
  (forall k x acc, f k x acc = acc + g x) -> forall m, PM.fold f m 0 = tsum g m.
Proof. intros A f g Hf m. unfold PM.fold. rewrite (xfoldi_tsum A f g Hf). lia. Qed.

Lemma tsum_le : forall (A B : Type) (g : A -> N) (h : B -> N) (m : PM.t A) (m' : PM.t B),
  (forall k, osum g (PM.find k m) <= osum h (PM.find k m')) -> tsum g m <= tsum h m'.
Proof.
  intros A B g h. induction m as [|l IHl o r IHr]; intros m' H; cbn [tsum]; [lia|].
  assert (Hleaf : forall k, PM.find k (PM.Leaf B) = None) by (intros [k|k|]; reflexivity).
  destruct m' as [|l' o' r'].
  - assert (Hl : tsum g l <= tsum h (PM.Leaf B)).
    { apply IHl. intros k. specialize (H (xO k)). rewrite Hleaf in *. exact H. }
    assert (Hr : tsum g r <= tsum h (PM.Leaf B)).
    { apply IHr. intros k. specialize (H (xI k)). rewrite Hleaf in *. exact H. }
    pose proof (H xH) as Ho. cbn [PM.find tsum] in *. unfold osum in Ho. destruct o; lia.
  - pose proof (IHl l' (fun k => H (xO k))) as Hl.
    pose proof (IHr r' (fun k => H (xI k))) as Hr.
    pose proof (H xH) as Ho. cbn [PM.find tsum] in *. unfold osum in Ho. destruct o, o'; lia.
Qed.

Lemma tsum_zero : forall (A : Type) (g : A -> N) (m : PM.t A),
  (forall k, osum g (PM.find k m) = 0) -> tsum g m = 0.
Proof.
  intros A g m H.
  assert (L : tsum g m <= tsum g (PM.Leaf A)).
  { apply tsum_le. intros k. rewrite H. cbn. lia. }
  cbn [tsum] in L. lia.
Qed.

(* ------------------------------------------------------------------ the frame bit accounting *)
Definition col_size (x : wcol) : N := N.of_nat (length (wc_bits x)) + 8 * N.of_nat (length (wc_bytes x)).

Lemma wst_frame_bits_tsum : forall st, wst_frame_bits st = tsum col_size (w_cols st).
Proof.
  intros st. unfold wst_frame_bits. apply fold_tsum. intros k x acc. unfold col_size. lia.
Qed.

Lemma osum_col_size_wget : forall st c, osum col_size (PM.find c (w_cols st)) = col_size (wget st c).
Proof. intros st c. unfold wget. destruct (PM.find c (w_cols st)); reflexivity. Qed.

(* [mono]: every column only grows, so the accumulated size only grows *)
Lemma mono_frame_bits : forall ws ws', mono ws ws' -> wst_frame_bits ws <= wst_frame_bits ws'.
Proof.
  intros ws ws' M. rewrite !wst_frame_bits_tsum. apply tsum_le. intros c.
  rewrite !osum_col_size_wget. destruct (M c) as [[r1 E1] [r2 E2]].
  unfold col_size. rewrite E1, E2, !app_length. lia.
Qed.

Theorem enc_frame_bits_mono : forall t a st, wst_frame_bits st <= wst_frame_bits (enc [] t a st).
Proof. intros t a st. apply mono_frame_bits. apply mono_enc. Qed.

Lemma acc_empty_frame_bits : forall ws, acc_empty ws -> wst_frame_bits ws = 0.
Proof.
  intros ws H. rewrite wst_frame_bits_tsum. apply tsum_zero. intros c.
  rewrite osum_col_size_wget. destruct (H c) as [H1 H2]. unfold col_size. rewrite H1, H2. reflexivity.
Qed.

(* ------------------------------------------------------------------ the dictionary measure *)
Definition tdict_entries (st : wst) : N := fold_left (fun a kn => a + snd kn) (wst_tdict_counts st) 0.

Definition wst_dict_measure (esz : N) (st : wst) : N := wst_strdict_bytes st + esz * tdict_entries st.

(* it only looks at the dictionaries *)
Lemma dict_measure_dicts : forall esz st st',
  w_sdict st' = w_sdict st -> w_tlen st' = w_tlen st -> wst_dict_measure esz st' = wst_dict_measure esz st.
Proof.
  intros esz st st' H1 H2.
  unfold wst_dict_measure, tdict_entries, wst_strdict_bytes, wst_tdict_counts. rewrite H1, H2. reflexivity.
Qed.

Lemma dict_measure_empty : forall esz st,
  w_sdict st = PM.empty _ -> w_tlen st = PM.empty _ -> wst_dict_measure esz st = 0.
Proof.
  intros esz st H1 H2.
  unfold wst_dict_measure, tdict_entries, wst_strdict_bytes, wst_tdict_counts. rewrite H1, H2.
  cbn. lia.
Qed.

(* reset performed <-> announced, at the level of one frame: the state in which the records of a
   frame are encoded ([frame_encode] = [w_restart fl] then [enc] for every record, see
   [FrameContentInv.frame_encode_end]) has empty dictionaries exactly when the frame's flags carry
   RestartDictionaries (what the reader tests: [Reader.flag_dicts]); otherwise the dictionaries
   are those the previous frame left *)
Lemma restart_dicts : forall fl ws,
  w_sdict (w_restart fl ws) = (if flag_dicts fl then PM.empty _ else w_sdict ws) /\
  w_tlen (w_restart fl ws) = (if flag_dicts fl then PM.empty _ else w_tlen ws).
Proof. intros fl ws. unfold w_restart, flag_dicts. destruct (N.testbit fl 0); split; reflexivity. Qed.

Lemma clear_dicts : forall st, w_sdict (w_clear st) = w_sdict st /\ w_tlen (w_clear st) = w_tlen st.
Proof. intros st. split; reflexivity. Qed.

Lemma restart_dict_measure : forall esz fl ws,
  wst_dict_measure esz (w_restart fl ws) = if flag_dicts fl then 0 else wst_dict_measure esz ws.
Proof.
  intros esz fl ws. destruct (restart_dicts fl ws) as [H1 H2]. destruct (flag_dicts fl).
  - apply dict_measure_empty; assumption.
  - apply dict_measure_dicts; assumption.
Qed.

Lemma clear_dict_measure : forall esz st, wst_dict_measure esz (w_clear st) = wst_dict_measure esz st.
Proof. intros esz st. apply dict_measure_dicts; reflexivity. Qed.

(* ------------------------------------------------------------------ the writer state across frames *)
(* the encoder state [stream_encode] hands to the frame that follows [frames] *)
Fixpoint stream_end (t : etree) (ws : wst) (frames : list (N * list wire)) : wst :=
  match frames with
  | [] => ws
  | f :: rest => stream_end t (w_clear (frame_end t (fst f) ws (snd f))) rest
  end.

Lemma stream_end_app : forall t F G ws, stream_end t ws (F ++ G) = stream_end t (stream_end t ws F) G.
Proof. intros t. induction F as [|f F IH]; intros G ws; [reflexivity|]. cbn [app stream_end]. apply IH. Qed.

Lemma stream_encode_app : forall t F G ws,
  stream_encode t ws (F ++ G) = stream_encode t ws F ++ stream_encode t (stream_end t ws F) G.
Proof.
  intros t. induction F as [|[fl recs] F IH]; intros G ws; [reflexivity|].
  cbn [app]. rewrite !stream_encode_cons. cbn [app stream_end fst snd]. rewrite IH. reflexivity.
Qed.

(* every frame of a stream is [frame_encode] from the state the previous frames left, i.e. its
   records are encoded from [w_restart fl] of that state (with [restart_dicts]: dictionaries
   cleared iff flagged) *)
Theorem stream_encode_split : forall t ws F fl recs G,
  stream_encode t ws (F ++ (fl, recs) :: G) =
  stream_encode t ws F ++ (fl, snd (frame_encode t fl (stream_end t ws F) recs))
    :: stream_encode t (stream_end t ws (F ++ [(fl, recs)])) G.
Proof.
  intros t ws F fl recs G. rewrite stream_encode_app, stream_encode_cons, stream_end_app.
  rewrite frame_encode_end. reflexivity.
Qed.

Lemma frame_end_snoc : forall t fl ws recs a,
  frame_end t fl ws (recs ++ [a]) = enc [] t a (frame_end t fl ws recs).
Proof. intros. unfold frame_end. rewrite fold_left_app. reflexivity. Qed.

Lemma acc_empty_stream_end : forall t F ws, acc_empty ws -> acc_empty (stream_end t ws F).
Proof.
  intros t. induction F as [|f F IH]; intros ws H; [exact H|]. cbn [stream_end]. apply IH.
  apply acc_empty_clear.
Qed.

(* the frame bound on real column bits, threaded through the stream *)
Fixpoint frames_bits_bounded (lim : N) (t : etree) (ws : wst) (frames : list (N * list wire)) : Prop :=
  match frames with
  | [] => True
  | f :: rest =>
    (removelast (snd f) = [] \/
     wst_frame_bits (frame_end t (fst f) ws (removelast (snd f))) < lim) /\
    frames_bits_bounded lim t (w_clear (frame_end t (fst f) ws (snd f))) rest
  end.

Lemma frames_bits_bounded_app : forall lim t F G ws,
  frames_bits_bounded lim t ws (F ++ G) <->
  frames_bits_bounded lim t ws F /\ frames_bits_bounded lim t (stream_end t ws F) G.
Proof.
  intros lim t. induction F as [|f F IH]; intros G ws; cbn [app frames_bits_bounded stream_end]; [tauto|].
  rewrite IH. tauto.
Qed.

(* ------------------------------------------------------------------ the concrete loop *)
(* records are kept with the sizes measured when they were written (ghost data: the link to
   Limits.v) *)
Notation srec := (wire * (N * N))%type.

Record cstate := mkC {
  cw_st : wst;                       (* encoder state inside the open frame *)
  cw_flags : N;                      (* flags the open frame was opened with (OpenFrame) *)
  cw_recs : list srec;               (* records of the open frame *)
  cw_fbits : N;                      (* limiter.frameBitSize *)
  cw_dict : N;                       (* limiter.dictByteSize *)
  cw_reached : bool;                 (* limiter.dictSizeLimitReached *)
  cw_closed : list (N * list srec)   (* closed frames *)
}.

Definition strip (fs : list (N * list srec)) : list (N * list wire) :=
  map (fun f => (fst f, map fst (snd f))) fs.

(* closed frames, then what Flush() closes (nothing when the open frame has no record) *)
Definition c_frames (s : cstate) : list (N * list srec) :=
  cw_closed s ++ match cw_recs s with [] => [] | _ => [(cw_flags s, cw_recs s)] end.

Definition l_frames (s : lstate) : list (bool * list (N * N)) :=
  l_closed s ++ match l_frame_recs s with [] => [] | _ => [(l_next_flag s, l_frame_recs s)] end.

Definition abs_frame (f : N * list srec) : bool * list (N * N) := (flag_dicts (fst f), map snd (snd f)).

Definition c_abs (s : cstate) : lstate :=
  mkL (cw_fbits s) (cw_dict s) (cw_reached s) (map snd (cw_recs s)) (flag_dicts (cw_flags s))
      (map abs_frame (cw_closed s)).

(* all records / all measured sizes so far, in order *)
Definition c_all (s : cstate) : list srec := concat (map snd (cw_closed s)) ++ cw_recs s.

(* rebuild the frames from the partition and the flags computed by Limits.v: the first frame is
   opened with flags 0 (writeVarHeader: OpenFrame(0)), later frames with FrameRestartFlags, plus
   RestartDictionaries when the limiter says so *)
Fixpoint regroup (base : N) (first : bool) (shape : list (bool * list (N * N))) (recs : list wire)
  : list (N * list wire) :=
  match shape with
  | [] => []
  | f :: rest =>
    ((if first then 0 else if fst f then N.lor base 1 else base), firstn (length (snd f)) recs)
      :: regroup base false rest (skipn (length (snd f)) recs)
  end.

Section Loop.
  Variable cfg : lcfg.
  Variable base : N.          (* WriterOptions.FrameRestartFlags *)
  Variable esz : N.           (* bytes accounted per struct dictionary entry *)
  Variable t : etree.

  (* what the SizeLimiter sees of one record: bits added to the columns, bytes added to the
     dictionaries *)
  Definition w_measure (st : wst) (a : wire) : N * N :=
    let st' := enc [] t a st in
    (wst_frame_bits st' - wst_frame_bits st, wst_dict_measure esz st' - wst_dict_measure esz st).

  Definition w_reached (s : cstate) (a : wire) : bool :=
    cw_reached s ||
    (0 <? snd (w_measure (cw_st s) a)) && (c_dict_limit cfg <=? cw_dict s + snd (w_measure (cw_st s) a)).
  (* Write(): DictLimitReached() || FrameRestartFlags & RestartDictionaries *)
  Definition w_reset (s : cstate) (a : wire) : bool := w_reached s a || c_flag_dicts cfg.
  Definition w_restartb (s : cstate) (a : wire) : bool :=
    w_reset s a || (8 * c_frame_limit cfg <=? cw_fbits s + fst (w_measure (cw_st s) a)).
  Definition w_nflags (s : cstate) (a : wire) : N := if w_reset s a then N.lor base 1 else base.

  (* one Write() *)
  Definition w_write (s : cstate) (a : wire) : cstate :=
    let m := w_measure (cw_st s) a in
    let st' := enc [] t a (cw_st s) in
    if w_restartb s a then
      mkC (w_restart (w_nflags s a) (w_clear st')) (w_nflags s a) [] 0
          (if w_reset s a then 0 else cw_dict s + snd m)
          (if w_reset s a then false else w_reached s a)
          (cw_closed s ++ [(cw_flags s, cw_recs s ++ [(a, m)])])
    else
      mkC st' (cw_flags s) (cw_recs s ++ [(a, m)]) (cw_fbits s + fst m) (cw_dict s + snd m)
          (w_reached s a) (cw_closed s).

  (* the first data frame is opened with flags 0 by writeVarHeader *)
  Definition c_init (ws0 : wst) : cstate := mkC (w_restart 0 ws0) 0 [] 0 0 false [].

  Definition w_run (ws0 : wst) (recs : list wire) : cstate := fold_left w_write recs (c_init ws0).

  (* Write() for every record, then Flush() *)
  Definition w_write_all (ws0 : wst) (recs : list wire) : list (N * list wire) :=
    strip (c_frames (w_run ws0 recs)).

  (* the sizes the limiter sees, record by record *)
  Fixpoint w_trace (s : cstate) (recs : list wire) : list (N * N) :=
    match recs with
    | [] => []
    | a :: r => w_measure (cw_st s) a :: w_trace (w_write s a) r
    end.
  Definition w_sizes (ws0 : wst) (recs : list wire) : list (N * N) := w_trace (c_init ws0) recs.

  (* -------------------------------------------------------------- (2) abstraction to Limits.v *)
  Hypothesis Hbase : N.testbit base 0 = c_flag_dicts cfg.

  Lemma nflags_bit : forall s a, flag_dicts (w_nflags s a) = w_reset s a.
  Proof.
    intros s a. unfold w_nflags, flag_dicts. destruct (w_reset s a) eqn:R.
    - rewrite N.lor_spec. cbn. apply orb_true_r.
    - unfold w_reset in R. apply orb_false_iff in R. destruct R as [_ R]. rewrite Hbase. exact R.
  Qed.

  Lemma w_write_abs : forall s a, c_abs (w_write s a) = l_write cfg (c_abs s) (w_measure (cw_st s) a).
  Proof.
    intros s a. unfold w_write, l_write. cbv zeta.
    destruct (w_measure (cw_st s) a) as [bits db] eqn:M.
    cbn [c_abs l_frame_bits l_dict l_dict_reached l_frame_recs l_next_flag l_closed] .
    pose proof (nflags_bit s a) as NF.
    unfold w_restartb, w_reset, w_reached in *. rewrite M in *. cbn [fst snd] in *.
    set (reached := cw_reached s || (0 <? db) && (c_dict_limit cfg <=? cw_dict s + db)) in *.
    destruct (reached || c_flag_dicts cfg || (8 * c_frame_limit cfg <=? cw_fbits s + bits)) eqn:R.
    - unfold c_abs. cbn [cw_fbits cw_dict cw_reached cw_recs cw_flags cw_closed map].
      rewrite NF, map_app. f_equal. f_equal. cbn [map]. unfold abs_frame. cbn [fst snd].
      rewrite map_app. reflexivity.
    - unfold c_abs. cbn [cw_fbits cw_dict cw_reached cw_recs cw_flags cw_closed].
      rewrite map_app. reflexivity.
  Qed.

  Lemma w_fold_abs : forall recs s,
    c_abs (fold_left w_write recs s) = fold_left (l_write cfg) (w_trace s recs) (c_abs s).
  Proof.
    induction recs as [|a recs IH]; intros s; [reflexivity|].
    cbn [fold_left w_trace]. rewrite IH, w_write_abs. reflexivity.
  Qed.

  (* the limiter state of the concrete loop is the state of Limits.l_run on the measured sizes *)
  Theorem w_run_abstracts : forall ws0 recs,
    c_abs (w_run ws0 recs) = l_run cfg (w_sizes ws0 recs).
  Proof. intros ws0 recs. unfold w_run, l_run, w_sizes. rewrite w_fold_abs. reflexivity. Qed.

  Lemma c_frames_abs : forall s, map abs_frame (c_frames s) = l_frames (c_abs s).
  Proof.
    intros s. unfold c_frames, l_frames. rewrite map_app. cbn [c_abs l_closed l_frame_recs l_next_flag].
    destruct (cw_recs s); reflexivity.
  Qed.

  (* frames (closed and flushed) with their ghost sizes = frames of the abstract run *)
  Theorem w_frames_abstract : forall ws0 recs,
    map abs_frame (c_frames (w_run ws0 recs)) = l_frames (l_run cfg (w_sizes ws0 recs)).
  Proof. intros. rewrite c_frames_abs, w_run_abstracts. reflexivity. Qed.

  (* -------------------------------------------------------------- records and sizes in order *)
  Lemma c_all_write : forall s a, c_all (w_write s a) = c_all s ++ [(a, w_measure (cw_st s) a)].
  Proof.
    intros s a. unfold w_write, c_all. cbv zeta. destruct (w_restartb s a); cbn [cw_closed cw_recs].
    - rewrite map_app, concat_app. cbn [map concat snd]. rewrite !app_nil_r, app_assoc. reflexivity.
    - rewrite app_assoc. reflexivity.
  Qed.

  Lemma c_all_fold : forall recs s,
    c_all (fold_left w_write recs s) = c_all s ++ combine recs (w_trace s recs).
  Proof.
    induction recs as [|a recs IH]; intros s; cbn [fold_left w_trace combine]; [rewrite app_nil_r; reflexivity|].
    rewrite IH, c_all_write, <- app_assoc. reflexivity.
  Qed.

  Lemma w_trace_length : forall recs s, length (w_trace s recs) = length recs.
  Proof. induction recs as [|a recs IH]; intros s; cbn [w_trace length]; [reflexivity|]. rewrite IH. reflexivity. Qed.

  Lemma c_all_run : forall ws0 recs, c_all (w_run ws0 recs) = combine recs (w_sizes ws0 recs).
  Proof. intros. unfold w_run, w_sizes. rewrite c_all_fold. reflexivity. Qed.

  Lemma c_frames_all : forall s, concat (map snd (c_frames s)) = c_all s.
  Proof.
    intros s. unfold c_frames, c_all. rewrite map_app, concat_app.
    destruct (cw_recs s); cbn [map concat snd]; rewrite ?app_nil_r; reflexivity.
  Qed.

  Lemma strip_concat : forall F, concat (map snd (strip F)) = map fst (concat (map snd F)).
  Proof.
    induction F as [|f F IH]; [reflexivity|]. unfold strip in *. cbn [map concat snd]. rewrite IH, map_app. reflexivity.
  Qed.

  (* (4) no record lost, duplicated or reordered *)
  Theorem w_write_all_concat : forall ws0 recs, concat (map snd (w_write_all ws0 recs)) = recs.
  Proof.
    intros ws0 recs. unfold w_write_all. rewrite strip_concat, c_frames_all, c_all_run.
    assert (L : length (w_sizes ws0 recs) = length recs) by apply w_trace_length.
    revert L. generalize (w_sizes ws0 recs). induction recs as [|a recs IH]; intros [|x l] L; try discriminate L.
    - reflexivity.
    - cbn [combine map fst]. f_equal. apply IH. injection L as L. exact L.
  Qed.

  (* the ghost sizes are the measured ones *)
  Theorem w_frames_sizes : forall ws0 recs,
    map snd (concat (map snd (c_frames (w_run ws0 recs)))) = w_sizes ws0 recs.
  Proof.
    intros ws0 recs. rewrite c_frames_all, c_all_run.
    assert (L : length (w_sizes ws0 recs) = length recs) by apply w_trace_length.
    revert L. generalize (w_sizes ws0 recs). induction recs as [|a recs IH]; intros [|x l] L; try discriminate L.
    - reflexivity.
    - cbn [combine map snd]. f_equal. apply IH. injection L as L. exact L.
  Qed.

  (* -------------------------------------------------------------- invariants of the loop *)
  Lemma fold_inv : forall (P : cstate -> Prop),
    (forall s a, P s -> P (w_write s a)) -> forall recs s, P s -> P (fold_left w_write recs s).
  Proof.
    intros P Hstep. induction recs as [|a recs IH]; intros s H; [exact H|]. cbn [fold_left].
    apply IH. apply Hstep. exact H.
  Qed.

  (* no empty frame: closed frames have at least the record that closed them *)
  Definition inv_nonempty (s : cstate) : Prop := Forall (fun f => snd f <> []) (cw_closed s).

  Lemma inv_nonempty_step : forall s a, inv_nonempty s -> inv_nonempty (w_write s a).
  Proof.
    intros s a H. unfold inv_nonempty, w_write in *. cbv zeta. destruct (w_restartb s a); cbn [cw_closed]; [|exact H].
    apply Forall_app. split; [exact H|]. constructor; [|constructor]. cbn [snd].
    destruct (cw_recs s); discriminate.
  Qed.

  Theorem w_write_all_nonempty : forall ws0 recs,
    Forall (fun f => snd f <> []) (w_write_all ws0 recs).
  Proof.
    intros ws0 recs. unfold w_write_all, strip. apply Forall_map. cbn [snd].
    assert (H : Forall (fun f : N * list srec => snd f <> []) (c_frames (w_run ws0 recs))).
    { unfold c_frames. apply Forall_app. split.
      - apply (fold_inv inv_nonempty inv_nonempty_step). constructor.
      - destruct (cw_recs (w_run ws0 recs)) eqn:E; constructor; [|constructor]. cbn [snd]. discriminate. }
    eapply Forall_impl; [|exact H]. intros [fl l] Hf Hm. apply Hf. cbn [snd] in *. destruct l; [reflexivity|discriminate Hm].
  Qed.

  Lemma nonempty_frames_length : forall (F : list (N * list wire)),
    Forall (fun f => snd f <> []) F -> (length F <= length (concat (map snd F)))%nat.
  Proof.
    induction 1 as [|f F Hf _ IH]; [apply Nat.le_refl|]. cbn [map concat length]. rewrite app_length.
    destruct (snd f); [contradiction|]. cbn [length]. lia.
  Qed.

  Corollary w_write_all_length : forall ws0 recs, (length (w_write_all ws0 recs) <= length recs)%nat.
  Proof.
    intros ws0 recs. pose proof (nonempty_frames_length _ (w_write_all_nonempty ws0 recs)) as H.
    rewrite w_write_all_concat in H. exact H.
  Qed.

  (* the flags: 0 for the first frame, then FrameRestartFlags (| RestartDictionaries) *)
  Fixpoint flags_canon (first : bool) (F : list (N * list srec)) : Prop :=
    match F with
    | [] => True
    | f :: r => fst f = (if first then 0 else if flag_dicts (fst f) then N.lor base 1 else base) /\
                flags_canon false r
    end.

  Lemma flags_canon_app : forall F G first,
    flags_canon first (F ++ G) <->
    flags_canon first F /\ flags_canon (match F with [] => first | _ => false end) G.
  Proof.
    induction F as [|f F IH]; intros G first; cbn [app flags_canon]; [tauto|].
    rewrite IH. destruct F; tauto.
  Qed.

  Definition inv_flags (s : cstate) : Prop := flags_canon true (cw_closed s ++ [(cw_flags s, cw_recs s)]).

  Lemma inv_flags_step : forall s a, inv_flags s -> inv_flags (w_write s a).
  Proof.
    intros s a H. unfold inv_flags, w_write in *. cbv zeta.
    apply flags_canon_app in H. destruct H as [H1 H2].
    destruct (w_restartb s a); cbn [cw_closed cw_flags cw_recs].
    - apply flags_canon_app. split.
      + apply flags_canon_app. split; [exact H1|]. cbn [flags_canon fst] in *. exact H2.
      + destruct (cw_closed s); cbn [app flags_canon fst]; (split; [|exact I]);
          rewrite nflags_bit; reflexivity.
    - apply flags_canon_app. split; [exact H1|]. cbn [flags_canon fst] in *. exact H2.
  Qed.

  Lemma flags_canon_frames : forall s, inv_flags s -> flags_canon true (c_frames s).
  Proof.
    intros s H. unfold inv_flags, c_frames in *. apply flags_canon_app in H. destruct H as [H1 H2].
    apply flags_canon_app. split; [exact H1|]. destruct (cw_recs s); [exact I|exact H2].
  Qed.

  Lemma regroup_canon : forall F first, flags_canon first F ->
    regroup base first (map abs_frame F) (map fst (concat (map snd F))) = strip F.
  Proof.
    induction F as [|f F IH]; intros first H; [reflexivity|].
    cbn [flags_canon] in H. destruct H as [H1 H2].
    cbn [map concat regroup abs_frame fst snd strip]. rewrite map_app, map_length.
    rewrite <- (map_length fst (snd f)).
    rewrite firstn_app, Nat.sub_diag, firstn_all, firstn_O, app_nil_r.
    rewrite skipn_app, Nat.sub_diag, skipn_all, skipn_O. cbn [app].
    f_equal; [f_equal; symmetry; exact H1|exact (IH false H2)].
  Qed.

  (* (2) the frames the concrete loop produces are the partition and the flags computed by
     [Limits.l_run] on the measured sizes *)
  Theorem w_write_all_abstracts : forall ws0 recs,
    w_write_all ws0 recs = regroup base true (l_frames (l_run cfg (w_sizes ws0 recs))) recs.
  Proof.
    intros ws0 recs. rewrite <- w_frames_abstract.
    pose proof (w_write_all_concat ws0 recs) as C. unfold w_write_all in *. rewrite strip_concat in C.
    assert (HF : flags_canon true (c_frames (w_run ws0 recs))).
    { apply flags_canon_frames. apply (fold_inv inv_flags inv_flags_step). cbn. split; [reflexivity|exact I]. }
    rewrite <- (regroup_canon _ true HF), C. reflexivity.
  Qed.

  (* the theorems of Limits.v / Props/C08.v, on the measured sizes *)
  Corollary w_sizes_frame_bounded : forall ws0 recs, 0 < c_frame_limit cfg ->
    Forall (fun f => frame_bounded cfg (snd f)) (map abs_frame (cw_closed (w_run ws0 recs))).
  Proof.
    intros ws0 recs H. pose proof (frames_bounded cfg (w_sizes ws0 recs) H) as B.
    rewrite <- w_run_abstracts in B. exact B.
  Qed.

  Corollary w_sizes_dict_bounded : forall ws0 recs, 0 < c_dict_limit cfg ->
    let s := w_run ws0 recs in
    (cw_dict s < c_dict_limit cfg \/ cw_dict s = 0) /\ cw_reached s = false.
  Proof.
    intros ws0 recs H s. destruct (dict_bounded cfg (w_sizes ws0 recs) H) as [B1 B2].
    rewrite <- w_run_abstracts in B1, B2. fold s in B1, B2. cbn [c_abs l_dict_reached] in B2.
    split; [|exact B2]. apply B1. exact B2.
  Qed.

  (* -------------------------------------------------------------- the loop's encoder state *)
  (* the encoder state of the loop is the state [stream_encode] is in after the closed frames
     and the records of the open frame *)
  Definition inv_state (ws0 : wst) (s : cstate) : Prop :=
    cw_st s = frame_end t (cw_flags s) (stream_end t ws0 (strip (cw_closed s))) (map fst (cw_recs s)).

  Lemma strip_app : forall F G, strip (F ++ G) = strip F ++ strip G.
  Proof. intros. unfold strip. apply map_app. Qed.

  Lemma inv_state_step : forall ws0 s a, inv_state ws0 s -> inv_state ws0 (w_write s a).
  Proof.
    intros ws0 s a H. unfold inv_state, w_write in *. cbv zeta.
    destruct (w_restartb s a); cbn [cw_st cw_flags cw_recs cw_closed].
    - rewrite strip_app, stream_end_app. cbn [strip map stream_end fst snd].
      rewrite map_app. cbn [map fst]. rewrite frame_end_snoc, <- H. reflexivity.
    - rewrite map_app. cbn [map fst]. rewrite frame_end_snoc, <- H. reflexivity.
  Qed.

  Theorem w_run_state : forall ws0 recs, inv_state ws0 (w_run ws0 recs).
  Proof. intros ws0 recs. apply (fold_inv (inv_state ws0) (inv_state_step ws0)). reflexivity. Qed.

  (* reset performed <-> announced, in the loop: a Write() that closes the frame leaves the
     encoder with empty dictionaries iff it announces RestartDictionaries on the frame it opens,
     iff the limiter asked for the reset *)
  Theorem w_write_reset_announced : forall s a, w_restartb s a = true ->
    let s' := w_write s a in
    flag_dicts (cw_flags s') = w_reset s a /\
    w_sdict (cw_st s') = (if w_reset s a then PM.empty _ else w_sdict (enc [] t a (cw_st s))) /\
    w_tlen (cw_st s') = (if w_reset s a then PM.empty _ else w_tlen (enc [] t a (cw_st s))).
  Proof.
    intros s a R s'. unfold s', w_write. cbv zeta. rewrite R. cbn [cw_flags cw_st].
    destruct (restart_dicts (w_nflags s a) (w_clear (enc [] t a (cw_st s)))) as [H1 H2].
    rewrite H1, H2, nflags_bit. destruct (w_reset s a); repeat split; reflexivity.
  Qed.

  (* a Write() that does not close the frame leaves flags and dictionaries to the encoder *)
  Lemma w_write_continue : forall s a, w_restartb s a = false ->
    cw_flags (w_write s a) = cw_flags s /\ cw_st (w_write s a) = enc [] t a (cw_st s).
  Proof. intros s a R. unfold w_write. cbv zeta. rewrite R. split; reflexivity. Qed.

  (* -------------------------------------------------------------- (3) the frame bound, real bits *)
  Definition inv_bits (ws0 : wst) (s : cstate) : Prop :=
    cw_fbits s = wst_frame_bits (cw_st s) /\
    (cw_recs s = [] \/ cw_fbits s < 8 * c_frame_limit cfg) /\
    frames_bits_bounded (8 * c_frame_limit cfg) t ws0 (strip (cw_closed s)).

  Lemma inv_bits_step : forall ws0 s a, inv_state ws0 s -> inv_bits ws0 s -> inv_bits ws0 (w_write s a).
  Proof.
    intros ws0 s a HS (H1 & H2 & H3). unfold inv_bits, w_write. cbv zeta.
    pose proof (enc_frame_bits_mono t a (cw_st s)) as M.
    destruct (w_restartb s a) eqn:R; cbn [cw_fbits cw_st cw_recs cw_closed].
    - split; [|split; [left; reflexivity|]].
      + symmetry. apply acc_empty_frame_bits. apply restart_acc_empty. apply acc_empty_clear.
      + rewrite strip_app. apply frames_bits_bounded_app. split; [exact H3|].
        cbn [strip map frames_bits_bounded fst snd]. split; [|exact I].
        rewrite map_app. cbn [map fst]. rewrite removelast_last.
        unfold inv_state in HS. rewrite <- HS, <- H1.
        destruct H2 as [H2|H2]; [left; rewrite H2; reflexivity|right; exact H2].
    - split; [|split; [right|exact H3]].
      + unfold w_measure. cbv zeta. cbn [fst]. lia.
      + unfold w_restartb in R. apply orb_false_iff in R. destruct R as [_ R]. apply N.leb_gt in R. exact R.
  Qed.

  Lemma inv_bits_run : forall ws0 recs, acc_empty ws0 -> inv_bits ws0 (w_run ws0 recs).
  Proof.
    intros ws0 recs Hae.
    assert (H : inv_state ws0 (w_run ws0 recs) /\ inv_bits ws0 (w_run ws0 recs)).
    { apply (fold_inv (fun s => inv_state ws0 s /\ inv_bits ws0 s)).
      - intros s a [A B]. split; [apply inv_state_step; exact A|apply inv_bits_step; assumption].
      - split; [reflexivity|]. split; [|split; [left; reflexivity|exact I]].
        cbn [c_init cw_fbits cw_st]. symmetry. apply acc_empty_frame_bits. apply restart_acc_empty. exact Hae. }
    exact (proj2 H).
  Qed.

  (* the limiter's frame counter is the real size of the columns of the open frame *)
  Theorem w_run_frame_bits : forall ws0 recs, acc_empty ws0 ->
    cw_fbits (w_run ws0 recs) = wst_frame_bits (cw_st (w_run ws0 recs)).
  Proof. intros ws0 recs H. exact (proj1 (inv_bits_run ws0 recs H)). Qed.

  (* every frame of the output (the closed ones and the flushed one): the real column bits
     accumulated by all its records but the last are below the limit; the flushed frame as a whole
     is below the limit *)
  Theorem frame_bits_bounded : forall ws0 recs, acc_empty ws0 ->
    frames_bits_bounded (8 * c_frame_limit cfg) t ws0 (w_write_all ws0 recs) /\
    let s := w_run ws0 recs in
    (cw_recs s = [] \/
     wst_frame_bits (frame_end t (cw_flags s) (stream_end t ws0 (strip (cw_closed s))) (map fst (cw_recs s)))
     < 8 * c_frame_limit cfg).
  Proof.
    intros ws0 recs Hae. destruct (inv_bits_run ws0 recs Hae) as (H1 & H2 & H3).
    pose proof (w_run_state ws0 recs) as HS. unfold inv_state in HS.
    set (s := w_run ws0 recs) in *. cbv zeta.
    assert (Hopen : cw_recs s = [] \/
       wst_frame_bits (frame_end t (cw_flags s) (stream_end t ws0 (strip (cw_closed s))) (map fst (cw_recs s)))
       < 8 * c_frame_limit cfg).
    { destruct H2 as [H2|H2]; [left; exact H2|right]. rewrite <- HS, <- H1. exact H2. }
    split; [|exact Hopen].
    unfold w_write_all. fold s. unfold c_frames. rewrite strip_app. apply frames_bits_bounded_app.
    split; [exact H3|]. destruct (cw_recs s) as [|x l] eqn:E; [exact I|].
    cbn [strip map frames_bits_bounded fst snd]. split; [|exact I]. right.
    destruct Hopen as [Hopen|Hopen]; [discriminate Hopen|].
    eapply N.le_lt_trans; [|exact Hopen].
    assert (Hne : map fst (x :: l) <> []) by discriminate.
    change (fst x :: map fst l) with (map fst (x :: l)).
    destruct (exists_last Hne) as (l' & z & El). rewrite El, removelast_last, frame_end_snoc.
    apply enc_frame_bits_mono.
  Qed.

  (* -------------------------------------------------------------- the dictionary bound, real measure *)
  (* the limiter's dictionary counter bounds the real dictionary measure of the encoder state *)
  Definition inv_dict (s : cstate) : Prop := wst_dict_measure esz (cw_st s) <= cw_dict s.

  Lemma inv_dict_step : forall s a, inv_dict s -> inv_dict (w_write s a).
  Proof.
    intros s a H. unfold inv_dict, w_write in *. cbv zeta.
    destruct (w_restartb s a) eqn:R; cbn [cw_st cw_dict].
    - rewrite restart_dict_measure, clear_dict_measure, nflags_bit.
      destruct (w_reset s a); [lia|]. unfold w_measure. cbv zeta. cbn [snd]. lia.
    - unfold w_measure. cbv zeta. cbn [snd]. lia.
  Qed.

  Theorem dict_measure_bounded : forall ws0 recs, 0 < c_dict_limit cfg ->
    wst_dict_measure esz ws0 = 0 ->
    let s := w_run ws0 recs in
    wst_dict_measure esz (cw_st s) < c_dict_limit cfg \/ wst_dict_measure esz (cw_st s) = 0.
  Proof.
    intros ws0 recs Hl H0 s.
    assert (H : inv_dict s).
    { apply (fold_inv inv_dict inv_dict_step). unfold inv_dict. cbn [c_init cw_st cw_dict].
      rewrite restart_dict_measure. cbn. lia. }
    destruct (w_sizes_dict_bounded ws0 recs Hl) as [B _]. fold s in B. unfold inv_dict in H. lia.
  Qed.
End Loop.

Print Assumptions enc_frame_bits_mono.
Print Assumptions stream_encode_split.
Print Assumptions w_run_abstracts.
Print Assumptions w_write_all_abstracts.
Print Assumptions w_write_all_concat.
Print Assumptions w_write_all_nonempty.
Print Assumptions w_run_state.
Print Assumptions w_write_reset_announced.
Print Assumptions frame_bits_bounded.
Print Assumptions dict_measure_bounded.

(* ------------------------------------------------------------------ reset performed <-> announced *)
(* For ANY list of frames: the k-th frame of the encoded stream is [frame_encode] from the state
   the previous frames left; its records are encoded from a state whose dictionaries are empty
   when the frame carries RestartDictionaries and are the previous frame's dictionaries otherwise.
   The writer cannot "reset without announcing" nor "announce without resetting": the flag is the
   only input of the reset. *)
Theorem stream_encode_reset_iff_flag : forall t ws F fl recs G,
  let ws_k := stream_end t ws F in            (* state left by the frames before *)
  let st_k := w_restart fl ws_k in            (* state the records of the frame are encoded from *)
  stream_encode t ws (F ++ (fl, recs) :: G) =
    stream_encode t ws F ++ (fl, snd (frame_encode t fl ws_k recs))
      :: stream_encode t (stream_end t ws (F ++ [(fl, recs)])) G /\
  fst (frame_encode t fl ws_k recs) = w_clear (fold_left (fun st a => enc [] t a st) recs st_k) /\
  (flag_dicts fl = true -> w_sdict st_k = PM.empty _ /\ w_tlen st_k = PM.empty _) /\
  (flag_dicts fl = false -> w_sdict st_k = w_sdict ws_k /\ w_tlen st_k = w_tlen ws_k).
Proof.
  intros t ws F fl recs G ws_k st_k. split; [apply stream_encode_split|]. split; [reflexivity|].
  destruct (restart_dicts fl ws_k) as [H1 H2]. fold st_k in H1, H2.
  split; intros E; rewrite E in H1, H2; split; assumption.
Qed.
Print Assumptions stream_encode_reset_iff_flag.

(* in the stream of the writer loop, the frames that carry RestartDictionaries (hence, by the
   theorem above, the frames encoded from cleared dictionaries) are exactly those for which the
   limiter of Limits.v asked for a reset (Limits.reset_announced / Props/C08.C08_reset_announced
   characterise [l_next_flag]) *)
Theorem w_write_all_flags : forall cfg base esz t ws0 recs,
  N.testbit base 0 = c_flag_dicts cfg ->
  map (fun f => flag_dicts (fst f)) (w_write_all cfg base esz t ws0 recs) =
  map fst (l_frames (l_run cfg (w_sizes cfg base esz t ws0 recs))).
Proof.
  intros cfg base esz t ws0 recs Hb. rewrite <- (w_frames_abstract cfg base esz t Hb).
  unfold w_write_all, strip. rewrite !map_map. reflexivity.
Qed.
Print Assumptions w_write_all_flags.

(* ------------------------------------------------------------------ (5) the round trip *)
(* What the reader returns for the stream the writer loop produces: exactly the records handed to
   Write(), in order, whatever the limits did to the frame structure.  [stream_ok] is the boolean
   side condition of StreamFacts.v evaluated on the frames of the loop; the fuel bounds are stated
   on the number of records (there are at most as many frames). *)
Theorem w_write_all_roundtrip_gen : forall cfg base esz sizes fuel t recs ws0 r0 e kr k,
  let frames := w_write_all cfg base esz t ws0 recs in
  rd_tree r0 = t -> rd_left r0 = 0 ->
  serves (rd_src r0) (stream_encode t ws0 frames) e ->
  carry ws0 (rd_st r0) -> acc_empty ws0 -> outside_default ws0 t ->
  NoDup (tree_cols t) -> fc_ok t ->
  stream_ok sizes fuel t frames ws0 (rd_rec r0) (rd_td r0) = true ->
  (length recs < kr)%nat -> (length recs < k)%nat ->
  read_all sizes fuel kr k r0 =
  (recs, stream_values t frames (rd_rec r0) (rd_td r0), Some (end_result e)).
Proof.
  intros cfg base esz sizes fuel t recs ws0 r0 e kr k frames Ht Hl Hsrv Hca Hae Hod Hnd Hfc Hok Hkr Hk.
  rewrite (stream_roundtrip_gen sizes fuel t frames ws0 r0 e kr k); try assumption.
  - unfold frames. rewrite w_write_all_concat. reflexivity.
  - pose proof (w_write_all_length cfg base esz t ws0 recs). fold frames in H. lia.
  - unfold frames. rewrite w_write_all_concat. exact Hk.
Qed.
Print Assumptions w_write_all_roundtrip_gen.

(* from [reader_open] on, the frames handed over one by one (zstd streams) *)
Theorem w_write_all_roundtrip_open : forall cfg base esz sc root sizes fuel hfl hdr t recs trunc r0 kr k,
  let frames := w_write_all cfg base esz t wst0 recs in
  reader_open sc root (SrcFrames ((hfl, hdr) :: stream_encode t wst0 frames) trunc) = inr r0 ->
  rd_tree r0 = t ->
  stream_ok sizes fuel t frames wst0 RNil (PM.empty _) = true ->
  (length recs < kr)%nat -> (length recs < k)%nat ->
  read_all sizes fuel kr k r0 =
  (recs, stream_values t frames RNil (PM.empty _), Some (if trunc then RdErr true EEof else RdEnd)).
Proof.
  intros cfg base esz sc root sizes fuel hfl hdr t recs trunc r0 kr k frames Hop Ht Hok Hkr Hk.
  rewrite (stream_roundtrip_open sc root sizes fuel hfl hdr t frames trunc r0 kr k Hop Ht Hok).
  - unfold frames. rewrite w_write_all_concat. reflexivity.
  - pose proof (w_write_all_length cfg base esz t wst0 recs). fold frames in H. lia.
  - unfold frames. rewrite w_write_all_concat. exact Hk.
Qed.
Print Assumptions w_write_all_roundtrip_open.

(* an uncompressed byte stream after the fixed header: var header frame, then the data frames of
   the writer loop *)
Theorem w_write_all_roundtrip_open_bytes : forall cfg base esz sc root sizes fuel hfl hdr t recs r0 kr k,
  let frames := w_write_all cfg base esz t wst0 recs in
  frame_okb hfl hdr = true ->
  reader_open sc root (SrcBytes (emit_frame hfl hdr ++ emit_all (stream_encode t wst0 frames))) = inr r0 ->
  rd_tree r0 = t ->
  stream_ok sizes fuel t frames wst0 RNil (PM.empty _) = true ->
  (length recs < kr)%nat -> (length recs < k)%nat ->
  read_all sizes fuel kr k r0 = (recs, stream_values t frames RNil (PM.empty _), Some RdEnd).
Proof.
  intros cfg base esz sc root sizes fuel hfl hdr t recs r0 kr k frames Hh Hop Ht Hok Hkr Hk.
  rewrite (stream_roundtrip_open_bytes sc root sizes fuel hfl hdr t frames r0 kr k Hh Hop Ht Hok).
  - unfold frames. rewrite w_write_all_concat. reflexivity.
  - pose proof (w_write_all_length cfg base esz t wst0 recs). fold frames in H. lia.
  - unfold frames. rewrite w_write_all_concat. exact Hk.
Qed.
Print Assumptions w_write_all_roundtrip_open_bytes.

(* everything together for the writer started from its initial state: partition = Limits.l_run,
   real frame bits bounded, real dictionary measure bounded, records preserved *)
Theorem w_write_all_correct : forall cfg base esz t recs,
  N.testbit base 0 = c_flag_dicts cfg -> 0 < c_dict_limit cfg ->
  let frames := w_write_all cfg base esz t wst0 recs in
  frames = regroup base true (l_frames (l_run cfg (w_sizes cfg base esz t wst0 recs))) recs /\
  concat (map snd frames) = recs /\
  Forall (fun f => snd f <> []) frames /\
  frames_bits_bounded (8 * c_frame_limit cfg) t wst0 frames /\
  (let s := w_run cfg base esz t wst0 recs in
   wst_dict_measure esz (cw_st s) < c_dict_limit cfg \/ wst_dict_measure esz (cw_st s) = 0).
Proof.
  intros cfg base esz t recs Hb Hd frames.
  split; [apply w_write_all_abstracts; exact Hb|].
  split; [apply w_write_all_concat|].
  split; [apply w_write_all_nonempty|].
  split; [exact (proj1 (frame_bits_bounded cfg base esz t wst0 recs acc_empty_init))|].
  apply dict_measure_bounded; [exact Hb|exact Hd|apply dict_measure_empty; reflexivity].
Qed.
Print Assumptions w_write_all_correct.

(* ------------------------------------------------------------------ not vacuous *)
(* examples/ints (struct Record { uint64 }), MaxUncompressedFrameByteSize = 3 (24 bits),
   FrameRestartFlags = RestartCodecs: nine records of 9, 17, 9, 9, 25, 9, 9, 9, 9 bits make four
   frames; the last one is closed by Flush() *)
Definition exw_cfg : lcfg := mkCfg 3 100 false.
Definition exw_rec (v : N) : wire := WStruct 1 0 [Some (WU64 v)].
Definition exw_recs : list wire := map exw_rec [5; 300; 7; 7; 100000; 9; 10; 11; 12].
Definition exw_frames : list (N * list wire) :=
  [(0, map exw_rec [5; 300]); (4, map exw_rec [7; 7; 100000]); (4, map exw_rec [9; 10; 11]);
   (4, map exw_rec [12])].

Example exw_sizes : w_sizes exw_cfg 4 8 ex_t wst0 exw_recs =
  [(9, 0); (17, 0); (9, 0); (9, 0); (25, 0); (9, 0); (9, 0); (9, 0); (9, 0)].
Proof. vm_compute. reflexivity. Qed.

Example exw_frames_eq : w_write_all exw_cfg 4 8 ex_t wst0 exw_recs = exw_frames.
Proof. vm_compute. reflexivity. Qed.

Example exw_stream_ok : stream_ok ex_sizes 10 ex_t exw_frames wst0 RNil (PM.empty _) = true.
Proof. vm_compute. reflexivity. Qed.

Definition exw_bytes : source :=
  SrcBytes (emit_frame 0 (emit_var_header [] []) ++ emit_all (stream_encode ex_t wst0 exw_frames)).

Example exw_open : exists r0,
  reader_open sch_ints_ints sch_ints_ints_root_Record exw_bytes = inr r0 /\ rd_tree r0 = ex_t.
Proof. eexists. split; [vm_compute; apply f_equal; apply eq_refl|vm_compute; reflexivity]. Qed.

(* every hypothesis of the composed theorem holds for this stream *)
Example exw_roundtrip : forall r0,
  reader_open sch_ints_ints sch_ints_ints_root_Record exw_bytes = inr r0 ->
  read_all ex_sizes 10 10 10 r0 =
  (exw_recs, stream_values ex_t exw_frames RNil (PM.empty _), Some RdEnd).
Proof.
  intros r0 Hop.
  assert (Ht : rd_tree r0 = ex_t).
  { destruct exw_open as (r & Hr & Ht). rewrite Hr in Hop. inversion Hop; subst. exact Ht. }
  pose proof (w_write_all_roundtrip_open_bytes exw_cfg 4 8 sch_ints_ints sch_ints_ints_root_Record ex_sizes 10 0
                (emit_var_header [] []) ex_t exw_recs r0 10 10) as P.
  cbv zeta in P. rewrite exw_frames_eq in P.
  apply (P eq_refl Hop Ht exw_stream_ok); cbn; lia.
Qed.

(* a schema with a string dictionary: struct Record { string dict(0); uint64 }.
   MaxTotalDictSize = 40, MaxUncompressedFrameByteSize = 4 (32 bits), RestartCodecs.  The strings
   "abc", "de", "fghi" account 19 + 18 + 20 bytes: the limit is reached by the fourth record, the
   dictionaries are cleared and the next frame carries RestartDictionaries (flags 5); in that
   frame "abc" is a new entry again (19 bytes measured on the real encoder state). *)
Definition exd_sc : schema :=
  mkSchema [mkSdef false None [mkField (TPrim PString (Some 0)) false; mkField (TPrim PUint64 None) false]] [].
Definition exd_t : etree := fst (build_root exd_sc 0 None).
Definition exd_rec (s : bytes) (v : N) : wire := WStruct 3 0 [Some (WStr s); Some (WU64 v)].
Definition exd_recs : list wire :=
  [exd_rec [97; 98; 99] 1; exd_rec [97; 98; 99] 2; exd_rec [100; 101] 3; exd_rec [102; 103; 104; 105] 4;
   exd_rec [97; 98; 99] 5; exd_rec [100; 101] 6; exd_rec [120] 7].
Definition exd_cfg : lcfg := mkCfg 4 40 false.
Definition exd_frames : list (N * list wire) :=
  [(0, [exd_rec [97; 98; 99] 1]);
   (4, [exd_rec [97; 98; 99] 2; exd_rec [100; 101] 3]);
   (4, [exd_rec [102; 103; 104; 105] 4]);
   (5, [exd_rec [97; 98; 99] 5]);
   (4, [exd_rec [100; 101] 6]);
   (4, [exd_rec [120] 7])].

Example exd_sizes : w_sizes exd_cfg 4 8 exd_t wst0 exd_recs =
  [(42, 19); (18, 0); (34, 18); (50, 20); (42, 19); (34, 18); (26, 0)].
Proof. vm_compute. reflexivity. Qed.

Example exd_frames_eq : w_write_all exd_cfg 4 8 exd_t wst0 exd_recs = exd_frames.
Proof. vm_compute. reflexivity. Qed.

(* only the dictionary limit (frame limit out of reach): one reset, announced *)
Example exd_frames_dict_only : w_write_all (mkCfg 1000 40 false) 0 8 exd_t wst0 exd_recs =
  [(0, [exd_rec [97; 98; 99] 1; exd_rec [97; 98; 99] 2; exd_rec [100; 101] 3; exd_rec [102; 103; 104; 105] 4]);
   (1, [exd_rec [97; 98; 99] 5; exd_rec [100; 101] 6; exd_rec [120] 7])].
Proof. vm_compute. reflexivity. Qed.

(* FrameRestartFlags with RestartDictionaries: one record per frame, every frame but the first
   flagged *)
Example exd_frames_every : map (fun f => (fst f, length (snd f)))
    (w_write_all (mkCfg 1000 40 true) 5 8 exd_t wst0 exd_recs) =
  [(0, 1%nat); (5, 1%nat); (5, 1%nat); (5, 1%nat); (5, 1%nat); (5, 1%nat); (5, 1%nat)].
Proof. vm_compute. reflexivity. Qed.

Example exd_stream_ok : stream_ok ex_sizes 10 exd_t exd_frames wst0 RNil (PM.empty _) = true.
Proof. vm_compute. reflexivity. Qed.

Definition exd_bytes : source :=
  SrcBytes (emit_frame 0 (emit_var_header [] []) ++ emit_all (stream_encode exd_t wst0 exd_frames)).

Example exd_open : exists r0, reader_open exd_sc 0 exd_bytes = inr r0 /\ rd_tree r0 = exd_t.
Proof. eexists. split; [vm_compute; apply f_equal; apply eq_refl|vm_compute; reflexivity]. Qed.

Example exd_roundtrip : forall r0,
  reader_open exd_sc 0 exd_bytes = inr r0 ->
  read_all ex_sizes 10 8 8 r0 = (exd_recs, stream_values exd_t exd_frames RNil (PM.empty _), Some RdEnd).
Proof.
  intros r0 Hop.
  assert (Ht : rd_tree r0 = exd_t).
  { destruct exd_open as (r & Hr & Ht). rewrite Hr in Hop. inversion Hop; subst. exact Ht. }
  pose proof (w_write_all_roundtrip_open_bytes exd_cfg 4 8 exd_sc 0 ex_sizes 10 0
                (emit_var_header [] []) exd_t exd_recs r0 8 8) as P.
  cbv zeta in P. rewrite exd_frames_eq in P.
  apply (P eq_refl Hop Ht exd_stream_ok); cbn; lia.
Qed.
Print Assumptions exw_roundtrip.
Print Assumptions exd_roundtrip.
