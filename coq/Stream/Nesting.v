(* Nesting guard of the decoders (go/pkg/allocsizechecker.go EnterNested / LeaveNested, called by the
   generated struct, oneof and multimap decoders; reset per record by ResetAllocSize).
   The model: a counter, incremented BEFORE a composite value is decoded and compared with the limit,
   decremented when the decoder returns.  Arrays and primitives do not count ([counted = false]).
   [walk] is the recursion skeleton of a record decode over an arbitrary value tree. *)
From Coq Require Import List NArith Bool Lia.
Import ListNotations.
Open Scope N_scope.

(* go/pkg/limits.go: const RecordNestingLimit = 1 << 16 (compared with the source by tools/check_c03.py) *)
Definition record_nesting_limit : N := 65536.

Definition enter_nested (lim d : N) : option N := if lim <? d + 1 then None else Some (d + 1).
Definition leave_nested (d : N) : N := d - 1.

Inductive vtree := VNode (counted : bool) (kids : list vtree).

Fixpoint walk (lim d : N) (t : vtree) : option N :=
  match t with
  | VNode c ks =>
      match (if c then enter_nested lim d else Some d) with
      | None => None
      | Some d1 =>
          match (fix go (ks : list vtree) (d : N) : option N :=
                   match ks with
                   | [] => Some d
                   | k :: ks' => match walk lim d k with None => None | Some d' => go ks' d' end
                   end) ks d1 with
          | None => None
          | Some d2 => Some (if c then leave_nested d2 else d2)
          end
      end
  end.

Fixpoint walks (lim d : N) (ks : list vtree) : option N :=
  match ks with
  | [] => Some d
  | k :: ks' => match walk lim d k with None => None | Some d' => walks lim d' ks' end
  end.

(* number of counted nodes on the deepest path *)
Fixpoint cdepth (t : vtree) : N :=
  match t with
  | VNode c ks => (if c then 1 else 0) + fold_right (fun k m => N.max (cdepth k) m) 0 ks
  end.
Definition cdepths (ks : list vtree) : N := fold_right (fun k m => N.max (cdepth k) m) 0 ks.
