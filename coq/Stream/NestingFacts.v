(* Facts about the nesting guard: a record decode over any value tree succeeds exactly when the number
   of counted (struct / oneof / multimap) values on its deepest path fits under the limit, the counter
   is balanced (back to its start value), and it fails BEFORE the recursion goes deeper otherwise. *)
From Coq Require Import List NArith Bool Lia.
From Stef Require Import Nesting.
Import ListNotations.
Open Scope N_scope.

Section Ind.
  Variable P : vtree -> Prop.
  Hypothesis H : forall c ks, Forall P ks -> P (VNode c ks).
  Fixpoint vtree_ind' (t : vtree) : P t :=
    match t with
    | VNode c ks => H c ks ((fix f (ks : list vtree) : Forall P ks :=
        match ks return Forall P ks with
        | [] => Forall_nil _
        | k :: ks' => Forall_cons _ (vtree_ind' k) (f ks')
        end) ks)
    end.
End Ind.

Lemma walk_unfold : forall lim d c ks, walk lim d (VNode c ks) =
  match (if c then enter_nested lim d else Some d) with
  | None => None
  | Some d1 => match walks lim d1 ks with
               | None => None
               | Some d2 => Some (if c then leave_nested d2 else d2)
               end
  end.
Proof.
  intros lim d c ks. cbn [walk].
  destruct (if c then enter_nested lim d else Some d) as [d1|]; [|reflexivity].
  match goal with |- match ?f ks d1 with _ => _ end = _ =>
    assert (E : forall ks d, f ks d = walks lim d ks) end.
  { clear. induction ks as [|k ks IH]; intro d; [reflexivity|].
    simpl. destruct (walk lim d k); [apply IH|reflexivity]. }
  rewrite E. reflexivity.
Qed.

Lemma cdepth_unfold : forall c ks, cdepth (VNode c ks) = (if c then 1 else 0) + cdepths ks.
Proof. reflexivity. Qed.

Definition walk_char (t : vtree) : Prop :=
  forall lim d, d <= lim -> walk lim d t = if d + cdepth t <=? lim then Some d else None.

Lemma cdepths_cons : forall k ks, cdepths (k :: ks) = N.max (cdepth k) (cdepths ks).
Proof. reflexivity. Qed.

Lemma walks_char : forall ks, Forall walk_char ks ->
  forall lim d, d <= lim -> walks lim d ks = if d + cdepths ks <=? lim then Some d else None.
Proof.
  induction ks as [|k ks IH]; intros HF lim d Hd.
  - cbn [walks]. change (cdepths []) with 0.
    destruct (N.leb_spec (d + 0) lim) as [_|Hgt]; [reflexivity|lia].
  - inversion HF as [|k' ks' Hk Hks]; subst. cbn [walks]. rewrite (Hk lim d Hd), cdepths_cons.
    destruct (N.leb_spec (d + cdepth k) lim) as [H1|H1].
    + rewrite (IH Hks lim d Hd).
      destruct (N.leb_spec (d + cdepths ks) lim) as [H2|H2];
        destruct (N.leb_spec (d + N.max (cdepth k) (cdepths ks)) lim) as [H3|H3]; try reflexivity; lia.
    + destruct (N.leb_spec (d + N.max (cdepth k) (cdepths ks)) lim) as [H3|H3]; [lia|reflexivity].
Qed.

Theorem walk_characterisation : forall t, walk_char t.
Proof.
  induction t as [c ks HF] using vtree_ind'. intros lim d Hd.
  rewrite walk_unfold, cdepth_unfold. destruct c.
  - unfold enter_nested, leave_nested.
    destruct (N.ltb_spec lim (d + 1)) as [H1|H1].
    + destruct (N.leb_spec (d + (1 + cdepths ks)) lim) as [H2|H2]; [lia|reflexivity].
    + rewrite (walks_char ks HF lim (d + 1) H1).
      destruct (N.leb_spec (d + 1 + cdepths ks) lim) as [H2|H2];
        destruct (N.leb_spec (d + (1 + cdepths ks)) lim) as [H3|H3]; try lia; try reflexivity.
      f_equal. lia.
  - rewrite (walks_char ks HF lim d Hd). rewrite N.add_0_l.
    destruct (d + cdepths ks <=? lim); reflexivity.
Qed.

(* a record decode starts with the counter at zero (ResetAllocSize) *)
Corollary decode_record_nesting : forall lim t,
  walk lim 0 t = if cdepth t <=? lim then Some 0 else None.
Proof. intros lim t. rewrite (walk_characterisation t lim 0 (N.le_0_l lim)). reflexivity. Qed.

Corollary walk_balanced : forall t lim d d', d <= lim -> walk lim d t = Some d' -> d' = d.
Proof.
  intros t lim d d' Hd H. rewrite (walk_characterisation t lim d Hd) in H.
  destruct (d + cdepth t <=? lim); congruence.
Qed.

Example nesting_nonvacuous :
  let t := VNode true [VNode false [VNode true []; VNode true [VNode true []]]] in
  cdepth t = 3 /\ walk 3 0 t = Some 0 /\ walk 2 0 t = None.
Proof. vm_compute. repeat split. Qed.


(* Bound on the Go recursion depth.  [vheight] counts every active decoder call, counted or not.  In a
   schema the uncounted levels (arrays, dictionary indirection) come in runs whose length is bounded
   by the type expression ([k]: a recursive type has to pass through a named struct or oneof); then
   the guard bounds the recursion depth itself, not only the counted part of it. *)
Fixpoint vheight (t : vtree) : N :=
  match t with VNode _ ks => 1 + fold_right (fun k m => N.max (vheight k) m) 0 ks end.
Definition vheights (ks : list vtree) : N := fold_right (fun k m => N.max (vheight k) m) 0 ks.

Fixpoint runs_ok (k j : nat) (t : vtree) {struct t} : bool :=
  match t with
  | VNode true ks => forallb (runs_ok k k) ks
  | VNode false ks => match j with O => false | S j' => forallb (runs_ok k j') ks end
  end.

Theorem height_bound : forall t k j, runs_ok k j t = true ->
  vheight t <= (N.of_nat k + 1) * cdepth t + N.of_nat j.
Proof.
  induction t as [c ks HF] using vtree_ind'. intros k j Hok.
  change (vheight (VNode c ks)) with (1 + vheights ks). rewrite cdepth_unfold.
  destruct c.
  - cbn [runs_ok] in Hok. rewrite forallb_forall in Hok.
    assert (HB : vheights ks <= N.of_nat k + (N.of_nat k + 1) * cdepths ks).
    { clear -HF Hok. induction HF as [|t ks Ht _ IH]; unfold vheights, cdepths in *; cbn [fold_right]; [lia|].
      assert (H1 := Ht k k (Hok t (or_introl eq_refl))).
      assert (H2 := IH (fun x Hx => Hok x (or_intror Hx))). nia. }
    nia.
  - destruct j as [|j']; cbn [runs_ok] in Hok; [discriminate|]. rewrite forallb_forall in Hok.
    assert (HB : vheights ks <= N.of_nat j' + (N.of_nat k + 1) * cdepths ks).
    { clear -HF Hok. induction HF as [|t ks Ht _ IH]; unfold vheights, cdepths in *; cbn [fold_right]; [lia|].
      assert (H1 := Ht k j' (Hok t (or_introl eq_refl))).
      assert (H2 := IH (fun x Hx => Hok x (or_intror Hx))). nia. }
    lia.
Qed.

(* an accepted record never drives the recursion deeper than (k+1) * limit + k + 1 calls *)
Corollary accepted_height_bound : forall t lim k, runs_ok k (S k) t = true -> walk lim 0 t = Some 0 ->
  vheight t <= (N.of_nat k + 1) * lim + N.of_nat k + 1.
Proof.
  intros t lim k Hr Hw. rewrite decode_record_nesting in Hw.
  destruct (N.leb_spec (cdepth t) lim) as [Hc|Hc]; [|discriminate].
  assert (H := height_bound t k (S k) Hr). nia.
Qed.

Example vheight_nonvacuous :
  let t := VNode true [VNode false [VNode true []; VNode true [VNode true []]]] in
  runs_ok 1 2 t = true /\ vheight t = 4 /\ walk 3 0 t = Some 0.
Proof. vm_compute. repeat split. Qed.

(* The skeleton of a decoded wire tree: struct, oneof and multimap decoders call EnterNested;
   array decoders and the dictionary indirection do not. *)
From Stef Require Import Wire.
Fixpoint vtree_of_wire (w : wire) : vtree :=
  match w with
  | WStruct _ _ fs => VNode true (map (fun o => match o with Some x => vtree_of_wire x | None => VNode false [] end) fs)
  | WDictFull s => VNode false [vtree_of_wire s]
  | WOneof _ (Some x) => VNode true [vtree_of_wire x]
  | WOneof _ None => VNode true []
  | WArr es => VNode false (map vtree_of_wire es)
  | WMapFull kvs => VNode true (map (fun kv => VNode false [vtree_of_wire (fst kv); vtree_of_wire (snd kv)]) kvs)
  | WMapVals _ vs => VNode true (map vtree_of_wire vs)
  | _ => VNode false []
  end.
Definition wire_nesting (w : wire) : N := cdepth (vtree_of_wire w).

Theorem record_nesting_guard : forall w,
  walk record_nesting_limit 0 (vtree_of_wire w) =
  if wire_nesting w <=? record_nesting_limit then Some 0 else None.
Proof. intro w. apply decode_record_nesting. Qed.
