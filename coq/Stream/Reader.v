(* The generated Reader (reader.go.tmpl + basereader.go) as a state machine over an
   uncompressed byte stream, or over a list of already-decompressed frames (zstd streams are
   decompressed by the harness with the library's own zstd reader and handed over frame by frame). *)
From Coq Require Import List NArith ZArith Bool PArith Lia FMapPositive.
From Stef Require Import Bits BitIO Varint Codecs Schema Wire Apply Frame.
Import ListNotations.
Open Scope N_scope.

Inductive source :=
| SrcBytes (bs : bytes)                        (* raw stream after the fixed header, compression none *)
| SrcFrames (fs : list (N * bytes)) (trunc : bool).  (* (flags, uncompressed content); trunc: the input ended inside a later frame *)

Definition next_frame (s : source) : perr + (N * bytes * source) :=
  match s with
  | SrcBytes bs =>
    match parse_frame bs with
    | inl e => inl e
    | inr (fl, c, r) => inr (fl, c, SrcBytes r)
    end
  | SrcFrames [] trunc => inl (if trunc then PTrunc else PEnd)
  | SrcFrames ((fl, c) :: r) trunc =>
    if 8 <=? fl then inl (PBad EInvalid)
    else if frame_size_limit <? N.of_nat (length c) then inl (PBad ELimit)
    else inr (fl, c, SrcFrames r trunc)
  end.

Record reader := mkReader {
  rd_tree : etree;
  rd_src : source;
  rd_left : N;                 (* FrameRecordCount *)
  rd_count : N;                (* RecordCount *)
  rd_st : rst;
  rd_td : tdicts;
  rd_rec : rnode;
  rd_wire_schema : option (list N);
  rd_user_data : list (bytes * bytes);
}.

(* Continue(): every column of the tree gets the frame's data (empty when absent);
   codec state is kept unless RestartCodecs; dictionaries unless RestartDictionaries *)
Definition col_lookup (cols : list (positive * bytes)) (c : positive) : bytes :=
  match find (fun x => Pos.eqb (fst x) c) cols with Some (_, d) => d | None => [] end.

Fixpoint load_cols (fuel : nat) (t : etree) (cols : list (positive * bytes)) (restart : bool)
         (m : PM.t rcol) (old : PM.t rcol) : PM.t rcol :=
  match fuel with
  | O => m
  | S f =>
    match tree_col t with
    | None => m
    | Some c =>
      let d := col_lookup cols c in
      let o := match PM.find c old with Some x => x | None => rcol0 end in
      let x := mkRcol (br_init d) d (if restart then u64_init else rc_u o)
                      (if restart then f64_init else rc_f o) in
      fold_left (fun m ch => load_cols f ch cols restart m old) (tree_children t) (PM.add c x m)
    end
  end.

Definition flag_dicts (fl : N) : bool := N.testbit fl 0.
Definition flag_codecs (fl : N) : bool := N.testbit fl 2.

(* the wire schema of the generated code itself: struct field counts in first-encounter order *)
Definition own_counts (sc : schema) (root : N) : list N :=
  rev (map snd (i_memo (snd (build_root sc root None)))).

Definition sum_counts (l : list N) : N := fold_left N.add l 0.

(* WireSchema.Compatible as coded: lengths first, then the SUMS of the field counts; with equal
   sums the counts must be equal one by one (diverged schemas are refused) *)
Fixpoint counts_eqb (a b : list N) : bool :=
  match a, b with
  | [], [] => true
  | x :: a', y :: b' => (x =? y) && counts_eqb a' b'
  | _, _ => false
  end.

Definition compatible (own other : list N) : bool :=
  if (length other <? length own)%nat then true
  else if (length own <? length other)%nat then false
  else if sum_counts other <? sum_counts own then true
  else if sum_counts own <? sum_counts other then false
  else counts_eqb own other.

Inductive read_result :=
| RdRecord (r : reader) (w : wire)
| RdEndOfFrame (r : reader)
| RdEnd                                   (* clean end of stream *)
| RdErr (trunc : bool) (e : derr).

Section Reader.
  Variable sc : schema.
  Variable root : N.
  Variable sizes : N -> N.
  Variable fuel : nat.

  (* New<Root>Reader after the fixed header: var header frame, schema check, Init *)
  Definition reader_open (src : source) : perr + reader :=
    match next_frame src with
    | inl PEnd => inl PTrunc
    | inl e => inl e
    | inr (fl, content, src') =>
      if var_hdr_limit <? N.of_nat (length content) then inl (PBad ELimit)
      else
        match parse_var_header content with
        | inl e => inl (PBad e)
        | inr (schema_bytes, ud) =>
          let finish (over : option (list N)) :=
            let '(t, ist) := build_root sc root over in
            if i_err ist || negb (all_fetched ist) then inl (PBad EInvalid)
            else inr (mkReader t src' 0 0 rst0 (PM.empty _) RNil over ud) in
          match schema_bytes with
          | [] => finish None
          | _ =>
            match parse_wire_schema schema_bytes with
            | inl e => inl (PBad e)
            | inr counts =>
              if compatible (own_counts sc root) counts then finish (Some counts)
              else inl (PBad EInvalid)
            end
          end
        end
    end.

  Definition reader_next_frame (r : reader) : perr + reader :=
    match next_frame (rd_src r) with
    | inl e => inl e
    | inr (fl, content, src') =>
      match parse_data_frame (rd_tree r) content with
      | inl e => inl (PBad e)
      | inr (nrec, cols) =>
        let st := rd_st r in
        let cm := load_cols tree_fuel (rd_tree r) cols (flag_codecs fl) (PM.empty _) (r_cols st) in
        let st' := if flag_dicts fl then mkRst cm (PM.empty _) (PM.empty _) 0
                   else mkRst cm (r_sdict st) (r_tlen st) 0 in
        let td' := if flag_dicts fl then PM.empty _ else rd_td r in
        inr (mkReader (rd_tree r) src' nrec (rd_count r) st' td' (rd_rec r) (rd_wire_schema r) (rd_user_data r))
      end
    end.

  (* Read(opts): loop over frames until one has records *)
  Fixpoint reader_read (k : nat) (till_end_of_frame : bool) (r : reader) : read_result :=
    match k with
    | O => RdErr false EOther
    | S k' =>
      if rd_left r =? 0 then
        if till_end_of_frame then RdEndOfFrame r
        else match reader_next_frame r with
             | inl PEnd => RdEnd
             | inl PTrunc => RdErr true EEof
             | inl (PBad e) => RdErr false e
             | inr r' => reader_read k' till_end_of_frame r'
             end
      else
        let st := rd_st r in
        let st := mkRst (r_cols st) (r_sdict st) (r_tlen st) 0 in
        match dec sizes fuel [] (rd_tree r) (rd_rec r) st with
        | Err e => RdErr false e
        | Ok (st', w) =>
          let '(td', v) := apply [] (rd_tree r) (rd_rec r) w (rd_td r) in
          RdRecord (mkReader (rd_tree r) (rd_src r) (rd_left r - 1) (rd_count r + 1) st' td' v
                             (rd_wire_schema r) (rd_user_data r)) w
        end
    end.
End Reader.
