(* Facts about the reader state machine used by C06: a frame-bounded read never consults the
   source; end of input at a frame boundary leaves the reader untouched. *)
From Coq Require Import List NArith ZArith Bool PArith Lia FMapPositive.
From Stef Require Import Bits BitIO Varint Codecs Schema Wire Apply Frame FrameFacts Reader.
Import ListNotations.
Open Scope N_scope.

Definition with_src (r : reader) (s : source) : reader :=
  mkReader (rd_tree r) s (rd_left r) (rd_count r) (rd_st r) (rd_td r) (rd_rec r)
           (rd_wire_schema r) (rd_user_data r).

Definition result_with_src (x : read_result) (s : source) : read_result :=
  match x with
  | RdRecord r w => RdRecord (with_src r s) w
  | RdEndOfFrame r => RdEndOfFrame (with_src r s)
  | other => other
  end.

(* Read{TillEndOfFrame}: the result is the same whatever the source holds, and the source is
   handed back untouched *)
Theorem bounded_read_ignores_source : forall sizes fuel k r s,
  reader_read sizes fuel k true (with_src r s) = result_with_src (reader_read sizes fuel k true r) s.
Proof.
  intros sizes fuel k r s. destruct k as [|k]; [reflexivity|].
  cbn [reader_read with_src rd_left rd_st rd_tree rd_rec rd_td rd_src rd_count rd_wire_schema rd_user_data].
  destruct (rd_left r =? 0); [reflexivity|].
  destruct (dec sizes fuel [] (rd_tree r) (rd_rec r) _) as [[st' w]|e]; [|reflexivity].
  destruct (apply [] (rd_tree r) (rd_rec r) w (rd_td r)) as [td' v]. reflexivity.
Qed.

Theorem bounded_read_end_of_frame : forall sizes fuel k r, rd_left r = 0 ->
  reader_read sizes fuel (S k) true r = RdEndOfFrame r.
Proof. intros sizes fuel k r H. cbn [reader_read]. rewrite H. reflexivity. Qed.

(* a record is only ever returned from the loaded frame: with records left, no frame is loaded *)
Theorem read_uses_loaded_frame : forall sizes fuel k tef r r' w, rd_left r <> 0 ->
  reader_read sizes fuel (S k) tef r = RdRecord r' w ->
  rd_src r' = rd_src r /\ rd_left r' = rd_left r - 1 /\ rd_count r' = rd_count r + 1.
Proof.
  intros sizes fuel k tef r r' w Hl H. cbn [reader_read] in H.
  destruct (N.eqb_spec (rd_left r) 0); [contradiction|].
  destruct (dec sizes fuel [] (rd_tree r) (rd_rec r) _) as [[st' w']|e]; [|discriminate].
  destruct (apply [] (rd_tree r) (rd_rec r) w' (rd_td r)) as [td' v].
  inversion H; subst. cbn. repeat split; reflexivity.
Qed.

(* end of input exactly at a frame boundary: reported as end of stream, no state is produced, so
   the caller's reader is unchanged and can continue when more frames arrive *)
Theorem end_at_boundary : forall sizes fuel k r, rd_left r = 0 ->
  next_frame (rd_src r) = inl PEnd ->
  reader_read sizes fuel (S k) false r = RdEnd.
Proof.
  intros sizes fuel k r Hl Hn. cbn [reader_read]. rewrite Hl. cbn.
  unfold reader_next_frame. rewrite Hn. reflexivity.
Qed.

(* appending bytes after a clean end makes the next frame available: next_frame on the
   concatenation of an exhausted source and a frame yields that frame *)
Theorem resume_after_append : forall fl content rest,
  frame_ok fl content ->
  next_frame (SrcBytes ([] ++ emit_frame fl content ++ rest)) = inr (fl, content, SrcBytes rest).
Proof.
  intros fl content rest Hok. cbn [app next_frame].
  rewrite parse_frame_emit by assumption. reflexivity.
Qed.
