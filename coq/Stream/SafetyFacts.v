(* Resource and progress facts used by C03: every length the reader allocates for is checked
   against a limit before use, and every frame consumes input. *)
From Coq Require Import List NArith ZArith Bool Lia.
From Stef Require Import Bits BitIO Varint VarintFacts Codecs Schema Wire Frame FrameFacts.
Import ListNotations.
Open Scope N_scope.

Lemma take_length : forall n bs a r, take n bs = Some (a, r) ->
  N.of_nat (length a) = n /\ length bs = (length a + length r)%nat.
Proof.
  intros n bs a r H. unfold take in H. destruct (N.leb_spec n (N.of_nat (length bs))); [|discriminate].
  inversion H; subst. rewrite firstn_length, skipn_length. split; lia.
Qed.

(* LEB128 decoding consumes at least one byte *)
Lemma leb_dec_loop_consumes : forall fuel i x s l v r,
  leb_dec_loop fuel i x s l = Some (v, r) -> (length r < length l)%nat.
Proof.
  induction fuel as [|f IH]; intros i x s l v r H; [discriminate|].
  cbn [leb_dec_loop] in H. destruct l as [|b l']; [discriminate|].
  destruct (Nat.eqb i 10); [discriminate|].
  destruct (b <? 128).
  - destruct ((Nat.eqb i 9) && (1 <? b))%bool; [discriminate|]. inversion H; subst. cbn. lia.
  - apply IH in H. cbn [length]. lia.
Qed.

Lemma read_uvarint_consumes : forall bs v r, read_uvarint bs = Some (v, r) -> (length r < length bs)%nat.
Proof. intros bs v r H. unfold read_uvarint, leb_dec in H. eapply leb_dec_loop_consumes; eassumption. Qed.

(* every accepted frame consumes at least its flags byte and size varint: reading frames
   terminates after at most (length of input) frames, whatever the bytes are *)
Theorem parse_frame_progress : forall bs fl c rest,
  parse_frame bs = inr (fl, c, rest) -> (length rest + 2 <= length bs)%nat.
Proof.
  intros bs fl c rest H. unfold parse_frame in H.
  destruct bs as [|b r]; [discriminate|].
  destruct (8 <=? b); [discriminate|].
  destruct (read_uvarint r) as [[usize r1]|] eqn:Hu; [|discriminate].
  destruct (frame_size_limit <? usize); [discriminate|].
  destruct (take usize r1) as [[content r2]|] eqn:Ht; [|discriminate].
  inversion H; subst. apply read_uvarint_consumes in Hu. apply take_length in Ht. destruct Ht as [_ Hl].
  cbn [length]. lia.
Qed.

(* ... and its content never exceeds FrameSizeLimit: nothing larger is ever buffered for a frame *)
Theorem parse_frame_size_bound : forall bs fl c rest,
  parse_frame bs = inr (fl, c, rest) -> N.of_nat (length c) <= frame_size_limit /\ fl < 8.
Proof.
  intros bs fl c rest H. unfold parse_frame in H.
  destruct bs as [|b r]; [discriminate|].
  destruct (N.leb_spec 8 b); [discriminate|].
  destruct (read_uvarint r) as [[usize r1]|]; [|discriminate].
  destruct (N.ltb_spec frame_size_limit usize); [discriminate|].
  destruct (take usize r1) as [[content r2]|] eqn:Ht; [|discriminate].
  inversion H; subst. apply take_length in Ht. destruct Ht as [Hn _]. split; lia.
Qed.

Lemma parse_counts_length : forall n bs acc l, parse_counts n bs acc = Some l -> length l = (length acc + n)%nat.
Proof.
  induction n as [|n IH]; intros bs acc l H; cbn [parse_counts] in H.
  - inversion H; subst. lia.
  - destruct (read_uvarint bs) as [[c r]|]; [|discriminate]. apply IH in H. rewrite app_length in H. cbn in H. lia.
Qed.

(* a wire schema with more than 1024 structs is refused before anything is allocated for it *)
Theorem parse_wire_schema_bound : forall bs l, parse_wire_schema bs = inr l -> N.of_nat (length l) <= max_struct_count.
Proof.
  intros bs l H. unfold parse_wire_schema in H.
  destruct (read_uvarint bs) as [[cnt r]|]; [|discriminate].
  destruct (N.ltb_spec max_struct_count cnt); [discriminate|].
  destruct (parse_counts (N.to_nat cnt) r []) as [l'|] eqn:Hp; [|discriminate].
  inversion H; subst. apply parse_counts_length in Hp. cbn [length] in Hp. lia.
Qed.

Lemma parse_user_data_length : forall n bs acc l, parse_user_data n bs acc = inr l -> length l = (length acc + n)%nat.
Proof.
  induction n as [|n IH]; intros bs acc l H; cbn [parse_user_data] in H.
  - inversion H; subst. lia.
  - destruct (parse_string bs) as [e|[k r]]; [discriminate|].
    destruct (parse_string r) as [e|[v r2]]; [discriminate|].
    apply IH in H. rewrite app_length in H. cbn in H. lia.
Qed.

Lemma buf_read_length : forall n bs a r, buf_read n bs = Some (a, r) -> N.of_nat (length a) = n.
Proof.
  intros n bs a r H. unfold buf_read in H. destruct (N.eqb_spec n 0).
  - inversion H; subst. reflexivity.
  - destruct bs as [|b bs']; [discriminate|]. inversion H; subst.
    rewrite app_length, firstn_length, repeat_length.
    set (L := length (b :: bs')).
    replace (N.pos (Pos.of_succ_nat (length bs'))) with (N.of_nat L) by reflexivity.
    destruct (N.le_gt_cases n (N.of_nat L)); [rewrite N.min_l by assumption|rewrite N.min_r by lia]; lia.
Qed.

(* variable header: schema bytes <= 1 MiB, at most 1024 user data pairs, each string <= 256 bytes *)
Theorem parse_var_header_bounds : forall content schema ud, parse_var_header content = inr (schema, ud) ->
  N.of_nat (length schema) <= max_schema_wire_bytes /\ N.of_nat (length ud) <= max_user_data.
Proof.
  intros content schema ud H. unfold parse_var_header in H.
  destruct (read_uvarint content) as [[slen r]|]; [|discriminate].
  destruct (N.ltb_spec max_schema_wire_bytes slen); [discriminate|].
  destruct (buf_read slen r) as [[sb r1]|] eqn:Hb; [|discriminate].
  destruct (read_uvarint r1) as [[cnt r2]|]; [|discriminate].
  destruct (N.ltb_spec max_user_data cnt); [discriminate|].
  destruct (parse_user_data (N.to_nat cnt) r2 []) as [e|l] eqn:Hp; [discriminate|].
  inversion H; subst. apply buf_read_length in Hb. apply parse_user_data_length in Hp. cbn [length] in Hp. split; lia.
Qed.

Theorem parse_string_bound : forall bs s r, parse_string bs = inr (s, r) -> N.of_nat (length s) <= max_string_len.
Proof.
  intros bs s r H. unfold parse_string in H.
  destruct (read_uvarint bs) as [[l r1]|]; [|discriminate].
  destruct (N.ltb_spec max_string_len l); [discriminate|].
  destruct (buf_read l r1) as [[a r2]|] eqn:Hb; [|discriminate].
  inversion H; subst. apply buf_read_length in Hb. lia.
Qed.

(* the column size table never hands out more bytes than the frame holds *)
Lemma split_cols_total : forall sizes bs acc cols, split_cols sizes bs acc = Some cols ->
  (fold_left (fun a x => a + N.to_nat (snd x)) sizes 0 <= length bs)%nat.
Proof.
  assert (G : forall sizes bs acc cols k, split_cols sizes bs acc = Some cols ->
             (fold_left (fun a x => a + N.to_nat (snd x)) sizes k <= k + length bs)%nat).
  { induction sizes as [|[c sz] r IH]; intros bs acc cols k H; cbn [split_cols fold_left] in *; [lia|].
    destruct (take sz bs) as [[d bs']|] eqn:Ht; [|discriminate].
    apply take_length in Ht. destruct Ht as [Hn Hl]. apply (IH _ _ _ (k + N.to_nat sz)%nat) in H. cbn [snd]. lia. }
  intros. eapply (G sizes bs acc cols 0%nat). eassumption.
Qed.
