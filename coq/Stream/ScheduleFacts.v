(* C07 at the level of the reader: decoding is independent of how the source splits its reads.

   Stream/Source.v models an io.Reader as data + a schedule of read sizes; Props/C07.v proves
   that io.ReadFull ([read_full]) is schedule independent.  Here the reader itself runs over
   such a source:
     sched_read_byte / sched_uvarint   ReadByte and binary.ReadUvarint: one byte at a time, each
                                       obtained with [read_full _ _ 1]
     sched_fixed_header                BaseReader.ReadFixedHeader (signature and content with
                                       io.ReadFull since the repair b6b6ebd)
     sched_next_frame                  FrameDecoder.Next + the frame content with [read_full]
     next_frame_sched                  = Frame.parse_frame / Reader.next_frame (SrcBytes _) on the
                                       data of the source, same remaining data, for every schedule
     sched_reader                      Reader.reader state + a scheduled source
     reader_next_frame_sched / reader_read_sched / read_all_sched / reader_open_sched
                                       the reader of Reader.v over the scheduled source
     reader_read_sched_agrees, read_all_sched_agrees, reader_open_sched_agrees
                                       simulation: the same records / results as the reader over
                                       [SrcBytes], related remaining sources
     read_all_sched_independent        two schedules over the same data: the same result

   Fuel: [rf] is the fuel of [Source.read_full]; it has to exceed the length of the data that is
   left (Source.read_full_spec), every schedule entry makes progress (Source.read_once reads
   max 1 k bytes).  Reader.v is not modified: its [rd_src] field is a fixed inductive, so the
   scheduled reader is a pair (reader state, scheduled source) and [sr_view] is the reader it
   simulates. *)
From Coq Require Import List NArith ZArith Bool PArith Lia FMapPositive Arith.
From Coq Require Import ZifyN ZifyNat ZifyBool.
From Stef Require Import Bits BitIO Varint Codecs Schema Schemas Wire Apply Frame FrameFacts Reader
     ReaderFacts Source StreamFactsBase StreamFacts.
Import ListNotations.
Open Scope N_scope.

(* ------------------------------------------------------------------ bytes and varints *)
(* ReadByte over the source: io.ReadFull of one byte *)
Definition sched_read_byte (rf : nat) (s : src) : option (N * src) :=
  match read_full rf s 1 with
  | ([b], s') => Some (b, s')
  | _ => None
  end.

(* binary.ReadUvarint over the source: [Varint.leb_dec_loop] with every byte read from it *)
Fixpoint sched_uvarint_loop (fuel : nat) (rf : nat) (i : nat) (x sh : N) (s : src) : option (N * src) :=
  match fuel with
  | O => None
  | S f =>
    match sched_read_byte rf s with
    | None => None
    | Some (b, s') =>
      if (i =? 10)%nat then None
      else if b <? 128 then
        if ((i =? 9)%nat && (1 <? b))%bool then None
        else Some (x + b * 2 ^ sh, s')
      else sched_uvarint_loop f rf (S i) (x + (b mod 128) * 2 ^ sh) (sh + 7) s'
    end
  end.
Definition sched_uvarint (rf : nat) (s : src) : option (N * src) := sched_uvarint_loop 11 rf 0 0 0 s.

Lemma sched_read_byte_spec : forall rf s, (length (s_data s) < rf)%nat ->
  match sched_read_byte rf s with
  | None => s_data s = []
  | Some (b, s') => s_data s = b :: s_data s'
  end.
Proof.
  intros rf s Hf. unfold sched_read_byte.
  pose proof (read_full_spec rf s 1 Hf) as H.
  destruct (read_full rf s 1) as [b s']. destruct H as [Hb Hs].
  destruct (s_data s) as [|x xs].
  - cbn in Hb. subst b. reflexivity.
  - cbn in Hb, Hs. subst b. rewrite Hs. reflexivity.
Qed.

Lemma sched_uvarint_loop_spec : forall fuel rf i x sh s, (length (s_data s) < rf)%nat ->
  match sched_uvarint_loop fuel rf i x sh s with
  | None => leb_dec_loop fuel i x sh (s_data s) = None
  | Some (v, s') => leb_dec_loop fuel i x sh (s_data s) = Some (v, s_data s') /\
                    (length (s_data s') <= length (s_data s))%nat
  end.
Proof.
  induction fuel as [|f IH]; intros rf i x sh s Hf; [reflexivity|].
  cbn [sched_uvarint_loop leb_dec_loop].
  pose proof (sched_read_byte_spec rf s Hf) as Hb.
  destruct (sched_read_byte rf s) as [[b s']|]; [|rewrite Hb; reflexivity].
  rewrite Hb. destruct (i =? 10)%nat; [reflexivity|].
  destruct (b <? 128).
  - destruct ((i =? 9)%nat && (1 <? b))%bool; [reflexivity|].
    split; [reflexivity|cbn [length]; lia].
  - assert (Hf' : (length (s_data s') < rf)%nat) by (rewrite Hb in Hf; cbn [length] in Hf; lia).
    specialize (IH rf (S i) (x + b mod 128 * 2 ^ sh) (sh + 7) s' Hf').
    destruct (sched_uvarint_loop f rf (S i) _ _ s') as [[v s'']|]; [|exact IH].
    destruct IH as [IH1 IH2]. split; [exact IH1|cbn [length]; lia].
Qed.

Lemma sched_uvarint_spec : forall rf s, (length (s_data s) < rf)%nat ->
  match sched_uvarint rf s with
  | None => read_uvarint (s_data s) = None
  | Some (v, s') => read_uvarint (s_data s) = Some (v, s_data s') /\
                    (length (s_data s') <= length (s_data s))%nat
  end.
Proof. intros rf s Hf. exact (sched_uvarint_loop_spec 11 rf 0 0 0 s Hf). Qed.

(* io.ReadFull of n bytes: all of them or "unexpected EOF" *)
Definition sched_take (rf : nat) (n : N) (s : src) : option (bytes * src) :=
  let '(c, s') := read_full rf s (N.to_nat n) in
  if N.of_nat (length c) <? n then None else Some (c, s').

Lemma sched_take_spec : forall rf n s, (length (s_data s) < rf)%nat ->
  match sched_take rf n s with
  | None => take n (s_data s) = None
  | Some (c, s') => take n (s_data s) = Some (c, s_data s') /\
                    (length (s_data s') <= length (s_data s))%nat
  end.
Proof.
  intros rf n s Hf. unfold sched_take, take.
  pose proof (read_full_spec rf s (N.to_nat n) Hf) as H.
  destruct (read_full rf s (N.to_nat n)) as [c s']. destruct H as [Hc Hs].
  subst c. rewrite firstn_length.
  destruct (N.ltb_spec (N.of_nat (Nat.min (N.to_nat n) (length (s_data s)))) n) as [Hlt|Hge].
  - destruct (N.leb_spec n (N.of_nat (length (s_data s)))); [lia|reflexivity].
  - destruct (N.leb_spec n (N.of_nat (length (s_data s)))); [|lia].
    rewrite Hs. split; [reflexivity|]. rewrite skipn_length. lia.
Qed.

(* ------------------------------------------------------------------ the fixed header *)
(* BaseReader.ReadFixedHeader: io.ReadFull of the signature, ReadUvarint, io.ReadFull of the content *)
Definition sched_fixed_header (rf : nat) (s : src) : perr + (N * src) :=
  match sched_take rf 4 s with
  | None => inl PTrunc
  | Some (sig, s1) =>
    if negb (bytes_eqb sig signature) then inl (PBad EInvalid)
    else match sched_uvarint rf s1 with
         | None => inl PTrunc
         | Some (sz, s2) =>
           if (sz <? 2) || (fixed_hdr_limit <? sz) then inl (PBad EInvalid)
           else match sched_take rf sz s2 with
                | None => inl PTrunc
                | Some (content, s3) =>
                  let ver := nth 0 content 0 mod 16 in
                  let compr := nth 1 content 0 mod 4 in
                  if negb (ver =? 0) then inl (PBad EInvalid)
                  else if 2 <=? compr then inl (PBad EInvalid)
                  else inr (compr, s3)
                end
         end
  end.

Definition forget_hdr (x : perr + (N * src)) : perr + (N * bytes) :=
  match x with inl e => inl e | inr (c, s) => inr (c, s_data s) end.

Theorem fixed_header_sched : forall rf s, (length (s_data s) < rf)%nat ->
  forget_hdr (sched_fixed_header rf s) = parse_fixed_header (s_data s).
Proof.
  intros rf s Hf. unfold sched_fixed_header, parse_fixed_header.
  pose proof (sched_take_spec rf 4 s Hf) as H1.
  destruct (sched_take rf 4 s) as [[sig s1]|]; [|rewrite H1; reflexivity].
  destruct H1 as [H1 L1]. rewrite H1.
  destruct (negb (bytes_eqb sig signature)); [reflexivity|].
  assert (Hf1 : (length (s_data s1) < rf)%nat) by lia.
  pose proof (sched_uvarint_spec rf s1 Hf1) as H2.
  destruct (sched_uvarint rf s1) as [[sz s2]|]; [|rewrite H2; reflexivity].
  destruct H2 as [H2 L2]. rewrite H2.
  destruct ((sz <? 2) || (fixed_hdr_limit <? sz)); [reflexivity|].
  assert (Hf2 : (length (s_data s2) < rf)%nat) by lia.
  pose proof (sched_take_spec rf sz s2 Hf2) as H3.
  destruct (sched_take rf sz s2) as [[content s3]|]; [|rewrite H3; reflexivity].
  destruct H3 as [H3 L3]. rewrite H3. cbv zeta.
  destruct (negb (nth 0 content 0 mod 16 =? 0)); [reflexivity|].
  destruct (2 <=? nth 1 content 0 mod 4); reflexivity.
Qed.
Print Assumptions fixed_header_sched.

(* ------------------------------------------------------------------ frames *)
(* FrameDecoder.Next over the scheduled source (uncompressed stream): flags byte, size varint
   byte by byte, the content with io.ReadFull *)
Definition sched_next_frame (rf : nat) (s : src) : perr + (N * bytes * src) :=
  match sched_read_byte rf s with
  | None => inl PEnd
  | Some (flags, s1) =>
    if 8 <=? flags then inl (PBad EInvalid)
    else match sched_uvarint rf s1 with
         | None => inl PTrunc
         | Some (usize, s2) =>
           if frame_size_limit <? usize then inl (PBad ELimit)
           else match sched_take rf usize s2 with
                | None => inl PTrunc
                | Some (content, s3) => inr (flags, content, s3)
                end
         end
  end.

Definition forget_frame (x : perr + (N * bytes * src)) : perr + (N * bytes * bytes) :=
  match x with inl e => inl e | inr (fl, c, s) => inr (fl, c, s_data s) end.

Definition forget_frame_src (x : perr + (N * bytes * src)) : perr + (N * bytes * source) :=
  match x with inl e => inl e | inr (fl, c, s) => inr (fl, c, SrcBytes (s_data s)) end.

Lemma sched_next_frame_spec : forall rf s, (length (s_data s) < rf)%nat ->
  forget_frame (sched_next_frame rf s) = parse_frame (s_data s) /\
  forall fl c s', sched_next_frame rf s = inr (fl, c, s') ->
                  (length (s_data s') <= length (s_data s))%nat.
Proof.
  intros rf s Hf. unfold sched_next_frame, parse_frame.
  pose proof (sched_read_byte_spec rf s Hf) as H1.
  destruct (sched_read_byte rf s) as [[flags s1]|]; [|rewrite H1; split; [reflexivity|discriminate]].
  rewrite H1. destruct (8 <=? flags); [split; [reflexivity|discriminate]|].
  assert (Hf1 : (length (s_data s1) < rf)%nat) by (rewrite H1 in Hf; cbn [length] in Hf; lia).
  pose proof (sched_uvarint_spec rf s1 Hf1) as H2.
  destruct (sched_uvarint rf s1) as [[usize s2]|]; [|rewrite H2; split; [reflexivity|discriminate]].
  destruct H2 as [H2 L2]. rewrite H2.
  destruct (frame_size_limit <? usize); [split; [reflexivity|discriminate]|].
  assert (Hf2 : (length (s_data s2) < rf)%nat) by lia.
  pose proof (sched_take_spec rf usize s2 Hf2) as H3.
  destruct (sched_take rf usize s2) as [[content s3]|]; [|rewrite H3; split; [reflexivity|discriminate]].
  destruct H3 as [H3 L3]. rewrite H3. split; [reflexivity|].
  intros fl c s' E. inversion E; subst. cbn [length]. lia.
Qed.

(* the frame source over a scheduled source returns the same (flags, content) and leaves the
   same remaining bytes as [Reader.next_frame (SrcBytes _)], whatever the schedule *)
Theorem next_frame_sched : forall rf bs sch, (length bs < rf)%nat ->
  forget_frame_src (sched_next_frame rf (mkSrc bs sch)) = next_frame (SrcBytes bs).
Proof.
  intros rf bs sch Hf.
  destruct (sched_next_frame_spec rf (mkSrc bs sch) Hf) as [H _]. cbn [s_data] in H.
  cbn [next_frame]. rewrite <- H.
  destruct (sched_next_frame rf (mkSrc bs sch)) as [e|[[fl c] s']]; reflexivity.
Qed.
Print Assumptions next_frame_sched.

Corollary next_frame_sched_independent : forall rf bs sch1 sch2, (length bs < rf)%nat ->
  forget_frame (sched_next_frame rf (mkSrc bs sch1)) = forget_frame (sched_next_frame rf (mkSrc bs sch2)).
Proof.
  intros rf bs sch1 sch2 Hf.
  destruct (sched_next_frame_spec rf (mkSrc bs sch1) Hf) as [H1 _].
  destruct (sched_next_frame_spec rf (mkSrc bs sch2) Hf) as [H2 _].
  rewrite H1, H2. reflexivity.
Qed.

(* ------------------------------------------------------------------ the reader *)
(* reader state (the [rd_src] of [sr_rd] is not used) + the scheduled source *)
Record sched_reader := mkSR { sr_rd : reader; sr_src : src }.

(* the reader over plain bytes that a scheduled reader simulates *)
Definition sr_view (x : sched_reader) : reader := with_src (sr_rd x) (SrcBytes (s_data (sr_src x))).

Inductive sched_result :=
| SRecord (x : sched_reader) (w : wire)
| SEndOfFrame (x : sched_reader)
| SEnd
| SErr (trunc : bool) (e : derr).

Definition forget_result (x : sched_result) : read_result :=
  match x with
  | SRecord y w => RdRecord (sr_view y) w
  | SEndOfFrame y => RdEndOfFrame (sr_view y)
  | SEnd => RdEnd
  | SErr b e => RdErr b e
  end.

Section SchedReader.
  Variable sizes : N -> N.
  Variable fuel : nat.
  Variable rf : nat.

  (* Reader.reader_next_frame with the frame taken from the scheduled source *)
  Definition reader_next_frame_sched (x : sched_reader) : perr + sched_reader :=
    let r := sr_rd x in
    match sched_next_frame rf (sr_src x) with
    | inl e => inl e
    | inr (fl, content, src') =>
      match parse_data_frame (rd_tree r) content with
      | inl e => inl (PBad e)
      | inr (nrec, cols) =>
        let st := rd_st r in
        let cm := load_cols tree_fuel (rd_tree r) cols (flag_codecs fl) (PM.empty _) (r_cols st) in
        let st' := if flag_dicts fl then mkRst cm (PM.empty _) (PM.empty _) 0
                   else mkRst cm (r_sdict st) (r_tlen st) 0 in
        let td' := if flag_dicts fl then PM.empty _ else rd_td r in
        inr (mkSR (mkReader (rd_tree r) (rd_src r) nrec (rd_count r) st' td' (rd_rec r)
                            (rd_wire_schema r) (rd_user_data r)) src')
      end
    end.

  (* Reader.reader_read *)
  Fixpoint reader_read_sched (k : nat) (till_end_of_frame : bool) (x : sched_reader) : sched_result :=
    match k with
    | O => SErr false EOther
    | S k' =>
      let r := sr_rd x in
      if rd_left r =? 0 then
        if till_end_of_frame then SEndOfFrame x
        else match reader_next_frame_sched x with
             | inl PEnd => SEnd
             | inl PTrunc => SErr true EEof
             | inl (PBad e) => SErr false e
             | inr x' => reader_read_sched k' till_end_of_frame x'
             end
      else
        let st := rd_st r in
        let st := mkRst (r_cols st) (r_sdict st) (r_tlen st) 0 in
        match dec sizes fuel [] (rd_tree r) (rd_rec r) st with
        | Err e => SErr false e
        | Ok (st', w) =>
          let '(td', v) := apply [] (rd_tree r) (rd_rec r) w (rd_td r) in
          SRecord (mkSR (mkReader (rd_tree r) (rd_src r) (rd_left r - 1) (rd_count r + 1) st' td' v
                                  (rd_wire_schema r) (rd_user_data r)) (sr_src x)) w
        end
    end.

  (* StreamFactsBase.read_all *)
  Definition sched_step (x : sched_result)
             (cont : sched_reader -> list wire * list rnode * option sched_result)
    : list wire * list rnode * option sched_result :=
    match x with
    | SRecord y w => let '(ws, vs, e) := cont y in (w :: ws, rd_rec (sr_rd y) :: vs, e)
    | other => ([], [], Some other)
    end.

  Fixpoint read_all_sched (kr k : nat) (x : sched_reader)
    : list wire * list rnode * option sched_result :=
    match k with
    | O => ([], [], None)
    | S k' => sched_step (reader_read_sched kr false x) (read_all_sched kr k')
    end.
End SchedReader.

Definition forget_all (x : list wire * list rnode * option sched_result)
  : list wire * list rnode * option read_result :=
  let '(ws, vs, e) := x in (ws, vs, option_map forget_result e).

Definition forget_next (x : perr + sched_reader) : perr + reader :=
  match x with inl e => inl e | inr y => inr (sr_view y) end.

(* one frame step: same frame loaded into the same state, related remaining sources *)
Theorem reader_next_frame_sched_agrees : forall rf x, (length (s_data (sr_src x)) < rf)%nat ->
  forget_next (reader_next_frame_sched rf x) = reader_next_frame (sr_view x) /\
  forall x', reader_next_frame_sched rf x = inr x' ->
             (length (s_data (sr_src x')) <= length (s_data (sr_src x)))%nat.
Proof.
  intros rf x Hf. unfold reader_next_frame_sched, reader_next_frame, sr_view.
  cbn [with_src rd_src rd_tree rd_st rd_td rd_rec rd_count rd_left rd_wire_schema rd_user_data next_frame].
  destruct (sched_next_frame_spec rf (sr_src x) Hf) as [H L]. rewrite <- H.
  destruct (sched_next_frame rf (sr_src x)) as [e|[[fl c] s']]; cbn [forget_frame];
    [split; [reflexivity|discriminate]|].
  destruct (parse_data_frame (rd_tree (sr_rd x)) c) as [e|[nrec cols]];
    [split; [reflexivity|discriminate]|].
  split; [reflexivity|]. intros x' E. inversion E; subst. cbn [sr_src]. exact (L _ _ _ eq_refl).
Qed.

(* one Read: the same record / result, related remaining sources *)
Theorem reader_read_sched_agrees : forall sizes fuel rf k tef x,
  (length (s_data (sr_src x)) < rf)%nat ->
  forget_result (reader_read_sched sizes fuel rf k tef x) = reader_read sizes fuel k tef (sr_view x) /\
  forall x' w, reader_read_sched sizes fuel rf k tef x = SRecord x' w ->
               (length (s_data (sr_src x')) <= length (s_data (sr_src x)))%nat.
Proof.
  intros sizes fuel rf. induction k as [|k IH]; intros tef x Hf; [split; [reflexivity|discriminate]|].
  cbn [reader_read_sched reader_read].
  change (rd_left (sr_view x)) with (rd_left (sr_rd x)).
  destruct (rd_left (sr_rd x) =? 0).
  - destruct tef; [split; [reflexivity|discriminate]|].
    destruct (reader_next_frame_sched_agrees rf x Hf) as [H L]. rewrite <- H.
    destruct (reader_next_frame_sched rf x) as [e|x1]; cbn [forget_next].
    + destruct e; split; try reflexivity; discriminate.
    + assert (Hf1 : (length (s_data (sr_src x1)) < rf)%nat) by (specialize (L x1 eq_refl); lia).
      destruct (IH false x1 Hf1) as [H1 L1]. split; [exact H1|].
      intros x' w E. specialize (L1 x' w E). specialize (L x1 eq_refl). lia.
  - change (rd_st (sr_view x)) with (rd_st (sr_rd x)).
    change (rd_tree (sr_view x)) with (rd_tree (sr_rd x)).
    change (rd_rec (sr_view x)) with (rd_rec (sr_rd x)).
    change (rd_td (sr_view x)) with (rd_td (sr_rd x)).
    destruct (dec sizes fuel [] (rd_tree (sr_rd x)) (rd_rec (sr_rd x)) _) as [[st' w]|e];
      [|split; [reflexivity|discriminate]].
    destruct (apply [] (rd_tree (sr_rd x)) (rd_rec (sr_rd x)) w (rd_td (sr_rd x))) as [td' v].
    split; [reflexivity|]. intros x' w' E. inversion E; subst. cbn [sr_src]. lia.
Qed.
Print Assumptions reader_read_sched_agrees.

(* the whole Read loop *)
Theorem read_all_sched_agrees : forall sizes fuel rf kr k x,
  (length (s_data (sr_src x)) < rf)%nat ->
  forget_all (read_all_sched sizes fuel rf kr k x) = read_all sizes fuel kr k (sr_view x).
Proof.
  intros sizes fuel rf kr. induction k as [|k IH]; intros x Hf; [reflexivity|].
  cbn [read_all_sched read_all].
  destruct (reader_read_sched_agrees sizes fuel rf kr false x Hf) as [H L]. rewrite <- H.
  destruct (reader_read_sched sizes fuel rf kr false x) as [x1 w|x1| |b e];
    cbn [sched_step forget_result read_step]; try reflexivity.
  assert (Hf1 : (length (s_data (sr_src x1)) < rf)%nat) by (specialize (L x1 w eq_refl); lia).
  rewrite <- (IH x1 Hf1).
  destruct (read_all_sched sizes fuel rf kr k x1) as [[ws vs] e]. reflexivity.
Qed.
Print Assumptions read_all_sched_agrees.

(* C07: the result of reading a stream does not depend on the schedule of the source; it is
   the result of the reader over the plain bytes *)
Theorem read_all_sched_independent : forall sizes fuel rf kr k r bs sch1 sch2,
  (length bs < rf)%nat ->
  forget_all (read_all_sched sizes fuel rf kr k (mkSR r (mkSrc bs sch1))) =
  forget_all (read_all_sched sizes fuel rf kr k (mkSR r (mkSrc bs sch2))) /\
  forget_all (read_all_sched sizes fuel rf kr k (mkSR r (mkSrc bs sch1))) =
  read_all sizes fuel kr k (with_src r (SrcBytes bs)).
Proof.
  intros sizes fuel rf kr k r bs sch1 sch2 Hf.
  rewrite (read_all_sched_agrees sizes fuel rf kr k (mkSR r (mkSrc bs sch1))) by exact Hf.
  rewrite (read_all_sched_agrees sizes fuel rf kr k (mkSR r (mkSrc bs sch2))) by exact Hf.
  split; reflexivity.
Qed.
Print Assumptions read_all_sched_independent.

(* ------------------------------------------------------------------ opening the reader *)
(* what [Reader.reader_open] does with the var header frame *)
Definition open_frame (sc : schema) (root : N) (content : bytes) (src' : source) : perr + reader :=
  if var_hdr_limit <? N.of_nat (length content) then inl (PBad ELimit)
  else
    match parse_var_header content with
    | inl e => inl (PBad e)
    | inr (schema_bytes, ud) =>
      let finish (over : option (list N)) :=
        let '(t, ist) := build_root sc root over in
        if i_err ist || negb (all_fetched ist) then inl (PBad EInvalid)
        else inr (mkReader t src' 0 0 rst0 (PM.empty _) RNil over ud) in
      match schema_bytes with
      | [] => finish None
      | _ =>
        match parse_wire_schema schema_bytes with
        | inl e => inl (PBad e)
        | inr counts =>
          if compatible (own_counts sc root) counts then finish (Some counts)
          else inl (PBad EInvalid)
        end
      end
    end.

Lemma reader_open_frame : forall sc root src,
  reader_open sc root src =
  match next_frame src with
  | inl PEnd => inl PTrunc
  | inl e => inl e
  | inr (fl, content, src') => open_frame sc root content src'
  end.
Proof. reflexivity. Qed.

Definition reader_open_sched (sc : schema) (root : N) (rf : nat) (s : src) : perr + sched_reader :=
  match sched_next_frame rf s with
  | inl PEnd => inl PTrunc
  | inl e => inl e
  | inr (fl, content, s') =>
    match open_frame sc root content (SrcBytes []) with
    | inl e => inl e
    | inr r => inr (mkSR r s')
    end
  end.

Lemma open_frame_src : forall sc root content s1 s2,
  open_frame sc root content s2 =
  match open_frame sc root content s1 with inl e => inl e | inr r => inr (with_src r s2) end.
Proof.
  intros sc root content s1 s2. unfold open_frame.
  destruct (var_hdr_limit <? N.of_nat (length content)); [reflexivity|].
  destruct (parse_var_header content) as [e|[sb ud]]; [reflexivity|].
  assert (Hfin : forall over,
    (let '(t, ist) := build_root sc root over in
     if i_err ist || negb (all_fetched ist) then inl (PBad EInvalid)
     else inr (mkReader t s2 0 0 rst0 (PM.empty _) RNil over ud)) =
    match (let '(t, ist) := build_root sc root over in
           if i_err ist || negb (all_fetched ist) then inl (PBad EInvalid)
           else inr (mkReader t s1 0 0 rst0 (PM.empty _) RNil over ud)) with
    | inl e => inl e | inr r => inr (with_src r s2) end).
  { intros over. destruct (build_root sc root over) as [t ist].
    destruct (i_err ist || negb (all_fetched ist)); reflexivity. }
  destruct sb as [|b sb]; [exact (Hfin None)|].
  destruct (parse_wire_schema (b :: sb)) as [e|counts]; [reflexivity|].
  destruct (compatible (own_counts sc root) counts); [exact (Hfin (Some counts))|reflexivity].
Qed.

Theorem reader_open_sched_agrees : forall sc root rf bs sch, (length bs < rf)%nat ->
  forget_next (reader_open_sched sc root rf (mkSrc bs sch)) = reader_open sc root (SrcBytes bs) /\
  forall x, reader_open_sched sc root rf (mkSrc bs sch) = inr x ->
            (length (s_data (sr_src x)) <= length bs)%nat.
Proof.
  intros sc root rf bs sch Hf. rewrite reader_open_frame. unfold reader_open_sched.
  cbn [next_frame].
  destruct (sched_next_frame_spec rf (mkSrc bs sch) Hf) as [H L]. cbn [s_data] in H, L. rewrite <- H.
  destruct (sched_next_frame rf (mkSrc bs sch)) as [e|[[fl c] s']]; cbn [forget_frame].
  - destruct e; split; try reflexivity; discriminate.
  - rewrite (open_frame_src sc root c (SrcBytes []) (SrcBytes (s_data s'))).
    destruct (open_frame sc root c (SrcBytes [])) as [e|r]; [split; [reflexivity|discriminate]|].
    split; [reflexivity|]. intros x E. inversion E; subst. cbn [sr_src]. exact (L _ _ _ eq_refl).
Qed.
Print Assumptions reader_open_sched_agrees.

(* the whole reader, from the first byte after the fixed header: open, then Read until the end;
   over any two schedules the same outcome, namely that of the reader over the plain bytes *)
Definition read_stream_sched (sc : schema) (root : N) (sizes : N -> N) (fuel rf kr k : nat) (s : src)
  : perr + (list wire * list rnode * option read_result) :=
  match reader_open_sched sc root rf s with
  | inl e => inl e
  | inr x => inr (forget_all (read_all_sched sizes fuel rf kr k x))
  end.

Definition read_stream (sc : schema) (root : N) (sizes : N -> N) (fuel kr k : nat) (bs : bytes)
  : perr + (list wire * list rnode * option read_result) :=
  match reader_open sc root (SrcBytes bs) with
  | inl e => inl e
  | inr r => inr (read_all sizes fuel kr k r)
  end.

Theorem read_stream_sched_independent : forall sc root sizes fuel rf kr k bs sch,
  (length bs < rf)%nat ->
  read_stream_sched sc root sizes fuel rf kr k (mkSrc bs sch) = read_stream sc root sizes fuel kr k bs.
Proof.
  intros sc root sizes fuel rf kr k bs sch Hf. unfold read_stream_sched, read_stream.
  destruct (reader_open_sched_agrees sc root rf bs sch Hf) as [H L]. rewrite <- H.
  destruct (reader_open_sched sc root rf (mkSrc bs sch)) as [e|x]; cbn [forget_next]; [reflexivity|].
  rewrite read_all_sched_agrees; [reflexivity|]. specialize (L x eq_refl). lia.
Qed.
Print Assumptions read_stream_sched_independent.

(* ------------------------------------------------------------------ not vacuous *)
(* the byte stream of StreamFacts.ex_bytes read through a source that hands out one byte per
   Read, and through one with an irregular schedule *)
Definition ex_data : bytes :=
  emit_frame 0 (emit_var_header [] []) ++ emit_all (stream_encode ex_t wst0 ex_frames).

Definition ex_expected : perr + (list wire * list rnode * option read_result) :=
  inr (concat (map snd ex_frames),
       [RStruct 1 0 [RU64 5]; RStruct 0 0 [RU64 5]; RStruct 1 0 [RU64 7]], Some RdEnd).

Example ex_sched_one_byte :
  read_stream_sched sch_ints_ints sch_ints_ints_root_Record ex_sizes 10 100 4 4
                    (mkSrc ex_data (repeat 1%nat 100)) = ex_expected.
Proof. vm_compute. reflexivity. Qed.

Example ex_sched_irregular :
  read_stream_sched sch_ints_ints sch_ints_ints_root_Record ex_sizes 10 100 4 4
                    (mkSrc ex_data [3; 0; 7; 1; 1; 2; 100; 1]%nat) = ex_expected.
Proof. vm_compute. reflexivity. Qed.

Example ex_sched_plain :
  read_stream sch_ints_ints sch_ints_ints_root_Record ex_sizes 10 4 4 ex_data = ex_expected.
Proof. vm_compute. reflexivity. Qed.

(* the theorem applies (its only hypothesis is the fuel bound) *)
Example ex_sched_by_theorem : forall sch,
  read_stream_sched sch_ints_ints sch_ints_ints_root_Record ex_sizes 10 100 4 4 (mkSrc ex_data sch)
  = ex_expected.
Proof.
  intros sch. rewrite read_stream_sched_independent; [exact ex_sched_plain|].
  vm_compute. lia.
Qed.

(* a fixed header read through a one-byte-per-Read source (the case of defect D4) *)
Example ex_fixed_header_one_byte :
  forget_hdr (sched_fixed_header 100 (mkSrc (emit_fixed_header 0 ++ [1; 2; 3]) (repeat 1%nat 20)))
  = inr (0, [1; 2; 3]).
Proof. vm_compute. reflexivity. Qed.
