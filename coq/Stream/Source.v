(* A byte source that splits its data over Read calls according to a schedule (io.Reader
   contract: a Read may return fewer bytes than asked, at least one while data remains).
   bufio.Reader in front of a source is again such a source with another schedule, so
   "for all schedules" covers it.  read_once is what a single Read gives; read_full is
   io.ReadFull.  The reader model consumes its input only through read_full / byte reads,
   which is what makes decoding independent of the schedule (C07). *)
From Coq Require Import List NArith Arith Lia Bool.
From Stef Require Import Bits Codecs.
Import ListNotations.

Record src := mkSrc { s_data : bytes; s_sched : list nat }.

(* one Read into a buffer of n bytes *)
Definition read_once (s : src) (n : nat) : bytes * src :=
  match s_sched s with
  | [] => (firstn n (s_data s), mkSrc (skipn n (s_data s)) [])
  | k :: r => let m := Nat.min n (Nat.max 1 k) in
              (firstn m (s_data s), mkSrc (skipn m (s_data s)) r)
  end.

(* io.ReadFull: read until n bytes are in, or the data is exhausted *)
Fixpoint read_full (fuel : nat) (s : src) (n : nat) : bytes * src :=
  match fuel with
  | O => ([], s)
  | S f =>
    match n, s_data s with
    | O, _ => ([], s)
    | _, [] => ([], s)
    | _, _ =>
      let '(b, s') := read_once s n in
      let '(b', s'') := read_full f s' (n - length b) in (b ++ b', s'')
    end
  end.

Lemma read_once_progress : forall s n, (0 < n)%nat -> s_data s <> [] ->
  let '(b, s') := read_once s n in
  (0 < length b)%nat /\ (length b <= n)%nat /\ b ++ s_data s' = s_data s.
Proof.
  intros s n Hn Hd. unfold read_once.
  assert (Hl : (0 < length (s_data s))%nat) by (destruct (s_data s); [contradiction|cbn; lia]).
  destruct (s_sched s) as [|k r]; cbn [s_data]; rewrite firstn_skipn, firstn_length;
    (split; [lia|split; [lia|reflexivity]]).
Qed.

(* read_full returns exactly the first n bytes (or all that is left) whatever the schedule *)
Theorem read_full_spec : forall fuel s n, (length (s_data s) < fuel)%nat ->
  let '(b, s') := read_full fuel s n in
  b = firstn n (s_data s) /\ s_data s' = skipn n (s_data s).
Proof.
  induction fuel as [|f IH]; intros s n Hf; [lia|].
  cbn [read_full]. destruct n as [|n].
  - split; reflexivity.
  - destruct (s_data s) as [|x xs] eqn:Hd.
    + rewrite Hd. split; reflexivity.
    + pose proof (read_once_progress s (S n) ltac:(lia) ltac:(rewrite Hd; discriminate)) as Hp.
      destruct (read_once s (S n)) as [b s'] eqn:Hr. destruct Hp as [Hb0 [Hbn Happ]].
      assert (Hlen : (length (s_data s') < f)%nat).
      { assert (length (s_data s) = length b + length (s_data s'))%nat by (rewrite <- Happ, app_length; reflexivity).
        rewrite Hd in H. cbn [length] in *. lia. }
      specialize (IH s' (S n - length b)%nat Hlen).
      destruct (read_full f s' (S n - length b)) as [b' s''] eqn:Hr2. destruct IH as [Hb' Hs''].
      rewrite <- Hd. rewrite <- Happ.
      split.
      * rewrite Hb'. rewrite firstn_app.
        rewrite (firstn_all2 b) by lia. reflexivity.
      * rewrite Hs''. rewrite skipn_app. rewrite (skipn_all2 b) by lia. reflexivity.
Qed.

Corollary read_full_schedule_independent : forall data sch1 sch2 n,
  fst (read_full (S (length data)) (mkSrc data sch1) n) =
  fst (read_full (S (length data)) (mkSrc data sch2) n).
Proof.
  intros data sch1 sch2 n.
  pose proof (read_full_spec (S (length data)) (mkSrc data sch1) n ltac:(cbn; lia)) as H1.
  pose proof (read_full_spec (S (length data)) (mkSrc data sch2) n ltac:(cbn; lia)) as H2.
  destruct (read_full _ (mkSrc data sch1) n) as [b1 s1]. destruct (read_full _ (mkSrc data sch2) n) as [b2 s2].
  cbn [fst s_data] in *. destruct H1 as [-> _]. destruct H2 as [-> _]. reflexivity.
Qed.

(* a single Read does depend on the schedule: the defect fixed in basereader.go
   (ReadFixedHeader read the 4-byte signature with one Read) *)
Lemma read_once_depends_on_schedule :
  exists data n sch1 sch2,
    fst (read_once (mkSrc data sch1) n) <> fst (read_once (mkSrc data sch2) n).
Proof.
  exists [83; 84; 69; 70]%N, 4%nat, [1%nat], [4%nat]. cbn. discriminate.
Qed.

(* draining a source with any sequence of full reads reproduces its data *)
Fixpoint drain (fuel : nat) (s : src) (chunk : nat) : bytes :=
  match fuel with
  | O => []
  | S f =>
    match s_data s with
    | [] => []
    | _ => let '(b, s') := read_once s (S chunk) in b ++ drain f s' chunk
    end
  end.

Theorem drain_is_data : forall fuel s chunk, (length (s_data s) < fuel)%nat ->
  drain fuel s chunk = s_data s.
Proof.
  induction fuel as [|f IH]; intros s chunk Hf; [lia|].
  cbn [drain]. destruct (s_data s) as [|x xs] eqn:Hd; [reflexivity|].
  pose proof (read_once_progress s (S chunk) ltac:(lia) ltac:(rewrite Hd; discriminate)) as Hp.
  destruct (read_once s (S chunk)) as [b s'] eqn:Hr. destruct Hp as [Hb0 [_ Happ]].
  rewrite IH.
  - rewrite <- Hd. exact Happ.
  - assert (length (s_data s) = length b + length (s_data s'))%nat by (rewrite <- Happ, app_length; reflexivity).
    rewrite Hd in H. cbn [length] in *. lia.
Qed.
