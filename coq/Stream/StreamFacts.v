(* Whole-stream round trip: the frame content layer (FrameContentInv.frame_encode_reader_sync)
   composed with the record layer (StreamFactsBase.read_frame_records, i.e.
   WireFacts.wire_roundtrip through Reader.reader_read) over all frames of a stream.
     stream_roundtrip_gen      any source that serves the encoded frames
     stream_roundtrip          Reader.SrcFrames (frames handed over one by one, zstd streams)
     stream_roundtrip_bytes    Reader.SrcBytes (uncompressed byte stream, FrameFacts.emit_all)
     stream_roundtrip_open*    from Reader.reader_open on, NoDup / fc_ok discharged
   The only hypothesis about the data is the boolean [stream_ok] (StreamFactsBase.v). *)
From Coq Require Import List NArith ZArith Bool PArith Lia FMapPositive Arith.
From Coq Require Import ZifyN ZifyNat ZifyBool.
From Stef Require Import Bits BitsFacts BitIO BitIOFacts Varint VarintFacts Codecs CodecFacts Schema
     Schemas Wire WireOk WireFactsBase WireFacts Apply Frame FrameFacts Reader Writer
     FrameContentFacts FrameContentSchemas FrameContentInv StreamFactsBase.
Import ListNotations.
Open Scope N_scope.

(* ------------------------------------------------------------------ all frames *)
(* The induction over the frames.  [kr1] is the fuel of the Read that is under way, [S kr] the
   fuel of all later Reads, [k] the number of later Reads. *)
Lemma stream_roundtrip_ind : forall sizes fuel t frames ws0 r0 e,
  rd_tree r0 = t -> rd_left r0 = 0 ->
  serves (rd_src r0) (stream_encode t ws0 frames) e ->
  carry ws0 (rd_st r0) -> acc_empty ws0 -> outside_default ws0 t ->
  NoDup (tree_cols t) -> fc_ok t ->
  stream_ok sizes fuel t frames ws0 (rd_rec r0) (rd_td r0) = true ->
  forall kr1 kr k, (length frames < kr1)%nat -> (length frames <= kr)%nat ->
  (length (concat (map snd frames)) <= k)%nat ->
  read_step (reader_read sizes fuel kr1 false r0) (read_all sizes fuel (S kr) k) =
  (concat (map snd frames), stream_values t frames (rd_rec r0) (rd_td r0), Some (end_result e)).
Proof.
  intros sizes fuel t. induction frames as [|[fl recs] rest IH];
    intros ws0 r0 e Ht Hl Hsrv Hca Hae Hod Hnd Hfc Hok kr1 kr k Hk1 Hkr Hk.
  - (* no frame left: the source reports its end *)
    cbn [stream_encode serves] in Hsrv. destruct kr1 as [|j]; [cbn [length] in Hk1; lia|].
    rewrite (reader_read_end sizes fuel j r0 e Hl Hsrv). rewrite read_step_end. reflexivity.
  - rewrite stream_encode_cons in Hsrv. cbn [serves fst snd] in Hsrv.
    destruct Hsrv as (s' & Hnf & Hsrv).
    destruct (stream_ok_cons _ _ _ _ _ _ _ _ _ Hok) as (_ & Hfc_ok & Hrecs & Hrest).
    set (td1 := if flag_dicts fl then PM.empty (list rnode) else rd_td r0) in *.
    set (st_end := frame_end t fl ws0 recs) in *.
    (* the frame content layer *)
    pose proof (frame_encode_reader_sync r0 fl ws0 recs s') as Hfr. cbv zeta in Hfr.
    rewrite Ht in Hfr. rewrite frame_encode_end in Hfr. cbn [fst snd] in Hfr. fold st_end in Hfr.
    destruct (Hfr Hnf (frame_content_okb_sound _ _ _ Hfc_ok) Hnd Hfc (recs_ok_arrs _ _ _ _ _ _ _ Hrecs)
                  Hca Hae Hod)
      as (r' & Hnext & Ht' & Hsrc' & Hl' & _ & Hrec' & HS' & HE' & Hae' & Hod').
    assert (Htd' : rd_td r' = td1) by exact (reader_next_frame_td r0 r' fl _ s' Hnf Hnext).
    (* the record layer *)
    rewrite <- Hrec', <- Htd' in Hrecs.
    destruct (read_frame_records sizes fuel t (frame_totals st_end t) recs r' (w_restart fl ws0)
                Ht' Hl' HS' HE' Hrecs)
      as (r_end & Et & El & Esrc & ES & Ece & Enil & Eread).
    fold (frame_end t fl ws0 recs) in ES. fold st_end in ES.
    rewrite Hrec', Htd' in Ece, Eread.
    (* the state handed to the next frame *)
    assert (Hca2 : carry (w_clear st_end) (rd_st r_end)) by (eapply sync_carry; exact ES).
    assert (Hsrv2 : serves (rd_src r_end) (stream_encode t (w_clear st_end) rest) e)
      by (rewrite Esrc, Hsrc'; exact Hsrv).
    assert (Hok2 : stream_ok sizes fuel t rest (w_clear st_end) (rd_rec r_end) (rd_td r_end) = true).
    { rewrite <- Ece in Hrest. cbn [fst snd] in Hrest. exact Hrest. }
    pose proof (IH (w_clear st_end) r_end e Et El Hsrv2 Hca2 Hae' Hod' Hnd Hfc Hok2) as IH2.
    (* the result *)
    cbn [map snd concat stream_values fst]. cbv zeta. fold td1. rewrite <- Ece. cbn [fst snd].
    cbn [length] in Hk1, Hkr. destruct kr1 as [|j]; [lia|].
    rewrite (reader_read_skip sizes fuel j r0 r' Hl Hnext).
    destruct recs as [|a recs].
    + (* a frame without records: the same Read goes on to the next frame *)
      pose proof (Enil eq_refl) as Er. subst r_end. cbn [chain_values app].
      apply IH2; [lia|lia|]. cbn [map snd concat app] in Hk. exact Hk.
    + (* the Read under way returns the first record, later Reads the others *)
      destruct j as [|j]; [lia|].
      rewrite (reader_read_fuel_irrelevant sizes fuel j kr false r')
        by (rewrite Hl'; cbn [length]; lia).
      change (read_step (reader_read sizes fuel (S kr) false r') (read_all sizes fuel (S kr) k))
        with (read_all sizes fuel (S kr) (S k) r').
      cbn [map snd concat] in Hk. rewrite app_length in Hk.
      replace (S k) with (length (a :: recs) + S (k - length (a :: recs)))%nat by lia.
      rewrite Eread. cbn [read_all].
      rewrite IH2; [reflexivity|lia|lia|lia].
Qed.

Theorem stream_roundtrip_gen : forall sizes fuel t frames ws0 r0 e kr k,
  rd_tree r0 = t -> rd_left r0 = 0 ->
  serves (rd_src r0) (stream_encode t ws0 frames) e ->
  carry ws0 (rd_st r0) -> acc_empty ws0 -> outside_default ws0 t ->
  NoDup (tree_cols t) -> fc_ok t ->
  stream_ok sizes fuel t frames ws0 (rd_rec r0) (rd_td r0) = true ->
  (length frames < kr)%nat -> (length (concat (map snd frames)) < k)%nat ->
  read_all sizes fuel kr k r0 =
  (concat (map snd frames), stream_values t frames (rd_rec r0) (rd_td r0), Some (end_result e)).
Proof.
  intros sizes fuel t frames ws0 r0 e kr k Ht Hl Hsrv Hca Hae Hod Hnd Hfc Hok Hkr Hk.
  destruct kr as [|kr]; [lia|]. destruct k as [|k]; [lia|]. cbn [read_all].
  apply (stream_roundtrip_ind sizes fuel t frames ws0 r0 e); try assumption; lia.
Qed.
Print Assumptions stream_roundtrip_gen.

(* the frames handed over one by one (the harness decompresses zstd streams with the library's
   own zstd reader); [trunc]: the input ended inside a later frame *)
Theorem stream_roundtrip : forall sizes fuel t frames ws0 r0 trunc kr k,
  rd_tree r0 = t -> rd_left r0 = 0 ->
  rd_src r0 = SrcFrames (stream_encode t ws0 frames) trunc ->
  carry ws0 (rd_st r0) -> acc_empty ws0 -> outside_default ws0 t ->
  NoDup (tree_cols t) -> fc_ok t ->
  stream_ok sizes fuel t frames ws0 (rd_rec r0) (rd_td r0) = true ->
  (length frames < kr)%nat -> (length (concat (map snd frames)) < k)%nat ->
  read_all sizes fuel kr k r0 =
  (concat (map snd frames), stream_values t frames (rd_rec r0) (rd_td r0),
   Some (if trunc then RdErr true EEof else RdEnd)).
Proof.
  intros sizes fuel t frames ws0 r0 trunc kr k Ht Hl Hsrc Hca Hae Hod Hnd Hfc Hok Hkr Hk.
  rewrite (stream_roundtrip_gen sizes fuel t frames ws0 r0 (if trunc then PTrunc else PEnd) kr k);
    try assumption.
  - destruct trunc; reflexivity.
  - rewrite Hsrc. apply serves_frames. exact (stream_ok_frames_ok _ _ _ _ _ _ _ Hok).
Qed.
Print Assumptions stream_roundtrip.

(* one frame: [frame_encode_reader_sync] composed with the record layer through [reader_read] *)
Corollary frame_roundtrip : forall sizes fuel t fl recs ws0 r0 trunc kr k,
  rd_tree r0 = t -> rd_left r0 = 0 ->
  rd_src r0 = SrcFrames [(fl, snd (frame_encode t fl ws0 recs))] trunc ->
  carry ws0 (rd_st r0) -> acc_empty ws0 -> outside_default ws0 t ->
  NoDup (tree_cols t) -> fc_ok t ->
  stream_ok sizes fuel t [(fl, recs)] ws0 (rd_rec r0) (rd_td r0) = true ->
  (1 < kr)%nat -> (length recs < k)%nat ->
  read_all sizes fuel kr k r0 =
  (recs, chain_values t recs (rd_rec r0) (if flag_dicts fl then PM.empty _ else rd_td r0),
   Some (if trunc then RdErr true EEof else RdEnd)).
Proof.
  intros sizes fuel t fl recs ws0 r0 trunc kr k Ht Hl Hsrc Hca Hae Hod Hnd Hfc Hok Hkr Hk.
  rewrite (stream_roundtrip sizes fuel t [(fl, recs)] ws0 r0 trunc kr k); try assumption.
  - cbn [map snd concat stream_values fst]. cbv zeta. rewrite !app_nil_r. reflexivity.
  - cbn [map snd concat]. rewrite app_nil_r. exact Hk.
Qed.
Print Assumptions frame_roundtrip.

(* an uncompressed byte stream (after the fixed header and the var header frame) *)
Theorem stream_roundtrip_bytes : forall sizes fuel t frames ws0 r0 kr k,
  rd_tree r0 = t -> rd_left r0 = 0 ->
  rd_src r0 = SrcBytes (emit_all (stream_encode t ws0 frames)) ->
  carry ws0 (rd_st r0) -> acc_empty ws0 -> outside_default ws0 t ->
  NoDup (tree_cols t) -> fc_ok t ->
  stream_ok sizes fuel t frames ws0 (rd_rec r0) (rd_td r0) = true ->
  (length frames < kr)%nat -> (length (concat (map snd frames)) < k)%nat ->
  read_all sizes fuel kr k r0 =
  (concat (map snd frames), stream_values t frames (rd_rec r0) (rd_td r0), Some RdEnd).
Proof.
  intros sizes fuel t frames ws0 r0 kr k Ht Hl Hsrc Hca Hae Hod Hnd Hfc Hok Hkr Hk.
  rewrite (stream_roundtrip_gen sizes fuel t frames ws0 r0 PEnd kr k); try assumption; [reflexivity|].
  rewrite Hsrc. apply serves_bytes. exact (stream_ok_frames_ok _ _ _ _ _ _ _ Hok).
Qed.
Print Assumptions stream_roundtrip_bytes.

(* the same with the byte stream cut inside a later frame (C05 at the record level): all records
   of the complete frames, then "truncated" *)
Theorem stream_roundtrip_bytes_cut : forall sizes fuel t frames ws0 r0 kr k fl c n,
  rd_tree r0 = t -> rd_left r0 = 0 ->
  frame_ok fl c -> (0 < n)%nat -> (n < length (emit_frame fl c))%nat ->
  rd_src r0 = SrcBytes (emit_all (stream_encode t ws0 frames) ++ firstn n (emit_frame fl c)) ->
  carry ws0 (rd_st r0) -> acc_empty ws0 -> outside_default ws0 t ->
  NoDup (tree_cols t) -> fc_ok t ->
  stream_ok sizes fuel t frames ws0 (rd_rec r0) (rd_td r0) = true ->
  (length frames < kr)%nat -> (length (concat (map snd frames)) < k)%nat ->
  read_all sizes fuel kr k r0 =
  (concat (map snd frames), stream_values t frames (rd_rec r0) (rd_td r0), Some (RdErr true EEof)).
Proof.
  intros sizes fuel t frames ws0 r0 kr k fl c n Ht Hl Hfr Hn0 Hn Hsrc Hca Hae Hod Hnd Hfc Hok Hkr Hk.
  rewrite (stream_roundtrip_gen sizes fuel t frames ws0 r0 PTrunc kr k); try assumption; [reflexivity|].
  rewrite Hsrc. apply serves_bytes_tail; [exact (stream_ok_frames_ok _ _ _ _ _ _ _ Hok)|].
  apply parse_frame_prefix; assumption.
Qed.
Print Assumptions stream_roundtrip_bytes_cut.

(* ------------------------------------------------------------------ from reader_open on *)
Lemma reader_open_inv : forall sc root src r0, reader_open sc root src = inr r0 ->
  exists fl content src',
    next_frame src = inr (fl, content, src') /\
    rd_tree r0 = fst (build_root sc root (rd_wire_schema r0)) /\
    rd_src r0 = src' /\ rd_left r0 = 0 /\ rd_count r0 = 0 /\ rd_st r0 = rst0 /\
    rd_td r0 = PM.empty _ /\ rd_rec r0 = RNil.
Proof.
  intros sc root src r0 H. unfold reader_open in H.
  destruct (next_frame src) as [e|[[fl content] src']]; [destruct e; discriminate H|].
  exists fl, content, src'. split; [reflexivity|].
  destruct (var_hdr_limit <? N.of_nat (length content)); [discriminate H|].
  destruct (parse_var_header content) as [e|[sb ud]]; [discriminate H|].
  assert (Hfin : forall over,
    (let '(t, ist) := build_root sc root over in
     if i_err ist || negb (all_fetched ist) then inl (PBad EInvalid)
     else inr (mkReader t src' 0 0 rst0 (PM.empty _) RNil over ud)) = inr r0 ->
    rd_tree r0 = fst (build_root sc root (rd_wire_schema r0)) /\
    rd_src r0 = src' /\ rd_left r0 = 0 /\ rd_count r0 = 0 /\ rd_st r0 = rst0 /\
    rd_td r0 = PM.empty _ /\ rd_rec r0 = RNil).
  { intros over Hf. destruct (build_root sc root over) as [t ist] eqn:Eb.
    destruct (i_err ist || negb (all_fetched ist)); [discriminate Hf|].
    inversion Hf; subst. cbn [rd_tree rd_src rd_left rd_count rd_st rd_td rd_rec rd_wire_schema].
    rewrite Eb. repeat split; reflexivity. }
  destruct sb as [|b sb]; [exact (Hfin None H)|].
  destruct (parse_wire_schema (b :: sb)) as [e|counts]; [discriminate H|].
  destruct (compatible (own_counts sc root) counts); [exact (Hfin (Some counts) H)|discriminate H].
Qed.

(* the tree of an opened reader satisfies the structural side conditions, the initial writer
   and reader states the frame-to-frame invariants *)
Theorem stream_roundtrip_open_gen : forall sc root sizes fuel src r0 frames e kr k,
  reader_open sc root src = inr r0 ->
  serves (rd_src r0) (stream_encode (rd_tree r0) wst0 frames) e ->
  stream_ok sizes fuel (rd_tree r0) frames wst0 RNil (PM.empty _) = true ->
  (length frames < kr)%nat -> (length (concat (map snd frames)) < k)%nat ->
  read_all sizes fuel kr k r0 =
  (concat (map snd frames), stream_values (rd_tree r0) frames RNil (PM.empty _), Some (end_result e)).
Proof.
  intros sc root sizes fuel src r0 frames e kr k Hop Hsrv Hok Hkr Hk.
  destruct (reader_open_inv sc root src r0 Hop)
    as (hfl & hdr & src' & _ & Ht & _ & Hl & _ & Hst & Htd & Hrec).
  rewrite <- Hrec, <- Htd in Hok |- *.
  apply (stream_roundtrip_gen sizes fuel (rd_tree r0) frames wst0 r0 e kr k); try assumption.
  - reflexivity.
  - rewrite Hst. exact carry_init.
  - exact acc_empty_init.
  - apply outside_default_init.
  - rewrite Ht. apply build_root_nodup.
  - rewrite Ht. apply build_root_fc_ok.
Qed.
Print Assumptions stream_roundtrip_open_gen.

(* frames handed over one by one: the var header frame, then the data frames the writer
   produces from its initial state with the reader's tree *)
Theorem stream_roundtrip_open : forall sc root sizes fuel hfl hdr t frames trunc r0 kr k,
  reader_open sc root (SrcFrames ((hfl, hdr) :: stream_encode t wst0 frames) trunc) = inr r0 ->
  rd_tree r0 = t ->
  stream_ok sizes fuel t frames wst0 RNil (PM.empty _) = true ->
  (length frames < kr)%nat -> (length (concat (map snd frames)) < k)%nat ->
  read_all sizes fuel kr k r0 =
  (concat (map snd frames), stream_values t frames RNil (PM.empty _),
   Some (if trunc then RdErr true EEof else RdEnd)).
Proof.
  intros sc root sizes fuel hfl hdr t frames trunc r0 kr k Hop Ht Hok Hkr Hk. subst t.
  rewrite (stream_roundtrip_open_gen sc root sizes fuel _ r0 frames (if trunc then PTrunc else PEnd) kr k Hop);
    try assumption.
  - destruct trunc; reflexivity.
  - destruct (reader_open_inv _ _ _ _ Hop) as (fl & c & src' & Hnf & _ & Hsrc & _).
    cbn [next_frame] in Hnf.
    destruct (8 <=? hfl); [discriminate Hnf|].
    destruct (frame_size_limit <? N.of_nat (length hdr)); [discriminate Hnf|].
    injection Hnf as _ _ E3. rewrite Hsrc, <- E3.
    apply serves_frames. exact (stream_ok_frames_ok _ _ _ _ _ _ _ Hok).
Qed.
Print Assumptions stream_roundtrip_open.

(* an uncompressed byte stream after the fixed header: var header frame, data frames *)
Theorem stream_roundtrip_open_bytes : forall sc root sizes fuel hfl hdr t frames r0 kr k,
  frame_okb hfl hdr = true ->
  reader_open sc root (SrcBytes (emit_frame hfl hdr ++ emit_all (stream_encode t wst0 frames))) = inr r0 ->
  rd_tree r0 = t ->
  stream_ok sizes fuel t frames wst0 RNil (PM.empty _) = true ->
  (length frames < kr)%nat -> (length (concat (map snd frames)) < k)%nat ->
  read_all sizes fuel kr k r0 =
  (concat (map snd frames), stream_values t frames RNil (PM.empty _), Some RdEnd).
Proof.
  intros sc root sizes fuel hfl hdr t frames r0 kr k Hh Hop Ht Hok Hkr Hk. subst t.
  rewrite (stream_roundtrip_open_gen sc root sizes fuel _ r0 frames PEnd kr k Hop);
    try assumption; [reflexivity|].
  destruct (reader_open_inv _ _ _ _ Hop) as (fl & c & src' & Hnf & _ & Hsrc & _).
  cbn [next_frame] in Hnf. rewrite parse_frame_emit in Hnf by (apply frame_okb_sound; exact Hh).
  injection Hnf as _ _ E3. rewrite Hsrc, <- E3.
  apply serves_bytes. exact (stream_ok_frames_ok _ _ _ _ _ _ _ Hok).
Qed.
Print Assumptions stream_roundtrip_open_bytes.

(* ------------------------------------------------------------------ not vacuous *)
(* examples/ints: struct Record { uint64 }.  Three frames (the middle one without records, the
   last one restarting dictionaries and codecs), three records (the second leaves the field
   unchanged). *)
Definition ex_t : etree := fst (build_root sch_ints_ints sch_ints_ints_root_Record None).
Definition ex_frames : list (N * list wire) :=
  [(0, [WStruct 1 0 [Some (WU64 5)]; WStruct 0 0 [None]]);
   (0, []);
   (5, [WStruct 1 0 [Some (WU64 7)]])].
Definition ex_sizes : N -> N := fun _ => 8.
Definition ex_src : source :=
  SrcFrames ((0, emit_var_header [] []) :: stream_encode ex_t wst0 ex_frames) false.
Definition ex_bytes : source :=
  SrcBytes (emit_frame 0 (emit_var_header [] []) ++ emit_all (stream_encode ex_t wst0 ex_frames)).

Example ex_stream_ok : stream_ok ex_sizes 10 ex_t ex_frames wst0 RNil (PM.empty _) = true.
Proof. vm_compute. reflexivity. Qed.

Example ex_open : exists r0, reader_open sch_ints_ints sch_ints_ints_root_Record ex_src = inr r0 /\ rd_tree r0 = ex_t.
Proof. eexists. split; [vm_compute; reflexivity|reflexivity]. Qed.

Example ex_open_bytes : exists r0, reader_open sch_ints_ints sch_ints_ints_root_Record ex_bytes = inr r0 /\ rd_tree r0 = ex_t.
Proof. eexists. split; [vm_compute; reflexivity|reflexivity]. Qed.

(* every hypothesis of the theorems holds for this stream, so they apply *)
Example ex_roundtrip : forall r0,
  reader_open sch_ints_ints sch_ints_ints_root_Record ex_src = inr r0 ->
  read_all ex_sizes 10 4 4 r0 =
  (concat (map snd ex_frames),
   [RStruct 1 0 [RU64 5]; RStruct 0 0 [RU64 5]; RStruct 1 0 [RU64 7]], Some RdEnd).
Proof.
  intros r0 Hop.
  assert (Ht : rd_tree r0 = ex_t).
  { destruct ex_open as (r & Hr & Ht). rewrite Hr in Hop. inversion Hop; subst. exact Ht. }
  rewrite (stream_roundtrip_open _ _ ex_sizes 10 _ _ ex_t ex_frames false r0 4 4 Hop Ht ex_stream_ok).
  - reflexivity.
  - cbn; lia.
  - cbn; lia.
Qed.

Example ex_roundtrip_bytes : forall r0,
  reader_open sch_ints_ints sch_ints_ints_root_Record ex_bytes = inr r0 ->
  read_all ex_sizes 10 4 4 r0 =
  (concat (map snd ex_frames),
   [RStruct 1 0 [RU64 5]; RStruct 0 0 [RU64 5]; RStruct 1 0 [RU64 7]], Some RdEnd).
Proof.
  intros r0 Hop.
  assert (Ht : rd_tree r0 = ex_t).
  { destruct ex_open_bytes as (r & Hr & Ht). rewrite Hr in Hop. inversion Hop; subst. exact Ht. }
  rewrite (stream_roundtrip_open_bytes _ _ ex_sizes 10 0 (emit_var_header [] []) ex_t ex_frames r0 4 4
             eq_refl Hop Ht ex_stream_ok).
  - reflexivity.
  - cbn; lia.
  - cbn; lia.
Qed.
