(* Whole-stream round trip, part 1: the definitions (writer of a whole stream, reader loop,
   the computable side condition [stream_ok]) and the composition of the record layer
   (WireFacts.wire_roundtrip) with [Reader.reader_read] inside one frame.
     stream_encode   the writer: a list of frames (restart flags, records as wire trees)
     read_all        the reader: [reader_read] until the stream ends
     stream_ok       boolean precondition evaluated on real streams by the correspondence check
     read_frame_records   all records of a loaded frame are read back, the reader stays in [sync] *)
From Coq Require Import List NArith ZArith Bool PArith Lia FMapPositive Arith.
From Coq Require Import ZifyN ZifyNat ZifyBool.
From Stef Require Import Bits BitsFacts BitIO BitIOFacts Varint VarintFacts Codecs CodecFacts Schema
     Wire WireOk WireFactsBase WireFacts Apply Frame FrameFacts Reader Writer
     FrameContentFacts FrameContentInv.
Import ListNotations.
Open Scope N_scope.

(* ------------------------------------------------------------------ the writer *)
(* frames = list of (restart flags, records of the frame as wire trees); the result is the list
   of (flags, uncompressed frame content) that [Reader.SrcFrames] consumes, or, concatenated with
   [Frame.emit_frame] ([FrameFacts.emit_all]), the bytes of an uncompressed stream *)
Fixpoint stream_encode (t : etree) (ws : wst) (frames : list (N * list wire)) : list (N * bytes) :=
  match frames with
  | [] => []
  | (fl, recs) :: rest =>
    let '(ws', content) := frame_encode t fl ws recs in (fl, content) :: stream_encode t ws' rest
  end.

Lemma stream_encode_cons : forall t ws fl recs rest,
  stream_encode t ws ((fl, recs) :: rest) =
  (fl, emit_data_frame_content (frame_end t fl ws recs) t (N.of_nat (length recs)))
    :: stream_encode t (w_clear (frame_end t fl ws recs)) rest.
Proof. reflexivity. Qed.

Lemma stream_encode_length : forall t frames ws, length (stream_encode t ws frames) = length frames.
Proof.
  intros t. induction frames as [|[fl recs] rest IH]; intros ws; [reflexivity|].
  rewrite stream_encode_cons. cbn [length]. rewrite IH. reflexivity.
Qed.

(* ------------------------------------------------------------------ the reader *)
(* what one [reader_read] contributes to the result of the loop *)
Definition read_step (x : read_result) (cont : reader -> list wire * list rnode * option read_result)
  : list wire * list rnode * option read_result :=
  match x with
  | RdRecord r' w => let '(ws, vs, e) := cont r' in (w :: ws, rd_rec r' :: vs, e)
  | other => ([], [], Some other)
  end.

(* Read() until it does not return a record: the wire trees, the reader's record value after
   each read, and how the loop ended (None: the outer fuel [k] ran out).
   [kr] is the fuel of [reader_read] (frames without records are skipped inside one Read). *)
Fixpoint read_all (sizes : N -> N) (fuel kr k : nat) (r : reader)
  : list wire * list rnode * option read_result :=
  match k with
  | O => ([], [], None)
  | S k' => read_step (reader_read sizes fuel kr false r) (read_all sizes fuel kr k')
  end.

Definition prepend (ws : list wire) (vs : list rnode) (x : list wire * list rnode * option read_result)
  : list wire * list rnode * option read_result :=
  let '(a, b, e) := x in (ws ++ a, vs ++ b, e).

Lemma prepend_nil : forall x, prepend [] [] x = x.
Proof. intros [[a b] e]. reflexivity. Qed.

Lemma prepend_cons : forall w v ws vs x,
  prepend (w :: ws) (v :: vs) x = let '(a, b, e) := prepend ws vs x in (w :: a, v :: b, e).
Proof. intros w v ws vs [[a b] e]. reflexivity. Qed.

(* how the reader reports the end of its source *)
Definition end_result (e : perr) : read_result :=
  match e with
  | PEnd => RdEnd
  | PTrunc => RdErr true EEof
  | PBad e => RdErr false e
  end.

Lemma read_step_end : forall e cont, read_step (end_result e) cont = ([], [], Some (end_result e)).
Proof. intros [| |e] cont; reflexivity. Qed.

(* ------------------------------------------------------------------ the reader's record values *)
(* the values the reader holds: [Apply.apply] chained from the previous record and dictionaries *)
Fixpoint chain_end (t : etree) (recs : list wire) (prev : rnode) (td : tdicts) : tdicts * rnode :=
  match recs with
  | [] => (td, prev)
  | a :: r => let x := apply [] t prev a td in chain_end t r (snd x) (fst x)
  end.

Fixpoint chain_values (t : etree) (recs : list wire) (prev : rnode) (td : tdicts) : list rnode :=
  match recs with
  | [] => []
  | a :: r => let x := apply [] t prev a td in snd x :: chain_values t r (snd x) (fst x)
  end.

(* across frames: the struct dictionaries restart with RestartDictionaries, the record is kept *)
Fixpoint stream_values (t : etree) (frames : list (N * list wire)) (prev : rnode) (td : tdicts)
  : list rnode :=
  match frames with
  | [] => []
  | f :: rest =>
    let td1 := if flag_dicts (fst f) then PM.empty _ else td in
    let ce := chain_end t (snd f) prev td1 in
    chain_values t (snd f) prev td1 ++ stream_values t rest (snd ce) (fst ce)
  end.

(* ------------------------------------------------------------------ the computable side condition *)
(* every record of a frame: encodable ([wire_ok]) against the value the reader holds, with a
   fresh allocation counter, and within the decoder's recursion fuel *)
Fixpoint recs_ok (sizes : N -> N) (fuel : nat) (t : etree) (recs : list wire) (ws : wst)
         (prev : rnode) (td : tdicts) : bool :=
  match recs with
  | [] => true
  | a :: r =>
    let x := apply [] t prev a td in
    wire_ok sizes [] t prev a ws 0 && (height a <? fuel)%nat &&
    recs_ok sizes fuel t r (enc [] t a ws) (snd x) (fst x)
  end.

Definition frame_okb (fl : N) (content : bytes) : bool :=
  (fl <? 8) && (N.of_nat (length content) <=? frame_size_limit).

Definition wst_smallb (st : wst) : bool :=
  forallb (fun kx : positive * wcol =>
             (N.of_nat (length (column_bytes (wc_bits (snd kx)))) <? two48) &&
             (N.of_nat (length (wc_bytes (snd kx))) <? two48))
          (PM.elements (w_cols st)).

(* decidable [FrameContentFacts.frame_content_ok] *)
Definition frame_content_okb (st : wst) (t : etree) (nrec : N) : bool :=
  (nrec <? two64) &&
  (N.of_nat (length (column_bytes (emit_sizes tree_fuel st t))) <? two64) &&
  wst_smallb st && (depth t <=? tree_fuel)%nat.

(* for every frame: flags < 8, content within [frame_size_limit], [frame_content_ok], and
   [recs_ok] from the reader's value / dictionaries at the start of the frame *)
Fixpoint stream_ok (sizes : N -> N) (fuel : nat) (t : etree) (frames : list (N * list wire))
         (ws : wst) (prev : rnode) (td : tdicts) : bool :=
  match frames with
  | [] => true
  | f :: rest =>
    let fl := fst f in
    let recs := snd f in
    let td1 := if flag_dicts fl then PM.empty _ else td in
    let st_end := frame_end t fl ws recs in
    let ce := chain_end t recs prev td1 in
    frame_okb fl (emit_data_frame_content st_end t (N.of_nat (length recs))) &&
    frame_content_okb st_end t (N.of_nat (length recs)) &&
    recs_ok sizes fuel t recs (w_restart fl ws) prev td1 &&
    stream_ok sizes fuel t rest (w_clear st_end) (snd ce) (fst ce)
  end.

Lemma frame_okb_sound : forall fl c, frame_okb fl c = true -> frame_ok fl c.
Proof.
  intros fl c H. unfold frame_okb in H. apply andb_true_iff in H. destruct H as [H1 H2].
  apply N.ltb_lt in H1. apply N.leb_le in H2. split; assumption.
Qed.

Lemma wst_smallb_sound : forall st, wst_smallb st = true -> wst_small st.
Proof.
  intros st H c. unfold wget. destruct (PM.find c (w_cols st)) as [x|] eqn:E.
  - apply PM.elements_correct in E. unfold wst_smallb in H. rewrite forallb_forall in H.
    specialize (H _ E). cbn [snd] in H. apply andb_true_iff in H. destruct H as [H1 H2].
    apply N.ltb_lt in H1. apply N.ltb_lt in H2. split; assumption.
  - cbn [wcol0 wc_bits wc_bytes]. rewrite length_column_bytes. cbn [length].
    unfold two48. split; reflexivity.
Qed.

Lemma frame_content_okb_sound : forall st t nrec,
  frame_content_okb st t nrec = true -> frame_content_ok st t nrec.
Proof.
  intros st t nrec H. unfold frame_content_okb in H.
  repeat (apply andb_true_iff in H; let H' := fresh "Hc" in destruct H as [H H']).
  apply N.ltb_lt in H. apply N.ltb_lt in Hc1. apply Nat.leb_le in Hc.
  split; [exact H|]. split; [exact Hc1|]. split; [apply wst_smallb_sound; exact Hc0|exact Hc].
Qed.

Lemma recs_ok_arrs : forall sizes fuel t recs ws prev td,
  recs_ok sizes fuel t recs ws prev td = true -> Forall (arrs_P arr_small) recs.
Proof.
  intros sizes fuel t. induction recs as [|a recs IH]; intros ws prev td H; constructor.
  - cbn [recs_ok] in H. cbv zeta in H. apply andb_true_iff in H. destruct H as [H _].
    apply andb_true_iff in H. destruct H as [H _]. exact (wire_ok_arrs _ _ _ _ _ _ _ H).
  - cbn [recs_ok] in H. cbv zeta in H. apply andb_true_iff in H. destruct H as [_ H].
    exact (IH _ _ _ H).
Qed.

(* ------------------------------------------------------------------ sources *)
(* [serves s fs e]: the source hands out exactly the frames [fs] and then reports [e] *)
Fixpoint serves (s : source) (fs : list (N * bytes)) (e : perr) : Prop :=
  match fs with
  | [] => next_frame s = inl e
  | f :: r => exists s', next_frame s = inr (fst f, snd f, s') /\ serves s' r e
  end.

Lemma serves_frames : forall fs trunc, Forall (fun f => frame_ok (fst f) (snd f)) fs ->
  serves (SrcFrames fs trunc) fs (if trunc then PTrunc else PEnd).
Proof.
  induction fs as [|[fl c] r IH]; intros trunc H; [reflexivity|].
  inversion H as [|? ? [H1 H2] H']; subst. cbn [fst snd] in H1, H2.
  cbn [serves fst snd]. exists (SrcFrames r trunc). split; [|apply IH; exact H'].
  cbn [next_frame]. destruct (N.leb_spec 8 fl); [lia|].
  destruct (N.ltb_spec frame_size_limit (N.of_nat (length c))); [lia|reflexivity].
Qed.

(* an uncompressed byte stream: the frames followed by anything that is not a frame *)
Lemma serves_bytes_tail : forall fs tail e, Forall (fun f => frame_ok (fst f) (snd f)) fs ->
  parse_frame tail = inl e ->
  serves (SrcBytes (emit_all fs ++ tail)) fs e.
Proof.
  induction fs as [|[fl c] r IH]; intros tail e H Ht.
  - cbn [emit_all flat_map app serves next_frame]. rewrite Ht. reflexivity.
  - inversion H as [|? ? H1 H']; subst. cbn [fst snd] in H1.
    cbn [serves fst snd emit_all flat_map]. fold (emit_all r). rewrite <- app_assoc.
    exists (SrcBytes (emit_all r ++ tail)). split; [|apply IH; assumption].
    cbn [next_frame]. rewrite parse_frame_emit by exact H1. reflexivity.
Qed.

Lemma serves_bytes : forall fs, Forall (fun f => frame_ok (fst f) (snd f)) fs ->
  serves (SrcBytes (emit_all fs)) fs PEnd.
Proof.
  intros fs H. rewrite <- (app_nil_r (emit_all fs)). apply serves_bytes_tail; [exact H|reflexivity].
Qed.

Lemma stream_ok_cons : forall sizes fuel t fl recs rest ws prev td,
  stream_ok sizes fuel t ((fl, recs) :: rest) ws prev td = true ->
  let td1 := if flag_dicts fl then PM.empty _ else td in
  let st_end := frame_end t fl ws recs in
  frame_okb fl (emit_data_frame_content st_end t (N.of_nat (length recs))) = true /\
  frame_content_okb st_end t (N.of_nat (length recs)) = true /\
  recs_ok sizes fuel t recs (w_restart fl ws) prev td1 = true /\
  stream_ok sizes fuel t rest (w_clear st_end) (snd (chain_end t recs prev td1))
            (fst (chain_end t recs prev td1)) = true.
Proof.
  intros sizes fuel t fl recs rest ws prev td H td1 st_end.
  cbn [stream_ok fst snd] in H. cbv zeta in H. fold td1 st_end in H.
  destruct (frame_okb fl _); [|discriminate H].
  destruct (frame_content_okb st_end t _); [|discriminate H].
  destruct (recs_ok sizes fuel t recs _ prev td1); [|discriminate H].
  cbn [andb] in H. repeat split; exact H.
Qed.

(* [stream_ok] contains what the frame layer needs *)
Lemma stream_ok_frames_ok : forall sizes fuel t frames ws prev td,
  stream_ok sizes fuel t frames ws prev td = true ->
  Forall (fun f => frame_ok (fst f) (snd f)) (stream_encode t ws frames).
Proof.
  intros sizes fuel t. induction frames as [|[fl recs] rest IH]; intros ws prev td H; [constructor|].
  rewrite stream_encode_cons. destruct (stream_ok_cons _ _ _ _ _ _ _ _ _ H) as (H1 & _ & _ & H4).
  constructor; [cbn [fst snd]; apply frame_okb_sound; exact H1|exact (IH _ _ _ H4)].
Qed.

(* ------------------------------------------------------------------ one Read *)
Lemma mono_fold_enc : forall t recs ws, mono ws (fold_left (fun st a => enc [] t a st) recs ws).
Proof.
  intros t. induction recs as [|a recs IH]; intros ws; [apply mono_refl|].
  cbn [fold_left]. eapply mono_trans; [apply mono_enc|apply IH].
Qed.

(* with records left in the frame, Read decodes one record: no frame is loaded, the fuel of the
   frame-skipping loop is irrelevant *)
Lemma reader_read_record : forall sizes fuel kr tef r rs1 a,
  rd_left r <> 0 ->
  dec sizes fuel [] (rd_tree r) (rd_rec r) (reset_alloc (rd_st r)) = Ok (rs1, a) ->
  reader_read sizes fuel (S kr) tef r =
  RdRecord (mkReader (rd_tree r) (rd_src r) (rd_left r - 1) (rd_count r + 1) rs1
                     (fst (apply [] (rd_tree r) (rd_rec r) a (rd_td r)))
                     (snd (apply [] (rd_tree r) (rd_rec r) a (rd_td r)))
                     (rd_wire_schema r) (rd_user_data r)) a.
Proof.
  intros sizes fuel kr tef r rs1 a Hl Hd. cbn [reader_read].
  destruct (N.eqb_spec (rd_left r) 0); [contradiction|].
  unfold reset_alloc in Hd. rewrite Hd.
  destruct (apply [] (rd_tree r) (rd_rec r) a (rd_td r)) as [td' v]. reflexivity.
Qed.

Lemma reader_read_fuel_irrelevant : forall sizes fuel kr kr' tef r, rd_left r <> 0 ->
  reader_read sizes fuel (S kr) tef r = reader_read sizes fuel (S kr') tef r.
Proof.
  intros sizes fuel kr kr' tef r Hl. cbn [reader_read].
  destruct (N.eqb_spec (rd_left r) 0); [contradiction|reflexivity].
Qed.

(* at a frame boundary Read loads the next frame and goes on *)
Lemma reader_read_skip : forall sizes fuel kr r r', rd_left r = 0 ->
  reader_next_frame r = inr r' ->
  reader_read sizes fuel (S kr) false r = reader_read sizes fuel kr false r'.
Proof. intros sizes fuel kr r r' Hl Hn. cbn [reader_read]. rewrite Hl, Hn. reflexivity. Qed.

Lemma reader_read_end : forall sizes fuel kr r e, rd_left r = 0 ->
  next_frame (rd_src r) = inl e ->
  reader_read sizes fuel (S kr) false r = end_result e.
Proof.
  intros sizes fuel kr r e Hl Hn. cbn [reader_read]. rewrite Hl. cbn [N.eqb].
  unfold reader_next_frame. rewrite Hn. destruct e; reflexivity.
Qed.

(* what [reader_next_frame] does to the struct dictionaries *)
Lemma reader_next_frame_td : forall r r' fl c s',
  next_frame (rd_src r) = inr (fl, c, s') -> reader_next_frame r = inr r' ->
  rd_td r' = if flag_dicts fl then PM.empty _ else rd_td r.
Proof.
  intros r r' fl c s' Hn H. unfold reader_next_frame in H. rewrite Hn in H.
  destruct (parse_data_frame (rd_tree r) c) as [e|[nrec cols]]; [discriminate|].
  inversion H; subst. reflexivity.
Qed.

(* ------------------------------------------------------------------ all records of a frame *)
Theorem read_frame_records : forall sizes fuel t T recs r ws,
  rd_tree r = t -> rd_left r = N.of_nat (length recs) ->
  sync T ws (rd_st r) ->
  extends T (fold_left (fun st a => enc [] t a st) recs ws) ->
  recs_ok sizes fuel t recs ws (rd_rec r) (rd_td r) = true ->
  exists r_end,
    rd_tree r_end = t /\ rd_left r_end = 0 /\ rd_src r_end = rd_src r /\
    sync T (fold_left (fun st a => enc [] t a st) recs ws) (rd_st r_end) /\
    (rd_td r_end, rd_rec r_end) = chain_end t recs (rd_rec r) (rd_td r) /\
    (recs = [] -> r_end = r) /\
    forall kr k, read_all sizes fuel (S kr) (length recs + k) r =
                 prepend recs (chain_values t recs (rd_rec r) (rd_td r))
                         (read_all sizes fuel (S kr) k r_end).
Proof.
  intros sizes fuel t T. induction recs as [|a recs IH]; intros r ws Ht Hl HS HE Hok.
  - exists r. cbn [fold_left chain_end chain_values length Nat.add]. cbn [length N.of_nat] in Hl.
    repeat (split; [assumption || reflexivity|]).
    intros kr k. rewrite prepend_nil. reflexivity.
  - cbn [recs_ok] in Hok. cbv zeta in Hok.
    apply andb_true_iff in Hok. destruct Hok as [Hok Hgo].
    apply andb_true_iff in Hok. destruct Hok as [Hw Hh]. apply Nat.ltb_lt in Hh.
    cbn [fold_left] in HE |- *.
    assert (HE1 : extends T (enc [] t a ws)) by (eapply extends_mono; [apply mono_fold_enc|exact HE]).
    assert (HS0 : sync T ws (reset_alloc (rd_st r))) by (apply sync_alloc; exact HS).
    destruct (wire_roundtrip sizes a [] t (rd_rec r) ws (reset_alloc (rd_st r)) T fuel HS0 Hw HE1 Hh)
      as [rs1 [D1 [S1 _]]].
    assert (Hnz : rd_left r <> 0) by (rewrite Hl; cbn [length]; lia).
    rewrite <- Ht in D1.
    pose proof (fun kr => reader_read_record sizes fuel kr false r rs1 a Hnz D1) as Hrd.
    rewrite Ht in Hrd.
    set (x := apply [] t (rd_rec r) a (rd_td r)) in *.
    set (r1 := mkReader t (rd_src r) (rd_left r - 1) (rd_count r + 1) rs1 (fst x) (snd x)
                        (rd_wire_schema r) (rd_user_data r)) in *.
    destruct (IH r1 (enc [] t a ws)) as (r_end & E1 & E2 & E3 & E4 & E5 & _ & E6).
    + reflexivity.
    + unfold r1. cbn [rd_left]. rewrite Hl. cbn [length]. lia.
    + exact S1.
    + exact HE.
    + exact Hgo.
    + exists r_end. split; [exact E1|]. split; [exact E2|]. split; [exact E3|]. split; [exact E4|].
      split; [|split; [discriminate|]].
      * cbn [chain_end]. cbv zeta. fold x. exact E5.
      * intros kr k. cbn [length Nat.add read_all]. rewrite Hrd. cbn [read_step].
        rewrite E6. cbn [chain_values]. cbv zeta. fold x. rewrite prepend_cons.
        unfold r1 at 2. cbn [rd_rec rd_td]. unfold r1 at 1. cbn [rd_rec].
        destruct (prepend recs _ _) as [[aa bb] ee]. reflexivity.
Qed.
Print Assumptions read_frame_records.

(* ------------------------------------------------------------------ link to Writer.frame_check *)
(* [recs_ok] is [WireFacts.records_ok] / [Writer.frame_check] evaluated with the previous values
   the reader really holds (the apply chain), plus the fuel bound *)
Fixpoint chain_prevs (t : etree) (recs : list wire) (prev : rnode) (td : tdicts) : list rnode :=
  match recs with
  | [] => []
  | a :: r => let x := apply [] t prev a td in prev :: chain_prevs t r (snd x) (fst x)
  end.

Lemma recs_ok_records_ok : forall sizes fuel t recs ws prev td,
  recs_ok sizes fuel t recs ws prev td =
  records_ok sizes [] t (combine (chain_prevs t recs prev td) recs) ws &&
  forallb (fun a => (height a <? fuel)%nat) recs.
Proof.
  intros sizes fuel t. induction recs as [|a recs IH]; intros ws prev td; [reflexivity|].
  cbn [recs_ok chain_prevs combine records_ok forallb]. cbv zeta. rewrite IH.
  destruct (wire_ok sizes [] t prev a ws 0), (height a <? fuel)%nat, (records_ok _ _ _ _ _);
    reflexivity.
Qed.

Lemma recs_ok_frame_check : forall sizes fuel t fl ws recs prev td,
  recs_ok sizes fuel t recs (w_restart fl ws) prev td =
  forallb (fun b => b) (snd (frame_check sizes t fl ws (combine (chain_prevs t recs prev td) recs))) &&
  forallb (fun a => (height a <? fuel)%nat) recs.
Proof.
  intros. rewrite recs_ok_records_ok, frame_check_records. cbn [snd].
  rewrite records_ok_forallb. reflexivity.
Qed.

Lemma chain_prevs_length : forall t recs prev td, length (chain_prevs t recs prev td) = length recs.
Proof.
  intros t. induction recs as [|a recs IH]; intros prev td; [reflexivity|].
  cbn [chain_prevs length]. cbv zeta. rewrite IH. reflexivity.
Qed.

(* the previous values are the values, shifted by one *)
Lemma chain_prevs_values : forall t recs prev td,
  chain_prevs t recs prev td = removelast (prev :: chain_values t recs prev td).
Proof.
  intros t. induction recs as [|a recs IH]; intros prev td; [reflexivity|].
  cbn [chain_prevs chain_values]. cbv zeta. rewrite IH.
  set (x := apply [] t prev a td). cbn [removelast]. reflexivity.
Qed.
