(* The record layer of the wire format: what one record occurrence puts into the columns
   (struct.go.tmpl / oneof.go.tmpl / array.go.tmpl / multimap.go.tmpl Encode and Decode).
   [wire] is the syntax tree of one encoded value; [enc] writes it into the column set,
   [dec] reads it back.  [dec] is written from stef-spec/specification.md plus the notes of
   DESIGN.md §7 and shares nothing with the Go library: it is the "independent decoder" of C02. *)
From Coq Require Import List NArith ZArith Bool PArith Lia FMapPositive.
From Stef Require Import Bits BitIO Varint Codecs Schema.
Import ListNotations.
Open Scope N_scope.
Module PM := PositiveMap.

Inductive wire :=
| WBool (b : bool) | WU64 (n : N) | WI64 (z : Z) | WF64 (n : N) | WStr (b : bytes)
| WStruct (mask present : N) (fields : list (option wire))  (* Some: the field is encoded *)
| WDictRef (ref : N)
| WDictFull (s : wire)
| WOneof (tag : N) (alt : option wire)
| WArr (elems : list wire)
| WMapFull (kvs : list (wire * wire))
| WMapVals (changed : N) (vals : list wire).

(* reader-side value with lazily materialised defaults: RNil is "the zero value of its type" *)
Inductive rnode :=
| RBool (b : bool) | RU64 (n : N) | RI64 (z : Z) | RF64 (n : N) | RStr (b : bytes)
| RNil
| RStruct (mask present : N) (fields : list rnode)
| ROneof (tag : N) (alt : rnode)
| RArr (elems : list rnode)
| RMap (kvs : list (rnode * rnode)).

Definition dk (d : N) : positive := N.succ_pos d.

(* ------------------------------------------------------------------ writer side *)
Record wcol := mkWcol { wc_bits : bits; wc_bytes : bytes; wc_u : u64st; wc_f : f64st }.
Definition wcol0 : wcol := mkWcol [] [] u64_init f64_init.
Record wst := mkWst { w_cols : PM.t wcol; w_sdict : PM.t sdict; w_tlen : PM.t N; w_err : bool }.
Definition wst0 : wst := mkWst (PM.empty _) (PM.empty _) (PM.empty _) false.

Definition wget (st : wst) (c : positive) : wcol :=
  match PM.find c (w_cols st) with Some x => x | None => wcol0 end.
Definition wset (st : wst) (c : positive) (x : wcol) : wst :=
  mkWst (PM.add c x (w_cols st)) (w_sdict st) (w_tlen st) (w_err st).
Definition wfail (st : wst) : wst := mkWst (w_cols st) (w_sdict st) (w_tlen st) true.

Definition add_bits (st : wst) (c : positive) (b : bits) : wst :=
  let x := wget st c in wset st c (mkWcol (wc_bits x ++ b) (wc_bytes x) (wc_u x) (wc_f x)).
Definition add_bytes (st : wst) (c : positive) (b : bytes) : wst :=
  let x := wget st c in wset st c (mkWcol (wc_bits x) (wc_bytes x ++ b) (wc_u x) (wc_f x)).

Definition w_sd (st : wst) (d : N) : sdict :=
  match PM.find (dk d) (w_sdict st) with Some x => x | None => [] end.
Definition w_tl (st : wst) (d : N) : N :=
  match PM.find (dk d) (w_tlen st) with Some x => x | None => 1 end.

Definition enc_prim (st : wst) (c : positive) (p : prim) (d : option N) (a : wire) : wst :=
  match p, a with
  | PBool, WBool b => add_bits st c (bool_encode b)
  | PUint64, WU64 v =>
    let x := wget st c in let '(s', bs) := u64_encode (wc_u x) v in
    wset st c (mkWcol (wc_bits x) (wc_bytes x ++ bs) s' (wc_f x))
  | PInt64, WI64 z =>
    let x := wget st c in let '(s', bs) := i64_encode (wc_u x) z in
    wset st c (mkWcol (wc_bits x) (wc_bytes x ++ bs) s' (wc_f x))
  | PFloat64, WF64 v =>
    let x := wget st c in let '(s', b) := f64_encode (wc_f x) v in
    wset st c (mkWcol (wc_bits x ++ b) (wc_bytes x) (wc_u x) s')
  | (PString | PBytes), WStr v =>
    match d with
    | None => add_bytes st c (str_encode v)
    | Some dn =>
      let '(d', bs) := strdict_encode (w_sd st dn) v in
      let st := add_bytes st c bs in
      mkWst (w_cols st) (PM.add (dk dn) d' (w_sdict st)) (w_tlen st) (w_err st)
    end
  | _, _ => wfail st
  end.

Fixpoint enc (env : renv) (t : etree) (a : wire) (st : wst) {struct a} : wst :=
  let body (c : positive) (fc : N) (opts : list bool) (fts : list etree) (env' : renv)
           (mask present : N) (fields : list (option wire)) (st : wst) : wst :=
    let st := add_bits st c (bits_of_N (N.to_nat fc) mask ++ bits_of_N (opt_count opts) present) in
    (fix go (fts : list etree) (fs : list (option wire)) (st : wst) {struct fs} : wst :=
       match fts, fs with
       | ft :: fts', f :: fs' =>
         let st := match f with Some a' => enc env' (resolve env' ft) a' st | None => st end in
         go fts' fs' st
       | _, _ => st
       end) fts fields st in
  match t, a with
  | EPrim c p d, _ => enc_prim st c p d a
  | EStruct c sid false None fc opts fts, WStruct mask present fields =>
    body c fc opts fts (push_env env t) mask present fields st
  | EStruct c sid false (Some dn) fc opts fts, WDictRef ref =>
    add_bits st c ([false] ++ uvc_write_bits ref)
  | EStruct c sid false (Some dn) fc opts fts, WDictFull (WStruct mask present fields) =>
    (* the entry is counted after its fields are encoded, as the decoder does (a struct cannot
       refer to the entry that is being added) *)
    let st := add_bits st c [true] in
    let st := body c fc opts fts (push_env env t) mask present fields st in
    mkWst (w_cols st) (w_sdict st) (PM.add (dk dn) (w_tl st dn + 1) (w_tlen st)) (w_err st)
  | EStruct c sid true _ fc opts fts, WOneof tag alt =>
    let st := add_bits st c (bits_of_N (oneof_bits fc) tag) in
    match alt with
    | None => st
    | Some a' =>
      let env' := push_env env t in
      enc env' (resolve env' (nth (N.to_nat (tag - 1)) fts EBad)) a' st
    end
  | EArr c k et, WArr elems =>
    let st := add_bits st c (uvc_write_bits (N.of_nat (length elems))) in
    let env' := push_env env t in
    (fix go (es : list wire) (st : wst) {struct es} : wst :=
       match es with
       | [] => st
       | e :: es' => go es' (enc env' (resolve env' et) e st)
       end) elems st
  | EMap c mid kt vt, WMapFull kvs =>
    let st := add_bytes st c (leb_enc (2 * N.of_nat (length kvs) + 1)) in
    let env' := push_env env t in
    (fix go (l : list (wire * wire)) (st : wst) {struct l} : wst :=
       match l with
       | [] => st
       | (k, v) :: l' => go l' (enc env' (resolve env' vt) v (enc env' (resolve env' kt) k st))
       end) kvs st
  | EMap c mid kt vt, WMapVals changed vals =>
    let st := add_bytes st c (leb_enc (2 * changed)) in
    let env' := push_env env t in
    (fix go (l : list wire) (st : wst) {struct l} : wst :=
       match l with
       | [] => st
       | v :: l' => go l' (enc env' (resolve env' vt) v st)
       end) vals st
  | _, _ => wfail st
  end.

(* ------------------------------------------------------------------ reader side *)
Record rcol := mkRcol { rc_br : br; rc_bytes : bytes; rc_u : u64st; rc_f : f64st }.
Definition rcol0 : rcol := mkRcol (br_init []) [] u64_init f64_init.
Record rst := mkRst { r_cols : PM.t rcol; r_sdict : PM.t sdict; r_tlen : PM.t N;
                      r_alloc : N }.
Definition rst0 : rst := mkRst (PM.empty _) (PM.empty _) (PM.empty _) 0.

Definition rget (st : rst) (c : positive) : rcol :=
  match PM.find c (r_cols st) with Some x => x | None => rcol0 end.
Definition rset (st : rst) (c : positive) (x : rcol) : rst :=
  mkRst (PM.add c x (r_cols st)) (r_sdict st) (r_tlen st) (r_alloc st).
Definition rset_br (st : rst) (c : positive) (r : br) : rst :=
  let x := rget st c in rset st c (mkRcol r (rc_bytes x) (rc_u x) (rc_f x)).
Definition r_sd (st : rst) (d : N) : sdict :=
  match PM.find (dk d) (r_sdict st) with Some x => x | None => [] end.
Definition r_tl (st : rst) (d : N) : N :=
  match PM.find (dk d) (r_tlen st) with Some x => x | None => 1 end.

Inductive res (A : Type) := Ok (a : A) | Err (e : derr).
Arguments Ok {A} a. Arguments Err {A} e.

Definition col_err (st : rst) (c : positive) : bool := br_err (rc_br (rget st c)).

(* limits: go/pkg/limits.go *)
Definition multimap_limit : N := 1024.
Definition record_alloc_limit : N := 33554432.

Definition dec_prim (st : rst) (c : positive) (p : prim) (d : option N) : res (rst * wire) :=
  let x := rget st c in
  match p with
  | PBool =>
    let '(b, r) := bool_decode (rc_br x) in
    if br_err r then Err EEof else Ok (rset st c (mkRcol r (rc_bytes x) (rc_u x) (rc_f x)), WBool b)
  | PUint64 =>
    match u64_decode (rc_u x) (rc_bytes x) with
    | None => Err EEof
    | Some (s', v, rest) => Ok (rset st c (mkRcol (rc_br x) rest s' (rc_f x)), WU64 v)
    end
  | PInt64 =>
    match i64_decode (rc_u x) (rc_bytes x) with
    | None => Err EEof
    | Some (s', v, rest) => Ok (rset st c (mkRcol (rc_br x) rest s' (rc_f x)), WI64 v)
    end
  | PFloat64 =>
    let '(s', v, r) := f64_decode (rc_f x) (rc_br x) in
    if br_err r then Err EEof else Ok (rset st c (mkRcol r (rc_bytes x) (rc_u x) s'), WF64 v)
  | PString | PBytes =>
    match d with
    | None =>
      match str_decode (rc_bytes x) with
      | inl e => Err e
      | inr (v, rest) => Ok (rset st c (mkRcol (rc_br x) rest (rc_u x) (rc_f x)), WStr v)
      end
    | Some dn =>
      match strdict_decode (r_sd st dn) (rc_bytes x) with
      | inl e => Err e
      | inr (d', v, rest) =>
        let st := rset st c (mkRcol (rc_br x) rest (rc_u x) (rc_f x)) in
        Ok (mkRst (r_cols st) (PM.add (dk dn) d' (r_sdict st)) (r_tlen st) (r_alloc st), WStr v)
      end
    end
  end.

(* run [step] up to 2^k times, until it returns a result *)
Fixpoint iter_pow {S R : Type} (k : nat) (step : S -> S + R) (s : S) : S + R :=
  match k with
  | O => step s
  | Datatypes.S k' => match iter_pow k' step s with inl s' => iter_pow k' step s' | inr r => inr r end
  end.
Definition loop_k : nat := 40.

(* shape information taken from the reader's previous value: only multimap lengths matter *)
Definition prev_fields (p : rnode) : list rnode := match p with RStruct _ _ f => f | _ => [] end.
Definition prev_present (p : rnode) : N := match p with RStruct _ pr _ => pr | _ => 0 end.
Definition prev_alt (p : rnode) (tag : N) : rnode :=
  match p with ROneof t a => if t =? tag then a else RNil | _ => RNil end.
Definition prev_elems (p : rnode) : list rnode := match p with RArr e => e | _ => [] end.
Definition prev_kvs (p : rnode) : list (rnode * rnode) := match p with RMap k => k | _ => [] end.

(* sizes of Go values for the allocation accounting of array growth (array.go.tmpl Decode):
   passed in by the harness, which reads them from the compiled generated package *)
Definition elem_size (sizes : N -> N) (et : etree) : N :=
  match et with
  | EPrim _ PBool _ => 1
  | EPrim _ (PString | PBytes) _ => 16
  | EPrim _ _ _ => 8
  | EStruct _ sid _ _ _ _ _ => 8 + sizes sid
  | ERec (KStruct sid) => 8 + sizes sid
  | _ => 32
  end.

Section Dec.
  Variable sizes : N -> N.

  Fixpoint dec (fuel : nat) (env : renv) (t : etree) (prev : rnode) (st : rst) : res (rst * wire) :=
    match fuel with
    | O => Err EOther
    | Datatypes.S f =>
      let body (c : positive) (fc : N) (opts : list bool) (fts : list etree) (env' : renv)
               (st : rst) : res (rst * wire) :=
        let '(mask, r1) := br_read_bits (rc_br (rget st c)) (N.to_nat fc) in
        let '(present, r2) := br_read_bits r1 (opt_count opts) in
        let st := rset_br st c r2 in
        (* fields in order; optional ordinal counts optional fields seen so far *)
        let fix go (i : N) (oi : N) (fts : list etree) (opts : list bool) (pf : list rnode)
                   (st : rst) (acc : list (option wire)) : res (rst * list (option wire)) :=
          match fts, opts with
          | ft :: fts', o :: opts' =>
            let pi := hd RNil pf in
            let encoded := N.testbit mask i && (negb o || N.testbit present oi) in
            let oi' := if o then oi + 1 else oi in
            if encoded then
              (* absent -> present of a composite optional field starts from the zero value *)
              let pi := if o && negb (N.testbit (prev_present prev) oi) then RNil else pi in
              match dec f env' (resolve env' ft) pi st with
              | Err e => Err e
              | Ok (st', w) =>
                (* a non-optional dictionary struct field must not be the nil entry (RefNum 0):
                   struct.go.tmpl Decode returns ErrDecodeError *)
                match w with
                | WDictRef 0 => if o then go (i + 1) oi' fts' opts' (tl pf) st' (acc ++ [Some w]) else Err EInvalid
                | _ => go (i + 1) oi' fts' opts' (tl pf) st' (acc ++ [Some w])
                end
              end
            else go (i + 1) oi' fts' opts' (tl pf) st (acc ++ [None])
          | _, _ => Ok (st, acc)
          end in
        match go 0 0 fts opts (prev_fields prev) st [] with
        | Err e => Err e
        | Ok (st', fields) =>
          if col_err st' c then Err EEof else Ok (st', WStruct mask present fields)
        end in
      match t with
      | EPrim c p d => dec_prim st c p d
      | EStruct c sid false None fc opts fts => body c fc opts fts (push_env env t) st
      | EStruct c sid false (Some dn) fc opts fts =>
        let '(flag, r1) := br_read_bits (rc_br (rget st c)) 1 in
        if flag =? 0 then
          let '(ref, r2) := br_read_uvc r1 in
          let st := rset_br st c r2 in
          if r_tl st dn <=? ref then Err ERefNum
          else if br_err r2 then Err EEof else Ok (st, WDictRef ref)
        else
          let st := rset_br st c r1 in
          match body c fc opts fts (push_env env t) st with
          | Err e => Err e
          | Ok (st', w) =>
            Ok (mkRst (r_cols st') (r_sdict st') (PM.add (dk dn) (r_tl st' dn + 1) (r_tlen st')) (r_alloc st'),
                WDictFull w)
          end
      | EStruct c sid true _ fc opts fts =>
        let '(tag, r1) := br_read_bits (rc_br (rget st c)) (oneof_bits fc) in
        let st := rset_br st c r1 in
        if fc + 1 <=? tag then Err EInvalid
        else if br_err r1 then Err EEof
        else if tag =? 0 then Ok (st, WOneof 0 None)
        else
          let env' := push_env env t in
          match dec f env' (resolve env' (nth (N.to_nat (tag - 1)) fts EBad)) (prev_alt prev tag) st with
          | Err e => Err e
          | Ok (st', w) => Ok (st', WOneof tag (Some w))
          end
      | EArr c k et =>
        let '(n, r1) := br_read_uvc (rc_br (rget st c)) in
        let st := rset_br st c r1 in
        let old := N.of_nat (length (prev_elems prev)) in
        let grow := n - old in
        let alloc := r_alloc st + grow * elem_size sizes et in
        if (0 <? grow) && (record_alloc_limit <? alloc) then Err ELimit
        else
          let st := mkRst (r_cols st) (r_sdict st) (r_tlen st) (if 0 <? grow then alloc else r_alloc st) in
          let env' := push_env env t in
          let step (s : N * list rnode * rst * list wire) : (N * list rnode * rst * list wire) + res (rst * wire) :=
            let '(k, pe, st, acc) := s in
            if k =? 0 then inr (if col_err st c then Err EEof else Ok (st, WArr (rev acc)))
            else
              match dec f env' (resolve env' et) (hd RNil pe) st with
              | Err e => inr (Err e)
              | Ok (st', w) => inl (k - 1, tl pe, st', w :: acc)
              end in
          match iter_pow loop_k step (n, prev_elems prev, st, []) with
          | inr r => r
          | inl _ => Err EOther
          end
      | EMap c mid kt vt =>
        let x := rget st c in
        match leb_dec (rc_bytes x) with
        | None => Err EEof
        | Some (hdr, rest) =>
          let st := rset st c (mkRcol (rc_br x) rest (rc_u x) (rc_f x)) in
          let env' := push_env env t in
          if hdr =? 0 then Ok (st, WMapVals 0 [])
          else if N.even hdr then
            (* values only: one value per set bit among the entries the reader already has *)
            let changed := hdr / 2 in
            let fix go (i : N) (pk : list (rnode * rnode)) (st : rst) (acc : list wire) : res (rst * wire) :=
              match pk with
              | [] => Ok (st, WMapVals changed acc)
              | (_, pv) :: pk' =>
                if (i <? 64) && N.testbit changed i then
                  match dec f env' (resolve env' vt) pv st with
                  | Err e => Err e
                  | Ok (st', w) => go (i + 1) pk' st' (acc ++ [w])
                  end
                else go (i + 1) pk' st acc
              end in
            go 0 (prev_kvs prev) st []
          else
            let n := hdr / 2 in
            if multimap_limit <=? n then Err ELimit
            else
              let fix go (k : nat) (pk : list (rnode * rnode)) (st : rst) (acc : list (wire * wire)) : res (rst * wire) :=
                match k with
                | O => Ok (st, WMapFull acc)
                | Datatypes.S k' =>
                  let '(pkk, pv) := hd (RNil, RNil) pk in
                  match dec f env' (resolve env' kt) pkk st with
                  | Err e => Err e
                  | Ok (st1, wk) =>
                    match dec f env' (resolve env' vt) pv st1 with
                    | Err e => Err e
                    | Ok (st2, wv) => go k' (tl pk) st2 (acc ++ [(wk, wv)])
                    end
                  end
                end in
              go (N.to_nat n) (prev_kvs prev) st []
        end
      | ERec _ | EBad => Err EOther
      end
    end.
End Dec.
