(* The record-layer round trip: for every encoder tree (any schema), every writer state, every
   previous reader value and every future content of the columns, decoding what [enc] wrote
   returns the same syntax tree and leaves the reader in sync with the writer again.
     wire_roundtrip          one value / one record
     wire_roundtrip_records  a sequence of records, allocation counter reset before each
   Preconditions: [wire_ok] (WireOk.v) and enough fuel for the nesting depth. *)
From Coq Require Import List NArith ZArith Bool PArith Lia FMapPositive Arith.
From Coq Require Import ZifyN ZifyNat ZifyBool.
From Stef Require Import Bits BitsFacts BitIO BitIOFacts Varint VarintFacts Codecs CodecFacts Schema Wire WireOk
     WireFactsBase Writer.
Import ListNotations.
Open Scope N_scope.

(* the statement at a given fuel *)
Definition rt_at (sizes : N -> N) (f : nat) : Prop :=
  forall a env t prev ws rs T,
    sync T ws rs ->
    wire_ok sizes env t prev a ws (r_alloc rs) = true ->
    extends T (enc env t a ws) ->
    (height a < f)%nat ->
    exists rs', dec sizes f env t prev rs = Ok (rs', a)
             /\ sync T (enc env t a ws) rs'
             /\ r_alloc rs' = alloc_after sizes env t prev a (r_alloc rs).

Lemma half_even : forall n, 2 * n / 2 = n.
Proof. intros. rewrite N.mul_comm. apply N.div_mul. lia. Qed.

Lemma half_odd : forall n, (2 * n + 1) / 2 = n.
Proof.
  intros. rewrite N.mul_comm, N.add_comm. rewrite N.div_add by lia. reflexivity.
Qed.

Lemma even_odd_hdr : forall n, N.even (2 * n + 1) = false.
Proof. intros. rewrite N.add_comm, N.even_add_mul_2. reflexivity. Qed.

Lemma even_even_hdr : forall n, N.even (2 * n) = true.
Proof. intros. rewrite <- (N.add_0_l (2 * n)), N.even_add_mul_2. reflexivity. Qed.

Lemma aa_eq_prim : forall sizes env c p d prev a al, alloc_after sizes env (EPrim c p d) prev a al = al.
Proof. intros. destruct a; reflexivity. Qed.

Section Step.
  Variable sizes : N -> N.
  Variable f : nat.
  Hypothesis IH : rt_at sizes f.

  (* ---------------------------------------------------------------- struct fields *)
  Lemma rt_fields : forall env' prev mask present T fs i oi fts opts pf ws rs acc,
    sync T ws rs ->
    ok_fields sizes env' prev mask present i oi fts opts fs pf ws (r_alloc rs) = true ->
    extends T (enc_fields env' fts fs ws) ->
    Forall (fun x => match x with Some x => (height x < f)%nat | None => True end) fs ->
    exists rs', dec_fields (dec sizes f) env' prev mask present i oi fts opts pf rs acc = Ok (rs', acc ++ fs)
             /\ sync T (enc_fields env' fts fs ws) rs'
             /\ r_alloc rs' = aa_fields sizes env' prev oi fts opts fs pf (r_alloc rs).
  Proof.
    intros env' prev mask present T.
    induction fs as [|fo fs IHfs]; intros i oi fts opts pf ws rs acc HS Hok HE HF.
    - destruct fts; destruct opts; cbn [ok_fields] in Hok; try discriminate Hok.
      exists rs. cbn [dec_fields enc_fields aa_fields]. rewrite app_nil_r.
      split; [reflexivity|]. split; [assumption|reflexivity].
    - destruct fts as [|ft fts]; destruct opts as [|o opts]; cbn [ok_fields] in Hok; try discriminate Hok.
      inversion HF as [|? ? Hh HF']; subst.
      cbn [enc_fields] in HE |- *. cbn [aa_fields dec_fields].
      destruct fo as [a'|].
      + apply andb_true_iff in Hok. destruct Hok as [Hok Hgo].
        apply andb_true_iff in Hok. destruct Hok as [Hok Hw].
        apply andb_true_iff in Hok. destruct Hok as [Henc Hnd].
        rewrite Henc.
        set (pi := if o && negb (N.testbit (prev_present prev) oi) then RNil else hd RNil pf) in *.
        assert (HE' : extends T (enc env' (resolve env' ft) a' ws))
          by (eapply extends_mono; [apply mono_fields|exact HE]).
        destruct (IH a' env' (resolve env' ft) pi ws rs T HS Hw HE' Hh) as [rs1 [D1 [S1 A1]]].
        rewrite D1.
        assert (HK : forall (A : Type) (x y : A),
                   match a' with WDictRef 0 => if o then x else y | _ => x end = x).
        { intros A x y. destruct a' as [| | | | | | ref | | | | |]; try reflexivity.
          destruct ref; [|reflexivity]. destruct o; [reflexivity|discriminate Hnd]. }
        rewrite HK. rewrite <- A1 in Hgo.
        destruct (IHfs (i + 1) (if o then oi + 1 else oi) fts opts (tl pf) _ rs1 (acc ++ [Some a']) S1 Hgo HE HF')
          as [rs2 [D2 [S2 A2]]].
        exists rs2. rewrite D2, <- app_assoc. cbn [app].
        split; [reflexivity|]. split; [assumption|]. rewrite A2, A1. reflexivity.
      + apply andb_true_iff in Hok. destruct Hok as [Henc Hgo].
        apply negb_true_iff in Henc. rewrite Henc.
        destruct (IHfs (i + 1) (if o then oi + 1 else oi) fts opts (tl pf) _ rs (acc ++ [None]) HS Hgo HE HF')
          as [rs2 [D2 [S2 A2]]].
        exists rs2. rewrite D2, <- app_assoc. cbn [app].
        split; [reflexivity|]. split; assumption.
  Qed.

  Lemma rt_body : forall prev c fc opts fts env' mask present fields T ws rs,
    sync T ws rs ->
    ok_body sizes prev (r_alloc rs) c fc opts fts env' mask present fields ws = true ->
    extends T (enc_body c fc opts fts env' mask present fields ws) ->
    Forall (fun x => match x with Some x => (height x < f)%nat | None => True end) fields ->
    exists rs', dec_body (dec sizes f) prev c fc opts fts env' rs = Ok (rs', WStruct mask present fields)
             /\ sync T (enc_body c fc opts fts env' mask present fields ws) rs'
             /\ r_alloc rs' = aa_fields sizes env' prev 0 fts opts fields (prev_fields prev) (r_alloc rs).
  Proof.
    intros prev c fc opts fts env' mask present fields T ws rs HS Hok HE HF.
    unfold ok_body in Hok. unfold enc_body in HE |- *.
    repeat (apply andb_true_iff in Hok; let H := fresh "Hc" in destruct Hok as [Hok H]).
    apply N.leb_le in Hok. apply N.leb_le in Hc5. apply N.ltb_lt in Hc4. apply N.ltb_lt in Hc3.
    set (b1 := bits_of_N (N.to_nat fc) mask) in *. set (b2 := bits_of_N (opt_count opts) present) in *.
    assert (HE1 : extends T (add_bits ws c (b1 ++ b2)))
      by (eapply extends_mono; [apply mono_fields|exact HE]).
    destruct (tok_rem_bits _ _ _ _ _ HS HE1) as [rest Hrem].
    pose proof Hrem as Hrem0. rewrite <- app_assoc in Hrem.
    destruct (sync_col T ws rs c HS) as (_ & Cwf & _).
    destruct (br_read_bits_N _ (N.to_nat fc) mask (b2 ++ rest) Cwf Hrem) as [r1 [R1 [W1 M1]]];
      [lia|rewrite N2Nat.id; assumption|].
    destruct (br_read_bits_N _ (opt_count opts) present rest W1 M1) as [r2 [R2 [W2 M2]]];
      [lia|assumption|].
    pose proof (sync_add_bits T ws rs c (b1 ++ b2) rest r2 HS Hrem0 W2 M2) as S1.
    destruct (rt_fields env' prev mask present T fields 0 0 fts opts (prev_fields prev)
                (add_bits ws c (b1 ++ b2)) (rset_br rs c r2) [] S1 Hc HE HF) as [rs2 [D2 [S2 A2]]].
    exists rs2. unfold dec_body. rewrite R1, R2. cbv beta iota zeta. rewrite D2.
    rewrite (sync_col_err _ _ _ c S2). cbn [app].
    split; [reflexivity|]. split; [assumption|exact A2].
  Qed.

  (* ---------------------------------------------------------------- array elements *)
  Lemma rt_elems : forall env' et c T es pe ws rs acc,
    sync T ws rs ->
    ok_elems sizes env' et es pe ws (r_alloc rs) = true ->
    extends T (enc_elems env' et es ws) ->
    Forall (fun x => (height x < f)%nat) es ->
    exists rs', run (dec_arr_step (dec sizes f) env' et c) (S (length es)) (N.of_nat (length es), pe, rs, acc)
                = inr (Ok (rs', WArr (rev acc ++ es)))
             /\ sync T (enc_elems env' et es ws) rs'
             /\ r_alloc rs' = aa_elems sizes env' et es pe (r_alloc rs).
  Proof.
    intros env' et c T. induction es as [|e es IHes]; intros pe ws rs acc HS Hok HE HF.
    - exists rs. cbn [length run enc_elems aa_elems]. unfold dec_arr_step. cbn [N.of_nat N.eqb].
      rewrite (sync_col_err _ _ _ c HS), app_nil_r.
      split; [reflexivity|]. split; [assumption|reflexivity].
    - cbn [ok_elems] in Hok. apply andb_true_iff in Hok. destruct Hok as [Hw Hgo].
      inversion HF as [|? ? Hh HF']; subst.
      cbn [enc_elems] in HE |- *. cbn [aa_elems].
      assert (HE' : extends T (enc env' (resolve env' et) e ws))
        by (eapply extends_mono; [apply mono_elems|exact HE]).
      destruct (IH e env' (resolve env' et) (hd RNil pe) ws rs T HS Hw HE' Hh) as [rs1 [D1 [S1 A1]]].
      rewrite <- A1 in Hgo.
      destruct (IHes (tl pe) _ rs1 (e :: acc) S1 Hgo HE HF') as [rs2 [D2 [S2 A2]]].
      exists rs2. split; [|split; [assumption|rewrite A2, A1; reflexivity]].
      change (length (e :: es)) with (S (length es)).
      remember (S (length es)) as m eqn:Em.
      cbn [run]. unfold dec_arr_step at 1.
      assert (Hk : (N.of_nat m =? 0) = false) by (apply N.eqb_neq; lia).
      rewrite Hk, D1.
      replace (N.of_nat m - 1) with (N.of_nat (length es)) by lia.
      subst m. rewrite D2. cbn [rev]. rewrite <- app_assoc. reflexivity.
  Qed.

  (* ---------------------------------------------------------------- multimap, values only *)
  Lemma rt_vals : forall env' vt changed T pk vals i ws rs acc,
    sync T ws rs ->
    length vals = length (sel_prevs changed i pk) ->
    ok_elems sizes env' vt vals (sel_prevs changed i pk) ws (r_alloc rs) = true ->
    extends T (enc_elems env' vt vals ws) ->
    Forall (fun x => (height x < f)%nat) vals ->
    exists rs', dec_vals (dec sizes f) env' vt changed i pk rs acc = Ok (rs', WMapVals changed (acc ++ vals))
             /\ sync T (enc_elems env' vt vals ws) rs'
             /\ r_alloc rs' = aa_elems sizes env' vt vals (sel_prevs changed i pk) (r_alloc rs).
  Proof.
    intros env' vt changed T. induction pk as [|[pkk pv] pk IHpk]; intros vals i ws rs acc HS Hlen Hok HE HF.
    - cbn [sel_prevs length] in Hlen. destruct vals; [|discriminate Hlen].
      exists rs. cbn [dec_vals enc_elems aa_elems]. rewrite app_nil_r.
      split; [reflexivity|]. split; [assumption|reflexivity].
    - cbn [sel_prevs] in Hlen, Hok |- *. cbn [dec_vals].
      destruct ((i <? 64) && N.testbit changed i).
      + destruct vals as [|v vals]; [discriminate Hlen|].
        cbn [length] in Hlen. injection Hlen as Hlen.
        cbn [ok_elems hd tl] in Hok. apply andb_true_iff in Hok. destruct Hok as [Hw Hgo].
        inversion HF as [|? ? Hh HF']; subst.
        cbn [enc_elems] in HE |- *. cbn [aa_elems hd tl].
        assert (HE' : extends T (enc env' (resolve env' vt) v ws))
          by (eapply extends_mono; [apply mono_elems|exact HE]).
        destruct (IH v env' (resolve env' vt) pv ws rs T HS Hw HE' Hh) as [rs1 [D1 [S1 A1]]].
        rewrite D1. rewrite <- A1 in Hgo.
        destruct (IHpk vals (i + 1) _ rs1 (acc ++ [v]) S1 Hlen Hgo HE HF') as [rs2 [D2 [S2 A2]]].
        exists rs2. rewrite D2, <- app_assoc. cbn [app].
        split; [reflexivity|]. split; [assumption|]. rewrite A2, A1. reflexivity.
      + apply IHpk; assumption.
  Qed.

  (* ---------------------------------------------------------------- multimap, full *)
  Lemma rt_kvs : forall env' kt vt T l pk ws rs acc,
    sync T ws rs ->
    ok_kvs sizes env' kt vt l pk ws (r_alloc rs) = true ->
    extends T (enc_kvs env' kt vt l ws) ->
    Forall (fun kv => (height (fst kv) < f)%nat /\ (height (snd kv) < f)%nat) l ->
    exists rs', dec_full (dec sizes f) env' kt vt (length l) pk rs acc = Ok (rs', WMapFull (acc ++ l))
             /\ sync T (enc_kvs env' kt vt l ws) rs'
             /\ r_alloc rs' = aa_kvs sizes env' kt vt l pk (r_alloc rs).
  Proof.
    intros env' kt vt T. induction l as [|[k v] l IHl]; intros pk ws rs acc HS Hok HE HF.
    - exists rs. cbn [length dec_full enc_kvs aa_kvs]. rewrite app_nil_r.
      split; [reflexivity|]. split; [assumption|reflexivity].
    - cbn [ok_kvs] in Hok. cbn [length dec_full aa_kvs]. cbn [enc_kvs] in HE |- *.
      destruct (hd (RNil, RNil) pk) as [pkk pv].
      apply andb_true_iff in Hok. destruct Hok as [Hok Hgo].
      apply andb_true_iff in Hok. destruct Hok as [Hwk Hwv].
      inversion HF as [|? ? [Hhk Hhv] HF']; subst. cbn [fst snd] in Hhk, Hhv.
      assert (HEv : extends T (enc env' (resolve env' vt) v (enc env' (resolve env' kt) k ws)))
        by (eapply extends_mono; [apply mono_kvs|exact HE]).
      assert (HEk : extends T (enc env' (resolve env' kt) k ws))
        by (eapply extends_mono; [apply mono_enc|exact HEv]).
      destruct (IH k env' (resolve env' kt) pkk ws rs T HS Hwk HEk Hhk) as [rs1 [D1 [S1 A1]]].
      rewrite D1. rewrite <- A1 in Hwv, Hgo.
      destruct (IH v env' (resolve env' vt) pv _ rs1 T S1 Hwv HEv Hhv) as [rs2 [D2 [S2 A2]]].
      rewrite D2. rewrite <- A2 in Hgo.
      destruct (IHl (tl pk) _ rs2 (acc ++ [(k, v)]) S2 Hgo HE HF') as [rs3 [D3 [S3 A3]]].
      exists rs3. rewrite D3, <- app_assoc. cbn [app].
      split; [reflexivity|]. split; [assumption|]. rewrite A3, A2, A1. reflexivity.
  Qed.

  (* ---------------------------------------------------------------- one more level of fuel *)
  Lemma rt_step : rt_at sizes (S f).
  Proof.
    intros a env t prev ws rs T HS Hok HE Hh.
    destruct t as [c p d|c sid oneof d fc opts fts|c k et|c mid kt vt|k|].
    - (* primitive *)
      rewrite dec_eq_prim, aa_eq_prim. rewrite enc_eq_prim in HE |- *. rewrite ok_eq_prim in Hok.
      exact (rt_prim T ws rs c p d a HS Hok HE).
    - destruct oneof.
      + (* oneof *)
        destruct a as [| | | | | | | |tag alt| | |]; try discriminate Hok.
        rewrite ok_eq_oneof in Hok. rewrite enc_eq_oneof in HE |- *. rewrite dec_eq_oneof.
        cbv zeta in Hok, HE |- *.
        apply andb_true_iff in Hok. destruct Hok as [Hok Halt].
        apply andb_true_iff in Hok. destruct Hok as [Htag Hbits].
        apply N.leb_le in Htag. apply N.leb_le in Hbits.
        set (ws1 := add_bits ws c (bits_of_N (oneof_bits fc) tag)) in *.
        assert (HE1 : extends T ws1).
        { destruct alt; [eapply extends_mono; [apply mono_enc|exact HE]|exact HE]. }
        destruct (tok_rem_bits _ _ _ _ _ HS HE1) as [rest Hrem].
        destruct (sync_col T ws rs c HS) as (_ & Cwf & _).
        destruct (br_read_bits_N _ (oneof_bits fc) tag rest Cwf Hrem) as [r1 [R1 [W1 M1]]].
        { lia. }
        { unfold oneof_bits. rewrite N2Nat.id. pose proof (N.size_gt (fc + 1)). lia. }
        pose proof (sync_add_bits T ws rs c _ rest r1 HS Hrem W1 M1) as S1. fold ws1 in S1.
        rewrite R1. cbv beta iota zeta.
        destruct (N.leb_spec (fc + 1) tag) as [?|_]; [lia|].
        destruct W1 as [W1e W1p]. rewrite W1e.
        destruct alt as [a'|].
        * apply andb_true_iff in Halt. destruct Halt as [Hnz Hw].
          apply negb_true_iff in Hnz. rewrite Hnz.
          assert (Hh' : (height a' < f)%nat) by (cbn [height] in Hh; lia).
          destruct (IH a' _ _ (prev_alt prev tag) ws1 (rset_br rs c r1) T S1 Hw HE Hh') as [rs2 [D2 [S2 A2]]].
          rewrite D2. exists rs2. split; [reflexivity|]. split; [assumption|].
          rewrite aa_eq_oneof. exact A2.
        * apply N.eqb_eq in Halt. subst tag. cbn [N.eqb].
          exists (rset_br rs c r1). split; [reflexivity|]. split; [assumption|reflexivity].
      + destruct d as [dn|].
        * (* dictionary struct *)
          destruct a as [| | | | | |ref|s| | | |]; try discriminate Hok.
          -- (* reference *)
             rewrite ok_eq_dictref in Hok. rewrite enc_eq_dictref in HE |- *. rewrite dec_eq_dict.
             apply andb_true_iff in Hok. destruct Hok as [Href H48].
             apply N.ltb_lt in Href. apply N.ltb_lt in H48.
             destruct (tok_rem_bits _ _ _ _ _ HS HE) as [rest Hrem].
             pose proof Hrem as Hrem0. rewrite <- app_assoc in Hrem.
             destruct (sync_col T ws rs c HS) as (_ & Cwf & _).
             destruct (br_read_bits_app _ [false] (uvc_write_bits ref ++ rest) Cwf Hrem) as [r1 [R1 [W1 M1]]];
               [cbn; lia|].
             destruct (uvc_roundtrip r1 ref rest H48 W1 M1) as [r2 [R2 [W2 M2]]].
             pose proof (sync_add_bits T ws rs c _ rest r2 HS Hrem0 W2 M2) as S1.
             cbn [length] in R1. rewrite R1. change (N_of_bits [false]) with 0.
             cbv beta iota zeta. cbn [N.eqb]. rewrite R2. cbv beta iota zeta.
             assert (Htl : r_tl (rset_br rs c r2) dn = w_tl ws dn) by exact (sy_tl _ _ _ HS dn).
             rewrite Htl.
             destruct (N.leb_spec (w_tl ws dn) ref) as [?|_]; [lia|].
             destruct W2 as [W2e W2p]. rewrite W2e.
             exists (rset_br rs c r2). split; [reflexivity|]. split; [assumption|reflexivity].
          -- (* full value *)
             destruct s as [| | | | |mask present fields| | | | | |]; try discriminate Hok.
             rewrite ok_eq_dictfull in Hok. rewrite enc_eq_dictfull in HE |- *. rewrite dec_eq_dict.
             rewrite aa_eq_dictfull. cbv zeta in HE |- *.
             set (env' := push_env env (EStruct c sid false (Some dn) fc opts fts)) in *.
             set (ws1 := add_bits ws c [true]) in *.
             assert (HEb : extends T (enc_body c fc opts fts env' mask present fields ws1)) by exact HE.
             assert (HE1 : extends T ws1).
             { eapply extends_mono; [|exact HEb]. unfold enc_body.
               eapply mono_trans; [apply mono_add_bits|apply mono_fields]. }
             destruct (tok_rem_bits _ _ _ _ _ HS HE1) as [rest Hrem].
             destruct (sync_col T ws rs c HS) as (_ & Cwf & _).
             destruct (br_read_bits_app _ [true] rest Cwf Hrem) as [r1 [R1 [W1 M1]]]; [cbn; lia|].
             pose proof (sync_add_bits T ws rs c _ rest r1 HS Hrem W1 M1) as S1. fold ws1 in S1.
             cbn [length] in R1. rewrite R1. change (N_of_bits [true]) with 1.
             cbv beta iota zeta. cbn [N.eqb].
             assert (HF : Forall (fun x => match x with Some x => (height x < f)%nat | None => True end) fields).
             { apply height_fields_lt. cbn [height] in Hh. lia. }
             destruct (rt_body prev c fc opts fts env' mask present fields T ws1 (rset_br rs c r1) S1 Hok HEb HF)
               as [rs2 [D2 [S2 A2]]].
             rewrite D2. eexists. split; [reflexivity|]. split; [|exact A2].
             rewrite (sy_tl _ _ _ S2 dn). apply sync_tlen. exact S2.
        * (* plain struct *)
          destruct a as [| | | | |mask present fields| | | | | |]; try discriminate Hok.
          rewrite ok_eq_struct in Hok. rewrite enc_eq_struct in HE |- *. rewrite dec_eq_struct, aa_eq_struct.
          apply rt_body; try assumption.
          apply height_fields_lt. cbn [height] in Hh. lia.
    - (* array *)
      destruct a as [| | | | | | | | |elems| |]; try discriminate Hok.
      rewrite ok_eq_arr in Hok. rewrite enc_eq_arr in HE |- *. rewrite dec_eq_arr, aa_eq_arr.
      cbv zeta in Hok |- *.
      set (n := N.of_nat (length elems)) in *.
      set (env' := push_env env (EArr c k et)) in *.
      set (grow := n - N.of_nat (length (prev_elems prev))) in *.
      apply andb_true_iff in Hok. destruct Hok as [Hok Hgo].
      apply andb_true_iff in Hok. destruct Hok as [Hn Hlim].
      apply N.ltb_lt in Hn. apply negb_true_iff in Hlim.
      set (ws1 := add_bits ws c (uvc_write_bits n)) in *.
      assert (HE1 : extends T ws1) by (eapply extends_mono; [apply mono_elems|exact HE]).
      destruct (tok_rem_bits _ _ _ _ _ HS HE1) as [rest Hrem].
      destruct (sync_col T ws rs c HS) as (_ & Cwf & _).
      assert (H48 : n < two48) by (unfold two48; change (2 ^ 40) with 1099511627776 in Hn; lia).
      destruct (uvc_roundtrip _ n rest H48 Cwf Hrem) as [r1 [R1 [W1 M1]]].
      pose proof (sync_add_bits T ws rs c _ rest r1 HS Hrem W1 M1) as S1. fold ws1 in S1.
      rewrite R1. cbv beta iota zeta.
      change (r_alloc (rset_br rs c r1)) with (r_alloc rs). fold grow. rewrite Hlim.
      set (al1 := if 0 <? grow then r_alloc rs + grow * elem_size sizes et else r_alloc rs) in *.
      set (rs1 := mkRst (r_cols (rset_br rs c r1)) (r_sdict (rset_br rs c r1)) (r_tlen (rset_br rs c r1)) al1).
      assert (S1' : sync T ws1 rs1) by (apply sync_alloc; exact S1).
      assert (HF : Forall (fun x => (height x < f)%nat) elems).
      { apply height_elems_lt. cbn [height] in Hh. lia. }
      destruct (rt_elems env' et c T elems (prev_elems prev) ws1 rs1 [] S1' Hgo HE HF) as [rs2 [D2 [S2 A2]]].
      fold n in D2. rewrite (iter_pow_loop_k _ _ _ _ D2).
      + exists rs2. cbn [rev app]. split; [reflexivity|]. split; [assumption|exact A2].
      + fold n. rewrite Nat2N.inj_succ. fold n. lia.
    - (* multimap *)
      destruct a as [| | | | | | | | | |kvs|changed vals]; try discriminate Hok.
      + (* full *)
        rewrite ok_eq_mapfull in Hok. rewrite enc_eq_mapfull in HE |- *. rewrite dec_eq_map, aa_eq_mapfull.
        cbv zeta in Hok |- *.
        set (n := N.of_nat (length kvs)) in *.
        set (env' := push_env env (EMap c mid kt vt)) in *.
        apply andb_true_iff in Hok. destruct Hok as [Hn Hgo].
        apply N.ltb_lt in Hn. unfold multimap_limit in Hn.
        set (ws1 := add_bytes ws c (leb_enc (2 * n + 1))) in *.
        assert (HE1 : extends T ws1) by (eapply extends_mono; [apply mono_kvs|exact HE]).
        destruct (tok_rem_bytes _ _ _ _ _ HS HE1) as [rest Hrem].
        pose proof (sync_add_bytes T ws rs c _ rest HS Hrem) as S1. fold ws1 in S1.
        rewrite Hrem, leb_roundtrip by (unfold two64; lia).
        assert (Hz : (2 * n + 1 =? 0) = false) by (apply N.eqb_neq; lia).
        rewrite Hz, even_odd_hdr, half_odd.
        destruct (N.leb_spec multimap_limit n) as [?|_]; [unfold multimap_limit in *; lia|].
        unfold n at 1. rewrite Nat2N.id.
        assert (HF : Forall (fun kv => (height (fst kv) < f)%nat /\ (height (snd kv) < f)%nat) kvs).
        { apply height_kvs_lt. cbn [height] in Hh. lia. }
        destruct (rt_kvs env' kt vt T kvs (prev_kvs prev) ws1 _ [] S1 Hgo HE HF) as [rs2 [D2 [S2 A2]]].
        rewrite D2. exists rs2. cbn [app]. split; [reflexivity|]. split; [assumption|exact A2].
      + (* values only *)
        rewrite ok_eq_mapvals in Hok. rewrite enc_eq_mapvals in HE |- *. rewrite dec_eq_map, aa_eq_mapvals.
        cbv zeta in Hok |- *.
        set (env' := push_env env (EMap c mid kt vt)) in *.
        apply andb_true_iff in Hok. destruct Hok as [Hok Hgo].
        apply andb_true_iff in Hgo. destruct Hgo as [Hlen Hgo].
        apply andb_true_iff in Hok. destruct Hok as [Hch Hz].
        apply N.ltb_lt in Hch. apply Nat.eqb_eq in Hlen.
        set (ws1 := add_bytes ws c (leb_enc (2 * changed))) in *.
        assert (HE1 : extends T ws1) by (eapply extends_mono; [apply mono_elems|exact HE]).
        destruct (tok_rem_bytes _ _ _ _ _ HS HE1) as [rest Hrem].
        pose proof (sync_add_bytes T ws rs c _ rest HS Hrem) as S1. fold ws1 in S1.
        rewrite Hrem, leb_roundtrip
          by (unfold two64; change (2 ^ 63) with 9223372036854775808 in Hch; lia).
        destruct (N.eqb_spec changed 0) as [->|Hnz].
        * destruct vals; [|discriminate Hz].
          cbn [N.mul N.eqb enc_elems aa_elems].
          eexists. split; [reflexivity|]. split; [exact S1|reflexivity].
        * assert (Hz' : (2 * changed =? 0) = false) by (apply N.eqb_neq; lia).
          rewrite Hz', even_even_hdr, half_even.
          assert (HF : Forall (fun x => (height x < f)%nat) vals).
          { apply height_elems_lt. cbn [height] in Hh. lia. }
          destruct (rt_vals env' vt changed T (prev_kvs prev) vals 0 ws1 _ [] S1 Hlen Hgo HE HF)
            as [rs2 [D2 [S2 A2]]].
          rewrite D2. exists rs2. cbn [app]. split; [reflexivity|]. split; [assumption|exact A2].
    - destruct a; discriminate Hok.
    - destruct a; discriminate Hok.
  Qed.
End Step.

Lemma rt_all : forall sizes fuel, rt_at sizes fuel.
Proof.
  intros sizes. induction fuel as [|f IHf].
  - intros a env t prev ws rs T _ _ _ Hh. lia.
  - apply rt_step. exact IHf.
Qed.

(* ------------------------------------------------------------------ the theorems *)
Theorem wire_roundtrip : forall sizes a env t prev ws rs T fuel,
  sync T ws rs ->
  wire_ok sizes env t prev a ws (r_alloc rs) = true ->
  extends T (enc env t a ws) ->
  (height a < fuel)%nat ->
  exists rs', dec sizes fuel env t prev rs = Ok (rs', a)
           /\ sync T (enc env t a ws) rs'
           /\ r_alloc rs' = alloc_after sizes env t prev a (r_alloc rs).
Proof. intros sizes a env t prev ws rs T fuel. apply rt_all. Qed.

(* [enc] never raises the writer's error flag on an encodable tree (part of [sync]) *)
Corollary enc_no_error : forall sizes a env t prev ws rs T,
  sync T ws rs -> wire_ok sizes env t prev a ws (r_alloc rs) = true -> extends T (enc env t a ws) ->
  w_err (enc env t a ws) = false.
Proof.
  intros sizes a env t prev ws rs T HS Hok HE.
  destruct (wire_roundtrip sizes a env t prev ws rs T (S (height a)) HS Hok HE (Nat.lt_succ_diag_r _))
    as [rs' [_ [S' _]]].
  exact (sy_noerr _ _ _ S').
Qed.

(* ------------------------------------------------------------------ sequences of records *)
(* reader.go.tmpl Read: the allocation counter restarts for every record *)
Definition reset_alloc (rs : rst) : rst := mkRst (r_cols rs) (r_sdict rs) (r_tlen rs) 0.

(* a record comes with the value the reader holds when it decodes it *)
Fixpoint enc_records (env : renv) (t : etree) (recs : list (rnode * wire)) (ws : wst) : wst :=
  match recs with
  | [] => ws
  | (_, a) :: r => enc_records env t r (enc env t a ws)
  end.

Fixpoint records_ok (sizes : N -> N) (env : renv) (t : etree) (recs : list (rnode * wire)) (ws : wst) : bool :=
  match recs with
  | [] => true
  | (p, a) :: r => wire_ok sizes env t p a ws 0 && records_ok sizes env t r (enc env t a ws)
  end.

Fixpoint dec_records (sizes : N -> N) (fuel : nat) (env : renv) (t : etree) (prevs : list rnode) (rs : rst)
  : res (rst * list wire) :=
  match prevs with
  | [] => Ok (rs, [])
  | p :: ps =>
    match dec sizes fuel env t p (reset_alloc rs) with
    | Err e => Err e
    | Ok (rs1, a) =>
      match dec_records sizes fuel env t ps rs1 with
      | Err e => Err e
      | Ok (rs2, l) => Ok (rs2, a :: l)
      end
    end
  end.

Lemma enc_records_fold : forall env t recs ws,
  enc_records env t recs ws = fold_left (fun st a => enc env t a st) (map snd recs) ws.
Proof.
  intros env t. induction recs as [|[p a] recs IHr]; intros ws; [reflexivity|].
  cbn [enc_records map snd fold_left]. apply IHr.
Qed.

Lemma mono_records : forall env t recs ws, mono ws (enc_records env t recs ws).
Proof.
  intros env t. induction recs as [|[p a] recs IHr]; intros ws; [apply mono_refl|].
  cbn [enc_records]. eapply mono_trans; [apply mono_enc|apply IHr].
Qed.

Theorem wire_roundtrip_records : forall sizes (recs : list (rnode * wire)) env t ws rs T fuel,
  sync T ws rs ->
  records_ok sizes env t recs ws = true ->
  extends T (enc_records env t recs ws) ->
  Forall (fun pa => (height (snd pa) < fuel)%nat) recs ->
  exists rs', dec_records sizes fuel env t (map fst recs) rs = Ok (rs', map snd recs)
           /\ sync T (enc_records env t recs ws) rs'.
Proof.
  intros sizes. induction recs as [|[p a] recs IHr]; intros env t ws rs T fuel HS Hok HE HF.
  - exists rs. split; [reflexivity|exact HS].
  - cbn [records_ok] in Hok. apply andb_true_iff in Hok. destruct Hok as [Hw Hgo].
    inversion HF as [|? ? Hh HF']; subst. cbn [snd] in Hh.
    cbn [enc_records] in HE |- *. cbn [map fst snd dec_records].
    assert (HE' : extends T (enc env t a ws)) by (eapply extends_mono; [apply mono_records|exact HE]).
    assert (HS0 : sync T ws (reset_alloc rs)) by (apply sync_alloc; exact HS).
    destruct (wire_roundtrip sizes a env t p ws (reset_alloc rs) T fuel HS0 Hw HE' Hh) as [rs1 [D1 [S1 _]]].
    rewrite D1.
    destruct (IHr env t _ rs1 T fuel S1 Hgo HE HF') as [rs2 [D2 S2]].
    rewrite D2. exists rs2. split; [reflexivity|exact S2].
Qed.

(* ------------------------------------------------------------------ link to Writer.frame_check *)
(* [frame_check] (Writer.v) evaluates [wire_ok] on every record a frame really contains; its list
   of verdicts is all-true exactly when [records_ok] holds, and its final writer state is
   [enc_records] *)
Fixpoint records_oks (sizes : N -> N) (env : renv) (t : etree) (recs : list (rnode * wire)) (ws : wst) : list bool :=
  match recs with
  | [] => []
  | (p, a) :: r => wire_ok sizes env t p a ws 0 :: records_oks sizes env t r (enc env t a ws)
  end.

Lemma records_ok_forallb : forall sizes env t recs ws,
  records_ok sizes env t recs ws = forallb (fun b => b) (records_oks sizes env t recs ws).
Proof.
  intros sizes env t. induction recs as [|[p a] recs IHr]; intros ws; [reflexivity|].
  cbn [records_ok records_oks forallb]. rewrite IHr. reflexivity.
Qed.

Lemma frame_check_fold : forall sizes env t recs ws oks0,
  fold_left (fun (acc : wst * list bool) pa =>
               let '(st, oks) := acc in
               let '(prev, a) := pa in
               (enc env t a st, oks ++ [wire_ok sizes env t prev a st 0]))
            recs (ws, oks0)
  = (enc_records env t recs ws, oks0 ++ records_oks sizes env t recs ws).
Proof.
  intros sizes env t. induction recs as [|[p a] recs IHr]; intros ws oks0.
  - cbn [fold_left enc_records records_oks]. rewrite app_nil_r. reflexivity.
  - cbn [fold_left enc_records records_oks]. rewrite IHr, <- app_assoc. reflexivity.
Qed.

Lemma frame_check_records : forall sizes t fl st recs,
  Writer.frame_check sizes t fl st recs =
  (enc_records [] t recs (Writer.w_restart fl st), records_oks sizes [] t recs (Writer.w_restart fl st)).
Proof. intros. unfold Writer.frame_check. apply frame_check_fold. Qed.
