(* Building blocks of the record-layer round trip (WireFacts.v):
   1. get-after-set facts of the writer / reader state maps, and what they mean for [sync];
   2. "token" lemmas: what the writer appends to a column is what the reader finds there;
   3. the inner loops of [enc], [dec], [wire_ok], [alloc_after] as top-level functions with
      unfolding equations (all by conversion);
   4. [enc] only appends to columns (monotonicity of [extends]);
   5. [iter_pow] as a bounded run of a step function. *)
From Coq Require Import List NArith ZArith Bool PArith Lia FMapPositive Arith.
From Coq Require Import ZifyN ZifyNat ZifyBool.
From Stef Require Import Bits BitsFacts BitIO BitIOFacts Varint VarintFacts Codecs CodecFacts Schema Wire WireOk.
Import ListNotations.
Open Scope N_scope.

(* ------------------------------------------------------------------ 1. state maps *)
Lemma wget_wset_same : forall st c x, wget (wset st c x) c = x.
Proof. intros. unfold wget, wset. cbn [w_cols]. rewrite PM.gss. reflexivity. Qed.

Lemma wget_wset_other : forall st c c' x, c' <> c -> wget (wset st c x) c' = wget st c'.
Proof. intros. unfold wget, wset. cbn [w_cols]. rewrite PM.gso by assumption. reflexivity. Qed.

Lemma rget_rset_same : forall st c x, rget (rset st c x) c = x.
Proof. intros. unfold rget, rset. cbn [r_cols]. rewrite PM.gss. reflexivity. Qed.

Lemma rget_rset_other : forall st c c' x, c' <> c -> rget (rset st c x) c' = rget st c'.
Proof. intros. unfold rget, rset. cbn [r_cols]. rewrite PM.gso by assumption. reflexivity. Qed.

Lemma dk_inj : forall a b, dk a = dk b -> a = b.
Proof.
  unfold dk. intros a b H.
  assert (E : N.pos (N.succ_pos a) = N.pos (N.succ_pos b)) by (rewrite H; reflexivity).
  rewrite !N.succ_pos_spec in E. lia.
Qed.

(* the part of [sync] that concerns one column *)
Definition colsync (T : totals) (c : positive) (x : wcol) (y : rcol) : Prop :=
  wc_bits x ++ br_rem (rc_br y) = t_bits T c /\ br_wf (rc_br y) /\
  wc_bytes x ++ rc_bytes y = t_bytes T c /\
  (rc_u y = wc_u x /\ u64_wf (wc_u x)) /\ (rc_f y = wc_f x /\ f64_wf (wc_f x)).

Lemma sync_col : forall T ws rs c, sync T ws rs -> colsync T c (wget ws c) (rget rs c).
Proof.
  intros T ws rs c H. unfold colsync.
  split; [apply (sy_bits _ _ _ H)|]. split; [apply (sy_wf _ _ _ H)|].
  split; [apply (sy_bytes _ _ _ H)|]. split; [apply (sy_u _ _ _ H)|apply (sy_f _ _ _ H)].
Qed.

Lemma sync_set : forall T ws rs c x y, sync T ws rs -> colsync T c x y ->
  sync T (wset ws c x) (rset rs c y).
Proof.
  intros T ws rs c x y H (C1 & C2 & C3 & C4 & C5).
  constructor; try intros c'.
  - destruct (Pos.eq_dec c' c) as [->|N].
    + rewrite wget_wset_same, rget_rset_same. assumption.
    + rewrite wget_wset_other, rget_rset_other by assumption. apply (sy_bits _ _ _ H).
  - destruct (Pos.eq_dec c' c) as [->|N].
    + rewrite rget_rset_same. assumption.
    + rewrite rget_rset_other by assumption. apply (sy_wf _ _ _ H).
  - destruct (Pos.eq_dec c' c) as [->|N].
    + rewrite wget_wset_same, rget_rset_same. assumption.
    + rewrite wget_wset_other, rget_rset_other by assumption. apply (sy_bytes _ _ _ H).
  - destruct (Pos.eq_dec c' c) as [->|N].
    + rewrite wget_wset_same, rget_rset_same. assumption.
    + rewrite wget_wset_other, rget_rset_other by assumption. apply (sy_u _ _ _ H).
  - destruct (Pos.eq_dec c' c) as [->|N].
    + rewrite wget_wset_same, rget_rset_same. assumption.
    + rewrite wget_wset_other, rget_rset_other by assumption. apply (sy_f _ _ _ H).
  - exact (sy_sd _ _ _ H c').
  - exact (sy_tl _ _ _ H c').
  - exact (sy_noerr _ _ _ H).
Qed.

Lemma sync_col_err : forall T ws rs c, sync T ws rs -> col_err rs c = false.
Proof. intros T ws rs c H. unfold col_err. destruct (sy_wf _ _ _ H c) as [E _]. exact E. Qed.

(* string dictionary replaced on both sides *)
Lemma sync_sdict : forall T ws rs dn d', sync T ws rs ->
  sync T (mkWst (w_cols ws) (PM.add (dk dn) d' (w_sdict ws)) (w_tlen ws) (w_err ws))
         (mkRst (r_cols rs) (PM.add (dk dn) d' (r_sdict rs)) (r_tlen rs) (r_alloc rs)).
Proof.
  intros T ws rs dn d' H. constructor.
  - exact (sy_bits _ _ _ H).
  - exact (sy_wf _ _ _ H).
  - exact (sy_bytes _ _ _ H).
  - exact (sy_u _ _ _ H).
  - exact (sy_f _ _ _ H).
  - intros d. unfold r_sd, w_sd. cbn [r_sdict w_sdict].
    destruct (N.eq_dec d dn) as [->|N].
    + rewrite !PM.gss. reflexivity.
    + rewrite !PM.gso by (intro E; apply N; apply dk_inj; exact E). exact (sy_sd _ _ _ H d).
  - exact (sy_tl _ _ _ H).
  - exact (sy_noerr _ _ _ H).
Qed.

(* struct dictionary length replaced on both sides *)
Lemma sync_tlen : forall T ws rs dn n, sync T ws rs ->
  sync T (mkWst (w_cols ws) (w_sdict ws) (PM.add (dk dn) n (w_tlen ws)) (w_err ws))
         (mkRst (r_cols rs) (r_sdict rs) (PM.add (dk dn) n (r_tlen rs)) (r_alloc rs)).
Proof.
  intros T ws rs dn n H. constructor.
  - exact (sy_bits _ _ _ H).
  - exact (sy_wf _ _ _ H).
  - exact (sy_bytes _ _ _ H).
  - exact (sy_u _ _ _ H).
  - exact (sy_f _ _ _ H).
  - exact (sy_sd _ _ _ H).
  - intros d. unfold r_tl, w_tl. cbn [r_tlen w_tlen].
    destruct (N.eq_dec d dn) as [->|N].
    + rewrite !PM.gss. reflexivity.
    + rewrite !PM.gso by (intro E; apply N; apply dk_inj; exact E). exact (sy_tl _ _ _ H d).
  - exact (sy_noerr _ _ _ H).
Qed.

(* the allocation counter is not part of [sync] *)
Lemma sync_alloc : forall T ws rs al, sync T ws rs ->
  sync T ws (mkRst (r_cols rs) (r_sdict rs) (r_tlen rs) al).
Proof.
  intros T ws rs al H. constructor.
  - exact (sy_bits _ _ _ H).
  - exact (sy_wf _ _ _ H).
  - exact (sy_bytes _ _ _ H).
  - exact (sy_u _ _ _ H).
  - exact (sy_f _ _ _ H).
  - exact (sy_sd _ _ _ H).
  - exact (sy_tl _ _ _ H).
  - exact (sy_noerr _ _ _ H).
Qed.

(* ------------------------------------------------------------------ 2. tokens *)
(* the reader's column starts with what the writer appends, when T extends the result *)
Lemma tok_rem_bits_set : forall T ws rs c b by_ u f, sync T ws rs ->
  extends T (wset ws c (mkWcol (wc_bits (wget ws c) ++ b) by_ u f)) ->
  exists rest, br_rem (rc_br (rget rs c)) = b ++ rest.
Proof.
  intros T ws rs c b by_ u f H E. destruct (E c) as [[r Hr] _].
  rewrite wget_wset_same in Hr. cbn [wc_bits] in Hr.
  rewrite <- (sy_bits _ _ _ H c), <- app_assoc in Hr. apply app_inv_head in Hr.
  exists r. exact Hr.
Qed.

Lemma tok_rem_bytes_set : forall T ws rs c bs bi u f, sync T ws rs ->
  extends T (wset ws c (mkWcol bi (wc_bytes (wget ws c) ++ bs) u f)) ->
  exists rest, rc_bytes (rget rs c) = bs ++ rest.
Proof.
  intros T ws rs c bs bi u f H E. destruct (E c) as [_ [r Hr]].
  rewrite wget_wset_same in Hr. cbn [wc_bytes] in Hr.
  rewrite <- (sy_bytes _ _ _ H c), <- app_assoc in Hr. apply app_inv_head in Hr.
  exists r. exact Hr.
Qed.

Lemma tok_rem_bits : forall T ws rs c b, sync T ws rs -> extends T (add_bits ws c b) ->
  exists rest, br_rem (rc_br (rget rs c)) = b ++ rest.
Proof. intros T ws rs c b H E. unfold add_bits in E. eapply tok_rem_bits_set; eassumption. Qed.

Lemma tok_rem_bytes : forall T ws rs c b, sync T ws rs -> extends T (add_bytes ws c b) ->
  exists rest, rc_bytes (rget rs c) = b ++ rest.
Proof. intros T ws rs c b H E. unfold add_bytes in E. eapply tok_rem_bytes_set; eassumption. Qed.

(* consuming the appended bits re-establishes [sync]; the float state may change *)
Lemma sync_bits_f : forall T ws rs c b rest r' f', sync T ws rs ->
  br_rem (rc_br (rget rs c)) = b ++ rest -> br_wf r' -> br_rem r' = rest -> f64_wf f' ->
  sync T (wset ws c (mkWcol (wc_bits (wget ws c) ++ b) (wc_bytes (wget ws c)) (wc_u (wget ws c)) f'))
         (rset rs c (mkRcol r' (rc_bytes (rget rs c)) (rc_u (rget rs c)) f')).
Proof.
  intros T ws rs c b rest r' f' H Hrem Hwf Hr' Hf.
  apply sync_set; [assumption|].
  destruct (sync_col T ws rs c H) as (C1 & C2 & C3 & C4 & C5).
  unfold colsync. cbn [wc_bits wc_bytes wc_u wc_f rc_br rc_bytes rc_u rc_f].
  split; [rewrite <- app_assoc, Hr', <- Hrem; exact C1|].
  split; [assumption|]. split; [assumption|]. split; [assumption|]. split; [reflexivity|assumption].
Qed.

Lemma sync_add_bits : forall T ws rs c b rest r', sync T ws rs ->
  br_rem (rc_br (rget rs c)) = b ++ rest -> br_wf r' -> br_rem r' = rest ->
  sync T (add_bits ws c b) (rset_br rs c r').
Proof.
  intros T ws rs c b rest r' H Hrem Hwf Hr'.
  unfold add_bits, rset_br.
  destruct (sync_col T ws rs c H) as (_ & _ & _ & _ & C5).
  destruct C5 as [C5 C6]. rewrite C5.
  eapply sync_bits_f; eassumption.
Qed.

(* consuming the appended bytes re-establishes [sync]; the integer state may change *)
Lemma sync_bytes_u : forall T ws rs c bs rest u', sync T ws rs ->
  rc_bytes (rget rs c) = bs ++ rest -> u64_wf u' ->
  sync T (wset ws c (mkWcol (wc_bits (wget ws c)) (wc_bytes (wget ws c) ++ bs) u' (wc_f (wget ws c))))
         (rset rs c (mkRcol (rc_br (rget rs c)) rest u' (rc_f (rget rs c)))).
Proof.
  intros T ws rs c bs rest u' H Hrem Hu.
  apply sync_set; [assumption|].
  destruct (sync_col T ws rs c H) as (C1 & C2 & C3 & C4 & C5).
  unfold colsync. cbn [wc_bits wc_bytes wc_u wc_f rc_br rc_bytes rc_u rc_f].
  split; [assumption|]. split; [assumption|].
  split; [rewrite <- app_assoc, <- Hrem; exact C3|]. split; [split; [reflexivity|assumption]|assumption].
Qed.

Lemma sync_add_bytes : forall T ws rs c bs rest, sync T ws rs ->
  rc_bytes (rget rs c) = bs ++ rest ->
  sync T (add_bytes ws c bs) (rset rs c (mkRcol (rc_br (rget rs c)) rest (rc_u (rget rs c)) (rc_f (rget rs c)))).
Proof.
  intros T ws rs c bs rest H Hrem. unfold add_bytes.
  destruct (sync_col T ws rs c H) as (_ & _ & _ & [C4 C4'] & _).
  rewrite C4. apply sync_bytes_u; assumption.
Qed.

(* reading n bits of a value that fits *)
Lemma br_read_bits_N : forall r n v rest, br_wf r -> br_rem r = bits_of_N n v ++ rest ->
  (n <= 64)%nat -> v < 2 ^ N.of_nat n ->
  exists r', br_read_bits r n = (v, r') /\ br_wf r' /\ br_rem r' = rest.
Proof.
  intros r n v rest Hwf Hrem Hn Hv.
  destruct (br_read_bits_app r (bits_of_N n v) rest Hwf Hrem) as [r' [H1 [H2 H3]]].
  - rewrite length_bits_of_N. exact Hn.
  - rewrite length_bits_of_N, N_of_bits_of_N_small in H1 by assumption.
    exists r'. split; [assumption|split; assumption].
Qed.

(* ------------------------------------------------------------------ primitives *)
Lemma rt_prim : forall T ws rs c p d a,
  sync T ws rs -> prim_ok ws p d a = true -> extends T (enc_prim ws c p d a) ->
  exists rs', dec_prim rs c p d = Ok (rs', a) /\ sync T (enc_prim ws c p d a) rs' /\ r_alloc rs' = r_alloc rs.
Proof.
  intros T ws rs c p d a H Hok E.
  destruct (sync_col T ws rs c H) as (C1 & C2 & C3 & [C4 C4'] & [C5 C5']).
  destruct p, a; try discriminate Hok; cbn [prim_ok] in Hok; cbn [enc_prim] in E |- *.
  - (* bool *)
    destruct (tok_rem_bits _ _ _ _ _ H E) as [rest Hrem]. unfold bool_encode in Hrem.
    destruct (br_read_bit_app _ b rest C2 Hrem) as [r' [R1 [R2 R3]]].
    unfold dec_prim, bool_decode. cbv zeta. rewrite R1. destruct R2 as [R2a R2b]. rewrite R2a.
    eexists. split; [reflexivity|]. split; [|reflexivity].
    eapply (sync_add_bits T ws rs c (bool_encode b)); [assumption|exact Hrem| |exact R3].
    split; assumption.
  - (* int64 *)
    apply andb_true_iff in Hok. destruct Hok as [Hlo Hhi].
    apply Z.leb_le in Hlo. apply Z.ltb_lt in Hhi.
    destruct (i64_encode (wc_u (wget ws c)) z) as [s' bs] eqn:EE.
    destruct (tok_rem_bytes_set _ _ _ _ _ _ _ _ H E) as [rest Hrem].
    pose proof (i64_roundtrip (wc_u (wget ws c)) z rest C4' (conj Hlo Hhi)) as R. rewrite EE in R.
    destruct R as [R1 R2].
    unfold dec_prim. cbv zeta. rewrite C4, Hrem, R1.
    eexists. split; [reflexivity|]. split; [|reflexivity].
    apply sync_bytes_u; assumption.
  - (* uint64 *)
    apply N.ltb_lt in Hok.
    destruct (u64_encode (wc_u (wget ws c)) n) as [s' bs] eqn:EE.
    destruct (tok_rem_bytes_set _ _ _ _ _ _ _ _ H E) as [rest Hrem].
    pose proof (u64_roundtrip (wc_u (wget ws c)) n rest C4' Hok) as R. rewrite EE in R.
    destruct R as [R1 R2].
    unfold dec_prim. cbv zeta. rewrite C4, Hrem, R1.
    eexists. split; [reflexivity|]. split; [|reflexivity].
    apply sync_bytes_u; assumption.
  - (* float64 *)
    apply N.ltb_lt in Hok.
    destruct (f64_encode (wc_f (wget ws c)) n) as [s' b] eqn:EE.
    destruct (tok_rem_bits_set _ _ _ _ _ _ _ _ H E) as [rest Hrem].
    pose proof (f64_roundtrip (wc_f (wget ws c)) n (rc_br (rget rs c)) rest C5' Hok C2) as R.
    rewrite EE in R. destruct (R Hrem) as [r' [R1 [R2 [R3 R4]]]].
    unfold dec_prim. cbv zeta. rewrite C5, R1. destruct R2 as [R2 R2']. rewrite R2.
    eexists. split; [reflexivity|]. split; [|reflexivity].
    eapply sync_bits_f; try eassumption. split; assumption.
  - (* string *)
    apply andb_true_iff in Hok. destruct Hok as [Hl Hd]. apply Z.ltb_lt in Hl.
    destruct d as [dn|].
    + apply Z.ltb_lt in Hd.
      destruct (strdict_encode (w_sd ws dn) b) as [d' bs] eqn:EE.
      assert (E' : extends T (add_bytes ws c bs)) by exact E.
      destruct (tok_rem_bytes _ _ _ _ _ H E') as [rest Hrem].
      pose proof (strdict_roundtrip (w_sd ws dn) b rest Hl Hd) as R. rewrite EE in R.
      unfold dec_prim. cbv zeta. rewrite (sy_sd _ _ _ H dn), Hrem, R.
      eexists. split; [reflexivity|]. split; [|reflexivity].
      apply (sync_sdict T (add_bytes ws c bs)
               (rset rs c (mkRcol (rc_br (rget rs c)) rest (rc_u (rget rs c)) (rc_f (rget rs c))))).
      apply sync_add_bytes; assumption.
    + destruct (tok_rem_bytes _ _ _ _ _ H E) as [rest Hrem].
      unfold dec_prim. cbv zeta. rewrite Hrem, (str_roundtrip b rest Hl).
      eexists. split; [reflexivity|]. split; [|reflexivity].
      apply sync_add_bytes; assumption.
  - (* bytes *)
    apply andb_true_iff in Hok. destruct Hok as [Hl Hd]. apply Z.ltb_lt in Hl.
    destruct d as [dn|].
    + apply Z.ltb_lt in Hd.
      destruct (strdict_encode (w_sd ws dn) b) as [d' bs] eqn:EE.
      assert (E' : extends T (add_bytes ws c bs)) by exact E.
      destruct (tok_rem_bytes _ _ _ _ _ H E') as [rest Hrem].
      pose proof (strdict_roundtrip (w_sd ws dn) b rest Hl Hd) as R. rewrite EE in R.
      unfold dec_prim. cbv zeta. rewrite (sy_sd _ _ _ H dn), Hrem, R.
      eexists. split; [reflexivity|]. split; [|reflexivity].
      apply (sync_sdict T (add_bytes ws c bs)
               (rset rs c (mkRcol (rc_br (rget rs c)) rest (rc_u (rget rs c)) (rc_f (rget rs c))))).
      apply sync_add_bytes; assumption.
    + destruct (tok_rem_bytes _ _ _ _ _ H E) as [rest Hrem].
      unfold dec_prim. cbv zeta. rewrite Hrem, (str_roundtrip b rest Hl).
      eexists. split; [reflexivity|]. split; [|reflexivity].
      apply sync_add_bytes; assumption.
Qed.

(* ------------------------------------------------------------------ 3. the inner loops *)
(* [enc] *)
Definition enc_fields (env' : renv) :=
  fix go (fts : list etree) (fs : list (option wire)) (st : wst) {struct fs} : wst :=
    match fts, fs with
    | ft :: fts', f :: fs' =>
      let st := match f with Some a' => enc env' (resolve env' ft) a' st | None => st end in
      go fts' fs' st
    | _, _ => st
    end.

Definition enc_body (c : positive) (fc : N) (opts : list bool) (fts : list etree) (env' : renv)
           (mask present : N) (fields : list (option wire)) (st : wst) : wst :=
  enc_fields env' fts fields
    (add_bits st c (bits_of_N (N.to_nat fc) mask ++ bits_of_N (opt_count opts) present)).

Definition enc_elems (env' : renv) (et : etree) :=
  fix go (es : list wire) (st : wst) {struct es} : wst :=
    match es with
    | [] => st
    | e :: es' => go es' (enc env' (resolve env' et) e st)
    end.

Definition enc_kvs (env' : renv) (kt vt : etree) :=
  fix go (l : list (wire * wire)) (st : wst) {struct l} : wst :=
    match l with
    | [] => st
    | (k, v) :: l' => go l' (enc env' (resolve env' vt) v (enc env' (resolve env' kt) k st))
    end.

Lemma enc_eq_prim : forall env c p d a st, enc env (EPrim c p d) a st = enc_prim st c p d a.
Proof. intros. destruct a; reflexivity. Qed.

Lemma enc_eq_struct : forall env c sid fc opts fts mask present fields st,
  enc env (EStruct c sid false None fc opts fts) (WStruct mask present fields) st =
  enc_body c fc opts fts (push_env env (EStruct c sid false None fc opts fts)) mask present fields st.
Proof. reflexivity. Qed.

Lemma enc_eq_dictref : forall env c sid dn fc opts fts ref st,
  enc env (EStruct c sid false (Some dn) fc opts fts) (WDictRef ref) st =
  add_bits st c ([false] ++ uvc_write_bits ref).
Proof. reflexivity. Qed.

Lemma enc_eq_dictfull : forall env c sid dn fc opts fts mask present fields st,
  enc env (EStruct c sid false (Some dn) fc opts fts) (WDictFull (WStruct mask present fields)) st =
  let st1 := enc_body c fc opts fts (push_env env (EStruct c sid false (Some dn) fc opts fts))
                      mask present fields (add_bits st c [true]) in
  mkWst (w_cols st1) (w_sdict st1) (PM.add (dk dn) (w_tl st1 dn + 1) (w_tlen st1)) (w_err st1).
Proof. reflexivity. Qed.

Lemma enc_eq_oneof : forall env c sid d fc opts fts tag alt st,
  enc env (EStruct c sid true d fc opts fts) (WOneof tag alt) st =
  let st1 := add_bits st c (bits_of_N (oneof_bits fc) tag) in
  match alt with
  | None => st1
  | Some a' =>
    let env' := push_env env (EStruct c sid true d fc opts fts) in
    enc env' (resolve env' (nth (N.to_nat (tag - 1)) fts EBad)) a' st1
  end.
Proof. reflexivity. Qed.

Lemma enc_eq_arr : forall env c k et elems st,
  enc env (EArr c k et) (WArr elems) st =
  enc_elems (push_env env (EArr c k et)) et elems
            (add_bits st c (uvc_write_bits (N.of_nat (length elems)))).
Proof. reflexivity. Qed.

Lemma enc_eq_mapfull : forall env c mid kt vt kvs st,
  enc env (EMap c mid kt vt) (WMapFull kvs) st =
  enc_kvs (push_env env (EMap c mid kt vt)) kt vt kvs
          (add_bytes st c (leb_enc (2 * N.of_nat (length kvs) + 1))).
Proof. reflexivity. Qed.

Lemma enc_eq_mapvals : forall env c mid kt vt changed vals st,
  enc env (EMap c mid kt vt) (WMapVals changed vals) st =
  enc_elems (push_env env (EMap c mid kt vt)) vt vals (add_bytes st c (leb_enc (2 * changed))).
Proof. reflexivity. Qed.

(* [alloc_after] *)
Definition aa_fields (sizes : N -> N) (env' : renv) (prev : rnode) :=
  fix go (oi : N) (fts : list etree) (opts : list bool) (fs : list (option wire)) (pf : list rnode) (al : N)
      {struct fs} : N :=
    match fs, fts, opts with
    | f :: fs', ft :: fts', o :: opts' =>
      let oi' := if o then oi + 1 else oi in
      match f with
      | Some a' =>
        let pi := if o && negb (N.testbit (prev_present prev) oi) then RNil else hd RNil pf in
        go oi' fts' opts' fs' (tl pf) (alloc_after sizes env' (resolve env' ft) pi a' al)
      | None => go oi' fts' opts' fs' (tl pf) al
      end
    | _, _, _ => al
    end.

Definition aa_elems (sizes : N -> N) (env' : renv) (et : etree) :=
  fix go (es : list wire) (pe : list rnode) (al : N) {struct es} : N :=
    match es with
    | [] => al
    | e :: es' => go es' (tl pe) (alloc_after sizes env' (resolve env' et) (hd RNil pe) e al)
    end.

Definition aa_kvs (sizes : N -> N) (env' : renv) (kt vt : etree) :=
  fix go (l : list (wire * wire)) (pk : list (rnode * rnode)) (al : N) {struct l} : N :=
    match l with
    | [] => al
    | (k, v) :: l' =>
      let '(pkk, pv) := hd (RNil, RNil) pk in
      go l' (tl pk) (alloc_after sizes env' (resolve env' vt) pv v (alloc_after sizes env' (resolve env' kt) pkk k al))
    end.

Lemma aa_eq_struct : forall sizes env c sid d fc opts fts prev mask present fields al,
  alloc_after sizes env (EStruct c sid false d fc opts fts) prev (WStruct mask present fields) al =
  aa_fields sizes (push_env env (EStruct c sid false d fc opts fts)) prev 0 fts opts fields (prev_fields prev) al.
Proof. reflexivity. Qed.

Lemma aa_eq_dictfull : forall sizes env c sid d fc opts fts prev mask present fields al,
  alloc_after sizes env (EStruct c sid false d fc opts fts) prev (WDictFull (WStruct mask present fields)) al =
  aa_fields sizes (push_env env (EStruct c sid false d fc opts fts)) prev 0 fts opts fields (prev_fields prev) al.
Proof. reflexivity. Qed.

Lemma aa_eq_oneof : forall sizes env c sid d fc opts fts prev tag a' al,
  alloc_after sizes env (EStruct c sid true d fc opts fts) prev (WOneof tag (Some a')) al =
  let env' := push_env env (EStruct c sid true d fc opts fts) in
  alloc_after sizes env' (resolve env' (nth (N.to_nat (tag - 1)) fts EBad)) (prev_alt prev tag) a' al.
Proof. reflexivity. Qed.

Lemma aa_eq_arr : forall sizes env c k et prev elems al,
  alloc_after sizes env (EArr c k et) prev (WArr elems) al =
  let grow := N.of_nat (length elems) - N.of_nat (length (prev_elems prev)) in
  aa_elems sizes (push_env env (EArr c k et)) et elems (prev_elems prev)
           (if 0 <? grow then al + grow * elem_size sizes et else al).
Proof. reflexivity. Qed.

Lemma aa_eq_mapfull : forall sizes env c mid kt vt prev kvs al,
  alloc_after sizes env (EMap c mid kt vt) prev (WMapFull kvs) al =
  aa_kvs sizes (push_env env (EMap c mid kt vt)) kt vt kvs (prev_kvs prev) al.
Proof. reflexivity. Qed.

Lemma aa_eq_mapvals : forall sizes env c mid kt vt prev changed vals al,
  alloc_after sizes env (EMap c mid kt vt) prev (WMapVals changed vals) al =
  aa_elems sizes (push_env env (EMap c mid kt vt)) vt vals (sel_prevs changed 0 (prev_kvs prev)) al.
Proof. reflexivity. Qed.

(* [wire_ok] *)
Definition ok_fields (sizes : N -> N) (env' : renv) (prev : rnode) (mask present : N) :=
  fix go (i oi : N) (fts : list etree) (opts : list bool) (fs : list (option wire)) (pf : list rnode)
         (st : wst) (al : N) {struct fs} : bool :=
    match fs, fts, opts with
    | f :: fs', ft :: fts', o :: opts' =>
      let oi' := if o then oi + 1 else oi in
      let encoded := N.testbit mask i && (negb o || N.testbit present oi) in
      match f with
      | Some a' =>
        let pi := if o && negb (N.testbit (prev_present prev) oi) then RNil else hd RNil pf in
        encoded &&
        negb (negb o && match a' with WDictRef 0 => true | _ => false end) &&
        wire_ok sizes env' (resolve env' ft) pi a' st al &&
        go (i + 1) oi' fts' opts' fs' (tl pf) (enc env' (resolve env' ft) a' st)
           (alloc_after sizes env' (resolve env' ft) pi a' al)
      | None => negb encoded && go (i + 1) oi' fts' opts' fs' (tl pf) st al
      end
    | [], [], [] => true
    | _, _, _ => false
    end.

Definition ok_body (sizes : N -> N) (prev : rnode) (al : N)
           (c : positive) (fc : N) (opts : list bool) (fts : list etree) (env' : renv)
           (mask present : N) (fields : list (option wire)) (st : wst) : bool :=
  (fc <=? 64) && (N.of_nat (opt_count opts) <=? 64) &&
  (mask <? 2 ^ fc) && (present <? 2 ^ N.of_nat (opt_count opts)) &&
  (length fields =? N.to_nat fc)%nat && (length fts =? N.to_nat fc)%nat && (length opts =? N.to_nat fc)%nat &&
  ok_fields sizes env' prev mask present 0 0 fts opts fields (prev_fields prev)
    (add_bits st c (bits_of_N (N.to_nat fc) mask ++ bits_of_N (opt_count opts) present)) al.

Definition ok_elems (sizes : N -> N) (env' : renv) (et : etree) :=
  fix go (es : list wire) (pe : list rnode) (st : wst) (al : N) {struct es} : bool :=
    match es with
    | [] => true
    | e :: es' =>
      wire_ok sizes env' (resolve env' et) (hd RNil pe) e st al &&
      go es' (tl pe) (enc env' (resolve env' et) e st) (alloc_after sizes env' (resolve env' et) (hd RNil pe) e al)
    end.

Definition ok_kvs (sizes : N -> N) (env' : renv) (kt vt : etree) :=
  fix go (l : list (wire * wire)) (pk : list (rnode * rnode)) (st : wst) (al : N) {struct l} : bool :=
    match l with
    | [] => true
    | (k, v) :: l' =>
      let '(pkk, pv) := hd (RNil, RNil) pk in
      let st1 := enc env' (resolve env' kt) k st in
      let al1 := alloc_after sizes env' (resolve env' kt) pkk k al in
      wire_ok sizes env' (resolve env' kt) pkk k st al &&
      wire_ok sizes env' (resolve env' vt) pv v st1 al1 &&
      go l' (tl pk) (enc env' (resolve env' vt) v st1) (alloc_after sizes env' (resolve env' vt) pv v al1)
    end.

Lemma ok_eq_prim : forall sizes env c p d prev a st al,
  wire_ok sizes env (EPrim c p d) prev a st al = prim_ok st p d a.
Proof. intros. destruct a; reflexivity. Qed.

Lemma ok_eq_struct : forall sizes env c sid fc opts fts prev mask present fields st al,
  wire_ok sizes env (EStruct c sid false None fc opts fts) prev (WStruct mask present fields) st al =
  ok_body sizes prev al c fc opts fts (push_env env (EStruct c sid false None fc opts fts)) mask present fields st.
Proof. reflexivity. Qed.

Lemma ok_eq_dictref : forall sizes env c sid dn fc opts fts prev ref st al,
  wire_ok sizes env (EStruct c sid false (Some dn) fc opts fts) prev (WDictRef ref) st al =
  (ref <? w_tl st dn) && (ref <? two48).
Proof. reflexivity. Qed.

Lemma ok_eq_dictfull : forall sizes env c sid dn fc opts fts prev mask present fields st al,
  wire_ok sizes env (EStruct c sid false (Some dn) fc opts fts) prev (WDictFull (WStruct mask present fields)) st al =
  ok_body sizes prev al c fc opts fts (push_env env (EStruct c sid false (Some dn) fc opts fts)) mask present fields
          (add_bits st c [true]).
Proof. reflexivity. Qed.

Lemma ok_eq_oneof : forall sizes env c sid d fc opts fts prev tag alt st al,
  wire_ok sizes env (EStruct c sid true d fc opts fts) prev (WOneof tag alt) st al =
  (tag <=? fc) && (N.of_nat (oneof_bits fc) <=? 64) &&
  match alt with
  | None => tag =? 0
  | Some a' =>
    negb (tag =? 0) &&
    let st1 := add_bits st c (bits_of_N (oneof_bits fc) tag) in
    let env' := push_env env (EStruct c sid true d fc opts fts) in
    wire_ok sizes env' (resolve env' (nth (N.to_nat (tag - 1)) fts EBad)) (prev_alt prev tag) a' st1 al
  end.
Proof. reflexivity. Qed.

Lemma ok_eq_arr : forall sizes env c k et prev elems st al,
  wire_ok sizes env (EArr c k et) prev (WArr elems) st al =
  let n := N.of_nat (length elems) in
  let grow := n - N.of_nat (length (prev_elems prev)) in
  (n <? 2 ^ 40) &&
  negb ((0 <? grow) && (record_alloc_limit <? al + grow * elem_size sizes et)) &&
  ok_elems sizes (push_env env (EArr c k et)) et elems (prev_elems prev)
           (add_bits st c (uvc_write_bits n))
           (if 0 <? grow then al + grow * elem_size sizes et else al).
Proof. reflexivity. Qed.

Lemma ok_eq_mapfull : forall sizes env c mid kt vt prev kvs st al,
  wire_ok sizes env (EMap c mid kt vt) prev (WMapFull kvs) st al =
  let n := N.of_nat (length kvs) in
  (n <? multimap_limit) &&
  ok_kvs sizes (push_env env (EMap c mid kt vt)) kt vt kvs (prev_kvs prev)
         (add_bytes st c (leb_enc (2 * n + 1))) al.
Proof. reflexivity. Qed.

Lemma ok_eq_mapvals : forall sizes env c mid kt vt prev changed vals st al,
  wire_ok sizes env (EMap c mid kt vt) prev (WMapVals changed vals) st al =
  (changed <? 2 ^ 63) &&
  (if changed =? 0 then match vals with [] => true | _ => false end else true) &&
  let prevs := sel_prevs changed 0 (prev_kvs prev) in
  (length vals =? length prevs)%nat &&
  ok_elems sizes (push_env env (EMap c mid kt vt)) vt vals prevs
           (add_bytes st c (leb_enc (2 * changed))) al.
Proof. reflexivity. Qed.

(* [dec]: [D] stands for the recursive call [dec sizes f] *)
Section DecLoops.
  Variable D : renv -> etree -> rnode -> rst -> res (rst * wire).

  Definition dec_fields (env' : renv) (prev : rnode) (mask present : N) :=
    fix go (i : N) (oi : N) (fts : list etree) (opts : list bool) (pf : list rnode)
           (st : rst) (acc : list (option wire)) : res (rst * list (option wire)) :=
      match fts, opts with
      | ft :: fts', o :: opts' =>
        let pi := hd RNil pf in
        let encoded := N.testbit mask i && (negb o || N.testbit present oi) in
        let oi' := if o then oi + 1 else oi in
        if encoded then
          let pi := if o && negb (N.testbit (prev_present prev) oi) then RNil else pi in
          match D env' (resolve env' ft) pi st with
          | Err e => Err e
          | Ok (st', w) =>
            match w with
            | WDictRef 0 => if o then go (i + 1) oi' fts' opts' (tl pf) st' (acc ++ [Some w]) else Err EInvalid
            | _ => go (i + 1) oi' fts' opts' (tl pf) st' (acc ++ [Some w])
            end
          end
        else go (i + 1) oi' fts' opts' (tl pf) st (acc ++ [None])
      | _, _ => Ok (st, acc)
      end.

  Definition dec_body (prev : rnode) (c : positive) (fc : N) (opts : list bool) (fts : list etree)
             (env' : renv) (st : rst) : res (rst * wire) :=
    let '(mask, r1) := br_read_bits (rc_br (rget st c)) (N.to_nat fc) in
    let '(present, r2) := br_read_bits r1 (opt_count opts) in
    let st := rset_br st c r2 in
    match dec_fields env' prev mask present 0 0 fts opts (prev_fields prev) st [] with
    | Err e => Err e
    | Ok (st', fields) =>
      if col_err st' c then Err EEof else Ok (st', WStruct mask present fields)
    end.

  Definition dec_arr_step (env' : renv) (et : etree) (c : positive)
             (s : N * list rnode * rst * list wire) : (N * list rnode * rst * list wire) + res (rst * wire) :=
    let '(k, pe, st, acc) := s in
    if k =? 0 then inr (if col_err st c then Err EEof else Ok (st, WArr (rev acc)))
    else
      match D env' (resolve env' et) (hd RNil pe) st with
      | Err e => inr (Err e)
      | Ok (st', w) => inl (k - 1, tl pe, st', w :: acc)
      end.

  Definition dec_vals (env' : renv) (vt : etree) (changed : N) :=
    fix go (i : N) (pk : list (rnode * rnode)) (st : rst) (acc : list wire) : res (rst * wire) :=
      match pk with
      | [] => Ok (st, WMapVals changed acc)
      | (_, pv) :: pk' =>
        if (i <? 64) && N.testbit changed i then
          match D env' (resolve env' vt) pv st with
          | Err e => Err e
          | Ok (st', w) => go (i + 1) pk' st' (acc ++ [w])
          end
        else go (i + 1) pk' st acc
      end.

  Definition dec_full (env' : renv) (kt vt : etree) :=
    fix go (k : nat) (pk : list (rnode * rnode)) (st : rst) (acc : list (wire * wire)) : res (rst * wire) :=
      match k with
      | O => Ok (st, WMapFull acc)
      | Datatypes.S k' =>
        let '(pkk, pv) := hd (RNil, RNil) pk in
        match D env' (resolve env' kt) pkk st with
        | Err e => Err e
        | Ok (st1, wk) =>
          match D env' (resolve env' vt) pv st1 with
          | Err e => Err e
          | Ok (st2, wv) => go k' (tl pk) st2 (acc ++ [(wk, wv)])
          end
        end
      end.
End DecLoops.

Lemma dec_eq_prim : forall sizes f env c p d prev st,
  dec sizes (S f) env (EPrim c p d) prev st = dec_prim st c p d.
Proof. reflexivity. Qed.

Lemma dec_eq_struct : forall sizes f env c sid fc opts fts prev st,
  dec sizes (S f) env (EStruct c sid false None fc opts fts) prev st =
  dec_body (dec sizes f) prev c fc opts fts (push_env env (EStruct c sid false None fc opts fts)) st.
Proof. reflexivity. Qed.

Lemma dec_eq_dict : forall sizes f env c sid dn fc opts fts prev st,
  dec sizes (S f) env (EStruct c sid false (Some dn) fc opts fts) prev st =
  let '(flag, r1) := br_read_bits (rc_br (rget st c)) 1 in
  if flag =? 0 then
    let '(ref, r2) := br_read_uvc r1 in
    let st := rset_br st c r2 in
    if r_tl st dn <=? ref then Err ERefNum
    else if br_err r2 then Err EEof else Ok (st, WDictRef ref)
  else
    let st := rset_br st c r1 in
    match dec_body (dec sizes f) prev c fc opts fts (push_env env (EStruct c sid false (Some dn) fc opts fts)) st with
    | Err e => Err e
    | Ok (st', w) =>
      Ok (mkRst (r_cols st') (r_sdict st') (PM.add (dk dn) (r_tl st' dn + 1) (r_tlen st')) (r_alloc st'),
          WDictFull w)
    end.
Proof. reflexivity. Qed.

Lemma dec_eq_oneof : forall sizes f env c sid d fc opts fts prev st,
  dec sizes (S f) env (EStruct c sid true d fc opts fts) prev st =
  let '(tag, r1) := br_read_bits (rc_br (rget st c)) (oneof_bits fc) in
  let st := rset_br st c r1 in
  if fc + 1 <=? tag then Err EInvalid
  else if br_err r1 then Err EEof
  else if tag =? 0 then Ok (st, WOneof 0 None)
  else
    let env' := push_env env (EStruct c sid true d fc opts fts) in
    match dec sizes f env' (resolve env' (nth (N.to_nat (tag - 1)) fts EBad)) (prev_alt prev tag) st with
    | Err e => Err e
    | Ok (st', w) => Ok (st', WOneof tag (Some w))
    end.
Proof. reflexivity. Qed.

Lemma dec_eq_arr : forall sizes f env c k et prev st,
  dec sizes (S f) env (EArr c k et) prev st =
  let '(n, r1) := br_read_uvc (rc_br (rget st c)) in
  let st := rset_br st c r1 in
  let old := N.of_nat (length (prev_elems prev)) in
  let grow := n - old in
  let alloc := r_alloc st + grow * elem_size sizes et in
  if (0 <? grow) && (record_alloc_limit <? alloc) then Err ELimit
  else
    let st := mkRst (r_cols st) (r_sdict st) (r_tlen st) (if 0 <? grow then alloc else r_alloc st) in
    match iter_pow loop_k (dec_arr_step (dec sizes f) (push_env env (EArr c k et)) et c)
                   (n, prev_elems prev, st, []) with
    | inr r => r
    | inl _ => Err EOther
    end.
Proof. reflexivity. Qed.

Lemma dec_eq_map : forall sizes f env c mid kt vt prev st,
  dec sizes (S f) env (EMap c mid kt vt) prev st =
  let x := rget st c in
  match leb_dec (rc_bytes x) with
  | None => Err EEof
  | Some (hdr, rest) =>
    let st := rset st c (mkRcol (rc_br x) rest (rc_u x) (rc_f x)) in
    let env' := push_env env (EMap c mid kt vt) in
    if hdr =? 0 then Ok (st, WMapVals 0 [])
    else if N.even hdr then
      dec_vals (dec sizes f) env' vt (hdr / 2) 0 (prev_kvs prev) st []
    else
      if multimap_limit <=? hdr / 2 then Err ELimit
      else dec_full (dec sizes f) env' kt vt (N.to_nat (hdr / 2)) (prev_kvs prev) st []
  end.
Proof. reflexivity. Qed.

(* ------------------------------------------------------------------ 4. [enc] only appends *)
Definition mono (ws ws' : wst) : Prop :=
  forall c, (exists r, wc_bits (wget ws' c) = wc_bits (wget ws c) ++ r) /\
            (exists r, wc_bytes (wget ws' c) = wc_bytes (wget ws c) ++ r).

Lemma mono_refl : forall ws, mono ws ws.
Proof. intros ws c. split; exists []; rewrite app_nil_r; reflexivity. Qed.

Lemma mono_trans : forall a b c, mono a b -> mono b c -> mono a c.
Proof.
  intros a b c H1 H2 col. destruct (H1 col) as [[r1 E1] [s1 F1]]. destruct (H2 col) as [[r2 E2] [s2 F2]].
  split.
  - exists (r1 ++ r2). rewrite E2, E1, app_assoc. reflexivity.
  - exists (s1 ++ s2). rewrite F2, F1, app_assoc. reflexivity.
Qed.

Lemma mono_wset : forall ws c b bs u f,
  mono ws (wset ws c (mkWcol (wc_bits (wget ws c) ++ b) (wc_bytes (wget ws c) ++ bs) u f)).
Proof.
  intros ws c b bs u f c'. destruct (Pos.eq_dec c' c) as [->|N].
  - rewrite wget_wset_same. cbn [wc_bits wc_bytes]. split; eexists; reflexivity.
  - rewrite wget_wset_other by assumption. split; exists []; rewrite app_nil_r; reflexivity.
Qed.

Lemma mono_add_bits : forall ws c b, mono ws (add_bits ws c b).
Proof.
  intros ws c b. unfold add_bits.
  pose proof (mono_wset ws c b [] (wc_u (wget ws c)) (wc_f (wget ws c))) as M.
  rewrite app_nil_r in M. exact M.
Qed.

Lemma mono_add_bytes : forall ws c b, mono ws (add_bytes ws c b).
Proof.
  intros ws c b. unfold add_bytes.
  pose proof (mono_wset ws c [] b (wc_u (wget ws c)) (wc_f (wget ws c))) as M.
  rewrite app_nil_r in M. exact M.
Qed.

(* only the columns matter *)
Lemma mono_cols : forall ws ws' sd tl e, mono ws ws' -> mono ws (mkWst (w_cols ws') sd tl e).
Proof. intros ws ws' sd tl e M. exact M. Qed.

Lemma mono_wfail : forall ws, mono ws (wfail ws).
Proof. intros ws. unfold wfail. apply mono_cols. apply mono_refl. Qed.

Ltac mono_triv := first [apply mono_refl | apply mono_wfail].

Lemma extends_mono : forall T ws ws', mono ws ws' -> extends T ws' -> extends T ws.
Proof.
  intros T ws ws' M E c. destruct (M c) as [[r1 E1] [s1 F1]]. destruct (E c) as [[r2 E2] [s2 F2]].
  split.
  - exists (r1 ++ r2). rewrite E2, E1, app_assoc. reflexivity.
  - exists (s1 ++ s2). rewrite F2, F1, app_assoc. reflexivity.
Qed.

Lemma mono_enc_prim : forall ws c p d a, mono ws (enc_prim ws c p d a).
Proof.
  intros ws c p d a.
  destruct a as [b|v|z|v|s|? ? ?|?|?|? ?|?|?|? ?]; destruct p; cbn [enc_prim];
    try mono_triv; try apply mono_add_bits.
  - destruct (u64_encode (wc_u (wget ws c)) v) as [s' bs].
    pose proof (mono_wset ws c [] bs s' (wc_f (wget ws c))) as M. rewrite app_nil_r in M. exact M.
  - destruct (i64_encode (wc_u (wget ws c)) z) as [s' bs].
    pose proof (mono_wset ws c [] bs s' (wc_f (wget ws c))) as M. rewrite app_nil_r in M. exact M.
  - destruct (f64_encode (wc_f (wget ws c)) v) as [s' b].
    pose proof (mono_wset ws c b [] (wc_u (wget ws c)) s') as M. rewrite app_nil_r in M. exact M.
  - destruct d as [dn|]; [|apply mono_add_bytes].
    destruct (strdict_encode (w_sd ws dn) s) as [d' bs]. apply mono_cols. apply mono_add_bytes.
  - destruct d as [dn|]; [|apply mono_add_bytes].
    destruct (strdict_encode (w_sd ws dn) s) as [d' bs]. apply mono_cols. apply mono_add_bytes.
Qed.

Section MonoStep.
  Variable n : nat.
  Hypothesis IH : forall a env t ws, (height a < n)%nat -> mono ws (enc env t a ws).

  Lemma mono_fields_n : forall env' fs fts ws,
    Forall (fun f => match f with Some x => (height x < n)%nat | None => True end) fs ->
    mono ws (enc_fields env' fts fs ws).
  Proof.
    intros env'. induction fs as [|f fs IHfs]; intros fts ws HF.
    - destruct fts; apply mono_refl.
    - destruct fts as [|ft fts]; [apply mono_refl|].
      cbn [enc_fields]. inversion HF as [|? ? Hf HF']; subst.
      eapply mono_trans; [|apply IHfs; assumption].
      destruct f as [a'|]; [apply IH; assumption|apply mono_refl].
  Qed.

  Lemma mono_elems_n : forall env' et es ws,
    Forall (fun x => (height x < n)%nat) es -> mono ws (enc_elems env' et es ws).
  Proof.
    intros env' et. induction es as [|e es IHes]; intros ws HF.
    - apply mono_refl.
    - cbn [enc_elems]. inversion HF as [|? ? He HF']; subst.
      eapply mono_trans; [|apply IHes; assumption]. apply IH; assumption.
  Qed.

  Lemma mono_kvs_n : forall env' kt vt l ws,
    Forall (fun kv => (height (fst kv) < n)%nat /\ (height (snd kv) < n)%nat) l ->
    mono ws (enc_kvs env' kt vt l ws).
  Proof.
    intros env' kt vt. induction l as [|[k v] l IHl]; intros ws HF.
    - apply mono_refl.
    - cbn [enc_kvs]. inversion HF as [|? ? [Hk Hv] HF']; subst. cbn [fst snd] in Hk, Hv.
      eapply mono_trans; [|apply IHl; assumption].
      apply (mono_trans _ (enc env' (resolve env' kt) k ws)); apply IH; assumption.
  Qed.
End MonoStep.

(* heights of the members of a list *)
Lemma height_fields_lt : forall fs m,
  (fold_right (fun f m => Nat.max (match f with Some x => height x | None => 0%nat end) m) 0%nat fs < m)%nat ->
  Forall (fun f => match f with Some x => (height x < m)%nat | None => True end) fs.
Proof.
  induction fs as [|f fs IH]; intros m H; constructor.
  - cbn [fold_right] in H. destruct f; [lia|exact I].
  - apply IH. cbn [fold_right] in H. lia.
Qed.

Lemma height_elems_lt : forall l m,
  (fold_right (fun x m => Nat.max (height x) m) 0%nat l < m)%nat -> Forall (fun x => (height x < m)%nat) l.
Proof.
  induction l as [|x l IH]; intros m H; constructor.
  - cbn [fold_right] in H. lia.
  - apply IH. cbn [fold_right] in H. lia.
Qed.

Lemma height_kvs_lt : forall l m,
  (fold_right (fun kv m => Nat.max (Nat.max (height (fst kv)) (height (snd kv))) m) 0%nat l < m)%nat ->
  Forall (fun kv => (height (fst kv) < m)%nat /\ (height (snd kv) < m)%nat) l.
Proof.
  induction l as [|x l IH]; intros m H; constructor.
  - cbn [fold_right] in H. lia.
  - apply IH. cbn [fold_right] in H. lia.
Qed.

Lemma mono_enc_n : forall n a env t ws, (height a < n)%nat -> mono ws (enc env t a ws).
Proof.
  induction n as [|n IHn]; intros a env t ws Hh; [lia|].
  destruct t as [c p d|c sid oneof d fc opts fts|c k et|c mid kt vt|k|].
  - rewrite enc_eq_prim. apply mono_enc_prim.
  - destruct a; try (destruct oneof; [|destruct d]; mono_triv).
    + (* WStruct *)
      destruct oneof; [mono_triv|]. destruct d; [mono_triv|].
      rewrite enc_eq_struct. unfold enc_body.
      eapply mono_trans; [apply mono_add_bits|]. apply mono_fields_n with (n := n); [exact IHn|].
      apply height_fields_lt. cbn [height] in Hh. lia.
    + (* WDictRef *)
      destruct oneof; [mono_triv|]. destruct d; [|mono_triv].
      rewrite enc_eq_dictref. apply mono_add_bits.
    + (* WDictFull *)
      destruct oneof; [mono_triv|]. destruct d; [|mono_triv].
      destruct a; try mono_triv.
      rewrite enc_eq_dictfull. cbv zeta. apply mono_cols. unfold enc_body.
      eapply mono_trans; [apply mono_add_bits|].
      eapply mono_trans; [apply mono_add_bits|]. apply mono_fields_n with (n := n); [exact IHn|].
      apply height_fields_lt. cbn [height] in Hh. lia.
    + (* WOneof *)
      destruct oneof; [|destruct d; mono_triv].
      rewrite enc_eq_oneof. cbv zeta. destruct alt as [a'|]; [|apply mono_add_bits].
      eapply mono_trans; [apply mono_add_bits|]. apply IHn. cbn [height] in Hh. lia.
  - destruct a; try mono_triv.
    rewrite enc_eq_arr. eapply mono_trans; [apply mono_add_bits|].
    apply mono_elems_n with (n := n); [exact IHn|]. apply height_elems_lt. cbn [height] in Hh. lia.
  - destruct a; try mono_triv.
    + rewrite enc_eq_mapfull. eapply mono_trans; [apply mono_add_bytes|].
      apply mono_kvs_n with (n := n); [exact IHn|]. apply height_kvs_lt. cbn [height] in Hh. lia.
    + rewrite enc_eq_mapvals. eapply mono_trans; [apply mono_add_bytes|].
      apply mono_elems_n with (n := n); [exact IHn|]. apply height_elems_lt. cbn [height] in Hh. lia.
  - destruct a; mono_triv.
  - destruct a; mono_triv.
Qed.

Theorem mono_enc : forall a env t ws, mono ws (enc env t a ws).
Proof. intros. apply (mono_enc_n (S (height a))). lia. Qed.

Lemma mono_fields : forall env' fs fts ws, mono ws (enc_fields env' fts fs ws).
Proof.
  intros env'. induction fs as [|f fs IHfs]; intros fts ws.
  - destruct fts; apply mono_refl.
  - destruct fts as [|ft fts]; [apply mono_refl|]. cbn [enc_fields].
    eapply mono_trans; [|apply IHfs]. destruct f; [apply mono_enc|apply mono_refl].
Qed.

Lemma mono_elems : forall env' et es ws, mono ws (enc_elems env' et es ws).
Proof.
  intros env' et. induction es as [|e es IHes]; intros ws; [apply mono_refl|].
  cbn [enc_elems]. eapply mono_trans; [|apply IHes]. apply mono_enc.
Qed.

Lemma mono_kvs : forall env' kt vt l ws, mono ws (enc_kvs env' kt vt l ws).
Proof.
  intros env' kt vt. induction l as [|[k v] l IHl]; intros ws; [apply mono_refl|].
  cbn [enc_kvs]. eapply mono_trans; [|apply IHl]. eapply mono_trans; apply mono_enc.
Qed.

(* ------------------------------------------------------------------ 5. iter_pow *)
Section Run.
  Context {S R : Type}.
  Variable step : S -> S + R.

  Fixpoint run (m : nat) (s : S) : S + R :=
    match m with
    | O => inl s
    | Datatypes.S m' => match step s with inl s' => run m' s' | inr r => inr r end
    end.

  Lemma run_add : forall a b s,
    run (a + b) s = match run a s with inl s' => run b s' | inr r => inr r end.
  Proof.
    induction a as [|a IH]; intros b s; [reflexivity|].
    cbn [Nat.add run]. destruct (step s) as [s'|r]; [apply IH|reflexivity].
  Qed.

  Lemma iter_pow_run : forall k s, iter_pow k step s = run (2 ^ k) s.
  Proof.
    induction k as [|k IH]; intros s.
    - cbn. destruct (step s); reflexivity.
    - cbn [iter_pow]. rewrite Nat.pow_succ_r'.
      replace (2 * 2 ^ k)%nat with (2 ^ k + 2 ^ k)%nat by lia.
      rewrite run_add, IH. destruct (run (2 ^ k) s) as [s'|r]; [apply IH|reflexivity].
  Qed.

  Lemma run_done_le : forall m s r, run m s = inr r -> forall M, (m <= M)%nat -> run M s = inr r.
  Proof.
    induction m as [|m IH]; intros s r H M HM; [discriminate H|].
    destruct M as [|M]; [lia|]. cbn [run] in H |- *.
    destruct (step s) as [s'|r']; [apply (IH s' r H); lia|exact H].
  Qed.
End Run.

Lemma loop_k_pow : N.of_nat (2 ^ loop_k) = 2 ^ 40.
Proof. rewrite Nat2N.inj_pow. reflexivity. Qed.

Lemma iter_pow_loop_k : forall {S R : Type} (step : S -> S + R) (m : nat) (s : S) (r : R),
  run step m s = inr r -> N.of_nat m <= 2 ^ 40 -> iter_pow loop_k step s = inr r.
Proof.
  intros S R step m s r H Hm. rewrite iter_pow_run.
  apply (run_done_le step m s r H). rewrite <- loop_k_pow in Hm.
  generalize dependent (2 ^ loop_k)%nat. intros M HM. lia.
Qed.
