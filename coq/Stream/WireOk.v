(* Preconditions of the record-layer round trip: [wire_ok] says that a wire syntax tree is
   encodable for a given encoder tree, previous reader value, writer state and allocation
   counter -- every value fits its width, every list has the length the tree expects, every
   dictionary reference is in range, every "encoded / not encoded" pattern agrees with the masks,
   and the decoder limits are respected.  [sync] relates a writer state and a reader state that
   has consumed exactly what the writer produced so far.  The theorem proved in WireFacts.v:
     sync T ws rs -> wire_ok ... a ws = true -> T extends (enc a ws) ->
     dec rs = Ok (rs', a) /\ sync T (enc a ws) rs'.                                        *)
From Coq Require Import List NArith ZArith Bool PArith Lia FMapPositive.
From Stef Require Import Bits BitIO BitIOFacts Varint VarintFacts Codecs CodecFacts Schema Wire.
Import ListNotations.
Open Scope N_scope.

Section Ok.
  Variable sizes : N -> N.

  (* which previous values a values-only multimap encoding addresses, in order *)
  Fixpoint sel_prevs (changed : N) (i : N) (pk : list (rnode * rnode)) : list rnode :=
    match pk with
    | [] => []
    | (_, pv) :: pk' =>
      if (i <? 64) && N.testbit changed i then pv :: sel_prevs changed (i + 1) pk'
      else sel_prevs changed (i + 1) pk'
    end.

  (* allocation counter after decoding [a] (array.go.tmpl PrepAllocSizeN), mirrors [dec] *)
  Fixpoint alloc_after (env : renv) (t : etree) (prev : rnode) (a : wire) (al : N) {struct a} : N :=
    match t, a with
    | EStruct c sid false _ fc opts fts, WStruct mask present fields
    | EStruct c sid false _ fc opts fts, WDictFull (WStruct mask present fields) =>
      let env' := push_env env t in
      (fix go (oi : N) (fts : list etree) (opts : list bool) (fs : list (option wire)) (pf : list rnode) (al : N)
           {struct fs} : N :=
         match fs, fts, opts with
         | f :: fs', ft :: fts', o :: opts' =>
           let oi' := if o then oi + 1 else oi in
           match f with
           | Some a' =>
             let pi := if o && negb (N.testbit (prev_present prev) oi) then RNil else hd RNil pf in
             go oi' fts' opts' fs' (tl pf) (alloc_after env' (resolve env' ft) pi a' al)
           | None => go oi' fts' opts' fs' (tl pf) al
           end
         | _, _, _ => al
         end) 0 fts opts fields (prev_fields prev) al
    | EStruct c sid true _ fc opts fts, WOneof tag (Some a') =>
      let env' := push_env env t in
      alloc_after env' (resolve env' (nth (N.to_nat (tag - 1)) fts EBad)) (prev_alt prev tag) a' al
    | EArr c k et, WArr elems =>
      let env' := push_env env t in
      let grow := N.of_nat (length elems) - N.of_nat (length (prev_elems prev)) in
      let al := if 0 <? grow then al + grow * elem_size sizes et else al in
      (fix go (es : list wire) (pe : list rnode) (al : N) {struct es} : N :=
         match es with
         | [] => al
         | e :: es' => go es' (tl pe) (alloc_after env' (resolve env' et) (hd RNil pe) e al)
         end) elems (prev_elems prev) al
    | EMap c mid kt vt, WMapFull kvs =>
      let env' := push_env env t in
      (fix go (l : list (wire * wire)) (pk : list (rnode * rnode)) (al : N) {struct l} : N :=
         match l with
         | [] => al
         | (k, v) :: l' =>
           let '(pkk, pv) := hd (RNil, RNil) pk in
           go l' (tl pk) (alloc_after env' (resolve env' vt) pv v (alloc_after env' (resolve env' kt) pkk k al))
         end) kvs (prev_kvs prev) al
    | EMap c mid kt vt, WMapVals changed vals =>
      let env' := push_env env t in
      (fix go (l : list wire) (ps : list rnode) (al : N) {struct l} : N :=
         match l with
         | [] => al
         | v :: l' => go l' (tl ps) (alloc_after env' (resolve env' vt) (hd RNil ps) v al)
         end) vals (sel_prevs changed 0 (prev_kvs prev)) al
    | _, _ => al
    end.

  Definition prim_ok (st : wst) (p : prim) (d : option N) (a : wire) : bool :=
    match p, a with
    | PBool, WBool _ => true
    | PUint64, WU64 v => v <? two64
    | PInt64, WI64 z => (- two63 <=? z)%Z && (z <? two63)%Z
    | PFloat64, WF64 v => v <? two64
    | (PString | PBytes), WStr s =>
      (Z.of_nat (length s) <? two63)%Z &&
      match d with None => true | Some dn => (Z.of_nat (length (w_sd st dn)) <? two63)%Z end
    | _, _ => false
    end.

  Fixpoint wire_ok (env : renv) (t : etree) (prev : rnode) (a : wire) (st : wst) (al : N) {struct a} : bool :=
    let body (c : positive) (fc : N) (opts : list bool) (fts : list etree) (env' : renv)
             (mask present : N) (fields : list (option wire)) (st : wst) : bool :=
      (fc <=? 64) && (N.of_nat (opt_count opts) <=? 64) &&
      (mask <? 2 ^ fc) && (present <? 2 ^ N.of_nat (opt_count opts)) &&
      (length fields =? N.to_nat fc)%nat && (length fts =? N.to_nat fc)%nat && (length opts =? N.to_nat fc)%nat &&
      let st := add_bits st c (bits_of_N (N.to_nat fc) mask ++ bits_of_N (opt_count opts) present) in
      (fix go (i oi : N) (fts : list etree) (opts : list bool) (fs : list (option wire)) (pf : list rnode)
              (st : wst) (al : N) {struct fs} : bool :=
         match fs, fts, opts with
         | f :: fs', ft :: fts', o :: opts' =>
           let oi' := if o then oi + 1 else oi in
           let encoded := N.testbit mask i && (negb o || N.testbit present oi) in
           match f with
           | Some a' =>
             let pi := if o && negb (N.testbit (prev_present prev) oi) then RNil else hd RNil pf in
             encoded &&
             (* a mandatory dictionary struct field is never the nil entry *)
             negb (negb o && match a' with WDictRef 0 => true | _ => false end) &&
             wire_ok env' (resolve env' ft) pi a' st al &&
             go (i + 1) oi' fts' opts' fs' (tl pf) (enc env' (resolve env' ft) a' st)
                (alloc_after env' (resolve env' ft) pi a' al)
           | None => negb encoded && go (i + 1) oi' fts' opts' fs' (tl pf) st al
           end
         | [], [], [] => true
         | _, _, _ => false
         end) 0 0 fts opts fields (prev_fields prev) st al in
    match t, a with
    | EPrim c p d, _ => prim_ok st p d a
    | EStruct c sid false None fc opts fts, WStruct mask present fields =>
      body c fc opts fts (push_env env t) mask present fields st
    | EStruct c sid false (Some dn) fc opts fts, WDictRef ref =>
      (ref <? w_tl st dn) && (ref <? two48)
    | EStruct c sid false (Some dn) fc opts fts, WDictFull (WStruct mask present fields) =>
      let st := add_bits st c [true] in
      body c fc opts fts (push_env env t) mask present fields st
    | EStruct c sid true _ fc opts fts, WOneof tag alt =>
      (tag <=? fc) && (N.of_nat (oneof_bits fc) <=? 64) &&
      match alt with
      | None => tag =? 0
      | Some a' =>
        negb (tag =? 0) &&
        let st := add_bits st c (bits_of_N (oneof_bits fc) tag) in
        let env' := push_env env t in
        wire_ok env' (resolve env' (nth (N.to_nat (tag - 1)) fts EBad)) (prev_alt prev tag) a' st al
      end
    | EArr c k et, WArr elems =>
      let n := N.of_nat (length elems) in
      let grow := n - N.of_nat (length (prev_elems prev)) in
      (n <? 2 ^ 40) &&
      negb ((0 <? grow) && (record_alloc_limit <? al + grow * elem_size sizes et)) &&
      let al := if 0 <? grow then al + grow * elem_size sizes et else al in
      let st := add_bits st c (uvc_write_bits n) in
      let env' := push_env env t in
      (fix go (es : list wire) (pe : list rnode) (st : wst) (al : N) {struct es} : bool :=
         match es with
         | [] => true
         | e :: es' =>
           wire_ok env' (resolve env' et) (hd RNil pe) e st al &&
           go es' (tl pe) (enc env' (resolve env' et) e st) (alloc_after env' (resolve env' et) (hd RNil pe) e al)
         end) elems (prev_elems prev) st al
    | EMap c mid kt vt, WMapFull kvs =>
      let n := N.of_nat (length kvs) in
      (n <? multimap_limit) &&
      let st := add_bytes st c (leb_enc (2 * n + 1)) in
      let env' := push_env env t in
      (fix go (l : list (wire * wire)) (pk : list (rnode * rnode)) (st : wst) (al : N) {struct l} : bool :=
         match l with
         | [] => true
         | (k, v) :: l' =>
           let '(pkk, pv) := hd (RNil, RNil) pk in
           let st1 := enc env' (resolve env' kt) k st in
           let al1 := alloc_after env' (resolve env' kt) pkk k al in
           wire_ok env' (resolve env' kt) pkk k st al &&
           wire_ok env' (resolve env' vt) pv v st1 al1 &&
           go l' (tl pk) (enc env' (resolve env' vt) v st1) (alloc_after env' (resolve env' vt) pv v al1)
         end) kvs (prev_kvs prev) st al
    | EMap c mid kt vt, WMapVals changed vals =>
      (changed <? 2 ^ 63) &&
      (if changed =? 0 then match vals with [] => true | _ => false end else true) &&
      let st := add_bytes st c (leb_enc (2 * changed)) in
      let env' := push_env env t in
      let prevs := sel_prevs changed 0 (prev_kvs prev) in
      (length vals =? length prevs)%nat &&
      (fix go (l : list wire) (ps : list rnode) (st : wst) (al : N) {struct l} : bool :=
         match l with
         | [] => true
         | v :: l' =>
           wire_ok env' (resolve env' vt) (hd RNil ps) v st al &&
           go l' (tl ps) (enc env' (resolve env' vt) v st) (alloc_after env' (resolve env' vt) (hd RNil ps) v al)
         end) vals prevs st al
    | _, _ => false
    end.
End Ok.

(* nesting depth of a wire tree: the decoder's recursion depth *)
Fixpoint height (a : wire) : nat :=
  match a with
  | WStruct _ _ fs => S (fold_right (fun f m => Nat.max (match f with Some x => height x | None => 0%nat end) m) 0%nat fs)
  | WDictFull s => S (height s)
  | WOneof _ (Some x) => S (height x)
  | WArr l => S (fold_right (fun x m => Nat.max (height x) m) 0%nat l)
  | WMapFull kvs => S (fold_right (fun kv m => Nat.max (Nat.max (height (fst kv)) (height (snd kv))) m) 0%nat kvs)
  | WMapVals _ l => S (fold_right (fun x m => Nat.max (height x) m) 0%nat l)
  | _ => 1%nat
  end.

(* [T]: the complete content of every column of the frame (bits and bytes).  The reader has
   consumed exactly what the writer has produced: written ++ remaining = total; codec state and
   dictionaries agree; every bit reader is inside its column without error. *)
Record totals := mkTot { t_bits : positive -> bits; t_bytes : positive -> bytes }.

Definition extends (T : totals) (ws : wst) : Prop :=
  forall c, (exists r, t_bits T c = wc_bits (wget ws c) ++ r) /\ (exists r, t_bytes T c = wc_bytes (wget ws c) ++ r).

Record sync (T : totals) (ws : wst) (rs : rst) : Prop := {
  sy_bits : forall c, wc_bits (wget ws c) ++ br_rem (rc_br (rget rs c)) = t_bits T c;
  sy_wf : forall c, BitIOFacts.br_wf (rc_br (rget rs c));
  sy_bytes : forall c, wc_bytes (wget ws c) ++ rc_bytes (rget rs c) = t_bytes T c;
  sy_u : forall c, rc_u (rget rs c) = wc_u (wget ws c) /\ CodecFacts.u64_wf (wc_u (wget ws c));
  sy_f : forall c, rc_f (rget rs c) = wc_f (wget ws c) /\ CodecFacts.f64_wf (wc_f (wget ws c));
  sy_sd : forall d, r_sd rs d = w_sd ws d;
  sy_tl : forall d, r_tl rs d = w_tl ws d;
  sy_noerr : w_err ws = false
}.
