(* Writer-side frame production from the syntax trees of the records (writer.go.tmpl
   restartFrame + recordbuf.go WriteTo): used to re-encode what was decoded from the
   implementation's bytes and compare byte for byte (canonical encoding: minimal varints,
   dictionary references whenever the value is in the dictionary, float scheme choice, padding). *)
From Coq Require Import List NArith ZArith Bool PArith Lia FMapPositive.
From Stef Require Import Bits BitIO Varint Codecs Schema Wire Frame.
Import ListNotations.
Open Scope N_scope.

Definition w_restart (fl : N) (st : wst) : wst :=
  let cols := if N.testbit fl 2
              then PM.map (fun x => mkWcol (wc_bits x) (wc_bytes x) u64_init f64_init) (w_cols st)
              else w_cols st in
  if N.testbit fl 0 then mkWst cols (PM.empty _) (PM.empty _) (w_err st)
  else mkWst cols (w_sdict st) (w_tlen st) (w_err st).

Definition w_clear (st : wst) : wst :=
  mkWst (PM.map (fun x => mkWcol [] [] (wc_u x) (wc_f x)) (w_cols st)) (w_sdict st) (w_tlen st) (w_err st).

(* encode the records of one frame that starts with restart flags [fl] *)
Definition frame_encode (t : etree) (fl : N) (st : wst) (recs : list wire) : wst * bytes :=
  let st := w_restart fl st in
  let st := fold_left (fun st a => enc [] t a st) recs st in
  (w_clear st, emit_data_frame_content st t (N.of_nat (length recs))).
