(* Writer-side frame production from the syntax trees of the records (writer.go.tmpl
   restartFrame + recordbuf.go WriteTo): used to re-encode what was decoded from the
   implementation's bytes and compare byte for byte (canonical encoding: minimal varints,
   dictionary references whenever the value is in the dictionary, float scheme choice, padding). *)
From Coq Require Import List NArith ZArith Bool PArith Lia FMapPositive.
From Stef Require Import Bits BitIO Varint Codecs Schema Wire WireOk Frame.
Import ListNotations.
Open Scope N_scope.

Definition w_restart (fl : N) (st : wst) : wst :=
  let cols := if N.testbit fl 2
              then PM.map (fun x => mkWcol (wc_bits x) (wc_bytes x) u64_init f64_init) (w_cols st)
              else w_cols st in
  if N.testbit fl 0 then mkWst cols (PM.empty _) (PM.empty _) (w_err st)
  else mkWst cols (w_sdict st) (w_tlen st) (w_err st).

Definition w_clear (st : wst) : wst :=
  mkWst (PM.map (fun x => mkWcol [] [] (wc_u x) (wc_f x)) (w_cols st)) (w_sdict st) (w_tlen st) (w_err st).

(* encode the records of one frame that starts with restart flags [fl] *)
Definition frame_encode (t : etree) (fl : N) (st : wst) (recs : list wire) : wst * bytes :=
  let st := w_restart fl st in
  let st := fold_left (fun st a => enc [] t a st) recs st in
  (w_clear st, emit_data_frame_content st t (N.of_nat (length recs))).

(* what the writer's SizeLimiter has accumulated: every encoder accounts the bits/bytes it
   appends to its own column (AddFrameBits / AddFrameBytes), padding and the size table excluded *)
Definition wst_frame_bits (st : wst) : N :=
  PM.fold (fun _ x acc => acc + N.of_nat (length (wc_bits x)) + 8 * N.of_nat (length (wc_bytes x)))
          (w_cols st) 0.

(* lower bound of the dictionary accounting (stringdict.go: len + unsafe.Sizeof(string) = len + 16) *)
Definition wst_strdict_bytes (st : wst) : N :=
  PM.fold (fun _ d acc => fold_left (fun a s => a + N.of_nat (length s) + 16) d acc) (w_sdict st) 0.

(* number of struct dictionary entries (RefNum 0 = nil excluded), per dictionary id *)
Definition wst_tdict_counts (st : wst) : list (positive * N) :=
  PM.fold (fun k n acc => (k, n - 1) :: acc) (w_tlen st) [].

(* per-record accounting inside one frame: cumulative frame bits after each record *)
Definition frame_encode_trace (t : etree) (fl : N) (st : wst) (recs : list wire)
  : wst * list (N * N * list (positive * N)) :=
  let st := w_restart fl st in
  fold_left (fun (acc : wst * list (N * N * list (positive * N))) a =>
               let '(st, tr) := acc in
               let st' := enc [] t a st in
               (st', tr ++ [(wst_frame_bits st', wst_strdict_bytes st', wst_tdict_counts st')]))
            recs (st, []).

(* the precondition of the round-trip theorem evaluated on what the implementation really emits:
   every record of a frame, with the reader's previous record and a fresh allocation counter *)
Definition frame_check (sizes : N -> N) (t : etree) (fl : N) (st : wst) (recs : list (rnode * wire))
  : wst * list bool :=
  let st := w_restart fl st in
  fold_left (fun (acc : wst * list bool) pa =>
               let '(st, oks) := acc in
               let '(prev, a) := pa in
               (enc [] t a st, oks ++ [wire_ok sizes [] t prev a st 0]))
            recs (st, []).
