module verif/harness

go 1.25.0

require (
	github.com/splunk/stef/go/grpc v0.1.1
	github.com/splunk/stef/go/otel v0.1.1
	github.com/splunk/stef/go/pkg v0.1.1
)

require (
	github.com/klauspost/compress v1.18.4
	google.golang.org/grpc v1.79.1
	modernc.org/b/v2 v2.1.10
)

require (
	golang.org/x/net v0.48.0 // indirect
	golang.org/x/sys v0.39.0 // indirect
	golang.org/x/text v0.32.0 // indirect
	google.golang.org/genproto/googleapis/rpc v0.0.0-20251202230838-ff82c1b0f217 // indirect
	google.golang.org/protobuf v1.36.11 // indirect
)

replace (
	github.com/splunk/stef/go/grpc => /repo/go/grpc
	github.com/splunk/stef/go/otel => /repo/go/otel
	github.com/splunk/stef/go/pkg => /repo/go/pkg
)
