// Package grpcpair is the end-to-end harness of property C14: two stefc-generated packages (schema
// A and schema B) linked into one binary by tools/genpair.py; per case one of them is the client
// and one the server.  The REAL stefgrpc.StreamServer runs in-process (bufconn) with a generated
// reader of the server's schema inside OnStream, the REAL stefgrpc.Client.Connect performs the
// handshake with the client's wire schema, the generated writer of the client's schema is created
// on the returned ChunkWriter with the returned options and writes the case's records.
//
// One JSON case per stdin line, one JSON result per line:
//
//	{"id":..,"client":"a"|"b","server":"a"|"b","root":..,"maxdict":N,"opts":{..rt.Opts..},"ops":[..],
//	 "override":""|"server"}      override=server: probe of the intended behaviour (opts.Schema := server schema)
//
// result: connect error, returned options (schema counts, IncludeDescriptor, MaxTotalDictSize),
// writer creation error, dumps of the records written (client schema), what the server's reader
// did (open error / records / error), the descriptor it saw and the frame flags it received.
package grpcpair

import (
	"bufio"
	"bytes"
	"context"
	"encoding/binary"
	"encoding/json"
	"fmt"
	"io"
	"net"
	"os"
	"sync"
	"sync/atomic"
	"time"

	"google.golang.org/grpc"
	"google.golang.org/grpc/credentials/insecure"
	"google.golang.org/grpc/test/bufconn"

	stefgrpc "github.com/splunk/stef/go/grpc"
	"github.com/splunk/stef/go/grpc/stef_proto"
	"github.com/splunk/stef/go/pkg"
	"github.com/splunk/stef/go/pkg/schema"

	"verif/harness/rt"
)

type Side struct {
	Roots map[string]rt.Root
	Sch   rt.Schema
}

type Case struct {
	ID       string           `json:"id"`
	Client   string           `json:"client"`
	Server   string           `json:"server"`
	Root     string           `json:"root"`
	MaxDict  uint64           `json:"maxdict"`
	Opts     rt.Opts          `json:"opts"`
	Ops      []map[string]any `json:"ops"`
	Override string           `json:"override"`
	// Local: the options the MODEL prescribes for this pair; when present the same records are also
	// written with exactly these options into memory and read by the server-side reader without any
	// handshake or transport (delimits C14 from C01/C04: a wrong decode that shows up here too is
	// the codec's, not the handshake's)
	Local *LocalOpts `json:"local"`
}

type LocalOpts struct {
	Schema []uint64 `json:"schema"`
	Descr  bool     `json:"descr"`
}

type LocalOut struct {
	WriterErr string   `json:"writer_err"`
	WriteErr  string   `json:"write_err"`
	OpenErr   string   `json:"openerr"`
	Err       string   `json:"err"`
	Panic     string   `json:"panic,omitempty"`
	Recs      []string `json:"recs"`
}

type OptsOut struct {
	Schema  []uint64 `json:"schema"` // nil = opts.Schema is nil
	Descr   bool     `json:"descr"`
	MaxDict uint64   `json:"maxdict"`
}

type ServerOut struct {
	Started  bool     `json:"started"`
	OpenErr  string   `json:"openerr"`
	Err      string   `json:"err"`
	Panic    string   `json:"panic,omitempty"`
	Recs     []string `json:"recs"`
	Descr    string   `json:"ws,omitempty"` // wire schema found in the var header ("" = none)
	Flags    []int    `json:"flags"`        // flags of every frame received after the fixed header
	Bytes    int      `json:"bytes"`
	Compr    int      `json:"compr"`
	FrameErr string   `json:"frameerr,omitempty"`
}

type Out struct {
	ID         string     `json:"id"`
	ClientWS   []uint64   `json:"client_ws"`
	ServerWS   []uint64   `json:"server_ws"`
	ConnectErr string     `json:"connect_err"`
	Opts       *OptsOut   `json:"opts"`
	WriterErr  string     `json:"writer_err"`
	WriteErr   string     `json:"write_err"`
	Panic      string     `json:"panic,omitempty"`
	Written    []string   `json:"written"`
	SentBytes  int        `json:"sent_bytes"`
	Server     *ServerOut `json:"server"`
	Acks       int        `json:"acks"`
	Note       string     `json:"note,omitempty"`
	Local      *LocalOut  `json:"local,omitempty"`
}

func wireSchemaOf(counts []uint64) *schema.WireSchema {
	var buf bytes.Buffer
	buf.Write(binary.AppendUvarint(nil, uint64(len(counts))))
	for _, c := range counts {
		buf.Write(binary.AppendUvarint(nil, c))
	}
	ws := &schema.WireSchema{}
	if err := ws.Deserialize(&buf); err != nil {
		panic(err)
	}
	return ws
}

// runLocal: same records, the model's options, no handshake, no transport
func runLocal(cl, sv *Side, c *Case) (lo *LocalOut) {
	lo = &LocalOut{}
	defer func() {
		if r := recover(); r != nil {
			lo.Panic = fmt.Sprint(r)
		}
	}()
	sink := &rt.ChunkSink{}
	var werr error
	cenv := &rt.Env{Sch: cl.Sch, Roots: map[string]rt.Root{
		c.Root: {
			NewWriter: func(_ pkg.ChunkWriter, o pkg.WriterOptions) (any, error) {
				o.Schema = nil
				if c.Local.Schema != nil {
					o.Schema = wireSchemaOf(c.Local.Schema)
				}
				o.IncludeDescriptor = c.Local.Descr
				o.MaxTotalDictSize = uint(c.MaxDict)
				w, err := cl.Roots[c.Root].NewWriter(sink, o)
				werr = err
				return w, err
			},
			NewReader:  func(io.Reader) (any, error) { return nil, io.EOF },
			WireSchema: cl.Roots[c.Root].WireSchema,
		},
	}}
	ro := cenv.RunCase(&rt.Case{ID: c.ID, Root: c.Root, Opts: c.Opts, Ops: c.Ops})
	lo.WriterErr = errStr(werr)
	if werr != nil {
		return lo
	}
	lo.WriteErr, lo.Panic = ro.WErr, ro.Panic
	senv := &rt.Env{Sch: sv.Sch, Roots: sv.Roots}
	rd := senv.ReadAll(c.Root, bytes.NewReader(sink.All))
	lo.OpenErr, lo.Err, lo.Recs = rd.OpenErr, rd.Err, rd.Recs
	if rd.Panic != "" {
		lo.Panic = rd.Panic
	}
	return lo
}

func countsOf(ws *schema.WireSchema) []uint64 {
	if ws == nil {
		return nil
	}
	var buf bytes.Buffer
	if err := ws.Serialize(&buf); err != nil {
		panic(err)
	}
	n, err := binary.ReadUvarint(&buf)
	if err != nil {
		panic(err)
	}
	out := make([]uint64, 0, n)
	for i := uint64(0); i < n; i++ {
		c, err := binary.ReadUvarint(&buf)
		if err != nil {
			panic(err)
		}
		out = append(out, c)
	}
	return out
}

// countingWriter wraps the ChunkWriter returned by Connect
type countingWriter struct {
	inner pkg.ChunkWriter
	n     atomic.Int64
}

func (c *countingWriter) WriteChunk(h, b []byte) error {
	err := c.inner.WriteChunk(h, b)
	if err == nil {
		c.n.Add(int64(len(h) + len(b)))
	}
	return err
}

// teeReader records what the server's STEF reader pulled from the gRPC reader; once the client
// has started to disconnect, a transport error is the end of the stream
type teeReader struct {
	inner   io.Reader
	mu      sync.Mutex
	buf     []byte
	closing *atomic.Bool
}

func (t *teeReader) Read(p []byte) (int, error) {
	n, err := t.inner.Read(p)
	t.mu.Lock()
	t.buf = append(t.buf, p[:n]...)
	t.mu.Unlock()
	if err != nil && t.closing.Load() {
		return n, io.EOF
	}
	return n, err
}

func (t *teeReader) size() int {
	t.mu.Lock()
	defer t.mu.Unlock()
	return len(t.buf)
}

func errStr(err error) string {
	if err == nil {
		return ""
	}
	return err.Error()
}

func runCase(sides map[string]*Side, c *Case) (out *Out) {
	out = &Out{ID: c.ID}
	defer func() {
		if r := recover(); r != nil {
			out.Panic = fmt.Sprint(r)
		}
	}()
	cl, sv := sides[c.Client], sides[c.Server]
	if c.Local != nil {
		out.Local = runLocal(cl, sv, c)
	}
	clientWS, err := cl.Roots[c.Root].WireSchema()
	if err != nil {
		panic(err)
	}
	serverWS, err := sv.Roots[c.Root].WireSchema()
	if err != nil {
		panic(err)
	}
	out.ClientWS, out.ServerWS = countsOf(&clientWS), countsOf(&serverWS)

	// ---- server: the real StreamServer, a generated reader of the server schema in OnStream
	var closing atomic.Bool
	serverDone := make(chan *ServerOut, 1)
	var tee atomic.Pointer[teeReader]
	senv := &rt.Env{Sch: sv.Sch, Roots: sv.Roots}
	onStream := func(reader stefgrpc.GrpcReader, stream stefgrpc.STEFStream) error {
		so := &ServerOut{Started: true}
		t := &teeReader{inner: reader, closing: &closing}
		tee.Store(t)
		ro := senv.ReadAll(c.Root, t)
		so.OpenErr, so.Err, so.Panic, so.Recs = ro.OpenErr, ro.Err, ro.Panic, ro.Recs
		so.Bytes = t.size()
		serverDone <- so
		if ro.OpenErr != "" {
			return fmt.Errorf("cannot open stream: %s", ro.OpenErr)
		}
		return nil
	}
	lis := bufconn.Listen(1 << 20)
	gs := grpc.NewServer()
	stef_proto.RegisterSTEFDestinationServer(gs, stefgrpc.NewStreamServer(stefgrpc.ServerSettings{
		ServerSchema: &serverWS,
		MaxDictBytes: c.MaxDict,
		Callbacks:    stefgrpc.Callbacks{OnStream: onStream},
	}))
	go gs.Serve(lis)
	defer gs.Stop()

	conn, err := grpc.NewClient("passthrough:///bufnet",
		grpc.WithContextDialer(func(ctx context.Context, _ string) (net.Conn, error) { return lis.DialContext(ctx) }),
		grpc.WithTransportCredentials(insecure.NewCredentials()))
	if err != nil {
		panic(err)
	}
	defer conn.Close()

	var acks atomic.Int64
	client, err := stefgrpc.NewClient(stefgrpc.ClientSettings{
		GrpcClient:   stef_proto.NewSTEFDestinationClient(conn),
		ClientSchema: stefgrpc.ClientSchema{RootStructName: c.Root, WireSchema: &clientWS},
		Callbacks: stefgrpc.ClientCallbacks{
			OnDisconnect: func(error) {},
			OnAck:        func(uint64) error { acks.Add(1); return nil },
		},
	})
	if err != nil {
		panic(err)
	}
	ctx, cancel := context.WithTimeout(context.Background(), 20*time.Second)
	defer cancel()
	cw, opts, err := client.Connect(ctx)
	out.ConnectErr = errStr(err)
	if err != nil {
		return out
	}
	out.Opts = &OptsOut{Schema: countsOf(opts.Schema), Descr: opts.IncludeDescriptor, MaxDict: uint64(opts.MaxTotalDictSize)}
	if c.Override == "server" {
		// probe, not the code's behaviour: what the client-superset comment promises
		opts.Schema = &serverWS
		opts.IncludeDescriptor = true
	}

	// ---- client: the generated writer on the returned ChunkWriter with the returned options;
	// records are driven by rt.RunCase through a Root whose NewWriter ignores rt's sink
	counter := &countingWriter{inner: cw}
	var werr error
	cenv := &rt.Env{Sch: cl.Sch, Roots: map[string]rt.Root{
		c.Root: {
			NewWriter: func(_ pkg.ChunkWriter, o pkg.WriterOptions) (any, error) {
				o.Schema = opts.Schema
				o.IncludeDescriptor = opts.IncludeDescriptor
				o.MaxTotalDictSize = opts.MaxTotalDictSize
				w, err := cl.Roots[c.Root].NewWriter(counter, o)
				werr = err
				return w, err
			},
			NewReader:  func(io.Reader) (any, error) { return nil, io.EOF },
			WireSchema: cl.Roots[c.Root].WireSchema,
		},
	}}
	ro := cenv.RunCase(&rt.Case{ID: c.ID, Root: c.Root, Opts: c.Opts, Ops: c.Ops})
	out.WriterErr = errStr(werr)
	if werr == nil {
		out.WriteErr = ro.WErr
	}
	if ro.Panic != "" {
		out.Panic = ro.Panic
	}
	out.Written = ro.Written
	out.SentBytes = int(counter.n.Load())

	// ---- let the server take everything that was sent, then disconnect
	var so *ServerOut
	deadline := time.After(15 * time.Second)
wait:
	for {
		select {
		case so = <-serverDone:
			break wait
		case <-deadline:
			out.Note = "timeout waiting for the server to take the bytes"
			break wait
		case <-time.After(200 * time.Microsecond):
			if t := tee.Load(); t != nil && t.size() >= out.SentBytes {
				break wait
			}
		}
	}
	closing.Store(true)
	dctx, dcancel := context.WithTimeout(context.Background(), 5*time.Second)
	if err := client.Disconnect(dctx); err != nil {
		out.Note += " disconnect: " + err.Error()
	}
	dcancel()
	if so == nil {
		select {
		case so = <-serverDone:
		case <-time.After(10 * time.Second):
			out.Note += " server did not finish"
			so = &ServerOut{}
		}
	}
	if t := tee.Load(); t != nil {
		t.mu.Lock()
		stream := append([]byte{}, t.buf...)
		t.mu.Unlock()
		so.Bytes = len(stream)
		compr, frames, ferr := rt.Frames(stream)
		so.Compr = compr
		if ferr != nil {
			so.FrameErr = ferr.Error()
		}
		for i, f := range frames {
			so.Flags = append(so.Flags, f.Flags)
			if i == 0 {
				so.Descr = descriptorOf(f.Content)
			}
		}
	}
	out.Server = so
	out.Acks = int(acks.Load())
	return out
}

// descriptorOf extracts the wire schema counts from the var header frame content (hex)
func descriptorOf(contentHex string) string {
	b := make([]byte, len(contentHex)/2)
	for i := range b {
		fmt.Sscanf(contentHex[2*i:2*i+2], "%02x", &b[i])
	}
	r := bytes.NewReader(b)
	n, err := binary.ReadUvarint(r)
	if err != nil || n == 0 {
		return ""
	}
	sb := make([]byte, n)
	if _, err := io.ReadFull(r, sb); err != nil {
		return "?"
	}
	ws := &schema.WireSchema{}
	if err := ws.Deserialize(bytes.NewBuffer(sb)); err != nil {
		return "?"
	}
	s := ""
	for i, c := range countsOf(ws) {
		if i > 0 {
			s += ","
		}
		s += fmt.Sprint(c)
	}
	return s
}

// Main: argv[1], argv[2] = schema JSON of package a / b (tools/gen/gen_schemas.py format)
func Main(a, b map[string]rt.Root) {
	sides := map[string]*Side{"a": {Roots: a}, "b": {Roots: b}}
	for i, k := range []string{"a", "b"} {
		raw, err := os.ReadFile(os.Args[1+i])
		if err != nil {
			panic(err)
		}
		if err := json.Unmarshal(raw, &sides[k].Sch); err != nil {
			panic(err)
		}
	}
	sc := bufio.NewScanner(os.Stdin)
	sc.Buffer(make([]byte, 1<<20), 1<<28)
	w := bufio.NewWriter(os.Stdout)
	defer w.Flush()
	for sc.Scan() {
		if len(sc.Bytes()) == 0 {
			continue
		}
		var c Case
		if err := json.Unmarshal(sc.Bytes(), &c); err != nil {
			panic(err)
		}
		out := runCase(sides, &c)
		j, _ := json.Marshal(out)
		w.Write(j)
		w.WriteString("\n")
		w.Flush()
	}
}
