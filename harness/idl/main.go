// Go side of the IDL correspondence (C12, C13): same line protocol as ocaml/idl_driver.ml, executed on
// the real go/pkg/idl lexer and parser, schema.PrettyPrint, schema.NewWireSchema and
// WireSchema.Serialize/Deserialize built from /repo's working tree.
//
//	L <hex>   lexer only: every token up to EOF as kind@line:col:ofs[=ident|=#number]
//	P <hex>   idl parser (under recover): outcome, error position and class, canonical schema,
//	          warnings, printed text, wire schema per root, and the same for parse(print(schema))
//	D <hex>   WireSchema.Deserialize, Serialize of the result, Deserialize of that
//	U letter|digit|space   maximal code point ranges of unicode.IsLetter / IsDigit / IsSpace
//	K <cp> ...  letter/digit/space flags of the given code points
package main

import (
	"bufio"
	"bytes"
	"encoding/hex"
	"fmt"
	"os"
	"sort"
	"strings"
	"unicode"

	"github.com/splunk/stef/go/pkg/idl"
	"github.com/splunk/stef/go/pkg/schema"
)

func unhex(s string) []byte {
	if s == "-" {
		return []byte{}
	}
	b, err := hex.DecodeString(s)
	if err != nil {
		panic(err)
	}
	return b
}
func hx(b []byte) string {
	if len(b) == 0 {
		return "-"
	}
	return hex.EncodeToString(b)
}

// token kinds are printed by their numeric value (the constants are unexported)
func runLex(in []byte) (out string) {
	defer func() {
		if r := recover(); r != nil {
			out = "panic " + panicClass(r)
		}
	}()
	l := idl.NewLexer(bytes.NewBuffer(in))
	var sb strings.Builder
	for n := 0; ; n++ {
		t := l.Token()
		p := l.TokenStartPos()
		if n > 0 {
			sb.WriteByte(' ')
		}
		fmt.Fprintf(&sb, "%d@%d:%d:%d", uint(t), p.Line, p.Col, p.ByteOfs)
		switch uint(t) {
		case 3: // tIdent
			sb.WriteString("=" + l.Ident())
		case 19: // tIntNumber
			fmt.Fprintf(&sb, "=#%d", l.Uint64Number())
		case 0: // tError
			sb.WriteString("=" + lexErrClass(l.ErrMsg()))
		}
		if uint(t) == 1 { // tEOF
			break
		}
		if n > len(in)+2 {
			sb.WriteString(" RUNAWAY")
			break
		}
		l.Next()
	}
	return sb.String()
}

func lexErrClass(m string) string {
	switch {
	case strings.HasPrefix(m, "invalid character"):
		return "char"
	case strings.HasPrefix(m, "invalid number"):
		return "number"
	case strings.HasPrefix(m, "expected start of comment"):
		return "comment"
	}
	return "other"
}

func tokName(s string) string {
	if len(s) == 1 && (s[0] < 0x21 || s[0] > 0x7e) {
		return fmt.Sprintf("#%d", s[0])
	}
	return s
}

func msgClass(m string) string {
	switch {
	case m == "expected struct, oneof or multimap":
		return "toplevel"
	case strings.HasPrefix(m, "expected ") && strings.Contains(m, " but got "):
		rest := strings.TrimPrefix(m, "expected ")
		i := strings.Index(rest, " but got ")
		return "eat/" + tokName(rest[:i]) + "/" + tokName(rest[i+len(" but got "):])
	case m == "identifier expected":
		return "pkgident"
	case m == "struct name expected":
		return "structname"
	case m == "multimap name expected":
		return "multimapname"
	case m == "enum name expected":
		return "enumname"
	case m == "dict name expected":
		return "dictname"
	case strings.HasPrefix(m, "duplicate top-level identifier: "):
		return "duptop"
	case strings.HasPrefix(m, "duplicate field name: "):
		return "dupfield"
	case m == "type specifier expected after []":
		return "arrtype"
	case strings.HasPrefix(m, "type specifier expected"):
		return "notype"
	case m == "only string or bytes can have dict modifier":
		return "dictprim"
	case m == "oneof cannot have dict modifier":
		return "oneofdict"
	case m == "oneof cannot be a root":
		return "oneofroot"
	case m == "root struct must have at least one field":
		return "rootempty"
	case m == "enum field value expected":
		return "enumvalue"
	case strings.HasPrefix(m, "enum field value expected: "):
		return "enumvalue:" + lexErrClass(strings.TrimPrefix(m, "enum field value expected: "))
	case strings.HasPrefix(m, "unknown type: "):
		return "unknowntype"
	case strings.HasPrefix(m, "ambiguous type: "):
		return "ambiguous"
	}
	return "other:" + hex.EncodeToString([]byte(m))
}

func panicClass(r any) string {
	s := fmt.Sprint(r)
	switch s {
	case "unknown type":
		return "unknown-type"
	case "invalid state":
		return "invalid-state"
	case "cannot set recursive on Primitive":
		return "set-recursive-primitive"
	case "invalid FieldType":
		return "invalid-fieldtype"
	case "unknown FieldType":
		return "unknown-fieldtype"
	}
	if strings.HasPrefix(s, "runtime error") {
		return "runtime"
	}
	return "other:" + hex.EncodeToString([]byte(s))
}

func b01(b bool) string {
	if b {
		return "1"
	}
	return "0"
}

var primNames = map[schema.PrimitiveFieldType]string{
	schema.PrimitiveTypeInt64: "int64", schema.PrimitiveTypeUint64: "uint64", schema.PrimitiveTypeFloat64: "float64",
	schema.PrimitiveTypeBool: "bool", schema.PrimitiveTypeString: "string", schema.PrimitiveTypeBytes: "bytes",
}

func safeRecursive(ft *schema.FieldType) (s string) {
	defer func() {
		if r := recover(); r != nil {
			s = "P"
		}
	}()
	return b01(ft.Recursive())
}

// canonical form of a FieldType: the reachable combinations of the Go struct's fields are
// none | prim | enum (Primitive=uint64 and Enum) | struct | map | arr; anything else is reported as weird
func canonType(ft *schema.FieldType) string {
	set := 0
	if ft.Primitive != nil {
		set |= 1
	}
	if ft.Array != nil {
		set |= 2
	}
	if ft.Struct != "" {
		set |= 4
	}
	if ft.MultiMap != "" {
		set |= 8
	}
	if ft.Enum != "" {
		set |= 16
	}
	var s string
	switch set {
	case 0:
		s = "none"
	case 1:
		s = "prim:" + primNames[ft.Primitive.Type]
	case 17:
		if ft.Primitive.Type != schema.PrimitiveTypeUint64 {
			s = "weird:enumprim"
		} else {
			s = "enum:" + ft.Enum
		}
	case 4:
		if ft.StructDef == nil || ft.StructDef.Name != ft.Struct {
			s = "ref:" + ft.Struct
		} else {
			s = "struct:" + ft.Struct
		}
	case 8:
		if ft.MultimapDef == nil || ft.MultimapDef.Name != ft.MultiMap {
			s = "weird:mapdef"
		} else {
			s = "map:" + ft.MultiMap
		}
	case 2:
		s = "arr(rec=" + safeRecursive(ft) + ")[" + canonType(&ft.Array.ElemType) + "]"
	default:
		s = fmt.Sprintf("weird:%d", set)
	}
	if ft.DictName != "" {
		s += "@" + ft.DictName
	}
	return s
}

func sortedKeys[T any](m map[string]T) []string {
	var ks []string
	for k := range m {
		ks = append(ks, k)
	}
	sort.Strings(ks)
	return ks
}

func canonSchema(s *schema.Schema) string {
	var sb strings.Builder
	sb.WriteString("pkg=" + strings.Join(s.PackageName, "."))
	for _, n := range sortedKeys(s.Enums) {
		e := s.Enums[n]
		sb.WriteString(";E:" + n)
		if e.Name != n {
			sb.WriteString("!name")
		}
		sb.WriteString("{")
		for i, f := range e.Fields {
			if i > 0 {
				sb.WriteString(",")
			}
			fmt.Fprintf(&sb, "%s=%d", f.Name, f.Value)
		}
		sb.WriteString("}")
	}
	for _, n := range sortedKeys(s.Multimaps) {
		m := s.Multimaps[n]
		probe := schema.FieldType{MultimapDef: m}
		sb.WriteString(";M:" + n)
		if m.Name != n {
			sb.WriteString("!name")
		}
		fmt.Fprintf(&sb, "{rec=%s,k=%s,v=%s}", safeRecursive(&probe), canonType(&m.Key.Type), canonType(&m.Value.Type))
	}
	for _, n := range sortedKeys(s.Structs) {
		st := s.Structs[n]
		sb.WriteString(";S:" + n)
		if st.Name != n {
			sb.WriteString("!name")
		}
		fmt.Fprintf(&sb, "{oneof=%s,dict=%s,root=%s,rec=%s|", b01(st.OneOf), st.DictName, b01(st.IsRoot), b01(st.Recursive()))
		for i, f := range st.Fields {
			if i > 0 {
				sb.WriteString(",")
			}
			sb.WriteString(f.Name + ":" + canonType(&f.FieldType) + ":" + b01(f.Optional))
		}
		sb.WriteString("}")
	}
	return sb.String()
}

func wireCounts(s *schema.Schema) (out string) {
	var parts []string
	for _, n := range sortedKeys(s.Structs) {
		if !s.Structs[n].IsRoot {
			continue
		}
		parts = append(parts, n+":"+wireOne(s, n))
	}
	if len(parts) == 0 {
		return "-"
	}
	return strings.Join(parts, ";")
}

func wireOne(s *schema.Schema, root string) (out string) {
	defer func() {
		if r := recover(); r != nil {
			out = "panic/" + panicClass(r)
		}
	}()
	w := schema.NewWireSchema(s, root)
	var buf bytes.Buffer
	if err := w.Serialize(&buf); err != nil {
		return "serr"
	}
	return countsOf(buf.Bytes()) + "/" + hx(buf.Bytes())
}

// decode a serialized wire schema back into its count list (independent of the library)
func countsOf(b []byte) string {
	var vals []string
	i := 0
	rd := func() (uint64, bool) {
		var x uint64
		var s uint
		for ; i < len(b); i++ {
			c := b[i]
			if c < 0x80 {
				i++
				return x | uint64(c)<<s, true
			}
			x |= uint64(c&0x7f) << s
			s += 7
		}
		return 0, false
	}
	n, ok := rd()
	if !ok {
		return "?"
	}
	for k := uint64(0); k < n; k++ {
		v, ok := rd()
		if !ok {
			return "?"
		}
		vals = append(vals, fmt.Sprint(v))
	}
	if len(vals) == 0 {
		return "_"
	}
	return strings.Join(vals, ",")
}

type parseResult struct {
	kind  string // ok | err | panic
	head  string
	sch   *schema.Schema
	warns []string
}

func doParse(in []byte) (res parseResult) {
	defer func() {
		if r := recover(); r != nil {
			res = parseResult{kind: "panic", head: "panic " + panicClass(r)}
		}
	}()
	lexer := idl.NewLexer(bytes.NewBuffer(in))
	parser := idl.NewParser(lexer, "x.stef")
	err := parser.Parse()
	if err != nil {
		if e, ok := err.(*idl.Error); ok {
			return parseResult{kind: "err", head: fmt.Sprintf("err %d:%d:%d %s", e.Pos.Line, e.Pos.Col, e.Pos.ByteOfs, msgClass(e.Msg))}
		}
		return parseResult{kind: "err", head: "err ?:?:? nonidl:" + hex.EncodeToString([]byte(err.Error()))}
	}
	var ws []string
	for _, m := range parser.Messages() {
		w := "w"
		if m.Type != idl.MessageTypeWarning {
			w = "e"
		}
		switch {
		case strings.HasPrefix(m.Msg, "struct "):
			w += "S"
		case strings.HasPrefix(m.Msg, "oneof "):
			w += "O"
		case strings.HasPrefix(m.Msg, "multimap "):
			w += "M"
		case strings.HasPrefix(m.Msg, "enum "):
			w += "E"
		default:
			w += "?"
		}
		q1 := strings.Index(m.Msg, "\"")
		q2 := strings.LastIndex(m.Msg, "\"")
		if q1 >= 0 && q2 > q1 {
			w += ":" + m.Msg[q1+1:q2]
		}
		ws = append(ws, w)
	}
	return parseResult{kind: "ok", head: "ok", sch: parser.Schema(), warns: ws}
}

func safePrint(s *schema.Schema) (out []byte, ok bool) {
	defer func() {
		if r := recover(); r != nil {
			out, ok = []byte(panicClass(r)), false
		}
	}()
	return []byte(s.PrettyPrint()), true
}

func runParse(in []byte) string {
	r := doParse(in)
	if r.kind != "ok" {
		return r.head
	}
	var sb strings.Builder
	sb.WriteString("ok\tS=" + canonSchema(r.sch))
	if len(r.warns) == 0 {
		sb.WriteString("\tW=-")
	} else {
		sb.WriteString("\tW=" + strings.Join(r.warns, ","))
	}
	sb.WriteString("\tC=" + wireCounts(r.sch))
	txt, ok := safePrint(r.sch)
	if !ok {
		sb.WriteString("\tT=panic/" + string(txt))
		return sb.String()
	}
	sb.WriteString("\tT=" + hx(txt))
	r2 := doParse(txt)
	if r2.kind != "ok" {
		sb.WriteString("\tR=" + r2.head)
		return sb.String()
	}
	sb.WriteString("\tR=ok\tS2=" + canonSchema(r2.sch) + "\tC2=" + wireCounts(r2.sch))
	return sb.String()
}

func wsErrClass(err error) string {
	if strings.Contains(err.Error(), "struct count limit exceeded") {
		return "limit"
	}
	return "eof"
}

func runDeser(in []byte) (out string) {
	defer func() {
		if r := recover(); r != nil {
			out = "panic " + panicClass(r)
		}
	}()
	var w schema.WireSchema
	rd := bytes.NewReader(in)
	if err := w.Deserialize(rd); err != nil {
		return "err " + wsErrClass(err)
	}
	var buf bytes.Buffer
	if err := w.Serialize(&buf); err != nil {
		return "ok serr"
	}
	var w2 schema.WireSchema
	rd2 := bytes.NewReader(buf.Bytes())
	if err := w2.Deserialize(rd2); err != nil {
		return "ok " + countsOf(buf.Bytes()) + " " + hx(buf.Bytes()) + " err2 " + wsErrClass(err)
	}
	var buf2 bytes.Buffer
	_ = w2.Serialize(&buf2)
	return fmt.Sprintf("ok %s %s again %s", countsOf(buf.Bytes()), hx(buf.Bytes()), hx(buf2.Bytes()))
}

func runUnicode(which string) string {
	var f func(rune) bool
	switch which {
	case "letter":
		f = unicode.IsLetter
	case "digit":
		f = unicode.IsDigit
	case "space":
		f = unicode.IsSpace
	default:
		return "?"
	}
	var parts []string
	start := rune(-1)
	for r := rune(0); r <= unicode.MaxRune+1; r++ {
		in := r <= unicode.MaxRune && f(r)
		if in && start < 0 {
			start = r
		} else if !in && start >= 0 {
			parts = append(parts, fmt.Sprintf("%d-%d", start, r-1))
			start = -1
		}
	}
	return unicode.Version + " " + strings.Join(parts, ",")
}

func main() {
	sc := bufio.NewScanner(os.Stdin)
	sc.Buffer(make([]byte, 1<<20), 1<<26)
	out := bufio.NewWriterSize(os.Stdout, 1<<20)
	defer out.Flush()
	for sc.Scan() {
		line := sc.Text()
		sp := strings.IndexByte(line, ' ')
		if sp < 0 {
			fmt.Fprintln(out, "?")
			continue
		}
		cmd, arg := line[:sp], line[sp+1:]
		switch cmd {
		case "L":
			fmt.Fprintln(out, runLex(unhex(arg)))
		case "P":
			fmt.Fprintln(out, runParse(unhex(arg)))
		case "D":
			fmt.Fprintln(out, runDeser(unhex(arg)))
		case "U":
			fmt.Fprintln(out, runUnicode(arg))
		case "K":
			var parts []string
			for _, f := range strings.Fields(arg) {
				var c int64
				fmt.Sscan(f, &c)
				r := rune(c)
				p := ""
				for _, t := range []struct {
					f func(rune) bool
					s string
				}{{unicode.IsLetter, "l"}, {unicode.IsDigit, "d"}, {unicode.IsSpace, "s"}} {
					if t.f(r) {
						p += t.s
					} else {
						p += "-"
					}
				}
				parts = append(parts, p)
			}
			fmt.Fprintln(out, strings.Join(parts, " "))
		default:
			fmt.Fprintln(out, "?")
		}
	}
}
