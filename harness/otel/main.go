// Harness binary for the OpenTelemetry schema (go/otel/otelstef), roots Metrics and Spans.
package main

import (
	"io"

	"github.com/splunk/stef/go/otel/otelstef"
	"github.com/splunk/stef/go/pkg"
	"github.com/splunk/stef/go/pkg/schema"

	"verif/harness/rt"
)

func main() {
	rt.Main(map[string]rt.Root{
		"Metrics": {
			Cmp:        func(a, b any) int { return otelstef.CmpMetrics(a.(*otelstef.Metrics), b.(*otelstef.Metrics)) },
			NewWriter:  func(d pkg.ChunkWriter, o pkg.WriterOptions) (any, error) { return otelstef.NewMetricsWriter(d, o) },
			NewReader:  func(s io.Reader) (any, error) { return otelstef.NewMetricsReader(s) },
			WireSchema: func() (schema.WireSchema, error) { return otelstef.MetricsWireSchema() },
		},
		"Spans": {
			Cmp:        func(a, b any) int { return otelstef.CmpSpans(a.(*otelstef.Spans), b.(*otelstef.Spans)) },
			NewWriter:  func(d pkg.ChunkWriter, o pkg.WriterOptions) (any, error) { return otelstef.NewSpansWriter(d, o) },
			NewReader:  func(s io.Reader) (any, error) { return otelstef.NewSpansReader(s) },
			WireSchema: func() (schema.WireSchema, error) { return otelstef.SpansWireSchema() },
		},
	})
}
