//go:build verif

// In-package harness for property C15 (injected into /repo/go/grpc with `go test -overlay`).
// It drives the real chunkAssembler over the real grpcChunkSource fed by a scripted fake
// server stream, and the real grpcWriter against a recording fake client stream.
//
// Protocol (one case per line of $VERIF_C15_IN, one result line per case in $VERIF_C15_OUT):
//   asm <item>... | <read size>...      item = m:<hex or ->:<0|1>  (message)  |  e  (source error)
//   wr  <hdr hex or ->:<content hex or ->... | <read size>...
// result: [for wr: the emitted messages as items, then "|"] one token per Read:
//   <n>:<hex or ->:<source calls made so far>   or   E:<source calls made so far>
// followed by S:<MessagesReceived>:<BytesReceived>.
package stefgrpc

import (
	"bufio"
	"encoding/hex"
	"errors"
	"fmt"
	"io"
	"os"
	"strconv"
	"strings"
	"testing"

	"google.golang.org/grpc"

	"github.com/splunk/stef/go/grpc/stef_proto"
)

type verifItem struct {
	bytes []byte
	end   bool
	err   bool
}

// verifServerStream is the server side of the gRPC stream: Recv returns the scripted messages.
type verifServerStream struct {
	grpc.ServerStream
	items []verifItem
	calls int
}

var errVerifInjected = errors.New("verif: injected source error")

func (s *verifServerStream) Recv() (*stef_proto.STEFClientMessage, error) {
	s.calls++
	if len(s.items) == 0 {
		return nil, io.EOF
	}
	it := s.items[0]
	s.items = s.items[1:]
	if it.err {
		return nil, errVerifInjected
	}
	// exact-capacity copy, as a freshly unmarshalled protobuf message would have
	b := make([]byte, len(it.bytes))
	copy(b, it.bytes)
	return &stef_proto.STEFClientMessage{StefBytes: b, IsEndOfChunk: it.end}, nil
}

func (s *verifServerStream) Send(*stef_proto.STEFServerMessage) error { return nil }

// verifClientStream records what grpcWriter sends (gRPC serialises the message inside Send, so
// the recording copies the bytes at that moment).
type verifClientStream struct {
	grpc.ClientStream
	sent []verifItem
}

func (c *verifClientStream) Send(m *stef_proto.STEFClientMessage) error {
	b := make([]byte, len(m.StefBytes))
	copy(b, m.StefBytes)
	c.sent = append(c.sent, verifItem{bytes: b, end: m.IsEndOfChunk})
	return nil
}

func (c *verifClientStream) Recv() (*stef_proto.STEFServerMessage, error) { return nil, io.EOF }

func verifHex(s string) ([]byte, error) {
	if s == "-" {
		return []byte{}, nil
	}
	return hex.DecodeString(s)
}

func verifHexOut(b []byte) string {
	if len(b) == 0 {
		return "-"
	}
	return hex.EncodeToString(b)
}

func verifItemString(it verifItem) string {
	if it.err {
		return "e"
	}
	f := "0"
	if it.end {
		f = "1"
	}
	return "m:" + verifHexOut(it.bytes) + ":" + f
}

func verifRunReads(items []verifItem, reads []string, out *strings.Builder) error {
	stream := &verifServerStream{items: items}
	asm := newChunkAssembler(newGrpcChunkSource(stream))
	for _, r := range reads {
		n, err := strconv.Atoi(r)
		if err != nil {
			return err
		}
		p := make([]byte, n)
		got, rerr := asm.Read(p)
		if rerr != nil {
			if got != 0 {
				fmt.Fprintf(out, "EN%d:%d ", got, stream.calls)
			} else {
				fmt.Fprintf(out, "E:%d ", stream.calls)
			}
			continue
		}
		fmt.Fprintf(out, "%d:%s:%d ", got, verifHexOut(p[:got]), stream.calls)
	}
	st := asm.Stats()
	fmt.Fprintf(out, "S:%d:%d", st.MessagesReceived, st.BytesReceived)
	return nil
}

func verifC15Case(line string) (res string) {
	defer func() {
		if r := recover(); r != nil {
			res = fmt.Sprintf("PANIC %v", r)
		}
	}()
	parts := strings.SplitN(line, "|", 2)
	if len(parts) != 2 {
		return "badcase"
	}
	left := strings.Fields(parts[0])
	reads := strings.Fields(parts[1])
	if len(left) == 0 {
		return "badcase"
	}
	var out strings.Builder
	var items []verifItem
	switch left[0] {
	case "asm":
		for _, tok := range left[1:] {
			if tok == "e" {
				items = append(items, verifItem{err: true})
				continue
			}
			f := strings.Split(tok, ":")
			if len(f) != 3 || f[0] != "m" {
				return "badcase"
			}
			b, err := verifHex(f[1])
			if err != nil {
				return "badcase"
			}
			items = append(items, verifItem{bytes: b, end: f[2] == "1"})
		}
	case "wr":
		cs := &verifClientStream{}
		w := &grpcWriter{stream: cs}
		// like the frame encoder, the caller reuses ONE buffer for the content of every chunk:
		// a writer that keeps a reference to the content beyond WriteChunk gets it overwritten
		var reuse []byte
		for _, tok := range left[1:] {
			f := strings.Split(tok, ":")
			if len(f) != 2 {
				return "badcase"
			}
			h, err1 := verifHex(f[0])
			c, err2 := verifHex(f[1])
			if err1 != nil || err2 != nil {
				return "badcase"
			}
			reuse = append(reuse[:0], c...)
			if err := w.WriteChunk(h, reuse); err != nil {
				return "writeerr"
			}
		}
		items = cs.sent
		for _, it := range items {
			out.WriteString(verifItemString(it))
			out.WriteString(" ")
		}
		out.WriteString("| ")
	default:
		return "badcase"
	}
	if err := verifRunReads(items, reads, &out); err != nil {
		return "badcase"
	}
	return out.String()
}

func TestVerifC15(t *testing.T) {
	in, outp := os.Getenv("VERIF_C15_IN"), os.Getenv("VERIF_C15_OUT")
	if in == "" || outp == "" {
		t.Skip("VERIF_C15_IN / VERIF_C15_OUT not set")
	}
	fi, err := os.Open(in)
	if err != nil {
		t.Fatal(err)
	}
	defer fi.Close()
	fo, err := os.Create(outp)
	if err != nil {
		t.Fatal(err)
	}
	defer fo.Close()
	w := bufio.NewWriterSize(fo, 1<<20)
	defer w.Flush()
	sc := bufio.NewScanner(fi)
	sc.Buffer(make([]byte, 1<<20), 1<<28)
	for sc.Scan() {
		line := sc.Text()
		if line == "" {
			continue
		}
		fmt.Fprintln(w, verifC15Case(line))
	}
	if err := sc.Err(); err != nil {
		t.Fatal(err)
	}
}
