//go:build verif

// In-package harness for property C19 (injected into /repo/otelcol/internal/stefexporter with
// `go test -overlay`).  It wires REAL exporters to the REAL receiver (stefreceiver factory) over
// localhost gRPC with a recording consumer, drives concurrent ConsumeMetrics calls and reports
// what was accepted, what the consumer got (per call, in order), and the exporters' own
// acknowledgement bookkeeping once the pipeline has gone quiet.
//
// $VERIF_C19_IN: one JSON case per line
//
//	{"id":..,"exporters":N,"compression":""|"zstd","factory":bool,"workers":W,"batches":B,
//	 "points":[p0,p1,..] (points of batch j = points[j % len]),"sleep_us":[..] (pause of worker w
//	 before batch j = sleep_us[(w+j) % len]),"seed":S,"consumer_delay_us":[..] (optional)}
//
// factory=true : exporters are built by NewFactory().CreateMetrics (the ConsumeMetrics entry point of
// exporterhelper); their internals are not visible.  factory=false : the same construction as
// createMetricsExporter around a stefExporter the harness keeps, so lastSentRecordId,
// lastAckedRecordId and sentPendingAck can be read.
//
// $VERIF_C19_OUT: one JSON line per case (see verifC19Out).
package stefexporter

import (
	"bufio"
	"context"
	"crypto/sha256"
	"encoding/hex"
	"encoding/json"
	"fmt"
	"net"
	"os"
	"sort"
	"strings"
	"sync"
	"testing"
	"time"

	"go.opentelemetry.io/collector/component/componenttest"
	"go.opentelemetry.io/collector/config/configgrpc"
	"go.opentelemetry.io/collector/config/confignet"
	"go.opentelemetry.io/collector/consumer"
	"go.opentelemetry.io/collector/exporter"
	"go.opentelemetry.io/collector/exporter/exporterhelper"
	"go.opentelemetry.io/collector/exporter/exportertest"
	"go.opentelemetry.io/collector/pdata/pcommon"
	"go.opentelemetry.io/collector/pdata/pmetric"
	"go.opentelemetry.io/collector/receiver/receivertest"
	"go.uber.org/zap"

	"github.com/splunk/stef/otelcol/internal/stefreceiver"
)

type verifC19Case struct {
	ID          string `json:"id"`
	Exporters   int    `json:"exporters"`
	Compression string `json:"compression"`
	Factory     bool   `json:"factory"`
	Workers     int    `json:"workers"`
	Batches     int    `json:"batches"`
	Points      []int  `json:"points"`
	SleepUs     []int  `json:"sleep_us"`
	Seed        int    `json:"seed"`
	// the consumer behind the receiver blocks consumer_delay_us[k % len] microseconds in its k-th call
	// (a backlog of frames builds up at the receiver and is then consumed in a burst)
	ConsumerDelayUs []int `json:"consumer_delay_us"`
	// dense: every point of a batch is a gauge point with an integer id attribute, a pseudo-random
	// timestamp and a pseudo-random double value, so that nearly every bit the writer accounts for
	// in a frame is also a byte on the wire (no dictionary strings, no repeated values)
	Dense bool `json:"dense"`
	// optional: points of batch j of worker w = points_by_worker[w % len][j % len] (overrides points)
	PointsByWorker [][]int `json:"points_by_worker"`
	// optional: number of batches of worker w = batches_by_worker[w % len] (overrides batches)
	BatchesByWorker []int `json:"batches_by_worker"`
	// the workers with small batches make their first call while the exporter's writer mutex is held by
	// the long export of another worker and at least one flusher tick has fallen into that period
	// (observed with TryLock on the exporter the harness keeps; needs factory=false)
	LateCallers bool `json:"late_callers"`
}

type verifC19Batch struct {
	Exporter int      `json:"e"`
	Worker   int      `json:"w"`
	Index    int      `json:"b"`
	Points   []string `json:"pts"` // hashes of the canonical data points handed to ConsumeMetrics
	Err      string   `json:"err,omitempty"`
}

type verifC19Exporter struct {
	Visible  bool   `json:"visible"`
	LastSent uint64 `json:"last_sent"`
	LastAck  uint64 `json:"last_acked"`
	Pending  []uint64 `json:"pending"` // keys of sentPendingAck
	Records  uint64 `json:"records"`  // remoteWriter.RecordCount()
}

type verifC19Out struct {
	ID        string             `json:"id"`
	Accepted  []verifC19Batch    `json:"accepted"`
	Calls     [][]string         `json:"calls"` // consumer calls in order, each the hashes of its data points in order
	Exporters []verifC19Exporter `json:"exporters"`
	QuietMs   int64              `json:"quiet_ms"` // time from the last ConsumeMetrics return to the quiet state (-1: never)
	Samples   []string           `json:"samples"`  // a few canonical points, for the reader
	StartErr  string             `json:"start_err,omitempty"`
	Note      string             `json:"note,omitempty"`
}

// ---------------------------------------------------------------- canonical data points
func verifJSON(m pcommon.Map) string {
	b, _ := json.Marshal(m.AsRaw()) // encoding/json sorts map keys
	return string(b)
}

func verifCanonPoints(md pmetric.Metrics) []string {
	var out []string
	rms := md.ResourceMetrics()
	for i := 0; i < rms.Len(); i++ {
		rm := rms.At(i)
		res := "res=" + verifJSON(rm.Resource().Attributes()) + "|" + rm.SchemaUrl()
		for j := 0; j < rm.ScopeMetrics().Len(); j++ {
			sm := rm.ScopeMetrics().At(j)
			sc := "scope=" + sm.Scope().Name() + "," + sm.Scope().Version() + "," + verifJSON(sm.Scope().Attributes()) + "|" + sm.SchemaUrl()
			for k := 0; k < sm.Metrics().Len(); k++ {
				m := sm.Metrics().At(k)
				hdr := res + "|" + sc + "|metric=" + m.Name() + "," + m.Description() + "," + m.Unit() + "," + m.Type().String()
				switch m.Type() {
				case pmetric.MetricTypeGauge:
					out = append(out, verifNumberPoints(hdr, m.Gauge().DataPoints())...)
				case pmetric.MetricTypeSum:
					h := fmt.Sprintf("%s,mono=%v,temp=%d", hdr, m.Sum().IsMonotonic(), m.Sum().AggregationTemporality())
					out = append(out, verifNumberPoints(h, m.Sum().DataPoints())...)
				case pmetric.MetricTypeHistogram:
					h := fmt.Sprintf("%s,temp=%d", hdr, m.Histogram().AggregationTemporality())
					dps := m.Histogram().DataPoints()
					for p := 0; p < dps.Len(); p++ {
						dp := dps.At(p)
						s := fmt.Sprintf("%s|attrs=%s|%d|%d|%d|count=%d", h, verifJSON(dp.Attributes()), dp.StartTimestamp(), dp.Timestamp(), dp.Flags(), dp.Count())
						if dp.HasSum() {
							s += fmt.Sprintf("|sum=%x", dp.Sum())
						}
						if dp.HasMin() {
							s += fmt.Sprintf("|min=%x", dp.Min())
						}
						if dp.HasMax() {
							s += fmt.Sprintf("|max=%x", dp.Max())
						}
						s += fmt.Sprintf("|b=%v|e=%v", dp.BucketCounts().AsRaw(), dp.ExplicitBounds().AsRaw())
						out = append(out, s)
					}
				default:
					out = append(out, hdr+"|unsupported-in-harness")
				}
			}
		}
	}
	return out
}

func verifNumberPoints(hdr string, dps pmetric.NumberDataPointSlice) []string {
	var out []string
	for p := 0; p < dps.Len(); p++ {
		dp := dps.At(p)
		s := fmt.Sprintf("%s|attrs=%s|%d|%d|%d|", hdr, verifJSON(dp.Attributes()), dp.StartTimestamp(), dp.Timestamp(), dp.Flags())
		switch dp.ValueType() {
		case pmetric.NumberDataPointValueTypeInt:
			s += fmt.Sprintf("i%d", dp.IntValue())
		case pmetric.NumberDataPointValueTypeDouble:
			s += fmt.Sprintf("d%x", dp.DoubleValue())
		default:
			s += "empty"
		}
		out = append(out, s)
	}
	return out
}

func verifHash(s string) string {
	h := sha256.Sum256([]byte(s))
	return hex.EncodeToString(h[:8])
}

func verifHashes(ss []string) []string {
	out := make([]string, len(ss))
	for i, s := range ss {
		out[i] = verifHash(s)
	}
	return out
}

// one batch: n data points, each unique over the whole case, spread over a few metrics of
// different types under one resource per (exporter, worker parity)
func verifMakeBatch(seed, e, w, b, n int, dense bool) pmetric.Metrics {
	md := pmetric.NewMetrics()
	if dense {
		rm := md.ResourceMetrics().AppendEmpty()
		rm.Resource().Attributes().PutStr("service.name", fmt.Sprintf("exp%d", e))
		sm := rm.ScopeMetrics().AppendEmpty()
		sm.Scope().SetName("verif")
		m := sm.Metrics().AppendEmpty()
		m.SetName("m.dense")
		g := m.SetEmptyGauge()
		g.DataPoints().EnsureCapacity(n)
		x := uint64(seed)*0x9E3779B97F4A7C15 + uint64(((e*64+w)*4096+b)+1)*0xBF58476D1CE4E5B9
		next := func() uint64 {
			x += 0x9E3779B97F4A7C15
			z := x
			z = (z ^ (z >> 30)) * 0xBF58476D1CE4E5B9
			z = (z ^ (z >> 27)) * 0x94D049BB133111EB
			return z ^ (z >> 31)
		}
		for i := 0; i < n; i++ {
			dp := g.DataPoints().AppendEmpty()
			dp.Attributes().PutInt("id", int64(((e*64+w)*4096+b))<<32|int64(i))
			dp.SetTimestamp(pcommon.Timestamp(next() >> 1))
			dp.SetDoubleValue(float64(next()>>11) / float64(uint64(1)<<53))
		}
		return md
	}
	// two resources with identical attributes that differ only in their schema URL (every fifth point goes
	// to the second one), and under each the same scope with two different scope schema URLs
	sms := map[int]pmetric.ScopeMetrics{}
	smOf := func(r int) pmetric.ScopeMetrics {
		if x, ok := sms[r]; ok {
			return x
		}
		rm := md.ResourceMetrics().AppendEmpty()
		rm.Resource().Attributes().PutStr("service.name", fmt.Sprintf("exp%d", e))
		rm.Resource().Attributes().PutInt("wrk.parity", int64(w%2))
		if r == 1 {
			rm.SetSchemaUrl("https://opentelemetry.io/schemas/1.26.0")
		}
		x := rm.ScopeMetrics().AppendEmpty()
		x.Scope().SetName("verif")
		x.Scope().SetVersion("1")
		if r == 1 {
			x.SetSchemaUrl("https://opentelemetry.io/schemas/1.21.0")
		}
		sms[r] = x
		return x
	}
	mets := map[int]pmetric.Metric{}
	base := uint64(1_700_000_000_000_000_000)
	for i := 0; i < n; i++ {
		kind := (seed + e + w + b + i) % 4
		r := 0
		if i%5 == 4 {
			r = 1
		}
		sm := smOf(r)
		m, ok := mets[kind+4*r]
		if !ok {
			m = sm.Metrics().AppendEmpty()
			m.SetName(fmt.Sprintf("m.kind%d", kind))
			m.SetUnit("1")
			m.SetDescription(fmt.Sprintf("kind %d", kind))
			switch kind {
			case 0, 1:
				m.SetEmptyGauge()
			case 2:
				m.SetEmptySum().SetIsMonotonic(true)
				m.Sum().SetAggregationTemporality(pmetric.AggregationTemporalityCumulative)
			case 3:
				m.SetEmptyHistogram().SetAggregationTemporality(pmetric.AggregationTemporalityDelta)
			}
			mets[kind+4*r] = m
		}
		id := fmt.Sprintf("s%d.e%d.w%d.b%d.p%d", seed, e, w, b, i)
		uniq := uint64(((e*64+w)*4096+b)*4096 + i)
		switch kind {
		case 0, 1, 2:
			var dp pmetric.NumberDataPoint
			if kind == 2 {
				dp = m.Sum().DataPoints().AppendEmpty()
			} else {
				dp = m.Gauge().DataPoints().AppendEmpty()
			}
			dp.Attributes().PutStr("id", id)
			dp.Attributes().PutInt("k", int64(i%3))
			dp.SetStartTimestamp(pcommon.Timestamp(base))
			dp.SetTimestamp(pcommon.Timestamp(base + uniq))
			if kind == 1 {
				dp.SetDoubleValue(float64(uniq) + 0.5)
			} else {
				dp.SetIntValue(int64(uniq))
			}
		case 3:
			dp := m.Histogram().DataPoints().AppendEmpty()
			dp.Attributes().PutStr("id", id)
			dp.SetStartTimestamp(pcommon.Timestamp(base))
			dp.SetTimestamp(pcommon.Timestamp(base + uniq))
			dp.SetCount(uniq%7 + 3)
			dp.SetSum(float64(uniq))
			dp.ExplicitBounds().FromRaw([]float64{1, 10})
			dp.BucketCounts().FromRaw([]uint64{1, 2, uniq % 7})
		}
	}
	return md
}

// ---------------------------------------------------------------- recording consumer
type verifSink struct {
	mu    sync.Mutex
	calls [][]string
	canon []string
	n     int
	delay []int
	k     int
}

func (s *verifSink) Capabilities() consumer.Capabilities { return consumer.Capabilities{MutatesData: false} }

func (s *verifSink) ConsumeMetrics(_ context.Context, md pmetric.Metrics) error {
	pts := verifCanonPoints(md)
	s.mu.Lock()
	d := 0
	if len(s.delay) > 0 {
		d = s.delay[s.k%len(s.delay)]
	}
	s.k++
	s.mu.Unlock()
	if d > 0 {
		time.Sleep(time.Duration(d) * time.Microsecond)
	}
	s.mu.Lock()
	defer s.mu.Unlock()
	s.calls = append(s.calls, verifHashes(pts))
	if len(s.canon) < 3 {
		s.canon = append(s.canon, pts...)
	}
	s.n += len(pts)
	return nil
}

func (s *verifSink) count() int {
	s.mu.Lock()
	defer s.mu.Unlock()
	return s.n
}

func verifFreePort() int {
	l, err := net.Listen("tcp", "127.0.0.1:0")
	if err != nil {
		panic(err)
	}
	defer l.Close()
	return l.Addr().(*net.TCPAddr).Port
}

type verifExp struct {
	exp   exporter.Metrics
	inner *stefExporter // nil for factory-built exporters
}

func (x *verifExp) snapshot() verifC19Exporter {
	if x.inner == nil {
		return verifC19Exporter{}
	}
	s := x.inner
	s.ackMutex.Lock()
	out := verifC19Exporter{Visible: true, LastSent: s.lastSentRecordId, LastAck: s.lastAckedRecordId}
	for k := range s.sentPendingAck {
		out.Pending = append(out.Pending, k)
	}
	s.ackMutex.Unlock()
	sort.Slice(out.Pending, func(i, j int) bool { return out.Pending[i] < out.Pending[j] })
	s.writeMutex.Lock()
	if s.remoteWriter != nil {
		out.Records = s.remoteWriter.RecordCount()
	}
	s.writeMutex.Unlock()
	return out
}

func verifRunC19(c *verifC19Case) (out *verifC19Out) {
	out = &verifC19Out{ID: c.ID, QuietMs: -1}
	ctx := context.Background()
	host := componenttest.NewNopHost()
	sink := &verifSink{delay: c.ConsumerDelayUs}

	// ---- the real receiver
	port := verifFreePort()
	rf := stefreceiver.NewFactory()
	rcfg := &stefreceiver.Config{ServerConfig: configgrpc.ServerConfig{
		NetAddr: confignet.AddrConfig{Endpoint: fmt.Sprintf("127.0.0.1:%d", port), Transport: confignet.TransportTypeTCP},
	}}
	rcv, err := rf.CreateMetrics(ctx, receivertest.NewNopSettings(rf.Type()), rcfg, sink)
	if err != nil {
		out.StartErr = "receiver create: " + err.Error()
		return out
	}
	if err := rcv.Start(ctx, host); err != nil {
		out.StartErr = "receiver start: " + err.Error()
		return out
	}
	defer rcv.Shutdown(ctx)

	// ---- the real exporters
	ef := NewFactory()
	var exps []*verifExp
	for e := 0; e < c.Exporters; e++ {
		cfg := &Config{Endpoint: fmt.Sprintf("127.0.0.1:%d", port), Compression: c.Compression}
		x := &verifExp{}
		if c.Factory {
			x.exp, err = ef.CreateMetrics(ctx, exportertest.NewNopSettings(ef.Type()), cfg)
		} else {
			// createMetricsExporter, keeping the stefExporter
			x.inner = newStefExporter(zap.NewNop(), cfg)
			x.exp, err = exporterhelper.NewMetrics(
				ctx, exportertest.NewNopSettings(ef.Type()), cfg,
				x.inner.pushMetrics,
				exporterhelper.WithStart(x.inner.Start),
				exporterhelper.WithShutdown(x.inner.Shutdown),
				exporterhelper.WithCapabilities(consumer.Capabilities{MutatesData: false}),
				exporterhelper.WithTimeout(exporterhelper.TimeoutConfig{Timeout: 0}),
			)
		}
		if err != nil {
			out.StartErr = "exporter create: " + err.Error()
			return out
		}
		if err := x.exp.Start(ctx, host); err != nil {
			out.StartErr = "exporter start: " + err.Error()
			return out
		}
		exps = append(exps, x)
	}
	defer func() {
		for _, x := range exps {
			x.exp.Shutdown(ctx)
		}
	}()

	// ---- concurrent ConsumeMetrics calls
	var mu sync.Mutex
	var wg sync.WaitGroup
	samples := []string{}
	// number of batches of at least 50000 points (see below)
	var bigReady sync.WaitGroup
	anyBig := false
	for range exps {
		for w := 0; w < c.Workers; w++ {
			nb := c.Batches
			if len(c.BatchesByWorker) > 0 {
				nb = c.BatchesByWorker[w%len(c.BatchesByWorker)]
			}
			for b := 0; b < nb; b++ {
				n := 1
				if len(c.Points) > 0 {
					n = c.Points[b%len(c.Points)]
				}
				if len(c.PointsByWorker) > 0 {
					pw := c.PointsByWorker[w%len(c.PointsByWorker)]
					n = pw[b%len(pw)]
				}
				if n >= 50000 && b == 0 {
					bigReady.Add(1)
					anyBig = true
				}
			}
		}
	}
	for e := range exps {
		for w := 0; w < c.Workers; w++ {
			wg.Add(1)
			go func(e, w int) {
				defer wg.Done()
				nb := c.Batches
				if len(c.BatchesByWorker) > 0 {
					nb = c.BatchesByWorker[w%len(c.BatchesByWorker)]
				}
				for b := 0; b < nb; b++ {
					if len(c.SleepUs) > 0 {
						if us := c.SleepUs[(w+b)%len(c.SleepUs)]; us > 0 {
							time.Sleep(time.Duration(us) * time.Microsecond)
						}
					}
					n := 1
					if len(c.Points) > 0 {
						n = c.Points[b%len(c.Points)]
					}
					if len(c.PointsByWorker) > 0 {
						pw := c.PointsByWorker[w%len(c.PointsByWorker)]
						n = pw[b%len(pw)]
					}
					// (large batches take long to build: callers whose pause is meant to fall inside a
					// long export of another worker wait until that worker has built its batch)
					md := verifMakeBatch(c.Seed, e, w, b, n, c.Dense)
					canon := verifCanonPoints(md)
					if n >= 50000 && b == 0 {
						bigReady.Done()
					} else if b == 0 && n < 50000 {
						bigReady.Wait()
						if c.LateCallers && anyBig && exps[e].inner != nil {
							mx := &exps[e].inner.writeMutex
							deadline := time.Now().Add(20 * time.Second)
							for time.Now().Before(deadline) {
								if !mx.TryLock() {
									break // held: the long export is writing
								}
								mx.Unlock()
								time.Sleep(500 * time.Microsecond)
							}
							time.Sleep(time.Duration(120+10*w) * time.Millisecond)
						} else if len(c.SleepUs) > 0 && anyBig {
							if us := c.SleepUs[(w+b)%len(c.SleepUs)]; us > 0 {
								time.Sleep(time.Duration(us) * time.Microsecond)
							}
						}
					}
					rec := verifC19Batch{Exporter: e, Worker: w, Index: b, Points: verifHashes(canon)}
					if err := exps[e].exp.ConsumeMetrics(ctx, md); err != nil {
						rec.Err = err.Error()
					}
					mu.Lock()
					out.Accepted = append(out.Accepted, rec)
					if len(samples) < 3 && len(canon) > 0 {
						samples = append(samples, canon[0])
					}
					mu.Unlock()
				}
			}(e, w)
		}
	}
	wg.Wait()
	done := time.Now()
	total := 0
	perExp := make([]uint64, len(exps))
	for _, b := range out.Accepted {
		if b.Err == "" {
			total += len(b.Points)
			perExp[b.Exporter] += uint64(len(b.Points))
		}
	}

	// ---- wait for the quiet state: everything delivered and (where visible) acknowledged and
	// stable for 30 ms; give up after 3 s + 1 s per 1000 data points (the flusher period is 100 ms, the ack tick 10 ms)
	quiet := func() bool {
		if sink.count() < total {
			return false
		}
		for i, x := range exps {
			if x.inner != nil {
				s := x.snapshot()
				if s.LastAck < perExp[i] {
					return false
				}
			}
		}
		return true
	}
	// 3 s, plus time for the receiver to convert and deliver large batches (generous: the thorough
	// tier runs under the race detector)
	deadline := time.Now().Add(3*time.Second + time.Duration(total/1000)*time.Second)
	for time.Now().Before(deadline) {
		if quiet() {
			out.QuietMs = time.Since(done).Milliseconds()
			break
		}
		time.Sleep(2 * time.Millisecond)
	}
	// let anything spurious (duplicates, late acks) show up
	time.Sleep(40 * time.Millisecond)
	for _, x := range exps {
		out.Exporters = append(out.Exporters, x.snapshot())
	}
	sink.mu.Lock()
	out.Calls = sink.calls
	out.Samples = append(samples, sink.canon...)
	if len(out.Samples) > 4 {
		out.Samples = out.Samples[:4]
	}
	sink.mu.Unlock()
	sort.Slice(out.Accepted, func(i, j int) bool {
		a, b := out.Accepted[i], out.Accepted[j]
		if a.Exporter != b.Exporter {
			return a.Exporter < b.Exporter
		}
		if a.Worker != b.Worker {
			return a.Worker < b.Worker
		}
		return a.Index < b.Index
	})
	return out
}

func TestVerifC19(t *testing.T) {
	in, outp := os.Getenv("VERIF_C19_IN"), os.Getenv("VERIF_C19_OUT")
	if in == "" || outp == "" {
		t.Skip("VERIF_C19_IN / VERIF_C19_OUT not set")
	}
	f, err := os.Open(in)
	if err != nil {
		t.Fatal(err)
	}
	defer f.Close()
	of, err := os.Create(outp)
	if err != nil {
		t.Fatal(err)
	}
	defer of.Close()
	w := bufio.NewWriter(of)
	defer w.Flush()
	sc := bufio.NewScanner(f)
	sc.Buffer(make([]byte, 1<<20), 1<<26)
	for sc.Scan() {
		line := strings.TrimSpace(sc.Text())
		if line == "" {
			continue
		}
		var c verifC19Case
		if err := json.Unmarshal([]byte(line), &c); err != nil {
			t.Fatal(err)
		}
		var res *verifC19Out
		func() {
			defer func() {
				if r := recover(); r != nil {
					res = &verifC19Out{ID: c.ID, Note: fmt.Sprint("panic: ", r), QuietMs: -1}
				}
			}()
			res = verifRunC19(&c)
		}()
		j, _ := json.Marshal(res)
		w.Write(j)
		w.WriteString("\n")
		w.Flush()
	}
}
