//go:build verif

// In-package harness for property C16 (injected into /repo/otelcol/internal/stefreceiver with
// `go test -overlay`). It runs the real stefReceiver.onStream (which starts the real
// internal.Responder.Run) over a scripted byte source, a scripted consumer and a recording,
// script-controlled response stream.
//
// $VERIF_C16_IN: one JSON case per line
//   {"id":..,"batches":[[n,"o|p|t"],..],"fails":[k,..],"fail_from":k|-1,"steps":[{"op":..,"k":..,"ms":..},..]}
//   steps: batch (deliver the next frame, wait until the consumer took it and onStream is idle
//          again or 40 ms passed) | hold k (SendDataResponse call number k blocks until release)
//          | release | release1 k | waitsend k | sleep ms | end (source returns io.EOF)
// $VERIF_C16_OUT: one JSON line per case:
//   {"id":..,"events":["c<i>:<o>:<points>","s:<ack>:<from>-<to>,..|-:<1|0>",..],"ret":"<class>",
//    "wcounts":[writer.RecordCount() after each batch],"rcounts":[reader.RecordCount() after each record]}
// The event list is the linearised order in which the consumer calls and the SendDataResponse
// calls were entered.
package stefreceiver

import (
	"bufio"
	"bytes"
	"context"
	"encoding/json"
	"errors"
	"fmt"
	"io"
	"os"
	"strconv"
	"strings"
	"sync"
	"testing"
	"time"

	"go.opentelemetry.io/collector/component"
	"go.opentelemetry.io/collector/consumer"
	"go.opentelemetry.io/collector/consumer/consumererror"
	"go.opentelemetry.io/collector/pdata/pcommon"
	"go.opentelemetry.io/collector/pdata/pmetric"
	"go.opentelemetry.io/collector/receiver"
	"go.uber.org/zap"
	"google.golang.org/grpc/codes"
	"google.golang.org/grpc/status"

	stefgrpc "github.com/splunk/stef/go/grpc"
	"github.com/splunk/stef/go/grpc/stef_proto"
	"github.com/splunk/stef/go/otel/otelstef"
	stefpdatametrics "github.com/splunk/stef/go/pdata/metrics"
	"github.com/splunk/stef/go/pkg"
)

type verifStep struct {
	Op string `json:"op"`
	K  int    `json:"k"`
	Ms int    `json:"ms"`
}

type verifCase struct {
	ID       string          `json:"id"`
	Batches  [][]interface{} `json:"batches"`
	Fails    []int           `json:"fails"`
	FailFrom int             `json:"fail_from"`
	Steps    []verifStep     `json:"steps"`
}

type verifResult struct {
	ID      string   `json:"id"`
	Events  []string `json:"events"`
	Ret     string   `json:"ret"`
	WCounts []uint64 `json:"wcounts"`
	RCounts []uint64 `json:"rcounts"`
	Note    string   `json:"note,omitempty"`
}

// ---------------------------------------------------------------- shared event log
type verifLog struct {
	mu     sync.Mutex
	cond   *sync.Cond
	events []string
	// response stream control
	nsends   int
	hold     map[int]bool
	released bool
	fails    map[int]bool
	failFrom int
	// consumer
	outcomes []string
	consumed int
}

func newVerifLog() *verifLog {
	l := &verifLog{hold: map[int]bool{}, fails: map[int]bool{}, failFrom: -1}
	l.cond = sync.NewCond(&l.mu)
	return l
}

// SendDataResponse implements stefgrpc.STEFStream.
func (l *verifLog) SendDataResponse(r *stef_proto.STEFDataResponse) error {
	l.mu.Lock()
	defer l.mu.Unlock()
	k := l.nsends
	l.nsends++
	fail := l.fails[k] || (l.failFrom >= 0 && k >= l.failFrom)
	var rs []string
	for _, x := range r.BadDataRecordIdRanges {
		rs = append(rs, fmt.Sprintf("%d-%d", x.FromId, x.ToId))
	}
	rtxt := "-"
	if len(rs) > 0 {
		rtxt = strings.Join(rs, ",")
	}
	ok := "1"
	if fail {
		ok = "0"
	}
	l.events = append(l.events, fmt.Sprintf("s:%d:%s:%s", r.AckRecordId, rtxt, ok))
	l.cond.Broadcast()
	for l.hold[k] && !l.released {
		l.cond.Wait()
	}
	if fail {
		return errors.New("verif: injected send failure")
	}
	return nil
}

func (l *verifLog) consume(_ context.Context, md pmetric.Metrics) error {
	l.mu.Lock()
	defer l.mu.Unlock()
	i := l.consumed
	l.consumed++
	o := "o"
	if i < len(l.outcomes) {
		o = l.outcomes[i]
	}
	l.events = append(l.events, fmt.Sprintf("c%d:%s:%d", i, o, md.DataPointCount()))
	l.cond.Broadcast()
	switch o {
	case "p":
		return consumererror.NewPermanent(errors.New("verif: permanent"))
	case "t":
		return errors.New("verif: transient")
	}
	return nil
}

// ---------------------------------------------------------------- scripted byte source
type verifPipe struct {
	mu      sync.Mutex
	cond    *sync.Cond
	buf     []byte
	closed  bool
	waiting bool // a Read is blocked with nothing to deliver
}

func newVerifPipe() *verifPipe {
	p := &verifPipe{}
	p.cond = sync.NewCond(&p.mu)
	return p
}

func (p *verifPipe) Read(b []byte) (int, error) {
	p.mu.Lock()
	defer p.mu.Unlock()
	for len(p.buf) == 0 && !p.closed {
		p.waiting = true
		p.cond.Broadcast()
		p.cond.Wait()
	}
	p.waiting = false
	if len(p.buf) == 0 {
		return 0, io.EOF
	}
	n := copy(b, p.buf)
	p.buf = p.buf[n:]
	return n, nil
}

func (p *verifPipe) Stats() stefgrpc.GrpcReaderStats { return stefgrpc.GrpcReaderStats{} }

func (p *verifPipe) feed(b []byte) {
	p.mu.Lock()
	p.buf = append(p.buf, b...)
	p.waiting = false
	p.cond.Broadcast()
	p.mu.Unlock()
}

func (p *verifPipe) close() {
	p.mu.Lock()
	p.closed = true
	p.cond.Broadcast()
	p.mu.Unlock()
}

func (p *verifPipe) isIdle() bool {
	p.mu.Lock()
	defer p.mu.Unlock()
	return p.waiting && len(p.buf) == 0
}

// ---------------------------------------------------------------- stream generation
type verifChunks struct{ chunks [][]byte }

func (c *verifChunks) WriteChunk(header []byte, content []byte) error {
	b := make([]byte, 0, len(header)+len(content))
	b = append(b, header...)
	b = append(b, content...)
	c.chunks = append(c.chunks, b)
	return nil
}

func (c *verifChunks) take() []byte {
	var out []byte
	for _, ch := range c.chunks {
		out = append(out, ch...)
	}
	c.chunks = nil
	return out
}

// verifStream writes one frame of n records per batch with the real MetricsWriter; returns the
// header bytes, the bytes of each frame and writer.RecordCount() after each batch.
func verifStream(sizes []int) (header []byte, frames [][]byte, wcounts []uint64, err error) {
	cw := &verifChunks{}
	w, err := otelstef.NewMetricsWriter(cw, pkg.WriterOptions{})
	if err != nil {
		return nil, nil, nil, err
	}
	header = cw.take()
	conv := stefpdatametrics.OtlpToStefUnsorted{}
	ts := uint64(1_700_000_000_000_000_000)
	for bi, n := range sizes {
		md := pmetric.NewMetrics()
		rm := md.ResourceMetrics().AppendEmpty()
		rm.Resource().Attributes().PutStr("service.name", "verif")
		sm := rm.ScopeMetrics().AppendEmpty()
		sm.Scope().SetName("verif")
		m := sm.Metrics().AppendEmpty()
		m.SetName("m" + strconv.Itoa(bi%3))
		g := m.SetEmptyGauge()
		for j := 0; j < n; j++ {
			dp := g.DataPoints().AppendEmpty()
			ts += 1000
			dp.SetTimestamp(pcommon.Timestamp(ts))
			dp.SetIntValue(int64(bi*1000 + j))
		}
		if err = conv.Convert(md, w); err != nil {
			return nil, nil, nil, err
		}
		if err = w.Flush(); err != nil {
			return nil, nil, nil, err
		}
		frames = append(frames, cw.take())
		wcounts = append(wcounts, w.RecordCount())
	}
	return header, frames, wcounts, nil
}

// verifReadCounts reads the whole stream with a plain MetricsReader: RecordCount after each record.
func verifReadCounts(all []byte) []uint64 {
	var out []uint64
	r, err := otelstef.NewMetricsReader(bytes.NewReader(all))
	if err != nil {
		return out
	}
	for {
		if err := r.Read(pkg.ReadOptions{}); err != nil {
			return out
		}
		out = append(out, r.RecordCount())
	}
}

func verifWait(timeout time.Duration, cond func() bool) bool {
	deadline := time.Now().Add(timeout)
	for !cond() {
		if time.Now().After(deadline) {
			return false
		}
		time.Sleep(200 * time.Microsecond)
	}
	return true
}

func verifRetClass(err error) string {
	if err == nil {
		return "nil"
	}
	if errors.Is(err, io.EOF) {
		return "eof"
	}
	if st, ok := status.FromError(err); ok && st.Code() == codes.Unavailable {
		return "unavailable"
	}
	if strings.Contains(err.Error(), "injected send failure") {
		return "senderr"
	}
	return "other:" + err.Error()
}

func verifRunCase(c verifCase) (res verifResult) {
	res.ID = c.ID
	defer func() {
		if r := recover(); r != nil {
			res.Note = fmt.Sprintf("PANIC %v", r)
		}
	}()
	var sizes []int
	l := newVerifLog()
	for _, b := range c.Batches {
		sizes = append(sizes, int(b[0].(float64)))
		l.outcomes = append(l.outcomes, b[1].(string))
	}
	for _, k := range c.Fails {
		l.fails[k] = true
	}
	l.failFrom = c.FailFrom
	header, frames, wcounts, err := verifStream(sizes)
	if err != nil {
		res.Note = "stream generation failed: " + err.Error()
		return res
	}
	res.WCounts = wcounts
	all := append([]byte{}, header...)
	for _, f := range frames {
		all = append(all, f...)
	}
	res.RCounts = verifReadCounts(all)

	pipe := newVerifPipe()
	pipe.feed(header)
	set := receiver.Settings{TelemetrySettings: component.TelemetrySettings{Logger: zap.NewNop()}}
	next, err := consumer.NewMetrics(l.consume)
	if err != nil {
		res.Note = "consumer: " + err.Error()
		return res
	}
	rcv, err := newStefReceiver(&Config{}, &set, next)
	if err != nil {
		res.Note = "receiver: " + err.Error()
		return res
	}
	done := make(chan error, 1)
	go func() { done <- rcv.onStream(pipe, l) }()

	nextBatch := 0
	returned := false
	var retErr error
	checkDone := func() bool {
		if returned {
			return true
		}
		select {
		case retErr = <-done:
			returned = true
		default:
		}
		return returned
	}
	for _, st := range c.Steps {
		switch st.Op {
		case "batch":
			if nextBatch >= len(frames) {
				continue
			}
			want := nextBatch + 1
			pipe.feed(frames[nextBatch])
			nextBatch++
			verifWait(40*time.Millisecond, func() bool {
				if checkDone() {
					return true
				}
				l.mu.Lock()
				got := l.consumed
				l.mu.Unlock()
				return got >= want && pipe.isIdle()
			})
		case "hold":
			l.mu.Lock()
			l.hold[st.K] = true
			l.mu.Unlock()
		case "release":
			l.mu.Lock()
			l.hold = map[int]bool{}
			l.cond.Broadcast()
			l.mu.Unlock()
		case "release1": // release only the hold on SendDataResponse call number k
			l.mu.Lock()
			delete(l.hold, st.K)
			l.cond.Broadcast()
			l.mu.Unlock()
		case "waitsend":
			verifWait(100*time.Millisecond, func() bool {
				l.mu.Lock()
				defer l.mu.Unlock()
				return l.nsends > st.K
			})
		case "sleep":
			time.Sleep(time.Duration(st.Ms) * time.Millisecond)
		case "end":
			pipe.close()
		}
	}
	pipe.close()
	l.mu.Lock()
	l.released = true
	l.cond.Broadcast()
	l.mu.Unlock()
	if !verifWait(3*time.Second, checkDone) {
		res.Ret = "hang"
	} else {
		res.Ret = verifRetClass(retErr)
	}
	// let the responder goroutine finish what it may still be sending
	time.Sleep(15 * time.Millisecond)
	l.mu.Lock()
	res.Events = append([]string{}, l.events...)
	l.mu.Unlock()
	return res
}

func TestVerifC16(t *testing.T) {
	in, outp := os.Getenv("VERIF_C16_IN"), os.Getenv("VERIF_C16_OUT")
	if in == "" || outp == "" {
		t.Skip("VERIF_C16_IN / VERIF_C16_OUT not set")
	}
	workers := 24
	if v := os.Getenv("VERIF_C16_WORKERS"); v != "" {
		if n, err := strconv.Atoi(v); err == nil && n > 0 {
			workers = n
		}
	}
	fi, err := os.Open(in)
	if err != nil {
		t.Fatal(err)
	}
	defer fi.Close()
	var cases []verifCase
	sc := bufio.NewScanner(fi)
	sc.Buffer(make([]byte, 1<<20), 1<<26)
	for sc.Scan() {
		if strings.TrimSpace(sc.Text()) == "" {
			continue
		}
		var c verifCase
		c.FailFrom = -1
		if err := json.Unmarshal([]byte(sc.Text()), &c); err != nil {
			t.Fatalf("bad case: %v", err)
		}
		cases = append(cases, c)
	}
	results := make([]verifResult, len(cases))
	var wg sync.WaitGroup
	sem := make(chan struct{}, workers)
	for i := range cases {
		wg.Add(1)
		sem <- struct{}{}
		go func(i int) {
			defer wg.Done()
			defer func() { <-sem }()
			results[i] = verifRunCase(cases[i])
		}(i)
	}
	wg.Wait()
	fo, err := os.Create(outp)
	if err != nil {
		t.Fatal(err)
	}
	defer fo.Close()
	w := bufio.NewWriter(fo)
	defer w.Flush()
	for _, r := range results {
		b, _ := json.Marshal(r)
		w.Write(b)
		w.WriteString("\n")
	}
}
