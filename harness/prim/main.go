// Go side of the primitive-layer correspondence (C20): same line protocol as ocaml/prim_driver.ml,
// executed on the real go/pkg and go/pkg/codecs built from /repo's working tree.
package main

import (
	"bufio"
	"encoding/hex"
	"fmt"
	"math"
	"math/big"
	"os"
	"strconv"
	"strings"

	"github.com/splunk/stef/go/pkg"
	"github.com/splunk/stef/go/pkg/codecs"
)

func unhex(s string) []byte {
	if s == "-" {
		return []byte{}
	}
	b, err := hex.DecodeString(s)
	if err != nil {
		panic(err)
	}
	return b
}
func hx(b []byte) string {
	if len(b) == 0 {
		return "-"
	}
	return hex.EncodeToString(b)
}
func pu64(s string) uint64 {
	v, err := strconv.ParseUint(s, 10, 64)
	if err != nil {
		panic(err)
	}
	return v
}
func pi64(s string) int64 {
	v, err := strconv.ParseInt(s, 10, 64)
	if err != nil {
		panic(err)
	}
	return v
}
func atoi(s string) int { v, _ := strconv.Atoi(s); return v }

func runBw(ops []string) string {
	w := pkg.NewBitsWriter(16)
	for _, op := range ops {
		p := strings.Split(op, ":")
		switch p[0] {
		case "b":
			w.WriteBit(uint(atoi(p[1])))
		case "w":
			w.WriteBits(pu64(p[1]), uint(atoi(p[2])))
		case "u":
			w.WriteUvarintCompact(pu64(p[1]))
		}
	}
	n := w.BitCount()
	w.Close()
	return fmt.Sprintf("%d %s", n, hx(w.Bytes()))
}

func runBr(buf string, ops []string) string {
	r := pkg.NewBitsReader()
	r.Reset(unhex(buf))
	var out []string
	for _, op := range ops {
		p := strings.Split(op, ":")
		var s string
		switch p[0] {
		case "p":
			s = strconv.FormatUint(r.PeekBits(uint(atoi(p[1]))), 10)
		case "c":
			r.Consume(uint(atoi(p[1])))
			s = "_"
		case "r":
			s = strconv.FormatUint(r.ReadBits(uint(atoi(p[1]))), 10)
		case "b":
			s = strconv.FormatUint(r.ReadBit(), 10)
		case "u":
			s = strconv.FormatUint(r.ReadUvarintCompact(), 10)
		}
		if r.Error() != nil {
			out = append(out, "E")
			break
		}
		out = append(out, s)
	}
	return strings.Join(out, " ")
}

var limiter pkg.SizeLimiter

func colBytes(collect func(cs *pkg.WriteColumnSet)) []byte {
	var cs pkg.WriteColumnSet
	collect(&cs)
	var bw pkg.BytesWriter
	// WriteColumnSet exposes its data only through WriteDataTo
	var sink sinkWriter
	_ = cs.WriteDataTo(&sink)
	_ = bw
	return sink.b
}

type sinkWriter struct{ b []byte }

func (s *sinkWriter) Write(p []byte) (int, error) { s.b = append(s.b, p...); return len(p), nil }

// column for decoding: build a ReadColumnSet holding buf through the public frame path is heavy;
// decoders take *pkg.ReadColumnSet and read column.Data(), which ReadSizesFrom/ReadDataFrom fill.
func readCol(buf []byte) *pkg.ReadColumnSet {
	var cs pkg.ReadColumnSet
	// sizes: one compact varint with len(buf), then data
	w := pkg.NewBitsWriter(8)
	w.WriteUvarintCompact(uint64(len(buf)))
	w.Close()
	br := pkg.NewBitsReader()
	br.Reset(w.Bytes())
	limit := uint64(1 << 40)
	if err := cs.ReadSizesFrom(br, &limit); err != nil {
		panic(err)
	}
	if err := cs.ReadDataFrom(&byteSrc{b: buf}); err != nil {
		panic(err)
	}
	return &cs
}

type byteSrc struct {
	b []byte
	i int
}

func (s *byteSrc) ReadByte() (byte, error) {
	if s.i >= len(s.b) {
		return 0, fmt.Errorf("eof")
	}
	s.i++
	return s.b[s.i-1], nil
}
func (s *byteSrc) Read(p []byte) (int, error) {
	if len(p) == 0 {
		return 0, nil
	}
	if s.i >= len(s.b) {
		return 0, fmt.Errorf("eof")
	}
	n := copy(p, s.b[s.i:])
	s.i += n
	return n, nil
}

func errName(err error) string {
	if err == nil {
		return ""
	}
	if err == codecs.ErrInvalidRefNum || err == pkg.ErrInvalidRefNum {
		return "Erefnum"
	}
	if err.Error() == "EOF" {
		return "Eeof"
	}
	return "Eother"
}

func handle(line string) string {
	f := strings.Fields(line)
	switch f[0] {
	case "bw":
		return runBw(f[1:])
	case "br":
		return runBr(f[1], f[2:])
	case "lebenc":
		var w pkg.BytesWriter
		w.WriteUvarint(pu64(f[1]))
		return hx(w.Bytes())
	case "lebdec":
		var r pkg.BytesReader
		b := unhex(f[1])
		r.Reset(b)
		v, err := r.ReadUvarint()
		if err != nil {
			return "none"
		}
		// remaining length: probe by reading bytes
		rem := 0
		for {
			if _, e := r.ReadByte(); e != nil {
				break
			}
			rem++
		}
		return fmt.Sprintf("%d %d", v, rem)
	case "vienc":
		var w pkg.BytesWriter
		w.WriteVarint(pi64(f[1]))
		return hx(w.Bytes())
	case "videc":
		var r pkg.BytesReader
		r.Reset(unhex(f[1]))
		v, err := r.ReadVarint()
		if err != nil {
			return "none"
		}
		rem := 0
		for {
			if _, e := r.ReadByte(); e != nil {
				break
			}
			rem++
		}
		return fmt.Sprintf("%d %d", v, rem)
	case "u64enc":
		var e codecs.Uint64Encoder
		e.Init(&limiter, nil)
		for _, v := range f[1:] {
			e.Encode(pu64(v))
		}
		return hx(colBytes(e.CollectColumns))
	case "i64enc":
		var e codecs.Int64Encoder
		e.Init(&limiter, nil)
		for _, v := range f[1:] {
			e.Encode(pi64(v))
		}
		return hx(colBytes(e.CollectColumns))
	case "u64dec":
		var d codecs.Uint64Decoder
		d.Init(readCol(unhex(f[1])))
		d.Continue()
		var out []string
		for i := 0; i < atoi(f[2]); i++ {
			var v uint64
			if err := d.Decode(&v); err != nil {
				out = append(out, "E")
				break
			}
			out = append(out, strconv.FormatUint(v, 10))
		}
		return strings.Join(out, " ")
	case "i64dec":
		var d codecs.Int64Decoder
		d.Init(readCol(unhex(f[1])))
		d.Continue()
		var out []string
		for i := 0; i < atoi(f[2]); i++ {
			var v int64
			if err := d.Decode(&v); err != nil {
				out = append(out, "E")
				break
			}
			out = append(out, strconv.FormatInt(v, 10))
		}
		return strings.Join(out, " ")
	case "f64enc":
		var e codecs.Float64Encoder
		e.Init(&limiter, nil)
		bits := uint(0)
		for _, v := range f[1:] {
			e.Encode(math.Float64frombits(pu64(v)))
		}
		limiter2 := pkg.SizeLimiter{}
		_ = limiter2
		b := colBytes(e.CollectColumns)
		_ = bits
		return fmt.Sprintf("%s", hx(b))
	case "f64dec":
		var d codecs.Float64Decoder
		d.Init(readCol(unhex(f[1])))
		d.Continue()
		var out []string
		for i := 0; i < atoi(f[2]); i++ {
			var v float64
			if err := d.Decode(&v); err != nil {
				out = append(out, "E")
				break
			}
			out = append(out, strconv.FormatUint(math.Float64bits(v), 10))
		}
		return strings.Join(out, " ")
	case "boolenc":
		var e codecs.BoolEncoder
		e.Init(&limiter, nil)
		for _, v := range f[1:] {
			e.Encode(v == "1")
		}
		return hx(colBytes(e.CollectColumns))
	case "booldec":
		var d codecs.BoolDecoder
		d.Init(readCol(unhex(f[1])))
		d.Continue()
		var out []string
		for i := 0; i < atoi(f[2]); i++ {
			var v bool
			if err := d.Decode(&v); err != nil {
				out = append(out, "E")
				break
			}
			if v {
				out = append(out, "1")
			} else {
				out = append(out, "0")
			}
		}
		return strings.Join(out, " ")
	case "strenc", "sdenc", "bytesenc", "bdenc":
		return strEnc(f[0], f[1:])
	case "strdec", "sddec", "bytesdec", "bddec":
		return strDec(f[0], unhex(f[1]), atoi(f[2]))
	}
	return "badcmd"
}

func strEnc(kind string, vals []string) string {
	var opts pkg.WriterOptions
	limiter.Init(&opts)
	switch kind {
	case "strenc":
		var e codecs.StringEncoder
		e.Init(&limiter, nil)
		for _, v := range vals {
			e.Encode(string(unhex(v)))
		}
		return hx(colBytes(e.CollectColumns))
	case "sdenc":
		var e codecs.StringDictEncoder
		var d codecs.StringDictEncoderDict
		d.Init(&limiter)
		e.Init(&d, &limiter, nil)
		for _, v := range vals {
			e.Encode(string(unhex(v)))
		}
		return hx(colBytes(e.CollectColumns))
	case "bytesenc":
		var e codecs.BytesEncoder
		e.Init(&limiter, nil)
		for _, v := range vals {
			e.Encode(pkg.Bytes(unhex(v)))
		}
		return hx(colBytes(e.CollectColumns))
	case "bdenc":
		var e codecs.BytesDictEncoder
		var d codecs.BytesDictEncoderDict
		d.Init(&limiter)
		e.Init(&d, &limiter, nil)
		for _, v := range vals {
			e.Encode(pkg.Bytes(unhex(v)))
		}
		return hx(colBytes(e.CollectColumns))
	}
	return "badcmd"
}

func strDec(kind string, buf []byte, n int) string {
	var out []string
	cs := readCol(buf)
	switch kind {
	case "strdec":
		var d codecs.StringDecoder
		d.Init(cs)
		d.Continue()
		for i := 0; i < n; i++ {
			var v string
			if err := d.Decode(&v); err != nil {
				out = append(out, errName(err))
				break
			}
			out = append(out, hx([]byte(v)))
		}
	case "sddec":
		var d codecs.StringDictDecoder
		var dd codecs.StringDictDecoderDict
		dd.Init()
		d.Init(&dd, cs)
		d.Continue()
		for i := 0; i < n; i++ {
			var v string
			if err := d.Decode(&v); err != nil {
				out = append(out, errName(err))
				break
			}
			out = append(out, hx([]byte(v)))
		}
	case "bytesdec":
		var d codecs.BytesDecoder
		d.Init(cs)
		d.Continue()
		for i := 0; i < n; i++ {
			var v pkg.Bytes
			if err := d.Decode(&v); err != nil {
				out = append(out, errName(err))
				break
			}
			out = append(out, hx([]byte(v)))
		}
	case "bddec":
		var d codecs.BytesDictDecoder
		var dd codecs.BytesDictDecoderDict
		dd.Init()
		d.Init(&dd, cs)
		d.Continue()
		for i := 0; i < n; i++ {
			var v pkg.Bytes
			if err := d.Decode(&v); err != nil {
				out = append(out, errName(err))
				break
			}
			out = append(out, hx([]byte(v)))
		}
	}
	return strings.Join(out, " ")
}

var _ = big.NewInt

func main() {
	sc := bufio.NewScanner(os.Stdin)
	sc.Buffer(make([]byte, 1<<20), 1<<26)
	w := bufio.NewWriter(os.Stdout)
	defer w.Flush()
	for sc.Scan() {
		line := sc.Text()
		if len(line) == 0 {
			continue
		}
		func() {
			defer func() {
				if r := recover(); r != nil {
					fmt.Fprintf(w, "PANIC %v\n", r)
				}
			}()
			fmt.Fprintln(w, handle(line))
		}()
	}
}
