// Package rt is the reflective driver of the correspondence checks: it drives any stefc-generated
// package through its public record API (setters, EnsureLen, SetType, Write, Flush, Read),
// dumps records canonically and reports the emitted chunks. It is schema directed: the schema
// comes as JSON from tools/gen/gen_schemas.py (our own IDL reader).
package rt

import (
	"runtime/debug"
	"bufio"
	"bytes"
	"encoding/hex"
	"encoding/json"
	"errors"
	"fmt"
	"io"
	"math"
	"os"
	"reflect"
	"strconv"
	"strings"

	"github.com/splunk/stef/go/pkg"
	"github.com/splunk/stef/go/pkg/schema"
)

// ---------------------------------------------------------------- schema
type Type struct {
	K    string `json:"k"` // prim | array | struct | multimap
	P    string `json:"p"`
	Elem *Type  `json:"elem"`
	ID   int    `json:"id"`
	Name string `json:"name"`
	Enum string `json:"enum"`
}
type Field struct {
	Name     string `json:"name"`
	Type     Type   `json:"type"`
	Optional bool   `json:"optional"`
}
type Struct struct {
	Name   string  `json:"name"`
	Oneof  bool    `json:"oneof"`
	Dict   *string `json:"dict"`
	Root   bool    `json:"root"`
	Fields []Field `json:"fields"`
}
type Multimap struct {
	Name  string `json:"name"`
	Key   Type   `json:"key"`
	Value Type   `json:"value"`
}
type Schema struct {
	Structs   []Struct   `json:"structs"`
	Multimaps []Multimap `json:"multimaps"`
}

// ---------------------------------------------------------------- roots
type Root struct {
	Cmp       func(a, b any) int
	NewWriter func(dst pkg.ChunkWriter, opts pkg.WriterOptions) (any, error)
	NewReader func(src io.Reader) (any, error)
	WireSchema func() (schema.WireSchema, error)
}

type Env struct {
	frozen  map[string]reflect.Value // frozen dictionary structs of the current case, by type and value (setOpts.reuse)
	Sch   Schema
	Roots map[string]Root

	lastArr map[uintptr][]string // last value given to arrays that are filled with Append
	Raw     bool                 // dump stored values of absent optional fields (C09)
}

func up(s string) string {
	if s == "" {
		return s
	}
	return strings.ToUpper(s[:1]) + s[1:]
}

// addr returns a value whose pointer-receiver methods can be called (getters may return composites by value)
func addr(v reflect.Value) reflect.Value {
	if v.Kind() == reflect.Struct && !v.CanAddr() {
		p := reflect.New(v.Type())
		p.Elem().Set(v)
		return p
	}
	return v
}

func call(v reflect.Value, name string, args ...any) []reflect.Value {
	m := v.MethodByName(name)
	if !m.IsValid() {
		panic(fmt.Sprintf("no method %s on %s", name, v.Type()))
	}
	in := make([]reflect.Value, len(args))
	for i, a := range args {
		if rv, ok := a.(reflect.Value); ok {
			in[i] = rv
		} else {
			in[i] = reflect.ValueOf(a).Convert(m.Type().In(i))
		}
	}
	return m.Call(in)
}

// ---------------------------------------------------------------- dump
func (e *Env) dumpPrim(p string, v reflect.Value, sb *strings.Builder) {
	switch p {
	case "PBool":
		if v.Bool() {
			sb.WriteString("b1")
		} else {
			sb.WriteString("b0")
		}
	case "PInt64":
		sb.WriteString("i" + strconv.FormatInt(v.Int(), 10))
	case "PUint64":
		sb.WriteString("u" + strconv.FormatUint(v.Uint(), 10))
	case "PFloat64":
		sb.WriteString(fmt.Sprintf("f%016x", math.Float64bits(v.Float())))
	case "PString", "PBytes":
		sb.WriteString("s" + hex.EncodeToString([]byte(v.String())))
	}
}

// dump a value of schema type t held in v (pointer to generated struct for composite types,
// plain value for primitives)
func (e *Env) dump(t *Type, v reflect.Value, sb *strings.Builder) {
	switch t.K {
	case "prim":
		e.dumpPrim(t.P, v, sb)
	case "struct":
		if v.Kind() == reflect.Ptr && v.IsNil() {
			sb.WriteString("nil")
			return
		}
		st := &e.Sch.Structs[t.ID]
		if st.Oneof {
			tag := int(call(v, "Type")[0].Uint())
			if tag == 0 {
				sb.WriteString("<0>")
				return
			}
			sb.WriteString("<" + strconv.Itoa(tag) + ":")
			f := &st.Fields[tag-1]
			e.dump(&f.Type, call(v, up(f.Name))[0], sb)
			sb.WriteString(">")
			return
		}
		sb.WriteString("{")
		for i := range st.Fields {
			f := &st.Fields[i]
			if i > 0 {
				sb.WriteString(",")
			}
			if f.Optional {
				has := call(v, "Has"+up(f.Name))[0].Bool()
				if !has {
					sb.WriteString("~")
					if e.Raw {
						// raw mode (C09): an absent optional field holds no data; since the repair of the
						// generated Cmp (stored values of absent fields are no longer compared) the value
						// still stored in the field is not shown
						sb.WriteString("nil")
					}
					continue
				}
				if e.Raw {
					sb.WriteString("?")
				}
			}
			e.dump(&f.Type, call(v, up(f.Name))[0], sb)
		}
		sb.WriteString("}")
	case "array":
		n := int(call(v, "Len")[0].Int())
		sb.WriteString("[")
		for i := 0; i < n; i++ {
			if i > 0 {
				sb.WriteString(",")
			}
			e.dump(t.Elem, addr(call(v, "At", i)[0]), sb)
		}
		sb.WriteString("]")
	case "multimap":
		mm := &e.Sch.Multimaps[t.ID]
		n := int(call(v, "Len")[0].Int())
		sb.WriteString("(")
		for i := 0; i < n; i++ {
			if i > 0 {
				sb.WriteString(";")
			}
			e.dump(&mm.Key, addr(call(v, "Key", i)[0]), sb)
			sb.WriteString("=")
			e.dump(&mm.Value, addr(call(v, "Value", i)[0]), sb)
		}
		sb.WriteString(")")
	}
}

func (e *Env) DumpRoot(root string, rec reflect.Value) string {
	var sb strings.Builder
	id := e.structID(root)
	e.dump(&Type{K: "struct", ID: id}, rec, &sb)
	return sb.String()
}

func (e *Env) rootMask(root string, rec reflect.Value) uint64 {
	st := &e.Sch.Structs[e.structID(root)]
	var m uint64
	for i := range st.Fields {
		if call(rec, "Is"+up(st.Fields[i].Name)+"Modified")[0].Bool() {
			m |= 1 << uint(i)
		}
	}
	return m
}

func (e *Env) structID(name string) int {
	for i := range e.Sch.Structs {
		if e.Sch.Structs[i].Name == name {
			return i
		}
	}
	panic("unknown struct " + name)
}

// ---------------------------------------------------------------- set
func parsePrim(p string, j any) any {
	switch p {
	case "PBool":
		return j.(bool)
	case "PInt64":
		v, err := strconv.ParseInt(j.(string), 10, 64)
		if err != nil {
			panic(err)
		}
		return v
	case "PUint64":
		v, err := strconv.ParseUint(j.(string), 10, 64)
		if err != nil {
			panic(err)
		}
		return v
	case "PFloat64":
		v, err := strconv.ParseUint(j.(string), 16, 64)
		if err != nil {
			panic(err)
		}
		return math.Float64frombits(v)
	default:
		b, err := hex.DecodeString(j.(string))
		if err != nil {
			panic(err)
		}
		return string(b)
	}
}

type setOpts struct {
	freeze bool // Freeze dictionary structs before handing them to Set<F>(ptr)
	// reuse (with freeze): when the same value of a dictionary struct recurs within a case, hand the SAME
	// frozen object to Set<F>(ptr) again (the way converters share frozen resources / scopes / metrics);
	// such an object has been encoded before, so its modified marks are clear and its reference caches set
	reuse bool
}

// set the composite value held in v (pointer) to j
func (e *Env) set(t *Type, v reflect.Value, j any, so *setOpts) {
	switch t.K {
	case "struct":
		st := &e.Sch.Structs[t.ID]
		if st.Oneof {
			arr := j.([]any)
			tag := int(arr[0].(float64))
			if tag == 0 {
				call(v, "SetType", 0)
				return
			}
			f := &st.Fields[tag-1]
			if f.Type.K == "prim" {
				call(v, "Set"+up(f.Name), parsePrim(f.Type.P, arr[1]))
			} else {
				call(v, "SetType", tag)
				e.set(&f.Type, call(v, up(f.Name))[0], arr[1], so)
			}
			return
		}
		arr := j.([]any)
		for i := range st.Fields {
			if i >= len(arr) {
				break
			}
			e.setField(st, &st.Fields[i], v, arr[i], so)
		}
	case "array":
		arr := j.([]any)
		if t.Elem.K == "prim" {
			m := v.MethodByName("CopyFromSlice")
			sl := reflect.MakeSlice(m.Type().In(0), len(arr), len(arr))
			for i, x := range arr {
				sl.Index(i).Set(reflect.ValueOf(parsePrim(t.Elem.P, x)).Convert(sl.Type().Elem()))
			}
			m.Call([]reflect.Value{sl})
			return
		}
		byAppend := t.Elem.K == "multimap" || (t.Elem.K == "struct" && e.Sch.Structs[t.Elem.ID].Dict != nil)
		if byAppend {
			// elements that are handed over (pointer-stored dictionary structs, multimaps by value):
			// rebuild the array with Append
			// append-only growth and truncation keep the earlier elements untouched; anything else
			// rebuilds the array (EnsureLen(0) + Append inside one record)
			strs := make([]string, len(arr))
			for i, x := range arr {
				b, _ := json.Marshal(x)
				strs[i] = string(b)
			}
			key := v.Pointer()
			old, known := e.lastArr[key]
			curLen := int(call(v, "Len")[0].Int())
			if !known && curLen == 0 {
				old, known = nil, true
			}
			start := 0
			if known && len(old) == curLen {
				common := 0
				for common < len(old) && common < len(strs) && old[common] == strs[common] {
					common++
				}
				if common == len(old) || common == len(strs) {
					// extension or truncation
					if common < curLen {
						call(v, "EnsureLen", common)
					}
					start = common
				} else {
					call(v, "EnsureLen", 0)
				}
			} else {
				call(v, "EnsureLen", 0)
			}
			if e.lastArr == nil {
				e.lastArr = map[uintptr][]string{}
			}
			e.lastArr[key] = strs
			app := v.MethodByName("Append")
			pt := app.Type().In(0)
			for _, x := range arr[start:] {
				var obj reflect.Value
				if pt.Kind() == reflect.Ptr {
					obj = reflect.New(pt.Elem())
				} else {
					obj = reflect.New(pt)
				}
				if im := obj.MethodByName("Init"); im.IsValid() {
					im.Call(nil)
				}
				e.set(t.Elem, obj, x, so)
				if so.freeze {
					if fm := obj.MethodByName("Freeze"); fm.IsValid() {
						fm.Call(nil)
					}
				}
				if pt.Kind() == reflect.Ptr {
					app.Call([]reflect.Value{obj})
				} else {
					app.Call([]reflect.Value{obj.Elem()})
				}
			}
			return
		}
		call(v, "EnsureLen", len(arr))
		for i, x := range arr {
			e.set(t.Elem, call(v, "At", i)[0], x, so)
		}
	case "multimap":
		mm := &e.Sch.Multimaps[t.ID]
		arr := j.([]any)
		call(v, "EnsureLen", len(arr))
		for i, x := range arr {
			kv := x.([]any)
			if mm.Key.K == "prim" {
				call(v, "SetKey", i, parsePrim(mm.Key.P, kv[0]))
			} else {
				e.set(&mm.Key, call(v, "Key", i)[0], kv[0], so)
			}
			if mm.Value.K == "prim" {
				call(v, "SetValue", i, parsePrim(mm.Value.P, kv[1]))
			} else {
				e.set(&mm.Value, call(v, "Value", i)[0], kv[1], so)
			}
		}
	}
}

func (e *Env) setField(st *Struct, f *Field, v reflect.Value, j any, so *setOpts) {
	name := up(f.Name)
	if f.Optional && j == nil {
		call(v, "Unset"+name)
		return
	}
	if f.Type.K == "prim" {
		call(v, "Set"+name, parsePrim(f.Type.P, j))
		return
	}
	setter := v.MethodByName("Set" + name)
	if f.Type.K == "struct" && setter.IsValid() && setter.Type().NumIn() == 1 && setter.Type().In(0).Kind() == reflect.Ptr {
		// stored by pointer (dictionary struct): build a fresh object and hand it over
		var ckey string
		if so.freeze && so.reuse {
			jb, _ := json.Marshal(j)
			ckey = fmt.Sprintf("%d|%s", f.Type.ID, jb)
			if old, ok := e.frozen[ckey]; ok {
				setter.Call([]reflect.Value{old})
				return
			}
		}
		obj := reflect.New(setter.Type().In(0).Elem())
		call(obj, "Init")
		e.set(&f.Type, obj, j, so)
		if so.freeze {
			if fm := obj.MethodByName("Freeze"); fm.IsValid() {
				fm.Call(nil)
				if ckey != "" {
					if e.frozen == nil {
						e.frozen = map[string]reflect.Value{}
					}
					e.frozen[ckey] = obj
				}
			}
		}
		setter.Call([]reflect.Value{obj})
		return
	}
	if f.Optional && setter.IsValid() && setter.Type().NumIn() == 0 {
		// mark present; calling Set<F>() on a field that is already present would reset its value
		// silently (known finding C01-optional-set-resets), so only do it for absent fields
		if hm := v.MethodByName("Has" + name); !hm.IsValid() || !hm.Call(nil)[0].Bool() {
			setter.Call(nil)
		}
	}
	e.set(&f.Type, call(v, name)[0], j, so)
}

// ---------------------------------------------------------------- low-level path ops
// {"op":"call","path":["Point","Value"],"m":"SetType","args":[3]}: path elements are getter
// names, or ["At",i] / ["Value",i] pairs encoded as "At:3".
func (e *Env) navigate(rec reflect.Value, path []any) reflect.Value {
	cur := rec
	for _, p := range path {
		s := p.(string)
		if i := strings.IndexByte(s, ':'); i >= 0 {
			idx, _ := strconv.Atoi(s[i+1:])
			cur = call(cur, s[:i], idx)[0]
		} else {
			cur = call(cur, s)[0]
		}
	}
	return cur
}

func (e *Env) callOp(rec reflect.Value, op map[string]any) {
	var path []any
	if p, ok := op["path"]; ok && p != nil {
		path = p.([]any)
	}
	tgt := e.navigate(rec, path)
	m := tgt.MethodByName(op["m"].(string))
	if !m.IsValid() {
		panic("no method " + op["m"].(string))
	}
	var args []any
	if a, ok := op["args"]; ok && a != nil {
		args = a.([]any)
	}
	in := make([]reflect.Value, len(args))
	for i, a := range args {
		pt := m.Type().In(i)
		switch x := a.(type) {
		case float64:
			in[i] = reflect.ValueOf(int64(x)).Convert(pt)
		case bool:
			in[i] = reflect.ValueOf(x)
		case string:
			if x == "new" {
				// a freshly created value of the parameter's (pointer) type, as New<Struct>() gives
				nv := reflect.New(pt.Elem())
				call(nv, "Init")
				in[i] = nv
				continue
			}
			// typed literal: u:123 i:-4 f:hex s:hex
			kind, body := x[:1], x[2:]
			var pv any
			switch kind {
			case "u":
				pv = parsePrim("PUint64", body)
			case "i":
				pv = parsePrim("PInt64", body)
			case "f":
				pv = parsePrim("PFloat64", body)
			default:
				pv = parsePrim("PString", body)
			}
			in[i] = reflect.ValueOf(pv).Convert(pt)
		}
	}
	m.Call(in)
}

// ---------------------------------------------------------------- chunk sink
type ChunkSink struct {
	Chunks [][]byte
	All    []byte
}

func (c *ChunkSink) WriteChunk(header []byte, content []byte) error {
	b := append(append([]byte{}, header...), content...)
	c.Chunks = append(c.Chunks, b)
	c.All = append(c.All, b...)
	return nil
}

// ---------------------------------------------------------------- cases
type Opts struct {
	Compression int               `json:"compression"`
	MaxFrame    uint              `json:"maxframe"`
	MaxDict     uint              `json:"maxdict"`
	Flags       int               `json:"flags"`
	Descriptor  bool              `json:"descriptor"`
	UserData    map[string]string `json:"userdata"`
	Schema      []uint            `json:"schema"`
}

type Case struct {
	ID   string           `json:"id"`
	Root string           `json:"root"`
	Opts Opts             `json:"opts"`
	Ops  []map[string]any `json:"ops"`
	// reading
	Mode   string `json:"mode"`   // "" | "cuts" | "readonly"
	Stream string `json:"stream"` // hex, for readonly
	Sched  []int  `json:"sched"`  // read-size schedule for the source
	Scheds map[string][]int `json:"scheds"` // several schedules; a negative first element = deliver EOF with the last data
	Cuts   []int  `json:"cuts"`
	Vals   []any  `json:"vals"`   // c09: value trees
	Transcode string `json:"transcode"` // "", "all", "odd", "even", "thirds": re-write the records read back with CopyFrom
	Written bool  `json:"written"` // c09: every value lives in its own writer's Record and was written once (encoder caches populated)
	Freeze bool   `json:"freeze"`
}

type FrameInfo struct {
	Flags   int    `json:"fl"`
	USize   uint64 `json:"usize"`
	Content string `json:"content"`
}

type ReadOut struct {
	Recs     []string `json:"recs"`
	Err      string   `json:"err"`
	OpenErr  string   `json:"openerr"`
	Panic    string   `json:"panic,omitempty"`
	Stable   bool     `json:"stable"` // values retained from earlier records unchanged at the end
	UserData string   `json:"ud,omitempty"`
	Schema   string   `json:"ws,omitempty"`
}

type Out struct {
	ID      string      `json:"id"`
	Stream  string      `json:"stream"`
	Chunks  []int       `json:"chunks"`
	Written []string    `json:"written"`
	WErr    string      `json:"werr,omitempty"`
	Panic   string      `json:"panic,omitempty"`
	Frames  []FrameInfo `json:"frames,omitempty"`
	Read    *ReadOut    `json:"read,omitempty"`
	Cuts    map[string]*ReadOut `json:"cuts,omitempty"`
	WCount  uint64      `json:"wcount"`
	RCount  uint64      `json:"rcount"`
	Steps   []StepOut   `json:"steps,omitempty"`
	C09     *C09Out     `json:"c09,omitempty"`
	Scheds  map[string]*ReadOut `json:"scheds,omitempty"`
	Trans   *TransOut   `json:"trans,omitempty"`
}

// TransOut: the records of the stream read back and handed, by CopyFrom from the reader's record
// (whose dictionary values are frozen and shared with the reader's dictionaries), to a second writer
type TransOut struct {
	Expected []string `json:"expected"` // dumps of the reader's record for every selected record
	Got      []string `json:"got"`      // what a reader of the second stream returns
	Err      string   `json:"err,omitempty"`
	Panic    string   `json:"panic,omitempty"`
	Stream   string   `json:"stream"`
}

func (e *Env) transcode(c *Case, stream []byte) (t *TransOut) {
	t = &TransOut{}
	defer func() {
		if r := recover(); r != nil {
			t.Panic = fmt.Sprint(r) + " @ " + shortStack()
		}
	}()
	rd, err := e.Roots[c.Root].NewReader(bytes.NewReader(stream))
	if err != nil {
		t.Err = "open:" + err.Error()
		return t
	}
	rv := reflect.ValueOf(rd)
	rrec := rv.Elem().FieldByName("Record").Addr()
	sink := &ChunkSink{}
	o2 := c.Opts
	o2.Schema = nil
	w2, err := e.Roots[c.Root].NewWriter(sink, e.writerOpts(&o2))
	if err != nil {
		t.Err = "writer:" + err.Error()
		return t
	}
	wv := reflect.ValueOf(w2)
	wrec := wv.Elem().FieldByName("Record").Addr()
	for i := 0; ; i++ {
		res := call(rv, "Read", pkg.ReadOptions{})
		if !res[0].IsNil() {
			if res[0].Interface().(error) != io.EOF {
				t.Err = "read:" + res[0].Interface().(error).Error()
			}
			break
		}
		sel := c.Transcode == "all" || (c.Transcode == "odd" && i%2 == 1) || (c.Transcode == "even" && i%2 == 0) || (c.Transcode == "thirds" && i%3 != 1)
		if !sel {
			continue
		}
		t.Expected = append(t.Expected, e.DumpRoot(c.Root, rrec))
		call(wrec, "CopyFrom", rrec)
		if err := call(wv, "Write")[0]; !err.IsNil() {
			t.Err = "write:" + err.Interface().(error).Error()
			return t
		}
	}
	if err := call(wv, "Flush")[0]; !err.IsNil() {
		t.Err = "flush:" + err.Interface().(error).Error()
		return t
	}
	t.Stream = hex.EncodeToString(sink.All)
	ro := e.ReadAll(c.Root, bytes.NewReader(sink.All))
	for _, r := range ro.Recs {
		if i := strings.LastIndex(r, "~"); i >= 0 {
			r = r[:i]
		}
		t.Got = append(t.Got, r)
	}
	if ro.Err != "eof" || ro.OpenErr != "" || ro.Panic != "" {
		t.Err = fmt.Sprintf("reread: open=%s err=%s panic=%s", ro.OpenErr, ro.Err, ro.Panic)
	}
	return t
}

func (e *Env) writerOpts(o *Opts) pkg.WriterOptions {
	wo := pkg.WriterOptions{
		IncludeDescriptor:            o.Descriptor,
		Compression:                  pkg.Compression(o.Compression),
		MaxUncompressedFrameByteSize: o.MaxFrame,
		FrameRestartFlags:            pkg.FrameFlags(o.Flags),
		MaxTotalDictSize:             o.MaxDict,
		UserData:                     o.UserData,
	}
	if o.Schema != nil {
		var buf bytes.Buffer
		buf.Write(appendUvarint(nil, uint64(len(o.Schema))))
		for _, c := range o.Schema {
			buf.Write(appendUvarint(nil, uint64(c)))
		}
		ws := &schema.WireSchema{}
		if err := ws.Deserialize(&buf); err != nil {
			panic(err)
		}
		wo.Schema = ws
	}
	return wo
}

func appendUvarint(b []byte, v uint64) []byte {
	for v >= 0x80 {
		b = append(b, byte(v)|0x80)
		v >>= 7
	}
	return append(b, byte(v))
}

// schedReader delivers the bytes of b according to a schedule of read sizes (>=1); after the
// schedule is exhausted it delivers whatever is asked. withEOF: return io.EOF together with
// the last bytes.
type schedReader struct {
	b       []byte
	sched   []int
	i       int
	withEOF bool
	Reads   int
}

func (s *schedReader) Read(p []byte) (int, error) {
	s.Reads++
	if len(p) == 0 {
		return 0, nil
	}
	if len(s.b) == 0 {
		return 0, io.EOF
	}
	n := len(p)
	if s.i < len(s.sched) {
		if s.sched[s.i] < n {
			n = s.sched[s.i]
		}
		s.i++
	}
	if n > len(s.b) {
		n = len(s.b)
	}
	copy(p, s.b[:n])
	s.b = s.b[n:]
	if len(s.b) == 0 && s.withEOF {
		return n, io.EOF
	}
	return n, nil
}

func errClass(err error) string {
	if err == nil {
		return ""
	}
	if err == io.EOF {
		return "eof"
	}
	return "err:" + err.Error()
}

// ReadAll reads a stream with the generated reader and dumps every record (+ root modified mask).
func (e *Env) ReadAll(root string, src io.Reader) (out *ReadOut) {
	out = &ReadOut{Stable: true}
	defer func() {
		if r := recover(); r != nil {
			out.Panic = fmt.Sprint(r)
		}
	}()
	rd, err := e.Roots[root].NewReader(src)
	if err != nil {
		out.OpenErr = errClass(err)
		return out
	}
	rv := reflect.ValueOf(rd)
	rec := rv.Elem().FieldByName("Record").Addr()
	if ud := rv.MethodByName("UserData"); ud.IsValid() {
		m := ud.Call(nil)[0].Interface().(map[string]string)
		out.UserData = canonUD(m)
	}
	type kept struct {
		ptrs []reflect.Value
		dump []string
	}
	var keeps []kept
	for {
		res := call(rv, "Read", pkg.ReadOptions{})
		if !res[0].IsNil() {
			out.Err = errClass(res[0].Interface().(error))
			break
		}
		d := e.DumpRoot(root, rec)
		out.Recs = append(out.Recs, d+"~"+strconv.FormatUint(e.rootMask(root, rec), 10))
		// retain pointer-valued / string top-level values to check they stay unchanged
		if len(keeps) < 64 {
			k := kept{}
			st := &e.Sch.Structs[e.structID(root)]
			for i := range st.Fields {
				f := &st.Fields[i]
				if f.Type.K == "struct" && e.Sch.Structs[f.Type.ID].Dict != nil {
					p := call(rec, up(f.Name))[0]
					var sb strings.Builder
					e.dump(&f.Type, p, &sb)
					k.ptrs = append(k.ptrs, p)
					k.dump = append(k.dump, sb.String())
				}
			}
			keeps = append(keeps, k)
		}
		if len(out.Recs) > 200000 {
			out.Err = "err:too many records"
			break
		}
	}
	for _, k := range keeps {
		st := &e.Sch.Structs[e.structID(root)]
		j := 0
		for i := range st.Fields {
			f := &st.Fields[i]
			if f.Type.K == "struct" && e.Sch.Structs[f.Type.ID].Dict != nil {
				var sb strings.Builder
				e.dump(&f.Type, k.ptrs[j], &sb)
				if sb.String() != k.dump[j] {
					out.Stable = false
				}
				j++
			}
		}
	}
	return out
}

func canonUD(m map[string]string) string {
	keys := make([]string, 0, len(m))
	for k := range m {
		keys = append(keys, k)
	}
	sortStrings(keys)
	var sb strings.Builder
	for i, k := range keys {
		if i > 0 {
			sb.WriteString(",")
		}
		sb.WriteString(hex.EncodeToString([]byte(k)) + "=" + hex.EncodeToString([]byte(m[k])))
	}
	return sb.String()
}

func sortStrings(a []string) {
	for i := 1; i < len(a); i++ {
		for j := i; j > 0 && a[j] < a[j-1]; j-- {
			a[j], a[j-1] = a[j-1], a[j]
		}
	}
}

// Frames splits a complete stream into frames and decompresses zstd content with the library's
// own reader settings (one decoder carried across frames unless RestartCompression).
func Frames(stream []byte) (compr int, frames []FrameInfo, err error) {
	if len(stream) < 7 || string(stream[:4]) != "STEF" {
		return 0, nil, errors.New("bad header")
	}
	br := bytes.NewReader(stream[4:])
	sz, err := readUvarint(br)
	if err != nil {
		return 0, nil, err
	}
	hdr := make([]byte, sz)
	if _, err := io.ReadFull(br, hdr); err != nil {
		return 0, nil, err
	}
	compr = int(hdr[1] & 3)
	// the library's own frame decoder (zstd state carried across frames exactly as the reader does)
	var fd pkg.FrameDecoder
	src := bufio.NewReader(br)
	if err := fd.Init(src, pkg.Compression(compr)); err != nil {
		return compr, nil, err
	}
	for {
		fl, err := fd.Next()
		if err != nil {
			if err == io.EOF {
				return compr, frames, nil
			}
			return compr, frames, err
		}
		usize := fd.RemainingSize()
		content := make([]byte, 0, usize)
		for fd.RemainingSize() > 0 {
			buf := make([]byte, fd.RemainingSize())
			n, err := fd.Read(buf)
			content = append(content, buf[:n]...)
			if err != nil {
				return compr, frames, err
			}
		}
		frames = append(frames, FrameInfo{Flags: int(fl), USize: usize, Content: hex.EncodeToString(content)})
	}
}

func readUvarint(r io.ByteReader) (uint64, error) {
	var x uint64
	var s uint
	for i := 0; i < 10; i++ {
		b, err := r.ReadByte()
		if err != nil {
			return 0, err
		}
		if b < 0x80 {
			return x | uint64(b)<<s, nil
		}
		x |= uint64(b&0x7f) << s
		s += 7
	}
	return 0, errors.New("overflow")
}

// ---------------------------------------------------------------- C06: one stream, interleaved writer and reader
type growSrc struct {
	sink  *ChunkSink
	off   int
	Reads int
	Bytes int
	Empty int // calls that found nothing to return: a blocking source (pipe, socket) would have blocked here
}

func (g *growSrc) Read(p []byte) (int, error) {
	g.Reads++
	if len(p) == 0 {
		return 0, nil
	}
	if g.off >= len(g.sink.All) {
		g.Empty++
		return 0, io.EOF
	}
	n := copy(p, g.sink.All[g.off:])
	g.off += n
	g.Bytes += n
	return n, nil
}

type StepOut struct {
	Op    string `json:"op"`
	Res   string `json:"res"`
	Reads int    `json:"reads"`
	Empty int    `json:"empty"` // source calls of this step that would have blocked on a blocking source
	Avail int    `json:"avail"` // bytes emitted by the writer so far
}

func (e *Env) RunC06(c *Case) (out *Out) {
	out = &Out{ID: c.ID}
	defer func() {
		if r := recover(); r != nil {
			out.Panic = fmt.Sprint(r)
		}
	}()
	sink := &ChunkSink{}
	w, err := e.Roots[c.Root].NewWriter(sink, e.writerOpts(&c.Opts))
	if err != nil {
		out.WErr = err.Error()
		return out
	}
	wv := reflect.ValueOf(w)
	rec := wv.Elem().FieldByName("Record").Addr()
	rootT := &Type{K: "struct", ID: e.structID(c.Root)}
	src := &growSrc{sink: sink}
	var rv, rrec reflect.Value
	for _, op := range c.Ops {
		name := op["op"].(string)
		switch name {
		case "set":
			so := &setOpts{}
			if fz, ok := op["freeze"].(bool); ok {
				so.freeze = fz
			}
			e.set(rootT, rec, op["v"], so)
		case "w":
			out.Written = append(out.Written, e.DumpRoot(c.Root, rec))
			if err := call(wv, "Write")[0]; !err.IsNil() {
				out.WErr = err.Interface().(error).Error()
			}
			out.Steps = append(out.Steps, StepOut{Op: "w", Avail: len(sink.All)})
		case "f":
			if err := call(wv, "Flush")[0]; !err.IsNil() {
				out.WErr = err.Interface().(error).Error()
			}
			out.Steps = append(out.Steps, StepOut{Op: "f", Avail: len(sink.All)})
		case "open":
			before, beforeE := src.Reads, src.Empty
			rd, err := e.Roots[c.Root].NewReader(src)
			st := StepOut{Op: "open", Avail: len(sink.All), Empty: src.Empty - beforeE}
			if err != nil {
				st.Res = errClass(err)
			} else {
				st.Res = "ok"
				rv = reflect.ValueOf(rd)
				rrec = rv.Elem().FieldByName("Record").Addr()
			}
			st.Reads = src.Reads - before
			out.Steps = append(out.Steps, st)
		case "r", "rf":
			st := StepOut{Op: name, Avail: len(sink.All)}
			if !rv.IsValid() {
				st.Res = "noreader"
				out.Steps = append(out.Steps, st)
				continue
			}
			before, beforeE := src.Reads, src.Empty
			res := call(rv, "Read", pkg.ReadOptions{TillEndOfFrame: name == "rf"})
			st.Reads = src.Reads - before
			st.Empty = src.Empty - beforeE
			if res[0].IsNil() {
				st.Res = "rec:" + e.DumpRoot(c.Root, rrec) + "~" + strconv.FormatUint(e.rootMask(c.Root, rrec), 10)
			} else {
				err := res[0].Interface().(error)
				if err == pkg.ErrEndOfFrame {
					st.Res = "eoframe"
				} else {
					st.Res = errClass(err)
				}
			}
			out.Steps = append(out.Steps, st)
		}
	}
	out.Stream = hex.EncodeToString(sink.All)
	for _, ch := range sink.Chunks {
		out.Chunks = append(out.Chunks, len(ch))
	}
	if rv.IsValid() {
		out.RCount = call(rv, "RecordCount")[0].Uint()
	}
	out.WCount = call(wv, "RecordCount")[0].Uint()
	return out
}

// ---------------------------------------------------------------- C09: copy / compare on detached records
type C09Out struct {
	Dumps    []string `json:"dumps"`    // raw dumps of the values
	Cmp      [][]int  `json:"cmp"`      // sign of Cmp(i, j)
	Equal    [][]bool `json:"equal"`    // IsEqual(i, j)
	CopyOK   []string `json:"copy"`     // per value: "" or what went wrong with CopyFrom/Clone
	Frozen   string   `json:"frozen"`   // "" or what went wrong with Freeze
}

// diffAt: the part of a around the first position where it differs from b
func diffAt(a, b string) string {
	i := 0
	for i < len(a) && i < len(b) && a[i] == b[i] {
		i++
	}
	lo, hi := i-60, i+60
	if lo < 0 {
		lo = 0
	}
	if hi > len(a) {
		hi = len(a)
	}
	return fmt.Sprintf("@%d ..%s..", i, a[lo:hi])
}

// shortStack: the frames of the generated package / runtime library on the panicking stack
func shortStack() string {
	var sb strings.Builder
	for _, l := range strings.Split(string(debug.Stack()), "\n") {
		l = strings.TrimSpace(l)
		if strings.Contains(l, ".go:") && !strings.Contains(l, "/runtime/") && !strings.Contains(l, "reflect/") && !strings.Contains(l, "harness/rt") {
			if i := strings.LastIndex(l, "/"); i >= 0 {
				l = l[i+1:]
			}
			sb.WriteString(strings.Fields(l)[0] + " ")
		}
	}
	return sb.String()
}

func sign(x int) int {
	if x < 0 {
		return -1
	}
	if x > 0 {
		return 1
	}
	return 0
}

func (e *Env) newRecord(root string) reflect.Value {
	w, err := e.Roots[root].NewWriter(&ChunkSink{}, pkg.WriterOptions{})
	if err != nil {
		panic(err)
	}
	t := reflect.ValueOf(w).Elem().FieldByName("Record").Type()
	r := reflect.New(t)
	call(r, "Init")
	return r
}

func (e *Env) RunC09(c *Case) (out *Out) {
	out = &Out{ID: c.ID}
	res := &C09Out{}
	out.C09 = res
	defer func() {
		if r := recover(); r != nil {
			out.Panic = fmt.Sprint(r) + " @ " + shortStack()
		}
	}()
	e.Raw = true
	defer func() { e.Raw = false }()
	rootT := &Type{K: "struct", ID: e.structID(c.Root)}
	var objs []reflect.Value
	// a record that lives in its own writer and was written once holding v
	mkWritten := func(v any) reflect.Value {
		e.lastArr = nil
		w, err := e.Roots[c.Root].NewWriter(&ChunkSink{}, pkg.WriterOptions{})
		if err != nil {
			panic(err)
		}
		wv := reflect.ValueOf(w)
		o := wv.Elem().FieldByName("Record").Addr()
		e.set(rootT, o, v, &setOpts{freeze: c.Freeze})
		if err := call(wv, "Write")[0]; !err.IsNil() {
			panic(err.Interface())
		}
		return o
	}
	for _, v := range c.Vals {
		e.lastArr = nil
		var o reflect.Value
		if c.Written {
			o = mkWritten(v)
		} else {
			o = e.newRecord(c.Root)
			e.set(rootT, o, v, &setOpts{freeze: c.Freeze})
		}
		objs = append(objs, o)
	}
	dump := func(o reflect.Value) string { return e.DumpRoot(c.Root, o) }
	for _, o := range objs {
		res.Dumps = append(res.Dumps, dump(o))
	}
	cmp := e.Roots[c.Root].Cmp
	for i := range objs {
		var row []int
		var erow []bool
		for j := range objs {
			row = append(row, sign(cmp(objs[i].Interface(), objs[j].Interface())))
			erow = append(erow, call(objs[i], "IsEqual", objs[j])[0].Bool())
		}
		res.Cmp = append(res.Cmp, row)
		res.Equal = append(res.Equal, erow)
	}
	// copies: equal to the source, independent of it
	n := len(objs)
	pre := make([]string, n)
	if c.Written {
		// written records of DIFFERENT writers (each has its own dictionaries, so that different values
		// carry the same reference numbers in their encoder caches): CopyFrom / the setters over a record
		// that was written holding another value give exactly the source value
		for i := range objs {
			tgt := mkWritten(c.Vals[(i+1)%n])
			call(tgt, "CopyFrom", objs[i])
			if d := dump(tgt); d != res.Dumps[i] || cmp(tgt.Interface(), objs[i].Interface()) != 0 {
				pre[i] += fmt.Sprintf("CopyFrom over a written record of another writer differs from the source (%s vs %s);", diffAt(d, res.Dumps[i]), diffAt(res.Dumps[i], d))
			}
			tgt2 := mkWritten(c.Vals[(i+1)%n])
			e.lastArr = nil
			e.set(rootT, tgt2, c.Vals[i], &setOpts{freeze: c.Freeze})
			if d := dump(tgt2); d != res.Dumps[i] || cmp(tgt2.Interface(), objs[i].Interface()) != 0 {
				pre[i] += fmt.Sprintf("a written record of another writer set to a new value differs from it (%s vs %s);", diffAt(d, res.Dumps[i]), diffAt(res.Dumps[i], d))
			}
		}
	}
	// clones of (frozen) dictionary structs held by the record: a clone is a mutable, independent value;
	// setting it to the value the next record holds in that field must not change the original
	rst := &e.Sch.Structs[rootT.ID]
	for i := range objs {
		nxt, _ := c.Vals[(i+1)%n].([]any)
		for fi := range rst.Fields {
			f := &rst.Fields[fi]
			setter := objs[i].MethodByName("Set" + up(f.Name))
			if f.Type.K != "struct" || !setter.IsValid() || setter.Type().NumIn() != 1 || setter.Type().In(0).Kind() != reflect.Ptr || fi >= len(nxt) || nxt[fi] == nil {
				continue
			}
			orig := call(objs[i], up(f.Name))[0]
			cm := orig.MethodByName("Clone")
			if orig.Kind() != reflect.Ptr || orig.IsNil() || !cm.IsValid() || cm.Type().NumIn() != 1 {
				continue
			}
			var b0, b1, b2 strings.Builder
			e.dump(&f.Type, orig, &b0)
			cl := cm.Call([]reflect.Value{reflect.New(cm.Type().In(0).Elem())})[0]
			e.dump(&f.Type, cl, &b1)
			if b1.String() != b0.String() {
				pre[i] += fmt.Sprintf("Clone of field %s differs from the original (%s vs %s);", f.Name, diffAt(b1.String(), b0.String()), diffAt(b0.String(), b1.String()))
			}
			e.lastArr = nil
			e.set(&f.Type, cl, nxt[fi], &setOpts{})
			e.dump(&f.Type, orig, &b2)
			if b2.String() != b0.String() {
				pre[i] += fmt.Sprintf("mutating the clone of field %s changed the original (%s vs %s);", f.Name, diffAt(b2.String(), b0.String()), diffAt(b0.String(), b2.String()))
			}
		}
	}
	for i := range objs {
		msg := pre[i]
		src := objs[i]
		before := dump(src)
		cp := e.newRecord(c.Root)
		call(cp, "CopyFrom", src)
		if dump(cp) != before || cmp(cp.Interface(), src.Interface()) != 0 || !call(cp, "IsEqual", src)[0].Bool() {
			msg += "CopyFrom result differs from source;"
		}
		// mutate the copy to another value: the source must not change
		e.lastArr = nil
		other := c.Vals[(i+1)%n]
		e.set(rootT, cp, other, &setOpts{freeze: c.Freeze})
		if dump(src) != before {
			msg += "mutating the copy changed the source;"
		}
		afterCopy := dump(cp)
		// the copy, set to another value through the setters (Set<Field>(frozen) when freeze is on),
		// holds exactly that value
		e.lastArr = nil
		exp := e.newRecord(c.Root)
		e.set(rootT, exp, other, &setOpts{freeze: c.Freeze})
		if d2 := dump(exp); afterCopy != d2 || cmp(cp.Interface(), exp.Interface()) != 0 {
			msg += fmt.Sprintf("record set to a new value differs from a fresh record set to it (%s vs %s);", diffAt(afterCopy, d2), diffAt(d2, afterCopy))
		}
		// CopyFrom over a record that already holds another value (not only into a fresh one)
		e.lastArr = nil
		over := e.newRecord(c.Root)
		e.set(rootT, over, c.Vals[(i+2)%n], &setOpts{freeze: c.Freeze})
		call(over, "CopyFrom", exp)
		if d3 := dump(over); d3 != dump(exp) || cmp(over.Interface(), exp.Interface()) != 0 || !call(over, "IsEqual", exp)[0].Bool() {
			msg += fmt.Sprintf("CopyFrom over an existing value differs from the source (%s vs %s);", diffAt(d3, dump(exp)), diffAt(dump(exp), d3))
		}
		// mutate the source: the copy must not change
		e.lastArr = nil
		e.set(rootT, src, c.Vals[(i+2)%n], &setOpts{freeze: c.Freeze})
		if dump(cp) != afterCopy {
			msg += "mutating the source changed the copy;"
		}
		// Clone
		if cm := src.MethodByName("Clone"); cm.IsValid() {
			al := reflect.New(cm.Type().In(0).Elem())
			cl := addr(cm.Call([]reflect.Value{al})[0])
			b2 := dump(src)
			if d2 := dump(cl); d2 != b2 || cmp(cl.Interface(), src.Interface()) != 0 {
				msg += fmt.Sprintf("Clone result differs from source (cmp %d; source %s; clone %s);", cmp(cl.Interface(), src.Interface()), diffAt(b2, d2), diffAt(d2, b2))
			}
			e.lastArr = nil
			e.set(rootT, cl, other, &setOpts{freeze: c.Freeze})
			if dump(src) != b2 {
				msg += "mutating the clone changed the source;"
			}
		}
		res.CopyOK = append(res.CopyOK, msg)
	}
	return out
}

func (e *Env) RunCase(c *Case) (out *Out) {
	e.lastArr = nil
	e.frozen = nil
	if c.Mode == "c06" {
		return e.RunC06(c)
	}
	if c.Mode == "c09" {
		return e.RunC09(c)
	}
	out = &Out{ID: c.ID}
	var stream []byte
	if c.Mode == "readonly" {
		var err error
		stream, err = hex.DecodeString(c.Stream)
		if err != nil {
			panic(err)
		}
	} else {
		func() {
			defer func() {
				if r := recover(); r != nil {
					out.Panic = fmt.Sprint(r)
				}
			}()
			sink := &ChunkSink{}
			w, err := e.Roots[c.Root].NewWriter(sink, e.writerOpts(&c.Opts))
			if err != nil {
				out.WErr = err.Error()
				stream = sink.All
				return
			}
			wv := reflect.ValueOf(w)
			rec := wv.Elem().FieldByName("Record").Addr()
			rootT := &Type{K: "struct", ID: e.structID(c.Root)}
			for _, op := range c.Ops {
				switch op["op"].(string) {
				case "set":
					so := &setOpts{}
					if fz, ok := op["freeze"].(bool); ok {
						so.freeze = fz
					}
					if ru, ok := op["reuse"].(bool); ok {
						so.reuse = ru
					}
					if cp, ok := op["copy"].(bool); ok && cp {
						// the value is built in a detached record and handed over with CopyFrom
						e.lastArr = nil
						// (a fresh record of the same type; no second writer is created: NewWriter of a
						// wrapped root may write into the sink of the writer under test)
						tmp := reflect.New(rec.Type().Elem())
						call(tmp, "Init")
						e.set(rootT, tmp, op["v"], so)
						e.lastArr = nil
						call(rec, "CopyFrom", tmp)
					} else {
						e.set(rootT, rec, op["v"], so)
					}
				case "call":
					e.callOp(rec, op)
				case "w":
					out.Written = append(out.Written, e.DumpRoot(c.Root, rec))
					if err := call(wv, "Write")[0]; !err.IsNil() {
						out.WErr = err.Interface().(error).Error()
					}
				case "f":
					if err := call(wv, "Flush")[0]; !err.IsNil() {
						out.WErr = err.Interface().(error).Error()
					}
				}
			}
			out.WCount = call(wv, "RecordCount")[0].Uint()
			stream = sink.All
			for _, ch := range sink.Chunks {
				out.Chunks = append(out.Chunks, len(ch))
			}
		}()
	}
	out.Stream = hex.EncodeToString(stream)
	if _, frames, err := Frames(stream); err == nil || len(frames) > 0 {
		out.Frames = frames
	}
	var src io.Reader = bytes.NewReader(stream)
	if len(c.Sched) > 0 {
		src = &schedReader{b: append([]byte{}, stream...), sched: c.Sched}
	}
	out.Read = e.ReadAll(c.Root, src)
	if c.Transcode != "" && len(stream) > 0 {
		out.Trans = e.transcode(c, stream)
	}
	if len(c.Scheds) > 0 {
		out.Scheds = map[string]*ReadOut{}
		for name, sc := range c.Scheds {
			withEOF := false
			if len(sc) > 0 && sc[0] < 0 {
				withEOF = true
				sc = sc[1:]
			}
			out.Scheds[name] = e.ReadAll(c.Root, &schedReader{b: append([]byte{}, stream...), sched: sc, withEOF: withEOF})
		}
	}
	if c.Mode == "cuts" || len(c.Cuts) > 0 {
		out.Cuts = map[string]*ReadOut{}
		cuts := c.Cuts
		if len(cuts) == 0 {
			for i := 0; i < len(stream); i++ {
				cuts = append(cuts, i)
			}
		}
		for _, k := range cuts {
			if k >= 0 && k <= len(stream) {
				out.Cuts[strconv.Itoa(k)] = e.ReadAll(c.Root, bytes.NewReader(stream[:k]))
			}
		}
	}
	return out
}

// Main: argv[1] = schema json file; cases as JSON lines on stdin, results as JSON lines on stdout.
func Main(roots map[string]Root) {
	e := &Env{Roots: roots}
	b, err := os.ReadFile(os.Args[1])
	if err != nil {
		panic(err)
	}
	if err := json.Unmarshal(b, &e.Sch); err != nil {
		panic(err)
	}
	if len(os.Args) > 2 && os.Args[2] == "sizes" {
		fmt.Println(e.sizesLine())
		return
	}
	sc := bufio.NewScanner(os.Stdin)
	sc.Buffer(make([]byte, 1<<20), 1<<28)
	w := bufio.NewWriter(os.Stdout)
	defer w.Flush()
	for sc.Scan() {
		if len(sc.Bytes()) == 0 {
			continue
		}
		var c Case
		if err := json.Unmarshal(sc.Bytes(), &c); err != nil {
			panic(err)
		}
		out := e.RunCase(&c)
		j, _ := json.Marshal(out)
		w.Write(j)
		w.WriteString("\n")
	}
}

// sizes of generated struct types (unsafe.Sizeof through reflect), for the model's allocation accounting
func (e *Env) sizesLine() string {
	var parts []string
	seen := map[int]bool{}
	seenM := map[int]bool{}
	var walk func(t *Type, v reflect.Type)
	walk = func(t *Type, v reflect.Type) {
		// v is the pointer-to-generated type for composite t
		switch t.K {
		case "struct":
			if seen[t.ID] {
				return
			}
			seen[t.ID] = true
			parts = append(parts, fmt.Sprintf("%d:%d", t.ID, v.Elem().Size()))
			st := &e.Sch.Structs[t.ID]
			for i := range st.Fields {
				f := &st.Fields[i]
				if f.Type.K == "prim" {
					continue
				}
				m, ok := v.MethodByName(up(f.Name))
				if ok {
					walk(&f.Type, m.Type.Out(0))
				}
			}
		case "array":
			if t.Elem.K != "prim" {
				if m, ok := v.MethodByName("At"); ok {
					walk(t.Elem, m.Type.Out(0))
				}
			}
		case "multimap":
			if seenM[t.ID] {
				return
			}
			seenM[t.ID] = true
			mm := &e.Sch.Multimaps[t.ID]
			if mm.Key.K != "prim" {
				if m, ok := v.MethodByName("Key"); ok {
					walk(&mm.Key, m.Type.Out(0))
				}
			}
			if mm.Value.K != "prim" {
				if m, ok := v.MethodByName("Value"); ok {
					walk(&mm.Value, m.Type.Out(0))
				}
			}
		}
	}
	for name, r := range e.Roots {
		w, err := r.NewWriter(&ChunkSink{}, pkg.WriterOptions{})
		if err != nil {
			continue
		}
		rec := reflect.ValueOf(w).Elem().FieldByName("Record").Addr()
		walk(&Type{K: "struct", ID: e.structID(name)}, rec.Type())
	}
	sortStrings(parts)
	return strings.Join(parts, " ")
}
