// C03 harness: untrusted bytes -> New*Reader -> Read until error -> convert to OTLP, under recover,
// with a watchdog and allocation accounting. One JSON case per line.
package main

import (
	"bufio"
	"bytes"
	"encoding/hex"
	"encoding/json"
	"fmt"
	"io"
	"os"
	"runtime"
	"time"

	"github.com/splunk/stef/go/otel/otelstef"
	"github.com/splunk/stef/go/pdata/metrics"
	"github.com/splunk/stef/go/pkg"
)

type Case struct {
	ID     string `json:"id"`
	Root   string `json:"root"`
	Stream string `json:"stream"`
	File   string `json:"file"` // alternative to stream: path of a file holding the raw bytes (large inputs)
	TimeoutS int  `json:"timeout_s"` // watchdog for this case (default 20 s)
}

type Out struct {
	ID       string  `json:"id"`
	Open     string  `json:"open"`
	NRec     int     `json:"nrec"`
	Err      string  `json:"err"`
	Panic    string  `json:"panic,omitempty"`
	Conv     string  `json:"conv"`
	ConvPanic string `json:"conv_panic,omitempty"`
	AllocMB  float64 `json:"alloc_mb"`
	Ms       int64   `json:"ms"`
	Hang     bool    `json:"hang,omitempty"`
}

func errClass(err error) string {
	if err == nil {
		return ""
	}
	if err == io.EOF {
		return "eof"
	}
	return "err:" + err.Error()
}

func readAll(root string, data []byte, out *Out) {
	defer func() {
		if r := recover(); r != nil {
			out.Panic = fmt.Sprint(r)
		}
	}()
	if root == "Metrics" {
		rd, err := otelstef.NewMetricsReader(bytes.NewReader(data))
		if err != nil {
			out.Open = errClass(err)
			return
		}
		out.Open = "ok"
		for {
			if err := rd.Read(pkg.ReadOptions{}); err != nil {
				out.Err = errClass(err)
				return
			}
			out.NRec++
			if out.NRec > 2000000 {
				out.Err = "err:too many"
				return
			}
		}
	} else {
		rd, err := otelstef.NewSpansReader(bytes.NewReader(data))
		if err != nil {
			out.Open = errClass(err)
			return
		}
		out.Open = "ok"
		for {
			if err := rd.Read(pkg.ReadOptions{}); err != nil {
				out.Err = errClass(err)
				return
			}
			out.NRec++
			if out.NRec > 2000000 {
				out.Err = "err:too many"
				return
			}
		}
	}
}

func convert(data []byte, out *Out) {
	defer func() {
		if r := recover(); r != nil {
			out.ConvPanic = fmt.Sprint(r)
		}
	}()
	rd, err := otelstef.NewMetricsReader(bytes.NewReader(data))
	if err != nil {
		out.Conv = "open-" + errClass(err)
		return
	}
	var c metrics.StefToOtlpUnsorted
	_, err = c.Convert(rd, true)
	if err != nil {
		out.Conv = errClass(err)
	} else {
		out.Conv = "ok"
	}
}

func main() {
	sc := bufio.NewScanner(os.Stdin)
	sc.Buffer(make([]byte, 1<<20), 1<<28)
	w := bufio.NewWriter(os.Stdout)
	defer w.Flush()
	for sc.Scan() {
		if len(sc.Bytes()) == 0 {
			continue
		}
		var c Case
		if err := json.Unmarshal(sc.Bytes(), &c); err != nil {
			panic(err)
		}
		data, _ := hex.DecodeString(c.Stream)
		if c.File != "" {
			var err error
			if data, err = os.ReadFile(c.File); err != nil {
				panic(err)
			}
		}
		out := &Out{ID: c.ID}
		var m0, m1 runtime.MemStats
		runtime.GC()
		runtime.ReadMemStats(&m0)
		t0 := time.Now()
		done := make(chan struct{})
		go func() {
			readAll(c.Root, data, out)
			if c.Root == "Metrics" {
				convert(data, out)
			}
			close(done)
		}()
		select {
		case <-done:
		case <-time.After(time.Duration(max(c.TimeoutS, 20)) * time.Second):
			out.Hang = true
		}
		runtime.ReadMemStats(&m1)
		out.AllocMB = float64(m1.TotalAlloc-m0.TotalAlloc) / (1 << 20)
		out.Ms = time.Since(t0).Milliseconds()
		j, _ := json.Marshal(out)
		w.Write(j)
		w.WriteString("\n")
		w.Flush() // a fatal error in a later case must not lose the results already produced
		if out.Hang {
			os.Exit(3)
		}
	}
}
