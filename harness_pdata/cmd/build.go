package main

import (
	"go.opentelemetry.io/collector/pdata/pcommon"
	"go.opentelemetry.io/collector/pdata/pmetric"
	"go.opentelemetry.io/collector/pdata/ptrace"
)

// ---------------------------------------------------------------- values and attributes

func (p *parser) value(dst pcommon.Value) {
	t := p.peek()
	if t == "" {
		p.fail("empty token where a value is expected")
	}
	switch t[0] {
	case 'e':
		if t != "e" {
			p.fail("bad value token %q", t)
		}
		p.pos++ // stays Empty
	case 's':
		dst.SetStr(p.str())
	case 'b':
		dst.SetBool(p.boolean())
	case 'i':
		dst.SetInt(p.i64())
	case 'f':
		dst.SetDouble(p.f64())
	case 'y':
		dst.SetEmptyBytes().FromRaw(p.bytes())
	case 'L':
		p.expect("L")
		n := p.count()
		sl := dst.SetEmptySlice()
		for i := 0; i < n; i++ {
			p.value(sl.AppendEmpty())
		}
	case 'K':
		p.expect("K")
		n := p.count()
		m := dst.SetEmptyMap()
		for i := 0; i < n; i++ {
			k := p.str()
			p.value(m.PutEmpty(k))
		}
	default:
		p.fail("bad value token %q", t)
	}
}

func (p *parser) attrs(dst pcommon.Map) {
	p.expect("A")
	n := p.count()
	for i := 0; i < n; i++ {
		k := p.str()
		p.value(dst.PutEmpty(k))
	}
}

func (p *parser) traceID() pcommon.TraceID {
	var id pcommon.TraceID
	copy(id[:], p.bytesN(16))
	return id
}

func (p *parser) spanID() pcommon.SpanID {
	var id pcommon.SpanID
	copy(id[:], p.bytesN(8))
	return id
}

// ---------------------------------------------------------------- metrics

// buildMetrics parses `MB nres res*` starting at p.pos.
func (p *parser) buildMetrics() pmetric.Metrics {
	p.expect("MB")
	md := pmetric.NewMetrics()
	nres := p.count()
	for r := 0; r < nres; r++ {
		p.expect("R")
		rm := md.ResourceMetrics().AppendEmpty()
		rm.SetSchemaUrl(p.str())
		rm.Resource().SetDroppedAttributesCount(uint32(p.u64()))
		p.attrs(rm.Resource().Attributes())
		nscope := p.count()
		for s := 0; s < nscope; s++ {
			p.expect("S")
			sm := rm.ScopeMetrics().AppendEmpty()
			sm.Scope().SetName(p.str())
			sm.Scope().SetVersion(p.str())
			sm.SetSchemaUrl(p.str())
			sm.Scope().SetDroppedAttributesCount(uint32(p.u64()))
			p.attrs(sm.Scope().Attributes())
			nmetric := p.count()
			for m := 0; m < nmetric; m++ {
				p.metric(sm.Metrics().AppendEmpty())
			}
		}
	}
	if !p.done() {
		p.fail("trailing tokens")
	}
	return md
}

func temporality(v uint64) pmetric.AggregationTemporality {
	return pmetric.AggregationTemporality(int32(v))
}

func (p *parser) metric(m pmetric.Metric) {
	p.expect("T")
	m.SetName(p.str())
	m.SetDescription(p.str())
	m.SetUnit(p.str())
	p.attrs(m.Metadata())
	kind := p.next()
	switch kind {
	case "n":
		if n := p.count(); n != 0 {
			p.fail("metric of kind n must have 0 points")
		}
	case "g":
		g := m.SetEmptyGauge()
		n := p.count()
		for i := 0; i < n; i++ {
			p.numberPoint(g.DataPoints().AppendEmpty())
		}
	case "s":
		s := m.SetEmptySum()
		s.SetAggregationTemporality(temporality(p.u64()))
		s.SetIsMonotonic(p.boolean())
		n := p.count()
		for i := 0; i < n; i++ {
			p.numberPoint(s.DataPoints().AppendEmpty())
		}
	case "h":
		h := m.SetEmptyHistogram()
		h.SetAggregationTemporality(temporality(p.u64()))
		n := p.count()
		for i := 0; i < n; i++ {
			p.histogramPoint(h.DataPoints().AppendEmpty())
		}
	case "x":
		x := m.SetEmptyExponentialHistogram()
		x.SetAggregationTemporality(temporality(p.u64()))
		n := p.count()
		for i := 0; i < n; i++ {
			p.expHistogramPoint(x.DataPoints().AppendEmpty())
		}
	case "y":
		y := m.SetEmptySummary()
		n := p.count()
		for i := 0; i < n; i++ {
			p.summaryPoint(y.DataPoints().AppendEmpty())
		}
	default:
		p.pos--
		p.fail("bad metric kind %q", kind)
	}
}

func (p *parser) exemplars(dst pmetric.ExemplarSlice) {
	n := p.count()
	for i := 0; i < n; i++ {
		p.expect("Z")
		e := dst.AppendEmpty()
		e.SetTimestamp(pcommon.Timestamp(p.u64()))
		t := p.peek()
		switch {
		case t == "e":
			p.pos++
		case len(t) > 0 && t[0] == 'i':
			e.SetIntValue(p.i64())
		case len(t) > 0 && t[0] == 'f':
			e.SetDoubleValue(p.f64())
		default:
			p.fail("bad exemplar value %q", t)
		}
		e.SetTraceID(p.traceID())
		e.SetSpanID(p.spanID())
		p.attrs(e.FilteredAttributes())
	}
}

func (p *parser) numberPoint(dp pmetric.NumberDataPoint) {
	p.expect("P")
	dp.SetStartTimestamp(pcommon.Timestamp(p.u64()))
	dp.SetTimestamp(pcommon.Timestamp(p.u64()))
	dp.SetFlags(pmetric.DataPointFlags(uint32(p.u64())))
	t := p.peek()
	switch {
	case t == "e":
		p.pos++
	case len(t) > 0 && t[0] == 'i':
		dp.SetIntValue(p.i64())
	case len(t) > 0 && t[0] == 'f':
		dp.SetDoubleValue(p.f64())
	default:
		p.fail("bad number point value %q", t)
	}
	p.attrs(dp.Attributes())
	p.exemplars(dp.Exemplars())
}

func (p *parser) histogramPoint(dp pmetric.HistogramDataPoint) {
	p.expect("H")
	dp.SetStartTimestamp(pcommon.Timestamp(p.u64()))
	dp.SetTimestamp(pcommon.Timestamp(p.u64()))
	dp.SetFlags(pmetric.DataPointFlags(uint32(p.u64())))
	dp.SetCount(p.u64())
	if v, ok := p.optF64(); ok {
		dp.SetSum(v)
	}
	if v, ok := p.optF64(); ok {
		dp.SetMin(v)
	}
	if v, ok := p.optF64(); ok {
		dp.SetMax(v)
	}
	dp.BucketCounts().FromRaw(p.u64list())
	dp.ExplicitBounds().FromRaw(p.f64list())
	p.attrs(dp.Attributes())
	p.exemplars(dp.Exemplars())
}

func (p *parser) expHistogramPoint(dp pmetric.ExponentialHistogramDataPoint) {
	p.expect("X")
	dp.SetStartTimestamp(pcommon.Timestamp(p.u64()))
	dp.SetTimestamp(pcommon.Timestamp(p.u64()))
	dp.SetFlags(pmetric.DataPointFlags(uint32(p.u64())))
	dp.SetCount(p.u64())
	if v, ok := p.optF64(); ok {
		dp.SetSum(v)
	}
	if v, ok := p.optF64(); ok {
		dp.SetMin(v)
	}
	if v, ok := p.optF64(); ok {
		dp.SetMax(v)
	}
	dp.SetScale(int32(p.i64()))
	dp.SetZeroCount(p.u64())
	dp.SetZeroThreshold(p.f64())
	dp.Positive().SetOffset(int32(p.i64()))
	dp.Positive().BucketCounts().FromRaw(p.u64list())
	dp.Negative().SetOffset(int32(p.i64()))
	dp.Negative().BucketCounts().FromRaw(p.u64list())
	p.attrs(dp.Attributes())
	p.exemplars(dp.Exemplars())
}

func (p *parser) summaryPoint(dp pmetric.SummaryDataPoint) {
	p.expect("Y")
	dp.SetStartTimestamp(pcommon.Timestamp(p.u64()))
	dp.SetTimestamp(pcommon.Timestamp(p.u64()))
	dp.SetFlags(pmetric.DataPointFlags(uint32(p.u64())))
	dp.SetCount(p.u64())
	dp.SetSum(p.f64())
	nq := p.count()
	for i := 0; i < nq; i++ {
		q := dp.QuantileValues().AppendEmpty()
		q.SetQuantile(p.f64())
		q.SetValue(p.f64())
	}
	p.attrs(dp.Attributes())
}

// ---------------------------------------------------------------- traces

// buildTraces parses `TB nres res*` starting at p.pos.
func (p *parser) buildTraces() ptrace.Traces {
	p.expect("TB")
	td := ptrace.NewTraces()
	nres := p.count()
	for r := 0; r < nres; r++ {
		p.expect("R")
		rs := td.ResourceSpans().AppendEmpty()
		rs.SetSchemaUrl(p.str())
		rs.Resource().SetDroppedAttributesCount(uint32(p.u64()))
		p.attrs(rs.Resource().Attributes())
		nscope := p.count()
		for s := 0; s < nscope; s++ {
			p.expect("S")
			ss := rs.ScopeSpans().AppendEmpty()
			ss.Scope().SetName(p.str())
			ss.Scope().SetVersion(p.str())
			ss.SetSchemaUrl(p.str())
			ss.Scope().SetDroppedAttributesCount(uint32(p.u64()))
			p.attrs(ss.Scope().Attributes())
			nspans := p.count()
			for k := 0; k < nspans; k++ {
				p.span(ss.Spans().AppendEmpty())
			}
		}
	}
	if !p.done() {
		p.fail("trailing tokens")
	}
	return td
}

func (p *parser) span(sp ptrace.Span) {
	p.expect("N")
	sp.SetTraceID(p.traceID())
	sp.SetSpanID(p.spanID())
	sp.SetParentSpanID(p.spanID())
	sp.SetName(p.str())
	sp.SetFlags(uint32(p.u64()))
	sp.SetStartTimestamp(pcommon.Timestamp(p.u64()))
	sp.SetEndTimestamp(pcommon.Timestamp(p.u64()))
	sp.SetKind(ptrace.SpanKind(int32(p.u64())))
	sp.TraceState().FromRaw(p.str())
	p.attrs(sp.Attributes())
	sp.SetDroppedAttributesCount(uint32(p.u64()))
	sp.Status().SetCode(ptrace.StatusCode(int32(p.u64())))
	sp.Status().SetMessage(p.str())
	nev := p.count()
	for i := 0; i < nev; i++ {
		p.expect("V")
		ev := sp.Events().AppendEmpty()
		ev.SetName(p.str())
		ev.SetTimestamp(pcommon.Timestamp(p.u64()))
		p.attrs(ev.Attributes())
		ev.SetDroppedAttributesCount(uint32(p.u64()))
	}
	nlk := p.count()
	for i := 0; i < nlk; i++ {
		p.expect("L")
		lk := sp.Links().AppendEmpty()
		lk.SetTraceID(p.traceID())
		lk.SetSpanID(p.spanID())
		lk.TraceState().FromRaw(p.str())
		lk.SetFlags(uint32(p.u64()))
		p.attrs(lk.Attributes())
		lk.SetDroppedAttributesCount(uint32(p.u64()))
	}
}
