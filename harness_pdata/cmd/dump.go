package main

import (
	"encoding/hex"
	"math"
	"sort"
	"strconv"
	"strings"

	"go.opentelemetry.io/collector/pdata/pcommon"

	"github.com/splunk/stef/go/otel/otelstef"
)

// out is the canonical dump writer (syntax of /verif/harness/rt/rt.go).
type out struct{ sb strings.Builder }

func (o *out) raw(s string)   { o.sb.WriteString(s) }
func (o *out) String() string { return o.sb.String() }

func (o *out) b(v bool) {
	if v {
		o.sb.WriteString("b1")
	} else {
		o.sb.WriteString("b0")
	}
}

func (o *out) i(v int64) {
	o.sb.WriteByte('i')
	o.sb.WriteString(strconv.FormatInt(v, 10))
}

func (o *out) u(v uint64) {
	o.sb.WriteByte('u')
	o.sb.WriteString(strconv.FormatUint(v, 10))
}

const hexdigits = "0123456789abcdef"

func (o *out) f(v float64) {
	bits := math.Float64bits(v)
	var buf [17]byte
	buf[0] = 'f'
	for k := 0; k < 16; k++ {
		buf[1+k] = hexdigits[(bits>>(uint(15-k)*4))&0xf]
	}
	o.sb.Write(buf[:])
}

func (o *out) s(v string) {
	o.sb.WriteByte('s')
	o.sb.WriteString(hex.EncodeToString([]byte(v)))
}

func (o *out) sb_(v []byte) {
	o.sb.WriteByte('s')
	o.sb.WriteString(hex.EncodeToString(v))
}

func (o *out) optF(has bool, v float64) {
	if has {
		o.f(v)
	} else {
		o.sb.WriteByte('~')
	}
}

func (o *out) u64s(n int, at func(int) uint64) {
	o.raw("[")
	for k := 0; k < n; k++ {
		if k > 0 {
			o.raw(",")
		}
		o.u(at(k))
	}
	o.raw("]")
}

func (o *out) f64s(n int, at func(int) float64) {
	o.raw("[")
	for k := 0; k < n; k++ {
		if k > 0 {
			o.raw(",")
		}
		o.f(at(k))
	}
	o.raw("]")
}

// ---------------------------------------------------------------- STEF side

func (o *out) anyValue(v *otelstef.AnyValue) {
	if v == nil {
		o.raw("nil")
		return
	}
	switch v.Type() {
	case otelstef.AnyValueTypeNone:
		o.raw("<0>")
	case otelstef.AnyValueTypeString:
		o.raw("<1:")
		o.s(v.String())
		o.raw(">")
	case otelstef.AnyValueTypeBool:
		o.raw("<2:")
		o.b(v.Bool())
		o.raw(">")
	case otelstef.AnyValueTypeInt64:
		o.raw("<3:")
		o.i(v.Int64())
		o.raw(">")
	case otelstef.AnyValueTypeFloat64:
		o.raw("<4:")
		o.f(v.Float64())
		o.raw(">")
	case otelstef.AnyValueTypeArray:
		o.raw("<5:[")
		a := v.Array()
		for k := 0; k < a.Len(); k++ {
			if k > 0 {
				o.raw(",")
			}
			o.anyValue(a.At(k))
		}
		o.raw("]>")
	case otelstef.AnyValueTypeKVList:
		o.raw("<6:(")
		l := v.KVList()
		for k := 0; k < l.Len(); k++ {
			if k > 0 {
				o.raw(";")
			}
			o.s(l.Key(k))
			o.raw("=")
			o.anyValue(l.Value(k))
		}
		o.raw(")>")
	case otelstef.AnyValueTypeBytes:
		o.raw("<7:")
		o.s(string(v.Bytes()))
		o.raw(">")
	default:
		o.raw("<" + strconv.Itoa(int(v.Type())) + ":?>")
	}
}

func (o *out) stefAttrs(a *otelstef.Attributes) {
	if a == nil {
		o.raw("nil")
		return
	}
	o.raw("(")
	for k := 0; k < a.Len(); k++ {
		if k > 0 {
			o.raw(";")
		}
		o.s(a.Key(k))
		o.raw("=")
		o.anyValue(a.Value(k))
	}
	o.raw(")")
}

func (o *out) stefResource(r *otelstef.Resource) {
	if r == nil {
		o.raw("nil")
		return
	}
	o.raw("{")
	o.s(r.SchemaURL())
	o.raw(",")
	o.stefAttrs(r.Attributes())
	o.raw(",")
	o.u(r.DroppedAttributesCount())
	o.raw("}")
}

func (o *out) stefScope(s *otelstef.Scope) {
	if s == nil {
		o.raw("nil")
		return
	}
	o.raw("{")
	o.s(s.Name())
	o.raw(",")
	o.s(s.Version())
	o.raw(",")
	o.s(s.SchemaURL())
	o.raw(",")
	o.stefAttrs(s.Attributes())
	o.raw(",")
	o.u(s.DroppedAttributesCount())
	o.raw("}")
}

// ---------------------------------------------------------------- OTLP side

type kv struct {
	k string
	v pcommon.Value
}

func mapEntries(m pcommon.Map) []kv {
	r := make([]kv, 0, m.Len())
	m.Range(func(k string, v pcommon.Value) bool {
		r = append(r, kv{k, v})
		return true
	})
	return r
}

// otlpValue prints a pcommon.Value with the STEF AnyValue tags; nested maps keep Range order.
func (o *out) otlpValue(v pcommon.Value) {
	switch v.Type() {
	case pcommon.ValueTypeEmpty:
		o.raw("<0>")
	case pcommon.ValueTypeStr:
		o.raw("<1:")
		o.s(v.Str())
		o.raw(">")
	case pcommon.ValueTypeBool:
		o.raw("<2:")
		o.b(v.Bool())
		o.raw(">")
	case pcommon.ValueTypeInt:
		o.raw("<3:")
		o.i(v.Int())
		o.raw(">")
	case pcommon.ValueTypeDouble:
		o.raw("<4:")
		o.f(v.Double())
		o.raw(">")
	case pcommon.ValueTypeSlice:
		o.raw("<5:[")
		sl := v.Slice()
		for k := 0; k < sl.Len(); k++ {
			if k > 0 {
				o.raw(",")
			}
			o.otlpValue(sl.At(k))
		}
		o.raw("]>")
	case pcommon.ValueTypeMap:
		o.raw("<6:")
		o.otlpMap(v.Map(), false)
		o.raw(">")
	case pcommon.ValueTypeBytes:
		o.raw("<7:")
		o.sb_(v.Bytes().AsRaw())
		o.raw(">")
	default:
		o.raw("<" + strconv.Itoa(int(v.Type())) + ":?>")
	}
}

// otlpMap prints a map as a multimap; sorted=true orders the top-level entries by key
// (bytewise, stable), nested values are always printed in stored order.
func (o *out) otlpMap(m pcommon.Map, sorted bool) {
	es := mapEntries(m)
	if sorted {
		sort.SliceStable(es, func(a, b int) bool { return es[a].k < es[b].k })
	}
	o.raw("(")
	for k := range es {
		if k > 0 {
			o.raw(";")
		}
		o.s(es[k].k)
		o.raw("=")
		o.otlpValue(es[k].v)
	}
	o.raw(")")
}
