// Command go_pdata is the Go side of the OTLP<->STEF converter checks (go/pdata/metrics and
// go/pdata/traces). It reads one case per line on stdin and prints exactly one line per case.
// See parse.go / build.go for the token grammar and metrics.go / traces.go for the sections.
package main

import (
	"bufio"
	"encoding/hex"
	"fmt"
	"io"
	"os"
	"strings"
)

// sections accumulates `key=payload` items of the output line.
type sections struct{ items []string }

func (s *sections) add(key, payload string) { s.items = append(s.items, key+"="+payload) }

func (s *sections) line() string { return strings.Join(s.items, "\t") }

func hexText(s string) string { return hex.EncodeToString([]byte(s)) }

// guard runs f and turns its outcome into a status: ok, err:<hex>, panic:<hex>.
func guard(f func() error) (st string) {
	defer func() {
		if r := recover(); r != nil {
			if pe, ok := r.(parseErr); ok {
				st = "err:" + hexText("parse: "+pe.msg)
				return
			}
			st = "panic:" + hexText(fmt.Sprint(r))
		}
	}()
	if err := f(); err != nil {
		return "err:" + hexText(err.Error())
	}
	return "ok"
}

func processLine(line string) (res string) {
	var sec sections
	defer func() {
		// last resort: nothing below is expected to panic outside of guard()
		if r := recover(); r != nil {
			sec.add("fatal", "panic:"+hexText(fmt.Sprint(r)))
			res = sec.line()
		}
	}()
	toks := strings.Split(line, " ")
	if len(toks) < 2 {
		sec.add("parse", "err:"+hexText("parse: expected <cfgtoken> MB|TB ..."))
		return sec.line()
	}
	toks = toks[1:] // the configuration token is not used on the Go side
	switch toks[0] {
	case "MB":
		processMetrics(toks, &sec)
	case "TB":
		processTraces(toks, &sec)
	default:
		sec.add("parse", "err:"+hexText("parse: unknown batch kind "+toks[0]))
	}
	return sec.line()
}

func main() {
	in := bufio.NewReaderSize(os.Stdin, 1<<20)
	w := bufio.NewWriterSize(os.Stdout, 1<<20)
	defer w.Flush()
	for {
		line, err := in.ReadString('\n')
		if len(line) > 0 || err == nil {
			line = strings.TrimRight(line, "\r\n")
			if !(err != nil && line == "") {
				w.WriteString(processLine(line))
				w.WriteByte('\n')
				w.Flush()
			}
		}
		if err != nil {
			if err != io.EOF {
				fmt.Fprintln(os.Stderr, "go_pdata: read error:", err)
				os.Exit(1)
			}
			return
		}
	}
}
