package main

import (
	"bytes"
	"errors"
	"io"
	"strconv"
	"strings"

	"go.opentelemetry.io/collector/pdata/pcommon"
	"go.opentelemetry.io/collector/pdata/pmetric"

	"github.com/splunk/stef/go/otel/otelstef"
	"github.com/splunk/stef/go/pdata/metrics"
	"github.com/splunk/stef/go/pkg"
)

// ---------------------------------------------------------------- flatten (OTLP side)

func (o *out) otlpExemplars(es pmetric.ExemplarSlice) {
	o.raw("[")
	for k := 0; k < es.Len(); k++ {
		if k > 0 {
			o.raw(",")
		}
		e := es.At(k)
		o.raw("{")
		o.u(uint64(e.Timestamp()))
		o.raw(",")
		switch e.ValueType() {
		case pmetric.ExemplarValueTypeInt:
			o.raw("<1:")
			o.i(e.IntValue())
			o.raw(">")
		case pmetric.ExemplarValueTypeDouble:
			o.raw("<2:")
			o.f(e.DoubleValue())
			o.raw(">")
		default:
			o.raw("<0>")
		}
		o.raw(",")
		sid := e.SpanID()
		o.sb_(sid[:])
		o.raw(",")
		tid := e.TraceID()
		o.sb_(tid[:])
		o.raw(",")
		o.otlpMap(e.FilteredAttributes(), true)
		o.raw("}")
	}
	o.raw("]")
}

// temporality prints `u` followed by the int32 value of the enum as a plain number
// (in-range values 0..2 print as u0..u2; a negative value prints as u-1 etc.).
func (o *out) temporality(t pmetric.AggregationTemporality) {
	o.raw("u")
	o.raw(strconv.FormatInt(int64(int32(t)), 10))
}

func (o *out) otlpExpBuckets(b pmetric.ExponentialHistogramDataPointBuckets) {
	o.raw("{")
	o.i(int64(b.Offset()))
	o.raw(",")
	bc := b.BucketCounts()
	o.u64s(bc.Len(), bc.At)
	o.raw("}")
}

// flatten lists the fully qualified data points of md in tree order.
func flatten(md pmetric.Metrics) []string {
	var res []string
	rms := md.ResourceMetrics()
	for ri := 0; ri < rms.Len(); ri++ {
		rm := rms.At(ri)
		var ro out
		ro.raw("{")
		ro.s(rm.SchemaUrl())
		ro.raw(",")
		ro.otlpMap(rm.Resource().Attributes(), true)
		ro.raw(",")
		ro.u(uint64(rm.Resource().DroppedAttributesCount()))
		ro.raw("}")
		rstr := ro.String()

		sms := rm.ScopeMetrics()
		for si := 0; si < sms.Len(); si++ {
			sm := sms.At(si)
			var so out
			so.raw("{")
			so.s(sm.Scope().Name())
			so.raw(",")
			so.s(sm.Scope().Version())
			so.raw(",")
			so.s(sm.SchemaUrl())
			so.raw(",")
			so.otlpMap(sm.Scope().Attributes(), true)
			so.raw(",")
			so.u(uint64(sm.Scope().DroppedAttributesCount()))
			so.raw("}")
			sstr := so.String()

			ms := sm.Metrics()
			for mi := 0; mi < ms.Len(); mi++ {
				m := ms.At(mi)
				var mo out
				mo.raw("{")
				mo.s(m.Name())
				mo.raw(",")
				mo.s(m.Description())
				mo.raw(",")
				mo.s(m.Unit())
				mo.raw(",")
				mo.otlpMap(m.Metadata(), true)
				mo.raw(",")
				switch m.Type() {
				case pmetric.MetricTypeGauge:
					mo.raw("u0,~,~}")
				case pmetric.MetricTypeSum:
					mo.raw("u1,")
					mo.temporality(m.Sum().AggregationTemporality())
					mo.raw(",")
					mo.b(m.Sum().IsMonotonic())
					mo.raw("}")
				case pmetric.MetricTypeHistogram:
					mo.raw("u2,")
					mo.temporality(m.Histogram().AggregationTemporality())
					mo.raw(",~}")
				case pmetric.MetricTypeExponentialHistogram:
					mo.raw("u3,")
					mo.temporality(m.ExponentialHistogram().AggregationTemporality())
					mo.raw(",~}")
				case pmetric.MetricTypeSummary:
					mo.raw("u4,~,~}")
				default:
					continue // Empty metric: no points
				}
				prefix := "{" + rstr + "," + sstr + "," + mo.String() + ","

				emit := func(attrs pcommon.Map, start, ts pcommon.Timestamp, val func(o *out), ex func(o *out)) {
					var o out
					o.raw(prefix)
					o.otlpMap(attrs, true)
					o.raw(",")
					o.u(uint64(start))
					o.raw(",")
					o.u(uint64(ts))
					o.raw(",")
					val(&o)
					o.raw(",")
					ex(&o)
					o.raw("}")
					res = append(res, o.String())
				}

				numbers := func(dps pmetric.NumberDataPointSlice) {
					for k := 0; k < dps.Len(); k++ {
						dp := dps.At(k)
						emit(dp.Attributes(), dp.StartTimestamp(), dp.Timestamp(), func(o *out) {
							if dp.Flags().NoRecordedValue() {
								o.raw("<0>")
								return
							}
							switch dp.ValueType() {
							case pmetric.NumberDataPointValueTypeInt:
								o.raw("<1:")
								o.i(dp.IntValue())
								o.raw(">")
							case pmetric.NumberDataPointValueTypeDouble:
								o.raw("<2:")
								o.f(dp.DoubleValue())
								o.raw(">")
							default:
								o.raw("<0>")
							}
						}, func(o *out) { o.otlpExemplars(dp.Exemplars()) })
					}
				}

				switch m.Type() {
				case pmetric.MetricTypeGauge:
					numbers(m.Gauge().DataPoints())
				case pmetric.MetricTypeSum:
					numbers(m.Sum().DataPoints())
				case pmetric.MetricTypeHistogram:
					dps := m.Histogram().DataPoints()
					for k := 0; k < dps.Len(); k++ {
						dp := dps.At(k)
						emit(dp.Attributes(), dp.StartTimestamp(), dp.Timestamp(), func(o *out) {
							if dp.Flags().NoRecordedValue() {
								o.raw("<0>")
								return
							}
							o.raw("<3:{")
							o.u(dp.Count())
							o.raw(",")
							o.optF(dp.HasSum(), dp.Sum())
							o.raw(",")
							o.optF(dp.HasMin(), dp.Min())
							o.raw(",")
							o.optF(dp.HasMax(), dp.Max())
							o.raw(",")
							bc := dp.BucketCounts()
							o.u64s(bc.Len(), bc.At)
							o.raw(",")
							eb := dp.ExplicitBounds()
							o.f64s(eb.Len(), eb.At)
							o.raw("}>")
						}, func(o *out) { o.otlpExemplars(dp.Exemplars()) })
					}
				case pmetric.MetricTypeExponentialHistogram:
					dps := m.ExponentialHistogram().DataPoints()
					for k := 0; k < dps.Len(); k++ {
						dp := dps.At(k)
						emit(dp.Attributes(), dp.StartTimestamp(), dp.Timestamp(), func(o *out) {
							if dp.Flags().NoRecordedValue() {
								o.raw("<0>")
								return
							}
							o.raw("<4:{")
							o.u(dp.Count())
							o.raw(",")
							o.optF(dp.HasSum(), dp.Sum())
							o.raw(",")
							o.optF(dp.HasMin(), dp.Min())
							o.raw(",")
							o.optF(dp.HasMax(), dp.Max())
							o.raw(",")
							o.i(int64(dp.Scale()))
							o.raw(",")
							o.u(dp.ZeroCount())
							o.raw(",")
							o.otlpExpBuckets(dp.Positive())
							o.raw(",")
							o.otlpExpBuckets(dp.Negative())
							o.raw(",")
							o.f(dp.ZeroThreshold())
							o.raw("}>")
						}, func(o *out) { o.otlpExemplars(dp.Exemplars()) })
					}
				case pmetric.MetricTypeSummary:
					dps := m.Summary().DataPoints()
					for k := 0; k < dps.Len(); k++ {
						dp := dps.At(k)
						emit(dp.Attributes(), dp.StartTimestamp(), dp.Timestamp(), func(o *out) {
							if dp.Flags().NoRecordedValue() {
								o.raw("<0>")
								return
							}
							o.raw("<5:{")
							o.u(dp.Count())
							o.raw(",")
							o.f(dp.Sum())
							o.raw(",[")
							qs := dp.QuantileValues()
							for q := 0; q < qs.Len(); q++ {
								if q > 0 {
									o.raw(",")
								}
								o.raw("{")
								o.f(qs.At(q).Quantile())
								o.raw(",")
								o.f(qs.At(q).Value())
								o.raw("}")
							}
							o.raw("]}>")
						}, func(o *out) { o.raw("[]") })
					}
				}
			}
		}
	}
	return res
}

// ---------------------------------------------------------------- STEF record dump

func (o *out) stefExpBuckets(b *otelstef.ExpHistogramBuckets) {
	o.raw("{")
	o.i(b.Offset())
	o.raw(",")
	bc := b.BucketCounts()
	o.u64s(bc.Len(), bc.At)
	o.raw("}")
}

func (o *out) stefPoint(p *otelstef.Point) {
	if p == nil {
		o.raw("nil")
		return
	}
	o.raw("{")
	o.u(p.StartTimestamp())
	o.raw(",")
	o.u(p.Timestamp())
	o.raw(",")
	v := p.Value()
	switch v.Type() {
	case otelstef.PointValueTypeNone:
		o.raw("<0>")
	case otelstef.PointValueTypeInt64:
		o.raw("<1:")
		o.i(v.Int64())
		o.raw(">")
	case otelstef.PointValueTypeFloat64:
		o.raw("<2:")
		o.f(v.Float64())
		o.raw(">")
	case otelstef.PointValueTypeHistogram:
		h := v.Histogram()
		o.raw("<3:{")
		o.i(h.Count())
		o.raw(",")
		o.optF(h.HasSum(), h.Sum())
		o.raw(",")
		o.optF(h.HasMin(), h.Min())
		o.raw(",")
		o.optF(h.HasMax(), h.Max())
		o.raw(",")
		bc := h.BucketCounts()
		o.u64s(bc.Len(), bc.At)
		o.raw("}>")
	case otelstef.PointValueTypeExpHistogram:
		h := v.ExpHistogram()
		o.raw("<4:{")
		o.u(h.Count())
		o.raw(",")
		o.optF(h.HasSum(), h.Sum())
		o.raw(",")
		o.optF(h.HasMin(), h.Min())
		o.raw(",")
		o.optF(h.HasMax(), h.Max())
		o.raw(",")
		o.i(h.Scale())
		o.raw(",")
		o.u(h.ZeroCount())
		o.raw(",")
		o.stefExpBuckets(h.PositiveBuckets())
		o.raw(",")
		o.stefExpBuckets(h.NegativeBuckets())
		o.raw(",")
		o.f(h.ZeroThreshold())
		o.raw("}>")
	case otelstef.PointValueTypeSummary:
		s := v.Summary()
		o.raw("<5:{")
		o.u(s.Count())
		o.raw(",")
		o.f(s.Sum())
		o.raw(",[")
		qs := s.QuantileValues()
		for k := 0; k < qs.Len(); k++ {
			if k > 0 {
				o.raw(",")
			}
			o.raw("{")
			o.f(qs.At(k).Quantile())
			o.raw(",")
			o.f(qs.At(k).Value())
			o.raw("}")
		}
		o.raw("]}>")
	default:
		o.raw("<" + strconv.Itoa(int(v.Type())) + ":?>")
	}
	o.raw(",[")
	es := p.Exemplars()
	for k := 0; k < es.Len(); k++ {
		if k > 0 {
			o.raw(",")
		}
		e := es.At(k)
		o.raw("{")
		o.u(e.Timestamp())
		o.raw(",")
		switch e.Value().Type() {
		case otelstef.ExemplarValueTypeNone:
			o.raw("<0>")
		case otelstef.ExemplarValueTypeInt64:
			o.raw("<1:")
			o.i(e.Value().Int64())
			o.raw(">")
		case otelstef.ExemplarValueTypeFloat64:
			o.raw("<2:")
			o.f(e.Value().Float64())
			o.raw(">")
		default:
			o.raw("<" + strconv.Itoa(int(e.Value().Type())) + ":?>")
		}
		o.raw(",")
		o.s(string(e.SpanID()))
		o.raw(",")
		o.s(string(e.TraceID()))
		o.raw(",")
		o.stefAttrs(e.FilteredAttributes())
		o.raw("}")
	}
	o.raw("]}")
}

func (o *out) stefMetric(m *otelstef.Metric) {
	if m == nil {
		o.raw("nil")
		return
	}
	o.raw("{")
	o.s(m.Name())
	o.raw(",")
	o.s(m.Description())
	o.raw(",")
	o.s(m.Unit())
	o.raw(",")
	o.u(uint64(m.Type()))
	o.raw(",")
	o.stefAttrs(m.Metadata())
	o.raw(",")
	hb := m.HistogramBounds()
	o.f64s(hb.Len(), hb.At)
	o.raw(",")
	o.u(uint64(m.AggregationTemporality()))
	o.raw(",")
	o.b(m.Monotonic())
	o.raw("}")
}

func dumpMetricsRecord(r *otelstef.Metrics) string {
	var o out
	o.raw("{")
	o.stefMetric(r.Metric())
	o.raw(",")
	o.stefResource(r.Resource())
	o.raw(",")
	o.stefScope(r.Scope())
	o.raw(",")
	o.stefAttrs(r.Attributes())
	o.raw(",")
	o.stefPoint(r.Point())
	o.raw("}")
	return o.String()
}

// ---------------------------------------------------------------- driver

// firstErr keeps the first non-ok status.
type firstErr struct{ st string }

func (f *firstErr) add(st string) {
	if f.st == "" && st != "ok" {
		f.st = st
	}
}

func (f *firstErr) String() string {
	if f.st == "" {
		return "ok"
	}
	return f.st
}

func metricsConverterSections(prefix string, sorted bool, toks []string, sec *sections) {
	empty := func(keys ...string) {
		for _, k := range keys {
			sec.add(prefix+k, "")
		}
	}

	var buf *pkg.MemChunkWriter
	var writer *otelstef.MetricsWriter
	st := guard(func() error {
		p := &parser{toks: toks}
		src := p.buildMetrics()
		buf = &pkg.MemChunkWriter{}
		var err error
		writer, err = otelstef.NewMetricsWriter(buf, pkg.WriterOptions{})
		if err != nil {
			return err
		}
		return metrics.NewOtlpToStef(sorted).Convert(src, writer)
	})
	sec.add(prefix+"status", st)
	if st != "ok" {
		empty("n", "recs", "flags", "bstatus", "fu", "fs")
		return
	}

	var bst firstErr
	var n uint64
	bst.add(guard(func() error {
		n = writer.RecordCount()
		return writer.Flush()
	}))
	sec.add(prefix+"n", strconv.FormatUint(n, 10))
	data := buf.Bytes()

	// read all the records
	var recs, flags []string
	bst.add(guard(func() error {
		reader, err := otelstef.NewMetricsReader(bytes.NewBuffer(data))
		if err != nil {
			return err
		}
		for {
			err := reader.Read(pkg.ReadOptions{})
			if err != nil {
				if errors.Is(err, io.EOF) {
					return nil
				}
				return err
			}
			rec := &reader.Record
			fl := 0
			if rec.IsMetricModified() {
				fl |= 1
			}
			if rec.IsResourceModified() {
				fl |= 2
			}
			if rec.IsScopeModified() {
				fl |= 4
			}
			recs = append(recs, dumpMetricsRecord(rec))
			flags = append(flags, strconv.Itoa(fl))
		}
	}))
	sec.add(prefix+"recs", strings.Join(recs, " "))
	sec.add(prefix+"flags", strings.Join(flags, " "))

	wayBack := func(conv func() metrics.StefToOtlp) []string {
		var flat []string
		st := guard(func() error {
			reader, err := otelstef.NewMetricsReader(bytes.NewBuffer(data))
			if err != nil {
				return err
			}
			md, err := conv().Convert(reader, true)
			if err != nil {
				// a stream without records: the very first Read reports io.EOF
				if errors.Is(err, io.EOF) && n == 0 {
					return nil
				}
				return err
			}
			flat = flatten(md)
			return nil
		})
		if st != "ok" {
			flat = nil
		}
		bst.add(st)
		return flat
	}
	fu := wayBack(func() metrics.StefToOtlp { return &metrics.StefToOtlpUnsorted{} })
	fs := wayBack(metrics.NewStefToOtlpSortedForVerif)

	sec.add(prefix+"bstatus", bst.String())
	sec.add(prefix+"fu", strings.Join(fu, " "))
	sec.add(prefix+"fs", strings.Join(fs, " "))
}

func processMetrics(toks []string, sec *sections) {
	var count int
	var flat []string
	st := guard(func() error {
		p := &parser{toks: toks}
		src := p.buildMetrics()
		count = src.DataPointCount()
		flat = flatten(src)
		return nil
	})
	if st != "ok" {
		sec.add("parse", st)
		return
	}
	sec.add("in.count", strconv.Itoa(count))
	sec.add("in.flat", strings.Join(flat, " "))
	metricsConverterSections("u.", false, toks, sec)
	metricsConverterSections("s.", true, toks, sec)
}
