package main

import (
	"encoding/hex"
	"fmt"
	"math"
	"strconv"
)

// parser walks over the space separated tokens of one input line. Every syntax problem is
// reported with panic(parseErr{...}); the callers recover.
type parser struct {
	toks []string
	pos  int
}

type parseErr struct{ msg string }

func (e parseErr) Error() string { return e.msg }

func (p *parser) fail(format string, a ...any) {
	panic(parseErr{fmt.Sprintf("token %d: ", p.pos) + fmt.Sprintf(format, a...)})
}

func (p *parser) peek() string {
	if p.pos >= len(p.toks) {
		p.fail("unexpected end of line")
	}
	return p.toks[p.pos]
}

func (p *parser) next() string {
	t := p.peek()
	p.pos++
	return t
}

func (p *parser) done() bool { return p.pos >= len(p.toks) }

// expect consumes a token that must be exactly lit.
func (p *parser) expect(lit string) {
	t := p.next()
	if t != lit {
		p.pos--
		p.fail("expected %q, got %q", lit, t)
	}
}

// count: plain decimal.
func (p *parser) count() int {
	t := p.next()
	n, err := strconv.ParseUint(t, 10, 31)
	if err != nil {
		p.pos--
		p.fail("bad count %q", t)
	}
	return int(n)
}

func (p *parser) prefixed(c byte, what string) string {
	t := p.next()
	if len(t) == 0 || t[0] != c {
		p.pos--
		p.fail("expected %s (%c...), got %q", what, c, t)
	}
	return t[1:]
}

func (p *parser) unhex(h string) []byte {
	b, err := hex.DecodeString(h)
	if err != nil {
		p.pos--
		p.fail("bad hex %q", h)
	}
	return b
}

func (p *parser) str() string { return string(p.unhex(p.prefixed('s', "str"))) }

func (p *parser) bytes() []byte { return p.unhex(p.prefixed('y', "bytes")) }

func (p *parser) bytesN(n int) []byte {
	b := p.bytes()
	if len(b) != n {
		p.pos--
		p.fail("expected %d bytes, got %d", n, len(b))
	}
	return b
}

func (p *parser) u64() uint64 {
	t := p.prefixed('u', "uint")
	v, err := strconv.ParseUint(t, 10, 64)
	if err != nil {
		p.pos--
		p.fail("bad uint %q", t)
	}
	return v
}

func (p *parser) i64() int64 {
	t := p.prefixed('i', "int")
	v, err := strconv.ParseInt(t, 10, 64)
	if err != nil {
		p.pos--
		p.fail("bad int %q", t)
	}
	return v
}

func parseF64(t string) (float64, bool) {
	if len(t) != 16 {
		return 0, false
	}
	v, err := strconv.ParseUint(t, 16, 64)
	if err != nil {
		return 0, false
	}
	return math.Float64frombits(v), true
}

func (p *parser) f64() float64 {
	t := p.prefixed('f', "float")
	v, ok := parseF64(t)
	if !ok {
		p.pos--
		p.fail("bad float %q", t)
	}
	return v
}

func (p *parser) boolean() bool {
	t := p.next()
	switch t {
	case "b0":
		return false
	case "b1":
		return true
	}
	p.pos--
	p.fail("bad bool %q", t)
	return false
}

// optF64: `~` (not set) or a float.
func (p *parser) optF64() (float64, bool) {
	if p.peek() == "~" {
		p.pos++
		return 0, false
	}
	return p.f64(), true
}

// listLen reads the count of a list of single-token items (bounded by the remaining tokens,
// so that a bogus count cannot make us allocate).
func (p *parser) listLen() int {
	n := p.count()
	if n > len(p.toks)-p.pos {
		p.pos--
		p.fail("list of %d items but only %d tokens left", n, len(p.toks)-p.pos-1)
	}
	return n
}

func (p *parser) u64list() []uint64 {
	n := p.listLen()
	r := make([]uint64, n)
	for i := range r {
		r[i] = p.u64()
	}
	return r
}

func (p *parser) f64list() []float64 {
	n := p.listLen()
	r := make([]float64, n)
	for i := range r {
		r[i] = p.f64()
	}
	return r
}
