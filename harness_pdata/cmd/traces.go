package main

import (
	"bytes"
	"encoding/hex"
	"errors"
	"io"
	"strconv"
	"strings"

	"go.opentelemetry.io/collector/pdata/ptrace"

	"github.com/splunk/stef/go/otel/otelstef"
	"github.com/splunk/stef/go/pdata/traces"
	"github.com/splunk/stef/go/pkg"
)

// ---------------------------------------------------------------- spec image (OTLP side)

// idText is the lowercase hex text of an id, or "" when the id is all zero.
func idText(id []byte) string {
	zero := true
	for _, c := range id {
		if c != 0 {
			zero = false
			break
		}
	}
	if zero {
		return ""
	}
	return hex.EncodeToString(id)
}

// spanImages returns the spec image of every span in tree order, in the STEF spans record
// dump syntax. sortSpanAttrs orders the span level attributes by key.
func spanImages(td ptrace.Traces, sortSpanAttrs bool) []string {
	var res []string
	rss := td.ResourceSpans()
	for ri := 0; ri < rss.Len(); ri++ {
		rs := rss.At(ri)
		var ro out
		ro.raw("{")
		ro.s(rs.SchemaUrl())
		ro.raw(",")
		ro.otlpMap(rs.Resource().Attributes(), false)
		ro.raw(",")
		ro.u(uint64(rs.Resource().DroppedAttributesCount()))
		ro.raw("}")
		rstr := ro.String()

		sss := rs.ScopeSpans()
		for si := 0; si < sss.Len(); si++ {
			ss := sss.At(si)
			var so out
			so.raw("{")
			so.s(ss.Scope().Name())
			so.raw(",")
			so.s(ss.Scope().Version())
			so.raw(",")
			so.s(ss.SchemaUrl())
			so.raw(",")
			so.otlpMap(ss.Scope().Attributes(), false)
			so.raw(",")
			so.u(uint64(ss.Scope().DroppedAttributesCount()))
			so.raw("}")
			sstr := so.String()

			sps := ss.Spans()
			for k := 0; k < sps.Len(); k++ {
				sp := sps.At(k)
				var o out
				o.raw("{" + rstr + "," + sstr + ",{")
				tid := sp.TraceID()
				sid := sp.SpanID()
				pid := sp.ParentSpanID()
				o.s(idText(tid[:]))
				o.raw(",")
				o.s(idText(sid[:]))
				o.raw(",")
				o.s(sp.TraceState().AsRaw())
				o.raw(",")
				o.s(idText(pid[:]))
				o.raw(",")
				o.u(uint64(sp.Flags()))
				o.raw(",")
				o.s(sp.Name())
				o.raw(",")
				o.u(uint64(int32(sp.Kind())))
				o.raw(",")
				o.u(uint64(sp.StartTimestamp()))
				o.raw(",")
				o.u(uint64(sp.EndTimestamp()))
				o.raw(",")
				o.otlpMap(sp.Attributes(), sortSpanAttrs)
				o.raw(",")
				o.u(uint64(sp.DroppedAttributesCount()))
				o.raw(",[")
				evs := sp.Events()
				for e := 0; e < evs.Len(); e++ {
					if e > 0 {
						o.raw(",")
					}
					ev := evs.At(e)
					o.raw("{")
					o.s(ev.Name())
					o.raw(",")
					o.u(uint64(ev.Timestamp()))
					o.raw(",")
					o.otlpMap(ev.Attributes(), false)
					o.raw(",")
					o.u(uint64(ev.DroppedAttributesCount()))
					o.raw("}")
				}
				o.raw("],[")
				lks := sp.Links()
				for l := 0; l < lks.Len(); l++ {
					if l > 0 {
						o.raw(",")
					}
					lk := lks.At(l)
					ltid := lk.TraceID()
					lsid := lk.SpanID()
					o.raw("{")
					o.s(idText(ltid[:]))
					o.raw(",")
					o.s(idText(lsid[:]))
					o.raw(",")
					o.s(lk.TraceState().AsRaw())
					o.raw(",")
					o.u(uint64(lk.Flags()))
					o.raw(",")
					o.otlpMap(lk.Attributes(), false)
					o.raw(",")
					o.u(uint64(lk.DroppedAttributesCount()))
					o.raw("}")
				}
				o.raw("],{")
				o.s(sp.Status().Message())
				o.raw(",")
				o.u(uint64(int32(sp.Status().Code())))
				o.raw("}}}")
				res = append(res, o.String())
			}
		}
	}
	return res
}

// ---------------------------------------------------------------- STEF record dump

func (o *out) stefSpan(sp *otelstef.Span) {
	if sp == nil {
		o.raw("nil")
		return
	}
	o.raw("{")
	o.s(string(sp.TraceID()))
	o.raw(",")
	o.s(string(sp.SpanID()))
	o.raw(",")
	o.s(sp.TraceState())
	o.raw(",")
	o.s(string(sp.ParentSpanID()))
	o.raw(",")
	o.u(sp.Flags())
	o.raw(",")
	o.s(sp.Name())
	o.raw(",")
	o.u(uint64(sp.Kind()))
	o.raw(",")
	o.u(sp.StartTimeUnixNano())
	o.raw(",")
	o.u(sp.EndTimeUnixNano())
	o.raw(",")
	o.stefAttrs(sp.Attributes())
	o.raw(",")
	o.u(sp.DroppedAttributesCount())
	o.raw(",[")
	evs := sp.Events()
	for k := 0; k < evs.Len(); k++ {
		if k > 0 {
			o.raw(",")
		}
		ev := evs.At(k)
		o.raw("{")
		o.s(ev.Name())
		o.raw(",")
		o.u(ev.TimeUnixNano())
		o.raw(",")
		o.stefAttrs(ev.Attributes())
		o.raw(",")
		o.u(ev.DroppedAttributesCount())
		o.raw("}")
	}
	o.raw("],[")
	lks := sp.Links()
	for k := 0; k < lks.Len(); k++ {
		if k > 0 {
			o.raw(",")
		}
		lk := lks.At(k)
		o.raw("{")
		o.s(string(lk.TraceID()))
		o.raw(",")
		o.s(string(lk.SpanID()))
		o.raw(",")
		o.s(lk.TraceState())
		o.raw(",")
		o.u(lk.Flags())
		o.raw(",")
		o.stefAttrs(lk.Attributes())
		o.raw(",")
		o.u(lk.DroppedAttributesCount())
		o.raw("}")
	}
	o.raw("],{")
	o.s(sp.Status().Message())
	o.raw(",")
	o.u(sp.Status().Code())
	o.raw("}}")
}

func dumpSpansRecord(r *otelstef.Spans) string {
	var o out
	o.raw("{")
	o.stefResource(r.Resource())
	o.raw(",")
	o.stefScope(r.Scope())
	o.raw(",")
	o.stefSpan(r.Span())
	o.raw("}")
	return o.String()
}

// ---------------------------------------------------------------- driver

func tracesConverterSections(prefix string, sorted bool, toks []string, sec *sections) {
	var buf *pkg.MemChunkWriter
	var writer *otelstef.SpansWriter
	st := guard(func() error {
		p := &parser{toks: toks}
		src := p.buildTraces() // fresh copy: Convert mutates its input in sorted mode
		buf = &pkg.MemChunkWriter{}
		var err error
		writer, err = otelstef.NewSpansWriter(buf, pkg.WriterOptions{})
		if err != nil {
			return err
		}
		conv := &traces.OtlpToStefUnsorted{Sorted: sorted}
		return conv.Convert(src, writer)
	})
	sec.add(prefix+"status", st)
	if st != "ok" {
		sec.add(prefix+"n", "")
		sec.add(prefix+"recs", "")
		sec.add(prefix+"rstatus", "")
		return
	}

	var rst firstErr
	var n uint64
	rst.add(guard(func() error {
		n = writer.RecordCount()
		return writer.Flush()
	}))
	sec.add(prefix+"n", strconv.FormatUint(n, 10))

	var recs []string
	rst.add(guard(func() error {
		reader, err := otelstef.NewSpansReader(bytes.NewBuffer(buf.Bytes()))
		if err != nil {
			return err
		}
		for {
			err := reader.Read(pkg.ReadOptions{})
			if err != nil {
				if errors.Is(err, io.EOF) {
					return nil
				}
				return err
			}
			recs = append(recs, dumpSpansRecord(&reader.Record))
		}
	}))
	sec.add(prefix+"recs", strings.Join(recs, " "))
	// extra section (not in the original list): status of Flush + reading back
	sec.add(prefix+"rstatus", rst.String())
}

func processTraces(toks []string, sec *sections) {
	var count int
	var img, imgs []string
	st := guard(func() error {
		p := &parser{toks: toks}
		src := p.buildTraces()
		count = src.SpanCount()
		img = spanImages(src, false)
		imgs = spanImages(src, true)
		return nil
	})
	if st != "ok" {
		sec.add("parse", st)
		return
	}
	sec.add("in.count", strconv.Itoa(count))
	sec.add("in.img", strings.Join(img, " "))
	sec.add("in.imgs", strings.Join(imgs, " "))
	tracesConverterSections("u.", false, toks, sec)
	tracesConverterSections("s.", true, toks, sec)
}
