//go:build verif

package metrics

// NewStefToOtlpSortedForVerif exposes the unexported sorting STEF->OTLP converter to the
// verification harness. This file is injected with `go build -overlay` and never lives in /repo.
func NewStefToOtlpSortedForVerif() StefToOtlp { return &stefToOtlpSorted{} }
