#!/usr/bin/env python3
"""Writes sample_inputs.txt: hand made cases for /verif/build/go_pdata (token grammar in cmd/*.go)."""
import os
import struct


def s(t):
    return "s" + (t.encode() if isinstance(t, str) else t).hex()


def y(b):
    return "y" + b.hex()


def u(v):
    return "u%d" % v


def i(v):
    return "i%d" % v


def f(v):
    return "f%016x" % struct.unpack(">Q", struct.pack(">d", v))[0]


def fbits(bits):
    return "f%016x" % bits


def L(*vals):
    return " ".join(["L", str(len(vals))] + list(vals))


def K(*kvs):
    return " ".join(["K", str(len(kvs))] + ["%s %s" % (s(k), v) for k, v in kvs])


def A(*kvs):
    return " ".join(["A", str(len(kvs))] + ["%s %s" % (s(k), v) for k, v in kvs])


def lst(items):
    return " ".join([str(len(items))] + list(items))


def R(url, dropped, attrs, scopes):
    return " ".join(["R", s(url), u(dropped), attrs, lst(scopes)])


def S(name, ver, url, dropped, attrs, items):
    return " ".join(["S", s(name), s(ver), s(url), u(dropped), attrs, lst(items)])


def T(name, desc, unit, meta, kind, points):
    return " ".join(["T", s(name), s(desc), s(unit), meta, kind, lst(points)])


def Z(ts, val, tid, sid, attrs):
    return " ".join(["Z", u(ts), val, y(tid), y(sid), attrs])


def P(start, ts, flags, val, attrs, ex=()):
    return " ".join(["P", u(start), u(ts), u(flags), val, attrs, lst(list(ex))])


def opt(v):
    return "~" if v is None else f(v)


def H(start, ts, flags, count, sm, mn, mx, buckets, bounds, attrs, ex=()):
    return " ".join(["H", u(start), u(ts), u(flags), u(count), opt(sm), opt(mn), opt(mx),
                     lst([u(b) for b in buckets]), lst([f(b) for b in bounds]), attrs, lst(list(ex))])


def X(start, ts, flags, count, sm, mn, mx, scale, zc, zt, poff, pos, noff, neg, attrs, ex=()):
    return " ".join(["X", u(start), u(ts), u(flags), u(count), opt(sm), opt(mn), opt(mx), i(scale), u(zc), f(zt),
                     i(poff), lst([u(b) for b in pos]), i(noff), lst([u(b) for b in neg]), attrs, lst(list(ex))])


def Y(start, ts, flags, count, sm, qs, attrs):
    return " ".join(["Y", u(start), u(ts), u(flags), u(count), f(sm),
                     lst(["%s %s" % (f(q), f(v)) for q, v in qs]), attrs])


def MB(*res):
    return "cfg0 MB " + lst(list(res))


def N(tid, sid, pid, name, flags, start, end, kind, ts, attrs, dropped, code, msg, events=(), links=()):
    return " ".join(["N", y(tid), y(sid), y(pid), s(name), u(flags), u(start), u(end), u(kind), s(ts), attrs,
                     u(dropped), u(code), s(msg), lst(list(events)), lst(list(links))])


def V(name, t, attrs, dropped):
    return " ".join(["V", s(name), u(t), attrs, u(dropped)])


def LK(tid, sid, ts, flags, attrs, dropped):
    return " ".join(["L", y(tid), y(sid), s(ts), u(flags), attrs, u(dropped)])


def TB(*res):
    return "cfg0 TB " + lst(list(res))


TID = bytes(range(1, 17))
TID2 = bytes(range(0x21, 0x31))
SID = bytes(range(0xa1, 0xa9))
SID2 = bytes(range(0xb1, 0xb9))
Z8 = bytes(8)
Z16 = bytes(16)
E = A()

lines = []

# 1. gauge, two int points, attributes incl. nested map with 2 entries and a slice
lines.append(MB(R("https://schema/r", 1, A(("service.name", s("svc")), ("host", s("h1"))), [
    S("scope", "1.0", "https://schema/s", 2, A(("sk", b"b1".decode())), [
        T("cpu", "cpu usage", "1", A(("md", s("x"))), "g", [
            P(100, 200, 0, i(5), A(("z", s("last")), ("m", K(("k1", i(1)), ("k2", s("two")))),
                                     ("l", L(i(1), f(2.5), "e", y(b"\x00\xff"))))),
            P(100, 300, 0, i(-7), A(("z", s("last")), ("m", K(("k1", i(1)), ("k2", s("two")))),
                                      ("l", L(i(1), f(2.5), "e", y(b"\x00\xff"))))),
        ])])])))

# 2. histogram with min/max, sum absent, two points with different bounds
lines.append(MB(R("", 0, E, [S("", "", "", 0, E, [
    T("lat", "", "ms", E, "h u2", [
        H(1, 2, 0, 6, None, 0.5, 9.0, [1, 2, 3], [1.0, 5.0], A(("a", s("b")))),
        H(1, 3, 0, 3, 4.0, None, None, [1, 2], [2.0], A(("a", s("b")))),
    ])])])))

# 3. summary
lines.append(MB(R("", 0, E, [S("sc", "", "", 0, E, [
    T("sum", "d", "u", E, "y", [
        Y(10, 20, 0, 4, 10.5, [(0.5, 1.0), (0.99, 7.0)], A(("q", i(1)))),
    ])])])))

# 4. sum with exemplars (int, double, empty value) and NaN payload value
lines.append(MB(R("", 0, E, [S("sc", "", "", 0, E, [
    T("req", "", "", E, "s u2 b1", [
        P(5, 6, 0, fbits(0x7ff8000000000123), A(("b", s("2")), ("a", s("1"))), [
            Z(7, i(3), TID, SID, A(("y", s("2")), ("x", s("1")))),
            Z(8, f(1.5), Z16, Z8, E),
            Z(9, "e", TID2, SID2, E),
        ]),
    ])])])))

# 5. exponential histogram; a batch with an Empty-typed metric (Convert fails); gauge points without
#    value / with the NoRecordedValue flag (and an exemplar on the flagged point)
lines.append(MB(R("", 0, E, [S("sc", "", "", 0, E, [
    T("eh", "", "", E, "x u1", [
        X(1, 2, 0, 10, 3.5, None, 8.0, -2, 1, 0.001, 3, [1, 2, 3], -4, [], A(("k", "b0"))),
        X(1, 3, 1, 10, 3.5, None, 8.0, -2, 1, 0.001, 3, [1, 2, 3], -4, [], A(("k", "b0"))),
    ]),
])])))
lines.append(MB(R("", 0, E, [S("sc", "", "", 0, E, [
    T("nothing", "", "", E, "n", []),
    T("g2", "", "", E, "g", [P(0, 3, 0, i(10), E)]),
])])))
lines.append(MB(R("", 0, E, [S("sc", "", "", 0, E, [
    T("g2", "", "", E, "g", [
        P(0, 1, 0, "e", E),
        P(0, 2, 1, i(9), E, [Z(8, f(1.5), TID, SID, E)]),
        P(0, 3, 0, i(10), E),
    ]),
])])))

# 6. two resources with the same metric, repeated attrs, out of order timestamps (sorting visible)
pt = lambda ts, v, a: P(0, ts, 0, i(v), A(("a", s(a))))
lines.append(MB(
    R("", 0, A(("r", s("2"))), [S("sc", "", "", 0, E, [T("m", "", "", E, "g", [pt(30, 1, "x"), pt(10, 2, "x"), pt(20, 3, "y")])])]),
    R("", 0, A(("r", s("1"))), [S("sc", "", "", 0, E, [T("m", "", "", E, "g", [pt(5, 4, "x")]),
                                                        T("b", "", "", E, "g", [pt(6, 5, "x")])])]),
))

# 7. invalid temporality, histogram with mismatching bucket/bounds, empty batch
lines.append(MB(R("", 0, E, [S("", "", "", 0, E, [T("bad", "", "", E, "s u7 b0", [P(0, 1, 0, i(1), E)])])])))
lines.append(MB(R("", 0, E, [S("", "", "", 0, E, [T("bad", "", "", E, "h u0", [H(0, 1, 0, 1, None, None, None, [1], [1.0], E)])])])))
lines.append(MB())

# 8. traces: 2 resources, events, links
sp1 = N(TID, SID, Z8, "root", 1, 100, 200, 2, "k=v", A(("z", s("1")), ("a", K(("n1", i(1)), ("n2", i(2))))), 3, 2, "boom",
        [V("ev1", 150, A(("e", s("1"))), 1), V("ev2", 160, E, 0)],
        [LK(TID2, SID2, "ts", 5, A(("l", "b1")), 2), LK(Z16, Z8, "", 0, E, 0)])
sp2 = N(TID, SID2, SID, "child", 0, 120, 180, 3, "", E, 0, 0, "")
sp3 = N(TID2, SID, Z8, "other", 0, 50, 60, 0, "", A(("b", i(2)), ("a", i(1))), 0, 1, "")
lines.append(TB(
    R("https://r", 4, A(("svc", s("B"))), [S("lib", "2", "https://s", 5, A(("sa", i(1))), [sp1, sp2])]),
    R("", 0, A(("svc", s("A"))), [S("lib", "1", "", 0, E, [sp3]), S("lib", "1", "", 0, E, [sp2])]),
))
lines.append(TB())

# 9. malformed
lines.append("cfg0 MB 1 R s u0 A 0 1 S")
lines.append("cfg0 QQ")
lines.append("")

with open(os.path.join(os.path.dirname(os.path.abspath(__file__)), "sample_inputs.txt"), "w") as fh:
    for l in lines:
        fh.write(l + "\n")
