(* Conversions between OCaml/Zarith values and the extracted Coq datatypes. *)
module BigZ = Z
open Model

let rec pos_of_z (z : BigZ.t) : positive =
  if BigZ.equal z BigZ.one then XH
  else if BigZ.testbit z 0 then XI (pos_of_z (BigZ.shift_right z 1))
  else XO (pos_of_z (BigZ.shift_right z 1))
let n_of_z (z : BigZ.t) : n = if BigZ.sign z <= 0 then N0 else Npos (pos_of_z z)
let rec z_of_pos = function
  | XH -> BigZ.one
  | XO p -> BigZ.shift_left (z_of_pos p) 1
  | XI p -> BigZ.succ (BigZ.shift_left (z_of_pos p) 1)
let z_of_n = function N0 -> BigZ.zero | Npos p -> z_of_pos p
let cz_of_z (z : BigZ.t) : Model.z =
  if BigZ.sign z = 0 then Z0 else if BigZ.sign z > 0 then Zpos (pos_of_z z) else Zneg (pos_of_z (BigZ.neg z))
let z_of_cz = function Z0 -> BigZ.zero | Zpos p -> z_of_pos p | Zneg p -> BigZ.neg (z_of_pos p)
let rec nat_of_int i = if i <= 0 then O else S (nat_of_int (i - 1))
let rec int_of_nat = function O -> 0 | S n -> 1 + int_of_nat n
let n_of_int i = n_of_z (BigZ.of_int i)
let int_of_n x = BigZ.to_int (z_of_n x)

let bytes_of_hex (h : string) : n list =
  let h = if h = "-" then "" else h in
  let len = String.length h / 2 in
  List.init len (fun i -> n_of_int (int_of_string ("0x" ^ String.sub h (2 * i) 2)))
let hex_of_bytes (l : n list) : string =
  if l = [] then "-" else
  String.concat "" (List.map (fun b -> Printf.sprintf "%02x" (int_of_n b)) l)
let n_of_string s = n_of_z (BigZ.of_string s)
let string_of_n x = BigZ.to_string (z_of_n x)
let cz_of_string s = cz_of_z (BigZ.of_string s)
let string_of_cz x = BigZ.to_string (z_of_cz x)
let split_on c s = List.filter (fun x -> x <> "") (String.split_on_char c s)
