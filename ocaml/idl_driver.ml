(* Line-protocol driver for the IDL model (C12, C13). One case per input line, one result line per
   case; harness/idl/main.go implements the same protocol on the real go/pkg/idl and go/pkg/schema.
     L <hex>  tokens            P <hex>  parse / print / wire / reparse (the code as checked in)
     Q <hex>  the same with the pre-fix parser (D7) and pre-fix printer (D8)
     D <hex>  WireSchema.Deserialize / Serialize          K <cp>..  code point classes *)
open Model
open Conv

let bytes_of_n (l : n list) : string =
  let b = Buffer.create 64 in
  List.iter (fun x -> Buffer.add_char b (Char.chr (int_of_n x land 255))) l;
  Buffer.contents b
let utf8 (s : n list) : string = bytes_of_n (utf8_encode s)
let b01 b = if b then "1" else "0"

let pos_str (p : pos) = Printf.sprintf "%s:%s:%s" (string_of_n p.p_line) (string_of_n p.p_col) (string_of_n p.p_ofs)

let lexerr_name = function LexNone -> "none" | LexChar -> "char" | LexNumber -> "number"

let keyword_names = [
  (TkPackage, "package"); (TkStruct, "struct"); (TkOneof, "oneof"); (TkMultimap, "multimap");
  (TkEnum, "enum"); (TkOptional, "optional"); (TkRoot, "root"); (TkDict, "dict"); (TkKey, "key");
  (TkValue, "value"); (TkBool, "bool"); (TkInt64, "int64"); (TkUint64, "uint64");
  (TkFloat64, "float64"); (TkString, "string"); (TkBytes, "bytes") ]

(* Token.String() followed by the harness' tokName *)
let tok_name (k : tkind) : string =
  match List.assoc_opt k keyword_names with
  | Some s -> s
  | None ->
    (match k with
     | TkEOF -> "EOF"
     | TkIdent -> "identifier"
     | _ -> let c = int_of_n (tkind_code k) in
       if c < 0x21 || c > 0x7e then Printf.sprintf "#%d" c else String.make 1 (Char.chr c))

let msg_class = function
  | MTopLevel -> "toplevel"
  | MEat (w, g) -> "eat/" ^ tok_name w ^ "/" ^ tok_name g
  | MPkgIdent -> "pkgident"
  | MStructName -> "structname"
  | MMultimapName -> "multimapname"
  | MEnumName -> "enumname"
  | MDictName -> "dictname"
  | MDupTop -> "duptop"
  | MDupField -> "dupfield"
  | MArrType -> "arrtype"
  | MNoType -> "notype"
  | MDictPrim -> "dictprim"
  | MOneofDict -> "oneofdict"
  | MOneofRoot -> "oneofroot"
  | MRootEmpty -> "rootempty"
  | MEnumValue LexNone -> "enumvalue"
  | MEnumValue e -> "enumvalue:" ^ lexerr_name e
  | MUnknownType -> "unknowntype"
  | MAmbiguous -> "ambiguous"

let panic_class = function
  | PUnknownType -> "unknown-type"
  | PInvalidState -> "invalid-state"
  | PSetRecPrimitive -> "set-recursive-primitive"
  | PInvalidFieldType -> "invalid-fieldtype"
  | PNilDef -> "runtime"
  | PUnknownFieldType -> "unknown-fieldtype"

let run_lex input =
  let toks = tokenize input in
  String.concat " " (List.map (fun t ->
    let code = int_of_n (tkind_code t.t_kind) in
    let base = Printf.sprintf "%d@%s" code (pos_str t.t_pos) in
    match t.t_kind with
    | TkIdent -> base ^ "=" ^ utf8 t.t_ident
    | TkIntNumber -> base ^ "=#" ^ string_of_n t.t_num
    | TkError -> base ^ "=" ^ lexerr_name t.t_err
    | _ -> base) toks)

let prim_name = function
  | IInt64 -> "int64" | IUint64 -> "uint64" | IFloat64 -> "float64"
  | IBool -> "bool" | IString -> "string" | IBytes -> "bytes"

let rec canon_type (t : itype) : string =
  let body, d = match t with
    | INone d -> "none", d
    | IPrim (p, d) -> "prim:" ^ prim_name p, d
    | IRef (n, d) -> "ref:" ^ utf8 n, d
    | IStruct (n, d) -> "struct:" ^ utf8 n, d
    | IMap (n, d) -> "map:" ^ utf8 n, d
    | IEnum (n, d) -> "enum:" ^ utf8 n, d
    | IArray (e, d, r) -> "arr(rec=" ^ b01 r ^ ")[" ^ canon_type e ^ "]", d in
  if d = [] then body else body ^ "@" ^ utf8 d

let canon_schema (s : ischema) : string =
  let b = Buffer.create 256 in
  Buffer.add_string b ("pkg=" ^ String.concat "." (List.map utf8 s.i_pkg));
  List.iter (fun e ->
    Buffer.add_string b (";E:" ^ utf8 e.ie_name ^ "{");
    Buffer.add_string b (String.concat "," (List.map (fun (n, v) -> utf8 n ^ "=" ^ string_of_n v) e.ie_fields));
    Buffer.add_string b "}") (sorted_enums s);
  List.iter (fun m ->
    Buffer.add_string b (Printf.sprintf ";M:%s{rec=%s,k=%s,v=%s}" (utf8 m.im_name) (b01 m.im_rec)
                           (canon_type m.im_key) (canon_type m.im_val))) (sorted_mmaps s);
  List.iter (fun st ->
    Buffer.add_string b (Printf.sprintf ";S:%s{oneof=%s,dict=%s,root=%s,rec=%s|" (utf8 st.is_name) (b01 st.is_oneof)
                           (utf8 st.is_dict) (b01 st.is_root) (b01 st.is_rec));
    Buffer.add_string b (String.concat "," (List.map (fun f ->
      utf8 f.if_name ^ ":" ^ canon_type f.if_type ^ ":" ^ b01 f.if_opt) st.is_fields));
    Buffer.add_string b "}") (sorted_structs s);
  Buffer.contents b

let counts_str (l : n list) = if l = [] then "_" else String.concat "," (List.map string_of_n l)

let wire_str (s : ischema) : string =
  let roots = List.filter (fun st -> st.is_root) (sorted_structs s) in
  if roots = [] then "-" else
  String.concat ";" (List.map (fun st ->
    utf8 st.is_name ^ ":" ^
    (match wire_counts s st.is_name with
     | POk l -> counts_str l ^ "/" ^ hex_of_bytes (serialize l)
     | PPanic p -> "panic/" ^ panic_class p
     | PFuel -> "fuel")) roots)

(* the order in which the generated Init consumes field counts (Reader.own_counts over Schema.build_root) *)
let own_str (s : ischema) : string =
  let roots = List.filter (fun st -> st.is_root) (sorted_structs s) in
  if roots = [] then "-" else
  match index_schema s with
  | None -> "unindexable"
  | Some sc ->
    String.concat ";" (List.map (fun st ->
      let rec find l i = match l with
        | [] -> None
        | x :: r -> if x.is_name = st.is_name then Some i else find r (i + 1) in
      match find s.i_structs 0 with
      | None -> utf8 st.is_name ^ ":?"
      | Some i -> utf8 st.is_name ^ ":" ^ counts_str (own_counts sc (n_of_int i))) roots)

let warn_str (w : warning list) =
  if w = [] then "-" else
  String.concat "," (List.map (function
    | WStruct n -> "wS:" ^ utf8 n | WOneof n -> "wO:" ^ utf8 n
    | WMultimap n -> "wM:" ^ utf8 n | WEnum n -> "wE:" ^ utf8 n) w)

let head = function
  | OErr (p, m) -> Printf.sprintf "err %s %s" (pos_str p) (msg_class m)
  | OPanic p -> "panic " ^ panic_class p
  | OFuel -> "fuel"
  | OOk _ -> "ok"

let run_parse strict fixed input =
  match parse_gen strict input with
  | OOk (s, w) ->
    let txt = utf8_encode (print_gen fixed s) in
    let b = Buffer.create 1024 in
    Buffer.add_string b ("ok\tS=" ^ canon_schema s ^ "\tW=" ^ warn_str w ^ "\tC=" ^ wire_str s ^ "\tO=" ^ own_str s ^ "\tT=" ^ hex_of_bytes txt);
    (match parse_gen strict txt with
     | OOk (s2, _) -> Buffer.add_string b ("\tR=ok\tS2=" ^ canon_schema s2 ^ "\tC2=" ^ wire_str s2)
     | o -> Buffer.add_string b ("\tR=" ^ head o));
    Buffer.contents b
  | o -> head o

let derr_class = function ELimit -> "limit" | _ -> "eof"

let run_deser input =
  match deserialize input with
  | Inl e -> "err " ^ derr_class e
  | Inr l ->
    let b1 = serialize l in
    (match deserialize b1 with
     | Inl e -> Printf.sprintf "ok %s %s err2 %s" (counts_str l) (hex_of_bytes b1) (derr_class e)
     | Inr l2 -> Printf.sprintf "ok %s %s again %s" (counts_str l) (hex_of_bytes b1) (hex_of_bytes (serialize l2)))

let run_classes cps =
  String.concat " " (List.map (fun s ->
    let c = n_of_string s in
    (if is_letter c then "l" else "-") ^ (if is_udigit c then "d" else "-") ^ (if is_space c then "s" else "-")) cps)

let () =
  try
    while true do
      let line = input_line stdin in
      let out =
        try
          match split_on ' ' line with
          | ["L"; h] -> run_lex (bytes_of_hex h)
          | ["P"; h] -> run_parse true true (bytes_of_hex h)
          | ["Q"; h] -> run_parse false false (bytes_of_hex h)
          | ["PD7"; h] -> run_parse false true (bytes_of_hex h)
          | ["PD8"; h] -> run_parse true false (bytes_of_hex h)
          | ["D"; h] -> run_deser (bytes_of_hex h)
          | "K" :: cps -> run_classes cps
          | _ -> "?"
        with Stack_overflow -> "stack-overflow"
      in
      print_string out; print_newline ()
    done
  with End_of_file -> ()
