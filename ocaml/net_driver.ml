(* Line-protocol driver for the transport (C15) and responder (C16) models.
   The Go harnesses (harness/overlay/grpc_chunk_test.go, responder_test.go) speak the same protocol. *)
open Model
open Conv

(* ------------------------------------------------------------------ C15 *)
let item_of_token tok =
  if tok = "e" then None else
  match String.split_on_char ':' tok with
  | ["m"; h; f] -> Some { m_bytes = bytes_of_hex h; m_end = (f = "1") }
  | _ -> failwith ("bad item " ^ tok)

let string_of_item = function
  | None -> "e"
  | Some m -> Printf.sprintf "m:%s:%s" (hex_of_bytes m.m_bytes) (if m.m_end then "1" else "0")

let run_c15_reads items reads =
  let (obs, a) = run_reads (asm_init items) (List.map n_of_string reads) in
  let toks = List.map (fun (o, k) ->
    match o with
    | None -> Printf.sprintf "E:%d" (int_of_nat k)
    | Some b -> Printf.sprintf "%d:%s:%d" (List.length b) (hex_of_bytes b) (int_of_nat k)) obs in
  String.concat " " (toks @ [Printf.sprintf "S:%s:%s" (string_of_n a.a_stat_msgs) (string_of_n a.a_stat_bytes)])

let split_bar toks =
  let rec go acc = function
    | [] -> (List.rev acc, [])
    | "|" :: r -> (List.rev acc, r)
    | x :: r -> go (x :: acc) r in
  go [] toks

let run_asm toks =
  let (items, reads) = split_bar toks in
  run_c15_reads (List.map item_of_token items) reads

let run_wr toks =
  let (chunks, reads) = split_bar toks in
  let msgs = List.map (fun tok ->
    match String.split_on_char ':' tok with
    | [h; c] -> Some (write_chunk (bytes_of_hex h) (bytes_of_hex c))
    | _ -> failwith ("bad chunk " ^ tok)) chunks in
  String.concat " " (List.map string_of_item msgs @ ["|"; run_c15_reads msgs reads])

(* ------------------------------------------------------------------ C16 *)
(* lts <pinned|current> <batches> <fails> | <visible trace>     trace inclusion: is the observed
       sequence of consumer calls and responses a trace of the model for this script?
   bmc <pinned|current> <batches> <fails>                       all reachable states of the script,
       the three history properties evaluated on each
   cap                                                          the channel capacity of the model
   batches: <n><o|p|t>,...   fails: - | k,k,...  (sends with these indices fail) | from:k (k and all later)
   trace tokens: c<i>:<o|p|t>   s:<ack>:<from>-<to>,...|-:<1|0> *)
let outcome_of_char = function 'o' -> OOk | 'p' -> OPerm | 't' -> OTrans | _ -> failwith "outcome"
let char_of_outcome = function OOk -> 'o' | OPerm -> 'p' | OTrans -> 't'
let parse_cfg = function "pinned" -> cfg_pinned | "current" -> cfg_current | s -> failwith ("cfg " ^ s)
let parse_batches s =
  if s = "-" then [] else
  List.map (fun t ->
    let n = String.sub t 0 (String.length t - 1) in
    (pos_of_z (BigZ.of_string n), outcome_of_char t.[String.length t - 1])) (split_on ',' s)
let parse_fails s : nat -> bool =
  if s = "-" then (fun _ -> true)
  else if String.length s > 5 && String.sub s 0 5 = "from:" then
    let k = int_of_string (String.sub s 5 (String.length s - 5)) in (fun i -> int_of_nat i < k)
  else let l = List.map int_of_string (split_on ',' s) in (fun i -> not (List.mem (int_of_nat i) l))
let parse_script b f = { sc_batches = parse_batches b; sc_send_ok = parse_fails f }
let parse_ranges s =
  if s = "-" then [] else
  List.map (fun t -> match String.split_on_char '-' t with
    | [a; b] -> (n_of_string a, n_of_string b) | _ -> failwith ("range " ^ t)) (split_on ',' s)
let string_of_ranges rs =
  if rs = [] then "-" else String.concat "," (List.map (fun (a, b) -> string_of_n a ^ "-" ^ string_of_n b) rs)
let parse_vis tok : label =
  match String.split_on_char ':' tok with
  | [c; o] when c.[0] = 'c' -> LConsume (nat_of_int (int_of_string (String.sub c 1 (String.length c - 1))), outcome_of_char o.[0])
  | ["s"; ack; rs; ok] -> LSend ({ r_ack = n_of_string ack; r_ranges = parse_ranges rs }, ok = "1")
  | _ -> failwith ("trace token " ^ tok)
let string_of_label = function
  | LConsume (i, o) -> Printf.sprintf "c%d:%c" (int_of_nat i) (char_of_outcome o)
  | LSend (r, ok) -> Printf.sprintf "s:%s:%s:%s" (string_of_n r.r_ack) (string_of_ranges r.r_ranges) (if ok then "1" else "0")
  | LTop -> "top" | LSchedAck -> "schedack" | LPush -> "push" | LReturn -> "return" | LTick -> "tick"
  | LSelBad -> "selbad" | LSelTick -> "seltick" | LSelStop -> "selstop" | LTake -> "take"
  | LComposeDone -> "composedone" | LStoreErr -> "storeerr" | LDrainTake -> "draintake"
  | LDrainEmpty -> "drainempty" | LAckCheck -> "ackcheck"

module SH = Hashtbl.Make (struct
  type t = state
  let equal = (=)
  let hash s = Hashtbl.hash_param 400 4000 s
end)

(* all states reachable from the set by hidden steps *)
let closure c sc (init : state list) : state list =
  let seen = SH.create 64 in
  let rec go = function
    | [] -> ()
    | s :: rest ->
      if SH.mem seen s then go rest else begin
        SH.add seen s ();
        let succ = List.filter_map (fun (l, s') -> if visible l then None else Some s') (steps c sc s) in
        go (succ @ rest)
      end in
  go init;
  SH.fold (fun s () acc -> s :: acc) seen []

let run_lts cfgname b f toks =
  let c = parse_cfg cfgname and sc = parse_script b f in
  let (_, trace) = split_bar toks in
  let trace = List.map parse_vis trace in
  let rec go set k maxset = function
    | [] -> Printf.sprintf "accepted %d %d" k maxset
    | l :: rest ->
      let cl = closure c sc set in
      let next = List.concat_map (fun s ->
        List.filter_map (fun (l', s') -> if l' = l then Some s' else None) (steps c sc s)) cl in
      let next = List.sort_uniq compare next in
      if next = [] then begin
        let offers = List.sort_uniq compare (List.concat_map (fun s ->
          List.filter_map (fun (l', _) -> if visible l' then Some (string_of_label l') else None) (steps c sc s)) cl) in
        Printf.sprintf "rejected %d %s model-offers=%s" k (string_of_label l) (String.concat ";" offers)
      end else go next (k + 1) (max maxset (List.length cl)) rest in
  go [st_init] 0 1 trace

let run_bmc cfgname b f =
  let c = parse_cfg cfgname and sc = parse_script b f in
  let seen = SH.create 1024 in
  let trans = ref 0 and bad_mono = ref 0 and bad_sound = ref 0 and bad_range = ref 0 and dead = ref 0 in
  let first = ref "" in
  let q = Queue.create () in
  Queue.add st_init q; SH.add seen st_init ();
  while not (Queue.is_empty q) do
    let s = Queue.pop q in
    let m = mono_ok s and so = sound_ok s and r = ranges_ok s in
    if not m then incr bad_mono; if not so then incr bad_sound; if not r then incr bad_range;
    if (not (m && so && r)) && !first = "" then
      first := String.concat " " (List.map (fun (r, ok) -> string_of_label (LSend (r, ok))) s.s_log);
    let succ = steps c sc s in
    if List.for_all (fun (l, _) -> l = LTick) succ && s.s_rpc <> RDone then incr dead;
    List.iter (fun (_, s') ->
      incr trans;
      if not (SH.mem seen s') then begin SH.add seen s' (); Queue.add s' q end) succ
  done;
  Printf.sprintf "states=%d transitions=%d mono_bad=%d sound_bad=%d range_bad=%d stuck=%d first=[%s]"
    (SH.length seen) !trans !bad_mono !bad_sound !bad_range !dead !first

let handle line =
  match split_on ' ' line with
  | "asm" :: toks -> run_asm toks
  | "wr" :: toks -> run_wr toks
  | "lts" :: c :: b :: f :: toks -> run_lts c b f toks
  | ["bmc"; c; b; f] -> run_bmc c b f
  | ["cap"] -> string_of_int (int_of_nat bad_data_max_batch_size)
  | _ -> "badcmd"

let () =
  try
    while true do
      let line = input_line stdin in
      if String.length line > 0 then
        print_endline (try handle line with e -> "EXC " ^ Printexc.to_string e)
    done
  with End_of_file -> ()
