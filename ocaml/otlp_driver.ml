(* Line-protocol driver of the extracted OTLP <-> STEF converter model (C17, C18).
   Input: one case per line, "<cfg> MB ..." or "<cfg> TB ..." (grammar: tools/check_otlp.py).
   Output: one line per case, TAB separated key=payload sections, the same keys and syntax as
   the Go harness harness_pdata/cmd prints. *)
open Model
open Conv

(* ------------------------------------------------------------------ tokens *)
exception Parse of string
type toks = { a : string array; mutable i : int }
let peek t = if t.i >= Array.length t.a then raise (Parse "eof") else t.a.(t.i)
let next t = let s = peek t in t.i <- t.i + 1; s
let rest s = String.sub s 1 (String.length s - 1)
let expect t c = let s = next t in if s <> c then raise (Parse ("expected " ^ c ^ " got " ^ s))
let p_count t = int_of_string (next t)
let p_str t = let s = next t in if s.[0] <> 's' then raise (Parse ("str " ^ s)); bytes_of_hex (rest s)
let p_bytes t = let s = next t in if s.[0] <> 'y' then raise (Parse ("bytes " ^ s)); bytes_of_hex (rest s)
let p_u t = let s = next t in if s.[0] <> 'u' then raise (Parse ("u " ^ s)); n_of_string (rest s)
let p_i t = let s = next t in if s.[0] <> 'i' then raise (Parse ("i " ^ s)); cz_of_string (rest s)
let n_of_hex h = n_of_z (BigZ.of_string_base 16 h)
let p_f t = let s = next t in if s.[0] <> 'f' then raise (Parse ("f " ^ s)); n_of_hex (rest s)
let p_b t = match next t with "b0" -> false | "b1" -> true | s -> raise (Parse ("bool " ^ s))
let rec times n f = if n <= 0 then [] else let x = f () in x :: times (n - 1) f
let p_list t f = let n = p_count t in times n (fun () -> f t)

let rec p_val t : oval =
  let s = next t in
  match s.[0] with
  | 'e' -> OEmpty
  | 's' -> OStr (bytes_of_hex (rest s))
  | 'b' -> OBool (s = "b1")
  | 'i' -> OInt (cz_of_string (rest s))
  | 'f' -> ODouble (n_of_hex (rest s))
  | 'y' -> OBytes (bytes_of_hex (rest s))
  | 'L' -> let n = p_count t in OSlice (times n (fun () -> p_val t))
  | 'K' -> let n = p_count t in OMap (times n (fun () -> let k = p_str t in let v = p_val t in (k, v)))
  | _ -> raise (Parse ("value " ^ s))
let p_attrs t : oattrs =
  expect t "A";
  let n = p_count t in times n (fun () -> let k = p_str t in let v = p_val t in (k, v))
let p_numval t : numval =
  let s = next t in
  match s.[0] with
  | 'e' -> NVEmpty
  | 'i' -> NVInt (cz_of_string (rest s))
  | 'f' -> NVDouble (n_of_hex (rest s))
  | _ -> raise (Parse ("numval " ^ s))
let p_opt t : n option = if peek t = "~" then (ignore (next t); None) else Some (p_f t)

let p_exemplar t : exemplar =
  expect t "Z";
  let ts = p_u t in let v = p_numval t in let tr = p_bytes t in let sp = p_bytes t in
  let a = p_attrs t in
  { ex_ts = ts; ex_val = v; ex_trace = tr; ex_span = sp; ex_attrs = a }
let p_numpoint t : numpoint =
  expect t "P";
  let st = p_u t in let ts = p_u t in let fl = p_u t in let v = p_numval t in
  let a = p_attrs t in let ex = p_list t p_exemplar in
  { np_start = st; np_ts = ts; np_flags = fl; np_val = v; np_attrs = a; np_ex = ex }
let p_histpoint t : histpoint =
  expect t "H";
  let st = p_u t in let ts = p_u t in let fl = p_u t in let cnt = p_u t in
  let sum = p_opt t in let mn = p_opt t in let mx = p_opt t in
  let bk = p_list t p_u in let bd = p_list t p_f in
  let a = p_attrs t in let ex = p_list t p_exemplar in
  { hp_start = st; hp_ts = ts; hp_flags = fl; hp_count = cnt; hp_sum = sum; hp_min = mn;
    hp_max = mx; hp_buckets = bk; hp_bounds = bd; hp_attrs = a; hp_ex = ex }
let p_exppoint t : exppoint =
  expect t "X";
  let st = p_u t in let ts = p_u t in let fl = p_u t in let cnt = p_u t in
  let sum = p_opt t in let mn = p_opt t in let mx = p_opt t in
  let scale = p_i t in let zc = p_u t in let zt = p_f t in
  let po = p_i t in let pc = p_list t p_u in
  let no = p_i t in let nc = p_list t p_u in
  let a = p_attrs t in let ex = p_list t p_exemplar in
  { xp_start = st; xp_ts = ts; xp_flags = fl; xp_count = cnt; xp_sum = sum; xp_min = mn;
    xp_max = mx; xp_scale = scale; xp_zc = zc; xp_zt = zt;
    xp_pos = { eb_off = po; eb_counts = pc }; xp_neg = { eb_off = no; eb_counts = nc };
    xp_attrs = a; xp_ex = ex }
let p_sumpoint t : sumpoint =
  expect t "Y";
  let st = p_u t in let ts = p_u t in let fl = p_u t in let cnt = p_u t in let sum = p_f t in
  let q = p_list t (fun t -> let a = p_f t in let b = p_f t in (a, b)) in
  let a = p_attrs t in
  { yp_start = st; yp_ts = ts; yp_flags = fl; yp_count = cnt; yp_sum = sum; yp_q = q; yp_attrs = a }

let p_metric t : metric =
  expect t "T";
  let name = p_str t in let desc = p_str t in let u = p_str t in let meta = p_attrs t in
  let data =
    match next t with
    | "n" -> let _ = p_count t in MEmpty
    | "g" -> MGauge (p_list t p_numpoint)
    | "s" -> let tp = p_u t in let mono = p_b t in MSum (tp, mono, p_list t p_numpoint)
    | "h" -> let tp = p_u t in MHist (tp, p_list t p_histpoint)
    | "x" -> let tp = p_u t in MExp (tp, p_list t p_exppoint)
    | "y" -> MSummary (p_list t p_sumpoint)
    | s -> raise (Parse ("kind " ^ s)) in
  { m_name = name; m_desc = desc; m_unit = u; m_meta = meta; m_data = data }
let p_res_id t : res_id =
  let url = p_str t in let d = p_u t in let a = p_attrs t in
  { rs_url = url; rs_attrs = a; rs_dropped = d }
let p_scope_id t : scope_id =
  let name = p_str t in let ver = p_str t in let url = p_str t in let d = p_u t in
  let a = p_attrs t in
  { sc_name = name; sc_version = ver; sc_url = url; sc_attrs = a; sc_dropped = d }
let p_mbatch t : mbatch =
  p_list t (fun t ->
    expect t "R"; let r = p_res_id t in
    let scopes = p_list t (fun t ->
      expect t "S"; let s = p_scope_id t in
      let ms = p_list t p_metric in { sm_scope = s; sm_metrics = ms }) in
    { rm_res = r; rm_scopes = scopes })

let p_event t : event =
  expect t "V";
  let name = p_str t in let tm = p_u t in let a = p_attrs t in let d = p_u t in
  { ev_name = name; ev_time = tm; ev_attrs = a; ev_dropped = d }
let p_link t : link =
  expect t "L";
  let tr = p_bytes t in let sp = p_bytes t in let st = p_str t in let fl = p_u t in
  let a = p_attrs t in let d = p_u t in
  { lk_trace = tr; lk_span = sp; lk_state = st; lk_flags = fl; lk_attrs = a; lk_dropped = d }
let p_span t : span =
  expect t "N";
  let tr = p_bytes t in let sp = p_bytes t in let pa = p_bytes t in let name = p_str t in
  let fl = p_u t in let st = p_u t in let en = p_u t in let kind = p_u t in let state = p_str t in
  let a = p_attrs t in let d = p_u t in let code = p_u t in let msg = p_str t in
  let evs = p_list t p_event in let lks = p_list t p_link in
  { s_trace = tr; s_span = sp; s_parent = pa; s_name = name; s_flags = fl; s_start = st;
    s_end = en; s_kind = kind; s_state = state; s_attrs = a; s_dropped = d; s_code = code;
    s_msg = msg; s_events = evs; s_links = lks }
let p_tbatch t : tbatch =
  p_list t (fun t ->
    expect t "R"; let r = p_res_id t in
    let scopes = p_list t (fun t ->
      expect t "S"; let s = p_scope_id t in
      let sps = p_list t p_span in { ss_scope = s; ss_spans = sps }) in
    { rsp_res = r; rsp_scopes = scopes })

let p_cfg (s : string) : cfg =
  let b i = String.length s > i && s.[i] = '1' in
  { c_map_inc = b 1; c_keep_empty = b 2; c_summary_flag = b 3; c_back_ex = b 4;
    c_cmp_total = b 5; c_cmp_dropped = b 6; c_empty_hist = b 7 }

(* ------------------------------------------------------------------ printing *)
let buf = Buffer.create 65536
let add = Buffer.add_string buf
let hexs (l : n list) = String.concat "" (List.map (fun b -> Printf.sprintf "%02x" (int_of_n b)) l)
let pr_s l = add "s"; add (hexs l)
let pr_u x = add "u"; add (string_of_n x)
let pr_i z = add "i"; add (string_of_cz z)
let pr_f x = add "f"; add (Printf.sprintf "%016s" (BigZ.format "%x" (z_of_n x)) |> String.map (fun c -> if c = ' ' then '0' else c))
let pr_b b = add (if b then "b1" else "b0")
let pr_sep sep f l = List.iteri (fun i x -> if i > 0 then add sep; f x) l
let pr_arr f l = add "["; pr_sep "," f l; add "]"
let pr_opt = function None -> add "~" | Some x -> pr_f x

let rec pr_tval (v : tval) =
  match v with
  | TNone -> add "<0>"
  | TStr s -> add "<1:"; pr_s s; add ">"
  | TBool b -> add "<2:"; pr_b b; add ">"
  | TInt z -> add "<3:"; pr_i z; add ">"
  | TF64 f -> add "<4:"; pr_f f; add ">"
  | TArr l -> add "<5:"; pr_arr pr_tval l; add ">"
  | TKV kvs -> add "<6:"; pr_tattrs kvs; add ">"
  | TBytes s -> add "<7:"; pr_s s; add ">"
and pr_tattrs kvs = add "("; pr_sep ";" (fun (k, v) -> pr_s k; add "="; pr_tval v) kvs; add ")"
let rec pr_oval (v : oval) =
  match v with
  | OEmpty -> add "<0>"
  | OStr s -> add "<1:"; pr_s s; add ">"
  | OBool b -> add "<2:"; pr_b b; add ">"
  | OInt z -> add "<3:"; pr_i z; add ">"
  | ODouble f -> add "<4:"; pr_f f; add ">"
  | OSlice l -> add "<5:"; pr_arr pr_oval l; add ">"
  | OMap kvs -> add "<6:"; pr_oattrs kvs; add ">"
  | OBytes s -> add "<7:"; pr_s s; add ">"
and pr_oattrs kvs = add "("; pr_sep ";" (fun (k, v) -> pr_s k; add "="; pr_oval v) kvs; add ")"

let pr_tres (r : t_resource) =
  add "{"; pr_s r.tr_url; add ","; pr_tattrs r.tr_attrs; add ","; pr_u r.tr_dropped; add "}"
let pr_tscope (s : t_scope) =
  add "{"; pr_s s.tsc_name; add ","; pr_s s.tsc_version; add ","; pr_s s.tsc_url; add ",";
  pr_tattrs s.tsc_attrs; add ","; pr_u s.tsc_dropped; add "}"
let pr_tmetric (m : t_metric) =
  add "{"; pr_s m.tm_name; add ","; pr_s m.tm_desc; add ","; pr_s m.tm_unit; add ",";
  pr_u m.tm_type; add ","; pr_tattrs m.tm_meta; add ","; pr_arr pr_f m.tm_bounds; add ",";
  pr_u m.tm_temp; add ","; pr_b m.tm_mono; add "}"
let pr_teb (b : t_ebuckets) = add "{"; pr_i b.tb_off; add ","; pr_arr pr_u b.tb_counts; add "}"
let pr_tpval (v : t_pval) =
  match v with
  | PVNone -> add "<0>"
  | PVInt z -> add "<1:"; pr_i z; add ">"
  | PVF64 f -> add "<2:"; pr_f f; add ">"
  | PVHist h ->
    add "<3:{"; pr_i h.th_count; add ","; pr_opt h.th_sum; add ","; pr_opt h.th_min; add ",";
    pr_opt h.th_max; add ","; pr_arr pr_u h.th_buckets; add "}>"
  | PVExp x ->
    add "<4:{"; pr_u x.tx_count; add ","; pr_opt x.tx_sum; add ","; pr_opt x.tx_min; add ",";
    pr_opt x.tx_max; add ","; pr_i x.tx_scale; add ","; pr_u x.tx_zc; add ",";
    pr_teb x.tx_pos; add ","; pr_teb x.tx_neg; add ","; pr_f x.tx_zt; add "}>"
  | PVSummary y ->
    add "<5:{"; pr_u y.ty_count; add ","; pr_f y.ty_sum; add ",";
    pr_arr (fun (q, v) -> add "{"; pr_f q; add ","; pr_f v; add "}") y.ty_q; add "}>"
let pr_texval = function
  | TEVNone -> add "<0>"
  | TEVInt z -> add "<1:"; pr_i z; add ">"
  | TEVF64 f -> add "<2:"; pr_f f; add ">"
let pr_tex (e : t_exemplar) =
  add "{"; pr_u e.te_ts; add ","; pr_texval e.te_val; add ","; pr_s e.te_span; add ",";
  pr_s e.te_trace; add ","; pr_tattrs e.te_attrs; add "}"
let pr_tpoint (p : t_point) =
  add "{"; pr_u p.tp_start; add ","; pr_u p.tp_ts; add ","; pr_tpval p.tp_val; add ",";
  pr_arr pr_tex p.tp_ex; add "}"
let pr_mrecord (r : mrecord) =
  add "{"; pr_tmetric r.r_metric; add ","; pr_tres r.r_resource; add ","; pr_tscope r.r_scope;
  add ","; pr_tattrs r.r_attrs; add ","; pr_tpoint r.r_point; add "}"

let pr_tevent (e : t_event) =
  add "{"; pr_s e.tv_name; add ","; pr_u e.tv_time; add ","; pr_tattrs e.tv_attrs; add ",";
  pr_u e.tv_dropped; add "}"
let pr_tlink (l : t_link) =
  add "{"; pr_s l.tl_trace; add ","; pr_s l.tl_span; add ","; pr_s l.tl_state; add ",";
  pr_u l.tl_flags; add ","; pr_tattrs l.tl_attrs; add ","; pr_u l.tl_dropped; add "}"
let pr_tspan (s : t_span) =
  add "{"; pr_s s.tsp_trace; add ","; pr_s s.tsp_span; add ","; pr_s s.tsp_state; add ",";
  pr_s s.tsp_parent; add ","; pr_u s.tsp_flags; add ","; pr_s s.tsp_name; add ",";
  pr_u s.tsp_kind; add ","; pr_u s.tsp_start; add ","; pr_u s.tsp_end; add ",";
  pr_tattrs s.tsp_attrs; add ","; pr_u s.tsp_dropped; add ","; pr_arr pr_tevent s.tsp_events;
  add ","; pr_arr pr_tlink s.tsp_links; add ",{"; pr_s s.tsp_msg; add ","; pr_u s.tsp_code; add "}}"
let pr_srecord (r : srecord) =
  add "{"; pr_tres r.sr_resource; add ","; pr_tscope r.sr_scope; add ","; pr_tspan r.sr_span; add "}"

(* flattened fully qualified point *)
let pr_ores (r : res_id) =
  add "{"; pr_s r.rs_url; add ","; pr_oattrs r.rs_attrs; add ","; pr_u r.rs_dropped; add "}"
let pr_oscope (s : scope_id) =
  add "{"; pr_s s.sc_name; add ","; pr_s s.sc_version; add ","; pr_s s.sc_url; add ",";
  pr_oattrs s.sc_attrs; add ","; pr_u s.sc_dropped; add "}"
let pr_fqmetric (m : fqmetric) =
  add "{"; pr_s m.fm_name; add ","; pr_s m.fm_desc; add ","; pr_s m.fm_unit; add ",";
  pr_oattrs m.fm_meta; add ","; pr_u m.fm_type; add ",";
  (match m.fm_temp with None -> add "~" | Some t -> pr_u t); add ",";
  (match m.fm_mono with None -> add "~" | Some b -> pr_b b); add "}"
let pr_eb (b : ebuckets) = add "{"; pr_i b.eb_off; add ","; pr_arr pr_u b.eb_counts; add "}"
let pr_fvalue (v : fvalue) =
  match v with
  | FVNone -> add "<0>"
  | FVInt z -> add "<1:"; pr_i z; add ">"
  | FVDouble f -> add "<2:"; pr_f f; add ">"
  | FVHist (c, s, mn, mx, bk, bd) ->
    add "<3:{"; pr_u c; add ","; pr_opt s; add ","; pr_opt mn; add ","; pr_opt mx; add ",";
    pr_arr pr_u bk; add ","; pr_arr pr_f bd; add "}>"
  | FVExp (c, s, mn, mx, scale, zc, pos, neg, zt) ->
    add "<4:{"; pr_u c; add ","; pr_opt s; add ","; pr_opt mn; add ","; pr_opt mx; add ",";
    pr_i scale; add ","; pr_u zc; add ","; pr_eb pos; add ","; pr_eb neg; add ","; pr_f zt; add "}>"
  | FVSummary (c, s, q) ->
    add "<5:{"; pr_u c; add ","; pr_f s; add ",";
    pr_arr (fun (a, b) -> add "{"; pr_f a; add ","; pr_f b; add "}") q; add "}>"
let pr_numval = function
  | NVEmpty -> add "<0>"
  | NVInt z -> add "<1:"; pr_i z; add ">"
  | NVDouble f -> add "<2:"; pr_f f; add ">"
let pr_ex (e : exemplar) =
  add "{"; pr_u e.ex_ts; add ","; pr_numval e.ex_val; add ","; pr_s e.ex_span; add ",";
  pr_s e.ex_trace; add ","; pr_oattrs e.ex_attrs; add "}"
let pr_fq (p : fqpoint) =
  add "{"; pr_ores p.fq_res; add ","; pr_oscope p.fq_scope; add ","; pr_fqmetric p.fq_metric;
  add ","; pr_oattrs p.fq_attrs; add ","; pr_u p.fq_start; add ","; pr_u p.fq_ts; add ",";
  pr_fvalue p.fq_val; add ","; pr_arr pr_ex p.fq_ex; add "}"

let section key f = if Buffer.length buf > 0 then add "\t"; add key; add "="; f ()
let status = function Ok _ -> "ok" | Err -> "err" | Panic -> "panic"

let back pfx (c : cfg) (recs : mrecord list) =
  let st = ref "ok" in
  let one key r =
    section (pfx ^ key) (fun () ->
      match r with
      | Ok b -> pr_sep " " pr_fq (flatten b)
      | x -> if !st = "ok" then st := status x) in
  one "fu" (from_stef c recs);
  one "fs" (from_stef_sorted c recs);
  section (pfx ^ "bstatus") (fun () -> add !st)

let run_metrics (c : cfg) (b : mbatch) =
  section "in.count" (fun () -> add (string_of_int (int_of_nat (datapoint_count b))));
  section "in.flat" (fun () -> pr_sep " " pr_fq (flatten b));
  let conv pfx r =
    section (pfx ^ "status") (fun () -> add (status r));
    match r with
    | Ok recs ->
      section (pfx ^ "n") (fun () -> add (string_of_int (List.length recs)));
      section (pfx ^ "recs") (fun () -> pr_sep " " pr_mrecord recs);
      back pfx c recs
    | _ ->
      List.iter (fun k -> section (pfx ^ k) (fun () -> ())) [ "n"; "recs"; "fu"; "fs"; "bstatus" ] in
  conv "u." (to_stef_unsorted c b);
  conv "s." (to_stef_sorted c b)

let run_traces (c : cfg) (b : tbatch) =
  section "in.count" (fun () -> add (string_of_int (int_of_nat (span_count b))));
  let fl = flatten_spans b in
  section "in.img" (fun () -> pr_sep " " pr_srecord (List.map (span_image false) fl));
  section "in.imgs" (fun () -> pr_sep " " pr_srecord (List.map (span_image true) fl));
  let conv pfx r =
    section (pfx ^ "status") (fun () -> add (status r));
    match r with
    | Ok recs ->
      section (pfx ^ "n") (fun () -> add (string_of_int (List.length recs)));
      section (pfx ^ "recs") (fun () -> pr_sep " " pr_srecord recs)
    | _ -> List.iter (fun k -> section (pfx ^ k) (fun () -> ())) [ "n"; "recs" ] in
  conv "u." (traces_to_stef c false b);
  conv "s." (traces_to_stef c true b)

let () =
  try
    while true do
      let line = input_line stdin in
      Buffer.clear buf;
      (try
         let t = { a = Array.of_list (split_on ' ' line); i = 0 } in
         let c = p_cfg (next t) in
         (match next t with
          | "MB" -> run_metrics c (p_mbatch t)
          | "TB" -> run_traces c (p_tbatch t)
          | s -> raise (Parse ("batch kind " ^ s)))
       with
       | Parse m -> Buffer.clear buf; add ("parse-error=" ^ m)
       | e -> Buffer.clear buf; add ("driver-error=" ^ Printexc.to_string e));
      print_string (Buffer.contents buf);
      print_newline ()
    done
  with End_of_file -> ()
