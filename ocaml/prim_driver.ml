(* Line-protocol driver for the primitive layer (C20). One case per input line, one result line per case.
   The Go harness (harness/prim) implements the same protocol on the real library. *)
open Model
open Conv

let errname = function EEof -> "eof" | ERefNum -> "refnum" | ELimit -> "limit" | EInvalid -> "invalid" | EOther -> "other"

let run_bw ops =
  let w = List.fold_left (fun w op ->
    match split_on ':' op with
    | ["b"; v] -> bw_write_bit w (v = "1")
    | ["w"; v; n] -> bw_write_bits w (n_of_string v) (nat_of_int (int_of_string n))
    | ["u"; v] -> bw_write_uvc w (n_of_string v)
    | _ -> failwith ("bad bw op " ^ op)) [] ops in
  Printf.sprintf "%d %s" (List.length w) (hex_of_bytes (column_bytes w))

let run_br buf ops =
  let r = ref (br_init (bytes_of_hex buf)) in
  let out = List.map (fun op ->
    match split_on ':' op with
    | ["p"; n] -> let (v, r') = br_peek !r (nat_of_int (int_of_string n)) in r := r'; string_of_n v
    | ["c"; n] -> r := br_consume !r (nat_of_int (int_of_string n)); "_"
    | ["r"; n] -> let (v, r') = br_read_bits !r (nat_of_int (int_of_string n)) in r := r'; string_of_n v
    | ["b"] -> let (v, r') = br_read_bit !r in r := r'; if v then "1" else "0"
    | ["u"] -> let (v, r') = br_read_uvc !r in r := r'; string_of_n v
    | _ -> failwith ("bad br op " ^ op)) ops in
  (* report values only up to the first error: after an error the real reader's state is unspecified *)
  String.concat " " out ^ (if !r.br_err then " E" else " ok")

let run_br_stepwise buf ops =
  (* like run_br but prints the error flag after every op and stops comparing values after the first error *)
  let r = ref (br_init (bytes_of_hex buf)) in
  let stopped = ref false in
  let out = List.filter_map (fun op ->
    if !stopped then None else begin
      let s = match split_on ':' op with
        | ["p"; n] -> let (v, r') = br_peek !r (nat_of_int (int_of_string n)) in r := r'; string_of_n v
        | ["c"; n] -> r := br_consume !r (nat_of_int (int_of_string n)); "_"
        | ["r"; n] -> let (v, r') = br_read_bits !r (nat_of_int (int_of_string n)) in r := r'; string_of_n v
        | ["b"] -> let (v, r') = br_read_bit !r in r := r'; if v then "1" else "0"
        | ["u"] -> let (v, r') = br_read_uvc !r in r := r'; string_of_n v
        | _ -> failwith ("bad br op " ^ op) in
      if !r.br_err then (stopped := true; Some "E") else Some s
    end) ops in
  String.concat " " out

let opt_pair f = function None -> "none" | Some (v, rest) -> Printf.sprintf "%s %d" (f v) (List.length rest)

let run_u64enc vals =
  let (_, out) = List.fold_left (fun (s, acc) v ->
    let (s', b) = u64_encode s (n_of_string v) in (s', acc @ b)) (u64_init, []) vals in
  hex_of_bytes out
let run_i64enc vals =
  let (_, out) = List.fold_left (fun (s, acc) v ->
    let (s', b) = i64_encode s (cz_of_string v) in (s', acc @ b)) (u64_init, []) vals in
  hex_of_bytes out
let run_u64dec buf n =
  let rec go s buf k acc =
    if k = 0 then List.rev acc else
    match u64_decode s buf with
    | None -> List.rev ("E" :: acc)
    | Some ((s', v), rest) -> go s' rest (k - 1) (string_of_n v :: acc) in
  String.concat " " (go u64_init (bytes_of_hex buf) n [])
let run_i64dec buf n =
  let rec go s buf k acc =
    if k = 0 then List.rev acc else
    match i64_decode s buf with
    | None -> List.rev ("E" :: acc)
    | Some ((s', v), rest) -> go s' rest (k - 1) (string_of_cz v :: acc) in
  String.concat " " (go u64_init (bytes_of_hex buf) n [])

let run_f64enc vals =
  let (_, out) = List.fold_left (fun (s, acc) v ->
    let (s', b) = f64_encode s (n_of_string v) in (s', acc @ b)) (f64_init, []) vals in
  hex_of_bytes (column_bytes out)
let run_f64dec buf n =
  let rec go s r k acc =
    if k = 0 then List.rev acc else
    let ((s', v), r') = f64_decode s r in
    if r'.br_err then List.rev ("E" :: acc) else go s' r' (k - 1) (string_of_n v :: acc) in
  String.concat " " (go f64_init (br_init (bytes_of_hex buf)) n [])

let run_boolenc vals =
  let out = List.concat_map (fun v -> bool_encode (v = "1")) vals in
  hex_of_bytes (column_bytes out)
let run_booldec buf n =
  let rec go r k acc =
    if k = 0 then List.rev acc else
    let (v, r') = bool_decode r in
    if r'.br_err then List.rev ("E" :: acc) else go r' (k - 1) ((if v then "1" else "0") :: acc) in
  String.concat " " (go (br_init (bytes_of_hex buf)) n [])

let run_strenc dict vals =
  let (_, out) = List.fold_left (fun (d, acc) v ->
    let v = bytes_of_hex v in
    if dict then let (d', b) = strdict_encode d v in (d', acc @ b)
    else (d, acc @ str_encode v)) ([], []) vals in
  hex_of_bytes out
let run_strdec dict buf n =
  let rec go d buf k acc =
    if k = 0 then List.rev acc else
    if dict then
      match strdict_decode d buf with
      | Inl e -> List.rev (("E" ^ errname e) :: acc)
      | Inr ((d', v), rest) -> go d' rest (k - 1) (hex_of_bytes v :: acc)
    else
      match str_decode buf with
      | Inl e -> List.rev (("E" ^ errname e) :: acc)
      | Inr (v, rest) -> go d rest (k - 1) (hex_of_bytes v :: acc) in
  String.concat " " (go [] (bytes_of_hex buf) n [])

let handle line =
  match split_on ' ' line with
  | "bw" :: ops -> run_bw ops
  | "br" :: buf :: ops -> run_br_stepwise buf ops
  | ["lebenc"; v] -> hex_of_bytes (leb_enc (n_of_string v))
  | ["lebdec"; buf] -> opt_pair string_of_n (leb_dec (bytes_of_hex buf))
  | ["vienc"; v] -> hex_of_bytes (varint_enc (cz_of_string v))
  | ["videc"; buf] -> opt_pair string_of_cz (varint_dec (bytes_of_hex buf))
  | "u64enc" :: vals -> run_u64enc vals
  | "i64enc" :: vals -> run_i64enc vals
  | ["u64dec"; buf; n] -> run_u64dec buf (int_of_string n)
  | ["i64dec"; buf; n] -> run_i64dec buf (int_of_string n)
  | "f64enc" :: vals -> run_f64enc vals
  | ["f64dec"; buf; n] -> run_f64dec buf (int_of_string n)
  | "boolenc" :: vals -> run_boolenc vals
  | ["booldec"; buf; n] -> run_booldec buf (int_of_string n)
  | ("strenc" | "bytesenc") :: vals -> run_strenc false vals
  | ("sdenc" | "bdenc") :: vals -> run_strenc true vals
  | [("strdec" | "bytesdec"); buf; n] -> run_strdec false buf (int_of_string n)
  | [("sddec" | "bddec"); buf; n] -> run_strdec true buf (int_of_string n)
  | "uvcspec" :: [v] -> let b = uvc_spec_bits (n_of_string v) in
      Printf.sprintf "%d %s" (List.length b) (hex_of_bytes (column_bytes b))
  | _ -> "badcmd"

let () =
  try
    while true do
      let line = input_line stdin in
      if String.length line > 0 then
        print_endline (try handle line with e -> "EXC " ^ Printexc.to_string e)
    done
  with End_of_file -> ()
