(* Line-protocol driver for the stream model (C01, C02, C04, C05, C06, C07, C08, C10, C03):
   decodes byte streams produced by the Go implementation with the model's independent decoder,
   dumps records canonically, re-encodes every frame and compares bytes. *)
open Model
open Conv

let schemas : (string, schema) Hashtbl.t = Hashtbl.create 16
let sizes_tbl : (string, (int, int) Hashtbl.t) Hashtbl.t = Hashtbl.create 16

(* ---- schema from tokens (tools/gen/gen_schemas.py model_tokens) ---- *)
let parse_schema (toks : string list) : schema =
  let t = ref toks in
  let next () = match !t with x :: r -> t := r; x | [] -> failwith "schema: eof" in
  let opt_n s = if s = "-" then None else Some (n_of_int (int_of_string s)) in
  let rec ftype () =
    match next () with
    | "P" ->
      let k = next () in
      let d = opt_n (next ()) in
      let p = (match k with "b" -> PBool | "i" -> PInt64 | "u" -> PUint64 | "f" -> PFloat64
                          | "s" -> PString | "y" -> PBytes | _ -> failwith "prim") in
      TPrim (p, d)
    | "A" -> TArray (ftype ())
    | "S" -> TStruct (n_of_int (int_of_string (next ())))
    | "M" -> TMultimap (n_of_int (int_of_string (next ())))
    | x -> failwith ("ftype " ^ x) in
  let ns = int_of_string (next ()) in
  let structs = List.init ns (fun _ ->
    let oneof = next () = "1" in
    let d = opt_n (next ()) in
    let nf = int_of_string (next ()) in
    let fields = List.init nf (fun _ -> let ty = ftype () in let o = next () = "1" in { f_type = ty; f_opt = o }) in
    { s_oneof = oneof; s_dict = d; s_fields = fields }) in
  let nm = int_of_string (next ()) in
  let mmaps = List.init nm (fun _ -> let k = ftype () in let v = ftype () in { m_key = k; m_val = v }) in
  { structs = structs; multimaps = mmaps }

(* ---- dump (type directed; RNil is the zero value of its type) ---- *)
let hexs (b : n list) = String.concat "" (List.map (fun x -> Printf.sprintf "%02x" (int_of_n x)) b)

let rec dump (sc : schema) (ty : ftype) (v : rnode) (buf : Buffer.t) : unit =
  let add = Buffer.add_string buf in
  match ty with
  | TPrim (p, _) ->
    (match p, v with
     | PBool, RBool b -> add (if b then "b1" else "b0")
     | PBool, _ -> add "b0"
     | PInt64, RI64 z -> add ("i" ^ string_of_cz z)
     | PInt64, _ -> add "i0"
     | PUint64, RU64 x -> add ("u" ^ string_of_n x)
     | PUint64, _ -> add "u0"
     | PFloat64, RF64 x -> add ("f" ^ BigZ.format "%016x" (z_of_n x))
     | PFloat64, _ -> add "f0000000000000000"
     | (PString | PBytes), RStr b -> add ("s" ^ hexs b)
     | (PString | PBytes), _ -> add "s")
  | TStruct sid ->
    let sd = List.nth sc.structs (int_of_n sid) in
    if sd.s_oneof then
      (match v with
       | ROneof (tag, alt) when int_of_n tag > 0 ->
         let k = int_of_n tag in
         add (Printf.sprintf "<%d:" k);
         dump sc (List.nth sd.s_fields (k - 1)).f_type alt buf;
         add ">"
       | _ -> add "<0>")
    else begin
      let fields, present = (match v with RStruct (_, pr, fs) -> fs, z_of_n pr | _ -> [], BigZ.zero) in
      add "{";
      let oi = ref 0 in
      List.iteri (fun i (f : field) ->
        if i > 0 then add ",";
        let fv = (try List.nth fields i with _ -> RNil) in
        if f.f_opt then begin
          let pres = BigZ.testbit present !oi in
          incr oi;
          if pres then dump sc f.f_type fv buf else add "~"
        end else dump sc f.f_type fv buf) sd.s_fields;
      add "}"
    end
  | TArray et ->
    add "[";
    (match v with
     | RArr es -> List.iteri (fun i e -> if i > 0 then add ","; dump sc et e buf) es
     | _ -> ());
    add "]"
  | TMultimap mid ->
    let md = List.nth sc.multimaps (int_of_n mid) in
    add "(";
    (match v with
     | RMap kvs -> List.iteri (fun i (k, x) -> if i > 0 then add ";"; dump sc md.m_key k buf; add "="; dump sc md.m_val x buf) kvs
     | _ -> ());
    add ")"

let dump_root sc root v =
  let b = Buffer.create 256 in
  dump sc (TStruct root) v b;
  let mask = (match v with RStruct (m, _, _) -> string_of_n m | _ -> "0") in
  Buffer.contents b ^ "~" ^ mask

let errname = function EEof -> "eof" | ERefNum -> "refnum" | ELimit -> "limit" | EInvalid -> "invalid" | EOther -> "other"
let perrname = function PEnd -> "end" | PTrunc -> "trunc" | PBad e -> errname e

let sizes_fun name : n -> n =
  match Hashtbl.find_opt sizes_tbl name with
  | None -> (fun _ -> n_of_int 64)
  | Some t -> (fun sid -> n_of_int (try Hashtbl.find t (int_of_n sid) with Not_found -> 64))

let fuel = nat_of_int 3000
let loopk = nat_of_int 100000

(* frames spec: "fl:hex,fl:hex,..." (first = var header frame), optional trailing ",T" = truncated *)
let parse_frames_spec (s : string) : source =
  let parts = split_on ',' s in
  let trunc = List.mem "T" parts in
  let fs = List.filter_map (fun p -> if p = "T" then None else
    match String.split_on_char ':' p with
    | [fl; h] -> Some (n_of_int (int_of_string fl), bytes_of_hex h)
    | _ -> failwith "frame spec") parts in
  SrcFrames (fs, trunc)

let run_read (name : string) (root : int) (src : source) (want_reenc : bool) : string =
  let sc = Hashtbl.find schemas name in
  let rootn = n_of_int root in
  let sizes = sizes_fun name in
  let out = Buffer.create 1024 in
  (match reader_open sc rootn src with
   | Inl e -> Buffer.add_string out ("open:" ^ perrname e)
   | Inr rd ->
     Buffer.add_string out "open:ok";
     (match rd.rd_wire_schema with
      | None -> Buffer.add_string out " ws:-"
      | Some l -> Buffer.add_string out (" ws:" ^ String.concat "," (List.map string_of_n l)));
     let ud = List.sort compare (List.map (fun (k, v) -> hexs k ^ "=" ^ hexs v) rd.rd_user_data) in
     Buffer.add_string out (" ud:" ^ String.concat "," ud);
     let rec loop rd (asts : (rnode * wire) list) n =
       if n > 200000 then (Buffer.add_string out " end:toomany"; None) else
       match reader_read sizes fuel loopk false rd with
       | RdRecord (rd', w) ->
         Buffer.add_string out (" r:" ^ dump_root sc rootn rd'.rd_rec);
         loop rd' ((rd.rd_rec, w) :: asts) (n + 1)
       | RdEndOfFrame _ -> Buffer.add_string out " end:eof-frame"; None
       | RdEnd -> Buffer.add_string out " end:eos"; Some (List.rev asts)
       | RdErr (trunc, e) -> Buffer.add_string out (" end:" ^ (if trunc then "trunc" else errname e)); None in
     let asts = loop rd [] 0 in
     (* re-encode frame by frame and compare with the input *)
     (match asts, want_reenc with
      | Some asts, true ->
        let tree = rd.rd_tree in
        let rec frames src st asts k (acc : (n * wire list) list) =
          (match (match src with
                  | SrcBytes bs -> (match parse_frame bs with Inr ((fl, c), r) -> Some (fl, c, SrcBytes r) | Inl _ -> None)
                  | SrcFrames ((fl, c) :: r, t) -> Some (fl, c, SrcFrames (r, t))
                  | SrcFrames ([], _) -> None) with
           | None -> Buffer.add_string out " reenc:ok";
             (* the hypothesis of the whole-stream round-trip theorem (Props/C01.v), on the frames the
                implementation emitted: they are byte for byte frame_encode of these wire trees *)
             let ok = stream_ok sizes fuel tree (List.rev acc) wst0 RNil PositiveMap.Leaf in
             Buffer.add_string out (if ok then " sok:1" else " sok:0")
           | Some (fl, content, src') ->
             (match parse_data_frame tree content with
              | Inl _ -> Buffer.add_string out (Printf.sprintf " reenc:parse@%d" k)
              | Inr (nrec, _) ->
                let nr = int_of_n nrec in
                let rec split i l acc = if i = 0 then (List.rev acc, l) else
                    (match l with x :: r -> split (i - 1) r (x :: acc) | [] -> (List.rev acc, [])) in
                let (minep, rest) = split nr asts [] in
                let mine = List.map snd minep in
                let (_, oks) = frame_check sizes tree fl st minep in
                let nok = List.length (List.filter (fun b -> b) oks) in
                Buffer.add_string out (Printf.sprintf " wok:%d/%d" nok (List.length oks));
                let (st', bytes) = frame_encode tree fl st mine in
                Buffer.add_string out (Printf.sprintf " f:%d:%d:%d" (int_of_n fl) nr (List.length content));
                let (_, tr) = frame_encode_trace tree fl st mine in
                List.iter (fun ((bits, sd), td) ->
                  Buffer.add_string out (Printf.sprintf " m:%s:%s:%s" (string_of_n bits) (string_of_n sd)
                    (String.concat "," (List.map (fun (k, c) -> Printf.sprintf "%s=%s" (BigZ.to_string (z_of_pos k)) (string_of_n c)) td)))) tr;
                if bytes = content then frames src' st' rest (k + 1) ((fl, mine) :: acc)
                else Buffer.add_string out (Printf.sprintf " reenc:diff@%d:%s" k (hexs bytes)))) in
        (* skip the var header frame: reader_open consumed it; rd.rd_src is positioned after it *)
        frames rd.rd_src wst0 asts 0 []
      | _ -> Buffer.add_string out " reenc:skip"));
  Buffer.contents out

(* C06: interleaved appends and reads on one uncompressed stream *)
let run_c06 (name : string) (root : int) (ops : string list) : string =
  let sc = Hashtbl.find schemas name in
  let rootn = n_of_int root in
  let sizes = sizes_fun name in
  let pending = ref [] in           (* bytes not yet seen by a reader *)
  let rd : reader option ref = ref None in
  let out = List.filter_map (fun op ->
    match String.split_on_char ':' op with
    | ["a"; h] ->
      let b = bytes_of_hex h in
      (match !rd with
       | None -> pending := !pending @ b
       | Some r ->
         (match r.rd_src with
          | SrcBytes rest -> rd := Some { r with rd_src = SrcBytes (rest @ b) }
          | _ -> ()));
      None
    | ["o"] ->
      (match parse_fixed_header !pending with
       | Inl e -> Some ("o=" ^ perrname e)
       | Inr (_, rest) ->
         (match reader_open sc rootn (SrcBytes rest) with
          | Inl e -> Some ("o=" ^ perrname e)
          | Inr r -> rd := Some r; Some "o=ok"))
    | [("r" | "rf") as k] ->
      (match !rd with
       | None -> Some (k ^ "=noreader")
       | Some r ->
         (match reader_read sizes fuel loopk (k = "rf") r with
          | RdRecord (r', _) -> rd := Some r'; Some (k ^ "=rec:" ^ dump_root sc rootn r'.rd_rec)
          | RdEndOfFrame _ -> Some (k ^ "=eoframe")
          | RdEnd -> Some (k ^ "=eof")
          | RdErr (trunc, e) -> Some (k ^ "=" ^ (if trunc then "trunc" else "err:" ^ errname e))))
    | _ -> Some "badop") ops in
  String.concat " " out

(* ---- C09: parse a raw dump into a cval ---- *)
let parse_cval (s : string) : cval =
  let pos = ref 0 in
  let n = String.length s in
  let peek () = if !pos < n then s.[!pos] else '\000' in
  let rec value () : cval =
    match peek () with
    | '{' ->
      incr pos;
      if peek () = '}' then (incr pos; CStruct []) else begin
        let items = ref [] in
        let continue = ref true in
        while !continue do
          items := field () :: !items;
          if peek () = ',' then incr pos else continue := false
        done;
        if peek () <> '}' then failwith "expected }";
        incr pos;
        CStruct (List.rev !items)
      end
    | '<' ->
      incr pos;
      let j = ref !pos in
      while !j < n && s.[!j] >= '0' && s.[!j] <= '9' do incr j done;
      let tag = int_of_string (String.sub s !pos (!j - !pos)) in
      pos := !j;
      let v = if peek () = ':' then (incr pos; value ()) else CNil in
      if peek () <> '>' then failwith "expected >";
      incr pos;
      COneof (n_of_int tag, v)
    | '[' ->
      incr pos;
      if peek () = ']' then (incr pos; CArr []) else begin
        let items = ref [] in
        let continue = ref true in
        while !continue do
          items := value () :: !items;
          if peek () = ',' then incr pos else continue := false
        done;
        if peek () <> ']' then failwith "expected ]";
        incr pos;
        CArr (List.rev !items)
      end
    | '(' ->
      incr pos;
      if peek () = ')' then (incr pos; CMap []) else begin
        let items = ref [] in
        let continue = ref true in
        while !continue do
          let k = value () in
          if peek () <> '=' then failwith "expected =";
          incr pos;
          let v = value () in
          items := (k, v) :: !items;
          if peek () = ';' then incr pos else continue := false
        done;
        if peek () <> ')' then failwith "expected )";
        incr pos;
        CMap (List.rev !items)
      end
    | 'n' when !pos + 3 <= n && String.sub s !pos 3 = "nil" -> pos := !pos + 3; CNil
    | _ ->
      let j = ref (!pos + 1) in
      while !j < n && not (String.contains ",}>];)=" s.[!j]) do incr j done;
      let tok = String.sub s !pos (!j - !pos) in
      pos := !j;
      let body = String.sub tok 1 (String.length tok - 1) in
      (match tok.[0] with
       | 'b' -> CBool (body = "1")
       | 'u' -> CU64 (n_of_string body)
       | 'i' -> CI64 (cz_of_string body)
       | 'f' -> CF64 (n_of_z (BigZ.of_string ("0x" ^ body)))
       | 's' -> CStr (bytes_of_hex (if body = "" then "-" else body))
       | _ -> failwith ("bad prim " ^ tok))
  and field () : (bool option * cval) =
    match peek () with
    | '?' -> incr pos; (Some true, value ())
    | '~' -> incr pos; (Some false, value ())
    | _ -> (None, value ()) in
  let v = value () in
  if !pos <> n then failwith "trailing input";
  v

let handle line =
  match split_on ' ' line with
  | "schema" :: name :: toks -> Hashtbl.replace schemas name (parse_schema toks); "ok"
  | "sizes" :: name :: kvs ->
    let t = Hashtbl.create 16 in
    List.iter (fun kv -> match String.split_on_char ':' kv with
      | [k; v] -> Hashtbl.replace t (int_of_string k) (int_of_string v) | _ -> ()) kvs;
    Hashtbl.replace sizes_tbl name t; "ok"
  | ["read"; name; root; "raw"; hex] ->
    (match parse_fixed_header (bytes_of_hex hex) with
     | Inl e -> "open:hdr-" ^ perrname e
     | Inr (compr, rest) ->
       if int_of_n compr <> 0 then "open:compressed"
       else run_read name (int_of_string root) (SrcBytes rest) true)
  | ["read"; name; root; "frames"; spec] -> run_read name (int_of_string root) (parse_frames_spec spec) true
  | ["cmp"; a; b] ->
    (match cmp (parse_cval a) (parse_cval b) with Lt -> "-1" | Eq -> "0" | Gt -> "1")
  | "c06" :: name :: root :: ops -> run_c06 name (int_of_string root) ops
  | ["counts"; name; root] ->
    let sc = Hashtbl.find schemas name in
    String.concat "," (List.map string_of_n (own_counts sc (n_of_int (int_of_string root))))
  | _ -> "badcmd"

let () =
  try
    while true do
      let line = input_line stdin in
      if String.length line > 0 then
        print_endline (try handle line with e -> "EXC " ^ Printexc.to_string e)
    done
  with End_of_file -> ()
