#!/usr/bin/env python3
"""C03 — decoding and converting untrusted bytes never panics, hangs or over-allocates.
Valid streams of both roots (none / zstd) are corrupted (every single byte of small streams, random
multi-byte, inflated size fields, removed ranges, truncations) and fed to New*Reader + Read + the
OTLP converter under recover with a watchdog and allocation accounting; well-formed streams with
semantically out-of-range values (unknown enum numbers, point type not matching the metric type,
ids of the wrong length) are produced with the writer API.  Uncompressed inputs are also given to
the model reader: outcome class and number of records before the first error must agree."""
import collections, json, os, subprocess, sys, time
sys.path.insert(0, os.path.dirname(os.path.abspath(__file__)))
import vlib, streamlib
from vlib import SplitMix
from streamlib import parse_model_line

PROP = 'C03'
ALLOC_BOUND_MB = 64 + 32 + 32     # FrameSizeLimit + RecordAllocLimit + slack for decoder tables, zstd window, bufio, pdata


def build_c03():
    h = os.path.join(vlib.VERIF, 'harness_c03')
    out = os.path.join(vlib.BUILD, 'go_c03')
    with vlib.Lock('go'):
        vlib.sh(f'cp {vlib.REPO}/go/pdata/go.sum {h}/go.sum 2>/dev/null; true')
        rc, log = vlib.sh(f'go build -o {out} ./cmd', cwd=h, env=vlib.GOENV, timeout=1200)
    return rc == 0, log, out


def leb(v):
    out = bytearray()
    while v >= 0x80:
        out.append((v & 0x7f) | 0x80); v >>= 7
    out.append(v)
    return bytes(out)


def uvc_bits(v):
    """compact varint of the specification as a bit string"""
    for k, w in ((0, 0), (1, 2), (2, 5), (3, 12), (4, 19), (5, 26), (6, 33), (7, 48)):
        if v < (1 << w) or (w == 0 and v == 0):
            return '0' * k + '1' + (format(v, '0%db' % w) if w else '')
    raise ValueError(v)


def mutations(rng, stream, tier, small):
    """yield (kind, bytes)"""
    n = len(stream)
    if small:
        for i in range(n):                      # every single byte: every bit flipped (tiny streams) or one, and 0xff
            for bit in (range(8) if n <= 300 else [rng.below(8)]):
                b = bytearray(stream); b[i] ^= 1 << bit; yield ('bitflip', bytes(b))
            b = bytearray(stream); b[i] = 0xff; yield ('ff', bytes(b))
    cnt = 60 if tier == 'quick' else 600
    for _ in range(cnt):
        k = rng.below(7)
        b = bytearray(stream)
        if k == 0:
            for _ in range(1 + rng.below(6)):
                b[rng.below(n)] = rng.below(256)
            yield ('multi', bytes(b))
        elif k == 1:
            i = rng.below(n); j = min(n, i + 1 + rng.below(40))
            yield ('remove', bytes(b[:i] + b[j:]))
        elif k == 2:
            yield ('truncate', bytes(b[:rng.below(n)]))
        elif k == 3:      # inflate: overwrite a byte run with a huge varint
            i = rng.below(n)
            big = leb(rng.choice([(1 << 63) - 1, (1 << 64) - 1, 1 << 62, (1 << 26) + 1, 1 << 32, (1 << 25) + 7, 1 << 47, (1 << 48) - 1]))
            yield ('inflate', bytes(b[:i] + big + b[i + rng.below(3):]))
        elif k == 4:
            i = rng.below(n)
            yield ('insert', bytes(b[:i] + bytes(rng.below(256) for _ in range(1 + rng.below(8))) + b[i:]))
        elif k == 5:
            i = rng.below(n); j = min(n, i + rng.below(30))
            yield ('dup', bytes(b[:j] + b[i:j] + b[j:]))
        else:
            i = rng.below(n)
            for t in range(i, min(n, i + 1 + rng.below(12))):
                b[t] = 0
            yield ('zero-run', bytes(b))
    for _ in range(10 if tier == 'quick' else 100):
        yield ('random', bytes(rng.below(256) for _ in range(rng.below(200))))
        yield ('hdr+random', stream[:7] + bytes(rng.below(256) for _ in range(rng.below(300))))


def semantic_cases(sch):
    """well-formed streams carrying values that OTLP cannot express"""
    base = lambda mtype, pv, temp='0', ex=None: [[[]], ['6d', '', '', str(mtype), [], [], str(temp), False], ['', [], '0'], ['', '', '', [], '0'], [],
                                                 ['1', '2', pv, ex or []]]
    out = []
    def add(name, v, calls=()):
        ops = [{'op': 'set', 'v': v, 'freeze': True}] + list(calls) + [{'op': 'w'}, {'op': 'f'}]
        out.append(dict(id='sem-' + name, root='Metrics', opts={'compression': 0, 'flags': 0}, ops=ops, semantic=name))
    add('unknown-metric-type', base(0, [1, '5']), [{'op': 'call', 'path': ['Metric'], 'm': 'SetType', 'args': [99]}])
    add('unknown-temporality', base(1, [1, '5'], 0), [{'op': 'call', 'path': ['Metric'], 'm': 'SetAggregationTemporality', 'args': [7]}])
    add('gauge-with-histogram-point', base(0, [3, ['5', None, None, None, ['1', '2']]]))
    add('histogram-with-int-point', base(2, [1, '5']))
    add('summary-with-exphistogram-point', base(4, [4, ['5', None, None, None, '0', '0', ['0', []], ['0', []], '0000000000000000']]))
    add('exemplar-short-trace-id', base(0, [1, '5'], 0, [['5', [1, '7'], '0102', '0a0b0c', []]]))
    add('exemplar-long-span-id', base(0, [1, '5'], 0, [['5', [2, '3ff0000000000000'], '00' * 40, '11' * 16, []]]))
    add('exphistogram-with-summary-point', base(3, [5, ['1', '3ff0000000000000', []]]))
    return out


def nesting_tie(verdict, stats):
    """Tie of coq/Stream/Nesting.v to the source: the limit constant, the guard's two operations and the
    three generated decoders that call them (struct, oneof, multimap) are transcribed from /repo."""
    import re
    repo = vlib.REPO
    problems = []
    try:
        lim_src = open(os.path.join(repo, 'go/pkg/limits.go')).read()
        chk = open(os.path.join(repo, 'go/pkg/allocsizechecker.go')).read()
        m = re.search(r'const\s+RecordNestingLimit\s*=\s*([0-9<\s]+)', lim_src)
        go_lim = eval(m.group(1).strip(), {}) if m else None
        coq_lim = int(re.search(r'Definition record_nesting_limit : N := (\d+)\.',
                                open(os.path.join(vlib.COQ, 'Stream/Nesting.v')).read()).group(1))
        if go_lim != coq_lim:
            problems.append(f'RecordNestingLimit is {go_lim} in go/pkg/limits.go, {coq_lim} in the model')
        def body(name):
            mm = re.search(r'func \(a \*AllocSizeChecker\) ' + name + r'\(\)[^{]*\{(.*?)\n\}', chk, re.S)
            return re.sub(r'\s+', '', re.sub(r'//[^\n]*', '', mm.group(1))) if mm else None
        want = {'EnterNested': 'a.nestingDepth++ifa.nestingDepth>RecordNestingLimit{returnErrRecordNestingLimitExceeded}returnnil',
                'LeaveNested': 'a.nestingDepth--'}
        for name, w in want.items():
            if body(name) != w:
                problems.append(f'{name} no longer reads as the modelled operation: {body(name)!r}')
        if 'a.nestingDepth=0' not in (body('ResetAllocSize') or ''):
            problems.append('ResetAllocSize does not reset nestingDepth')
        for t in ('struct', 'oneof', 'multimap'):
            tm = open(os.path.join(repo, f'stefc/templates/go/{t}.go.tmpl')).read()
            e, l = tm.count('allocSizeChecker.EnterNested()'), tm.count('allocSizeChecker.LeaveNested()')
            stats[f'nesting_calls_{t}'] = f'{e}/{l}'
            if e != 1 or l != 1:
                problems.append(f'{t}.go.tmpl: {e} EnterNested / {l} LeaveNested calls (model: one of each per decoder)')
    except Exception as ex:  # the source moved: the transcription cannot be checked any more
        problems.append(f'cannot read the nesting guard: {ex!r}')
    stats['nesting_tie'] = 'ok' if not problems else 'broken'
    if problems:
        verdict.violation(dict(broken='correspondence of coq/Stream/Nesting.v (theorems C03_nesting_guard, C03_record_nesting_guard)',
                               problems=problems), 'nesting guard: model and source differ: ' + '; '.join(problems), no_input=True)


def main():
    seed, tier = vlib.seed_and_tier(sys.argv[1] if len(sys.argv) > 1 else 'quick')
    t0 = time.time()
    verdict = vlib.Verdict(PROP)
    info = vlib.proof_stage(PROP, verdict)
    ok_oc, log_oc = vlib.ocaml_build(vlib.ALL_DRIVERS)
    ok_go, log_go, gobin, sch, sj = streamlib.build_otel()
    ok_c3, log_c3, c3bin = build_c03()
    rng = SplitMix(seed)
    counters, stats, samples = collections.Counter(), collections.Counter(), []
    known = {k['id']: k for k in vlib.load_known() if k['property'] == PROP and k.get('status') == 'known'}
    ncases = 0
    nesting_tie(verdict, stats)
    if not (ok_go and ok_c3):
        verdict.violation(dict(broken='go build failed', log=(log_go + log_c3)[-3000:]), 'harness does not build', no_input=True)
    elif not ok_oc:
        verdict.violation(dict(broken='extraction/ocaml build failed', log=log_oc[-3000:]), 'model does not extract', no_input=True)
    else:
        h = streamlib.Harness('otel', sch, gobin, sj)
        # 1. valid seeds
        seeds = []
        for i in range(6 if tier == 'quick' else 30):
            root = 'Metrics' if i % 2 == 0 else 'Spans'
            opts = dict(compression=(i // 2) % 2, maxframe=rng.choice([0, 300]), maxdict=rng.choice([0, 200]), flags=rng.choice([0, 1, 4, 5]),
                        descriptor=rng.chance(1, 2), userdata={'k': 'v'} if rng.chance(1, 2) else {})
            ops = streamlib.gen_history(sch, root, rng, 1 + rng.below(3 if i < 2 else 12), tiny=(i < 2))
            seeds.append(dict(id=f'seed{i}', root=root, opts=opts, ops=ops))
        # streams written for an OLDER schema (descriptor with fewer oneof alternatives / fields): the
        # stream's own counts, not the compiled-in ones, bound tags and field masks
        import copy as _copy, gen_schemas as _gs
        for i, root in enumerate(('Metrics', 'Spans', 'Metrics')):
            sh = _copy.deepcopy(sch)
            for st in sh['structs']:
                if len(st['fields']) > 2 and (i == 2 or rng.chance(1, 2)):
                    st['fields'] = st['fields'][:len(st['fields']) - 1 - rng.below(min(3, len(st['fields']) - 1))]
            rcm, mo = vlib.run_lines(h.model, ['schema shrunk%d %s' % (i, ' '.join(_gs.model_tokens(sh))), f'counts shrunk{i} {h.rootid(root)}'])
            counts = [int(x) for x in mo[-1].split(',') if x]
            ops = streamlib.gen_history(sch, root, rng, 1 + rng.below(2), tiny=True)
            seeds.append(dict(id=f'seed-shrunk{i}', root=root, opts=dict(compression=0, maxframe=0, maxdict=0, flags=0, descriptor=True, userdata={}, schema=counts), ops=ops))
        # oneof-rich records under schemas that keep only the first c alternatives of every oneof
        anyv = [['6b31', [1, '61']], ['6b32', [2, True]], ['6b33', [3, '7']], ['6b34', [4, '3ff0000000000000']], ['6b35', [5, [[1, '62']]]],
                ['6b36', [6, [['6b', [3, '1']]]]], ['6b37', [7, '0102']]]
        rec = [[[]], ['6d', '', '', '0', [], [], '0', False], ['', [], '0'], ['', '', '', [], '0'], anyv, ['1', '2', [2, '3ff0000000000000'], []]]
        for c in (3, 4, 5, 6):
            sh = _copy.deepcopy(sch)
            for st in sh['structs']:
                if st['oneof'] and len(st['fields']) > c:
                    st['fields'] = st['fields'][:c]
            rcm, mo = vlib.run_lines(h.model, ['schema oneof%d %s' % (c, ' '.join(_gs.model_tokens(sh))), f'counts oneof{c} {h.rootid("Metrics")}'])
            counts = [int(x) for x in mo[-1].split(',') if x]
            seeds.append(dict(id=f'seed-oneof{c}', root='Metrics', opts=dict(compression=0, maxframe=0, maxdict=0, flags=0, descriptor=True, userdata={}, schema=counts),
                              ops=[{'op': 'set', 'v': rec, 'freeze': True}, {'op': 'w'}, {'op': 'f'}]))
        sem = semantic_cases(sch)
        outs, stderr, rc = h.run_go(seeds + sem)
        cases = []
        for c, o in zip(seeds, outs[:len(seeds)]):
            stream = bytes.fromhex(o['stream'])
            if len(stream) < 10 or o.get('werr') or o.get('panic'):
                verdict.violation(dict(case=c, werr=o.get('werr'), panic=o.get('panic')), f'{c["id"]}: seed stream could not be written: {o.get("werr") or o.get("panic")}')
                continue
            small = len(stream) <= (400 if tier == 'quick' else 3000)
            cases.append(dict(id=c['id'] + ':valid', root=c['root'], stream=stream.hex(), kind='valid', compr=c['opts']['compression']))
            for kind, m in mutations(rng.fork(), stream, tier, small):
                cases.append(dict(id=f'{c["id"]}:{kind}:{len(cases)}', root=c['root'], stream=m.hex(), kind=kind, compr=c['opts']['compression']))
        # crafted size tables: many sibling columns each within the declared frame size, together far above it
        for c, o in zip(seeds[:2], outs[:2]):
            if c['opts']['compression'] != 0:
                continue
            stream = bytes.fromhex(o['stream'])
            hdr_end = o['chunks'][0] + o['chunks'][1]
            st = sch['structs'][h.rootid(c['root'])]
            def nchildren(t):
                if t['k'] == 'prim': return 0
                if t['k'] == 'array': return 1
                if t['k'] == 'multimap': return 2
                return len(sch['structs'][t['id']]['fields'])
            for S in (20 << 20, 30 << 20, 60 << 20):
                sizes = [1]
                for f in st['fields']:
                    sizes += [S] + [0] * nchildren(f['type'])
                bits = ''.join(uvc_bits(x) for x in sizes)
                bits += '0' * (-len(bits) % 8)
                table = bytes(int(bits[i:i + 8], 2) for i in range(0, len(bits), 8))
                content = leb(1) + leb(len(table)) + table + b'\x00'
                frame = bytes([0]) + leb(61 << 20) + content
                cases.append(dict(id=f'{c["id"]}:sizetable:{S >> 20}', root=c['root'], stream=(stream[:hdr_end] + frame).hex(), kind='crafted-size-table', compr=0))
        # crafted zstd frames: the declared UNCOMPRESSED size of the frame is far above the frame size limit while the
        # compressed bytes are few, and inside the compressed content the size of the column size table / of a column
        # is inflated too (the zstd content is a hand-made zstd frame with one raw block; restart flags all set)
        for c, o in zip(seeds, outs):
            if c['opts']['compression'] != 1:
                continue
            stream = bytes.fromhex(o['stream'])
            hdr_end = o['chunks'][0] + o['chunks'][1]
            def zraw(content):
                assert len(content) < 1 << 16
                bh = (len(content) << 3) | 1                 # last block, raw
                return bytes([0x28, 0xb5, 0x2f, 0xfd, 0x00, 0x58]) + bytes([bh & 255, (bh >> 8) & 255, (bh >> 16) & 255]) + content
            for nm, content, usize in (('table-1GiB', leb(1) + leb(1 << 30), 1 << 40), ('table-100MiB', leb(1) + leb(100 << 20), 200 << 20),
                                       ('column-1GiB', leb(1) + leb(5) + bytes([0xff, 0xff, 0xff, 0xff, 0xff]), 3 << 30),
                                       ('declared-65MiB', leb(1) + leb(1) + b'\x80', 65 << 20)):
                z = zraw(content)
                frame = bytes([7]) + leb(usize) + leb(len(z)) + z
                cases.append(dict(id=f'{c["id"]}:zstd-inflated:{nm}', root=c['root'], stream=(stream[:hdr_end] + frame).hex(), kind='crafted-zstd-sizes', compr=1))
            break
        for c, o in zip(sem, outs[len(seeds):]):
            cases.append(dict(id=c['id'], root='Metrics', stream=o['stream'], kind='semantic', compr=0, semantic=c['semantic']))
        # deep nesting: a recursive value (AnyValue -> array -> AnyValue ...) grown by 120000 levels with
        # every record, each step within the record allocation limit; the decoders are recursive, so without
        # a nesting limit the reader's stack grows until the Go runtime kills the process (fatal error, not a
        # panic). The stream is synthesized at the byte level (tools/deepstream.py) from four frames written
        # by the implementation, and only after the synthesis reproduces the implementation's own frames.
        import deepstream
        mkdeep = lambda d: [[[]], ['6d', '', '', '0', [], [], '0', False], ['', [], '0'], ['', '', '', [], '0'],
                            [['61', deepstream.nested_value(d)]], ['1', '2', [1, '4'], []]]
        base_case = dict(id='deep-base', root='Metrics', opts=dict(compression=0, maxframe=0, maxdict=0, flags=0, descriptor=False, userdata={}),
                         ops=sum(([{'op': 'set', 'v': mkdeep(d)}, {'op': 'w'}, {'op': 'f'}] for d in (8, 16, 24, 32)), []))
        bo, _, _ = h.run_go([base_case])
        try:
            syn = deepstream.Synth(bytes.fromhex(bo[0]['stream']))
        except Exception as e:      # the writer's layout changed: the synthesis is refused rather than guessed
            syn = None
            verdict.violation(dict(case=base_case, error=repr(e), broken='deep-nesting generator: template frames do not extend periodically'),
                              'deep-nesting: cannot synthesize the input', no_input=True)
        if syn:
            nd = 60 if tier == 'quick' else 90
            path = os.path.join(vlib.BUILD, 'c03_deep.bin')
            syn.write(path, [120000 * k for k in range(1, nd + 1)])
            cases.append(dict(id=f'deep-nesting-120000x{nd}', root='Metrics', file=path, stream='', kind='deep-nesting', compr=0, timeout_s=300,
                              generator=f'tools/deepstream.py: depths 120000*k, k=1..{nd}, template = records of depth 8,16,24,32 written by the harness'))
            path2 = os.path.join(vlib.BUILD, 'c03_deep_small.bin')
            syn.write(path2, [4000 * k for k in range(1, 11)])
            cases.append(dict(id='deep-nesting-4000x10', root='Metrics', file=path2, stream='', kind='deep-valid', compr=0,
                              generator='tools/deepstream.py: depths 4000*k, k=1..10'))
            # boundary of the nesting guard: the counted depth of these records is d + c with 1 <= c <= 8 (the
            # enclosing Metrics struct, attribute multimap and oneof levels), so by C03_record_nesting_guard the
            # record of chain depth L-8 is accepted and the one of depth L refused (L = record_nesting_limit)
            import re as _re
            L = int(_re.search(r'record_nesting_limit : N := (\d+)\.', open(os.path.join(vlib.COQ, 'Stream/Nesting.v')).read()).group(1))
            for nm, d, kind in (('under', L - 8, 'deep-boundary-ok'), ('over', L, 'deep-boundary-over')):
                pb = os.path.join(vlib.BUILD, f'c03_deep_{nm}.bin')
                syn.write(pb, [d])
                cases.append(dict(id=f'deep-boundary-{nm}-{d}', root='Metrics', file=pb, stream='', kind=kind, compr=0, timeout_s=120,
                                  generator=f'tools/deepstream.py: one record of chain depth {d}'))
        ncases = len(cases)
        for c in cases:
            stats['kind_' + c['kind']] += 1
        # 2. run on the implementation (process restarts after a hang / fatal error)
        results = {}
        pending = list(cases)
        while pending:
            inp = '\n'.join(json.dumps(dict(id=c['id'], root=c['root'], stream=c['stream'], file=c.get('file', ''), timeout_s=c.get('timeout_s', 20))) for c in pending) + '\n'
            p = subprocess.run([c3bin], input=inp.encode(), stdout=subprocess.PIPE, stderr=subprocess.PIPE, preexec_fn=vlib._big_stack)
            got = []
            for l in p.stdout.decode(errors='replace').split('\n'):
                if l.strip():
                    try:
                        got.append(json.loads(l))
                    except ValueError:      # the process died while writing this line
                        break
            for g in got:
                results[g['id']] = g
            if len(got) < len(pending):
                bad = pending[len(got)]
                if not (got and got[-1].get('hang')):
                    results[bad['id']] = dict(id=bad['id'], fatal=p.stderr.decode()[-1500:])
                    pending = pending[len(got) + 1:]
                else:
                    pending = pending[len(got):]
            else:
                pending = []
        # 3. oracle
        for c in cases:
            r = results.get(c['id'], {})
            replay = dict(case=dict(id=c['id'], root=c['root'], kind=c['kind'], stream=c['stream'], generator=c.get('generator')), result=r,
                          how_to_run=f"echo '{{\"id\":\"x\",\"root\":\"{c['root']}\",\"stream\":\"<stream>\"}}' | build/go_c03")
            bad = None
            if r.get('fatal'):
                bad = ('fatal', 'process died (fatal error: stack overflow / out of memory?)')
            elif r.get('hang'):
                bad = ('hang', f'no result within {c.get("timeout_s", 20)} s')
            elif r.get('panic'):
                bad = ('panic', f'reader panicked: {r["panic"][:100]}')
            elif r.get('conv_panic'):
                bad = ('conv-panic', f'converter panicked: {r["conv_panic"][:100]}')
            elif r.get('alloc_mb', 0) > ALLOC_BOUND_MB:
                bad = ('alloc', f'{r["alloc_mb"]:.0f} MiB allocated for a {len(c["stream"]) // 2}-byte input (bound {ALLOC_BOUND_MB} MiB)')
            elif c['kind'] == 'deep-valid' and (r.get('open') != 'ok' or r.get('err') != 'eof' or r.get('nrec') != 11):
                bad = ('valid-rejected', f'valid stream nesting 40000 levels rejected: {r.get("open")} {r.get("nrec")} {r.get("err")}')
            elif c['kind'] == 'deep-boundary-ok' and (r.get('open') != 'ok' or r.get('err') != 'eof' or r.get('nrec') != 2):
                bad = ('valid-rejected', f'record nested 8 levels below the nesting limit rejected: {r.get("open")} {r.get("nrec")} {r.get("err")}')
            elif c['kind'] == 'deep-boundary-over' and not (r.get('open') == 'ok' and r.get('nrec') == 1 and 'nesting limit' in str(r.get('err'))):
                bad = ('nesting-accepted', f'record nested deeper than the nesting limit not refused: {r.get("open")} {r.get("nrec")} {r.get("err")}')
            elif c['kind'] == 'valid' and (r.get('open') != 'ok' or r.get('err') != 'eof'):
                bad = ('valid-rejected', f'valid stream rejected: {r.get("open")} {r.get("err")}')
            if bad:
                matched = False
                for kid, k in known.items():
                    mt = k.get('matcher', {})
                    if mt.get('kind') == bad[0] and (not mt.get('contains') or mt['contains'] in (r.get('conv_panic') or r.get('panic') or '')):
                        verdict.known_finding(kid, k['what_fails']); matched = True
                        break
                if not matched:
                    verdict.violation(replay, f'{c["id"]}: {bad[1]}')
                counters[bad[0]] += 1
            else:
                counters['ok_' + ('accepted' if r.get('err') == 'eof' and r.get('open') == 'ok' else 'rejected')] += 1
            stats['max_alloc_mb'] = max(stats['max_alloc_mb'], int(r.get('alloc_mb', 0)))
        # 4. model on uncompressed inputs
        mcases = [c for c in cases if c['compr'] == 0 and len(c['stream']) >= 2]
        mlines = h.run_model([(c['root'], c['stream'], None, 0) for c in mcases], timeout=3000)
        for c, ml in zip(mcases, mlines):
            r = results.get(c['id'], {})
            if r.get('fatal') or r.get('hang') or r.get('panic'):
                continue
            m = parse_model_line(ml)
            if ml.startswith('EXC'):
                verdict.violation(dict(case=dict(id=c['id'], root=c['root'], stream=c['stream']), model=ml[:300], broken='model reader raised an exception'),
                                  f'{c["id"]}: model reader failed', no_input=True)
                continue
            go_open = r.get('open') == 'ok'
            m_open = m.get('open') == 'ok'
            # N20: the Go reader loads a frame lazily and accepts a frame header that declares more bytes
            # than the input holds as long as the columns are complete; the model wants the declared bytes
            limitish = (m.get('end') == 'trunc') or 'limit' in (m.get('end') or '') or 'limit' in (r.get('err') or '').lower() or 'alloc' in (r.get('err') or '').lower() or 'other' in (m.get('end') or '')
            # io.EOF is returned by the Go reader both at the clean end and when a decoder over-reads a
            # column: compare only "clean end in the model => io.EOF in the implementation"
            end_ok = (m.get('end') != 'eos') or (r.get('err') == 'eof')
            if go_open != m_open or (go_open and not limitish and (r.get('nrec') != len(m.get('recs', [])) or not end_ok)):
                verdict.violation(dict(case=dict(id=c['id'], root=c['root'], kind=c['kind'], stream=c['stream']), implementation=r, model=m.get('raw'),
                                       broken='correspondence C03: outcome class / records before first error'),
                                  f'{c["id"]}: model and implementation disagree on {c["kind"]} input ({r.get("open")},{r.get("nrec")},{r.get("err")} vs {m.get("open")},{len(m.get("recs", []))},{m.get("end")})',
                                  no_input=True)
                counters['correspondence'] += 1
            else:
                counters['model_agree'] += 1
        for c in cases[1:2] + cases[len(cases) // 2:len(cases) // 2 + 1] + cases[-1:]:
            samples.append(dict(id=c['id'], kind=c['kind'], bytes=len(c['stream']) // 2, result={k: v for k, v in results.get(c['id'], {}).items() if k != 'id'}))
    if info['broken'] and not verdict.violations:
        verdict.violation(dict(broken=info['broken']), 'proof obligation no longer checks: ' + '; '.join(info['broken'])[:300], no_input=True)
    coverage = dict(info)
    coverage.pop('broken', None)
    coverage.update(dict(broken_obligations=info['broken'],
                         trusted_base=vlib.TRUSTED_COMMON + ['Go runtime memory statistics (runtime.MemStats.TotalAlloc) for the allocation bound; zstd internals and pdata library not modelled'],
                         evaluations=ncases, distinct_nontrivial=len(set(c['stream'] for c in cases)) if ncases else 0,
                         rule='one evaluation = one byte string given to New*Reader/Read/convert; distinct by content; kinds: valid, every-single-byte corruption, multi-byte, removed range, truncation, inflated varint, inserted bytes, duplicated range, zero run, random bytes, semantic out-of-range',
                         distribution=dict(stats), outcome_counts=dict(counters), samples=samples, exhaustive=False))
    rc = verdict.finish()
    vlib.write_evidence(PROP, tier, seed, coverage, time.time() - t0, len(verdict.violations),
                        ['allocation bound checked on TotalAlloc per input (includes garbage), not on live heap',
                         'decoder recursion depth (Go stack) is exercised only as far as the generated inputs nest'])
    sys.exit(rc)


if __name__ == '__main__':
    main()
